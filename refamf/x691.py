# Independent X.691 ALIGNED PER reference for primitive types (draft of Spec/X691.v)
class W:
    def __init__(self): self.b=[]
    def put(self,v,n):
        assert 0<=v<(1<<n) if n>0 else v==0, (v,n)
        for i in range(n-1,-1,-1): self.b.append((v>>i)&1)
    def align(self):
        while len(self.b)%8: self.b.append(0)
    def bytes_(self,data):
        for x in data: self.put(x,8)
    def bits_(self,data,nbits):
        for i in range(nbits): self.b.append((data[i//8]>>(7-i%8))&1)
    def out(self):
        b=list(self.b)
        while len(b)%8: b.append(0)
        if not b: b=[0]*8
        return bytes(int(''.join(map(str,b[i:i+8])),2) for i in range(0,len(b),8)).hex()
class Frag(Exception): pass
def octs_unsigned(n):
    k=1
    while n>=(1<<(8*k)): k+=1
    return k
def octs_signed(v):
    k=1
    while not (-(1<<(8*k-1))<=v<(1<<(8*k-1))): k+=1
    return k
def cwn(w,rng,v):
    assert 0<=v<rng
    if rng==1: return
    if rng<=255: w.put(v,(rng-1).bit_length())
    elif rng==256: w.align(); w.put(v,8)
    elif rng<=65536: w.align(); w.put(v,16)
    else:
        mx=octs_unsigned(rng-1); n=octs_unsigned(v)
        cwn(w,mx,n-1); w.align(); w.put(v,8*n)
def lendet(w,n):
    w.align()
    if n<128: w.put(n,8)
    elif n<16384: w.put(0x8000|n,16)
    else: raise Frag()
EXACT_HITS=0
SIZES=[]
def lv_octets(w,data):
    """general length determinant + contents, with fragmentation (X.691 10.9.3.8): blocks of m*16K octets (m = 4..1), each
    preceded by the octet 11000mmm, then the remainder (possibly empty) with an ordinary length determinant"""
    global EXACT_HITS
    n=len(data); i=0
    SIZES.append(n)
    if n and n%16384==0: EXACT_HITS+=1      # the remainder is empty: the encoding ends with the length octet 00
    while n-i>=16384:
        m=min((n-i)//16384,4); w.align(); w.put(0xC0|m,8); w.bytes_(data[i:i+m*16384]); i+=m*16384
    lendet(w,n-i)
    if n-i: w.align(); w.bytes_(data[i:])
def unconstrained(w,v):
    k=octs_signed(v); lendet(w,k); w.put(v%(1<<(8*k)),8*k)
def semi(w,n):
    k=octs_unsigned(n); lendet(w,k); w.put(n,8*k)
def enc_int(w,lb,ub,ext,v):
    """returns False if v violates the constraint"""
    inroot=(lb is None or v>=lb) and (ub is None or v<=ub)
    if ext:
        w.put(0 if inroot else 1,1)
        if not inroot: unconstrained(w,v); return True
    elif not inroot: return False
    if lb is not None and ub is not None: cwn(w,ub-lb+1,v-lb)
    elif lb is not None: semi(w,v-lb)
    else: unconstrained(w,v)
    return True
def enc_len(w,lb,ub,n):
    # length determinant for a SIZE(lb..ub) constrained (non-extended) value
    if ub is not None and ub<65536:
        if lb!=ub: cwn(w,ub-lb+1,n-lb)
    else: lendet(w,n)
def enc_octets(w,lb,ub,ext,data):
    n=len(data); lb0=lb or 0
    inroot=n>=lb0 and (ub is None or n<=ub)
    if ext:
        w.put(0 if inroot else 1,1)
        if not inroot:
            lendet(w,n)
            if n: w.align(); w.bytes_(data)
            return True
    elif not inroot: return False
    if ub is not None and ub<65536 and lb0==ub:
        if n<=2: w.bytes_(data)
        else: w.align(); w.bytes_(data)
        return True
    if ub is None or ub>=65536:
        if lb0==0: lv_octets(w,data); return True
    enc_len(w,lb0,ub,n)
    if n: w.align(); w.bytes_(data)
    return True
def enc_bits(w,lb,ub,ext,data,nbits):
    n=nbits; lb0=lb or 0
    inroot=n>=lb0 and (ub is None or n<=ub)
    if ext:
        w.put(0 if inroot else 1,1)
        if not inroot:
            lendet(w,n)
            if n: w.align(); w.bits_(data,n)
            return True
    elif not inroot: return False
    if ub is not None and ub<65536 and lb0==ub:
        if n<=16: w.bits_(data,n)
        else: w.align(); w.bits_(data,n)
        return True
    enc_len(w,lb0,ub,n)
    if n: w.align(); w.bits_(data,n)
    return True
def enc_enum(w,ub,ext,idx):
    if idx>ub: return False   # extension additions unsupported by the library: treated as outside
    if ext: w.put(0,1)
    cwn(w,ub+1,idx); return True
def enc_seqof_int(w,lb,ub,sizeext,elb,eub,eext,xs):
    n=len(xs); lb0=lb or 0
    inroot=n>=lb0 and (ub is None or n<=ub)
    if sizeext:
        w.put(0 if inroot else 1,1)
        if not inroot: lendet(w,n)
    elif not inroot: return False
    if inroot: enc_len(w,lb0,ub,n)
    for x in xs:
        if not enc_int(w,elb,eub,eext,x): return False
    return True
