# Independent crypto for the reference AMF prototype: AES-128, CMAC, Milenage, 5G KDF tree, NIA2/NEA2
import hmac, hashlib
def _gm(a,b):
    r=0
    for _ in range(8):
        if b&1: r^=a
        h=a&0x80; a=(a<<1)&0xff
        if h: a^=0x1b
        b>>=1
    return r
def _inv(x):
    if x==0: return 0
    r=1
    for _ in range(254): r=_gm(r,x)
    return r
def _sb(x):
    i=_inv(x); r=i
    for k in range(1,5): r^=((i<<k)|(i>>(8-k)))&0xff
    return r^0x63
SBOX=[_sb(x) for x in range(256)]
def _expand(key):
    w=[list(key[4*i:4*i+4]) for i in range(4)]; rc=1
    for i in range(4,44):
        t=list(w[i-1])
        if i%4==0:
            t=t[1:]+t[:1]; t=[SBOX[b] for b in t]; t[0]^=rc; rc=_gm(rc,2)
        w.append([a^b for a,b in zip(w[i-4],t)])
    return [sum(w[4*r:4*r+4],[]) for r in range(11)]
def aes(key,blk):
    rk=_expand(key); s=[a^b for a,b in zip(blk,rk[0])]
    for rnd in range(1,11):
        s=[SBOX[b] for b in s]
        s=[s[(i+4*(i%4))%16] for i in range(16)]  # shift rows (column-major state)
        if rnd<10:
            n=[]
            for c in range(4):
                a=s[4*c:4*c+4]
                n+=[_gm(a[0],2)^_gm(a[1],3)^a[2]^a[3], a[0]^_gm(a[1],2)^_gm(a[2],3)^a[3], a[0]^a[1]^_gm(a[2],2)^_gm(a[3],3), _gm(a[0],3)^a[1]^a[2]^_gm(a[3],2)]
            s=n
        s=[a^b for a,b in zip(s,rk[rnd])]
    return bytes(s)
assert aes(bytes(range(16)),bytes.fromhex('00112233445566778899aabbccddeeff')).hex()=='69c4e0d86a7b0430d8cdb78070b4c55a'
def xor(a,b): return bytes(x^y for x,y in zip(a,b))
def _dbl(b):
    v=int.from_bytes(b,'big')<<1
    if v>>128: v=(v&((1<<128)-1))^0x87
    return v.to_bytes(16,'big')
def cmac(key,msg):
    k1=_dbl(aes(key,bytes(16))); k2=_dbl(k1)
    n=max(1,(len(msg)+15)//16)
    last=msg[16*(n-1):]
    if len(last)==16 and len(msg)>0: last=xor(last,k1)
    else: last=xor(last+b'\x80'+bytes(15-len(last)),k2)
    x=bytes(16)
    for i in range(n-1): x=aes(key,xor(x,msg[16*i:16*i+16]))
    return aes(key,xor(x,last))
assert cmac(bytes.fromhex('2b7e151628aed2a6abf7158809cf4f3c'),b'').hex()=='bb1d6929e95937287fa37d129b756746'
def nia2(key,count,bearer,direction,msg):
    return cmac(key,count.to_bytes(4,'big')+bytes([(bearer<<3)|(direction<<2),0,0,0])+msg)[:4]
def nea2(key,count,bearer,direction,msg):
    ctr=int.from_bytes(count.to_bytes(4,'big')+bytes([(bearer<<3)|(direction<<2)])+bytes(11),'big'); out=b''
    for i in range(0,len(msg),16):
        out+=xor(msg[i:i+16],aes(key,((ctr+i//16)%(1<<128)).to_bytes(16,'big')))
    return out
def rot(b,r): return b[r:]+b[:r]   # rotate left by r octets
def opc_of(k,op): return xor(aes(k,op),op)
def milenage(k,opc,rand,sqn,amf):
    temp=aes(k,xor(rand,opc))
    in1=sqn+amf+sqn+amf
    c=lambda n: bytes(15)+bytes([n])
    out1=xor(aes(k,xor(xor(temp,rot(xor(in1,opc),8)),c(0))),opc)
    out2=xor(aes(k,xor(rot(xor(temp,opc),0),c(1))),opc)
    out3=xor(aes(k,xor(rot(xor(temp,opc),4),c(2))),opc)
    out4=xor(aes(k,xor(rot(xor(temp,opc),8),c(4))),opc)
    out5=xor(aes(k,xor(rot(xor(temp,opc),12),c(8))),opc)
    return dict(mac_a=out1[:8],mac_s=out1[8:],res=out2[8:],ak=out2[:6],ck=out3,ik=out4,aks=out5[:6])
_m=milenage(bytes.fromhex('465b5ce8b199b49faa5f0a2ee238a6bc'),bytes.fromhex('cd63cb71954a9f4e48a5994e37a02baf'),bytes.fromhex('23553cbe9637a89d218ae64dae47bf35'),bytes.fromhex('ff9bb4d0b607'),bytes.fromhex('b9b9'))
assert _m['mac_a'].hex()=='4a9ffac354dfafb3' and _m['res'].hex()=='a54211d5e3ba50bf' and _m['ck'].hex()=='b40ba9a3c58b2a05bbf0d987b21bf8cb' and _m['ik'].hex()=='f769bcd751044604127672711c6d3441' and _m['ak'].hex()=='aa689c648370' and _m['aks'].hex()=='451e8beca43b', _m
def kdf(key,fc,*ps):
    s=bytes([fc])
    for p in ps: s+=p+len(p).to_bytes(2,'big')
    return hmac.new(key,s,hashlib.sha256).digest()
def key_tree(ck,ik,snn,rand,res,sqn_xor_ak,supi,ea,ia):
    key=ck+ik
    xres=kdf(key,0x6b,snn,rand,res)[16:]
    kausf=kdf(key,0x6a,snn,sqn_xor_ak)
    kseaf=kdf(kausf,0x6c,snn)
    kamf=kdf(kseaf,0x6d,supi,b'\x00\x00')
    return dict(xres=xres,kamf=kamf,kenc=kdf(kamf,0x69,b'\x01',bytes([ea]))[16:],kint=kdf(kamf,0x69,b'\x02',bytes([ia]))[16:])
pass
