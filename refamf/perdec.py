# Schema-driven X.691 aligned PER *decoder* (independent reference), inverse of per.py
from per import TYPES, parse_tag, is_choice, ref_value
class DecErr(Exception): pass
class Rd:
    def __init__(self,data):
        self.bits=[]; 
        for x in data:
            for i in range(7,-1,-1): self.bits.append((x>>i)&1)
        self.pos=0
    def get(self,n):
        if self.pos+n>len(self.bits): raise DecErr('truncated')
        v=0
        for i in range(n): v=(v<<1)|self.bits[self.pos+i]
        self.pos+=n; return v
    def align(self):
        while self.pos%8:
            if self.get(1)!=0: raise DecErr('pad')
    def bytes_(self,n): 
        return bytes(self.get(8) for _ in range(n))
def d_cwn(r,rng):
    if rng==1: return 0
    if rng<=255: return r.get((rng-1).bit_length())
    if rng==256: r.align(); return r.get(8)
    if rng<=65536: r.align(); return r.get(16)
    mx=1
    while (rng-1)>=(1<<(8*mx)): mx+=1
    n=d_cwn(r,mx)+1; r.align(); return r.get(8*n)
def d_lendet(r):
    r.align(); b=r.get(8)
    if b<128: return b
    if b<192: return ((b&63)<<8)|r.get(8)
    raise DecErr('frag')
def d_unc(r):
    k=d_lendet(r); v=r.get(8*k)
    if k and v>=(1<<(8*k-1)): v-=(1<<(8*k))
    return v
def d_int(r,lb,ub,ext):
    if ext and r.get(1): return d_unc(r)
    if lb is not None and ub is not None: return lb+d_cwn(r,ub-lb+1)
    if lb is not None:
        k=d_lendet(r); return lb+r.get(8*k)
    return d_unc(r)
def d_len(r,lb,ub):
    if ub is not None and ub<65536:
        return lb if lb==ub else lb+d_cwn(r,ub-lb+1)
    return d_lendet(r)
def dec(r,tname,p):
    t=TYPES[tname]; k=t['kind']
    if k=='ptr': return dec(r,t['elem'],p)
    if k=='int': return str(d_int(r,p['valueLB'],p['valueUB'],p['valueExt']))
    if k=='enum':
        if p['valueExt'] and r.get(1): raise DecErr('enum ext')
        return str(d_cwn(r,p['valueUB']+1))
    if k=='bool': return bool(r.get(1))
    if k in('octetstring','string','bitstring'):
        lb=p['sizeLB'] or 0; ub=p['sizeUB']; unit=1 if k=='bitstring' else 8
        if p['sizeExt'] and r.get(1):
            n=d_lendet(r); fixed=False
        elif ub is not None and ub<65536 and lb==ub:
            n=ub; fixed=True
        else:
            n=d_len(r,lb,ub); fixed=False
        nbits=n*unit
        if not (fixed and nbits<=16):
            if n: r.align()
        v=r.get(nbits); 
        nb=(nbits+7)//8
        data=(v<<(nb*8-nbits)).to_bytes(nb,'big') if nb else b''
        return {'hex':data.hex(),'nbits':n} if k=='bitstring' else {'hex':data.hex()}
    if k=='slice':
        lb=p['sizeLB'] or 0; ub=p['sizeUB']
        if p['sizeExt'] and r.get(1): n=d_lendet(r)
        else: n=d_len(r,lb,ub)
        ep=dict(p); ep['sizeExt']=False; ep['sizeLB']=None; ep['sizeUB']=None
        return [dec(r,t['elem'],ep) for _ in range(n)]
    if k=='struct':
        fs=t.get('fields',[])
        if is_choice(t):
            if p['openType']:
                cands=[i for i in range(1,len(fs)) if parse_tag(fs[i]['tag'])['refValue']==p['_ref']]
                n=d_lendet(r); r.align(); data=r.bytes_(n)
                v=['0']+[None]*(len(fs)-1)
                if not cands: return v      # unknown IE: skipped
                i=cands[0]; v[0]=str(i)
                v[i]=dec(Rd(data),fs[i]['type'],parse_tag(fs[i]['tag']))
                return v
            if p['valueExt'] and r.get(1): raise DecErr('choice ext')
            i=d_cwn(r,p['valueUB']+1)+1
            if i>=len(fs): raise DecErr('choice idx')
            v=[str(i)]+[None]*(len(fs)-1)
            v[i]=dec(r,fs[i]['type'],parse_tag(fs[i]['tag'])); return v
        if p['valueExt'] and r.get(1): raise DecErr('seq ext')
        fps=[parse_tag(f['tag']) for f in fs]
        pres=[(r.get(1)==1) if fp['optional'] else True for fp in fps]
        out=[]
        for i,(fp,f,pr) in enumerate(zip(fps,fs,pres)):
            if not pr: out.append(None); continue
            if fp['openType']:
                idx=[j for j in range(i) if fs[j]['name']==fp['refName']][0]
                fp=dict(fp); fp['_ref']=ref_value(fs[idx]['type'],out[idx])
            out.append(dec(r,f['type'],fp))
        return out
    raise DecErr('kind '+k)
def decode(root,params,data):
    return dec(Rd(data),root,parse_tag(params))
# helpers to navigate NGAP PDUs
def pdu_info(v):
    cls=int(v[0]); m=v[cls]; proc=int(m[0][0]); val=m[2]; alt=int(val[0]); body=val[alt]
    ies=body[0][0]
    return cls,proc,ies
def ie_list(ies):
    out=[]
    for ie in ies:
        ident=int(ie[0][0]); crit=int(ie[1][0]); val=ie[2]; alt=int(val[0])
        out.append((ident,crit,val[alt] if alt else None))
    return out
if __name__=='__main__':
    import sys
    v=decode('ngapType.NGAPPDU','valueExt,valueLB:0,valueUB:2',bytes.fromhex(sys.argv[1]))
    cls,proc,ies=pdu_info(v); print(cls,proc); 
    for x in ie_list(ies): print(x)
