# Prototype reference AMF (independent of the Go code): checks every uplink message, answers per TS 24.501/38.413
import sys, os, socket, subprocess, time, random, json
sys.path.insert(0, os.path.dirname(os.path.abspath(__file__)))
from per import encode, parse_tag
from perdec import decode, pdu_info, ie_list
import crypto5g as C

PDU='ngapType.NGAPPDU'; PP='valueExt,valueLB:0,valueUB:2'
def S(x): return str(x)
def OS(b): return {'hex':bytes(b).hex()}
def BS(b,n): return {'hex':bytes(b).hex(),'nbits':n}
from per import TYPES
def alt_index(vtype, refval):
    fs=TYPES[vtype]['fields']
    for i in range(1,len(fs)):
        if parse_tag(fs[i]['tag'])['refValue']==refval: return i,len(fs)
    raise KeyError((vtype,refval))
def mk_ie(ies_type, ident, crit, val):
    vt=[f for f in TYPES[ies_type]['fields'] if f['name']=='Value'][0]['type']
    i,n=alt_index(vt,ident); v=[S(i)]+[None]*(n-1); v[i]=val
    return [[S(ident)],[S(crit)],v]
def mk_pdu(cls, proc, crit, msgtype, ies):
    # cls 1 initiating, 2 successful
    holder={1:'ngapType.InitiatingMessage',2:'ngapType.SuccessfulOutcome',3:'ngapType.UnsuccessfulOutcome'}[cls]
    vt=[f for f in TYPES[holder]['fields'] if f['name']=='Value'][0]['type']
    i,n=alt_index(vt,proc); val=[S(i)]+[None]*(n-1); val[i]=[[ies]]
    m=[[S(proc)],[S(crit)],val]
    p=[S(cls),None,None,None]; p[cls]=m
    return bytes.fromhex(encode(PDU,PP,p))
def ies_type_of(cls,proc):
    holder={1:'ngapType.InitiatingMessage',2:'ngapType.SuccessfulOutcome',3:'ngapType.UnsuccessfulOutcome'}[cls]
    vt=[f for f in TYPES[holder]['fields'] if f['name']=='Value'][0]['type']
    i,_=alt_index(vt,proc); mt=TYPES[vt]['fields'][i]['type']
    mt=TYPES[mt]['elem'] if TYPES[mt]['kind']=='ptr' else mt
    cont=TYPES[mt]['fields'][0]['type']; lst=TYPES[cont]['fields'][0]['type']
    return TYPES[lst]['elem']

def mk(tname, d):
    t=TYPES[tname]; k=t['kind']
    if d is None: return None
    if k=='ptr': return mk(t['elem'], d)
    if k=='slice': return [mk(t['elem'], x) for x in d]
    if k=='struct':
        fs=t.get('fields',[])
        if fs and fs[0]['name']=='Present':
            (name,val),=d.items()
            i=[f['name'] for f in fs].index(name); v=[S(i)]+[None]*(len(fs)-1); v[i]=mk(fs[i]['type'],val); return v
        names=[f['name'] for f in fs]
        if not isinstance(d,dict) or not all(key in names for key in d):
            assert len(fs)==1,(tname,d); return [mk(fs[0]['type'],d)]     # single-field wrapper {Value}
        for key in d: assert key in [f['name'] for f in fs],(tname,key)
        return [mk(f['type'],d.get(f['name'])) for f in fs]
    if k in('int','enum'): return S(d)
    return d
def ie_named(ies_type, ident, crit, d):
    vt=[f for f in TYPES[ies_type]['fields'] if f['name']=='Value'][0]['type']
    i,n=alt_index(vt,ident); v=[S(i)]+[None]*(n-1); v[i]=mk(TYPES[vt]['fields'][i]['type'],d)
    return [[S(ident)],[S(crit)],v]
class Reject(Exception): pass
def need(c,msg):
    if not c: raise Reject(msg)

# ---- NAS (TS 24.501), written independently ----
def tlv_parse(b, table):
    out={}; i=0
    while i<len(b):
        iei=b[i]
        if iei>=0x80:
            out[iei>>4]=b[i]&15; i+=1; continue
        fmt=table.get(iei); need(fmt is not None, f'unknown IEI {iei:#x}')
        if fmt=='TLV': n=b[i+1]; out[iei]=b[i+2:i+2+n]; i+=2+n
        elif fmt=='TLV-E': n=int.from_bytes(b[i+1:i+3],'big'); out[iei]=b[i+3:i+3+n]; i+=3+n
        else: n=fmt; out[iei]=b[i+1:i+1+n]; i+=1+n
    return out
def suci_decode(b):
    need(b[0]&7==1 and (b[0]>>4)&7==0,'SUCI/IMSI type'); 
    mcc=f"{b[1]&15}{b[1]>>4}{b[2]&15}"; d3=b[2]>>4
    mnc=f"{b[3]&15}{b[3]>>4}"+('' if d3==15 else str(d3))
    need(b[6]&15==0,'null scheme'); ds=''
    for x in b[8:]:
        ds+=str(x&15)
        if x>>4!=15: ds+=str(x>>4)
    return mcc,mnc,ds

class UE:
    def __init__(s): s.state='new'; s.ulcount=None; s.dlcount=0
class AMF:
    def __init__(s, cfg, R):
        s.cfg=cfg; s.R=R; s.ues={}; s.next_amf_id=cfg['first_amf_id'] if cfg.get('first_amf_id') is not None else R.randrange(0,1<<40); s.log=[]; s.setup=False; s.by_ran={}; s.findings=[]
    def soft(s,c,msg):
        if not c:
            if s.cfg.get('strict',True): raise Reject(msg)
            s.findings.append(msg)
    # --- NAS security ---
    def protect(s,ue,plain,ht):
        cnt=ue.dlcount; body=bytes([cnt&255])+plain
        mac=C.nia2(ue.kint,cnt,1,1,body); ue.dlcount+=1
        return bytes([0x7e,ht])+mac+body
    def unprotect(s,ue,b,expect_ht):
        need(b[0]==0x7e,'EPD'); ht=b[1]&15; need(ht in expect_ht,f'header type {ht} not in {expect_ht}')
        mac=b[2:6]; sqn=b[6]; inner=b[7:]
        if ht==4: ue.ulcount=0
        need(ue.ulcount is not None,'no context')
        need(sqn==ue.ulcount&255,f'SQN {sqn} != expected COUNT {ue.ulcount}')
        x=C.nia2(ue.kint,ue.ulcount,1,0,b[6:])
        need(x==mac,f'MAC mismatch count={ue.ulcount}')
        ue.ulcount+=1
        return inner    # NEA0
    # --- handlers ---
    def handle(s,data):
        try: v=decode(PDU,PP,data)
        except Exception as e: raise Reject(f'undecodable NGAP: {e!r}')
        cls,proc,ies=pdu_info(v); L=ie_list(ies); ids=[(i,c) for i,c,_ in L]; D={i:x for i,c,x in L}
        s.log.append((cls,proc,ids))
        if (cls,proc)==(1,21): return s.ngsetup(ids,D)
        need(s.setup,'message before NG Setup')
        if (cls,proc)==(1,15): return s.initial_ue(ids,D)
        if (cls,proc)==(1,46): return s.ul_nas(ids,D)
        if (cls,proc)==(2,14): return s.ics_resp(ids,D)
        if (cls,proc)==(2,29): return s.pdu_setup_resp(ids,D)
        if (cls,proc)==(2,28): return s.pdu_rel_resp(ids,D)
        if (cls,proc)==(2,41): return s.ctx_rel_complete(ids,D)
        raise Reject(f'unexpected message class {cls} proc {proc}')
    def ngsetup(s,ids,D):
        need(ids==[(27,0),(82,1),(102,0),(21,1)] or ids==[(27,0),(102,0),(21,1)],f'NGSetupRequest IEs {ids}')
        g=D[27]; need(int(g[0])==1,'GlobalGNBID'); gg=g[1]
        plmn=bytes.fromhex(gg[0][0]['hex']); s.plmn=plmn
        exp=plmn_bytes(s.cfg['mcc'],s.cfg['mnc']); need(plmn==exp,f'PLMN {plmn.hex()} != {exp.hex()}')
        gid=gg[1][1]; need(gid['nbits']==s.cfg['gnb_bitlength'],'gNB id bit length'); 
        need(bytes.fromhex(gid['hex'])==mask_bits(s.cfg['gnb_id'],gid['nbits']),f"gNB id {gid['hex']}")
        if 82 in D: need(bytes.fromhex(D[82][0]['hex']).decode()==s.cfg['gnb_name'],'gNB name')
        need(bytes.fromhex(D[102][0][0][1][0][0][0][0]['hex'])==exp,'broadcast PLMN')
        s.setup=True
        t=ies_type_of(2,21)
        guami={'PLMNIdentity':OS(exp),'AMFRegionID':BS(b'\xca',8),'AMFSetID':BS(b'\xfe\x00',10),'AMFPointer':BS(b'\x00',6)}
        snssai={'SST':OS(b'\x01'),'SD':OS(b'\x01\x02\x03')}
        ies=[ie_named(t,1,0,OS(b'amf')),
             ie_named(t,96,0,{'List':[{'GUAMI':guami}]}),
             ie_named(t,86,1,255),
             ie_named(t,80,0,{'List':([{'PLMNIdentity':OS(bytes([0x99,0xf9,0x99])),'SliceSupportList':{'List':[{'SNSSAI':snssai}]}}] if s.cfg.get('other_plmn_first', (s.cfg.get('gnb_bitlength',24)+len(s.cfg.get('gnb_name','')))%2==1) else [])+
                                     [{'PLMNIdentity':OS(exp),'SliceSupportList':{'List':[{'SNSSAI':snssai}]}}]})]
        # (an AMF may serve several PLMNs: the gNB's one need not come first in the PLMN Support List)
        return [mk_pdu(2,21,0,None,ies)]
    def check_uli(s,D,crit_expected):
        u=D[121]; need(int(u[0])==2,'ULI NR'); nr=u[2]
        need(bytes.fromhex(nr[0][0][0]['hex'])==s.plmn and bytes.fromhex(nr[1][0][0]['hex'])==s.plmn,'ULI PLMN = NG Setup PLMN')
    def initial_ue(s,ids,D):
        need(ids[:4]==[(85,0),(38,0),(121,0),(90,1)],f'InitialUEMessage IEs {ids}'); s.check_uli(D,0)
        ran=int(D[85][0]); nas=bytes.fromhex(D[38][0]['hex'])
        if nas[1]&15==0 and nas[2]==0x41:      # plain Registration Request
            need(ran not in s.by_ran,'RAN-UE-NGAP-ID reused'); ue=UE(); ue.ran=ran; ue.amf=s.next_amf_id; s.next_amf_id=(s.next_amf_id+s.R.randrange(1,1000))%(1<<40)
            s.by_ran[ran]=ue; s.ues[ue.amf]=ue
            need(nas[0]==0x7e,'EPD'); need(nas[3]&7==1,'initial registration'); 
            n=int.from_bytes(nas[4:6],'big'); mid=nas[6:6+n]; opt=tlv_parse(nas[6+n:],{0x10:'TLV',0x2e:'TLV',0x2f:'TLV',0x52:6,0x17:'TLV',0x40:'TLV',0x50:'TLV',0x2b:'TLV',0x77:'TLV-E',0x25:'TLV',0x18:'TLV',0x51:'TLV',0x70:'TLV-E',0x74:'TLV-E',0x7b:'TLV-E',0x53:'TLV',0x71:'TLV-E'})
            mcc,mnc,msin=suci_decode(mid); ue.supi=mcc+mnc+msin
            need((mcc,mnc)==(s.cfg['mcc'],s.cfg['mnc']),f'SUCI PLMN {mcc}/{mnc}')
            need(ue.supi in s.cfg['subscribers'],f'unknown subscriber {ue.supi}')
            need(0x2e in opt,'UE security capability'); ue.seccap=bytes(opt[0x2e])
            need(ue.seccap[0]&0x80 and ue.seccap[1]&0x20,'UE must support EA0 and IA2 here')
            # algorithm selection (TS 33.501 6.7.1): the first algorithm of the operator's priority list that the UE advertises.
            # This AMF can only run 128-NIA2 / 5G-EA0 itself; an operator list that leads to another algorithm because the UE
            # advertises it ends the conversation there (the UE would be told to use what it advertised)
            pri_i=s.cfg.get('int_priority',[2,1,0]); pri_e=s.cfg.get('enc_priority',[0,1,2])
            ia=next((a for a in pri_i if ue.seccap[1]&(0x80>>a)),None); ea=next((a for a in pri_e if ue.seccap[0]&(0x80>>a)),None)
            need(ia==2 and ea==0,f'the UE advertises capability {ue.seccap[:2].hex()}: an AMF with integrity priority {pri_i} / ciphering priority {pri_e} selects NIA{ia}/NEA{ea}, which the UE does not apply (it protects with NIA2/NEA0)')
            # authentication vector
            ue.rand=bytes(s.R.randrange(256) for _ in range(16)); sqn=bytes(s.R.randrange(256) for _ in range(6)); amf=bytes([0x80|s.R.randrange(128),s.R.randrange(256)])
            k=bytes.fromhex(s.cfg['k']); opc=bytes.fromhex(s.cfg['opc'])
            m=C.milenage(k,opc,ue.rand,sqn,amf); sx=C.xor(sqn,m['ak']); autn=sx+amf+m['mac_a']; ue.autn=autn; ue.sqn=sqn; ue.amf_field=amf
            snn=('5G:mnc%s.mcc%s.3gppnetwork.org'%(mnc.zfill(3),mcc)).encode()
            kt=C.key_tree(m['ck'],m['ik'],snn,ue.rand,m['res'],sx,ue.supi.encode(),0,2)
            ue.xres=kt['xres']; ue.kint=kt['kint']; ue.kenc=kt['kenc']; ue.ngksi=s.R.randrange(0,7)
            areq=bytes([0x7e,0,0x56,ue.ngksi,2,0,0,0x21])+ue.rand+bytes([0x20,16])+autn
            ue.state='auth'
            return [s.dl_nas(ue,areq)]
        # Service request inside InitialUEMessage (protected)
        ue=s.by_ran.get(ran); need(ue is not None,'service request from unknown RAN-UE-NGAP-ID')
        inner=s.unprotect(ue,nas,{2}); need(inner[2]==0x4c,'Service Request expected')
        need(ue.state=='session','service request without established session')
        ksi=(inner[3]>>4)&7; s.soft(ksi==ue.ngksi,f'ngKSI {ksi} != assigned {ue.ngksi}')
        n=int.from_bytes(inner[4:6],'big'); tm=inner[6:6+n]; s.soft(tm[0]==0xf4,f'5G-S-TMSI type-of-identity octet {tm[0]:#x} != 0xf4'); s.soft(bytes(tm[1:7])==ue.stmsi,f'5G-S-TMSI {bytes(tm[1:7]).hex()} != assigned {ue.stmsi.hex()}')
        ue.state='service'
        sa=s.protect(ue,bytes([0x7e,0,0x4e]),2)
        t=ies_type_of(1,14)
        ies=[ie_named(t,10,0,ue.amf),ie_named(t,85,0,ue.ran),ie_named(t,38,1,OS(sa))]
        return [mk_pdu(1,14,0,None,ies)]
    def dl_nas(s,ue,nas):
        t=ies_type_of(1,4)
        # optional IEs a real AMF may add (TS 38.413 9.2.5.2), in ASN.1 order: Old AMF and RAN Paging Priority come BEFORE the
        # NAS-PDU, Index to RFSP and UE-AMBR after it
        ies=[ie_named(t,10,0,ue.amf),ie_named(t,85,0,ue.ran)]
        s.n_dlnas=getattr(s,'n_dlnas',s.cfg.get('dlnas_phase',0))+1   # the phase decides which downlink message gets which optional IEs
        k=s.n_dlnas%4
        if k in (1,3): ies.append(ie_named(t,48,0,OS(b'amf-old' if s.n_dlnas%8!=3 else ('amf-'+'x'*146).encode())))
        if k in (2,3): ies.append(ie_named(t,83,1,5))
        ies.append(ie_named(t,38,0,OS(nas)))
        if k==3: ies.append(ie_named(t,31,1,7))
        if s.n_dlnas%8==3:
            # ... with the 150-character Old AMF name and an Allowed NSSAI of 8 slices the message exceeds 255 octets
            ies.append(ie_named(t,0,0,{'List':[{'SNSSAI':{'SST':OS(bytes([1+j])),'SD':OS(bytes([j,2,3]))}} for j in range(8)]}))
        return mk_pdu(1,4,1,None,ies)
    def ue_of(s,ids,D,crit):
        need(ids[:2]==[(10,crit),(85,crit)],f'UE ids / criticality {ids[:2]}')
        a=int(D[10][0]); r=int(D[85][0]); ue=s.ues.get(a); need(ue is not None,f'unknown AMF-UE-NGAP-ID {a}'); need(ue.ran==r,f'RAN-UE-NGAP-ID {r} != {ue.ran}')
        return ue
    def ul_nas(s,ids,D):
        need(ids==[(10,0),(85,0),(38,0),(121,1)],f'UplinkNASTransport IEs {ids}'); ue=s.ue_of(ids,D,0); s.check_uli(D,1)
        nas=bytes.fromhex(D[38][0]['hex'])
        if ue.state=='auth':
            need(nas[:3]==bytes([0x7e,0,0x57]),'Authentication Response expected'); need(nas[3]==0x2d and nas[4]==16,'RES* IE')
            need(nas[5:21]==ue.xres,f'RES* {nas[5:21].hex()} != XRES* {ue.xres.hex()}')
            ue.state='smc'; ue.dlcount=0
            smc=bytes([0x7e,0,0x5d,0x02,ue.ngksi,len(ue.seccap)])+ue.seccap+bytes([0xe1])
            return [s.dl_nas(ue,s.protect(ue,smc,3))]
        if ue.state=='smc':
            inner=s.unprotect(ue,nas,{4}); need(inner[:3]==bytes([0x7e,0,0x5e]),'Security Mode Complete expected')
            opt=tlv_parse(inner[3:],{0x77:'TLV-E',0x71:'TLV-E'}); need(0x71 in opt,'NAS message container with full Registration Request')
            rr=opt[0x71]; need(rr[2]==0x41,'container holds Registration Request')
            # the complete REGISTRATION REQUEST in the container carries the same subscriber identity (TS 24.501 5.4.2.3)
            rn=int.from_bytes(rr[4:6],'big'); cm=suci_decode(bytes(rr[6:6+rn]))
            need(cm[0]+cm[1]+cm[2]==ue.supi and (cm[0],cm[1])==(s.cfg['mcc'],s.cfg['mnc']),f'SUCI in the NAS message container identifies {cm[0]}/{cm[1]}/{cm[2]}, not {ue.supi}')
            ue.state='ics'
            ue.stmsi=bytes([0xfe>>0,0x00])+b'' ; ue.stmsi=bytes([s.R.randrange(256),s.R.randrange(256)])+bytes(s.R.randrange(256) for _ in range(4))
            guti=bytes([0xf2])+s.plmn+bytes([0xca])+ue.stmsi
            ra=bytes([0x7e,0,0x42,1,1,0x77])+len(guti).to_bytes(2,'big')+guti
            t=ies_type_of(1,14)
            guami={'PLMNIdentity':OS(s.plmn),'AMFRegionID':BS(b'\xca',8),'AMFSetID':BS(b'\xfe\x00',10),'AMFPointer':BS(b'\x00',6)}
            ies=[ie_named(t,10,0,ue.amf),ie_named(t,85,0,ue.ran),
                 ie_named(t,28,0,guami),
                 ie_named(t,0,0,{'List':[{'SNSSAI':{'SST':OS(b'\x01'),'SD':OS(b'\x01\x02\x03')}}]}),
                 ie_named(t,119,0,{'NRencryptionAlgorithms':BS(b'\x80\x00',16),'NRintegrityProtectionAlgorithms':BS(b'\x20\x00',16),'EUTRAencryptionAlgorithms':BS(b'\x00\x00',16),'EUTRAintegrityProtectionAlgorithms':BS(b'\x00\x00',16)}),
                 ie_named(t,94,0,BS(bytes(32),256))]
            # optional IEs a real AMF may add (TS 38.413 9.2.2.1), in ASN.1 order; every third request carries a UE radio capability
            # of 300 octets, which takes the message and two of its length determinants beyond 255
            s.n_ics=getattr(s,'n_ics',0)+1
            if s.n_ics%3==1: ies.append(ie_named(t,117,1,OS(bytes(s.R.randrange(256) for _ in range(300)))))
            if s.n_ics%3==2:
                ies.insert(2,ie_named(t,48,0,OS(('amf-'+'o'*146).encode())))
                ies.append(ie_named(t,34,1,BS(bytes(s.R.randrange(256) for _ in range(8)),64)))
            ies.append(ie_named(t,38,1,OS(s.protect(ue,ra,2))))
            return [mk_pdu(1,14,0,None,ies)]
        if ue.state=='regcomplete':
            inner=s.unprotect(ue,nas,{2}); need(inner[:3]==bytes([0x7e,0,0x43]),'Registration Complete expected')
            ue.state='registered'
            cuc=bytes([0x7e,0,0x54])
            return [s.dl_nas(ue,s.protect(ue,cuc,2))]
        inner=s.unprotect(ue,nas,{2})
        if inner[2]==0x67:   # UL NAS TRANSPORT
            need(inner[3]&15==1,'N1 SM information'); n=int.from_bytes(inner[4:6],'big'); sm=inner[6:6+n]
            opt=tlv_parse(inner[6+n:],{0x12:1,0x59:1,0x22:'TLV',0x25:'TLV',0x24:'TLV'})
            need(0x12 in opt,'PDU session ID IE'); psi=opt[0x12][0]; s.soft(1<=psi<=15,f'PDU session id {psi} outside 1..15'); need(sm[0]==0x2e and sm[1]==psi,f'5GSM header session id {sm[1]} != {psi}'); s.soft(1<=sm[2]<=254,f'PTI {sm[2]} unassigned in 5GSM message {sm[3]:#x}')
            if sm[3]==0xc1:
                need(ue.state=='registered','establishment before registration complete'); need(opt.get(8)==1,'request type initial')
                if 'sst' in s.cfg:
                    exp=bytes([s.cfg['sst']&255])+bytes.fromhex(s.cfg.get('sd',''))
                    need(0x22 in opt and bytes(opt[0x22])==exp, f"S-NSSAI {bytes(opt.get(0x22,b'')).hex()} != configured {exp.hex()}")
                if 'dnn' in s.cfg: need(0x25 in opt and bytes(opt[0x25])[1:]==s.cfg['dnn'].encode(),'DNN')
                ue.psi=psi
                # network-assigned values: any address / TEID is legal; half of the octets are drawn from values that look
                # like the framing of the messages that carry them (IE ids 0x82 0x86 0x88 0x8b, small lengths, 0, 255)
                def oct_():
                    return s.R.choice([0,0,1,2,4,5,6,7,10,13,15,19,20,21,25,26,27,0x29,0x79,0x7b,0x82,0x86,0x88,0x8b,0x8b,255]) if s.R.randrange(2) else s.R.randrange(256)
                ue.ip=bytes([s.R.choice([10,10,100,172,192,oct_()]),oct_(),oct_(),oct_()]); ue.teid=bytes(oct_() for _ in range(4)); ue.upf=bytes([s.R.choice([10,172,192,oct_()]),oct_(),oct_(),oct_()])
                qos=bytes(s.R.randrange(256) for _ in range(s.R.choice(s.cfg.get('qos_lens',[9,40,300]))))
                acc=bytes([0x2e,psi,sm[2],0xc2,0x11])+len(qos).to_bytes(2,'big')+qos+bytes([6,1,0,100,1,0,100])
                if s.R.random()<0.5: acc+=bytes([0x59,0x32])
                s.n_sessions=getattr(s,'n_sessions',0)+1
                tt='ngapType.PDUSessionResourceSetupRequestTransferIEs'
                qf={'QosFlowIdentifier':1,'QosFlowLevelQosParameters':{'QosCharacteristics':{'NonDynamic5QI':{'FiveQI':9}},'AllocationAndRetentionPriority':{'PriorityLevelARP':8,'PreEmptionCapability':0,'PreEmptionVulnerability':0}}}
                tr=[[ [ie_named(tt,130,0,{'PDUSessionAggregateMaximumBitRateDL':s.R.choice([1000,1<<33,4000000000000,0x1DCD008B,0x05008B40,0x008B0100,0x8B008B,0x008B]),'PDUSessionAggregateMaximumBitRateUL':s.R.choice([1000,200000000,0x008B000A,0x8B00])}),
                       ie_named(tt,139,0,{'GTPTunnel':{'TransportLayerAddress':BS(ue.upf,32),'GTPTEID':OS(ue.teid)}}),
                       ie_named(tt,134,0,0),
                       ie_named(tt,136,0,{'List':[qf]})] ]]
                trb=bytes.fromhex(encode('ngapType.PDUSessionResourceSetupRequestTransfer','valueExt',tr))
                fd=s.cfg.get('flow_desc_len',0)
                if s.cfg.get('exact16k'):
                    # choose the flow-description length so that an open-type value of the NGAP message (the IE value or the
                    # message value) is EXACTLY a multiple of 16384 octets: its fragmented length ends with the octet 00
                    import x691
                    def probe(cand):
                        accl=len(acc)+7+[0,17,6,11][(s.n_sessions-1)%4]+3+cand
                        nasl=4+2+accl+2+7
                        titem={'PDUSessionID':psi,'PDUSessionNASPDU':OS(bytes(nasl)),'SNSSAI':{'SST':OS(b'\x01'),'SD':OS(b'\x01\x02\x03')},'PDUSessionResourceSetupRequestTransfer':OS(bytes(len(trb)))}
                        tt0=ies_type_of(1,29); del x691.SIZES[:]; h0=x691.EXACT_HITS
                        mk_pdu(1,29,0,None,[ie_named(tt0,10,0,ue.amf),ie_named(tt0,85,0,ue.ran),ie_named(tt0,74,0,{'List':[titem]})])
                        return x691.EXACT_HITS>h0, sorted(n for n in x691.SIZES if n>=8000)
                    _,big=probe(fd)
                    # the open-type values that contain the NAS message, smallest first; each grows by one octet per octet of flow description
                    wrappers=[n for n in big if n>fd+40][:2] or big[-2:]
                    tgt=wrappers[min(s.cfg['exact16k']-1,len(wrappers)-1)] if wrappers else 16384
                    guess=fd+((-tgt)%16384)
                    hits=[c for c in range(max(guess-8,1),guess+9) if probe(c)[0]]
                    if hits: fd=hits[0]
                    s.exact16k_fd=fd
                fdie=(bytes([0x79])+fd.to_bytes(2,'big')+bytes(s.R.randrange(256) for _ in range(fd))) if fd else b''
                acc+=bytes([0x29,5,1])+ue.ip+[fdie, bytes([0x22,4,1,1,2,3])+fdie+bytes([0x25,9,8])+b'internet', bytes([0x22,4,1,1,2,3])+fdie, fdie+bytes([0x25,9,8])+b'internet'][(s.n_sessions-1)%4]   # everything after the Session-AMBR is optional: the PDU address may be the last IE
                dl=bytes([0x7e,0,0x68,1])+len(acc).to_bytes(2,'big')+acc+bytes([0x12,psi])
                t=ies_type_of(1,29)
                # the slice the network grants: sD is OPTIONAL in the NGAP S-NSSAI, and the network may grant another slice than the one asked for
                snv=(s.n_sessions-1+s.cfg.get('snssai_shift',0))%4
                sn=[{'SST':OS(b'\x01'),'SD':OS(b'\x01\x02\x03')},{'SST':OS(b'\x01')},{'SST':OS(b'\x02'),'SD':OS(b'\xaa\xbb\xcc')},{'SST':OS(b'\xff')}][snv]
                item={'PDUSessionID':psi,'PDUSessionNASPDU':OS(s.protect(ue,dl,2)),'SNSSAI':sn,'PDUSessionResourceSetupRequestTransfer':OS(trb)}
                ies=[ie_named(t,10,0,ue.amf),ie_named(t,85,0,ue.ran),ie_named(t,74,0,{'List':[item]})]
                ue.state='setup'
                if s.cfg.get('unsolicited_before_setup')==s.n_sessions:
                    # an unsolicited downlink message (another CONFIGURATION UPDATE COMMAND) overtakes the setup request
                    return [s.dl_nas(ue,s.protect(ue,bytes([0x7e,0,0x54]),2)), mk_pdu(1,29,0,None,ies)]
                return [mk_pdu(1,29,0,None,ies)]
            if sm[3]==0xd1:
                need(ue.state in('session','service'),'release without session'); need(psi==ue.psi,'session id')
                ue.state='releasing'
                cmd=bytes([0x2e,psi,sm[2],0xd3,0x24]); dl=bytes([0x7e,0,0x68,1])+len(cmd).to_bytes(2,'big')+cmd+bytes([0x12,psi])
                t=ies_type_of(1,28)
                ies=[ie_named(t,10,0,ue.amf),ie_named(t,85,0,ue.ran),ie_named(t,38,1,OS(s.protect(ue,dl,2))),
                     ie_named(t,79,0,{'List':[{'PDUSessionID':psi,'PDUSessionResourceReleaseCommandTransfer':OS(b'\x10')}]})]
                return [mk_pdu(1,28,0,None,ies)]
            if sm[3]==0xd4:
                need(ue.state=='released_ngap','release complete before release response'); need(psi==ue.psi,'session id'); ue.state='registered'
                return []
            raise Reject(f'unexpected 5GSM message {sm[3]:#x}')
        if inner[2]==0x45:  # deregistration request
            # a UE may deregister at any time once registered, also while a session setup or release is still pending
            need(ue.state in('registered','session','service','setup','releasing','released_ngap'),f'deregistration in state {ue.state}')
            n=int.from_bytes(inner[4:6],'big'); mcc,mnc,msin=suci_decode(inner[6:6+n]); need(mcc+mnc+msin==ue.supi,'deregistering identity')
            ue.state='dereg'
            acc=s.protect(ue,bytes([0x7e,0,0x46]),2)
            t=ies_type_of(1,41)
            ies=[ie_named(t,114,0,{'UENGAPIDPair':{'AMFUENGAPID':ue.amf,'RANUENGAPID':ue.ran}}),ie_named(t,15,1,{'Nas':2})]
            return [s.dl_nas(ue,acc),mk_pdu(1,41,0,None,ies)]
        raise Reject(f'unexpected NAS message {inner[2]:#x} in state {ue.state}')
    def ics_resp(s,ids,D):
        ue=s.ue_of(ids,D,1)
        if ue.state=='ics': need(ids==[(10,1),(85,1)],f'ICS response IEs {ids}'); ue.state='regcomplete'; return []
        need(ue.state=='service',f'ICS response in state {ue.state}'); need(ids==[(10,1),(85,1),(72,1)],f'{ids}')
        need(int(D[72][0][0][0][0])==ue.psi,'session id in ICS response'); ue.state='session'; return []
    def pdu_setup_resp(s,ids,D):
        ue=s.ue_of(ids,D,1); need(ue.state=='setup','setup response without request'); need(ids==[(10,1),(85,1),(75,1)],f'{ids}')
        it=D[75][0][0]; need(int(it[0][0])==ue.psi,f'session id {it[0][0]} != {ue.psi}')
        tr=decode('ngapType.PDUSessionResourceSetupResponseTransfer','valueExt',bytes.fromhex(it[1]['hex']))
        gtp=tr[0][0]; need(int(gtp[0])==1,'GTP tunnel'); addr=gtp[1][0][0]; need(addr['nbits']==32 and bytes.fromhex(addr['hex'])==bytes(map(int,s.cfg['gnb_gtp'].split('.'))),f"gNB GTP address {addr}")
        ue.state='session'; return []
    def pdu_rel_resp(s,ids,D):
        ue=s.ue_of(ids,D,1); need(ue.state=='releasing','release response without command'); need(ids==[(10,1),(85,1),(70,1)],f'{ids}')
        need(int(D[70][0][0][0][0])==ue.psi,'session id'); ue.state='released_ngap'; return []
    def ctx_rel_complete(s,ids,D):
        ue=s.ue_of(ids,D,1); need(ue.state=='dereg','context release complete without command'); ue.state='gone'; return []

def plmn_bytes(mcc,mnc):
    d3=int(mnc[2]) if len(mnc)==3 else 15
    return bytes([(int(mcc[1])<<4)|int(mcc[0]),(d3<<4)|int(mcc[2]),(int(mnc[1])<<4)|int(mnc[0])])
def mask_bits(b,n):
    b=bytearray(b[:(n+7)//8])
    if n%8: b[-1]&=(0xff<<(8-n%8))&0xff
    return bytes(b)

def run(cfg, seed, fault=None, binary='/tmp/rc/stg_verif', timeout=120):
    R=random.Random(seed); amf=AMF(cfg,R)
    wd=f'/root/scratch/amf/run{os.getpid()}_{seed}'; os.makedirs(wd,exist_ok=True)
    y=cfg['yaml']; open(wd+'/config.yaml','w').write(y)
    a,b=socket.socketpair(socket.AF_UNIX,socket.SOCK_SEQPACKET)
    env=dict(os.environ,STGUTG_VERIF_FD=str(b.fileno()))
    p=subprocess.Popen([binary,'-t'],cwd=wd,env=env,pass_fds=[b.fileno()],stdout=subprocess.PIPE,stderr=subprocess.STDOUT)
    b.close(); a.settimeout(15); k=0; verdict='ok'; reports=[]
    try:
        while True:
            try: m=a.recv(8192)
            except socket.timeout: verdict='amf-timeout'; break
            if not m: break
            if fault and fault[0]==k:
                if fault[1]=='close': a.close(); verdict=f'fault close@{k}'; break
                a.send(b'\xff\xfe\xfd'); verdict=f'fault garbage@{k}'; k+=1; continue
            try: outs=amf.handle(m)
            except Reject as e: verdict=f'REJECT at uplink message {k}: {e}'; a.close(); break
            for o in outs: a.send(o)
            k+=1
    except OSError as e: verdict+=f' oserr {e}'
    t0=time.time()
    try: out,_=p.communicate(timeout=timeout); rc=p.returncode
    except subprocess.TimeoutExpired: p.kill(); out,_=p.communicate(); rc='HANG'
    return verdict,rc,k,out.decode(errors='replace'),amf,time.time()-t0
