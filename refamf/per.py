# Schema-driven X.691 aligned PER reference over the reflect-extracted NGAP schema (draft of Spec/X691.v + tags_to_asn1)
import json
from x691 import W, Frag, cwn, lendet, lv_octets, enc_int, enc_octets, enc_bits, enc_enum, enc_len

SCHEMA=json.load(open(__import__('os').path.join(__import__('os').path.dirname(__import__('os').path.abspath(__file__)),'ngap_schema_golden.json')))
TYPES=SCHEMA['types']

class Refuse(Exception): pass

def parse_tag(s):
    p={'optional':False,'sizeExt':False,'valueExt':False,'sizeLB':None,'sizeUB':None,'valueLB':None,'valueUB':None,'openType':False,'refName':None,'refValue':None}
    for part in s.split(','):
        if part=='optional': p['optional']=True
        elif part=='sizeExt': p['sizeExt']=True
        elif part=='valueExt': p['valueExt']=True
        elif part=='openType': p['openType']=True
        elif part.startswith('sizeLB:'): p['sizeLB']=int(part[7:])
        elif part.startswith('sizeUB:'): p['sizeUB']=int(part[7:])
        elif part.startswith('valueLB:'): p['valueLB']=int(part[8:])
        elif part.startswith('valueUB:'): p['valueUB']=int(part[8:])
        elif part.startswith('referenceFieldName:'): p['refName']=part[19:]
        elif part.startswith('referenceFieldValue:'): p['refValue']=int(part[20:])
    return p

def is_choice(t): return t['kind']=='struct' and t.get('fields') and t['fields'][0]['name']=='Present'

def ref_value(tname, v):
    """value of the reference field (ProcedureCode / ProtocolIEID ...): first int found following field 0 / Present"""
    t=TYPES[tname]
    if t['kind']=='int': return int(v)
    if t['kind']=='ptr': return ref_value(t['elem'], v)
    if t['kind']=='struct':
        if is_choice(t):
            pres=int(v[0]); return ref_value(t['fields'][pres]['type'], v[pres])
        return ref_value(t['fields'][0]['type'], v[0])
    raise Refuse('ref')

def enc(w, tname, p, v):
    t=TYPES[tname]; k=t['kind']
    if k=='ptr':
        if v is None: raise Refuse('nil')
        return enc(w, t['elem'], p, v)
    if k=='int':
        if not enc_int(w, p['valueLB'], p['valueUB'], p['valueExt'], int(v)): raise Refuse('int range')
    elif k=='enum':
        if p['valueLB'] is None or p['valueUB'] is None: raise Refuse('enum constraint')
        if not enc_enum(w, p['valueUB'], p['valueExt'], int(v)): raise Refuse('enum range')
    elif k=='bool':
        w.put(1 if v else 0,1)
    elif k=='bitstring':
        data=bytes.fromhex(v['hex'])
        if not enc_bits(w, p['sizeLB'], p['sizeUB'], p['sizeExt'], data, v['nbits']): raise Refuse('bits size')
    elif k in('octetstring','string'):
        data=bytes.fromhex(v['hex'])
        if not enc_octets(w, p['sizeLB'], p['sizeUB'], p['sizeExt'], data): raise Refuse('octets size')
    elif k=='slice':
        n=len(v); lb=p['sizeLB'] or 0; ub=p['sizeUB']
        inroot = n>=lb and (ub is None or n<=ub)
        if p['sizeExt']:
            w.put(0 if inroot else 1,1)
            if not inroot: lendet(w,n)
        elif not inroot: raise Refuse('seqof size')
        if inroot: enc_len(w,lb,ub,n)
        ep=dict(p); ep['sizeExt']=False; ep['sizeLB']=None; ep['sizeUB']=None
        for x in v: enc(w, t['elem'], ep, x)
    elif k=='struct':
        fs=t.get('fields',[])
        if p['valueExt'] and not (is_choice(t) and p['openType']): w.put(0,1)
        if is_choice(t):
            pres=int(v[0])
            if pres<=0 or pres>=len(fs): raise Refuse('present')
            fp=parse_tag(fs[pres]['tag'])
            if p['openType']:
                if fp['refValue'] is None or fp['refValue']!=p['_ref']: raise Refuse('open type ref')
                iw=W(); enc(iw, fs[pres]['type'], fp, v[pres])
                data=bytes.fromhex(iw.out())   # padded, at least one octet
                lv_octets(w,data)
            else:
                if p['valueUB'] is None: raise Refuse('choice ub')
                if pres-1>p['valueUB']: raise Refuse('choice ext')
                cwn(w, p['valueUB']+1, pres-1)
                enc(w, fs[pres]['type'], fp, v[pres])
            return
        fps=[parse_tag(f['tag']) for f in fs]
        for fp,f,x in zip(fps,fs,v):
            if fp['optional']: w.put(0 if x is None else 1,1)
            elif x is None and TYPES[f['type']]['kind']=='ptr': raise Refuse('nil mandatory')
        for i,(fp,f,x) in enumerate(zip(fps,fs,v)):
            if fp['optional'] and x is None: continue
            if fp['openType']:
                idx=[j for j in range(i) if fs[j]['name']==fp['refName']]
                if not idx: raise Refuse('no ref field')
                fp=dict(fp); fp['_ref']=ref_value(fs[idx[0]]['type'], v[idx[0]])
            enc(w, f['type'], fp, x)
    else:
        raise Refuse('unsupported '+k)

def encode(root, params, v):
    w=W(); enc(w, root, parse_tag(params), v); return w.out()
