#!/usr/bin/env python3
"""tools/seedcheck.py <prop> <worktree> <k> [--demo 'shell command run inside the worktree; {wt} expands'] [--iso]
--iso: run the check in private copies of /verif and /repo under /root/scratch/iso (VERIF_REPO), so that several
evaluations / long runs can go on at once; without it the change is applied to /repo itself.
Confirms a seeded change independently (build, baseline tests, demonstration fails with / passes without), then applies
it to /repo, runs ./check <prop>, restores /repo by path, and files the result under /verif/seeded/<prop>-<k>/."""
import json, os, shutil, subprocess, sys, time
V = "/verif"
ENV = dict(os.environ, GOPROXY="off", GOSUMDB="off", GOTOOLCHAIN="local")
ENV.pop("GOFLAGS", None)


def sh(cmd, cwd=None, timeout=1800):
    p = subprocess.run(cmd, shell=True, cwd=cwd, env=ENV, stdout=subprocess.PIPE, stderr=subprocess.STDOUT, text=True, timeout=timeout)
    return p.returncode, p.stdout


def main():
    prop, wt, k = sys.argv[1], sys.argv[2], sys.argv[3]
    demo = None
    if "--demo" in sys.argv:
        demo = sys.argv[sys.argv.index("--demo") + 1].replace("{wt}", wt)
    seed = os.path.join(wt, "_seed", k)
    patch = os.path.join(seed, "patch.diff")
    ran = []
    rc, out = sh("git checkout -- . && git apply --check %s" % patch, cwd=wt)
    assert rc == 0, out
    # 1. with the change: build + baseline + demo must FAIL
    sh("git apply %s" % patch, cwd=wt)
    rc_b, out_b = sh("go build ./... && go build -tags verif -o /dev/null .", cwd=wt)
    rc_t, out_t = sh("go test -vet=off -count=1 ./... 2>&1 | grep -v 'no test files' | tail -5", cwd=os.path.join(wt, "src/free5gclib"))
    ran += ["go build ./... (with change): rc=%d" % rc_b, "go test ./... in src/free5gclib (with change): %s" % out_t.strip().replace("\n", " | ")]
    demo_with = demo_without = None
    if demo:
        rc_d1, out_d1 = sh(demo, cwd=wt)
        demo_with = (rc_d1, out_d1[-1500:])
    sh("git checkout -- .", cwd=wt)
    if demo:
        rc_d0, out_d0 = sh(demo, cwd=wt)
        demo_without = (rc_d0, out_d0[-800:])
        ran += ["demo without change: rc=%d" % rc_d0, "demo with change: rc=%d" % demo_with[0]]
    tests_ok = rc_b == 0 and "FAIL" not in out_t and "ok" in out_t
    # 2. against the checks
    files = [l.split()[-1] for l in subprocess.run("git apply --numstat %s" % patch, shell=True, cwd="/repo", stdout=subprocess.PIPE, text=True).stdout.splitlines()]
    iso = "--iso" in sys.argv
    if iso:
        base = "/root/scratch/iso/%s-%s" % (prop, k)
        shutil.rmtree(base, ignore_errors=True)
        os.makedirs(base)
        sh("cp -a /repo %s/repo && rm -f %s/repo/.git && cp -a /repo/.git %s/repo/.git 2>/dev/null; rsync -a --exclude .work --exclude replays /verif/ %s/verif/" % (base, base, base, base))
        rrepo, rverif = base + "/repo", base + "/verif"
        sh("git checkout -- .", cwd=rrepo)          # the copy starts from HEAD, whatever /repo's working tree holds right now
    else:
        rrepo, rverif = "/repo", V
    rc, out = sh("git apply %s" % patch, cwd=rrepo)
    assert rc == 0, out
    try:
        t0 = time.time()
        cmd = "./check %s" % prop if not iso else "VERIF_REPO=%s ./check %s" % (rrepo, prop)
        rc_c, out_c = sh(cmd, cwd=rverif, timeout=3000)
        dt = time.time() - t0
    finally:
        if not iso:
            sh("git checkout -- %s" % " ".join(files), cwd="/repo")
    viol = [l for l in out_c.splitlines() if l.startswith("VIOLATION")]
    replay = None
    if viol:
        rp = viol[0].split("replay=")[1].split()[0]
        try:
            replay = json.load(open(os.path.join(rverif, rp)))
        except Exception:
            pass
    sh("rm -f replays/%s-*" % prop, cwd=rverif)
    if iso:
        shutil.rmtree(base, ignore_errors=True)
    ran.append("./check %s on /repo with the change applied: exit %d, %d VIOLATION line(s), %.0f s" % (prop, rc_c, len(viol), dt))
    dst = os.path.join(V, "seeded", "%s-%s" % (prop, k))
    shutil.rmtree(dst, ignore_errors=True)
    os.makedirs(dst)
    shutil.copy(patch, dst)
    for f in os.listdir(seed):
        if f not in ("patch.diff",) and not f.startswith("out_"):
            s = os.path.join(seed, f)
            (shutil.copytree if os.path.isdir(s) else shutil.copy)(s, os.path.join(dst, f))
    readme = open(os.path.join(seed, "README.txt")).read() if os.path.exists(os.path.join(seed, "README.txt")) else ""
    meta = {"property": prop, "seed": k, "files_changed": files, "needs_to_manifest": readme[:1500], "what_was_run": ran,
            "compiles_and_passes_tests": tests_ok,
            "demo_fails_with_change": None if demo_with is None else demo_with[0] != 0 or "FAIL" in demo_with[1],
            "demo_passes_without_change": None if demo_without is None else demo_without[0] == 0 and "FAIL" not in demo_without[1],
            "demo_output_with_change": None if demo_with is None else demo_with[1][-600:],
            "detected": bool(viol) and rc_c == 1, "violation_lines": viol[:3],
            "replay_excerpt": None if replay is None else {k_: (str(v)[:400]) for k_, v in replay.items() if k_ in ("theorem_or_stream", "input", "observed", "expected", "why")}}
    json.dump(meta, open(os.path.join(dst, "meta.json"), "w"), indent=1)
    print(json.dumps({k_: meta[k_] for k_ in ("property", "seed", "compiles_and_passes_tests", "demo_fails_with_change", "demo_passes_without_change", "detected", "violation_lines")}, indent=1))
    if replay:
        print("replay:", json.dumps(meta["replay_excerpt"])[:700])


main()
