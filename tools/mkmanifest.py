#!/usr/bin/env python3
"""Regenerate MANIFEST.json from the table below (kept valid at all times)."""
import json, os, subprocess
V = os.path.dirname(os.path.dirname(os.path.abspath(__file__)))
ALL = ["C%02d" % i for i in range(1, 21)]

# property -> (technique, level text, level note, design ref)
CLAIMED = {
 "C16": ("Coq proof (decimal-string injectivity, modular arithmetic) over a hand model of CreateUE + differential correspondence run against the Go code",
         "Theorems in coq/Properties/C16.v, for all IMSI strings and all indices: SUPIs pairwise distinct, RAN-UE-NGAP-IDs pairwise distinct within any window of 10 000 indices, SUPI keeps the PLMN digits and length while MSIN+index fits, advertised capability = algorithms in use. The model (Model/CreateUE.v) is executed by vm_compute on the outputs of the real CreateUE/GetUESecurityCapability for PRNG-drawn IMSIs (leading zeros, 2/3-digit MNC, MSIN near exhaustion, carries, populations of 10 000) on every run.",
         "Coq kernel + vm_compute; hand-written model tied by differential execution (not by translation); Atoi/%0*d modelled for <= 18 digit strings; Go harness.", "DESIGN.md §7 C16"),
 "C11": ("Coq proof (symbolic in the digits: nibble packing, BCD MSIN by pair induction) over a hand model of EncodeSuci/PLMN slice/PlmnIDToNas + differential correspondence run",
         "Theorems in coq/Properties/C11.v for every MCC (3 digits), MNC (2 or 3 digits) and MSIN (any length, odd or even): an independent TS 24.501 9.11.3.4 decoder (Spec/Suci.v) applied to EncodeSuci's output returns the same MCC/MNC/MSIN (routing indicator 0, null scheme); the PLMN octets taken for NG Setup equal the standard 3-octet coding and the library's PlmnIDToNas and decode back. Each run executes the model and the spec decoder on the real EncodeSuci output, on the REGISTRATION/DEREGISTRATION REQUEST built by the emulator's constructors and on the PLMN octets found in encoded NGSetupRequest / InitialUEMessage.",
         "Coq kernel + vm_compute; hand model tied by differential execution; SUCI/PLMN layout transcribed from memory of TS 24.501; NGAP PLMN assumed to use the same nibble order (as the property states).", "DESIGN.md §7 C11"),
 "C17": ("Coq proofs (hex/nibble/bit-field arithmetic, induction over option lists with a loop invariant for the UnMarshal state machine) over hand models + differential correspondence run",
         "Theorems in coq/Properties/C17.v: for all PLMNs (3-digit MCC, 2/3-digit MNC), all SST 0..255 with/without every 3-octet SD, all 2^24 AMF identifiers, all IPv4/IPv6/dual-stack addresses, all option lists of any length with contents of 0..255 octets, all DNNs < 256 octets: the independent standard decoder (Spec/Convert3gpp.v, Spec/Suci.v) applied to the library's output returns the input, and the library's own inverse (IPAddressToString, UnMarshal, UnmarshalBinary) returns it too. Models are executed against the real functions on every run (incl. malformed streams: bad hex, short AMF ids, mismatching BIT STRING lengths, truncated PCO).",
         "Coq kernel + vm_compute; hand models tied by differential execution; encodings transcribed from memory of TS 24.501/23.003/38.414/24.008; textual IP forms handled by Go's net package in the harness.", "DESIGN.md §7 C17"),
 "C12": ("Coq proofs (induction over the optional-IE list with Go slice length/capacity semantics; fuel-sufficiency for termination) over a hand model + differential correspondence incl. malformed streams with a watchdog",
         "Theorems in coq/Properties/C12.v: for every protected DL NAS TRANSPORT carrying a TS 24.501 PDU SESSION ESTABLISHMENT ACCEPT (any header, ids, QoS rules of any length up to the LV-E limit, any session AMBR, any list of the other optional IEs before the PDU address, anything after) the extractor returns exactly the encoded IPv4 address; for every transfer with an IPv4 GTP tunnel (any IEs with values < 128 octets in front) exactly the encoded TEID and UPF address; on every byte string both walks terminate (never out of fuel). Each run executes the model on the real extractors' results for reference-built inputs (re-encoded by the Coq spec), for transfers built by the library's own aper encoder, and for prefixes/bit flips/splices/random bytes under a 2 s watchdog.",
         "Coq kernel + vm_compute; hand model tied by differential execution; input capacity = length; message layouts transcribed from memory of TS 24.501/24.007 and derived from X.691 by hand (cross-checked against the library encoder each run).", "DESIGN.md §7 C12"),
 "C15": ("Coq proofs (byte-index rotations = list rotations, lexicographic memcmp = 48-bit order, case analysis of Milenage_check/Milenage_auts) parametric in the block cipher + differential correspondence run",
         "Theorems in coq/Properties/C15.v, for every 16-octet K/OPc/RAND, 6-octet SQN, 2-octet AMF and ANY block cipher with 16-octet output: the library's f1, f1*, f2..f5*, OPc equal TS 35.206 (Spec/TS35206.v, guarded by TS 35.208 set 1); MilenageGenerate builds the TS 33.102 AUTN; Milenage_check returns 0 with RES/CK/IK iff MAC-A = f1 over the concealed SQN and AMF and that SQN is greater than the UE's (= the USIM procedure accepts), -2 iff not greater with an AUTS that Milenage_auts accepts and that yields the UE's SQN; generation and checking are inverse. Each run executes model and spec on the real exported functions' outputs: random keys, SQN pairs differing only in octet 0 / octet 5, every single-octet and several single-bit corruptions of valid AUTN/AUTS.",
         "Coq kernel + vm_compute; AES as a Section variable in proofs, Crypto/AES.v (FIPS-197 vector) when executed; hand model tied by differential execution; TS 35.206/33.102 transcribed from memory (TS 35.208 set 1 as Example).", "DESIGN.md §7 C15"),
 "C05": ("Coq proofs (KDF parameter strings, key-tree composition, SN-name/SUPI string handling) parametric in AES and HMAC-SHA-256 + differential correspondence run",
         "Theorems in coq/Properties/C05.v for ANY block cipher E and ANY keyed hash H: for all hex K/OPc (or OP only), RAND, AUTN, MCC (3 digits), MNC (2|3 digits), SUPI imsi-<5..15 digits> and algorithm ids, the model of DeriveRESstarAndSetKey/DerivateKamf/DerivateAlgKey (incl. the external wmnsk/milenage calls) returns exactly the network-side (RES*, K_AMF, K_NASint, K_NASenc) of Spec/TS33501.v over Spec/TS35206.v; OP-only configuration = configuring OPc = E_K(OP) xor OP; component theorems for the KDF, SN name, SUPI digits, wmnsk f2345/RES*. Each run executes model and spec (Crypto/SHA256.v, AES.v) on the real DeriveRESstarAndSetKey outputs: 2/3-digit MNC, SUPI 5..15 digits, all 4x4 algorithm ids, OPc and OP-only.",
         "Coq kernel + vm_compute; AES/HMAC as Section variables in proofs, definitional Coq implementations (FIPS-197, NIST, RFC 4231 vectors) when executed; external library wmnsk/milenage modelled from its source in the module cache and tied by its own stream; TS 33.501 Annex A / TS 33.220 B.2 transcribed from memory.", "DESIGN.md §7 C05"),
 "C19": ("Coq proofs over driver skeletons and main() wiring REGENERATED from the source by a go/ast translator (reflective check by vm_compute over the finite skeleton data, induction over conversations) + fault enumeration on the real process against an independent reference AMF",
         "Theorems in coq/Properties/C19.v: every conn.Write/conn.Read/ngap.Decoder result in every procedure driver reaches ManageError (except the decode after Registration Complete) — checked reflectively on the skeletons extracted from the current source; hence for every assignment of the five repetition counts and every uplink message index after which the emulator still does I/O, a closed association stops the run with exit status 1 before the end of the conversation (no banner), in a number of steps bounded by its length; an undecodable reply that is consumed with a checked decode does the same (with any number of still-queued downlink messages). Each run builds main() with the verif hook, runs it against the Python reference AMF over a socketpair and injects close / garbage at EVERY uplink index of two (thorough: four) conversations, comparing exit status, banner and time-to-exit with the model's prediction.",
         "PARTIAL: bounded time is proved as bounded steps, wall-clock is measured. Coq kernel + vm_compute; go/ast translator harness/gen_driver.go; abstract semantics of a closed/garbled association (OS socket behaviour observed, not proved); Python reference AMF with a frozen golden NGAP schema.", "DESIGN.md §7 C19"),
 "C18": ("Coq proofs over struct tags (reflection) and main() wiring (go/ast) REGENERATED from the source: reflective conformance check against the documented key table + generic lemma 'conformance implies every call receives the file's value'; mode table for all argv; differential runs of GetConfiguration and of the process",
         "Theorems in coq/Properties/C18.v: the 24 yaml tags are exactly the documented keys on fields of the documented kind and every call site in both modes passes the documented field in the documented position (reflective over the data extracted from the current source); hence for ANY configuration file and every documented key, every call of every consuming procedure receives exactly the value in the file; the UE count and the five repetition counts bound the documented loops; mode = traffic iff no argument, test iff exactly -t, none otherwise, for every argv. Each run loads 200 random configuration files (keys in any order, leading zeros, extreme integers, absent keys) through the real GetConfiguration and checks end to end (file value = field main() passes to the consumer / loop bound); runs the real binary on every argv vector of length 0..2 (thorough: 0..3) over a 5-word alphabet; and runs 3 (12) random configurations against the reference AMF, which verifies gNB id/bit length/name, PLMN, SUCI, keys (RES*), GTP address and S-NSSAI on the wire.",
         "Coq kernel + vm_compute; translators gen-conftags (reflect) and gen-mainwiring (go/ast); documentation transcribed by hand from README.md/config.yaml; YAML scalar syntax is yaml.v2's (modelled, tied by the stream); Python reference AMF.", "DESIGN.md §7 C18"),
 "C20": ("Coq proofs: reflective footprint conformance over data REGENERATED by a go/ssa translator + a generic interleaving theorem (induction over schedules) instantiated with C07's state-independence of the SNOW 3G sections; runtime: race-detector build and concurrent-vs-sequential stress",
         "PARTIAL (Go memory model / scheduler not modelled). Theorems in coq/Properties/C20.v: no operation family (NGAP codec, NAS codec, key derivation, NAS ciphering, NAS MAC, NAS protect/unprotect) writes a package-level variable outside a lock-protected region, and lock-protected variables are never touched outside their lock (reflective over footprints extracted from the current source); for any number of threads, any sequences of critical sections whose result does not depend on the incoming shared state, and EVERY schedule, each thread ends with the results it gets alone; NEA1/NIA1/NASEncrypt/NASMacCalculate sections have that property (C07). Each run rebuilds the harness with -race and runs 6 families x 8 (thorough 64) goroutines, comparing with the sequential results and failing on any DATA RACE report.",
         "Coq kernel + vm_compute; go/ssa translator (static call graph only); critical sections atomic by assumption; logrus treated as synchronised; race detector as runtime evidence.", "DESIGN.md §7 C20"),
 "C06": ("Coq proofs (bit-level characterisation of the counter masks, induction over histories with fold_left, refinement to an independent reference sender/receiver) parametric in the cipher/MAC functions + differential correspondence on histories",
         "Theorems in coq/Properties/C06.v for ALL uplink histories (plain message, header type 1..4, new-context flag): the model of NASEncode/EncodeNasPduWithSecurity produces exactly the octets of the TS 24.501 reference sender (Spec/RefNasPeer.v) — COUNT i-1 mod 2^24 for the i-th message since the context was taken into use, SQN = COUNT mod 256, MAC over SQN||body with BEARER 1 / DIRECTION 0, body ciphered iff header type is 2 or 4; the reference receiver accepts every message in order and recovers the plain octets; a new context resets both counters; without a context the message is unchanged. Each run drives the real EncodeNasPduWithSecurity over 50+40 histories (all NIA1/2 x NEA0/1/2 x header types, crossings 255->256, 65535->65536, 2^24-1->0, resets, malformed stream) and compares octets and both counters after every step with model and spec.",
         "Coq kernel + vm_compute; cipher/MAC as Section variables in proofs (hypotheses: 4-octet MAC, involution — discharged by C07) and Model/Security.v when executed; hand model tied by differential execution on histories.", "DESIGN.md §7 C06"),
 "C10": ("Coq proofs (COUNT estimate arithmetic for all stored values/SQNs, induction over downlink histories) parametric in cipher/MAC + differential correspondence with packets produced by the Coq reference sender",
         "Theorems in coq/Properties/C10.v for ALL downlink histories (plain, header type 0..4, SQN advance 1..255, new-context flag): the UE's DLCount after each message equals the COUNT the AMF used, the octets handed to the plain decoder are the AMF's plain message, a new-context header resets the estimate. Each run feeds 50+60 histories produced by the Coq reference sender (re-computed inside cases.v) to the real NASDecode and compares recovered message and DLCount after every packet; truncated packets / unsupported ids in a malformed stream.",
         "Coq kernel + vm_compute; cipher/MAC as Section variables (involution from C07); a MAC mismatch is only printed by the code (not required by the statement); NIA0 branch outside the claim.", "DESIGN.md §7 C10"),
}
PENDING_REASON = "check not built yet in this round (work in progress; see DESIGN.md §7 for the planned proof)"

def main():
    hooks_commits = subprocess.run(["git", "-C", "/repo", "log", "--format=%H %s"], capture_output=True, text=True).stdout.splitlines()
    hook_commits = [l.split()[0] for l in hooks_commits if "verif hook" in l]
    checks = []
    for pid in ALL:
        if pid not in CLAIMED:
            continue
        tech, text, note, ref = CLAIMED[pid]
        checks.append({
            "property_id": pid,
            "quick_cmd": "./check %s --tier quick" % pid,
            "thorough_cmd": "./check %s --tier thorough" % pid,
            "evidence_file": "evidence/%s.json" % pid,
            "replay_cmd_template": "./check %s --replay {path}" % pid,
            "engine": "coq",
            "level_claimed": {"category": "proof", "text": text, "design_ref": ref},
            "level_note": note,
            "technique": tech,
        })
    m = {
        "version": 1,
        "setup_cmd": "./check setup",
        "hooks": {
            "guard": "verif",
            "enable": "go build -tags verif (the harness module /verif/harness and /repo's main package are built with -tags verif by every check)",
            "baseline_off_cmd": "cd /repo/src/free5gclib && GOFLAGS=-mod=mod GOPROXY=off GOSUMDB=off GOTOOLCHAIN=local go test -vet=off -count=1 ./...",
            "source_commits": hook_commits,
            "add_only": True,
        },
        "engines": [{"name": "coq", "path": "coq/", "serves_properties": sorted(CLAIMED),
                     "kind_free_text": "Coq 8.16.1 development (model, specification, proofs) + Go correspondence harness (harness/) + Python orchestration (check, vlib/)"}],
        "checks": checks,
        "notes": "Every check: rebuild the Go harness against /repo's working tree (-tags verif), regenerate coq/Gen from the source, make the property's theorems (full .vo), capture Print Assumptions, run the correspondence streams (implementation vs executable Coq model/spec on the same PRNG-derived inputs), decide per DESIGN.md §5.",
        "not_applicable": [{"property_id": p, "reason": PENDING_REASON} for p in ALL if p not in CLAIMED],
    }
    json.dump(m, open(os.path.join(V, "MANIFEST.json"), "w"), indent=1)

main()
