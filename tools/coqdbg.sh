#!/bin/sh
# usage: coqdbg.sh File.v  -- replay a file in coqtop and show the proof state at the first error
cd /verif/coq
ARGS=""
for d in Lib Crypto Spec Gen Model Proofs Properties; do [ -d $d ] && ARGS="$ARGS -Q $d \"\""; done
eval timeout ${T:-300} coqtop -quiet $ARGS < "$1" 2>&1 | awk '/Error|error:/{found=1} {buf[NR]=$0} found&&++n>25{exit} END{s=NR-90; if(s<1)s=1; for(i=s;i<=NR;i++)print buf[i]}'
