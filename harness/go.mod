module verifharness

go 1.21

replace (
	free5gclib => /repo/src/free5gclib
	stgutg => /repo/src/stgutg
	tglib => /repo/src/tglib
)

require (
	free5gclib v0.0.0-00010101000000-000000000000
	stgutg v0.0.0-00010101000000-000000000000
	tglib v0.0.0-00010101000000-000000000000
)

require (
	github.com/aead/cmac v0.0.0-20160719120800-7af84192f0b1 // indirect
	github.com/antonfisher/nested-logrus-formatter v1.3.1 // indirect
	github.com/calee0219/fatal v0.0.1 // indirect
	github.com/dgrijalva/jwt-go v3.2.0+incompatible // indirect
	github.com/ishidawataru/sctp v0.0.0-20210707070123-9a39160e9062 // indirect
	github.com/sirupsen/logrus v1.9.0 // indirect
	github.com/wmnsk/milenage v1.2.1 // indirect
	gopkg.in/yaml.v2 v2.4.0 // indirect
)

require (
	github.com/Rotchamar/xdp_gtp v0.2.1
	github.com/cilium/ebpf v0.12.3
	github.com/aead/cmac v0.0.0-20160719120800-7af84192f0b1
	github.com/antonfisher/nested-logrus-formatter v1.3.1
	github.com/calee0219/fatal v0.0.1
	github.com/dgrijalva/jwt-go v3.2.0+incompatible
	github.com/google/gopacket v1.1.19
	github.com/google/uuid v1.3.0
	github.com/ishidawataru/sctp v0.0.0-20210707070123-9a39160e9062
	github.com/j-keck/arping v1.0.3
	github.com/libp2p/go-netroute v0.2.1
	github.com/prometheus-community/pro-bing v0.3.0
	github.com/sirupsen/logrus v1.9.0
	github.com/wmnsk/milenage v1.2.1
	golang.org/x/exp v0.0.0-20230224173230-c95f2b4c22f2
	golang.org/x/net v0.11.0
	golang.org/x/sync v0.3.0
	golang.org/x/sys v0.14.1-0.20231108175955-e4099bfacb8c
	gopkg.in/yaml.v2 v2.4.0
)
