package main

// buildenc: one library builder (ngapTestpacket.Build*, all 52 of gen-builders' table), called with the translator's
// sentinel arguments and encoded with the real ngap.Encoder (property C13: "every NGAP message the gNB side has an
// implemented builder for encodes successfully").
//   {"root":repo,"fn":"BuildX","set":0..2,"absent":bool}  ->  {"hex"|"err"|"panic", "args":[[name,kind,value]...], "plmn":hex}
// "absent" gives every []int64 / TMSI argument in its absent form.  The arguments go back to the check so that the Coq
// model (encode_call on the translated template) is evaluated on exactly the same call.
// {"list":true,"root":repo} -> {"fns":[names]}

import (
	"fmt"
	"path/filepath"
	"reflect"
	"sync"

	"free5gclib/ngap"
	"free5gclib/ngap/ngapType"
	"tglib/ngapTestpacket"
)

var buildencOnce sync.Once
var buildencFuncs map[string]*funcInfo
var buildencOrder []string
var buildencErr error

func buildencLoad(root string) {
	buildencOnce.Do(func() {
		fis, err := parseFuncs(filepath.Join(root, "src/tglib/ngapTestpacket/build.go"), "Build")
		if err != nil {
			buildencErr = err
			return
		}
		buildencFuncs = map[string]*funcInfo{}
		for _, fi := range fis {
			fn, ok := builderTable[fi.name]
			if !ok {
				continue
			}
			ft := reflect.TypeOf(fn)
			if ft.NumIn() != len(fi.params) {
				continue
			}
			for i := range fi.params {
				fi.params[i].typ = ft.In(i)
				fi.params[i].kind = classifyParam(fi.params[i].name, ft.In(i))
			}
			buildencFuncs[fi.name] = fi
			buildencOrder = append(buildencOrder, fi.name)
		}
	})
}

func init() {
	lineCmds["buildenc"] = func(in map[string]interface{}) (out map[string]interface{}) {
		out = map[string]interface{}{}
		buildencLoad(str(in, "root"))
		if buildencErr != nil {
			panic("harness: " + buildencErr.Error())
		}
		if b, _ := in["list"].(bool); b {
			out["fns"] = buildencOrder
			return out
		}
		fi := buildencFuncs[str(in, "fn")]
		if fi == nil {
			panic("harness: no builder " + str(in, "fn"))
		}
		set := int(num(in, "set")) % nSets
		absent, _ := in["absent"].(bool)
		v := variant{nilOf: map[string]bool{}}
		for _, p := range fi.params {
			if p.kind == kInts || p.kind == kTmsi {
				v.nilOf[p.name] = absent
			}
		}
		args, e := makeArgs(fi, set, v)
		al := []interface{}{}
		for _, p := range fi.params {
			var val interface{}
			switch p.kind {
			case kInt:
				val = e.ints[p.name]
			case kUint:
				val = e.uints[p.name]
			case kBytes, kText, kIPv4:
				val = hx(e.byts[p.name])
			case kInts:
				if l, ok := e.lists[p.name]; ok {
					val = l
				}
			case kTmsi:
				if absent {
					val = ""
				} else {
					val = hx([]byte(tmsiConst))
				}
			}
			al = append(al, []interface{}{p.name, kindName[p.kind], val})
		}
		out["args"] = al
		out["plmn"] = hx(statePlmn[set])
		defer func() {
			if r := recover(); r != nil {
				delete(out, "hex")
				delete(out, "err")
				out["panic"] = fmt.Sprint(r)
			}
			resetTestPlmn()
		}()
		ngapTestpacket.BuildNGSetupRequest(append([]byte(nil), statePlmn[set]...))
		outs := reflect.ValueOf(builderTable[fi.name]).Call(args)
		pdu := outs[0].Interface().(ngapType.NGAPPDU)
		b, err := ngap.Encoder(pdu)
		if err != nil {
			out["err"] = err.Error()
		} else {
			out["hex"] = hx(b)
		}
		return out
	}
}
