package main

import (
	"fmt"
	"os"
	"reflect"

	"stgutg"
)

func init() {
	// conf: {yaml} -> the fields of stgutg.Conf.Configuration after GetConfiguration() read ./config.yaml
	lineCmds["conf"] = func(in map[string]interface{}) map[string]interface{} {
		if err := os.WriteFile("config.yaml", []byte(str(in, "yaml")), 0644); err != nil {
			return map[string]interface{}{"harness_error": err.Error()}
		}
		var c stgutg.Conf
		c.GetConfiguration()
		v := reflect.ValueOf(c.Configuration)
		out := map[string]interface{}{}
		for i := 0; i < v.NumField(); i++ {
			out[v.Type().Field(i).Name] = fmt.Sprint(v.Field(i).Interface())
		}
		return map[string]interface{}{"fields": out}
	}
}
