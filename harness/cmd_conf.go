package main

import (
	"fmt"
	"os"
	"reflect"

	"stgutg"
)

func init() {
	// getmode: {args: [...]} -> stgutg.GetMode called with exactly this vector as os.Args (the whole vector, program name
	// included; it may be empty: execve allows an empty argv on some kernels, and GetMode is an exported function)
	lineCmds["getmode"] = func(in map[string]interface{}) map[string]interface{} {
		args := []string{}
		if l, ok := in["args"].([]interface{}); ok {
			for _, x := range l {
				s, _ := x.(string)
				args = append(args, s)
			}
		}
		saved := os.Args
		defer func() { os.Args = saved }()
		os.Args = args
		return map[string]interface{}{"mode": stgutg.GetMode(args)}
	}
	// conf: {yaml} -> the fields of stgutg.Conf.Configuration after GetConfiguration() read ./config.yaml
	lineCmds["conf"] = func(in map[string]interface{}) map[string]interface{} {
		if err := os.WriteFile("config.yaml", []byte(str(in, "yaml")), 0644); err != nil {
			return map[string]interface{}{"harness_error": err.Error()}
		}
		var c stgutg.Conf
		c.GetConfiguration()
		v := reflect.ValueOf(c.Configuration)
		out := map[string]interface{}{}
		for i := 0; i < v.NumField(); i++ {
			out[v.Type().Field(i).Name] = fmt.Sprint(v.Field(i).Interface())
		}
		return map[string]interface{}{"fields": out}
	}
}
