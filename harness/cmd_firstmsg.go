package main

import (
	"fmt"
	"reflect"
	"strings"
	"syscall"
	"time"

	"free5gclib/ngap"
	"free5gclib/ngap/ngapType"
	"stgutg"

	"github.com/ishidawataru/sctp"
)

// firstmsg: {proc: "register"|"deregister", imsi, n, mnc, mcc} -> the first message the REAL procedure writes for the UE
// stgutg.CreateUE(imsi, n, ...) and the NAS PDU inside it.  The procedure runs in a goroutine over one end of an AF_UNIX
// SOCK_SEQPACKET socketpair (as under the verif hook); the other end is read once and then left open and silent, so the
// procedure stays blocked in its first Read (closing it would make ManageError end the harness process).  One call leaks
// two descriptors and one goroutine: keep the number of calls per harness process in the low hundreds.
func init() {
	lineCmds["firstmsg"] = func(in map[string]interface{}) map[string]interface{} {
		fds, err := syscall.Socketpair(syscall.AF_UNIX, syscall.SOCK_SEQPACKET, 0)
		if err != nil {
			return map[string]interface{}{"harness_error": err.Error()}
		}
		conn := sctp.NewSCTPConn(fds[0], nil)
		ue := stgutg.CreateUE(strings.TrimPrefix(str(in, "imsi"), "imsi-"), int(num(in, "n")), "465b5ce8b199b49faa5f0a2ee238a6bc", "e8ed289deba952e4283b54e88e6183ca", "")
		out := map[string]interface{}{"supi": ue.Supi, "ran": ue.RanUeNgapId}
		mnc, mcc := str(in, "mnc"), str(in, "mcc")
		go func() {
			defer func() { recover() }()
			switch str(in, "proc") {
			case "deregister":
				stgutg.DeregisterUE(ue, mnc, conn)
			case "ngsetup":
				// as main() calls it: the configured gNB id / IMSI / MNC / bit length / name
				stgutg.ManageNGSetup(conn, string([]byte{0, 1, 2}), strings.TrimPrefix(str(in, "imsi"), "imsi-"), mnc, 24, "gnb")
			default:
				stgutg.RegisterUE(ue, mnc, mcc, conn)
			}
		}()
		tv := syscall.NsecToTimeval((15 * time.Second).Nanoseconds())
		syscall.SetsockoptTimeval(fds[1], syscall.SOL_SOCKET, syscall.SO_RCVTIMEO, &tv)
		buf := make([]byte, 65536)
		// a raw read is interrupted by the runtime's own signals (asynchronous preemption) when the machine is busy: EINTR is
		// not "no message"
		var n int
		for {
			n, err = syscall.Read(fds[1], buf)
			if err != syscall.EINTR {
				break
			}
		}
		if err != nil || n <= 0 {
			out["read_err"] = fmt.Sprintf("no message within 15 s (%v)", err)
			return out
		}
		msg := buf[:n]
		out["msg"] = hx(msg)
		pdu, err := ngap.Decoder(msg)
		if err != nil || pdu.InitiatingMessage == nil {
			out["decode_err"] = "not an initiating NGAP message"
			return out
		}
		out["plmns"] = allPlmns(pdu)
		var nasPdu []byte
		switch {
		case pdu.InitiatingMessage.Value.InitialUEMessage != nil:
			for _, ie := range pdu.InitiatingMessage.Value.InitialUEMessage.ProtocolIEs.List {
				if ie.Id.Value == ngapType.ProtocolIEIDNASPDU {
					nasPdu = ie.Value.NASPDU.Value
				}
				if ie.Id.Value == ngapType.ProtocolIEIDRANUENGAPID {
					out["ran_on_wire"] = ie.Value.RANUENGAPID.Value
				}
			}
		case pdu.InitiatingMessage.Value.UplinkNASTransport != nil:
			for _, ie := range pdu.InitiatingMessage.Value.UplinkNASTransport.ProtocolIEs.List {
				if ie.Id.Value == ngapType.ProtocolIEIDNASPDU {
					nasPdu = ie.Value.NASPDU.Value
				}
				if ie.Id.Value == ngapType.ProtocolIEIDRANUENGAPID {
					out["ran_on_wire"] = ie.Value.RANUENGAPID.Value
				}
			}
		}
		out["nas"] = hx(nasPdu)
		// a security protected 5GMM message under 5G-EA0: the plain message follows the 7-octet security header
		if len(nasPdu) > 7 && nasPdu[0] == 0x7e && nasPdu[1]&0x0f != 0 {
			out["plain"] = hx(nasPdu[7:])
		} else {
			out["plain"] = hx(nasPdu)
		}
		return out
	}
}

// every PLMNIdentity value found anywhere in a decoded NGAP PDU (reflection walk), as hex
func allPlmns(x interface{}) []string {
	out := []string{}
	var walk func(v reflect.Value)
	walk = func(v reflect.Value) {
		switch v.Kind() {
		case reflect.Ptr, reflect.Interface:
			if !v.IsNil() {
				walk(v.Elem())
			}
		case reflect.Struct:
			if v.Type() == reflect.TypeOf(ngapType.PLMNIdentity{}) {
				out = append(out, hx(v.Field(0).Bytes()))
				return
			}
			for i := 0; i < v.NumField(); i++ {
				walk(v.Field(i))
			}
		case reflect.Slice:
			if v.Type().Elem().Kind() != reflect.Uint8 {
				for i := 0; i < v.Len(); i++ {
					walk(v.Index(i))
				}
			}
		}
	}
	walk(reflect.ValueOf(x))
	return out
}
