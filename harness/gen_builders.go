package main

// gen-builders : tglib/ngapTestpacket/build.go + tglib/packet.go -> coq/Gen/Builders.v   (SENTINEL PROBING)
//
// Every Build* function and every Get* wrapper is CALLED with recognisable sentinel arguments; the NGAPPDU it
// returns (for a wrapper: the PDU the library's own ngap.Decoder reads back from the returned bytes, i.e. the
// value that reached ngap.Encoder) is walked by reflection and printed as a Gallina template [tval]: the
// value tree with every place where a sentinel shows up replaced by a hole naming the argument (HInt,
// HOctets, HBits, HCat, HMapInts/HElem) or the package-level state (HState "TestPlmn", set before each probe
// by a real BuildNGSetupRequest call).  Each probe is made with THREE different sentinel sets and the three
// trees are merged leaf by leaf: a leaf is a constant when the three agree, a hole when all three equal the
// respective sentinel of one argument, and anything else is a failure of parametricity -> the translator exits
// non-zero (emulator messages) or prints TVOpaque (other builders: e.g. an argument that ends up bit-shifted
// inside an encoded container).  Optional argument forms (nil / non-nil []int64, "" / non-empty 5G-S-TMSI) are
// probed as separate variants, each guarded by a condition.  Pointer / struct-slice arguments are probed as nil
// only (listed in b_fixed).  Functions of build.go that are not in the table below are printed as Unprobed.

import (
	"bytes"
	"fmt"
	"go/ast"
	"go/parser"
	"go/token"
	"os"
	"path/filepath"
	"reflect"
	"sort"
	"strings"

	"free5gclib/aper"
	"free5gclib/ngap"
	"free5gclib/ngap/ngapType"
	"tglib"
	"tglib/ngapTestpacket"
)

var builderTable = map[string]interface{}{
	"BuildNGSetupRequest": ngapTestpacket.BuildNGSetupRequest, "BuildNGReset": ngapTestpacket.BuildNGReset,
	"BuildNGResetAcknowledge": ngapTestpacket.BuildNGResetAcknowledge, "BuildInitialUEMessage": ngapTestpacket.BuildInitialUEMessage,
	"BuildErrorIndication": ngapTestpacket.BuildErrorIndication, "BuildUEContextReleaseRequest": ngapTestpacket.BuildUEContextReleaseRequest,
	"BuildUEContextReleaseComplete": ngapTestpacket.BuildUEContextReleaseComplete, "BuildUEContextModificationResponse": ngapTestpacket.BuildUEContextModificationResponse,
	"BuildUplinkNasTransport": ngapTestpacket.BuildUplinkNasTransport, "BuildInitialContextSetupResponse": ngapTestpacket.BuildInitialContextSetupResponse,
	"BuildInitialContextSetupFailure": ngapTestpacket.BuildInitialContextSetupFailure, "BuildPathSwitchRequest": ngapTestpacket.BuildPathSwitchRequest,
	"BuildHandoverRequestAcknowledge": ngapTestpacket.BuildHandoverRequestAcknowledge, "BuildHandoverFailure": ngapTestpacket.BuildHandoverFailure,
	"BuildPDUSessionResourceReleaseResponse": ngapTestpacket.BuildPDUSessionResourceReleaseResponse, "BuildAMFConfigurationUpdateFailure": ngapTestpacket.BuildAMFConfigurationUpdateFailure,
	"BuildUERadioCapabilityCheckRequest": ngapTestpacket.BuildUERadioCapabilityCheckRequest, "BuildUERadioCapabilityCheckResponse": ngapTestpacket.BuildUERadioCapabilityCheckResponse,
	"BuildHandoverCancel": ngapTestpacket.BuildHandoverCancel, "BuildLocationReportingFailureIndication": ngapTestpacket.BuildLocationReportingFailureIndication,
	"BuildPDUSessionResourceSetupResponse": ngapTestpacket.BuildPDUSessionResourceSetupResponse, "BuildPDUSessionResourceSetupResponseForPaging": ngapTestpacket.BuildPDUSessionResourceSetupResponseForPaging,
	"BuildPDUSessionResourceModifyResponse": ngapTestpacket.BuildPDUSessionResourceModifyResponse, "BuildPDUSessionResourceNotify": ngapTestpacket.BuildPDUSessionResourceNotify,
	"BuildPDUSessionResourceModifyIndication": ngapTestpacket.BuildPDUSessionResourceModifyIndication, "BuildUEContextModificationFailure": ngapTestpacket.BuildUEContextModificationFailure,
	"BuildRRCInactiveTransitionReport": ngapTestpacket.BuildRRCInactiveTransitionReport, "BuildHandoverNotify": ngapTestpacket.BuildHandoverNotify,
	"BuildUplinkRanStatusTransfer": ngapTestpacket.BuildUplinkRanStatusTransfer, "BuildNasNonDeliveryIndication": ngapTestpacket.BuildNasNonDeliveryIndication,
	"BuildRanConfigurationUpdate": ngapTestpacket.BuildRanConfigurationUpdate, "BuildRanConfigurationUpdateAck": ngapTestpacket.BuildRanConfigurationUpdateAck,
	"BuildRanConfigurationUpdateFailure": ngapTestpacket.BuildRanConfigurationUpdateFailure, "BuildAMFStatusIndication": ngapTestpacket.BuildAMFStatusIndication,
	"BuildUplinkRanConfigurationTransfer": ngapTestpacket.BuildUplinkRanConfigurationTransfer, "BuildUplinkUEAssociatedNRPPATransport": ngapTestpacket.BuildUplinkUEAssociatedNRPPATransport,
	"BuildUplinkNonUEAssociatedNRPPATransport": ngapTestpacket.BuildUplinkNonUEAssociatedNRPPATransport, "BuildLocationReport": ngapTestpacket.BuildLocationReport,
	"BuildUETNLABindingReleaseRequest": ngapTestpacket.BuildUETNLABindingReleaseRequest, "BuildUERadioCapabilityInfoIndication": ngapTestpacket.BuildUERadioCapabilityInfoIndication,
	"BuildAMFConfigurationUpdateAcknowledge": ngapTestpacket.BuildAMFConfigurationUpdateAcknowledge, "BuildAMFConfigurationUpdate": ngapTestpacket.BuildAMFConfigurationUpdate,
	"BuildHandoverRequired": ngapTestpacket.BuildHandoverRequired, "BuildCellTrafficTrace": ngapTestpacket.BuildCellTrafficTrace,
	"BuildInitialContextSetupResponseForRegistraionTest":      ngapTestpacket.BuildInitialContextSetupResponseForRegistraionTest,
	"BuildPDUSessionResourceSetupResponseForRegistrationTest": ngapTestpacket.BuildPDUSessionResourceSetupResponseForRegistrationTest,
	"BuildPDUSessionResourceReleaseResponseForReleaseTest":    ngapTestpacket.BuildPDUSessionResourceReleaseResponseForReleaseTest,
	"BuildNGSetupResponse": ngapTestpacket.BuildNGSetupResponse, "BuildPDUSessionResourceModifyConfirm": ngapTestpacket.BuildPDUSessionResourceModifyConfirm,
	"BuildPDUSessionResourceReleaseCommand": ngapTestpacket.BuildPDUSessionResourceReleaseCommand, "BuildOverloadStart": ngapTestpacket.BuildOverloadStart,
	"BuildOverloadStop": ngapTestpacket.BuildOverloadStop,
}

var wrapperTable = map[string]interface{}{
	"GetNGSetupRequest": tglib.GetNGSetupRequest, "GetInitialUEMessage": tglib.GetInitialUEMessage, "GetUplinkNASTransport": tglib.GetUplinkNASTransport,
	"GetInitialContextSetupResponse": tglib.GetInitialContextSetupResponse, "GetInitialContextSetupResponseForServiceRequest": tglib.GetInitialContextSetupResponseForServiceRequest,
	"GetPDUSessionResourceSetupResponse": tglib.GetPDUSessionResourceSetupResponse, "GetUEContextReleaseComplete": tglib.GetUEContextReleaseComplete,
	"GetUEContextReleaseRequest": tglib.GetUEContextReleaseRequest, "GetPDUSessionResourceReleaseResponse": tglib.GetPDUSessionResourceReleaseResponse,
	"GetPathSwitchRequest": tglib.GetPathSwitchRequest, "GetHandoverRequired": tglib.GetHandoverRequired, "GetHandoverRequestAcknowledge": tglib.GetHandoverRequestAcknowledge,
	"GetHandoverNotify": tglib.GetHandoverNotify, "GetPDUSessionResourceSetupResponseForPaging": tglib.GetPDUSessionResourceSetupResponseForPaging,
}

// the messages the emulator itself sends: parametricity failures there are fatal
var strictFuncs = map[string]bool{
	"GetNGSetupRequest": true, "GetInitialUEMessage": true, "GetUplinkNASTransport": true, "GetInitialContextSetupResponse": true,
	"GetInitialContextSetupResponseForServiceRequest": true, "GetPDUSessionResourceSetupResponse": true, "GetUEContextReleaseComplete": true,
	"GetUEContextReleaseRequest": true, "GetPDUSessionResourceReleaseResponse": true,
	"BuildNGSetupRequest": true, "BuildInitialUEMessage": true, "BuildUplinkNasTransport": true, "BuildInitialContextSetupResponse": true,
	"BuildInitialContextSetupResponseForRegistraionTest": true, "BuildPDUSessionResourceSetupResponseForRegistrationTest": true,
	"BuildUEContextReleaseComplete": true, "BuildUEContextReleaseRequest": true, "BuildPDUSessionResourceReleaseResponseForReleaseTest": true,
}

const nSets = 3

type argKind int

const (
	kInt argKind = iota
	kUint
	kBytes
	kText
	kIPv4
	kInts
	kTmsi
	kFixed // structured argument: probed as its zero value only
)

var kindName = map[argKind]string{kInt: "KInt", kUint: "KUint", kBytes: "KBytes", kText: "KBytes", kIPv4: "KIPv4", kInts: "KInts", kTmsi: "KTmsi", kFixed: "KFixed"}

type param struct {
	name string
	typ  reflect.Type
	kind argKind
}

type funcInfo struct {
	name   string
	params []param
	calls  string // for a wrapper: the Build* function its body calls
}

// ---- sentinels ----------------------------------------------------------------------------------------------
var statePlmn = [nSets][]byte{{0x13, 0xf1, 0x84}, {0x24, 0xf2, 0x95}, {0x35, 0xf3, 0xa6}}
var tmsiConst = "fe0000000001"

func lower(s string) string { return strings.ToLower(s) }

func intSentinel(name string, idx, set int) int64 {
	n := lower(name)
	switch {
	case strings.Contains(n, "amf") && strings.Contains(n, "id"):
		return []int64{0x1111111111, 0x3333333333, 0x5555555555}[set] + int64(idx)
	case strings.Contains(n, "ran") && strings.Contains(n, "id"):
		return []int64{0x22222222, 0x44444444, 0x66666666}[set] + int64(idx)
	case strings.Contains(n, "pdu"):
		return []int64{0x5b, 0x6c, 0x7d}[set] + int64(idx)
	}
	return []int64{0x9b, 0xac, 0xbd}[set] + int64(idx)
}

func bytesSentinel(name string, idx, set int) []byte {
	n := lower(name)
	b := byte(idx)
	switch {
	case strings.Contains(n, "plmn"):
		return [][]byte{{0x5a, 0xf6, 0x71 + b}, {0x6b, 0xf7, 0x82 + b}, {0x7c, 0xf8, 0x93 + b}}[set]
	case strings.Contains(n, "nas"):
		return [][]byte{{0x7e, 0x00, 0x41, 0xa1, 0xa2, 0xa3, 0xa4 + b}, {0x7e, 0x02, 0x56, 0xb1, 0xb2, 0xb3, 0xb4, 0xb5, 0xb6 + b}, {0x7e, 0x04, 0x67, 0xc1, 0xc2 + b}}[set]
	case n == "gnbid": // GetNGSetupRequest: id octets, used with the bitlength sentinel (24, 32, 28 bits)
		return [][]byte{{0xd1, 0xd2, 0xd3}, {0xe1, 0xe2, 0xe3, 0xe4}, {0xf1, 0xf2, 0xf3, 0xf0}}[set]
	case strings.Contains(n, "cell"): // 36-bit NR cell identity: the low nibble of the fifth octet is not part of it
		return [][]byte{{0xc1, 0xc2, 0xc3, 0xc4, 0xc0}, {0xd5, 0xd6, 0xd7, 0xd8, 0xd0}, {0xe9, 0xea, 0xeb, 0xec, 0xe0}}[set]
	case strings.Contains(n, "gnb"):
		return [][]byte{{0x8a, 0x8b, 0x8c + b}, {0x9a, 0x9b, 0x9c + b}, {0xaa, 0xab, 0xac + b}}[set]
	}
	return [][]byte{{0x91, 0x92, 0x93, 0x94 + b}, {0xa1, 0xa2, 0xa3, 0xa4 + b}, {0xb1, 0xb2, 0xb3, 0xb4 + b}}[set]
}

func textSentinel(name string, idx, set int) string {
	return []string{"gNB-Probe1", "ran_node.Second", "X3"}[set] + string(rune('a'+idx))
}

var ipSentinel = [nSets]string{"10.203.204.205", "172.31.254.253", "192.168.219.220"}

func ipOctets(s string) []byte {
	var a, b, c, d int
	fmt.Sscanf(s, "%d.%d.%d.%d", &a, &b, &c, &d)
	return []byte{byte(a), byte(b), byte(c), byte(d)}
}

func uintSentinel(name string, set int) uint64 { return []uint64{24, 32, 28}[set] }

func intsSentinel(set int) []int64 {
	return [][]int64{{0x31, 0x32}, {0x41, 0x42, 0x43}, {0x51}}[set]
}

// ---- source: parameter names, which builder a wrapper calls ------------------------------------------------------
func classifyParam(name string, t reflect.Type) argKind {
	switch {
	case t.Kind() == reflect.Int64:
		return kInt
	case t.Kind() == reflect.Uint64:
		return kUint
	case t.Kind() == reflect.Slice && t.Elem().Kind() == reflect.Uint8:
		return kBytes
	case t.Kind() == reflect.Slice && t.Elem().Kind() == reflect.Int64:
		return kInts
	case t.Kind() == reflect.String && strings.Contains(lower(name), "ipv4"):
		return kIPv4
	case t.Kind() == reflect.String && strings.Contains(lower(name), "tmsi"):
		return kTmsi
	case t.Kind() == reflect.String:
		return kText
	}
	return kFixed
}

func parseFuncs(file string, prefix string) ([]*funcInfo, error) {
	fset := token.NewFileSet()
	f, err := parser.ParseFile(fset, file, nil, 0)
	if err != nil {
		return nil, err
	}
	var out []*funcInfo
	for _, d := range f.Decls {
		fd, ok := d.(*ast.FuncDecl)
		if !ok || fd.Recv != nil || !strings.HasPrefix(fd.Name.Name, prefix) {
			continue
		}
		fi := &funcInfo{name: fd.Name.Name}
		for _, fl := range fd.Type.Params.List {
			for _, n := range fl.Names {
				fi.params = append(fi.params, param{name: n.Name})
			}
		}
		ast.Inspect(fd.Body, func(n ast.Node) bool {
			if c, ok := n.(*ast.CallExpr); ok && fi.calls == "" {
				if sel, ok := c.Fun.(*ast.SelectorExpr); ok {
					if x, ok := sel.X.(*ast.Ident); ok && x.Name == "ngapTestpacket" && strings.HasPrefix(sel.Sel.Name, "Build") {
						fi.calls = sel.Sel.Name
					}
				}
			}
			return true
		})
		out = append(out, fi)
	}
	return out, nil
}

// ---- one probe ----------------------------------------------------------------------------------------------------
type env struct {
	ints  map[string]int64
	uints map[string]uint64
	byts  map[string][]byte // []byte, text and IPv4 (4 octets) arguments
	lists map[string][]int64
	state []byte
	elem  *int64
	eName string
}

type variant struct {
	conds []string        // Coq terms
	nilOf map[string]bool // []int64 / tmsi arguments given in their absent form
}

func makeArgs(fi *funcInfo, set int, v variant) ([]reflect.Value, *env) {
	e := &env{ints: map[string]int64{}, uints: map[string]uint64{}, byts: map[string][]byte{}, lists: map[string][]int64{}, state: statePlmn[set]}
	var args []reflect.Value
	for i, p := range fi.params {
		switch p.kind {
		case kInt:
			x := intSentinel(p.name, i, set)
			e.ints[p.name] = x
			args = append(args, reflect.ValueOf(x))
		case kUint:
			x := uintSentinel(p.name, set)
			e.uints[p.name] = x
			args = append(args, reflect.ValueOf(x))
		case kBytes:
			b := bytesSentinel(p.name, i, set)
			e.byts[p.name] = b
			args = append(args, reflect.ValueOf(append([]byte(nil), b...)).Convert(p.typ))
		case kText:
			s := textSentinel(p.name, i, set)
			e.byts[p.name] = []byte(s)
			args = append(args, reflect.ValueOf(s))
		case kIPv4:
			e.byts[p.name] = ipOctets(ipSentinel[set])
			args = append(args, reflect.ValueOf(ipSentinel[set]))
		case kInts:
			if v.nilOf[p.name] {
				args = append(args, reflect.Zero(p.typ))
			} else {
				l := intsSentinel(set)
				e.lists[p.name] = l
				args = append(args, reflect.ValueOf(append([]int64(nil), l...)))
			}
		case kTmsi:
			if v.nilOf[p.name] {
				args = append(args, reflect.ValueOf(""))
			} else {
				args = append(args, reflect.ValueOf(tmsiConst))
			}
		default:
			args = append(args, reflect.Zero(p.typ))
		}
	}
	return args, e
}

type probeResult struct {
	pdu      reflect.Value // ngapType.NGAPPDU
	e        *env
	plmnAft  []byte
	panicMsg string
}

func probe(fi *funcInfo, fn interface{}, isWrapper bool, set int, v variant) (r probeResult) {
	args, e := makeArgs(fi, set, v)
	r.e = e
	defer func() {
		if x := recover(); x != nil {
			r.panicMsg = fmt.Sprint(x)
		}
	}()
	// the package-level state, put there the way the emulator does it
	ngapTestpacket.BuildNGSetupRequest(append([]byte(nil), statePlmn[set]...))
	outs := reflect.ValueOf(fn).Call(args)
	r.plmnAft = append([]byte(nil), ngapTestpacket.TestPlmn.Value...)
	if !isWrapper {
		r.pdu = outs[0]
		return r
	}
	if !outs[1].IsNil() {
		r.panicMsg = "wrapper refused its sentinels: " + outs[1].Interface().(error).Error()
		return r
	}
	pdu, err := ngap.Decoder(outs[0].Bytes())
	if err != nil {
		r.panicMsg = "decoder refused the wrapper's bytes: " + err.Error()
		return r
	}
	r.pdu = reflect.ValueOf(*pdu)
	return r
}

// ---- merging the probes into one template ---------------------------------------------------------------------------
type inst struct {
	v reflect.Value
	e *env
}

type merger struct {
	opaque []string // paths where the probes differ in a way no argument explains
}

func cN(b []byte) string {
	var s []string
	for _, x := range b {
		s = append(s, fmt.Sprint(x))
	}
	return "[" + strings.Join(s, ";") + "]"
}

func cZ(z int64) string {
	if z < 0 {
		return fmt.Sprintf("(%d)%%Z", z)
	}
	return fmt.Sprintf("%d%%Z", z)
}

func allSame(is []inst, f func(inst) string) bool {
	for _, i := range is[1:] {
		if f(i) != f(is[0]) {
			return false
		}
	}
	return true
}

func sortedKeys[T any](m map[string]T) []string {
	var ks []string
	for k := range m {
		ks = append(ks, k)
	}
	sort.Strings(ks)
	return ks
}

// the integer argument every instance's value equals
func (m *merger) intHole(is []inst, val func(inst) int64) string {
	for _, a := range sortedKeys(is[0].e.ints) {
		ok := true
		for _, i := range is {
			if x, has := i.e.ints[a]; !has || x != val(i) {
				ok = false
			}
		}
		if ok {
			return "HInt " + coqStr(a)
		}
	}
	ok := true
	for _, i := range is {
		if i.e.elem == nil || *i.e.elem != val(i) {
			ok = false
		}
	}
	if ok {
		return "HElem"
	}
	return ""
}

// octet string as a concatenation of constants, whole arguments and the state
func (m *merger) octets(is []inst, get func(inst) []byte, path string) string {
	if allSame(is, func(i inst) string { return string(get(i)) }) {
		return "TVOctets " + cN(get(is[0]))
	}
	type piece struct {
		konst []byte
		arg   string // "" = constant, "$state" = TestPlmn
	}
	cands := func(e *env) map[string][]byte {
		c := map[string][]byte{}
		for k, b := range e.byts {
			if len(b) > 0 {
				c[k] = b
			}
		}
		c["$state"] = e.state
		return c
	}
	b0 := get(is[0])
	c0 := cands(is[0].e)
	names := sortedKeys(c0)
	var ps []piece
	var cur []byte
	for p := 0; p < len(b0); {
		hit := ""
		for _, k := range names {
			if bytes.HasPrefix(b0[p:], c0[k]) {
				hit = k
				break
			}
		}
		if hit == "" {
			cur = append(cur, b0[p])
			p++
			continue
		}
		if len(cur) > 0 {
			ps = append(ps, piece{konst: cur})
			cur = nil
		}
		ps = append(ps, piece{arg: hit})
		p += len(c0[hit])
	}
	if len(cur) > 0 {
		ps = append(ps, piece{konst: cur})
	}
	for _, i := range is { // the same recipe must reproduce every probe
		c := cands(i.e)
		var b []byte
		for _, p := range ps {
			if p.arg == "" {
				b = append(b, p.konst...)
			} else {
				b = append(b, c[p.arg]...)
			}
		}
		if !bytes.Equal(b, get(i)) {
			m.opaque = append(m.opaque, path)
			return "TVOpaque"
		}
	}
	term := func(p piece) string {
		switch p.arg {
		case "":
			return "PConst " + cN(p.konst)
		case "$state":
			return "PState " + coqStr("TestPlmn")
		}
		return "PArg " + coqStr(p.arg)
	}
	if len(ps) == 1 {
		if ps[0].arg == "$state" {
			return "HState " + coqStr("TestPlmn")
		}
		return "HOctets " + coqStr(ps[0].arg)
	}
	var ts []string
	for _, p := range ps {
		ts = append(ts, term(p))
	}
	return "HCat [" + strings.Join(ts, "; ") + "]"
}

func (m *merger) merge(is []inst, path string) string {
	t := is[0].v.Type()
	switch {
	case t == aper.BitStringType:
		byt := func(i inst) []byte { return i.v.Field(0).Bytes() }
		nb := func(i inst) uint64 { return i.v.Field(1).Uint() }
		sameN := allSame(is, func(i inst) string { return fmt.Sprint(nb(i)) })
		if sameN && allSame(is, func(i inst) string { return string(byt(i)) }) {
			return fmt.Sprintf("TVBits %s %d", cN(byt(is[0])), nb(is[0]))
		}
		for _, a := range sortedKeys(is[0].e.byts) {
			ok := true
			for _, i := range is {
				if !bytes.Equal(i.e.byts[a], byt(i)) {
					ok = false
				}
			}
			if !ok {
				continue
			}
			if sameN {
				return fmt.Sprintf("HBitsC %s %d", coqStr(a), nb(is[0]))
			}
			for _, u := range sortedKeys(is[0].e.uints) {
				ok2 := true
				for _, i := range is {
					if i.e.uints[u] != nb(i) {
						ok2 = false
					}
				}
				if ok2 {
					return fmt.Sprintf("HBits %s %s", coqStr(a), coqStr(u))
				}
			}
		}
		m.opaque = append(m.opaque, path)
		return "TVOpaque"
	case t == aper.OctetStringType || t == aper.ObjectIdentifierType:
		return m.octets(is, func(i inst) []byte { return i.v.Bytes() }, path)
	case t == aper.EnumeratedType:
		if allSame(is, func(i inst) string { return fmt.Sprint(i.v.Uint()) }) {
			return fmt.Sprintf("TVEnum %d", is[0].v.Uint())
		}
		m.opaque = append(m.opaque, path)
		return "TVOpaque"
	}
	switch t.Kind() {
	case reflect.Bool:
		if allSame(is, func(i inst) string { return fmt.Sprint(i.v.Bool()) }) {
			return fmt.Sprintf("TVBool %v", is[0].v.Bool())
		}
	case reflect.Int, reflect.Int32, reflect.Int64:
		if allSame(is, func(i inst) string { return fmt.Sprint(i.v.Int()) }) {
			return "TVInt " + cZ(is[0].v.Int())
		}
		if h := m.intHole(is, func(i inst) int64 { return i.v.Int() }); h != "" {
			return h
		}
	case reflect.String:
		return m.octets(is, func(i inst) []byte { return []byte(i.v.String()) }, path)
	case reflect.Ptr:
		if allSame(is, func(i inst) string { return fmt.Sprint(i.v.IsNil()) }) {
			if is[0].v.IsNil() {
				return "TVNil"
			}
			var sub []inst
			for _, i := range is {
				sub = append(sub, inst{i.v.Elem(), i.e})
			}
			return "TVPtr (" + m.merge(sub, path) + ")"
		}
	case reflect.Slice:
		if allSame(is, func(i inst) string { return fmt.Sprint(i.v.Len()) }) {
			var items []string
			for j := 0; j < is[0].v.Len(); j++ {
				var sub []inst
				for _, i := range is {
					sub = append(sub, inst{i.v.Index(j), i.e})
				}
				items = append(items, m.merge(sub, fmt.Sprintf("%s[%d]", path, j)))
			}
			return "TVList [" + strings.Join(items, "; ") + "]"
		}
		// one item per element of a []int64 argument
		for _, a := range sortedKeys(is[0].e.lists) {
			ok := true
			for _, i := range is {
				if i.e.elem != nil || len(i.e.lists[a]) != i.v.Len() {
					ok = false
				}
			}
			if !ok {
				continue
			}
			var sub []inst
			for _, i := range is {
				for j := 0; j < i.v.Len(); j++ {
					x := i.e.lists[a][j]
					e2 := *i.e
					e2.elem = &x
					sub = append(sub, inst{i.v.Index(j), &e2})
				}
			}
			return "HMapInts " + coqStr(a) + " (" + m.merge(sub, path+"[*]") + ")"
		}
	case reflect.Struct:
		var fs []string
		for k := 0; k < t.NumField(); k++ {
			var sub []inst
			for _, i := range is {
				sub = append(sub, inst{i.v.Field(k), i.e})
			}
			fs = append(fs, m.merge(sub, path+"."+t.Field(k).Name))
		}
		return "TVStruct [" + strings.Join(fs, "; ") + "]"
	}
	m.opaque = append(m.opaque, path)
	return "TVOpaque"
}

// ---- variants -------------------------------------------------------------------------------------------------------
func variantsOf(fi *funcInfo) []variant {
	vs := []variant{{nilOf: map[string]bool{}}}
	for _, p := range fi.params {
		if p.kind != kInts && p.kind != kTmsi {
			continue
		}
		var nv []variant
		for _, v := range vs {
			for _, absent := range []bool{true, false} {
				w := variant{nilOf: map[string]bool{}}
				for k, x := range v.nilOf {
					w.nilOf[k] = x
				}
				w.conds = append([]string(nil), v.conds...)
				w.nilOf[p.name] = absent
				switch {
				case p.kind == kInts && absent:
					w.conds = append(w.conds, "CNil "+coqStr(p.name))
				case p.kind == kInts:
					w.conds = append(w.conds, "CNonNil "+coqStr(p.name))
				case absent:
					w.conds = append(w.conds, "CBytesEq "+coqStr(p.name)+" []")
				default:
					w.conds = append(w.conds, "CBytesEq "+coqStr(p.name)+" "+cN([]byte(tmsiConst)))
				}
				nv = append(nv, w)
			}
		}
		vs = nv
	}
	return vs
}

// which argument (if any) ends up in TestPlmn
func stateWrites(fi *funcInfo, rs []probeResult) (string, error) {
	unchanged := true
	for k, r := range rs {
		if !bytes.Equal(r.plmnAft, statePlmn[k]) {
			unchanged = false
		}
	}
	if unchanged {
		return "[]", nil
	}
	for _, a := range sortedKeys(rs[0].e.byts) {
		ok := true
		for _, r := range rs {
			if !bytes.Equal(r.plmnAft, r.e.byts[a]) {
				ok = false
			}
		}
		if ok {
			return "[(" + coqStr("TestPlmn") + ", " + coqStr(a) + ")]", nil
		}
	}
	return "", fmt.Errorf("%s changes TestPlmn in a way no argument explains", fi.name)
}

func emitFunc(w *bytes.Buffer, fi *funcInfo, fn interface{}, isWrapper bool) (ident string, err error) {
	ft := reflect.TypeOf(fn)
	if ft.NumIn() != len(fi.params) {
		return "", fmt.Errorf("%s: %d parameters in the source, %d in the compiled function", fi.name, len(fi.params), ft.NumIn())
	}
	var fixed []string
	for i := range fi.params {
		fi.params[i].typ = ft.In(i)
		fi.params[i].kind = classifyParam(fi.params[i].name, ft.In(i))
		if fi.params[i].kind == kFixed {
			fixed = append(fixed, coqStr(fi.params[i].name))
		}
	}
	var vtexts []string
	writes := ""
	for _, v := range variantsOf(fi) {
		var rs []probeResult
		for k := 0; k < nSets; k++ {
			r := probe(fi, fn, isWrapper, k, v)
			if r.panicMsg != "" {
				if strictFuncs[fi.name] {
					return "", fmt.Errorf("%s cannot be probed (sentinel set %d): %s", fi.name, k+1, r.panicMsg)
				}
				fmt.Fprintf(w, "(* %s: probing failed: %s *)\n", fi.name, strings.ReplaceAll(r.panicMsg, "*)", "* )"))
				return "", nil
			}
			rs = append(rs, r)
		}
		ws, err := stateWrites(fi, rs)
		if err != nil {
			return "", err
		}
		if writes != "" && writes != ws {
			return "", fmt.Errorf("%s: the effect on TestPlmn depends on the variant", fi.name)
		}
		writes = ws
		m := &merger{}
		var is []inst
		for _, r := range rs {
			is = append(is, inst{r.pdu, r.e})
		}
		tv := m.merge(is, "pdu")
		if len(m.opaque) > 0 {
			if strictFuncs[fi.name] {
				return "", fmt.Errorf("%s is not parametric in its arguments: the three probes differ at %s in a way no sentinel explains",
					fi.name, strings.Join(m.opaque, ", "))
			}
			fmt.Fprintf(w, "(* %s: not explained by any argument: %s *)\n", fi.name, strings.Join(m.opaque, ", "))
		}
		vtexts = append(vtexts, "([" + strings.Join(v.conds, "; ") + "],\n     " + tv + ")")
	}
	var ps []string
	for _, p := range fi.params {
		ps = append(ps, "("+coqStr(p.name)+", "+kindName[p.kind]+")")
	}
	ident = "B_" + fi.name
	kind := "KBuild"
	if isWrapper {
		kind = "KWrapper"
	}
	fmt.Fprintf(w, "Definition %s : builder := mkB %s %s %s\n  [%s]\n  [%s]\n  %s\n  [%s].\n\n", ident, coqStr(fi.name), kind, coqStr(fi.calls),
		strings.Join(ps, "; "), strings.Join(fixed, "; "), writes, strings.Join(vtexts, ";\n    "))
	return ident, nil
}

func init() {
	rawCmds["gen-builders"] = func(args []string) int {
		root := repoRoot(args)
		builds, err := parseFuncs(filepath.Join(root, "src/tglib/ngapTestpacket/build.go"), "Build")
		if err != nil {
			fmt.Fprintln(os.Stderr, err)
			return 1
		}
		gets, err := parseFuncs(filepath.Join(root, "src/tglib/packet.go"), "Get")
		if err != nil {
			fmt.Fprintln(os.Stderr, err)
			return 1
		}
		// keep the library's chatter out of the generated text
		realOut := os.Stdout
		devnull, _ := os.OpenFile(os.DevNull, os.O_WRONLY, 0)
		os.Stdout = devnull
		var w bytes.Buffer
		w.WriteString("(* GENERATED by harness gen-builders (sentinel probing of tglib/ngapTestpacket/build.go and tglib/packet.go,\n" +
			"   three sentinel sets per variant). Do not edit. *)\n" +
			"From Coq Require Import ZArith NArith List String.\nRequire Import BuildersT.\nImport ListNotations.\nLocal Open Scope string_scope.\n\n")
		var bIdents, wIdents, unprobed []string
		fail := func(e error) int {
			os.Stdout = realOut
			fmt.Fprintln(os.Stderr, "gen-builders:", e)
			return 1
		}
		for _, fi := range builds {
			fn, ok := builderTable[fi.name]
			if !ok {
				unprobed = append(unprobed, fi.name)
				continue
			}
			id, err := emitFunc(&w, fi, fn, false)
			if err != nil {
				return fail(err)
			}
			if id == "" {
				unprobed = append(unprobed, fi.name)
			} else {
				bIdents = append(bIdents, id)
			}
		}
		for _, fi := range gets {
			fn, ok := wrapperTable[fi.name]
			if !ok {
				if fi.calls != "" { // a build-and-encode wrapper this translator has no entry for
					unprobed = append(unprobed, fi.name)
				}
				continue
			}
			id, err := emitFunc(&w, fi, fn, true)
			if err != nil {
				return fail(err)
			}
			if id == "" {
				unprobed = append(unprobed, fi.name)
			} else {
				wIdents = append(wIdents, id)
			}
		}
		for name := range builderTable {
			found := false
			for _, fi := range builds {
				if fi.name == name {
					found = true
				}
			}
			if !found {
				return fail(fmt.Errorf("%s is compiled in but not found in build.go", name))
			}
		}
		fmt.Fprintf(&w, "Definition builders : list builder := [%s].\n\n", strings.Join(bIdents, "; "))
		fmt.Fprintf(&w, "Definition wrappers : list builder := [%s].\n\n", strings.Join(wIdents, "; "))
		var us []string
		for _, u := range unprobed {
			us = append(us, "Unprobed "+coqStr(u))
		}
		fmt.Fprintf(&w, "Definition unprobed : list unprobed_fn := [%s].\n\n", strings.Join(us, "; "))
		fmt.Fprintf(&w, "(* %d Build* functions and %d Get* wrappers probed, %d unprobed; type of the probed value: %s *)\n",
			len(bIdents), len(wIdents), len(unprobed), reflect.TypeOf(ngapType.NGAPPDU{}).String())
		os.Stdout = realOut
		os.Stdout.Write(w.Bytes())
		return 0
	}
}
