package main

// gen-ngapschema: reflect over ngapType.NGAPPDU and the transfer/container roots that the repository
// encodes separately with aper.MarshalWithParams, and print coq/Gen/NgapSchema.v: exactly the types
// and `aper:"..."` tags that the generic codec sees at run time.
//   harness gen-ngapschema          -> Coq text
//   harness gen-ngapschema -json    -> the same schema as JSON (for the Python value generator)
// The parameter strings handed to the root calls are read from the source (ngap/ngap.go, build.go).

import (
	"encoding/json"
	"fmt"
	"os"
	"reflect"
	"regexp"
	"sort"
	"strconv"
	"strings"

	"free5gclib/aper"
	"free5gclib/ngap/ngapType"
)

// ---- a copy of aper/common.go parseFieldParameters (unexported there); same case order, same
// ---- "ignore unknown parts / ignore unparsable numbers" behaviour
type fparams struct {
	optional, sizeExt, valueExt, openType   bool
	sizeLB, sizeUB, valueLB, valueUB, refValue *int64
	refName                                  string
}

func parseTag(str string) (p fparams) {
	pi := func(s string) *int64 {
		i, err := strconv.ParseInt(s, 10, 64)
		if err != nil {
			return nil
		}
		return &i
	}
	for _, part := range strings.Split(str, ",") {
		switch {
		case part == "optional":
			p.optional = true
		case part == "sizeExt":
			p.sizeExt = true
		case part == "valueExt":
			p.valueExt = true
		case strings.HasPrefix(part, "sizeLB:"):
			if v := pi(part[7:]); v != nil {
				p.sizeLB = v
			}
		case strings.HasPrefix(part, "sizeUB:"):
			if v := pi(part[7:]); v != nil {
				p.sizeUB = v
			}
		case strings.HasPrefix(part, "valueLB:"):
			if v := pi(part[8:]); v != nil {
				p.valueLB = v
			}
		case strings.HasPrefix(part, "valueUB:"):
			if v := pi(part[8:]); v != nil {
				p.valueUB = v
			}
		case strings.HasPrefix(part, "default:"):
		case part == "openType":
			p.openType = true
		case strings.HasPrefix(part, "referenceFieldName:"):
			p.refName = part[19:]
		case strings.HasPrefix(part, "referenceFieldValue:"):
			if v := pi(part[20:]); v != nil {
				p.refValue = v
			}
		}
	}
	return
}

func coqOptZ(p *int64) string {
	if p == nil {
		return "None"
	}
	if *p < 0 {
		return fmt.Sprintf("(Some (%d)%%Z)", *p)
	}
	return fmt.Sprintf("(Some %d%%Z)", *p)
}
func coqBool(b bool) string {
	if b {
		return "true"
	}
	return "false"
}
func coqParams(p fparams) string {
	return fmt.Sprintf("mkp %s %s %s %s %s %s %s %s %s %q", coqBool(p.optional), coqBool(p.sizeExt), coqBool(p.valueExt),
		coqBool(p.openType), coqOptZ(p.sizeLB), coqOptZ(p.sizeUB), coqOptZ(p.valueLB), coqOptZ(p.valueUB), coqOptZ(p.refValue), p.refName)
}

// ---- schema walk
type jField struct {
	Name string `json:"name"`
	Tag  string `json:"tag"`
	Type string `json:"type"`
}
type jType struct {
	Kind   string   `json:"kind"`
	Elem   string   `json:"elem,omitempty"`
	Fields []jField `json:"fields,omitempty"`
	Size   uintptr  `json:"size"`
}

type schemaGen struct {
	types   map[string]*jType
	order   []string // struct types, dependencies first
	rtypes  map[string]reflect.Type
	problem []string
}

func (g *schemaGen) walk(t reflect.Type) string {
	n := t.String()
	if _, ok := g.types[n]; ok {
		return n
	}
	ty := &jType{Size: t.Size()}
	g.types[n] = ty
	g.rtypes[n] = t
	switch {
	case t == aper.BitStringType:
		ty.Kind = "bitstring"
	case t == aper.OctetStringType:
		ty.Kind = "octetstring"
	case t == aper.EnumeratedType:
		ty.Kind = "enum"
	case t == aper.ObjectIdentifierType:
		ty.Kind = "oid"
	default:
		switch t.Kind() {
		case reflect.Bool:
			ty.Kind = "bool"
		case reflect.Int, reflect.Int32, reflect.Int64:
			ty.Kind = "int"
			if t.Size() != 8 {
				g.problem = append(g.problem, "integer type of size != 8: "+n)
			}
		case reflect.String:
			ty.Kind = "string"
		case reflect.Ptr:
			ty.Kind = "ptr"
			ty.Elem = g.walk(t.Elem())
		case reflect.Slice:
			ty.Kind = "slice"
			ty.Elem = g.walk(t.Elem())
		case reflect.Struct:
			ty.Kind = "struct"
			if t.Name() == "" {
				g.problem = append(g.problem, "anonymous struct "+n)
			}
			for i := 0; i < t.NumField(); i++ {
				f := t.Field(i)
				if f.PkgPath != "" {
					g.problem = append(g.problem, "unexported field "+n+"."+f.Name)
				}
				ty.Fields = append(ty.Fields, jField{f.Name, f.Tag.Get("aper"), g.walk(f.Type)})
			}
			g.order = append(g.order, n)
		default:
			ty.Kind = "unsupported:" + t.Kind().String()
			g.problem = append(g.problem, "unsupported kind "+n)
		}
	}
	return n
}

func coqIdent(goName string) string {
	s := strings.TrimPrefix(goName, "ngapType.")
	s = strings.NewReplacer(".", "_", "*", "P_", "[]", "L_").Replace(s)
	return "T_" + s
}

func (g *schemaGen) tyExpr(n string) string {
	t := g.types[n]
	switch t.Kind {
	case "bitstring":
		return "TBits"
	case "octetstring":
		return "TOctets"
	case "enum":
		return "TEnum"
	case "oid":
		return "TOid"
	case "bool":
		return "TBool"
	case "int":
		return "TInt"
	case "string":
		return "TString"
	case "ptr":
		return "(TPtr " + g.tyExpr(t.Elem) + ")"
	case "slice":
		return "(TSlice " + g.tyExpr(t.Elem) + ")"
	case "struct":
		return coqIdent(n)
	}
	return "TOid (* " + t.Kind + " *)"
}

var ngapRootValues = []interface{}{
	ngapType.NGAPPDU{},
	ngapType.PDUSessionResourceSetupRequestTransfer{}, ngapType.PDUSessionResourceSetupResponseTransfer{},
	ngapType.PDUSessionResourceSetupUnsuccessfulTransfer{}, ngapType.PDUSessionResourceReleaseCommandTransfer{},
	ngapType.PDUSessionResourceReleaseResponseTransfer{}, ngapType.PDUSessionResourceModifyRequestTransfer{},
	ngapType.PDUSessionResourceModifyResponseTransfer{}, ngapType.PDUSessionResourceModifyUnsuccessfulTransfer{},
	ngapType.PDUSessionResourceModifyIndicationTransfer{}, ngapType.PDUSessionResourceModifyConfirmTransfer{},
	ngapType.PDUSessionResourceModifyIndicationUnsuccessfulTransfer{}, ngapType.PDUSessionResourceNotifyTransfer{},
	ngapType.PDUSessionResourceNotifyReleasedTransfer{}, ngapType.PathSwitchRequestTransfer{},
	ngapType.PathSwitchRequestSetupFailedTransfer{}, ngapType.PathSwitchRequestAcknowledgeTransfer{},
	ngapType.PathSwitchRequestUnsuccessfulTransfer{}, ngapType.HandoverRequiredTransfer{},
	ngapType.HandoverCommandTransfer{}, ngapType.HandoverRequestAcknowledgeTransfer{},
	ngapType.HandoverPreparationUnsuccessfulTransfer{}, ngapType.HandoverResourceAllocationUnsuccessfulTransfer{},
	ngapType.SourceNGRANNodeToTargetNGRANNodeTransparentContainer{}, ngapType.TargetNGRANNodeToSourceNGRANNodeTransparentContainer{},
}

// ngapRootTypes is shared with cmd_ngap.go
func ngapRootTypes() map[string]reflect.Type {
	m := map[string]reflect.Type{}
	for _, r := range ngapRootValues {
		t := reflect.TypeOf(r)
		m[strings.TrimPrefix(t.String(), "ngapType.")] = t
	}
	return m
}

// parameter strings as written in the source tree (cwd = /repo when run as a translator)
func sourceParam(file, pattern, deflt string) string {
	b, err := os.ReadFile(file)
	if err != nil {
		return deflt
	}
	m := regexp.MustCompile(pattern).FindSubmatch(b)
	if m == nil {
		return deflt
	}
	return string(m[1])
}

func init() {
	rawCmds["gen-ngapschema"] = func(args []string) int {
		g := &schemaGen{types: map[string]*jType{}, rtypes: map[string]reflect.Type{}}
		type root struct{ Name, Type, Params, DecParams string }
		var roots []root
		encP := sourceParam("src/free5gclib/ngap/ngap.go", `MarshalWithParams\(pdu,\s*"([^"]*)"\)`, "valueExt,valueLB:0,valueUB:2")
		decP := sourceParam("src/free5gclib/ngap/ngap.go", `UnmarshalWithParams\(b,\s*pdu,\s*"([^"]*)"\)`, "valueExt,valueLB:0,valueUB:2")
		trP := sourceParam("src/tglib/ngapTestpacket/build.go", `MarshalWithParams\(data,\s*"([^"]*)"\)`, "valueExt")
		for i, r := range ngapRootValues {
			n := g.walk(reflect.TypeOf(r))
			if i == 0 {
				roots = append(roots, root{strings.TrimPrefix(n, "ngapType."), n, encP, decP})
			} else {
				roots = append(roots, root{strings.TrimPrefix(n, "ngapType."), n, trP, trP})
			}
		}
		if len(g.problem) > 0 {
			fmt.Fprintln(os.Stderr, "gen-ngapschema:", strings.Join(g.problem, "; "))
			return 1
		}
		if len(args) > 0 && args[0] == "-json" {
			out := map[string]interface{}{"roots": roots, "types": g.types}
			b, _ := json.Marshal(out)
			os.Stdout.Write(b)
			fmt.Println()
			return 0
		}
		w := &strings.Builder{}
		fmt.Fprintf(w, "(* GENERATED by harness gen-ngapschema from /repo/src/free5gclib/ngap/ngapType (reflect). Do not edit. *)\n")
		fmt.Fprintf(w, "From Coq Require Import ZArith NArith List String.\nRequire Import AperCommon.\nImport ListNotations.\nLocal Open Scope string_scope.\n\n")
		// shared parameter records
		pidx := map[string]int{}
		var plist []string
		pname := func(tag string) string {
			s := coqParams(parseTag(tag))
			if i, ok := pidx[s]; ok {
				return fmt.Sprintf("p%d", i)
			}
			pidx[s] = len(plist)
			plist = append(plist, s)
			return fmt.Sprintf("p%d", len(plist)-1)
		}
		body := &strings.Builder{}
		nfields := 0
		for _, n := range g.order {
			t := g.types[n]
			fmt.Fprintf(body, "Definition %s : ty := TStruct [", coqIdent(n))
			for i, f := range t.Fields {
				if i > 0 {
					body.WriteString(";")
				}
				fmt.Fprintf(body, "\n  (%q, %s, %s)", f.Name, pname(f.Tag), g.tyExpr(f.Type))
				nfields++
			}
			body.WriteString("].\n")
		}
		rootsTxt := &strings.Builder{}
		fmt.Fprintf(rootsTxt, "\n(* name, type, parameters of the encoding call, parameters of the decoding call *)\nDefinition ngap_roots_full : list (string * ty * params * params) := [")
		for i, r := range roots {
			if i > 0 {
				rootsTxt.WriteString(";")
			}
			fmt.Fprintf(rootsTxt, "\n  (%q, %s, %s, %s)", r.Name, coqIdent(r.Type), pname(r.Params), pname(r.DecParams))
		}
		rootsTxt.WriteString("].\n")
		fmt.Fprintf(rootsTxt, "Definition ngap_roots : list (string * ty * params) := map (fun r => let '(n, t, pe, _) := r in (n, t, pe)) ngap_roots_full.\n")
		for i, s := range plist {
			fmt.Fprintf(w, "Definition p%d : params := %s.\n", i, s)
		}
		w.WriteString("\n")
		w.WriteString(body.String())
		w.WriteString(rootsTxt.String())
		// every struct type with its Go size (unsafe.Sizeof as reflect reports it) and every slice element type
		fmt.Fprintf(w, "\n(* all struct types, dependencies first, with reflect's Size() *)\nDefinition ngap_types : list (string * ty * N) := [")
		for i, n := range g.order {
			if i > 0 {
				w.WriteString(";")
			}
			fmt.Fprintf(w, "\n  (%q, %s, %d%%N)", strings.TrimPrefix(n, "ngapType."), coqIdent(n), g.types[n].Size)
		}
		w.WriteString("].\n")
		var sl []string
		for n, t := range g.types {
			if t.Kind == "slice" {
				sl = append(sl, n)
			}
		}
		sort.Strings(sl)
		fmt.Fprintf(w, "\n(* element types of all slice types with the element's Size() *)\nDefinition ngap_slice_elems : list (ty * N) := [")
		for i, n := range sl {
			if i > 0 {
				w.WriteString(";")
			}
			e := g.types[n].Elem
			fmt.Fprintf(w, "\n  (%s, %d%%N)", g.tyExpr(e), g.types[e].Size)
		}
		w.WriteString("].\n")
		fmt.Fprintf(w, "\n(* %d types seen by reflect, %d struct definitions, %d fields, %d distinct parameter records *)\n", len(g.types), len(g.order), nfields, len(plist))
		os.Stdout.WriteString(w.String())
		return 0
	}
}
