package main

import (
	"free5gclib/nas/nasConvert"
	"free5gclib/nas/nasMessage"
	"free5gclib/nas/nasTestpacket"
	"free5gclib/ngap"
	"free5gclib/ngap/ngapType"
	"free5gclib/openapi/models"
	"strings"

	"stgutg"
	"tglib"
)

func init() {
	// suci: {imsi, mnclen} -> EncodeSuci buffer/len, the plain REGISTRATION REQUEST and DEREGISTRATION REQUEST
	// carrying it (built with the same constructor calls as RegisterUE / DeregisterUE), the PLMN octets found in
	// the encoded NGSetupRequest (built with the same expression as ManageNGSetup) and in the user location
	// information of an InitialUEMessage built afterwards.
	lineCmds["suci"] = func(in map[string]interface{}) map[string]interface{} {
		imsi := str(in, "imsi")
		mnclen := int(num(in, "mnclen"))
		out := map[string]interface{}{}
		// "via":"createue": the identity comes from the UE context as in RegisterUE (CreateUE(imsi, 0, ...) then
		// EncodeSuci(ue.Supi minus "imsi-")), not from the configured string
		if str(in, "via") == "createue" {
			u := stgutg.CreateUE(strings.TrimPrefix(imsi, "imsi-"), 0, "465b5ce8b199b49faa5f0a2ee238a6bc", "e8ed289deba952e4283b54e88e6183ca", "")
			imsi = u.Supi
		}
		id := stgutg.EncodeSuci([]byte(strings.TrimPrefix(imsi, "imsi-")), mnclen)
		out["buf"] = hx(id.Buffer)
		retain(out, "suci", id.Buffer)
		out["len"] = id.Len
		ue := tglib.NewRanUeContext("imsi-"+imsi, 1, 0, 2)
		reg := nasTestpacket.GetRegistrationRequest(nasMessage.RegistrationType5GSInitialRegistration, *id, nil, ue.GetUESecurityCapability(), nil, nil, nil)
		out["regreq"] = hx(reg)
		dereg := nasTestpacket.GetDeregistrationRequest(nasMessage.AccessType3GPP, 0, 0x04, *id)
		out["deregreq"] = hx(dereg)
		// NG Setup: same expression as ManageNGSetup
		mobilePLMN := stgutg.EncodeSuci([]byte(strings.TrimPrefix(imsi, "imsi-")), mnclen).Buffer[1:4]
		out["mobile_plmn"] = hx(mobilePLMN)
		if str(in, "ngap") != "" {
			b, err := tglib.GetNGSetupRequest([]byte{0x00, 0x01, 0x02}, mobilePLMN, 24, "gnb")
			out["ngsetup_err"] = errs(err)
			if err == nil {
				out["ngsetup"] = hx(b)
				pdu, err := ngap.Decoder(b)
				if err == nil {
					for _, ie := range pdu.InitiatingMessage.Value.NGSetupRequest.ProtocolIEs.List {
						switch ie.Id.Value {
						case ngapType.ProtocolIEIDGlobalRANNodeID:
							out["ngsetup_plmn_gnb"] = hx(ie.Value.GlobalRANNodeID.GlobalGNBID.PLMNIdentity.Value)
						case ngapType.ProtocolIEIDSupportedTAList:
							out["ngsetup_plmn_ta"] = hx(ie.Value.SupportedTAList.List[0].BroadcastPLMNList.List[0].PLMNIdentity.Value)
						}
					}
				}
			}
			// every other message of the emulator that carries a user location: all PLMN identities in them
			more := []string{}
			if b2, err := tglib.GetUplinkNASTransport(5, 6, reg); err == nil {
				if p2, err := ngap.Decoder(b2); err == nil {
					more = append(more, allPlmns(p2)...)
				}
			}
			if b2, err := tglib.GetUEContextReleaseComplete(5, 6, nil); err == nil {
				if p2, err := ngap.Decoder(b2); err == nil {
					more = append(more, allPlmns(p2)...)
				}
			}
			if b2, err := tglib.GetUEContextReleaseRequest(5, 6, []int64{1}); err == nil {
				if p2, err := ngap.Decoder(b2); err == nil {
					more = append(more, allPlmns(p2)...)
				}
			}
			out["more_plmns"] = more
			b, err = tglib.GetInitialUEMessage(1, reg, "")
			out["initialue_err"] = errs(err)
			if err == nil {
				pdu, err := ngap.Decoder(b)
				if err == nil {
					for _, ie := range pdu.InitiatingMessage.Value.InitialUEMessage.ProtocolIEs.List {
						if ie.Id.Value == ngapType.ProtocolIEIDUserLocationInformation {
							nr := ie.Value.UserLocationInformation.UserLocationInformationNR
							out["uli_plmn_nrcgi"] = hx(nr.NRCGI.PLMNIdentity.Value)
							out["uli_plmn_tai"] = hx(nr.TAI.PLMNIdentity.Value)
						}
					}
				}
			}
		}
		return out
	}
	// plmnnas: {mcc, mnc} -> nasConvert.PlmnIDToNas
	lineCmds["plmnnas"] = func(in map[string]interface{}) map[string]interface{} {
		return map[string]interface{}{"plmn": hx(nasConvert.PlmnIDToNas(models.PlmnId{Mcc: str(in, "mcc"), Mnc: str(in, "mnc")}))}
	}
}
