package main

import (
	"bytes"
	"encoding/hex"
	"fmt"
	"sync"
	"sync/atomic"
	"time"

	"free5gclib/milenage"
	"free5gclib/nas"
	"free5gclib/nas/nasConvert"
	"free5gclib/nas/nasMessage"
	"free5gclib/nas/nasTestpacket"
	"free5gclib/nas/security"
	"free5gclib/ngap"
	"free5gclib/ngap/ngapConvert"
	"free5gclib/openapi/models"

	"tglib"
)

// conc: {family, goroutines, iters, seed} — every goroutine works for its OWN UE (own keys, counters, messages);
// the same operations are first run one call at a time, then concurrently; outputs are compared.
// Built with -race the runtime additionally reports data races on stderr (exit status 66).
func init() {
	type job func(g, i int) string
	families := map[string]func() job{
		"nas_cipher": func() job {
			return func(g, i int) string {
				var k [16]byte
				for j := range k {
					k[j] = byte(g*17 + j)
				}
				k[15], k[14] = byte(i), byte(i>>8) // a fresh key per message for every other UE: first use of a key under load
				if g%2 == 1 {
					k[15], k[14] = 0, 0
				}
				msg := bytes.Repeat([]byte{byte(g), byte(i)}, 20+g%7)
				if i%64 == 37 {
					msg = []byte{} // nothing to cipher (an empty, non-nil payload)
				}
				if i%4 == 0 {
					// every UE ciphers a long message (several keystream blocks) at the same time
					msg = bytes.Repeat([]byte{byte(g), byte(i)}, 1100+g*8)
				}
				alg := uint8(1 + (g+i)%2)
				if err := security.NASEncrypt(alg, k, uint32(i), 1, uint8(g%2), msg); err != nil {
					return "err"
				}
				return hex.EncodeToString(msg)
			}
		},
		"nas_mac": func() job {
			return func(g, i int) string {
				var k [16]byte
				for j := range k {
					k[j] = byte(g*31 + j)
				}
				k[15], k[14] = byte(i), byte(i>>8)
				if g%2 == 1 {
					k[15], k[14] = 0, 0
				}
				msg := bytes.Repeat([]byte{byte(g + 1), byte(i)}, 10+g%5)
				mac, err := security.NASMacCalculate(uint8(1+(g+i)%2), k, uint32(i), 1, 0, msg)
				if err != nil {
					return "err"
				}
				return hex.EncodeToString(mac)
			}
		},
		"nas_protect": func() job {
			ues := map[int]*tglib.RanUeContext{}
			var mu sync.Mutex
			pdu := nasTestpacket.GetRegistrationComplete(nil)
			return func(g, i int) string {
				mu.Lock()
				ue := ues[g]
				if ue == nil {
					// RAN-UE-NGAP-IDs that agree in their low octet (7, 263, 519, ...): distinct UEs all the same
					ue = tglib.NewRanUeContext(fmt.Sprintf("imsi-20893%010d", g), int64(7+256*g), uint8(1+g%2), uint8(1+(g/2)%2))
					for j := range ue.KnasEnc {
						ue.KnasEnc[j] = byte(g + j)
						ue.KnasInt[j] = byte(g*3 + j)
					}
					ues[g] = ue
				}
				mu.Unlock()
				msg := pdu
				if i%3 == 1 {
					// a long UL NAS TRANSPORT (payload container of 1.5 - 2.2 kB): ciphering and MAC computation of different UEs overlap for long
					n := 1500 + 100*(g%8)
					msg = append([]byte{0x7e, 0x00, 0x67, 0x01, byte(n >> 8), byte(n)}, bytes.Repeat([]byte{byte(g), byte(i), 0x5a}, n/3+1)[:n]...)
				}
				out, err := tglib.EncodeNasPduWithSecurity(ue, msg, nas.SecurityHeaderTypeIntegrityProtectedAndCiphered, true, i == 0)
				if err != nil {
					return "err:" + err.Error()
				}
				return hex.EncodeToString(out)
			}
		},
		"nas_codec": func() job {
			return func(g, i int) string {
				b := nasTestpacket.GetUlNasTransport_PduSessionEstablishmentRequest(uint8(1+g%15), nasMessage.ULNASTransportRequestTypeInitialRequest, "internet", &models.Snssai{Sst: int32(g), Sd: "010203"})
				m := nas.NewMessage()
				c := append([]byte{}, b...)
				if err := m.PlainNasDecode(&c); err != nil {
					return "err"
				}
				out, err := m.PlainNasEncode()
				if err != nil {
					return "err"
				}
				return hex.EncodeToString(out)
			}
		},
		"ngap_codec": func() job {
			return func(g, i int) string {
				if i%40 == 0 {
					// now and then a message the encoder refuses (AMF-UE-NGAP-ID 2^40): what a refusal leaves behind must not
					// reach anybody else's message
					if _, e := tglib.GetUplinkNASTransport(int64(1)<<40, int64(g), []byte{0x7e, 0, byte(g)}); e == nil {
						return "out-of-range-id-encoded"
					}
				}
				b, err := tglib.GetUplinkNASTransport(int64(g)*1000+int64(i), int64(g), []byte{0x7e, 0, byte(g), byte(i)})
				if err != nil {
					return "err"
				}
				pdu, err := ngap.Decoder(b)
				if err != nil {
					return "err"
				}
				out, err := ngap.Encoder(*pdu)
				if err != nil {
					return "err"
				}
				return hex.EncodeToString(out)
			}
		},
		// every UE holds the SAME subscription (stgutg.CreateUE gives each UE the configured K and OPc) and the network replays
		// the same challenge to all of them: every KDF key and input coincides across the UEs, only the SUPI differs
		"key_derive_shared": func() job {
			return func(g, i int) string {
				ue := tglib.NewRanUeContext(fmt.Sprintf("imsi-20893%010d", g), int64(g), 0, 2)
				if i%2 == 1 {
					ue.AuthenticationSubs = tglib.GetAuthSubscription(fmt.Sprintf("%032x", 77), "", fmt.Sprintf("%032x", 1234567))
				} else {
					ue.AuthenticationSubs = tglib.GetAuthSubscription(fmt.Sprintf("%032x", 77), fmt.Sprintf("%032x", 99), "")
				}
				var autn [16]byte
				for j := range autn {
					autn[j] = byte(i/8 + j)
				}
				rnd := bytes.Repeat([]byte{0x5a, byte(i / 8)}, 8)
				res := ue.DeriveRESstarAndSetKey(ue.AuthenticationSubs, autn, rnd, "5G:mnc093.mcc208.3gppnetwork.org", "93", "208")
				return hex.EncodeToString(res) + hex.EncodeToString(ue.Kamf) + hex.EncodeToString(ue.KnasInt[:]) + hex.EncodeToString(ue.KnasEnc[:])
			}
		},
		"key_derive": func() job {
			return func(g, i int) string {
				ue := tglib.NewRanUeContext(fmt.Sprintf("imsi-20893%010d", g), int64(g), 0, 2)
				// odd UEs are provisioned with OP only (OPc derived per call), even ones with OPc
				if g%2 == 1 {
					ue.AuthenticationSubs = tglib.GetAuthSubscription(fmt.Sprintf("%032x", g+1), "", fmt.Sprintf("%032x", g*11+5))
				} else {
					ue.AuthenticationSubs = tglib.GetAuthSubscription(fmt.Sprintf("%032x", g+1), fmt.Sprintf("%032x", g*7+3), "")
				}
				var autn [16]byte
				for j := range autn {
					autn[j] = byte(g + i + j)
				}
				rnd := bytes.Repeat([]byte{byte(g), byte(i)}, 8)
				res := ue.DeriveRESstarAndSetKey(ue.AuthenticationSubs, autn, rnd, "5G:mnc093.mcc208.3gppnetwork.org", "93", "208")
				return hex.EncodeToString(res) + hex.EncodeToString(ue.Kamf) + hex.EncodeToString(ue.KnasInt[:]) + hex.EncodeToString(ue.KnasEnc[:])
			}
		},
	}
	// decoding that FAILS: every UE decodes truncations of its own messages; the error it gets is the one it gets alone
	families["ngap_decode_errors"] = func() job {
		return func(g, i int) string {
			b, err := tglib.GetUplinkNASTransport(int64(g)*1000+int64(i), int64(g), bytes.Repeat([]byte{0x7e, byte(g), byte(i)}, 3+g%5))
			if err != nil {
				return "err-build"
			}
			cut := len(b) - 1 - (i+g)%(len(b)-2)
			_, err = ngap.Decoder(b[:cut])
			if err == nil {
				return fmt.Sprintf("ok@%d", cut)
			}
			return fmt.Sprintf("%d:%v", cut, err)
		}
	}
	// the identifier / address conversions, each UE with its own inputs
	families["convert"] = func() job {
		return func(g, i int) string {
			amfid := fmt.Sprintf("%02x%02x%02x", byte(g*29+i), byte(i>>3), byte(g*7+i*3))
			r, st, p := nasConvert.AmfIdToNas(amfid)
			pl := nasConvert.PlmnIDToNas(models.PlmnId{Mcc: fmt.Sprintf("%03d", (g*111+i)%1000), Mnc: fmt.Sprintf("%02d", (g+i)%100)})
			sn := nasConvert.SnssaiToNas(models.Snssai{Sst: int32((g + i) % 256), Sd: fmt.Sprintf("%06x", g*65536+i)})
			t := ngapConvert.IPAddressToNgap(fmt.Sprintf("10.%d.%d.%d", g, i%256, (i>>8)%256), "")
			b4, _ := ngapConvert.IPAddressToString(t)
			return fmt.Sprintf("%d %d %d %x %x %x %s", r, st, p, pl, sn, t.Value.Bytes, b4)
		}
	}
	// messages from a later release: the last information element carries an identifier this release does not define
	// (criticality ignore). All UEs meet the same new identifier at the same time.
	families["ngap_decode_unknown_ie"] = func() job {
		return func(g, i int) string {
			b, err := tglib.GetUplinkNASTransport(int64(g)*1000+int64(i), int64(g), bytes.Repeat([]byte{0x7e, byte(g), byte(i)}, 3+g%5))
			if err != nil {
				return "err-build"
			}
			k := bytes.LastIndex(b, []byte{0x00, 0x79, 0x40})
			if k < 0 {
				return "err-no-uli"
			}
			b[k], b[k+1] = 0x0f, byte(i%200)
			pdu, err := ngap.Decoder(b)
			if err != nil {
				return fmt.Sprintf("err:%v", err)
			}
			n := len(pdu.InitiatingMessage.Value.UplinkNASTransport.ProtocolIEs.List)
			return fmt.Sprintf("ok:%d", n)
		}
	}
	// downlink: every UE receives messages protected by its AMF (built here with the library's primitives, DIRECTION 1) and
	// recovers them with tglib.NASDecode; the UEs use different algorithm pairs (NIA1/NEA2, NIA2/NEA1, NIA1/NEA1, NIA2/NEA2)
	families["nas_unprotect"] = func() job {
		ues := map[int]*tglib.RanUeContext{}
		var mu sync.Mutex
		plain := nasTestpacket.GetRegistrationComplete(nil)
		return func(g, i int) string {
			mu.Lock()
			ue := ues[g]
			if ue == nil {
				ue = tglib.NewRanUeContext(fmt.Sprintf("imsi-20893%010d", g), int64(g), uint8(1+g%2), uint8(1+(g/2)%2))
				for j := range ue.KnasEnc {
					ue.KnasEnc[j] = byte(g*5 + j)
					ue.KnasInt[j] = byte(g*7 + j)
				}
				ues[g] = ue
			}
			mu.Unlock()
			count := uint32(i)
			body := append([]byte{}, plain...)
			body = append(body, bytes.Repeat([]byte{byte(g), byte(i)}, g%9)...)
			want := hex.EncodeToString(body)
			c := append([]byte{}, body...)
			if err := security.NASEncrypt(ue.CipheringAlg, ue.KnasEnc, count, 1, 1, c); err != nil {
				return "err-enc"
			}
			mac, err := security.NASMacCalculate(ue.IntegrityAlg, ue.KnasInt, count, 1, 1, append([]byte{byte(i)}, c...))
			if err != nil {
				return "err-mac"
			}
			if i%5 == 3 {
				mac[0] ^= 0xff // every fifth message of every UE arrives with a MAC that does not verify: refused, for all UEs at once
			}
			pkt := append([]byte{0x7e, 0x02}, mac...)
			pkt = append(pkt, byte(i))
			pkt = append(pkt, c...)
			ue.DLCount.Set(uint16(i>>8), uint8(i))
			if i > 0 {
				ue.DLCount.Set(uint16((i-1)>>8), uint8(i-1))
			}
			m, err := tglib.NASDecode(ue, nas.GetSecurityHeaderType(pkt), pkt)
			if err != nil {
				return "err-dec:" + err.Error()
			}
			re, err := m.PlainNasEncode()
			if err != nil {
				return "err-reenc"
			}
			// the plain message is a REGISTRATION COMPLETE followed by filler the codec drops: compare the recovered message
			// NASDecode deciphers in place: pkt[7:] now holds what the UE recovered
			ok := "recovered"
			if hex.EncodeToString(pkt[7:]) != want {
				ok = "NOT-RECOVERED:" + hex.EncodeToString(pkt[7:])
			}
			return hex.EncodeToString(re) + fmt.Sprintf("/%d/", ue.DLCount.Get()) + ok
		}
	}
	// the AES based algorithms alone (no SNOW 3G mutex in the way): many short calls under different keys
	families["nas_cipher_aes"] = func() job {
		return func(g, i int) string {
			var k [16]byte
			for j := range k {
				k[j] = byte(g*19 + j*3)
			}
			if g%2 == 0 {
				k[15] = byte(i)
			}
			msg := bytes.Repeat([]byte{byte(g), byte(i)}, 9+g%5)
			if err := security.NASEncrypt(2, k, uint32(i), 1, uint8(g%2), msg); err != nil {
				return "err"
			}
			return hex.EncodeToString(msg)
		}
	}
	families["nas_mac_aes"] = func() job {
		return func(g, i int) string {
			var k [16]byte
			for j := range k {
				k[j] = byte(g*23 + j*5)
			}
			if g%2 == 0 {
				k[15] = byte(i)
			}
			mac, err := security.NASMacCalculate(2, k, uint32(i), 1, 0, bytes.Repeat([]byte{byte(g + 1), byte(i)}, 7+g%5))
			if err != nil {
				return "err"
			}
			return hex.EncodeToString(mac)
		}
	}
	// the in-repo Milenage library (free5gclib/milenage): AUTN generation, check and resynchronisation per UE
	families["milenage"] = func() job {
		return func(g, i int) string {
			k, opc, rnd := make([]byte, 16), make([]byte, 16), make([]byte, 16)
			for j := 0; j < 16; j++ {
				k[j], opc[j], rnd[j] = byte(g*13+j), byte(g*29+3*j+1), byte(i+g+j*7)
			}
			sqn := []byte{0, 0, byte(g), byte(i >> 8), byte(i), 1}
			amf := []byte{0x80, byte(g)}
			autn, ik, ck, ak, res := make([]byte, 16), make([]byte, 16), make([]byte, 16), make([]byte, 6), make([]byte, 8)
			resLen := uint(8)
			milenage.MilenageGenerate(opc, amf, k, sqn, rnd, autn, ik, ck, ak, res, &resLen)
			ik2, ck2, res2, auts := make([]byte, 16), make([]byte, 16), make([]byte, 8), make([]byte, 14)
			rl2 := uint(8)
			ueSqn := []byte{0, 0, byte(g), byte(i >> 8), byte(i), byte(2 * (i % 2))} // accepted for even i, resynchronisation for odd i
			rc := milenage.Milenage_check(opc, k, ueSqn, rnd, autn, ik2, ck2, res2, &rl2, auts)
			sq := make([]byte, 6)
			rc2 := 9
			if rc == -2 {
				rc2 = milenage.Milenage_auts(opc, k, rnd, auts, sq)
			}
			return fmt.Sprintf("%x %x %x %x %d %x %x %x %x %d %x", autn, ik, ck, res, rc, ik2, ck2, res2, auts, rc2, sq)
		}
	}
	lineCmds["conc"] = func(in map[string]interface{}) map[string]interface{} {
		mk, ok := families[str(in, "family")]
		if !ok {
			return map[string]interface{}{"harness_error": "unknown family"}
		}
		G, N := int(num(in, "goroutines")), int(num(in, "iters"))
		// the concurrent run comes FIRST (nothing is warmed up by an earlier sequential pass), the sequential reference after it
		par := make([][]string, G)
		j2 := mk()
		var wg sync.WaitGroup
		var returned int64
		start := make(chan struct{})
		for g := 0; g < G; g++ {
			wg.Add(1)
			go func(g int) {
				defer wg.Done()
				<-start
				for i := 0; i < N; i++ {
					par[g] = append(par[g], j2(g, i))
					atomic.AddInt64(&returned, 1)
				}
			}(g)
		}
		close(start)
		// liveness: the concurrent phase must end. When it has not after the deadline (a lock that is never released, a
		// goroutine waiting for ever) the run is reported as hanging; nothing else is read from the goroutines still out there
		deadline := num(in, "deadline_s")
		if deadline <= 0 {
			deadline = 300
		}
		finished := make(chan struct{})
		go func() { wg.Wait(); close(finished) }()
		select {
		case <-finished:
		case <-time.After(time.Duration(deadline) * time.Second):
			return map[string]interface{}{"calls": G * N, "different": -1, "first": "",
				"hang": fmt.Sprintf("%d of %d concurrent calls had returned after %d s: the others never return", atomic.LoadInt64(&returned), G*N, deadline)}
		}
		seq := make([][]string, G)
		j := mk()
		for g := 0; g < G; g++ {
			for i := 0; i < N; i++ {
				seq[g] = append(seq[g], j(g, i))
			}
		}
		diff := 0
		first := ""
		for g := 0; g < G; g++ {
			for i := 0; i < N; i++ {
				if seq[g][i] != par[g][i] {
					diff++
					if first == "" {
						first = fmt.Sprintf("goroutine %d call %d: sequential %s concurrent %s", g, i, seq[g][i], par[g][i])
					}
				}
			}
		}
		return map[string]interface{}{"calls": G * N, "different": diff, "first": first, "sample": seq[0][0]}
	}
}
