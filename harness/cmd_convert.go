package main

import (
	"free5gclib/aper"
	"free5gclib/nas/nasConvert"
	"free5gclib/ngap/ngapConvert"
	"free5gclib/ngap/ngapType"
	"free5gclib/openapi/models"
	"free5gclib/util_3gpp"
	"net"
)

func init() {
	// snssai: {sst, sd} -> SnssaiToNas
	lineCmds["snssai"] = func(in map[string]interface{}) map[string]interface{} {
		b := nasConvert.SnssaiToNas(models.Snssai{Sst: int32(num(in, "sst")), Sd: str(in, "sd")})
		out := map[string]interface{}{"out": hx(b)}
		retain(out, "snssai", b)
		return out
	}
	// amfid: {amfid} -> region, set, pointer
	lineCmds["amfid"] = func(in map[string]interface{}) map[string]interface{} {
		r, s, p := nasConvert.AmfIdToNas(str(in, "amfid"))
		return map[string]interface{}{"region": r, "set": s, "pointer": p}
	}
	// ipaddr: {v4: hex(4)|"", v6: hex(16)|""} -> IPAddressToNgap on the textual forms, then IPAddressToString back
	lineCmds["ipaddr"] = func(in map[string]interface{}) map[string]interface{} {
		v4s, v6s := "", ""
		if h := str(in, "v4"); h != "" {
			v4s = net.IP(unhex(in, "v4")).String()
		}
		if h := str(in, "v6"); h != "" {
			v6s = net.IP(unhex(in, "v6")).String()
		}
		if t := str(in, "v6text"); t != "" {
			v6s = t // the same address in another legal text form (RFC 4291: embedded dotted quad, upper case, full groups)
		}
		t := ngapConvert.IPAddressToNgap(v4s, v6s)
		out := map[string]interface{}{"bytes": hx(t.Value.Bytes), "bitlen": t.Value.BitLength}
		retain(out, "ipaddr", t.Value.Bytes)
		b4, b6 := ngapConvert.IPAddressToString(t)
		out["back4"], out["back6"] = "", ""
		if b4 != "" {
			out["back4"] = hx(net.ParseIP(b4).To4())
		}
		if b6 != "" {
			out["back6"] = hx(net.ParseIP(b6).To16())
		}
		return out
	}
	// ipstr: {bytes, bitlen} -> IPAddressToString on an arbitrary BIT STRING
	lineCmds["ipstr"] = func(in map[string]interface{}) map[string]interface{} {
		t := ngapType.TransportLayerAddress{Value: aper.BitString{Bytes: unhex(in, "bytes"), BitLength: uint64(num(in, "bitlen"))}}
		b4, b6 := ngapConvert.IPAddressToString(t)
		out := map[string]interface{}{"back4": "", "back6": ""}
		if b4 != "" {
			out["back4"] = hx(net.ParseIP(b4).To4())
		}
		if b6 != "" {
			out["back6"] = hx(net.ParseIP(b6).To16())
		}
		return out
	}
	// pco: {units:[{id,len,contents}]} -> Marshal; then UnMarshal of the bytes
	// pcodec: {data} -> UnMarshal of arbitrary bytes
	dump := func(p *nasConvert.ProtocolConfigurationOptions) []interface{} {
		us := []interface{}{}
		for _, u := range p.ProtocolOrContainerList {
			us = append(us, map[string]interface{}{"id": u.ProtocolOrContainerID, "len": u.LengthOfContents, "contents": hx(u.Contents)})
		}
		return us
	}
	lineCmds["pco"] = func(in map[string]interface{}) map[string]interface{} {
		p := nasConvert.NewProtocolConfigurationOptions()
		for _, x := range in["units"].([]interface{}) {
			m := x.(map[string]interface{})
			// "add": the unit is appended by the library's own helper for that kind of container (the contents are its argument)
			if how := str(m, "add"); how != "" {
				c := unhex(m, "contents")
				switch how {
				case "dns4":
					p.AddDNSServerIPv4Address(net.IP(c))
				case "dns6":
					p.AddDNSServerIPv6Address(net.IP(c))
				case "mtu":
					p.AddIPv4LinkMTU(uint16(c[0])<<8 | uint16(c[1]))
				case "dns4req":
					p.AddDNSServerIPv4AddressRequest()
				case "dns6req":
					p.AddDNSServerIPv6AddressRequest()
				case "ipalloc":
					p.AddIPAddressAllocationViaNASSignallingUL()
				}
				continue
			}
			u := nasConvert.NewProtocolOrContainerUnit()
			u.ProtocolOrContainerID = uint16(num(m, "id"))
			u.LengthOfContents = uint8(num(m, "len"))
			u.Contents = unhex(m, "contents")
			p.ProtocolOrContainerList = append(p.ProtocolOrContainerList, u)
		}
		b := p.Marshal()
		q := nasConvert.NewProtocolConfigurationOptions()
		err := q.UnMarshal(b)
		out := map[string]interface{}{"bytes": hx(b), "err": errs(err), "units": dump(q)}
		retain(out, "pco", b)
		return out
	}
	lineCmds["pcodec"] = func(in map[string]interface{}) map[string]interface{} {
		q := nasConvert.NewProtocolConfigurationOptions()
		err := q.UnMarshal(unhex(in, "data"))
		return map[string]interface{}{"err": err != nil, "units": dump(q)}
	}
	// dnn: {dnn: hex} -> MarshalBinary, UnmarshalBinary of it
	lineCmds["dnn"] = func(in map[string]interface{}) map[string]interface{} {
		d := util_3gpp.Dnn(unhex(in, "dnn"))
		b, _ := d.MarshalBinary()
		var e util_3gpp.Dnn
		e.UnmarshalBinary(b)
		out := map[string]interface{}{"bytes": hx(b), "back": hx(e)}
		retain(out, "dnn", b)
		return out
	}
}
