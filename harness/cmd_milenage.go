package main

import (
	"free5gclib/nas/nasTestpacket"
	"fmt"
	"strings"
	"stgutg"
	"free5gclib/milenage"
	"tglib"

	wm "github.com/wmnsk/milenage"
)

// Octet strings arrive as hex; every slice handed to the code under test has capacity == length
// (a fresh make + copy), so a Go slice expression beyond the length panics instead of reading the
// spare capacity hex.DecodeString leaves behind.  Output buffers have the documented sizes, zero filled.
//
// With "reuse": true in the case the slice is a PERSISTENT buffer (one per field name and length, kept for the life
// of the harness process) whose contents are overwritten: a caller that decodes every subscriber into the same
// pre-allocated buffers.  Results must not depend on it.
var reuseBufs = map[string][]byte{}

// every input slice handed to the library in the current call, with its contents at hand-over: the library must not write
// into its inputs (checkInputs reports the names of those it changed)
type handedIn struct {
	name string
	buf  []byte
	orig string
}

var handed []handedIn

func checkInputs(out map[string]interface{}) {
	m := []string{}
	for _, h := range handed {
		if hx(h.buf) != h.orig {
			m = append(m, h.name)
		}
	}
	handed = nil
	if len(m) > 0 {
		out["mutated_inputs"] = m
	}
}

func exact(in map[string]interface{}, k string) []byte {
	r := exact0(in, k)
	handed = append(handed, handedIn{k, r, hx(r)})
	return r
}

// "record" layouts: every input of the call is a window into ONE contiguous caller buffer (a subscriber record), so each
// slice has spare capacity that reaches into the fields placed behind it. Layout 1 places the fields in call order,
// layout 2 in reverse order. The library must leave the whole record as it was and return what it returns for
// separately allocated inputs.
var arena []byte
var arenaWant []byte
var arenaOff, arenaMode int

func arenaReset(mode int) {
	arenaMode = mode
	if mode == 0 {
		return
	}
	arena = make([]byte, 2048)
	for i := range arena {
		arena[i] = 0x5c
	}
	arenaWant = append([]byte{}, arena...)
	arenaOff = 64
	if mode == 2 {
		arenaOff = len(arena) - 64
	}
}

func exact0(in map[string]interface{}, k string) []byte {
	b := unhex(in, k)
	if arenaMode != 0 && len(b) <= 512 && ((arenaMode == 1 && arenaOff+len(b) <= len(arena)-64) || (arenaMode == 2 && arenaOff-len(b) >= 64)) {
		if arenaMode == 2 {
			arenaOff -= len(b)
		}
		r := arena[arenaOff : arenaOff+len(b)]
		copy(r, b)
		copy(arenaWant[arenaOff:], b)
		if arenaMode == 1 {
			arenaOff += len(b)
		}
		return r
	}
	if v, ok := in["reuse"].(bool); ok && v {
		key := fmt.Sprintf("%s/%d", k, len(b))
		r, ok := reuseBufs[key]
		if !ok {
			r = make([]byte, len(b))
			reuseBufs[key] = r
		}
		copy(r, b)
		return r
	}
	r := make([]byte, len(b))
	copy(r, b)
	return r
}

// output buffers: zero filled, or filled with 0xa5 when the case says "dirty_out" (a caller that reuses its key buffers):
// what the library writes must not depend on what the buffer held
func outbuf(in map[string]interface{}, n int) []byte {
	b := make([]byte, n)
	if v, ok := in["dirty_out"].(bool); ok && v {
		for i := range b {
			b[i] = 0xa5
		}
	}
	return b
}

func milF1(in map[string]interface{}) map[string]interface{} {
	macA, macS := outbuf(in, 8), outbuf(in, 8)
	err := milenage.F1(exact(in, "opc"), exact(in, "k"), exact(in, "rand"), exact(in, "sqn"), exact(in, "amf"), macA, macS)
	return map[string]interface{}{"err": err != nil, "mac_a": hx(macA), "mac_s": hx(macS)}
}

func milF2345(in map[string]interface{}) map[string]interface{} {
	res, ck, ik, ak, aks := outbuf(in, 8), outbuf(in, 16), outbuf(in, 16), outbuf(in, 6), outbuf(in, 6)
	err := milenage.F2345(exact(in, "opc"), exact(in, "k"), exact(in, "rand"), res, ck, ik, ak, aks)
	out := map[string]interface{}{"err": err != nil, "res": hx(res), "ck": hx(ck), "ik": hx(ik), "ak": hx(ak), "akstar": hx(aks)}
	// every selection of outputs (nil for the ones not wanted): an output that is asked for is what the full call gives
	full := [][]byte{res, ck, ik, ak, aks}
	names := []string{"res", "ck", "ik", "ak", "akstar"}
	bad := []string{}
	for mask := 1; mask < 32; mask++ {
		bufs := make([][]byte, 5)
		for j := 0; j < 5; j++ {
			if mask&(1<<j) != 0 {
				bufs[j] = make([]byte, len(full[j]))
			}
		}
		func() {
			defer func() {
				if r := recover(); r != nil {
					bad = append(bad, fmt.Sprintf("mask %02x: panic %v", mask, r))
				}
			}()
			e2 := milenage.F2345(exact0(in, "opc"), exact0(in, "k"), exact0(in, "rand"), bufs[0], bufs[1], bufs[2], bufs[3], bufs[4])
			if (e2 != nil) != (err != nil) {
				bad = append(bad, fmt.Sprintf("mask %02x: error differs", mask))
				return
			}
			for j := 0; j < 5; j++ {
				if bufs[j] != nil && hx(bufs[j]) != hx(full[j]) {
					bad = append(bad, fmt.Sprintf("mask %02x: %s", mask, names[j]))
				}
			}
		}()
	}
	if len(bad) > 0 && err == nil {
		out["subset_mismatch"] = bad
	}
	return out
}

func milOPC(in map[string]interface{}) map[string]interface{} {
	opc, err := milenage.GenerateOPC(exact(in, "k"), exact(in, "op"))
	out := map[string]interface{}{"err": err != nil, "opc": hx(opc)}
	retain(out, "opc", opc)
	return out
}

func milGenerate(in map[string]interface{}) map[string]interface{} {
	autn, ik, ck, ak, res := outbuf(in, 16), outbuf(in, 16), outbuf(in, 16), outbuf(in, 6), outbuf(in, 8)
	resLen := uint(num(in, "res_len"))
	milenage.MilenageGenerate(exact(in, "opc"), exact(in, "amf"), exact(in, "k"), exact(in, "sqn"), exact(in, "rand"),
		autn, ik, ck, ak, res, &resLen)
	return map[string]interface{}{"autn": hx(autn), "ik": hx(ik), "ck": hx(ck), "ak": hx(ak), "res": hx(res), "res_len": resLen}
}

func milCheck(in map[string]interface{}) map[string]interface{} {
	ik, ck, res, auts := outbuf(in, 16), outbuf(in, 16), outbuf(in, 8), outbuf(in, 14)
	resLen := uint(num(in, "res_len"))
	rc := milenage.Milenage_check(exact(in, "opc"), exact(in, "k"), exact(in, "sqn"), exact(in, "rand"), exact(in, "autn"),
		ik, ck, res, &resLen, auts)
	return map[string]interface{}{"rc": rc, "ik": hx(ik), "ck": hx(ck), "res": hx(res), "res_len": resLen, "auts": hx(auts)}
}

func milAuts(in map[string]interface{}) map[string]interface{} {
	sqn := outbuf(in, 6)
	rc := milenage.Milenage_auts(exact(in, "opc"), exact(in, "k"), exact(in, "rand"), exact(in, "auts"), sqn)
	return map[string]interface{}{"rc": rc, "sqn": hx(sqn)}
}

// derive: {k, opc, op (hex text as in config.yaml), rand, autn (hex), mcc, mnc, supi, ea, ia}
// -> RES* returned by DeriveRESstarAndSetKey and the keys it installed in the UE context.
// The context is built as CreateUE does (NewRanUeContext + GetAuthSubscription) and snName by the
// expression of stgutg.RegisterUE (copied, RegisterUE itself needs an SCTP association).
// the UE context of the previous derive call and what it was challenged with: it is authenticated AGAIN after the next
// UE context has been created (re-authentication of an earlier subscriber: same inputs, same results)
type derived struct {
	ue             *tglib.RanUeContext
	autn           [16]uint8
	rand           []byte
	sn, mnc, mcc   string
}

var prevDerived *derived

func derive(in map[string]interface{}) map[string]interface{} {
	mnc, mcc := str(in, "mnc"), str(in, "mcc")
	var ue *tglib.RanUeContext
	if str(in, "via") == "createue" && strings.HasPrefix(str(in, "supi"), "imsi-") {
		// the emulator's own path: stgutg.CreateUE(initial IMSI, index 0, K, OPC, OP); the algorithms are then set
		// to the case's values (CreateUE itself picks NEA0/NIA2)
		ue = stgutg.CreateUE(strings.TrimPrefix(str(in, "supi"), "imsi-"), 0, str(in, "k"), str(in, "opc"), str(in, "op"))
		ue.CipheringAlg, ue.IntegrityAlg = uint8(num(in, "ea")), uint8(num(in, "ia"))
	} else if str(in, "via") == "literal" {
		// a context that did not go through the constructor (a struct literal, as a caller restoring a stored UE would build it):
		// the derivation is a function of the subscription, the SUPI and the challenge, not of how the context came to be
		ue = &tglib.RanUeContext{Supi: str(in, "supi"), RanUeNgapId: 1, AmfUeNgapId: -1, CipheringAlg: uint8(num(in, "ea")), IntegrityAlg: uint8(num(in, "ia"))}
		ue.AuthenticationSubs = tglib.GetAuthSubscription(str(in, "k"), str(in, "opc"), str(in, "op"))
	} else {
		ue = tglib.NewRanUeContext(str(in, "supi"), 1, uint8(num(in, "ea")), uint8(num(in, "ia")))
		ue.AuthenticationSubs = tglib.GetAuthSubscription(str(in, "k"), str(in, "opc"), str(in, "op"))
	}
	var autn [16]uint8
	copy(autn[:], unhex(in, "autn"))
	rand := exact(in, "rand")

	var snName string
	if len(mnc) == 2 {
		snName = "5G:mnc0" + mnc + ".mcc" + mcc + ".3gppnetwork.org"
	} else {
		snName = "5G:mnc" + mnc + ".mcc" + mcc + ".3gppnetwork.org"
	}

	out := map[string]interface{}{}
	if p := prevDerived; p != nil {
		prevDerived = nil
		r := p.ue.DeriveRESstarAndSetKey(p.ue.AuthenticationSubs, p.autn, p.rand, p.sn, p.mnc, p.mcc)
		out["prev_again"] = map[string]interface{}{"res_star": hx(r), "kamf": hx(p.ue.Kamf), "knasint": hx(p.ue.KnasInt[:]), "knasenc": hx(p.ue.KnasEnc[:])}
	}
	resStat := ue.DeriveRESstarAndSetKey(ue.AuthenticationSubs,
		autn,
		rand[:],
		snName,
		mnc,
		mcc)
	out["res_star"], out["kamf"], out["knasint"], out["knasenc"], out["sn_name"] = hx(resStat), hx(ue.Kamf), hx(ue.KnasInt[:]), hx(ue.KnasEnc[:]), snName
	// further challenges on the SAME context (re-authentication): what the UE answers and installs must be what a fresh
	// context with the same subscription gives for those inputs. (a) a new RAND delivered in the same receive buffer,
	// (b) the same RAND with another AUTN, (c) the same RAND and AUTN under another serving network name
	// the context protects a message before it is challenged again (as RegisterUE does after every authentication): a
	// re-authentication after traffic installs the keys of the NEW vector all the same
	func() {
		defer func() { recover() }()
		if ue.IntegrityAlg == 1 || ue.IntegrityAlg == 2 {
			tglib.EncodeNasPduWithSecurity(ue, nasTestpacket.GetRegistrationComplete(nil), 2, true, true)
		} else {
			ue.ULCount.AddOne()
		}
	}()
	rand0 := append([]byte{}, rand...)
	if len(mnc) < 2 || mnc[len(mnc)-1] < '0' || mnc[len(mnc)-1] > '9' || len(rand) == 0 {
		prevDerived = &derived{ue: ue, autn: autn, rand: rand0, sn: snName, mnc: mnc, mcc: mcc}
		return out
	}
	type chal struct {
		what     string
		rand     []byte
		autn     [16]uint8
		sn, mnc2 string
	}
	autnB := autn
	autnB[0] ^= 0x5a
	autnB[5] ^= 0x01
	otherMnc := mnc[:len(mnc)-1] + string('0'+(mnc[len(mnc)-1]-'0'+1)%10)
	otherSn := strings.Replace(snName, "mnc0"+mnc, "mnc0"+otherMnc, 1)
	if len(mnc) != 2 {
		otherSn = strings.Replace(snName, "mnc"+mnc, "mnc"+otherMnc, 1)
	}
	follow := []string{}
	for _, c := range []chal{{"a new RAND in the same buffer", nil, autn, snName, mnc}, {"the same RAND with another AUTN", rand0, autnB, snName, mnc},
		{"the same RAND and AUTN under another serving network", rand0, autnB, otherSn, otherMnc}} {
		var r []byte
		if c.rand == nil {
			for i := range rand {
				rand[i] = rand0[len(rand0)-1-i] ^ 0xa7
			}
			r = rand
		} else {
			r = append([]byte{}, c.rand...)
		}
		want := func() (s string) {
			defer func() {
				if e := recover(); e != nil {
					s = fmt.Sprint("panic: ", e)
				}
			}()
			f := tglib.NewRanUeContext(ue.Supi, 1, ue.CipheringAlg, ue.IntegrityAlg)
			f.AuthenticationSubs = tglib.GetAuthSubscription(str(in, "k"), str(in, "opc"), str(in, "op"))
			x := f.DeriveRESstarAndSetKey(f.AuthenticationSubs, c.autn, append([]byte{}, r...), c.sn, c.mnc2, mcc)
			return hx(x) + "/" + hx(f.Kamf) + "/" + hx(f.KnasInt[:]) + "/" + hx(f.KnasEnc[:])
		}()
		got := func() (s string) {
			defer func() {
				if e := recover(); e != nil {
					s = fmt.Sprint("panic: ", e)
				}
			}()
			x := ue.DeriveRESstarAndSetKey(ue.AuthenticationSubs, c.autn, r, c.sn, c.mnc2, mcc)
			return hx(x) + "/" + hx(ue.Kamf) + "/" + hx(ue.KnasInt[:]) + "/" + hx(ue.KnasEnc[:])
		}()
		if got != want {
			follow = append(follow, fmt.Sprintf("%s: this context gives %s, a fresh context with the same subscription gives %s", c.what, got, want))
		}
	}
	copy(rand, rand0)
	if len(follow) > 0 {
		out["same_context_mismatch"] = follow
	}
	prevDerived = &derived{ue: ue, autn: autn, rand: rand0, sn: snName, mnc: mnc, mcc: mcc}
	return out
}

// wmnsk: the external library on its own: {k, op | opc, rand, sqn (6 octets hex), amf (2 octets hex), mcc, mnc}
func wmnsk(in map[string]interface{}) map[string]interface{} {
	sqn, amf := unhex(in, "sqn"), unhex(in, "amf")
	var s uint64
	for _, b := range sqn {
		s = s<<8 | uint64(b)
	}
	var a uint16
	for _, b := range amf {
		a = a<<8 | uint16(b)
	}
	var m *wm.Milenage
	if str(in, "opc") == "" {
		m = wm.New(exact(in, "k"), exact(in, "op"), exact(in, "rand"), s, a)
	} else {
		m = wm.NewWithOPc(exact(in, "k"), exact(in, "opc"), exact(in, "rand"), s, a)
	}
	out := map[string]interface{}{}
	macA, err := m.F1()
	out["f1_err"] = err != nil
	out["mac_a"] = hx(macA)
	macS, err := m.F1Star(m.SQN, []byte{0, 0})
	out["f1s_err"] = err != nil
	out["mac_s"] = hx(macS)
	res, ck, ik, ak, err := m.F2345()
	out["f2345_err"] = err != nil
	out["res"], out["ck"], out["ik"], out["ak"] = hx(res), hx(ck), hx(ik), hx(ak)
	aks, err := m.F5Star()
	out["f5s_err"] = err != nil
	out["aks"] = hx(aks)
	rs, err := m.ComputeRESStar(str(in, "mcc"), str(in, "mnc"))
	out["resstar_err"] = err != nil
	out["res_star"] = hx(rs)
	out["opc_out"] = hx(m.OPc)
	return out
}

// the first differing stretch of a against b (hex)
func diffWindow(a, b []byte) string {
	i := 0
	for i < len(a) && i < len(b) && a[i] == b[i] {
		i++
	}
	j := len(a)
	for j > i && j <= len(b) && a[j-1] == b[j-1] {
		j--
	}
	if j > i+40 {
		j = i + 40
	}
	return fmt.Sprintf("@%d:%s", i, hx(a[i:j]))
}

func init() {
	fns := map[string]lineCmd{
		"F1": milF1, "F2345": milF2345, "GenerateOPC": milOPC, "MilenageGenerate": milGenerate,
		"Milenage_check": milCheck, "Milenage_auts": milAuts,
	}
	for k, f := range fns {
		lineCmds[k] = f
	}
	// milenage: {"fn": one of the above, ...} so that one stream can mix the functions
	lineCmds["milenage"] = func(in map[string]interface{}) map[string]interface{} {
		f, ok := fns[str(in, "fn")]
		if !ok {
			return map[string]interface{}{"harness_error": "unknown fn"}
		}
		handed = nil
		out := f(in)
		checkInputs(out)
		// the same call with output buffers pre-filled with 0xa5: every octet is either written (same in both runs) or left
		// alone (00 in the first, a5 in the second)
		in2 := map[string]interface{}{}
		for k, v := range in {
			in2[k] = v
		}
		in2["dirty_out"] = true
		out2 := f(in2)
		handed = nil
		dep := []string{}
		for k, v := range out {
			a, ok1 := v.(string)
			b, ok2 := out2[k].(string)
			if !ok1 || !ok2 || len(a) != len(b) || k == "prev_now" {
				continue
			}
			for i := 0; i+1 < len(a); i += 2 {
				if a[i:i+2] != b[i:i+2] && !(a[i:i+2] == "00" && b[i:i+2] == "a5") {
					dep = append(dep, k)
					break
				}
			}
		}
		if len(dep) > 0 {
			out["depends_on_buffer_contents"] = dep
		}
		for mode := 1; mode <= 2; mode++ {
			arenaReset(mode)
			out3 := f(in)
			handed = nil
			arenaMode = 0
			if hx(arena) != hx(arenaWant) {
				out["wrote_outside_inputs"] = fmt.Sprintf("layout %d: the caller's record reads %s where it held %s", mode, diffWindow(arena, arenaWant), diffWindow(arenaWant, arena))
			}
			lay := []string{}
			for k, v := range out {
				if k == "prev_now" || k == "wrote_outside_inputs" || k == "mutated_inputs" || k == "depends_on_buffer_contents" || k == "depends_on_input_layout" {
					continue
				}
				if fmt.Sprint(v) != fmt.Sprint(out3[k]) {
					lay = append(lay, k)
				}
			}
			if len(lay) > 0 {
				out["depends_on_input_layout"] = fmt.Sprintf("layout %d: %v", mode, lay)
			}
		}
		return out
	}
	lineCmds["derive"] = derive
	lineCmds["wmnsk"] = wmnsk
}
