package main

// nashist / nasmsgs: NAS security envelope (tglib.NASEncode through tglib.EncodeNasPduWithSecurity, tglib.NASDecode)
// over HISTORIES on one RanUeContext (properties C06, C10).
//
// nashist  {"ea":n,"ia":n,"kenc":hex16,"kint":hex16,"ops":[op...]}  ->  {"steps":[step...]}
//   op  {"op":"send","pdu":hex,"hdr":n,"avail":bool,"newctx":bool}   tglib.EncodeNasPduWithSecurity(ue, pdu, hdr, avail, newctx)
//       {"op":"setul","ovf":n,"sqn":n} / {"op":"setdl",...}         ue.ULCount.Set / ue.DLCount.Set (exported setter)
//       {"op":"recv","pkt":hex}                                       tglib.NASDecode(ue, nas.GetSecurityHeaderType(pkt), pkt),
//                                                                     the returned message re-encoded with PlainNasEncode
//   step {"out":hex} | {"err":text} | {"panic":text}   plus, always,  "ul":ULCount.Get(), "dl":DLCount.Get() after the op;
//        for send also "plain": PlainNasEncode(PlainNasDecode(pdu)) (the octets NASEncode protects) or "plain_err"/"plain_panic".
//   A panic inside one op is caught per op: the UE context keeps whatever the call had already written.
// nasmsgs  {}  ->  {"msgs":[{"name":..,"hex":..,"rt":bool}...]}  plain 5GMM messages built by the emulator's constructors
//   (rt = PlainNasDecode + PlainNasEncode reproduces the octets).

import (
	"bytes"
	"fmt"

	"free5gclib/aper"
	"free5gclib/nas"
	"free5gclib/nas/nasMessage"
	"free5gclib/nas/nasTestpacket"
	"free5gclib/nas/nasType"
	"free5gclib/ngap/ngapType"
	"free5gclib/openapi/models"
	"tglib"
)

var nRecv int

func nassecExact(b []byte) []byte {
	c := make([]byte, len(b), len(b)) // capacity = length, never nil
	copy(c, b)
	return c
}

// plain re-encoding of a pdu: what NASEncode's msg.PlainNasEncode() returns inside EncodeNasPduWithSecurity
func nassecPlain(pdu []byte, out map[string]interface{}) {
	defer func() {
		if r := recover(); r != nil {
			out["plain_panic"] = fmt.Sprint(r)
		}
	}()
	m := nas.NewMessage()
	p := nassecExact(pdu)
	if err := m.PlainNasDecode(&p); err != nil {
		out["plain_err"] = err.Error()
		return
	}
	b, err := m.PlainNasEncode()
	if err != nil {
		out["plain_err"] = err.Error()
		return
	}
	out["plain"] = hx(b)
}

func nassecStep(ue *tglib.RanUeContext, op map[string]interface{}) (out map[string]interface{}) {
	out = map[string]interface{}{}
	defer func() {
		if r := recover(); r != nil {
			delete(out, "out")
			delete(out, "err")
			out["panic"] = fmt.Sprint(r)
		}
		out["ul"] = ue.ULCount.Get()
		out["dl"] = ue.DLCount.Get()
	}()
	b := func(k string) bool { v, _ := op[k].(bool); return v }
	switch str(op, "op") {
	case "send":
		pdu := unhex(op, "pdu")
		nassecPlain(pdu, out)
		res, err := tglib.EncodeNasPduWithSecurity(ue, nassecExact(pdu), uint8(num(op, "hdr")), b("avail"), b("newctx"))
		if err != nil {
			out["err"] = err.Error()
		} else {
			out["out"] = hx(res)
		}
	case "setul":
		ue.ULCount.Set(uint16(num(op, "ovf")), uint8(num(op, "sqn")))
	case "setdl":
		ue.DLCount.Set(uint16(num(op, "ovf")), uint8(num(op, "sqn")))
	case "recv":
		pkt := nassecExact(unhex(op, "pkt"))
		// through the emulator's own entry point: the NAS-PDU arrives inside a DOWNLINK NAS TRANSPORT and tglib.GetNasPdu
		// hands it to NASDecode (a nil message stands for NASDecode's error)
		var dl ngapType.DownlinkNASTransport
		ie := ngapType.DownlinkNASTransportIEs{}
		ie.Id.Value = ngapType.ProtocolIEIDNASPDU
		ie.Value.Present = ngapType.DownlinkNASTransportIEsPresentNASPDU
		ie.Value.NASPDU = &ngapType.NASPDU{Value: aper.OctetString(pkt)}
		nRecv++
		if nRecv%3 == 0 {
			// the IEs a real AMF sends around the NAS-PDU (TS 38.413 9.2.5.2): the UE ids before it, Old AMF (criticality
			// reject) before and Allowed NSSAI (reject) after it
			mk := func(id int64, pres int) ngapType.DownlinkNASTransportIEs {
				x := ngapType.DownlinkNASTransportIEs{}
				x.Id.Value = id
				x.Value.Present = pres
				return x
			}
			a := mk(ngapType.ProtocolIEIDAMFUENGAPID, ngapType.DownlinkNASTransportIEsPresentAMFUENGAPID)
			a.Value.AMFUENGAPID = &ngapType.AMFUENGAPID{Value: 7}
			r := mk(ngapType.ProtocolIEIDRANUENGAPID, ngapType.DownlinkNASTransportIEsPresentRANUENGAPID)
			r.Value.RANUENGAPID = &ngapType.RANUENGAPID{Value: 1}
			o := mk(ngapType.ProtocolIEIDOldAMF, ngapType.DownlinkNASTransportIEsPresentOldAMF)
			o.Value.OldAMF = &ngapType.AMFName{Value: "amf-old"}
			n := mk(ngapType.ProtocolIEIDAllowedNSSAI, ngapType.DownlinkNASTransportIEsPresentAllowedNSSAI)
			n.Value.AllowedNSSAI = &ngapType.AllowedNSSAI{}
			dl.ProtocolIEs.List = append([]ngapType.DownlinkNASTransportIEs{a, r, o}, dl.ProtocolIEs.List...)
			dl.ProtocolIEs.List = append(dl.ProtocolIEs.List, ie, n)
		} else {
			dl.ProtocolIEs.List = append(dl.ProtocolIEs.List, ie)
		}
		m := tglib.GetNasPdu(ue, &dl)
		if m == nil {
			out["err"] = "tglib.GetNasPdu returned no message"
			return
		}
		re, err := m.PlainNasEncode()
		if err != nil {
			out["err"] = "re-encode: " + err.Error()
			return
		}
		out["out"] = hx(re)
	default:
		panic("harness: unknown op " + str(op, "op"))
	}
	return
}

func init() {
	lineCmds["nashist"] = func(in map[string]interface{}) map[string]interface{} {
		kenc, kint := unhex(in, "kenc"), unhex(in, "kint")
		if len(kenc) != 16 || len(kint) != 16 {
			panic("harness: keys must be 16 octets")
		}
		ue := tglib.NewRanUeContext("imsi-2089300000001", 1, uint8(num(in, "ea")), uint8(num(in, "ia")))
		copy(ue.KnasEnc[:], kenc)
		copy(ue.KnasInt[:], kint)
		steps := []interface{}{}
		ops, _ := in["ops"].([]interface{})
		for _, o := range ops {
			op, _ := o.(map[string]interface{})
			steps = append(steps, nassecStep(ue, op))
		}
		return map[string]interface{}{"steps": steps}
	}
	lineCmds["nasmsgs"] = func(in map[string]interface{}) map[string]interface{} {
		type nm struct {
			name string
			b    []byte
		}
		suci := nasType.MobileIdentity5GS{Len: 12, Buffer: []uint8{0x01, 0x02, 0xf8, 0x39, 0xf0, 0xff, 0x00, 0x00, 0x00, 0x00, 0x00, 0x10}}
		sn := &models.Snssai{Sst: 1, Sd: "010203"}
		list := []nm{
			{"RegistrationComplete", nasTestpacket.GetRegistrationComplete(nil)},
			// header-only downlink messages written from TS 24.501 table 8.2.13.1.1 / 8.2.19.1.1
			{"DeregistrationAcceptUEOriginating", []byte{0x7e, 0x00, 0x46}},
			{"ConfigurationUpdateCommandBare", []byte{0x7e, 0x00, 0x54}},
			{"SecurityModeComplete", nasTestpacket.GetSecurityModeComplete(nil)},
			{"UlNasTransport_PduSessionEstablishmentRequest", nasTestpacket.GetUlNasTransport_PduSessionEstablishmentRequest(5, nasMessage.ULNASTransportRequestTypeInitialRequest, "internet", sn)},
			{"DeregistrationRequest", nasTestpacket.GetDeregistrationRequest(1, 0, 4, suci)},
			{"UlNasTransport_PduSessionReleaseRequest", nasTestpacket.GetUlNasTransport_PduSessionReleaseRequest(5)},
			{"ServiceRequest", nasTestpacket.GetServiceRequest(nasMessage.ServiceTypeData)},
			{"ConfigurationUpdateComplete", nasTestpacket.GetConfigurationUpdateComplete()},
			{"AuthenticationResponse", nasTestpacket.GetAuthenticationResponse([]byte{1, 2, 3, 4, 5, 6, 7, 8, 9, 10, 11, 12, 13, 14, 15, 16}, "")},
			{"Status5GMM", nasTestpacket.GetStatus5GMM(0x6f)},
			{"SecurityModeCompleteWithContainer", nasTestpacket.GetSecurityModeComplete(nasTestpacket.GetRegistrationComplete(nil))},
			// plain 5GSM messages (EPD 0x2e) handed to the protection functions directly: a security protected message is a
			// 5GMM message (first octet 0x7e) whatever it carries
			{"Gsm_PduSessionReleaseRequest", []byte{0x2e, 0x05, 0x01, 0xd1}},
			{"Gsm_PduSessionReleaseComplete", []byte{0x2e, 0x05, 0x01, 0xd4}},
			{"Gsm_PduSessionModificationComplete", []byte{0x2e, 0x07, 0x02, 0xcc}},
		}
		msgs := []interface{}{}
		for _, x := range list {
			e := map[string]interface{}{"name": x.name, "hex": hx(x.b)}
			o := map[string]interface{}{}
			nassecPlain(x.b, o)
			if p, ok := o["plain"].(string); ok {
				e["rt"] = bytes.Equal(unhex(map[string]interface{}{"p": p}, "p"), x.b)
			} else {
				e["rt"] = false
			}
			msgs = append(msgs, e)
		}
		return map[string]interface{}{"msgs": msgs}
	}
}
