package main

import (
	"fmt"

	"free5gclib/nas"
	"free5gclib/nas/nasTestpacket"
	"free5gclib/nas/security"
	"stgutg"
	"tglib"
)

// createue: {imsi, start, count, k, opc, op} -> supis/ranids of UEs start..start+count-1 and the
// credentials / algorithms / advertised capability of the first one
// the first UE of the previous createue call: its identity and credentials are read again after the next population
// has been created (a UE context must not change because another one is created)
var prevUE *tglib.RanUeContext

func init() {
	lineCmds["createue"] = func(in map[string]interface{}) map[string]interface{} {
		imsi := str(in, "imsi")
		start, count := int(num(in, "start")), int(num(in, "count"))
		supis := []string{}
		ranids := []int64{}
		var first *tglib.RanUeContext
		for i := start; i < start+count; i++ {
			ue := stgutg.CreateUE(imsi, i, str(in, "k"), str(in, "opc"), str(in, "op"))
			if first == nil {
				first = ue
			}
			supis = append(supis, ue.Supi)
			ranids = append(ranids, ue.RanUeNgapId)
		}
		out := map[string]interface{}{"supis": supis, "ranids": ranids}
		if prevUE != nil {
			out["prev_now"] = map[string]interface{}{"supi": prevUE.Supi, "ran": prevUE.RanUeNgapId,
				"k":   prevUE.AuthenticationSubs.PermanentKey.PermanentKeyValue,
				"opc": prevUE.AuthenticationSubs.Opc.OpcValue, "op": prevUE.AuthenticationSubs.Milenage.Op.OpValue,
				"ea": prevUE.CipheringAlg, "ia": prevUE.IntegrityAlg}
		}
		if first != nil {
			prevUE = first
			cap := first.GetUESecurityCapability()
			out["ea"] = first.CipheringAlg
			out["ia"] = first.IntegrityAlg
			out["cap"] = hx(cap.Buffer)
			out["cap_iei"] = cap.Iei
			out["cap_len"] = cap.Len
			out["k"] = first.AuthenticationSubs.PermanentKey.PermanentKeyValue
			out["opc"] = first.AuthenticationSubs.Opc.OpcValue
			out["op"] = first.AuthenticationSubs.Milenage.Op.OpValue
		}
		return out
	}
	// seccap: {ea, ia} -> capability octets advertised by a context using these algorithms
	lineCmds["seccap"] = func(in map[string]interface{}) map[string]interface{} {
		ue := tglib.NewRanUeContext("imsi-208930000000003", 1, uint8(num(in, "ea")), uint8(num(in, "ia")))
		cap := ue.GetUESecurityCapability()
		out := map[string]interface{}{"cap": hx(cap.Buffer), "iei": cap.Iei, "len": cap.Len}
		// "advertises exactly the algorithms it WILL use": the capability goes out in the registration request, then the UE
		// authenticates, then it protects its messages. Which algorithms protect them is found from the message itself.
		if num(in, "ea") < 3 && num(in, "ia") < 3 {
			func() {
				defer func() {
					if r := recover(); r != nil {
						out["later_panic"] = fmt.Sprint(r)
					}
				}()
				ue.AuthenticationSubs = tglib.GetAuthSubscription("465b5ce8b199b49faa5f0a2ee238a6bc", "cd63cb71954a9f4e48a5994e37a02baf", "")
				var autn [16]byte
				copy(autn[:], []byte{0x55, 0xf3, 0x28, 0xb4, 0x35, 0x77, 0xb9, 0xb9, 0x4a, 0x9f, 0xfa, 0xc3, 0x54, 0xdf, 0xaf, 0xb3})
				rnd := []byte{0x23, 0x55, 0x3c, 0xbe, 0x96, 0x37, 0xa8, 0x9d, 0x21, 0x8a, 0xe6, 0x4d, 0xae, 0x47, 0xbf, 0x35}
				ue.DeriveRESstarAndSetKey(ue.AuthenticationSubs, autn, rnd, "5G:mnc093.mcc208.3gppnetwork.org", "93", "208")
				out["ea_after"], out["ia_after"] = int(ue.CipheringAlg), int(ue.IntegrityAlg)
				cap2 := ue.GetUESecurityCapability()
				out["cap_after"] = hx(cap2.Buffer)
				if ue.IntegrityAlg == 0 {
					return // under NIA0 the library sends no MAC at all (outside the supported pairs of C06): only the context is compared
				}
				plain := nasTestpacket.GetRegistrationComplete(nil)
				pkt, err := tglib.EncodeNasPduWithSecurity(ue, plain, nas.SecurityHeaderTypeIntegrityProtectedAndCiphered, true, true)
				if err != nil || len(pkt) < 7 {
					out["later_err"] = fmt.Sprint(err)
					return
				}
				iaUsed, eaUsed := -1, -1
				for a := 0; a < 3; a++ {
					mac, _ := security.NASMacCalculate(uint8(a), ue.KnasInt, 0, 1, 0, append([]byte{}, pkt[6:]...))
					if (a == 0 && hx(pkt[2:6]) == "00000000") || (mac != nil && hx(mac) == hx(pkt[2:6])) {
						if iaUsed < 0 {
							iaUsed = a
						}
					}
					body := append([]byte{}, pkt[7:]...)
					if security.NASEncrypt(uint8(a), ue.KnasEnc, 0, 1, 0, body) == nil && hx(body) == hx(plain) && eaUsed < 0 {
						eaUsed = a
					}
				}
				out["ea_used"], out["ia_used"] = eaUsed, iaUsed
			}()
		}
		// an algorithm the library does not implement (128-NEA3 / 128-NIA3): the UE advertises it alone, so it must not send
		// anything "protected" at all (whatever it sent would use an algorithm it did not advertise)
		if (num(in, "ea") == 3 && num(in, "ia") >= 1 && num(in, "ia") <= 2) || (num(in, "ia") == 3 && num(in, "ea") <= 2) {
			func() {
				defer func() {
					if r := recover(); r != nil {
						out["later_panic"] = fmt.Sprint(r)
					}
				}()
				for j := range ue.KnasInt {
					ue.KnasInt[j], ue.KnasEnc[j] = byte(j+1), byte(0x80+j)
				}
				for _, hdr := range []uint8{nas.SecurityHeaderTypeIntegrityProtectedAndCiphered, nas.SecurityHeaderTypeIntegrityProtectedAndCipheredWithNew5gNasSecurityContext} {
					pkt, err := tglib.EncodeNasPduWithSecurity(ue, nasTestpacket.GetRegistrationComplete(nil), hdr, true, true)
					if err == nil {
						out["later_sent"] = hx(pkt)
					}
				}
			}()
		}
		return out
	}
}
