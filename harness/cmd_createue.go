package main

import (
	"stgutg"
	"tglib"
)

// createue: {imsi, start, count, k, opc, op} -> supis/ranids of UEs start..start+count-1 and the
// credentials / algorithms / advertised capability of the first one
// the first UE of the previous createue call: its identity and credentials are read again after the next population
// has been created (a UE context must not change because another one is created)
var prevUE *tglib.RanUeContext

func init() {
	lineCmds["createue"] = func(in map[string]interface{}) map[string]interface{} {
		imsi := str(in, "imsi")
		start, count := int(num(in, "start")), int(num(in, "count"))
		supis := []string{}
		ranids := []int64{}
		var first *tglib.RanUeContext
		for i := start; i < start+count; i++ {
			ue := stgutg.CreateUE(imsi, i, str(in, "k"), str(in, "opc"), str(in, "op"))
			if first == nil {
				first = ue
			}
			supis = append(supis, ue.Supi)
			ranids = append(ranids, ue.RanUeNgapId)
		}
		out := map[string]interface{}{"supis": supis, "ranids": ranids}
		if prevUE != nil {
			out["prev_now"] = map[string]interface{}{"supi": prevUE.Supi, "ran": prevUE.RanUeNgapId,
				"k":   prevUE.AuthenticationSubs.PermanentKey.PermanentKeyValue,
				"opc": prevUE.AuthenticationSubs.Opc.OpcValue, "op": prevUE.AuthenticationSubs.Milenage.Op.OpValue,
				"ea": prevUE.CipheringAlg, "ia": prevUE.IntegrityAlg}
		}
		if first != nil {
			prevUE = first
			cap := first.GetUESecurityCapability()
			out["ea"] = first.CipheringAlg
			out["ia"] = first.IntegrityAlg
			out["cap"] = hx(cap.Buffer)
			out["cap_iei"] = cap.Iei
			out["cap_len"] = cap.Len
			out["k"] = first.AuthenticationSubs.PermanentKey.PermanentKeyValue
			out["opc"] = first.AuthenticationSubs.Opc.OpcValue
			out["op"] = first.AuthenticationSubs.Milenage.Op.OpValue
		}
		return out
	}
	// seccap: {ea, ia} -> capability octets advertised by a context using these algorithms
	lineCmds["seccap"] = func(in map[string]interface{}) map[string]interface{} {
		ue := tglib.NewRanUeContext("imsi-0", 1, uint8(num(in, "ea")), uint8(num(in, "ia")))
		cap := ue.GetUESecurityCapability()
		return map[string]interface{}{"cap": hx(cap.Buffer), "iei": cap.Iei, "len": cap.Len}
	}
}
