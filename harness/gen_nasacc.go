package main

// gen-nasacc: translator  src/free5gclib/nas/nasType/NAS_*.go (+ comm_util.go, nasMessage/NAS_<msg>.go)  ->  coq/Gen/NasAccessors.v
//
// go/ast only.  For every nasType type that occurs in the struct of one of the NAS messages on the emulator's path
// (nasAccMessages below) every method other than GetIei/SetIei/GetLen/SetLen (those belong to gen-nas) is mapped to an
// accessor descriptor (Model/NasAcc.v: acc_body).  X stands for the body member of the receiver: a.Octet (index 0),
// a.Octet[i] or a.Buffer[i]; M for an integer literal or GetBitMask(ub, lb) (evaluated in uint8 exactly as
// nasType.GetBitMask does, provided its body is the known one-liner); parentheses are irrelevant (the Go parser has
// resolved precedence).  Recognised bodies:
//   getters (result uint8)      return X | return X & M | return X & M >> S                     -> AGetBits i M S
//           (result uint16)     return uint16(X1)<<S1 + uint16(X2 & M2)>>S2                     -> AGet16 i1 S1 i2 M2 S2
//           (result [n]uint8 r) copy(r[:], a.B[lo:hi]); return r                                -> AGetOctets lo hi n
//           (result []uint8 r)  r = make([]uint8, len(a.Buffer)[-k]); copy(r, a.Buffer[[k:]]); return r  -> AGetTail k
//   setters (param v uint8)     X = v | X = (X & K) OP (v & M) | X = (X & K) OP ((v & M) << S)   -> ASetBits i K M S OP   (OP: + or |)
//           (param v uint16)    X1 = uint8(v>>S1) & M1; X2 = X2&K2 + uint8(v&M2)<<S2            -> ASet16 i1 S1 M1 i2 K2 M2 S2
//           (param v [n]uint8)  copy(a.B[lo:hi], v[:])                                          -> ASetOctets lo hi n
//           (param v []uint8)   copy(a.Buffer[[k:]], v)                                         -> ASetTail k
// Anything else -- another statement, another operator, a different member on the two sides of an assignment, a
// parameter of another type -- is emitted as AUnrecognised "<source text>", on which the model returns no result
// and which no conformance check accepts.
//
// Usage: harness gen-nasacc [repo-root] [coq|json]

import (
	"encoding/json"
	"fmt"
	"go/ast"
	"go/token"
	"os"
	"path/filepath"
	"sort"
	"strconv"
	"strings"
)

// the NAS messages the emulator sends (nasTestpacket constructors called from stgutg/*.go) and the downlink messages
// it decodes or that answer them on its path
var nasAccMessages = []string{
	"RegistrationRequest", "AuthenticationResponse", "SecurityModeComplete", "RegistrationComplete", "ULNASTransport",
	"PDUSessionEstablishmentRequest", "PDUSessionModificationRequest", "ServiceRequest",
	"DeregistrationRequestUEOriginatingDeregistration", "PDUSessionReleaseRequest", "PDUSessionReleaseComplete",
	"AuthenticationRequest", "SecurityModeCommand", "RegistrationAccept", "DLNASTransport", "PDUSessionEstablishmentAccept",
}

const nasAccBitMaskBody = "bitMask = ((1<<(ub-lb) - 1) << (lb)); return bitMask"

type nasAccessor struct {
	Type string  `json:"type"`
	Name string  `json:"name"`
	Kind string  `json:"kind"` // getbits setbits get16 set16 getoctets setoctets gettail settail unrecognised
	Args []int64 `json:"args"`
	Op   string  `json:"op,omitempty"` // setbits: plus | or
	Src  string  `json:"src,omitempty"`
}

type nasAccType struct {
	Name      string   `json:"name"`
	Container string   `json:"container"` // octet | array | buffer | none
	N         int      `json:"n"`
	Msgs      []string `json:"msgs"`
}

type nasAccOut struct {
	Types     []*nasAccType  `json:"types"`
	Accessors []*nasAccessor `json:"accessors"`
	Missing   []string       `json:"missing"` // message structs / types that could not be found
}

type nasAccCtx struct {
	ty        *nasAccType
	bitMaskOK bool
	param     string // name of the single parameter ("" for getters)
	ptype     string // its type
	rname     string // named result
	rtype     string
}

func nasAccStrip(e ast.Expr) ast.Expr {
	for {
		p, ok := e.(*ast.ParenExpr)
		if !ok {
			return e
		}
		e = p.X
	}
}

func nasAccInt(e ast.Expr) (int64, bool) {
	bl, ok := nasAccStrip(e).(*ast.BasicLit)
	if !ok || bl.Kind != token.INT {
		return 0, false
	}
	v, err := strconv.ParseInt(strings.ReplaceAll(bl.Value, "_", ""), 0, 64)
	if err != nil || v < 0 {
		return 0, false
	}
	return v, true
}

// M: integer literal or GetBitMask(ub, lb) evaluated in uint8 like the library's one-liner
func (c *nasAccCtx) mask(e ast.Expr) (int64, bool) {
	if v, ok := nasAccInt(e); ok {
		return v, true
	}
	call, ok := nasAccStrip(e).(*ast.CallExpr)
	if !ok || len(call.Args) != 2 || !c.bitMaskOK {
		return 0, false
	}
	if id, ok := call.Fun.(*ast.Ident); !ok || id.Name != "GetBitMask" {
		return 0, false
	}
	ub, ok1 := nasAccInt(call.Args[0])
	lb, ok2 := nasAccInt(call.Args[1])
	if !ok1 || !ok2 || ub > 255 || lb > 255 {
		return 0, false
	}
	d := uint8(ub) - uint8(lb)
	var one uint8 = 1
	m := ((one<<d - 1) << uint8(lb))
	return int64(m), true
}

// X: a.Octet (scalar container) | a.Octet[i] (array) | a.Buffer[i]  ->  index
func (c *nasAccCtx) member(e ast.Expr) (int64, bool) {
	e = nasAccStrip(e)
	if se, ok := e.(*ast.SelectorExpr); ok {
		if id, ok := se.X.(*ast.Ident); ok && id.Name == "a" && se.Sel.Name == "Octet" && c.ty.Container == "octet" {
			return 0, true
		}
		return 0, false
	}
	ix, ok := e.(*ast.IndexExpr)
	if !ok {
		return 0, false
	}
	se, ok := ix.X.(*ast.SelectorExpr)
	if !ok {
		return 0, false
	}
	id, ok := se.X.(*ast.Ident)
	if !ok || id.Name != "a" {
		return 0, false
	}
	if !(se.Sel.Name == "Octet" && c.ty.Container == "array") && !(se.Sel.Name == "Buffer" && c.ty.Container == "buffer") {
		return 0, false
	}
	return nasAccInt(ix.Index)
}

// a.Octet[lo:hi] | a.Buffer[lo:hi] | a.Buffer[k:] | a.Buffer   ->  lo, hi (-1: open), ok
func (c *nasAccCtx) slice(e ast.Expr) (int64, int64, bool) {
	e = nasAccStrip(e)
	isBody := func(x ast.Expr) bool {
		se, ok := x.(*ast.SelectorExpr)
		if !ok {
			return false
		}
		id, ok := se.X.(*ast.Ident)
		return ok && id.Name == "a" && ((se.Sel.Name == "Octet" && c.ty.Container == "array") || (se.Sel.Name == "Buffer" && c.ty.Container == "buffer"))
	}
	if isBody(e) && c.ty.Container == "buffer" {
		return 0, -1, true
	}
	sl, ok := e.(*ast.SliceExpr)
	if !ok || sl.Slice3 || !isBody(sl.X) {
		return 0, 0, false
	}
	lo, hi := int64(0), int64(-1)
	if sl.Low != nil {
		v, ok := nasAccInt(sl.Low)
		if !ok {
			return 0, 0, false
		}
		lo = v
	}
	if sl.High != nil {
		v, ok := nasAccInt(sl.High)
		if !ok {
			return 0, 0, false
		}
		hi = v
	}
	return lo, hi, true
}

func nasAccIsIdent(e ast.Expr, name string) bool {
	id, ok := nasAccStrip(e).(*ast.Ident)
	return ok && id.Name == name && name != ""
}

func nasAccBin(e ast.Expr, op token.Token) (ast.Expr, ast.Expr, bool) {
	b, ok := nasAccStrip(e).(*ast.BinaryExpr)
	if !ok || b.Op != op {
		return nil, nil, false
	}
	return b.X, b.Y, true
}

// conversion T(x)
func nasAccConv(e ast.Expr, t string) (ast.Expr, bool) {
	call, ok := nasAccStrip(e).(*ast.CallExpr)
	if !ok || len(call.Args) != 1 {
		return nil, false
	}
	if id, ok := call.Fun.(*ast.Ident); !ok || id.Name != t {
		return nil, false
	}
	return call.Args[0], true
}

func nasAccArrayLen(t string) (int64, bool) {
	if !strings.HasPrefix(t, "[") || !strings.HasSuffix(t, "]uint8") || t == "[]uint8" {
		return 0, false
	}
	n, err := strconv.ParseInt(t[1:len(t)-6], 0, 64)
	return n, err == nil
}

// copy(dst, src)
func nasAccCopy(st ast.Stmt) (ast.Expr, ast.Expr, bool) {
	call, fn := nasCall(st)
	if call == nil || fn != "copy" || len(call.Args) != 2 {
		return nil, nil, false
	}
	return call.Args[0], call.Args[1], true
}

// v[:] of the named identifier
func nasAccFullSliceOf(e ast.Expr, name string) bool {
	sl, ok := nasAccStrip(e).(*ast.SliceExpr)
	return ok && !sl.Slice3 && sl.Low == nil && sl.High == nil && nasAccIsIdent(sl.X, name)
}

func (c *nasAccCtx) getter(body []ast.Stmt) (string, []int64, bool) {
	last, ok := body[len(body)-1].(*ast.ReturnStmt)
	if !ok || len(last.Results) != 1 {
		return "", nil, false
	}
	res := last.Results[0]
	switch {
	case len(body) == 1 && c.rtype == "uint8":
		e := res
		sh := int64(0)
		if x, s, ok := nasAccBin(e, token.SHR); ok {
			v, ok := nasAccInt(s)
			if !ok {
				return "", nil, false
			}
			e, sh = x, v
			if _, _, ok := nasAccBin(e, token.AND); !ok {
				return "", nil, false
			}
		}
		m := int64(255)
		if x, y, ok := nasAccBin(e, token.AND); ok {
			v, ok := c.mask(y)
			if !ok {
				return "", nil, false
			}
			e, m = x, v
		}
		i, ok := c.member(e)
		if !ok {
			return "", nil, false
		}
		return "getbits", []int64{i, m, sh}, true
	case len(body) == 1 && c.rtype == "uint16":
		l, r, ok := nasAccBin(res, token.ADD)
		if !ok {
			return "", nil, false
		}
		lx, ls, ok1 := nasAccBin(l, token.SHL)
		rx, rs, ok2 := nasAccBin(r, token.SHR)
		if !ok1 || !ok2 {
			return "", nil, false
		}
		s1, ok1 := nasAccInt(ls)
		s2, ok2 := nasAccInt(rs)
		x1, ok3 := nasAccConv(lx, "uint16")
		x2, ok4 := nasAccConv(rx, "uint16")
		if !ok1 || !ok2 || !ok3 || !ok4 {
			return "", nil, false
		}
		i1, ok := c.member(x1)
		if !ok {
			return "", nil, false
		}
		y, mm, ok := nasAccBin(x2, token.AND)
		if !ok {
			return "", nil, false
		}
		i2, ok1 := c.member(y)
		m2, ok2 := c.mask(mm)
		if !ok1 || !ok2 {
			return "", nil, false
		}
		return "get16", []int64{i1, s1, i2, m2, s2}, true
	case len(body) == 2:
		n, isArr := nasAccArrayLen(c.rtype)
		dst, src, ok := nasAccCopy(body[0])
		if !isArr || !ok || !nasAccFullSliceOf(dst, c.rname) || !nasAccIsIdent(res, c.rname) {
			return "", nil, false
		}
		lo, hi, ok := c.slice(src)
		if !ok || hi < 0 {
			return "", nil, false
		}
		return "getoctets", []int64{lo, hi, n}, true
	case len(body) == 3 && c.rtype == "[]uint8" && c.ty.Container == "buffer":
		as, ok := body[0].(*ast.AssignStmt)
		if !ok || as.Tok != token.ASSIGN || len(as.Lhs) != 1 || len(as.Rhs) != 1 || !nasAccIsIdent(as.Lhs[0], c.rname) || !nasAccIsIdent(res, c.rname) {
			return "", nil, false
		}
		mk, ok := as.Rhs[0].(*ast.CallExpr)
		if !ok || nasSrc(mk.Fun) != "make" || len(mk.Args) != 2 || nasSrc(mk.Args[0]) != "[]uint8" {
			return "", nil, false
		}
		k := int64(0)
		ln := mk.Args[1]
		if x, y, ok := nasAccBin(ln, token.SUB); ok {
			v, ok := nasAccInt(y)
			if !ok {
				return "", nil, false
			}
			ln, k = x, v
		}
		if nasSrc(nasAccStrip(ln)) != "len(a.Buffer)" {
			return "", nil, false
		}
		dst, src, ok := nasAccCopy(body[1])
		if !ok || !nasAccIsIdent(dst, c.rname) {
			return "", nil, false
		}
		lo, hi, ok := c.slice(src)
		if !ok || hi >= 0 || lo != k {
			return "", nil, false
		}
		return "gettail", []int64{k}, true
	}
	return "", nil, false
}

// X = rhs
func (c *nasAccCtx) assign(st ast.Stmt) (int64, ast.Expr, bool) {
	as, ok := st.(*ast.AssignStmt)
	if !ok || as.Tok != token.ASSIGN || len(as.Lhs) != 1 || len(as.Rhs) != 1 {
		return 0, nil, false
	}
	i, ok := c.member(as.Lhs[0])
	if !ok {
		return 0, nil, false
	}
	return i, as.Rhs[0], true
}

// (v & M) or ((v & M) << S); conv: the masked parameter is wrapped in uint8(...)
func (c *nasAccCtx) maskedParam(e ast.Expr, conv bool) (m, sh int64, ok bool) {
	if x, s, isShl := nasAccBin(e, token.SHL); isShl {
		v, ok := nasAccInt(s)
		if !ok {
			return 0, 0, false
		}
		e, sh = x, v
	}
	if conv {
		x, ok := nasAccConv(e, "uint8")
		if !ok {
			return 0, 0, false
		}
		e = x
	}
	x, y, isAnd := nasAccBin(e, token.AND)
	if !isAnd || !nasAccIsIdent(x, c.param) {
		return 0, 0, false
	}
	m, ok = nasAccInt(y)
	return m, sh, ok
}

func (c *nasAccCtx) setter(body []ast.Stmt) (string, []int64, string, bool) {
	switch {
	case len(body) == 1 && c.ptype == "uint8":
		i, rhs, ok := c.assign(body[0])
		if !ok {
			return "", nil, "", false
		}
		if nasAccIsIdent(rhs, c.param) {
			return "setbits", []int64{i, 0, 255, 0}, "plus", true
		}
		op := "plus"
		l, r, ok := nasAccBin(rhs, token.ADD)
		if !ok {
			l, r, ok = nasAccBin(rhs, token.OR)
			op = "or"
		}
		if !ok {
			return "", nil, "", false
		}
		x, kk, ok := nasAccBin(l, token.AND)
		if !ok {
			return "", nil, "", false
		}
		j, ok1 := c.member(x)
		keep, ok2 := c.mask(kk)
		m, sh, ok3 := c.maskedParam(r, false)
		if !ok1 || !ok2 || !ok3 || j != i {
			return "", nil, "", false
		}
		return "setbits", []int64{i, keep, m, sh}, op, true
	case len(body) == 2 && c.ptype == "uint16":
		// X1 = uint8(v>>S1) & M1
		i1, rhs1, ok := c.assign(body[0])
		if !ok {
			return "", nil, "", false
		}
		cv, mm, ok := nasAccBin(rhs1, token.AND)
		if !ok {
			return "", nil, "", false
		}
		m1, ok1 := nasAccInt(mm)
		inner, ok2 := nasAccConv(cv, "uint8")
		if !ok1 || !ok2 {
			return "", nil, "", false
		}
		pv, ss, ok := nasAccBin(inner, token.SHR)
		if !ok || !nasAccIsIdent(pv, c.param) {
			return "", nil, "", false
		}
		s1, ok := nasAccInt(ss)
		if !ok {
			return "", nil, "", false
		}
		// X2 = X2&K2 + uint8(v&M2)<<S2
		i2, rhs2, ok := c.assign(body[1])
		if !ok {
			return "", nil, "", false
		}
		l, r, ok := nasAccBin(rhs2, token.ADD)
		if !ok {
			return "", nil, "", false
		}
		x, kk, ok := nasAccBin(l, token.AND)
		if !ok {
			return "", nil, "", false
		}
		j, ok1 := c.member(x)
		k2, ok2 := c.mask(kk)
		m2, s2, ok3 := c.maskedParam(r, true)
		if !ok1 || !ok2 || !ok3 || j != i2 {
			return "", nil, "", false
		}
		return "set16", []int64{i1, s1, m1, i2, k2, m2, s2}, "", true
	case len(body) == 1:
		dst, src, ok := nasAccCopy(body[0])
		if !ok {
			return "", nil, "", false
		}
		lo, hi, ok := c.slice(dst)
		if !ok {
			return "", nil, "", false
		}
		if n, isArr := nasAccArrayLen(c.ptype); isArr {
			if hi < 0 || !nasAccFullSliceOf(src, c.param) {
				return "", nil, "", false
			}
			return "setoctets", []int64{lo, hi, n}, "", true
		}
		if c.ptype == "[]uint8" && hi < 0 && c.ty.Container == "buffer" && nasAccIsIdent(src, c.param) {
			return "settail", []int64{lo}, "", true
		}
	}
	return "", nil, "", false
}

func nasAccTranslate(root string) (*nasAccOut, error) {
	base := filepath.Join(root, "src", "free5gclib", "nas")
	out := &nasAccOut{}
	// which types, in which messages
	mfiles, err := nasParseDir(filepath.Join(base, "nasMessage"))
	if err != nil {
		return nil, err
	}
	structs := map[string]*ast.StructType{}
	for _, f := range mfiles {
		for _, d := range f.Decls {
			gd, ok := d.(*ast.GenDecl)
			if !ok || gd.Tok != token.TYPE {
				continue
			}
			for _, s := range gd.Specs {
				ts := s.(*ast.TypeSpec)
				if st, ok := ts.Type.(*ast.StructType); ok {
					structs[ts.Name.Name] = st
				}
			}
		}
	}
	types := map[string]*nasAccType{}
	var order []string
	for _, m := range nasAccMessages {
		st := structs[m]
		if st == nil {
			out.Missing = append(out.Missing, "message struct "+m)
			continue
		}
		for _, fl := range st.Fields.List {
			ty := strings.TrimPrefix(nasSrc(fl.Type), "*")
			if !strings.HasPrefix(ty, "nasType.") {
				out.Missing = append(out.Missing, "field of "+m+": "+nasSrc(fl.Type))
				continue
			}
			tn := strings.TrimPrefix(ty, "nasType.")
			if types[tn] == nil {
				types[tn] = &nasAccType{Name: tn, Container: "none"}
				order = append(order, tn)
			}
			types[tn].Msgs = append(types[tn].Msgs, m)
		}
	}
	tfiles, err := nasParseDir(filepath.Join(base, "nasType"))
	if err != nil {
		return nil, err
	}
	bitMaskOK := false
	found := map[string]bool{}
	for _, f := range tfiles {
		for _, d := range f.Decls {
			switch dd := d.(type) {
			case *ast.GenDecl:
				if dd.Tok != token.TYPE {
					continue
				}
				for _, s := range dd.Specs {
					ts := s.(*ast.TypeSpec)
					t := types[ts.Name.Name]
					st, ok := ts.Type.(*ast.StructType)
					if t == nil || !ok {
						continue
					}
					found[t.Name] = true
					for _, fl := range st.Fields.List {
						ty := nasSrc(fl.Type)
						for _, nm := range fl.Names {
							switch {
							case nm.Name == "Octet" && ty == "uint8" && t.Container == "none":
								t.Container, t.N = "octet", 1
							case nm.Name == "Octet" && t.Container == "none":
								if n, ok := nasAccArrayLen(ty); ok {
									t.Container, t.N = "array", int(n)
								}
							case nm.Name == "Buffer" && ty == "[]uint8" && t.Container == "none":
								t.Container = "buffer"
							}
						}
					}
				}
			case *ast.FuncDecl:
				if dd.Recv == nil && dd.Name.Name == "GetBitMask" && dd.Body != nil &&
					nasSrc(dd.Type) == "func(ub uint8, lb uint8) (bitMask uint8)" && nasBodyOneLine(dd) == nasAccBitMaskBody {
					bitMaskOK = true
				}
			}
		}
	}
	for _, tn := range order {
		if !found[tn] {
			out.Missing = append(out.Missing, "nasType."+tn)
		}
		out.Types = append(out.Types, types[tn])
	}
	var accs []*nasAccessor
	for _, f := range tfiles {
		for _, d := range f.Decls {
			fd, ok := d.(*ast.FuncDecl)
			if !ok || fd.Body == nil || fd.Recv == nil {
				continue
			}
			t := types[nasRecvName(fd)]
			if t == nil {
				continue
			}
			switch fd.Name.Name {
			case "GetIei", "SetIei", "GetLen", "SetLen":
				continue
			}
			a := &nasAccessor{Type: t.Name, Name: fd.Name.Name, Kind: "unrecognised", Src: nasBodyOneLine(fd)}
			accs = append(accs, a)
			c := &nasAccCtx{ty: t, bitMaskOK: bitMaskOK}
			if len(fd.Recv.List[0].Names) != 1 || fd.Recv.List[0].Names[0].Name != "a" || !strings.HasPrefix(nasSrc(fd.Recv.List[0].Type), "*") || len(fd.Body.List) == 0 {
				a.Src = "receiver: " + nasSrc(fd.Recv.List[0].Type) + "; " + a.Src
				continue
			}
			np, nr := 0, 0
			for _, p := range fd.Type.Params.List {
				np += len(p.Names)
				if len(p.Names) == 0 {
					np++
				}
			}
			if fd.Type.Results != nil {
				for _, p := range fd.Type.Results.List {
					nr += len(p.Names)
					if len(p.Names) == 0 {
						nr++
					}
				}
			}
			switch {
			case np == 0 && nr == 1:
				r := fd.Type.Results.List[0]
				if len(r.Names) == 1 {
					c.rname = r.Names[0].Name
				}
				c.rtype = nasSrc(r.Type)
				if k, args, ok := c.getter(fd.Body.List); ok {
					a.Kind, a.Args, a.Src = k, args, ""
				}
			case np == 1 && nr == 0 && len(fd.Type.Params.List[0].Names) == 1:
				c.param = fd.Type.Params.List[0].Names[0].Name
				c.ptype = nasSrc(fd.Type.Params.List[0].Type)
				if k, args, op, ok := c.setter(fd.Body.List); ok {
					a.Kind, a.Args, a.Op, a.Src = k, args, op, ""
				}
			default:
				a.Src = "signature " + nasSrc(fd.Type) + "; " + a.Src
			}
			if a.Kind == "unrecognised" && !bitMaskOK && strings.Contains(a.Src, "GetBitMask") {
				a.Src = "GetBitMask is not the known one-liner; " + a.Src
			}
		}
	}
	idx := map[string]int{}
	for i, tn := range order {
		idx[tn] = i
	}
	sort.SliceStable(accs, func(i, j int) bool { return idx[accs[i].Type] < idx[accs[j].Type] })
	out.Accessors = accs
	return out, nil
}

func nasAccPrintCoq(o *nasAccOut) {
	p := fmt.Printf
	p("(* GENERATED by `harness gen-nasacc` from src/free5gclib/nas/nasType/NAS_*.go (accessor methods of the IE types of the\n")
	p("   NAS messages on the emulator's path) -- do not edit.  One accessor descriptor per method other than\n")
	p("   GetIei/SetIei/GetLen/SetLen; bodies outside the recognised shapes appear as AUnrecognised with their source text. *)\n")
	p("From Coq Require Import NArith List String.\nRequire Import NasAcc.\nImport ListNotations.\nOpen Scope string_scope.\nOpen Scope N_scope.\n\n")
	p("Definition acc_messages : list string := %s.\n\n", nasStrList(nasAccMessages))
	p("Definition acc_missing : list string := %s.\n\n", nasStrList(o.Missing))
	p("Definition acc_types : list acc_type := [")
	for i, t := range o.Types {
		if i > 0 {
			p(";")
		}
		c := map[string]string{"octet": "COctet", "buffer": "CBuffer", "none": "CNone"}[t.Container]
		if t.Container == "array" {
			c = fmt.Sprintf("(CArray %d)", t.N)
		}
		p("\n  mk_acc_type %s %s %s", nasQ(t.Name), c, nasStrList(t.Msgs))
	}
	p("].\n\nDefinition acc_descs : list accessor := [")
	for i, a := range o.Accessors {
		if i > 0 {
			p(";")
		}
		g := a.Args
		var b string
		switch a.Kind {
		case "getbits":
			b = fmt.Sprintf("AGetBits %d%%nat %d %d", g[0], g[1], g[2])
		case "setbits":
			op := "OpPlus"
			if a.Op == "or" {
				op = "OpOr"
			}
			b = fmt.Sprintf("ASetBits %d%%nat %d %d %d %s", g[0], g[1], g[2], g[3], op)
		case "get16":
			b = fmt.Sprintf("AGet16 %d%%nat %d %d%%nat %d %d", g[0], g[1], g[2], g[3], g[4])
		case "set16":
			b = fmt.Sprintf("ASet16 %d%%nat %d %d %d%%nat %d %d %d", g[0], g[1], g[2], g[3], g[4], g[5], g[6])
		case "getoctets":
			b = fmt.Sprintf("AGetOctets %d%%nat %d%%nat %d%%nat", g[0], g[1], g[2])
		case "setoctets":
			b = fmt.Sprintf("ASetOctets %d%%nat %d%%nat %d%%nat", g[0], g[1], g[2])
		case "gettail":
			b = fmt.Sprintf("AGetTail %d%%nat", g[0])
		case "settail":
			b = fmt.Sprintf("ASetTail %d%%nat", g[0])
		default:
			b = "AUnrecognised " + nasQ(a.Src)
		}
		p("\n  mk_acc %s %s (%s)", nasQ(a.Type), nasQ(a.Name), b)
	}
	p("].\n")
}

func init() {
	rawCmds["gen-nasacc"] = func(args []string) int {
		root, mode := ".", "coq"
		if len(args) > 0 {
			root = args[0]
		}
		if len(args) > 1 {
			mode = args[1]
		}
		o, err := nasAccTranslate(root)
		if err != nil {
			fmt.Fprintln(os.Stderr, "gen-nasacc:", err)
			return 1
		}
		if mode == "json" {
			b, _ := json.Marshal(o)
			fmt.Println(string(b))
			return 0
		}
		nasAccPrintCoq(o)
		return 0
	}
}
