package main

// aperenc / aperdec: drive aper.Marshal / aper.Unmarshal over arbitrary constraint tags.
// A struct type  struct{ P0..P(pre-1) bool; V <kind> `aper:"<tag>"` }  is built with reflect.StructOf, so the
// generic codec is exercised over the whole constraint space at every bit offset 0..7.
//   in : {"kind": int|enum|bool|octets|string|bits|seqof|choice, "tag": "...", "etag": "...", "pre": n,
//         "int": "123", "hex": "..", "nbits": n, "ints": ["1","2"], "nalt": n, "pres": n, "top": "..."}
//   out: {"enc": hex} | {"err": msg} | {"panic": msg}              (aperenc)
//        {"int": "n"} | {"hex":..,"nbits":n} | {"ints":[..]} | {"pres":n,"int":..} | {"err"} | {"panic"}   (aperdec, input "hex" = bytes)
// Byte slices handed to the codec have capacity == length (the model's slices have no spare capacity).

import (
	"fmt"
	"reflect"
	"strconv"

	"free5gclib/aper"
)

func exactBytes(b []byte) []byte {
	c := make([]byte, len(b))
	copy(c, b)
	return c
}

func aperMkType(in map[string]interface{}) (reflect.Type, int) {
	var ft reflect.Type
	tagOf := func(s string) reflect.StructTag { return reflect.StructTag(`aper:"` + s + `"`) }
	switch str(in, "kind") {
	case "int":
		ft = reflect.TypeOf(int64(0))
	case "enum":
		ft = reflect.TypeOf(aper.Enumerated(0))
	case "octets":
		ft = reflect.TypeOf(aper.OctetString{})
	case "string":
		ft = reflect.TypeOf("")
	case "bits":
		ft = reflect.TypeOf(aper.BitString{})
	case "bool":
		ft = reflect.TypeOf(true)
	case "seqof":
		et := reflect.StructOf([]reflect.StructField{{Name: "V", Type: reflect.TypeOf(int64(0)), Tag: tagOf(str(in, "etag"))}})
		ft = reflect.SliceOf(et)
	case "choice":
		fs := []reflect.StructField{{Name: "Present", Type: reflect.TypeOf(int(0))}}
		for i := 1; i <= int(num(in, "nalt")); i++ {
			fs = append(fs, reflect.StructField{Name: fmt.Sprintf("A%d", i), Type: reflect.PtrTo(reflect.TypeOf(int64(0))), Tag: tagOf(str(in, "etag"))})
		}
		ft = reflect.StructOf(fs)
	default:
		panic("harness: unknown kind " + str(in, "kind"))
	}
	pre := int(num(in, "pre"))
	var fs []reflect.StructField
	for i := 0; i < pre; i++ {
		fs = append(fs, reflect.StructField{Name: fmt.Sprintf("P%d", i), Type: reflect.TypeOf(true)})
	}
	fs = append(fs, reflect.StructField{Name: "V", Type: ft, Tag: tagOf(str(in, "tag"))})
	// "post": n BOOLEAN fields AFTER the value: whatever the codec leaves behind (bit cursor, alignment) shows in them
	for i := 0; i < int(num(in, "post")); i++ {
		fs = append(fs, reflect.StructField{Name: fmt.Sprintf("Q%d", i), Type: reflect.TypeOf(true)})
	}
	return reflect.StructOf(fs), pre
}

func strList(in map[string]interface{}, k string) []string {
	var out []string
	if l, ok := in[k].([]interface{}); ok {
		for _, x := range l {
			switch v := x.(type) {
			case string:
				out = append(out, v)
			case float64:
				out = append(out, strconv.FormatInt(int64(v), 10))
			}
		}
	}
	return out
}

func init() {
	lineCmds["aperenc"] = func(in map[string]interface{}) map[string]interface{} {
		t, pre := aperMkType(in)
		v := reflect.New(t).Elem()
		for i := 0; i < pre; i++ {
			v.Field(i).SetBool(i%2 == 0) // leading bits 1,0,1,0,... so that a wrong shift shows
		}
		for i := 0; i < int(num(in, "post")); i++ {
			v.Field(pre + 1 + i).SetBool(i%2 == 0)
		}
		f := v.Field(pre)
		switch str(in, "kind") {
		case "int":
			f.SetInt(num(in, "int"))
		case "enum":
			u, _ := strconv.ParseUint(str(in, "int"), 10, 64)
			f.SetUint(u)
		case "octets":
			f.SetBytes(exactBytes(unhex(in, "hex")))
		case "string":
			f.SetString(string(unhex(in, "hex")))
		case "bits":
			f.Field(0).SetBytes(exactBytes(unhex(in, "hex")))
			f.Field(1).SetUint(uint64(num(in, "nbits")))
		case "bool":
			f.SetBool(num(in, "int") != 0)
		case "seqof":
			xs := strList(in, "ints")
			s := reflect.MakeSlice(f.Type(), len(xs), len(xs))
			for i, x := range xs {
				n, _ := strconv.ParseInt(x, 10, 64)
				s.Index(i).Field(0).SetInt(n)
			}
			f.Set(s)
		case "choice":
			pres := int(num(in, "pres"))
			f.Field(0).SetInt(int64(pres))
			if pres >= 1 && pres < f.NumField() {
				x := num(in, "int")
				f.Field(pres).Set(reflect.ValueOf(&x))
			}
		}
		b, err := aper.MarshalWithParams(v.Interface(), str(in, "top"))
		if err != nil {
			return map[string]interface{}{"err": err.Error()}
		}
		out := map[string]interface{}{"enc": hx(b)}
		retain(out, "aperenc", b)
		return out
	}
	lineCmds["aperdec"] = func(in map[string]interface{}) map[string]interface{} {
		t, pre := aperMkType(in)
		v := reflect.New(t)
		inb := exactBytes(unhex(in, "hex"))
		if err := aper.UnmarshalWithParams(inb, v.Interface(), str(in, "top")); err != nil {
			return map[string]interface{}{"err": err.Error()}
		}
		f := v.Elem().Field(pre)
		out := map[string]interface{}{}
		if hx(inb) != str(in, "hex") {
			out["input_after"] = hx(inb) // a decoder reads its input: the caller's buffer must come back unchanged
		}
		pb := ""
		for i := 0; i < pre; i++ {
			if v.Elem().Field(i).Bool() {
				pb += "1"
			} else {
				pb += "0"
			}
		}
		out["prebits"] = pb
		qb := ""
		for i := 0; i < int(num(in, "post")); i++ {
			if v.Elem().Field(pre + 1 + i).Bool() {
				qb += "1"
			} else {
				qb += "0"
			}
		}
		out["postbits"] = qb
		switch str(in, "kind") {
		case "int":
			out["int"] = strconv.FormatInt(f.Int(), 10)
		case "enum":
			out["int"] = strconv.FormatUint(f.Uint(), 10)
		case "octets":
			out["hex"] = hx(f.Bytes())
		case "string":
			out["hex"] = hx([]byte(f.String()))
		case "bits":
			out["hex"] = hx(f.Field(0).Bytes())
			out["nbits"] = strconv.FormatUint(f.Field(1).Uint(), 10)
		case "bool":
			if f.Bool() {
				out["int"] = "1"
			} else {
				out["int"] = "0"
			}
		case "seqof":
			xs := []string{}
			for i := 0; i < f.Len(); i++ {
				xs = append(xs, strconv.FormatInt(f.Index(i).Field(0).Int(), 10))
			}
			out["ints"] = xs
		case "choice":
			pres := int(f.Field(0).Int())
			out["pres"] = pres
			if pres >= 1 && pres < f.NumField() && !f.Field(pres).IsNil() {
				out["int"] = strconv.FormatInt(f.Field(pres).Elem().Int(), 10)
			}
		}
		return out
	}
}
