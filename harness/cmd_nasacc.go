package main

// nasacc: the REAL accessor methods (getters/setters) of package nasType, called through reflection.
//
//   in : {"type":"<nasType type>", "state":"<hex of the body member: Octet uint8 | Octet [N]uint8 | Buffer>",
//         "ops":[{"set":"<setter>", "n":<uint8/uint16 argument>} | {"set":"<setter>", "b":"<hex: [n]uint8 / []uint8 argument>"} ...],
//         "gets":["<getter>", ...]}
//   out: {"container":"octet|array|buffer", "n":N, "after":"<hex of the body member after the setters>",
//         "gets":[{"n":..} | {"b":"<hex>"} ...]}            (a panic anywhere: {"panic":...} through main.guard)
//
// The value is the zero value of the type with the body member set to "state" (a Buffer is allocated with len = cap =
// the given length).  Types are found by walking the fields of nas.GmmMessage / nas.GsmMessage (-> nasMessage structs
// -> embedded nasType fields): nothing about the layout of any IE is known here.  For an Octet [N]uint8 the state
// must have N octets; an array argument must have exactly the parameter's length.

import (
	"fmt"
	"reflect"

	"free5gclib/nas"
)

var nasAccTypes map[string]reflect.Type

func nasAccRegistry() map[string]reflect.Type {
	if nasAccTypes != nil {
		return nasAccTypes
	}
	nasAccTypes = map[string]reflect.Type{}
	for _, part := range []reflect.Type{reflect.TypeOf(nas.GmmMessage{}), reflect.TypeOf(nas.GsmMessage{})} {
		for i := 0; i < part.NumField(); i++ {
			mt := part.Field(i).Type
			if mt.Kind() != reflect.Ptr || mt.Elem().Kind() != reflect.Struct {
				continue
			}
			ms := mt.Elem()
			for j := 0; j < ms.NumField(); j++ {
				ft := ms.Field(j).Type
				if ft.Kind() == reflect.Ptr {
					ft = ft.Elem()
				}
				if ft.Kind() == reflect.Struct && ft.PkgPath() == "free5gclib/nas/nasType" {
					nasAccTypes[ft.Name()] = ft
				}
			}
		}
	}
	return nasAccTypes
}

func nasAccBody(v reflect.Value) (reflect.Value, string) {
	if x := v.FieldByName("Octet"); x.IsValid() {
		if x.Kind() == reflect.Uint8 {
			return x, "octet"
		}
		if x.Kind() == reflect.Array && x.Type().Elem().Kind() == reflect.Uint8 {
			return x, "array"
		}
		panic("harness: unexpected Octet kind")
	}
	if x := v.FieldByName("Buffer"); x.IsValid() && x.Kind() == reflect.Slice && x.Type().Elem().Kind() == reflect.Uint8 {
		return x, "buffer"
	}
	panic("harness: type without Octet/Buffer")
}

func nasAccRead(x reflect.Value, kind string) []byte {
	switch kind {
	case "octet":
		return []byte{byte(x.Uint())}
	case "array":
		b := make([]byte, x.Len())
		for i := range b {
			b[i] = byte(x.Index(i).Uint())
		}
		return b
	}
	return append([]byte{}, x.Bytes()...)
}

func nasAccValue(v reflect.Value) map[string]interface{} {
	switch v.Kind() {
	case reflect.Uint8, reflect.Uint16, reflect.Uint32, reflect.Uint64:
		return map[string]interface{}{"n": v.Uint()}
	case reflect.Array:
		b := make([]byte, v.Len())
		for i := range b {
			b[i] = byte(v.Index(i).Uint())
		}
		return map[string]interface{}{"b": hx(b)}
	case reflect.Slice:
		if v.Type().Elem().Kind() == reflect.Uint8 {
			return map[string]interface{}{"b": hx(v.Bytes())}
		}
	}
	panic("harness: getter result of kind " + v.Kind().String())
}

func init() {
	lineCmds["nasacc"] = func(in map[string]interface{}) map[string]interface{} {
		t, ok := nasAccRegistry()[str(in, "type")]
		if !ok {
			panic("harness: no such nasType type in a message: " + str(in, "type"))
		}
		p := reflect.New(t)
		body, kind := nasAccBody(p.Elem())
		st := unhex(in, "state")
		out := map[string]interface{}{"container": kind, "n": 0}
		switch kind {
		case "octet":
			if len(st) != 1 {
				panic("harness: Octet uint8 needs one octet of state")
			}
			body.SetUint(uint64(st[0]))
			out["n"] = 1
		case "array":
			out["n"] = body.Len()
			if len(st) != body.Len() {
				panic(fmt.Sprintf("harness: Octet [%d]uint8 given %d octets of state", body.Len(), len(st)))
			}
			for i := range st {
				body.Index(i).SetUint(uint64(st[i]))
			}
		case "buffer":
			c := make([]byte, len(st), len(st))
			copy(c, st)
			body.SetBytes(c)
		}
		ops, _ := in["ops"].([]interface{})
		for _, oi := range ops {
			o := oi.(map[string]interface{})
			m := p.MethodByName(str(o, "set"))
			if !m.IsValid() {
				panic("harness: no method " + str(o, "set"))
			}
			if m.Type().NumIn() != 1 || m.Type().NumOut() != 0 {
				panic("harness: " + str(o, "set") + " is not a one-argument setter")
			}
			pt := m.Type().In(0)
			arg := reflect.New(pt).Elem()
			switch pt.Kind() {
			case reflect.Uint8, reflect.Uint16, reflect.Uint32, reflect.Uint64:
				n := uint64(num(o, "n"))
				if _, isB := o["b"]; isB || arg.OverflowUint(n) {
					panic("harness: argument does not fit the parameter type " + pt.String())
				}
				arg.SetUint(n)
			case reflect.Array:
				b := unhex(o, "b")
				if pt.Elem().Kind() != reflect.Uint8 || len(b) != pt.Len() {
					panic(fmt.Sprintf("harness: parameter %s given %d octets", pt.String(), len(b)))
				}
				for i := range b {
					arg.Index(i).SetUint(uint64(b[i]))
				}
			case reflect.Slice:
				if pt.Elem().Kind() != reflect.Uint8 {
					panic("harness: parameter type " + pt.String())
				}
				arg.SetBytes(append([]byte{}, unhex(o, "b")...))
			default:
				panic("harness: parameter type " + pt.String())
			}
			m.Call([]reflect.Value{arg})
		}
		body, kind = nasAccBody(p.Elem())
		out["after"] = hx(nasAccRead(body, kind))
		gets, _ := in["gets"].([]interface{})
		res := []interface{}{}
		for _, gi := range gets {
			name, _ := gi.(string)
			m := p.MethodByName(name)
			if !m.IsValid() {
				panic("harness: no method " + name)
			}
			if m.Type().NumIn() != 0 || m.Type().NumOut() != 1 {
				panic("harness: " + name + " is not a getter")
			}
			res = append(res, nasAccValue(m.Call(nil)[0]))
		}
		out["gets"] = res
		return out
	}
}
