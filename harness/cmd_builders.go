package main

// getmsg: the 14 build-and-encode wrappers of tglib/packet.go, called for real.
//
// One input line = one case = one history of the package-level ngapTestpacket.TestPlmn:
//   {"calls":[{"fn":"GetNGSetupRequest","gnbid":hex,"plmn":hex,"bits":"24","name":hex},
//             {"fn":"GetUplinkNASTransport","amf":"1","ran":"2","nas":hex}, ...]}
// At the start of every case TestPlmn is put back to the value the package's init() gave it (captured when
// the harness starts), so a case behaves like a fresh emulator process; the calls are then made in order (a
// GetNGSetupRequest call sets TestPlmn exactly as the emulator's NG Setup does).
// Per call the answer is {"hex":bytes} | {"err":text} | {"panic":text}; for bytes also "value": the tree
// the library's own ngap.Decoder returns for them (dumper of cmd_ngap.go), or "decerr"/"decpanic".
// 64-bit integers travel as decimal strings, octet strings and the RAN node name as lower-case hex.

import (
	"fmt"
	"reflect"
	"strconv"

	"free5gclib/aper"
	"free5gclib/ngap"
	"tglib"
	"tglib/ngapTestpacket"
)

var initialTestPlmn = append([]byte(nil), ngapTestpacket.TestPlmn.Value...)

func bI64(m map[string]interface{}, k string) int64 {
	switch v := m[k].(type) {
	case string:
		n, err := strconv.ParseInt(v, 10, 64)
		if err != nil {
			panic("harness: bad int64 in " + k)
		}
		return n
	case float64:
		return int64(v)
	}
	panic("harness: missing " + k)
}

func bU64(m map[string]interface{}, k string) uint64 {
	switch v := m[k].(type) {
	case string:
		n, err := strconv.ParseUint(v, 10, 64)
		if err != nil {
			panic("harness: bad uint64 in " + k)
		}
		return n
	case float64:
		return uint64(v)
	}
	panic("harness: missing " + k)
}

func bBytes(m map[string]interface{}, k string) []byte {
	if m[k] == nil {
		return nil
	}
	return exactBytes(unhex(m, k))
}

func bI64List(m map[string]interface{}, k string) []int64 {
	l, ok := m[k].([]interface{})
	if !ok {
		return nil // JSON null / absent = nil slice, as the emulator passes
	}
	out := make([]int64, 0, len(l))
	for _, x := range l {
		switch v := x.(type) {
		case string:
			n, err := strconv.ParseInt(v, 10, 64)
			if err != nil {
				panic("harness: bad int64 in list " + k)
			}
			out = append(out, n)
		case float64:
			out = append(out, int64(v))
		}
	}
	return out
}

// callWrapper dispatches on the wrapper's name; the argument keys are fixed per wrapper.
func callWrapper(c map[string]interface{}) ([]byte, error) {
	switch str(c, "fn") {
	case "GetNGSetupRequest":
		return tglib.GetNGSetupRequest(bBytes(c, "gnbid"), bBytes(c, "plmn"), bU64(c, "bits"), string(unhex(c, "name")))
	case "GetInitialUEMessage":
		return tglib.GetInitialUEMessage(bI64(c, "ran"), bBytes(c, "nas"), str(c, "tmsi"))
	case "GetUplinkNASTransport":
		return tglib.GetUplinkNASTransport(bI64(c, "amf"), bI64(c, "ran"), bBytes(c, "nas"))
	case "GetInitialContextSetupResponse":
		return tglib.GetInitialContextSetupResponse(bI64(c, "amf"), bI64(c, "ran"))
	case "GetInitialContextSetupResponseForServiceRequest":
		return tglib.GetInitialContextSetupResponseForServiceRequest(bI64(c, "amf"), bI64(c, "ran"), bI64(c, "pdu"), str(c, "ipv4"))
	case "GetPDUSessionResourceSetupResponse":
		return tglib.GetPDUSessionResourceSetupResponse(bI64(c, "amf"), bI64(c, "ran"), bI64(c, "pdu"), str(c, "ipv4"))
	case "GetUEContextReleaseComplete":
		return tglib.GetUEContextReleaseComplete(bI64(c, "amf"), bI64(c, "ran"), bI64List(c, "ids"))
	case "GetUEContextReleaseRequest":
		return tglib.GetUEContextReleaseRequest(bI64(c, "amf"), bI64(c, "ran"), bI64List(c, "ids"))
	case "GetPDUSessionResourceReleaseResponse":
		return tglib.GetPDUSessionResourceReleaseResponse(bI64(c, "amf"), bI64(c, "ran"), bI64(c, "pdu"))
	case "GetPathSwitchRequest":
		return tglib.GetPathSwitchRequest(bI64(c, "amf"), bI64(c, "ran"))
	case "GetHandoverRequired":
		return tglib.GetHandoverRequired(bI64(c, "amf"), bI64(c, "ran"), bBytes(c, "tgnb"), bBytes(c, "tcell"))
	case "GetHandoverRequestAcknowledge":
		return tglib.GetHandoverRequestAcknowledge(bI64(c, "amf"), bI64(c, "ran"))
	case "GetHandoverNotify":
		return tglib.GetHandoverNotify(bI64(c, "amf"), bI64(c, "ran"))
	case "GetPDUSessionResourceSetupResponseForPaging":
		return tglib.GetPDUSessionResourceSetupResponseForPaging(bI64(c, "amf"), bI64(c, "ran"), str(c, "ipv4"))
	}
	panic("harness: unknown wrapper " + str(c, "fn"))
}

func resetTestPlmn() {
	ngapTestpacket.TestPlmn.Value = aper.OctetString(append([]byte(nil), initialTestPlmn...))
}

// one wrapper call, with the value tree of the library's decoder for the bytes it returned
func runWrapperCall(c map[string]interface{}, wantValue bool) (out map[string]interface{}) {
	out = map[string]interface{}{}
	var b []byte
	var err error
	func() {
		defer func() {
			if r := recover(); r != nil {
				out["panic"] = fmt.Sprint(r)
			}
		}()
		b, err = callWrapper(c)
	}()
	if _, p := out["panic"]; p {
		return out
	}
	if err != nil {
		out["err"] = err.Error()
		return out
	}
	out["hex"] = hx(b)
	if !wantValue {
		return out
	}
	func() {
		defer func() {
			if r := recover(); r != nil {
				out["decpanic"] = fmt.Sprint(r)
			}
		}()
		pdu, derr := ngap.Decoder(exactBytes(b))
		if derr != nil {
			out["decerr"] = derr.Error()
			return
		}
		out["value"] = ngapDump(reflect.ValueOf(pdu).Elem())
	}()
	return out
}

func init() {
	lineCmds["getmsg"] = func(in map[string]interface{}) map[string]interface{} {
		resetTestPlmn()
		defer resetTestPlmn()
		wantValue := true
		if b, ok := in["value"].(bool); ok {
			wantValue = b
		}
		calls, _ := in["calls"].([]interface{})
		res := []interface{}{}
		for _, x := range calls {
			c, ok := x.(map[string]interface{})
			if !ok {
				res = append(res, map[string]interface{}{"panic": "harness: call is not an object"})
				continue
			}
			res = append(res, runWrapperCall(c, wantValue))
		}
		return map[string]interface{}{"results": res, "plmn0": hx(initialTestPlmn)}
	}
}
