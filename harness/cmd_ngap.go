package main

// ngapenc / ngapdec / ngaprt / ngapfuzz: JSON value trees <-> ngapType values by reflection.
// Tree: struct = list of all fields in order; nil pointer = null; pointer = the pointee's tree; slice = list;
// INTEGER / ENUMERATED = decimal string; BOOLEAN = true/false; BIT STRING = {"hex","nbits"}; OCTET STRING and
// PrintableString = {"hex"}.  Root "NGAPPDU" goes through ngap.Encoder / ngap.Decoder, every other root through
// aper.MarshalWithParams / UnmarshalWithParams with the parameter string of the repository ("valueExt").

import (
	"encoding/hex"
	"fmt"
	"reflect"
	"runtime"
	"strconv"
	"time"

	"free5gclib/aper"
	"free5gclib/ngap"
	"free5gclib/ngap/ngapType"
)

var ngapRoots = ngapRootTypes()

func ngapFill(v reflect.Value, j interface{}) error {
	t := v.Type()
	hexOf := func(j interface{}) ([]byte, error) {
		m, ok := j.(map[string]interface{})
		if !ok {
			return nil, fmt.Errorf("expected {hex} for %s", t)
		}
		s, _ := m["hex"].(string)
		b, err := hex.DecodeString(s)
		return exactBytes(b), err
	}
	switch {
	case t == aper.BitStringType:
		b, err := hexOf(j)
		if err != nil {
			return err
		}
		v.Field(0).SetBytes(b)
		m := j.(map[string]interface{})
		switch n := m["nbits"].(type) {
		case float64:
			v.Field(1).SetUint(uint64(n))
		case string:
			u, _ := strconv.ParseUint(n, 10, 64)
			v.Field(1).SetUint(u)
		}
		return nil
	case t == aper.OctetStringType || t == aper.ObjectIdentifierType:
		b, err := hexOf(j)
		if err != nil {
			return err
		}
		v.SetBytes(b)
		return nil
	case t == aper.EnumeratedType:
		s, _ := j.(string)
		n, err := strconv.ParseUint(s, 10, 64)
		v.SetUint(n)
		return err
	}
	switch t.Kind() {
	case reflect.Bool:
		b, _ := j.(bool)
		v.SetBool(b)
	case reflect.Int, reflect.Int32, reflect.Int64:
		s, _ := j.(string)
		n, err := strconv.ParseInt(s, 10, 64)
		if err != nil {
			return err
		}
		v.SetInt(n)
	case reflect.String:
		b, err := hexOf(j)
		if err != nil {
			return err
		}
		v.SetString(string(b))
	case reflect.Ptr:
		if j == nil {
			return nil
		}
		p := reflect.New(t.Elem())
		if err := ngapFill(p.Elem(), j); err != nil {
			return err
		}
		v.Set(p)
	case reflect.Slice:
		if j == nil {
			return nil
		}
		l, ok := j.([]interface{})
		if !ok {
			return fmt.Errorf("expected list for %s", t)
		}
		s := reflect.MakeSlice(t, len(l), len(l))
		for i := range l {
			if err := ngapFill(s.Index(i), l[i]); err != nil {
				return err
			}
		}
		v.Set(s)
	case reflect.Struct:
		l, ok := j.([]interface{})
		if !ok || len(l) != t.NumField() {
			return fmt.Errorf("field count mismatch for %s", t)
		}
		for i := range l {
			if err := ngapFill(v.Field(i), l[i]); err != nil {
				return err
			}
		}
	default:
		return fmt.Errorf("unsupported %s", t)
	}
	return nil
}

func ngapDump(v reflect.Value) interface{} {
	t := v.Type()
	switch {
	case t == aper.BitStringType:
		return map[string]interface{}{"hex": hex.EncodeToString(v.Field(0).Bytes()), "nbits": strconv.FormatUint(v.Field(1).Uint(), 10)}
	case t == aper.OctetStringType || t == aper.ObjectIdentifierType:
		return map[string]interface{}{"hex": hex.EncodeToString(v.Bytes())}
	case t == aper.EnumeratedType:
		return strconv.FormatUint(v.Uint(), 10)
	}
	switch t.Kind() {
	case reflect.Bool:
		return v.Bool()
	case reflect.Int, reflect.Int32, reflect.Int64:
		return strconv.FormatInt(v.Int(), 10)
	case reflect.String:
		return map[string]interface{}{"hex": hex.EncodeToString([]byte(v.String()))}
	case reflect.Ptr:
		if v.IsNil() {
			return nil
		}
		return ngapDump(v.Elem())
	case reflect.Slice:
		l := []interface{}{}
		for i := 0; i < v.Len(); i++ {
			l = append(l, ngapDump(v.Index(i)))
		}
		return l
	case reflect.Struct:
		l := []interface{}{}
		for i := 0; i < v.NumField(); i++ {
			l = append(l, ngapDump(v.Field(i)))
		}
		return l
	}
	return "?"
}

func ngapRootParams(in map[string]interface{}) string {
	if p, ok := in["params"].(string); ok {
		return p
	}
	return "valueExt"
}

// encode the value held in the addressable struct value v (of a root type)
func ngapEncodeRoot(root string, v reflect.Value, in map[string]interface{}) ([]byte, error) {
	if root == "NGAPPDU" {
		if _, ok := in["params"]; !ok {
			return ngap.Encoder(v.Interface().(ngapType.NGAPPDU))
		}
	}
	return aper.MarshalWithParams(v.Interface(), ngapRootParams(in))
}

func ngapDecodeRoot(root string, b []byte, in map[string]interface{}) (reflect.Value, error) {
	if root == "NGAPPDU" {
		if _, ok := in["params"]; !ok {
			pdu, err := ngap.Decoder(b)
			return reflect.ValueOf(pdu).Elem(), err
		}
	}
	t := ngapRoots[root]
	p := reflect.New(t)
	err := aper.UnmarshalWithParams(b, p.Interface(), ngapRootParams(in))
	return p.Elem(), err
}

func ngapRootOf(in map[string]interface{}) (string, reflect.Type) {
	root := str(in, "root")
	if root == "" {
		root = "NGAPPDU"
	}
	t, ok := ngapRoots[root]
	if !ok {
		panic("harness: unknown root " + root)
	}
	return root, t
}

type fuzzResult struct {
	r     string
	msg   string
	val   interface{}
	alloc uint64
	ns    int64
}

func init() {
	lineCmds["ngapenc"] = func(in map[string]interface{}) map[string]interface{} {
		root, t := ngapRootOf(in)
		v := reflect.New(t).Elem()
		if err := ngapFill(v, in["value"]); err != nil {
			return map[string]interface{}{"harness_error": err.Error()}
		}
		b, err := ngapEncodeRoot(root, v, in)
		if err != nil {
			return map[string]interface{}{"err": err.Error()}
		}
		out := map[string]interface{}{"enc": hx(b)}
		retain(out, "ngapenc", b)
		return out
	}
	lineCmds["ngapdec"] = func(in map[string]interface{}) map[string]interface{} {
		root, _ := ngapRootOf(in)
		inb := exactBytes(unhex(in, "hex"))
		v, err := ngapDecodeRoot(root, inb, in)
		if err != nil {
			return map[string]interface{}{"err": err.Error()}
		}
		out := map[string]interface{}{"value": ngapDump(v)}
		if hx(inb) != str(in, "hex") {
			out["input_after"] = hx(inb) // a decoder reads its input: the caller's buffer must come back unchanged
		}
		if b, ok := in["re"].(bool); ok && b {
			func() {
				defer func() {
					if r := recover(); r != nil {
						out["repanic"] = fmt.Sprint(r)
					}
				}()
				if b2, err2 := ngapEncodeRoot(root, v, in); err2 != nil {
					out["reerr"] = err2.Error()
				} else {
					out["re"] = hx(b2)
				}
			}()
		}
		return out
	}
	// ngaprt: encode the given value, decode the bytes, dump the decoded value, encode it again
	lineCmds["ngaprt"] = func(in map[string]interface{}) map[string]interface{} {
		root, t := ngapRootOf(in)
		v := reflect.New(t).Elem()
		if err := ngapFill(v, in["value"]); err != nil {
			return map[string]interface{}{"harness_error": err.Error()}
		}
		b, err := ngapEncodeRoot(root, v, in)
		if err != nil {
			return map[string]interface{}{"err": err.Error()}
		}
		out := map[string]interface{}{"enc": hx(b)}
		func() {
			defer func() {
				if r := recover(); r != nil {
					out["decpanic"] = fmt.Sprint(r)
				}
			}()
			d, err := ngapDecodeRoot(root, exactBytes(b), in)
			if err != nil {
				out["decerr"] = err.Error()
				return
			}
			out["value"] = ngapDump(d)
			if b2, err2 := ngapEncodeRoot(root, d, in); err2 != nil {
				out["reerr"] = err2.Error()
			} else {
				out["re"] = hx(b2)
			}
		}()
		return out
	}
	// ngapfuzz: C14 observable of one decoding call: value|err|panic|timeout, allocation, time
	lineCmds["ngapfuzz"] = func(in map[string]interface{}) map[string]interface{} {
		root, _ := ngapRootOf(in)
		b := exactBytes(unhex(in, "hex"))
		limit := time.Duration(num(in, "timeout_ms")) * time.Millisecond
		if limit <= 0 {
			limit = 2 * time.Second
		}
		ch := make(chan fuzzResult, 1)
		go func() {
			var res fuzzResult
			var m0, m1 runtime.MemStats
			runtime.ReadMemStats(&m0)
			t0 := time.Now()
			func() {
				defer func() {
					if r := recover(); r != nil {
						res.r, res.msg = "panic", fmt.Sprint(r)
					}
				}()
				v, err := ngapDecodeRoot(root, b, in)
				if err != nil {
					res.r, res.msg = "err", err.Error()
				} else {
					res.r = "ok"
					if w, ok := in["value"].(bool); ok && w {
						res.val = ngapDump(v)
					}
				}
			}()
			res.ns = time.Since(t0).Nanoseconds()
			runtime.ReadMemStats(&m1)
			res.alloc = m1.TotalAlloc - m0.TotalAlloc
			ch <- res
		}()
		select {
		case res := <-ch:
			out := map[string]interface{}{"r": res.r, "alloc": res.alloc, "ns": res.ns}
			if res.msg != "" {
				out["msg"] = res.msg
			}
			if res.val != nil {
				out["value"] = res.val
			}
			return out
		case <-time.After(limit):
			return map[string]interface{}{"r": "timeout", "alloc": 0, "ns": limit.Nanoseconds()}
		}
	}
}
