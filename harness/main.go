// Command verifharness runs UPM-RSTI/STGUTG code on inputs given as JSON lines and prints one
// canonical JSON line per case.  Sub-commands register themselves in init() (one file each).
// It is built against /repo's current working tree (replace directives in go.mod), tag verif.
package main

import (
	"bufio"
	"encoding/hex"
	"encoding/json"
	"fmt"
	"os"
	"sort"
)

// a line-oriented sub-command: one JSON object in, one JSON object out
type lineCmd func(in map[string]interface{}) map[string]interface{}

// a free-form sub-command (translators)
type rawCmd func(args []string) int

var lineCmds = map[string]lineCmd{}
var rawCmds = map[string]rawCmd{}

func guard(f lineCmd, in map[string]interface{}) (out map[string]interface{}) {
	defer func() {
		if r := recover(); r != nil {
			out = map[string]interface{}{"panic": fmt.Sprint(r)}
		}
	}()
	return f(in)
}

func main() {
	if len(os.Args) < 2 {
		names := []string{}
		for k := range lineCmds {
			names = append(names, k)
		}
		for k := range rawCmds {
			names = append(names, k)
		}
		sort.Strings(names)
		fmt.Fprintln(os.Stderr, "sub-commands:", names)
		os.Exit(2)
	}
	if f, ok := rawCmds[os.Args[1]]; ok {
		os.Exit(f(os.Args[2:]))
	}
	f, ok := lineCmds[os.Args[1]]
	if !ok {
		fmt.Fprintln(os.Stderr, "unknown sub-command", os.Args[1])
		os.Exit(2)
	}
	// keep the library's chatter (fmt.Println in the code under test) away from our protocol
	realOut := os.Stdout
	devnull, _ := os.OpenFile(os.DevNull, os.O_WRONLY, 0)
	os.Stdout = devnull
	w := bufio.NewWriterSize(realOut, 1<<20)
	defer w.Flush()
	sc := bufio.NewScanner(os.Stdin)
	sc.Buffer(make([]byte, 1<<20), 1<<28)
	enc := json.NewEncoder(w)
	for sc.Scan() {
		var in map[string]interface{}
		if err := json.Unmarshal(sc.Bytes(), &in); err != nil {
			enc.Encode(map[string]interface{}{"harness_error": err.Error()})
			continue
		}
		enc.Encode(guard(f, in))
		w.Flush() // one answer per case on the pipe at once: when the code under test ends the process, the answers so far say during which case
	}
}

// ---- helpers for sub-commands
func str(in map[string]interface{}, k string) string {
	if v, ok := in[k].(string); ok {
		return v
	}
	return ""
}
func num(in map[string]interface{}, k string) int64 {
	switch v := in[k].(type) {
	case float64:
		return int64(v)
	case string:
		var x int64
		fmt.Sscan(v, &x)
		return x
	}
	return 0
}
func unhex(in map[string]interface{}, k string) []byte {
	b, err := hex.DecodeString(str(in, k))
	if err != nil {
		panic("bad hex in " + k)
	}
	return b
}
func hx(b []byte) string { return hex.EncodeToString(b) }

// retain keeps the byte slice a function under test returned and gives back (as hex) the slice kept by the previous call
// under the same name AS IT IS NOW: a result handed to the caller must not change when the function is called again
// ("" for the first call).  The slice itself is kept, not a copy.
var retained = map[string][]byte{}
var retainedSeen = map[string]bool{}

func retain(out map[string]interface{}, name string, b []byte) {
	if retainedSeen[name] {
		out["prev_now"] = hx(retained[name])
	}
	retained[name], retainedSeen[name] = b, true
}
func errs(err error) interface{} {
	if err == nil {
		return nil
	}
	return err.Error()
}
