package main

// nasrt / nasdec / nasctor: the real free5gclib NAS codec on generic messages.
//
// Generic message (same form in and out):
//   {"kind":"Gmm"|"Gsm", "hdr":"<hex of GmmHeader.Octet / GsmHeader.Octet>", "struct":"<nasMessage struct>",
//    "fields":[{"name":"<embedded nasType field>","present":bool,"iei":n,"len":n,"body":"<hex of Octet|Buffer>"}...]}
// The Go value is built and read back field by field with reflect (Iei, Len, Octet, Buffer); nothing of the
// message layout is known here.
//
// nasrt   {msg}            -> enc (PlainNasEncode), dec (PlainNasDecode of enc, dumped), reenc (PlainNasEncode of dec)
// nasdec  {"hex":..}       -> dec, reenc
// nasctor {"name":..,args} -> bytes of the nasTestpacket constructor the emulator calls

import (
	"tglib"
	"fmt"
	"reflect"

	"free5gclib/nas"
	"free5gclib/nas/nasTestpacket"
	"free5gclib/nas/nasType"
	"free5gclib/openapi/models"
)

func nasSetIE(v reflect.Value, f map[string]interface{}) {
	if x := v.FieldByName("Iei"); x.IsValid() {
		x.SetUint(uint64(num(f, "iei")))
	} else if num(f, "iei") != 0 {
		panic("harness: iei given for a type without Iei")
	}
	if x := v.FieldByName("Len"); x.IsValid() {
		x.SetUint(uint64(num(f, "len")))
	} else if num(f, "len") != 0 {
		panic("harness: len given for a type without Len")
	}
	body := unhex(f, "body")
	if x := v.FieldByName("Octet"); x.IsValid() {
		switch x.Kind() {
		case reflect.Uint8:
			if len(body) != 1 {
				panic("harness: Octet uint8 needs one octet")
			}
			x.SetUint(uint64(body[0]))
		case reflect.Array:
			if len(body) != x.Len() {
				panic(fmt.Sprintf("harness: Octet [%d]uint8 given %d octets", x.Len(), len(body)))
			}
			for i := range body {
				x.Index(i).SetUint(uint64(body[i]))
			}
		default:
			panic("harness: unexpected Octet kind")
		}
	} else if x := v.FieldByName("Buffer"); x.IsValid() {
		if b, ok := f["nilbuf"].(bool); ok && b && len(body) == 0 {
			return
		}
		c := make([]byte, len(body), len(body))
		copy(c, body)
		x.SetBytes(c)
	} else if len(body) != 0 {
		panic("harness: body given for a type without Octet/Buffer")
	}
}

func nasDumpIE(name string, v reflect.Value, present bool) map[string]interface{} {
	out := map[string]interface{}{"name": name, "present": present, "iei": 0, "len": 0, "body": ""}
	if !present {
		return out
	}
	if x := v.FieldByName("Iei"); x.IsValid() {
		out["iei"] = x.Uint()
	}
	if x := v.FieldByName("Len"); x.IsValid() {
		out["len"] = x.Uint()
	}
	if x := v.FieldByName("Octet"); x.IsValid() {
		if x.Kind() == reflect.Uint8 {
			out["body"] = hx([]byte{byte(x.Uint())})
		} else {
			b := make([]byte, x.Len())
			for i := range b {
				b[i] = byte(x.Index(i).Uint())
			}
			out["body"] = hx(b)
		}
	} else if x := v.FieldByName("Buffer"); x.IsValid() {
		out["body"] = hx(x.Bytes())
	}
	return out
}

// part = *nas.GmmMessage or *nas.GsmMessage (non-nil)
func nasBuild(in map[string]interface{}) *nas.Message {
	m := nas.NewMessage()
	var part reflect.Value
	switch str(in, "kind") {
	case "Gmm":
		m.GmmMessage = nas.NewGmmMessage()
		part = reflect.ValueOf(m.GmmMessage).Elem()
	case "Gsm":
		m.GsmMessage = nas.NewGsmMessage()
		part = reflect.ValueOf(m.GsmMessage).Elem()
	default:
		return m
	}
	hdr := unhex(in, "hdr")
	ho := part.Field(0).FieldByName("Octet")
	if len(hdr) != ho.Len() {
		panic("harness: header length")
	}
	for i := range hdr {
		ho.Index(i).SetUint(uint64(hdr[i]))
	}
	sf := part.FieldByName(str(in, "struct"))
	if !sf.IsValid() || sf.Kind() != reflect.Ptr {
		panic("harness: no such message struct " + str(in, "struct"))
	}
	sv := reflect.New(sf.Type().Elem())
	sf.Set(sv)
	fields, _ := in["fields"].([]interface{})
	for _, fi := range fields {
		f := fi.(map[string]interface{})
		fv := sv.Elem().FieldByName(str(f, "name"))
		if !fv.IsValid() {
			panic("harness: no such field " + str(f, "name"))
		}
		present, _ := f["present"].(bool)
		if fv.Kind() == reflect.Ptr {
			if !present {
				continue
			}
			p := reflect.New(fv.Type().Elem())
			fv.Set(p)
			nasSetIE(p.Elem(), f)
		} else {
			if !present {
				panic("harness: mandatory field cannot be absent")
			}
			nasSetIE(fv, f)
		}
	}
	return m
}

func nasDump(m *nas.Message) map[string]interface{} {
	out := map[string]interface{}{}
	var part reflect.Value
	switch {
	case m.GmmMessage != nil && m.GsmMessage != nil:
		out["kind"] = "both"
		return out
	case m.GmmMessage != nil:
		out["kind"] = "Gmm"
		part = reflect.ValueOf(m.GmmMessage).Elem()
	case m.GsmMessage != nil:
		out["kind"] = "Gsm"
		part = reflect.ValueOf(m.GsmMessage).Elem()
	default:
		out["kind"] = "none"
		return out
	}
	ho := part.Field(0).FieldByName("Octet")
	hb := make([]byte, ho.Len())
	for i := range hb {
		hb[i] = byte(ho.Index(i).Uint())
	}
	out["hdr"] = hx(hb)
	structs := []string{}
	for i := 1; i < part.NumField(); i++ {
		if part.Field(i).Kind() == reflect.Ptr && !part.Field(i).IsNil() {
			structs = append(structs, part.Type().Field(i).Name)
			if len(structs) == 1 {
				sv := part.Field(i).Elem()
				fs := []interface{}{}
				for j := 0; j < sv.NumField(); j++ {
					fv := sv.Field(j)
					name := sv.Type().Field(j).Name
					if fv.Kind() == reflect.Ptr {
						if fv.IsNil() {
							fs = append(fs, nasDumpIE(name, fv, false))
						} else {
							fs = append(fs, nasDumpIE(name, fv.Elem(), true))
						}
					} else {
						fs = append(fs, nasDumpIE(name, fv, true))
					}
				}
				out["fields"] = fs
			}
		}
	}
	if len(structs) == 1 {
		out["struct"] = structs[0]
	} else {
		out["struct"] = fmt.Sprint(structs)
	}
	return out
}

// run f, reporting a panic under key+"_panic"
func nasStage(out map[string]interface{}, key string, f func()) (ok bool) {
	defer func() {
		if r := recover(); r != nil {
			out[key+"_panic"] = fmt.Sprint(r)
			ok = false
		}
	}()
	f()
	return true
}

func nasDecodeStages(out map[string]interface{}, b []byte) {
	m2 := nas.NewMessage()
	var derr error
	if !nasStage(out, "dec", func() { c := append([]byte{}, b...); derr = m2.PlainNasDecode(&c) }) {
		return
	}
	if derr != nil {
		out["dec_err"] = derr.Error()
		return
	}
	out["dec"] = nasDump(m2)
	nasStage(out, "reenc", func() {
		b2, err := m2.PlainNasEncode()
		if err != nil {
			out["reenc_err"] = err.Error()
		} else {
			out["reenc"] = hx(b2)
		}
	})
}

func init() {
	lineCmds["nasrt"] = func(in map[string]interface{}) map[string]interface{} {
		out := map[string]interface{}{}
		m := nasBuild(in)
		var b []byte
		var err error
		if !nasStage(out, "enc", func() { b, err = m.PlainNasEncode() }) {
			return out
		}
		if err != nil {
			out["enc_err"] = err.Error()
			return out
		}
		out["enc"] = hx(b)
		retain(out, "nasrt", b)
		nasDecodeStages(out, b)
		return out
	}
	lineCmds["nasdec"] = func(in map[string]interface{}) map[string]interface{} {
		out := map[string]interface{}{}
		nasDecodeStages(out, unhex(in, "hex"))
		return out
	}
	lineCmds["nasctor"] = func(in map[string]interface{}) map[string]interface{} {
		u8 := func(k string) uint8 { return uint8(num(in, k)) }
		snssai := func() *models.Snssai {
			if _, ok := in["sst"]; !ok {
				return nil
			}
			return &models.Snssai{Sst: int32(num(in, "sst")), Sd: str(in, "sd")}
		}
		mobid := func() nasType.MobileIdentity5GS {
			b := unhex(in, "mobid")
			return nasType.MobileIdentity5GS{Len: uint16(len(b)), Buffer: b}
		}
		optbytes := func(k string) []byte {
			if _, ok := in[k].(string); !ok {
				return nil
			}
			return unhex(in, k)
		}
		var b []byte
		switch str(in, "name") {
		case "GetRegistrationRequest":
			var cap5gmm *nasType.Capability5GMM
			if c := optbytes("cap5gmm"); c != nil {
				cap5gmm = &nasType.Capability5GMM{Iei: u8("cap5gmm_iei"), Len: uint8(len(c))}
				copy(cap5gmm.Octet[:], c)
			}
			var seccap *nasType.UESecurityCapability
			if c := optbytes("seccap"); c != nil {
				seccap = &nasType.UESecurityCapability{Iei: u8("seccap_iei"), Len: uint8(len(c)), Buffer: c}
			}
			b = nasTestpacket.GetRegistrationRequest(u8("regtype"), mobid(), nil, seccap, cap5gmm, optbytes("container"), nil)
		case "GetAuthenticationResponse":
			if e := str(in, "eap_b64"); e != "" {
				b = nasTestpacket.GetAuthenticationResponse(nil, e) // the EAP variant: base64 text of the EAP packet
			} else {
				b = nasTestpacket.GetAuthenticationResponse(unhex(in, "res"), "")
			}
		case "GetSecurityModeComplete":
			b = nasTestpacket.GetSecurityModeComplete(optbytes("container"))
		case "GetRegistrationComplete":
			b = nasTestpacket.GetRegistrationComplete(optbytes("sor"))
		case "GetPduSessionEstablishmentRequest":
			b = nasTestpacket.GetPduSessionEstablishmentRequest(u8("psi"))
		case "GetPduSessionModificationRequest":
			b = nasTestpacket.GetPduSessionModificationRequest(u8("psi"))
		case "GetPduSessionReleaseRequest":
			b = nasTestpacket.GetPduSessionReleaseRequest(u8("psi"))
		case "GetPduSessionReleaseComplete":
			b = nasTestpacket.GetPduSessionReleaseComplete(u8("psi"))
		case "GetUlNasTransport_PduSessionEstablishmentRequest":
			b = nasTestpacket.GetUlNasTransport_PduSessionEstablishmentRequest(u8("psi"), u8("reqtype"), str(in, "dnn"), snssai())
		case "GetUlNasTransport_PduSessionModificationRequest":
			b = nasTestpacket.GetUlNasTransport_PduSessionModificationRequest(u8("psi"), u8("reqtype"), str(in, "dnn"), snssai())
		case "GetUlNasTransport_PduSessionReleaseRequest":
			b = nasTestpacket.GetUlNasTransport_PduSessionReleaseRequest(u8("psi"))
		case "GetUlNasTransport_PduSessionReleaseComplete":
			b = nasTestpacket.GetUlNasTransport_PduSessionReleaseComplete(u8("psi"), u8("reqtype"), str(in, "dnn"), snssai())
		case "GetServiceRequest":
			b = nasTestpacket.GetServiceRequest(u8("servicetype"))
		case "GetDeregistrationRequest":
			b = nasTestpacket.GetDeregistrationRequest(u8("access"), u8("switchoff"), u8("ngksi"), mobid())
		default:
			panic("harness: unknown constructor " + str(in, "name"))
		}
		if str(in, "name") == "GetRegistrationRequest" {
			// as RegisterUE sends it: through tglib.EncodeNasPduWithSecurity without a security context (decode + plain re-encode)
			ue := tglib.NewRanUeContext("imsi-208930000000003", 1, 0, 2)
			if b2, err := tglib.EncodeNasPduWithSecurity(ue, b, nas.SecurityHeaderTypePlainNas, false, false); err == nil {
				b = b2
				// ... and another UE prepares its own message the same way before this one is used (main() prepares and
				// sends per UE, a caller holding two prepared messages is just as legitimate)
				ue2 := tglib.NewRanUeContext("imsi-208930000000004", 2, 0, 2)
				tglib.EncodeNasPduWithSecurity(ue2, nasTestpacket.GetRegistrationComplete([]byte{1, 2, 3, 4, 5, 6, 7, 8, 9, 10, 11, 12, 13, 14, 15, 16, 17}), nas.SecurityHeaderTypePlainNas, false, false)
			} else {
				return map[string]interface{}{"bytes": "", "err": err.Error()}
			}
		}
		out := map[string]interface{}{"bytes": hx(b)}
		retain(out, "nasctor", b) // the message built by the previous call must still read the same after this one
		return out
	}
}
