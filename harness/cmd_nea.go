package main

import (
	"crypto/aes"
	"crypto/cipher"
	"encoding/binary"

	"free5gclib/nas/security"

	"github.com/aead/cmac"
)

// nea: {alg, key(hex,16), count, bearer, dir, msg(hex) [, nil:true] [, dirty:true]} -> {out} | {err}
//      calls the real security.NASEncrypt on a copy of msg (the function ciphers in place).
// nia: same input -> {mac} | {err}        calls security.NASMacCalculate.
// nea1raw / nia1raw: the exported NEA1 / NIA1 with an explicit bit length ("length").
// "dirty": before the call under test an unrelated NEA1 and NIA1 computation is run, so that the
// package-level SNOW 3G registers (snow3g.lfsr / snow3g.fsm) hold somebody else's state.

func neaKey(in map[string]interface{}) (k [16]byte) {
	b := unhex(in, "key")
	if len(b) != 16 {
		panic("harness: key must be 16 octets")
	}
	copy(k[:], b)
	return
}

func neaMsg(in map[string]interface{}) []byte {
	if v, ok := in["nil"].(bool); ok && v {
		return nil
	}
	b := unhex(in, "msg")
	c := make([]byte, len(b)) // non-nil even when empty
	copy(c, b)
	return c
}

func neaDirty(in map[string]interface{}) {
	if v, ok := in["dirty"].(bool); ok && v {
		var k [16]byte
		for i := range k {
			k[i] = byte(0xa5 ^ i*17)
		}
		junk := []byte{0xde, 0xad, 0xbe, 0xef, 0x01, 0x02, 0x03, 0x04, 0x05, 0x06, 0x07}
		_ = security.NASEncrypt(security.AlgCiphering128NEA1, k, 0x12345678, 7, 1, junk)
		_, _ = security.NASMacCalculate(security.AlgIntegrity128NIA1, k, 0x9abcdef0, 3, 0, junk)
	}
}

func init() {
	lineCmds["nea"] = func(in map[string]interface{}) map[string]interface{} {
		key := neaKey(in)
		msg := neaMsg(in)
		neaDirty(in)
		err := security.NASEncrypt(uint8(num(in, "alg")), key, uint32(num(in, "count")), uint8(num(in, "bearer")), uint8(num(in, "dir")), msg)
		if err != nil {
			return map[string]interface{}{"err": err.Error()}
		}
		return map[string]interface{}{"out": hx(msg)}
	}
	// kssearch: {alg, key, bearer, dir, want (hex), from, tries} -> {count} | {none:true}: the first COUNT >= from whose keystream
	// begins with the octets `want` (a search aid only: finds inputs on which a ciphertext has a chosen prefix; no verdict is
	// drawn from it)
	lineCmds["kssearch"] = func(in map[string]interface{}) map[string]interface{} {
		key := neaKey(in)
		want := unhex(in, "want")
		from, tries := uint32(num(in, "from")), int(num(in, "tries"))
		for i := 0; i < tries; i++ {
			msg := make([]byte, len(want))
			c := from + uint32(i)
			if err := security.NASEncrypt(uint8(num(in, "alg")), key, c, uint8(num(in, "bearer")), uint8(num(in, "dir")), msg); err != nil {
				return map[string]interface{}{"err": err.Error()}
			}
			if hx(msg) == hx(want) {
				return map[string]interface{}{"count": float64(c)}
			}
		}
		return map[string]interface{}{"none": true}
	}
	// manykeys: {n, seed} -> n different 128-bit keys used one after the other in ONE process under NEA2 and NIA2 (as many UE
	// contexts, or re-authentications, do). Each result is compared with AES-CTR / AES-CMAC from the Go standard library and
	// aead/cmac computed directly from that call's own key, COUNT, BEARER, DIRECTION: a result may depend on nothing else,
	// in particular not on which keys were used before. Returns the first call that differs.
	lineCmds["manykeys"] = func(in map[string]interface{}) map[string]interface{} {
		n := int(num(in, "n"))
		x := uint64(num(in, "seed"))*0x9E3779B97F4A7C15 + 1
		next := func() uint64 {
			x += 0x9E3779B97F4A7C15
			z := x
			z = (z ^ (z >> 30)) * 0xBF58476D1CE4E5B9
			z = (z ^ (z >> 27)) * 0x94D049BB133111EB
			return z ^ (z >> 31)
		}
		for i := 0; i < n; i++ {
			var key [16]byte
			binary.BigEndian.PutUint64(key[0:8], next())
			binary.BigEndian.PutUint64(key[8:16], next())
			count, bearer, dir := uint32(next()), uint8(next()%32), uint8(next()%2)
			msg := make([]byte, 16+i%5)
			for j := range msg {
				msg[j] = byte(next())
			}
			// reference: TS 33.401 B.1.3 / B.2.3
			iv := make([]byte, 16)
			binary.BigEndian.PutUint32(iv[0:4], count)
			iv[4] = bearer<<3 | dir<<2
			blk, _ := aes.NewCipher(key[:])
			want := make([]byte, len(msg))
			cipher.NewCTR(blk, iv).XORKeyStream(want, msg)
			hdr := append(append([]byte{}, iv[:8]...), msg...)
			wmac, _ := cmac.Sum(hdr, blk, 16)
			got := append([]byte{}, msg...)
			if err := security.NASEncrypt(security.AlgCiphering128NEA2, key, count, bearer, dir, got); err != nil || hx(got) != hx(want) {
				return map[string]interface{}{"first_bad": i, "what": "NEA2", "key": hx(key[:]), "count": count, "bearer": bearer, "dir": dir, "msg": hx(msg), "got": hx(got), "want": hx(want), "err": errs(err)}
			}
			mac, err := security.NASMacCalculate(security.AlgIntegrity128NIA2, key, count, bearer, dir, append([]byte{}, msg...))
			if err != nil || hx(mac) != hx(wmac[:4]) {
				return map[string]interface{}{"first_bad": i, "what": "NIA2", "key": hx(key[:]), "count": count, "bearer": bearer, "dir": dir, "msg": hx(msg), "got": hx(mac), "want": hx(wmac[:4]), "err": errs(err)}
			}
		}
		return map[string]interface{}{"first_bad": -1, "calls": 2 * n}
	}
	lineCmds["nia"] = func(in map[string]interface{}) map[string]interface{} {
		key := neaKey(in)
		msg := neaMsg(in)
		neaDirty(in)
		mac, err := security.NASMacCalculate(uint8(num(in, "alg")), key, uint32(num(in, "count")), uint8(num(in, "bearer")), uint8(num(in, "dir")), msg)
		if err != nil {
			return map[string]interface{}{"err": err.Error()}
		}
		out := map[string]interface{}{"mac": hx(mac), "nilmac": mac == nil}
		retain(out, "nia", mac)
		return out
	}
	lineCmds["nea1raw"] = func(in map[string]interface{}) map[string]interface{} {
		key := neaKey(in)
		msg := neaMsg(in)
		neaDirty(in)
		out, err := security.NEA1(key, uint32(num(in, "count")), uint32(num(in, "bearer")), uint32(num(in, "dir")), msg, uint32(num(in, "length")))
		if err != nil {
			return map[string]interface{}{"err": err.Error()}
		}
		return map[string]interface{}{"out": hx(out)}
	}
	lineCmds["nia1raw"] = func(in map[string]interface{}) map[string]interface{} {
		key := neaKey(in)
		msg := neaMsg(in)
		neaDirty(in)
		mac, err := security.NIA1(key, uint32(num(in, "count")), uint8(num(in, "bearer")), uint32(num(in, "dir")), msg, uint64(num(in, "length")))
		if err != nil {
			return map[string]interface{}{"err": err.Error()}
		}
		return map[string]interface{}{"mac": hx(mac)}
	}
}
