package main

import (
	"free5gclib/nas/security"
)

// nea: {alg, key(hex,16), count, bearer, dir, msg(hex) [, nil:true] [, dirty:true]} -> {out} | {err}
//      calls the real security.NASEncrypt on a copy of msg (the function ciphers in place).
// nia: same input -> {mac} | {err}        calls security.NASMacCalculate.
// nea1raw / nia1raw: the exported NEA1 / NIA1 with an explicit bit length ("length").
// "dirty": before the call under test an unrelated NEA1 and NIA1 computation is run, so that the
// package-level SNOW 3G registers (snow3g.lfsr / snow3g.fsm) hold somebody else's state.

func neaKey(in map[string]interface{}) (k [16]byte) {
	b := unhex(in, "key")
	if len(b) != 16 {
		panic("harness: key must be 16 octets")
	}
	copy(k[:], b)
	return
}

func neaMsg(in map[string]interface{}) []byte {
	if v, ok := in["nil"].(bool); ok && v {
		return nil
	}
	b := unhex(in, "msg")
	c := make([]byte, len(b)) // non-nil even when empty
	copy(c, b)
	return c
}

func neaDirty(in map[string]interface{}) {
	if v, ok := in["dirty"].(bool); ok && v {
		var k [16]byte
		for i := range k {
			k[i] = byte(0xa5 ^ i*17)
		}
		junk := []byte{0xde, 0xad, 0xbe, 0xef, 0x01, 0x02, 0x03, 0x04, 0x05, 0x06, 0x07}
		_ = security.NASEncrypt(security.AlgCiphering128NEA1, k, 0x12345678, 7, 1, junk)
		_, _ = security.NASMacCalculate(security.AlgIntegrity128NIA1, k, 0x9abcdef0, 3, 0, junk)
	}
}

func init() {
	lineCmds["nea"] = func(in map[string]interface{}) map[string]interface{} {
		key := neaKey(in)
		msg := neaMsg(in)
		neaDirty(in)
		err := security.NASEncrypt(uint8(num(in, "alg")), key, uint32(num(in, "count")), uint8(num(in, "bearer")), uint8(num(in, "dir")), msg)
		if err != nil {
			return map[string]interface{}{"err": err.Error()}
		}
		return map[string]interface{}{"out": hx(msg)}
	}
	// kssearch: {alg, key, bearer, dir, want (hex), from, tries} -> {count} | {none:true}: the first COUNT >= from whose keystream
	// begins with the octets `want` (a search aid only: finds inputs on which a ciphertext has a chosen prefix; no verdict is
	// drawn from it)
	lineCmds["kssearch"] = func(in map[string]interface{}) map[string]interface{} {
		key := neaKey(in)
		want := unhex(in, "want")
		from, tries := uint32(num(in, "from")), int(num(in, "tries"))
		for i := 0; i < tries; i++ {
			msg := make([]byte, len(want))
			c := from + uint32(i)
			if err := security.NASEncrypt(uint8(num(in, "alg")), key, c, uint8(num(in, "bearer")), uint8(num(in, "dir")), msg); err != nil {
				return map[string]interface{}{"err": err.Error()}
			}
			if hx(msg) == hx(want) {
				return map[string]interface{}{"count": float64(c)}
			}
		}
		return map[string]interface{}{"none": true}
	}
	lineCmds["nia"] = func(in map[string]interface{}) map[string]interface{} {
		key := neaKey(in)
		msg := neaMsg(in)
		neaDirty(in)
		mac, err := security.NASMacCalculate(uint8(num(in, "alg")), key, uint32(num(in, "count")), uint8(num(in, "bearer")), uint8(num(in, "dir")), msg)
		if err != nil {
			return map[string]interface{}{"err": err.Error()}
		}
		out := map[string]interface{}{"mac": hx(mac), "nilmac": mac == nil}
		retain(out, "nia", mac)
		return out
	}
	lineCmds["nea1raw"] = func(in map[string]interface{}) map[string]interface{} {
		key := neaKey(in)
		msg := neaMsg(in)
		neaDirty(in)
		out, err := security.NEA1(key, uint32(num(in, "count")), uint32(num(in, "bearer")), uint32(num(in, "dir")), msg, uint32(num(in, "length")))
		if err != nil {
			return map[string]interface{}{"err": err.Error()}
		}
		return map[string]interface{}{"out": hx(out)}
	}
	lineCmds["nia1raw"] = func(in map[string]interface{}) map[string]interface{} {
		key := neaKey(in)
		msg := neaMsg(in)
		neaDirty(in)
		mac, err := security.NIA1(key, uint32(num(in, "count")), uint8(num(in, "bearer")), uint32(num(in, "dir")), msg, uint64(num(in, "length")))
		if err != nil {
			return map[string]interface{}{"err": err.Error()}
		}
		return map[string]interface{}{"mac": hx(mac)}
	}
}
