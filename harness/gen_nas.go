package main

// gen-nas: translator  src/free5gclib/nas/{nas.go, nasMessage/NAS_*.go, nasType/NAS_*.go}  ->  coq/Gen/NasDesc.v
//
// go/ast only.  Every Encode*/Decode* method of package nasMessage is mapped, statement by statement and in
// source order, to a descriptor (Model/NasCodec.v: msg_desc).  Recognised statement shapes:
//   binary.Write(buffer, binary.BigEndian, ARG)   ARG in  &a.X.Octet | &a.X.Buffer | a.X.GetIei() | a.X.GetLen()
//                                                        | a.X.Octet[:a.X.GetLen()] | a.X.Buffer[:a.X.GetLen()]
//   if a.X != nil { ...writes on X... }
//   buffer := bytes.NewBuffer(*byteArray)
//   binary.Read(buffer, binary.BigEndian, ARG)    ARG in  &a.X.Octet | &a.X.Buffer | &a.X.Len
//                                                        | a.X.Octet[:a.X.GetLen()] | a.X.Buffer[:a.X.GetLen()]
//   a.X.SetLen(a.X.GetLen())
//   the IEI loop  for buffer.Len() > 0 { var ieiN uint8; var tmpIeiN uint8; binary.Read(.., &ieiN);
//                 if ieiN >= K { tmpIeiN = (ieiN & 0xf0) >> 4 } else { tmpIeiN = ieiN }; switch tmpIeiN { case C: ...; default: } }
//   in a case:    a.X = nasType.NewX(ieiN) | a.X.Octet = ieiN | reads / SetLen as above
// Pure logging calls (`logger.…(...)`, `fmt.Print…(...)`) are skipped: that is the ONLY whitelist.
// Every other statement is emitted as WUnrec/RUnrec "<source text>" (or in d_odd), which no well-formedness
// check accepts and on which the interpreters return an error.
// From nasType: per IE type the fields (Iei, Len uint8|uint16, Octet uint8|[N]uint8, Buffer []uint8) and the
// bodies of New*/GetIei/SetIei/GetLen/SetLen, which must have their regular one-line shapes.
// From nas.go: the four dispatch switches, the EPD switch, header sizes and message-type offsets, constants.
//
// Usage: harness gen-nas [coq|json] [repo-root]

import (
	"bytes"
	"encoding/json"
	"fmt"
	"go/ast"
	"go/parser"
	"go/printer"
	"go/token"
	"os"
	"path/filepath"
	"regexp"
	"sort"
	"strconv"
	"strings"
)

type nasTypeInfo struct {
	Name         string   `json:"name"`
	HasIei       bool     `json:"has_iei"`
	LenW         int      `json:"lenw"`
	Body         string   `json:"body"` // octet | array | buffer | none
	N            int      `json:"n"`
	SetLenAllocs bool     `json:"setlen_allocs"`
	New          string   `json:"new"` // plain | iei | nibble | none
	Odd          []string `json:"odd"`
	setIei       string
	newCalls     bool
	hasNew       bool
}

type nasField struct {
	Name     string `json:"name"`
	Type     string `json:"type"`
	Optional bool   `json:"optional"`
}

type nasGroup struct {
	Field   string   `json:"field"`
	Guarded bool     `json:"guarded"`
	Ops     []string `json:"ops"` // op name or "U:<src>"
}

type nasCase struct {
	ConstName string   `json:"const_name"`
	Const     int64    `json:"const"`
	Field     string   `json:"field"`
	Ops       []string `json:"ops"`
}

type nasMsg struct {
	Name      string     `json:"name"`
	EncFunc   string     `json:"enc_func"`
	DecFunc   string     `json:"dec_func"`
	Fields    []nasField `json:"fields"`
	Enc       []nasGroup `json:"enc"`
	DecMand   []nasGroup `json:"dec_mand"`
	Loop      string     `json:"loop"` // none | std | "U:<src>"
	Threshold int64      `json:"threshold"`
	Cases     []nasCase  `json:"cases"`
	Odd       []string   `json:"odd"`
}

type nasDispatch struct {
	Header    string     `json:"header"`
	HeaderLen int        `json:"header_len"`
	TypeIndex int        `json:"type_index"`
	Decode    [][]string `json:"decode"` // const name, value, new struct, decode func
	Encode    [][]string `json:"encode"` // const name, value, encode func
	Odd       []string   `json:"odd"`
}

type nasOut struct {
	Types     []*nasTypeInfo      `json:"types"`
	Msgs      []*nasMsg           `json:"msgs"`
	Gmm       nasDispatch         `json:"gmm"`
	Gsm       nasDispatch         `json:"gsm"`
	EpdDecode [][]string          `json:"epd_decode"` // const name, value, Gmm|Gsm
	EncOrder  []string            `json:"enc_order"`
	PlainOdd  []string            `json:"plain_odd"`
	Consts    map[string]int64    `json:"consts"`
	typeIdx   map[string]*nasTypeInfo
}

var nasFset = token.NewFileSet()

func nasSrc(n ast.Node) string {
	var b bytes.Buffer
	printer.Fprint(&b, nasFset, n)
	return strings.Join(strings.Fields(b.String()), " ")
}

var nasReField = regexp.MustCompile(`^(&?)a\.([A-Za-z0-9_]+)\.(.*)$`)

// classify the data argument of binary.Write / binary.Read
func nasArg(arg string, write bool) (field, op string) {
	m := nasReField.FindStringSubmatch(arg)
	if m == nil {
		return "", "U:" + arg
	}
	amp, f, rest := m[1] == "&", m[2], m[3]
	switch {
	case amp && (rest == "Octet" || rest == "Buffer"):
		return f, "Body:" + rest
	case amp && rest == "Len" && !write:
		return f, "LenField"
	case !amp && rest == "GetIei()" && write:
		return f, "Iei"
	case !amp && rest == "GetLen()" && write:
		return f, "Len"
	case !amp && rest == "Octet[:a."+f+".GetLen()]":
		return f, "BodyUptoLen:Octet"
	case !amp && rest == "Buffer[:a."+f+".GetLen()]":
		return f, "BodyUptoLen:Buffer"
	}
	return f, "U:" + arg
}

func nasIsLogging(st ast.Stmt) bool {
	es, ok := st.(*ast.ExprStmt)
	if !ok {
		return false
	}
	call, ok := es.X.(*ast.CallExpr)
	if !ok {
		return false
	}
	fn := nasSrc(call.Fun)
	return strings.HasPrefix(fn, "logger.") || strings.HasPrefix(fn, "fmt.Print")
}

func nasCall(st ast.Stmt) (*ast.CallExpr, string) {
	es, ok := st.(*ast.ExprStmt)
	if !ok {
		return nil, ""
	}
	call, ok := es.X.(*ast.CallExpr)
	if !ok {
		return nil, ""
	}
	return call, nasSrc(call.Fun)
}

// one statement of an Encode function body (possibly inside an `if a.X != nil`)
func nasWriteStmt(st ast.Stmt) (field, op string) {
	call, fn := nasCall(st)
	if call == nil || fn != "binary.Write" || len(call.Args) != 3 || nasSrc(call.Args[0]) != "buffer" || nasSrc(call.Args[1]) != "binary.BigEndian" {
		return "", "U:" + nasSrc(st)
	}
	return nasArg(nasSrc(call.Args[2]), true)
}

var nasReSetLen = regexp.MustCompile(`^a\.([A-Za-z0-9_]+)\.SetLen$`)

func nasReadStmt(st ast.Stmt) (field, op string) {
	if as, ok := st.(*ast.AssignStmt); ok && len(as.Lhs) == 1 && len(as.Rhs) == 1 && as.Tok == token.ASSIGN {
		l, r := nasSrc(as.Lhs[0]), nasSrc(as.Rhs[0])
		if m := regexp.MustCompile(`^a\.([A-Za-z0-9_]+)$`).FindStringSubmatch(l); m != nil && r == "nasType.New"+m[1]+"(ieiN)" {
			return m[1], "New"
		}
		if m := regexp.MustCompile(`^a\.([A-Za-z0-9_]+)\.Octet$`).FindStringSubmatch(l); m != nil && r == "ieiN" {
			return m[1], "OctetIsIei"
		}
		return "", "U:" + nasSrc(st)
	}
	call, fn := nasCall(st)
	if call == nil {
		return "", "U:" + nasSrc(st)
	}
	if fn == "binary.Read" && len(call.Args) == 3 && nasSrc(call.Args[0]) == "buffer" && nasSrc(call.Args[1]) == "binary.BigEndian" {
		return nasArg(nasSrc(call.Args[2]), false)
	}
	if m := nasReSetLen.FindStringSubmatch(fn); m != nil && len(call.Args) == 1 && nasSrc(call.Args[0]) == "a."+m[1]+".GetLen()" {
		return m[1], "SetLen"
	}
	return "", "U:" + nasSrc(st)
}

func nasAppend(gs []nasGroup, field, op string) []nasGroup {
	if n := len(gs); n > 0 && !gs[n-1].Guarded && gs[n-1].Field == field && field != "" {
		gs[n-1].Ops = append(gs[n-1].Ops, op)
		return gs
	}
	return append(gs, nasGroup{Field: field, Ops: []string{op}})
}

func nasParseDir(dir string) ([]*ast.File, error) {
	noTest := func(fi os.FileInfo) bool { return !strings.HasSuffix(fi.Name(), "_test.go") }
	pk, err := parser.ParseDir(nasFset, dir, noTest, 0)
	if err != nil {
		return nil, err
	}
	var names []string
	files := map[string]*ast.File{}
	for _, p := range pk {
		for fn, f := range p.Files {
			names = append(names, fn)
			files[fn] = f
		}
	}
	sort.Strings(names)
	var out []*ast.File
	for _, n := range names {
		out = append(out, files[n])
	}
	return out, nil
}

func nasRecvName(fd *ast.FuncDecl) string {
	if fd.Recv == nil || len(fd.Recv.List) != 1 {
		return ""
	}
	return strings.TrimPrefix(nasSrc(fd.Recv.List[0].Type), "*")
}

func nasBodyOneLine(fd *ast.FuncDecl) string {
	var parts []string
	for _, s := range fd.Body.List {
		parts = append(parts, nasSrc(s))
	}
	return strings.Join(parts, "; ")
}

func nasCollectConsts(files []*ast.File, consts map[string]int64) {
	for _, f := range files {
		for _, d := range f.Decls {
			gd, ok := d.(*ast.GenDecl)
			if !ok || gd.Tok != token.CONST {
				continue
			}
			for _, s := range gd.Specs {
				vs := s.(*ast.ValueSpec)
				if len(vs.Values) != len(vs.Names) {
					continue // iota-style declarations are not used for the constants we need
				}
				for i, nm := range vs.Names {
					if bl, ok := vs.Values[i].(*ast.BasicLit); ok && bl.Kind == token.INT {
						if v, err := strconv.ParseInt(strings.ReplaceAll(bl.Value, "_", ""), 0, 64); err == nil {
							consts[nm.Name] = v
						}
					}
				}
			}
		}
	}
}

func nasTypes(dir string, out *nasOut) error {
	files, err := nasParseDir(dir)
	if err != nil {
		return err
	}
	types := map[string]*nasTypeInfo{}
	get := func(n string) *nasTypeInfo {
		if types[n] == nil {
			types[n] = &nasTypeInfo{Name: n, Body: "none", New: "none"}
		}
		return types[n]
	}
	for _, f := range files {
		for _, d := range f.Decls {
			gd, ok := d.(*ast.GenDecl)
			if !ok || gd.Tok != token.TYPE {
				continue
			}
			for _, s := range gd.Specs {
				ts := s.(*ast.TypeSpec)
				st, ok := ts.Type.(*ast.StructType)
				if !ok {
					continue
				}
				ti := get(ts.Name.Name)
				for _, fl := range st.Fields.List {
					ty := nasSrc(fl.Type)
					if len(fl.Names) == 0 {
						ti.Odd = append(ti.Odd, "embedded field "+ty)
					}
					for _, nm := range fl.Names {
						switch {
						case nm.Name == "Iei" && ty == "uint8":
							ti.HasIei = true
						case nm.Name == "Len" && ty == "uint8":
							ti.LenW = 1
						case nm.Name == "Len" && ty == "uint16":
							ti.LenW = 2
						case nm.Name == "Octet" && ty == "uint8" && ti.Body == "none":
							ti.Body = "octet"
						case nm.Name == "Octet" && strings.HasPrefix(ty, "[") && strings.HasSuffix(ty, "]uint8") && ti.Body == "none":
							n, err := strconv.Atoi(ty[1 : len(ty)-6])
							if err != nil {
								ti.Odd = append(ti.Odd, "field "+nm.Name+" "+ty)
							} else {
								ti.Body, ti.N = "array", n
							}
						case nm.Name == "Buffer" && ty == "[]uint8" && ti.Body == "none":
							ti.Body = "buffer"
						default:
							ti.Odd = append(ti.Odd, "field "+nm.Name+" "+ty)
						}
					}
				}
			}
		}
	}
	for _, f := range files {
		for _, d := range f.Decls {
			fd, ok := d.(*ast.FuncDecl)
			if !ok || fd.Body == nil {
				continue
			}
			body := nasBodyOneLine(fd)
			if fd.Recv == nil {
				if strings.HasPrefix(fd.Name.Name, "New") && types[strings.TrimPrefix(fd.Name.Name, "New")] != nil {
					tn := strings.TrimPrefix(fd.Name.Name, "New")
					ti := types[tn]
					ti.hasNew = true
					if len(fd.Type.Params.List) > 1 || (len(fd.Type.Params.List) == 1 && len(fd.Type.Params.List[0].Names) != 1) || fd.Type.Results == nil || len(fd.Type.Results.List) != 1 || len(fd.Type.Results.List[0].Names) != 1 {
						ti.Odd = append(ti.Odd, fd.Name.Name+": signature")
						continue
					}
					p, r := "<no parameter>", fd.Type.Results.List[0].Names[0].Name
					if len(fd.Type.Params.List) == 1 {
						p = fd.Type.Params.List[0].Names[0].Name
					}
					switch body {
					case r + " = &" + tn + "{}; " + r + ".SetIei(" + p + "); return " + r:
						ti.newCalls = true
					case r + " = &" + tn + "{}; return " + r:
					default:
						ti.Odd = append(ti.Odd, fd.Name.Name+": "+body)
					}
				}
				continue
			}
			ti := types[nasRecvName(fd)]
			if ti == nil {
				continue
			}
			switch fd.Name.Name {
			case "GetIei":
				if ti.HasIei && body != "return a.Iei" {
					ti.Odd = append(ti.Odd, "GetIei: "+body)
				}
			case "SetIei":
				switch {
				case body == "a.Iei = iei" && ti.HasIei:
					ti.setIei = "iei"
				case body == "a.Octet = (a.Octet & 15) + ((iei & 15) << 4)" && ti.Body == "octet" && !ti.HasIei:
					ti.setIei = "nibble"
				default:
					ti.Odd = append(ti.Odd, "SetIei: "+body)
				}
			case "GetLen":
				if body != "return a.Len" || ti.LenW == 0 {
					ti.Odd = append(ti.Odd, "GetLen: "+body)
				}
			case "SetLen":
				switch {
				case body == "a.Len = len" && ti.LenW != 0:
				case body == "a.Len = len; a.Buffer = make([]uint8, a.Len)" && ti.LenW != 0 && ti.Body == "buffer":
					ti.SetLenAllocs = true
				default:
					ti.Odd = append(ti.Odd, "SetLen: "+body)
				}
			}
		}
	}
	var names []string
	for n, ti := range types {
		names = append(names, n)
		switch {
		case !ti.hasNew:
			ti.New = "none"
		case !ti.newCalls:
			ti.New = "plain"
		case ti.setIei == "":
			ti.New = "none"
			ti.Odd = append(ti.Odd, "New"+n+" calls a SetIei that is not understood")
		default:
			ti.New = ti.setIei
		}
	}
	sort.Strings(names)
	out.typeIdx = types
	for _, n := range names {
		out.Types = append(out.Types, types[n])
	}
	return nil
}

func nasMessages(dir string, out *nasOut) error {
	files, err := nasParseDir(dir)
	if err != nil {
		return err
	}
	nasCollectConsts(files, out.Consts)
	msgs := map[string]*nasMsg{}
	for _, f := range files {
		for _, d := range f.Decls {
			gd, ok := d.(*ast.GenDecl)
			if !ok || gd.Tok != token.TYPE {
				continue
			}
			for _, s := range gd.Specs {
				ts := s.(*ast.TypeSpec)
				st, ok := ts.Type.(*ast.StructType)
				if !ok {
					continue
				}
				m := &nasMsg{Name: ts.Name.Name, Loop: "none"}
				msgs[m.Name] = m
				for _, fl := range st.Fields.List {
					ty := nasSrc(fl.Type)
					opt := strings.HasPrefix(ty, "*")
					tn := strings.TrimPrefix(strings.TrimPrefix(ty, "*"), "nasType.")
					if len(fl.Names) != 0 || !strings.HasPrefix(strings.TrimPrefix(ty, "*"), "nasType.") || out.typeIdx[tn] == nil {
						m.Odd = append(m.Odd, "struct field "+nasSrc(fl))
						continue
					}
					m.Fields = append(m.Fields, nasField{Name: tn, Type: tn, Optional: opt})
				}
			}
		}
	}
	for _, f := range files {
		for _, d := range f.Decls {
			fd, ok := d.(*ast.FuncDecl)
			if !ok || fd.Body == nil || fd.Recv == nil {
				continue
			}
			m := msgs[nasRecvName(fd)]
			if m == nil {
				continue
			}
			switch {
			case strings.HasPrefix(fd.Name.Name, "Encode"):
				if m.EncFunc != "" {
					m.Odd = append(m.Odd, "second Encode method "+fd.Name.Name)
					continue
				}
				m.EncFunc = fd.Name.Name
				if len(fd.Recv.List[0].Names) != 1 || fd.Recv.List[0].Names[0].Name != "a" || nasSrc(fd.Type) != "func(buffer *bytes.Buffer)" {
					m.Odd = append(m.Odd, "Encode signature "+nasSrc(fd.Type))
				}
				nasEncodeBody(m, fd.Body.List)
			case strings.HasPrefix(fd.Name.Name, "Decode"):
				if m.DecFunc != "" {
					m.Odd = append(m.Odd, "second Decode method "+fd.Name.Name)
					continue
				}
				m.DecFunc = fd.Name.Name
				if len(fd.Recv.List[0].Names) != 1 || fd.Recv.List[0].Names[0].Name != "a" || nasSrc(fd.Type) != "func(byteArray *[]byte)" {
					m.Odd = append(m.Odd, "Decode signature "+nasSrc(fd.Type))
				}
				nasDecodeBody(m, fd.Body.List, out.Consts)
			}
		}
	}
	var names []string
	for n, m := range msgs {
		if m.EncFunc != "" || m.DecFunc != "" {
			names = append(names, n)
		}
	}
	sort.Strings(names)
	for _, n := range names {
		out.Msgs = append(out.Msgs, msgs[n])
	}
	return nil
}

func nasEncodeBody(m *nasMsg, stmts []ast.Stmt) {
	for _, st := range stmts {
		if nasIsLogging(st) {
			continue
		}
		if is, ok := st.(*ast.IfStmt); ok {
			mm := regexp.MustCompile(`^a\.([A-Za-z0-9_]+) != nil$`).FindStringSubmatch(nasSrc(is.Cond))
			if mm == nil || is.Else != nil || is.Init != nil {
				m.Enc = append(m.Enc, nasGroup{Ops: []string{"U:" + nasSrc(st)}})
				continue
			}
			g := nasGroup{Field: mm[1], Guarded: true, Ops: []string{}}
			for _, b := range is.Body.List {
				if nasIsLogging(b) {
					continue
				}
				f, op := nasWriteStmt(b)
				if f != g.Field && !strings.HasPrefix(op, "U:") {
					op = "U:" + nasSrc(b)
				}
				g.Ops = append(g.Ops, op)
			}
			m.Enc = append(m.Enc, g)
			continue
		}
		f, op := nasWriteStmt(st)
		m.Enc = nasAppend(m.Enc, f, op)
	}
}

func nasDecodeBody(m *nasMsg, stmts []ast.Stmt, consts map[string]int64) {
	if len(stmts) == 0 || nasSrc(stmts[0]) != "buffer := bytes.NewBuffer(*byteArray)" {
		m.Odd = append(m.Odd, "Decode does not start with buffer := bytes.NewBuffer(*byteArray)")
	} else {
		stmts = stmts[1:]
	}
	for i, st := range stmts {
		if nasIsLogging(st) {
			continue
		}
		if fs, ok := st.(*ast.ForStmt); ok {
			if i != len(stmts)-1 || m.Loop != "none" {
				m.Loop = "U:IEI loop is not the last statement"
				continue
			}
			nasLoop(m, fs, consts)
			continue
		}
		f, op := nasReadStmt(st)
		if op == "New" || op == "OctetIsIei" {
			op = "U:" + nasSrc(st)
		}
		m.DecMand = nasAppend(m.DecMand, f, op)
	}
}

var nasReThreshold = regexp.MustCompile(`^if ieiN >= (0x[0-9a-fA-F]+|[0-9]+) \{ tmpIeiN = \(ieiN & 0xf0\) >> 4 \} else \{ tmpIeiN = ieiN \}$`)

func nasLoop(m *nasMsg, fs *ast.ForStmt, consts map[string]int64) {
	bad := func(why string) { m.Loop = "U:" + why }
	if fs.Init != nil || fs.Post != nil || fs.Cond == nil || nasSrc(fs.Cond) != "buffer.Len() > 0" {
		bad("for header: " + nasSrc(fs.Cond))
		return
	}
	b := fs.Body.List
	if len(b) != 5 || nasSrc(b[0]) != "var ieiN uint8" || nasSrc(b[1]) != "var tmpIeiN uint8" ||
		nasSrc(b[2]) != "binary.Read(buffer, binary.BigEndian, &ieiN)" {
		bad("loop prologue")
		return
	}
	th := nasReThreshold.FindStringSubmatch(nasSrc(b[3]))
	if th == nil {
		bad("nibble rule: " + nasSrc(b[3]))
		return
	}
	m.Threshold, _ = strconv.ParseInt(th[1], 0, 64)
	sw, ok := b[4].(*ast.SwitchStmt)
	if !ok || sw.Init != nil || sw.Tag == nil || nasSrc(sw.Tag) != "tmpIeiN" {
		bad("switch: " + nasSrc(b[4]))
		return
	}
	m.Loop = "std"
	for _, cc := range sw.Body.List {
		cl := cc.(*ast.CaseClause)
		if cl.List == nil {
			if len(cl.Body) != 0 {
				bad("default clause is not empty")
			}
			continue
		}
		for _, ce := range cl.List {
			c := nasCase{ConstName: nasSrc(ce), Const: -1, Ops: []string{}}
			if id, ok := ce.(*ast.Ident); ok {
				if v, ok := consts[id.Name]; ok {
					c.Const = v
				}
			} else if bl, ok := ce.(*ast.BasicLit); ok && bl.Kind == token.INT {
				c.Const, _ = strconv.ParseInt(bl.Value, 0, 64)
			}
			for _, st := range cl.Body {
				if nasIsLogging(st) {
					continue
				}
				f, op := nasReadStmt(st)
				if c.Field == "" && f != "" {
					c.Field = f
				}
				if f != c.Field && !strings.HasPrefix(op, "U:") {
					op = "U:" + nasSrc(st)
				}
				c.Ops = append(c.Ops, op)
			}
			if c.Const < 0 {
				c.Ops = append([]string{"U:case constant " + c.ConstName + " has no known value"}, c.Ops...)
				c.Const = 0
			}
			m.Cases = append(m.Cases, c)
		}
	}
}

// ---- nas.go: dispatch switches
func nasDispatchTables(path string, out *nasOut) error {
	f, err := parser.ParseFile(nasFset, path, nil, 0)
	if err != nil {
		return err
	}
	nasCollectConsts([]*ast.File{f}, out.Consts)
	hdr := map[string]*nasDispatch{"Gmm": &out.Gmm, "Gsm": &out.Gsm}
	out.Gmm.Header, out.Gsm.Header = "Gmm", "Gsm"
	out.Gmm.TypeIndex, out.Gsm.TypeIndex = -1, -1
	for _, d := range f.Decls {
		switch dd := d.(type) {
		case *ast.GenDecl:
			if dd.Tok != token.TYPE {
				continue
			}
			for _, s := range dd.Specs {
				ts := s.(*ast.TypeSpec)
				for k, h := range hdr {
					if ts.Name.Name == k+"Header" {
						src := nasSrc(ts.Type)
						mm := regexp.MustCompile(`^struct \{ Octet \[([0-9]+)\]uint8 \}$`).FindStringSubmatch(src)
						if mm == nil {
							h.Odd = append(h.Odd, "header type: "+src)
						} else {
							h.HeaderLen, _ = strconv.Atoi(mm[1])
						}
					}
				}
			}
		case *ast.FuncDecl:
			if dd.Body == nil {
				continue
			}
			recv := nasRecvName(dd)
			body := nasBodyOneLine(dd)
			for k, h := range hdr {
				if recv == k+"Header" && dd.Name.Name == "GetMessageType" {
					mm := regexp.MustCompile(`^messageType = a\.Octet\[([0-9]+)\]; return messageType$`).FindStringSubmatch(body)
					if mm == nil {
						h.Odd = append(h.Odd, "GetMessageType: "+body)
					} else {
						h.TypeIndex, _ = strconv.Atoi(mm[1])
					}
				}
				if recv == "Message" && dd.Name.Name == k+"MessageDecode" {
					nasDecodeDispatch(k, h, dd, out.Consts)
				}
				if recv == "Message" && dd.Name.Name == k+"MessageEncode" {
					nasEncodeDispatch(k, h, dd, out.Consts)
				}
			}
			if recv == "" && dd.Name.Name == "GetEPD" && body != "return byteArray[0]" {
				out.PlainOdd = append(out.PlainOdd, "GetEPD: "+body)
			}
			if recv == "Message" && dd.Name.Name == "PlainNasDecode" {
				nasPlainDecode(dd, out)
			}
			if recv == "Message" && dd.Name.Name == "PlainNasEncode" {
				want := "data := new(bytes.Buffer); if a.GmmMessage != nil { err := a.GmmMessageEncode(data) return data.Bytes(), err } else if a.GsmMessage != nil { err := a.GsmMessageEncode(data) return data.Bytes(), err }; return nil, fmt.Errorf(\"Gmm/Gsm Message are both empty in Nas Message Encode\")"
				if body == want {
					out.EncOrder = []string{"Gmm", "Gsm"}
				} else {
					out.PlainOdd = append(out.PlainOdd, "PlainNasEncode: "+body)
				}
			}
		}
	}
	return nil
}

func nasConstOf(e ast.Expr, consts map[string]int64) (string, int64, bool) {
	n := nasSrc(e)
	if id, ok := e.(*ast.Ident); ok {
		v, ok := consts[id.Name]
		return n, v, ok
	}
	if se, ok := e.(*ast.SelectorExpr); ok {
		v, ok := consts[se.Sel.Name]
		return n, v, ok
	}
	if bl, ok := e.(*ast.BasicLit); ok && bl.Kind == token.INT {
		v, err := strconv.ParseInt(bl.Value, 0, 64)
		return n, v, err == nil
	}
	return n, 0, false
}

func nasPlainDecode(fd *ast.FuncDecl, out *nasOut) {
	b := fd.Body.List
	if len(b) != 3 || nasSrc(b[0]) != "epd := GetEPD(*byteArray)" || !strings.HasPrefix(nasSrc(b[2]), "return fmt.Errorf(") {
		out.PlainOdd = append(out.PlainOdd, "PlainNasDecode: "+nasBodyOneLine(fd))
		return
	}
	sw, ok := b[1].(*ast.SwitchStmt)
	if !ok || sw.Tag == nil || nasSrc(sw.Tag) != "epd" {
		out.PlainOdd = append(out.PlainOdd, "PlainNasDecode switch: "+nasSrc(b[1]))
		return
	}
	for _, cc := range sw.Body.List {
		cl := cc.(*ast.CaseClause)
		if cl.List == nil || len(cl.List) != 1 || len(cl.Body) != 1 {
			out.PlainOdd = append(out.PlainOdd, "PlainNasDecode clause: "+nasSrc(cl))
			continue
		}
		cn, v, ok := nasConstOf(cl.List[0], out.Consts)
		mm := regexp.MustCompile(`^return a\.(Gmm|Gsm)MessageDecode\(byteArray\)$`).FindStringSubmatch(nasSrc(cl.Body[0]))
		if !ok || mm == nil {
			out.PlainOdd = append(out.PlainOdd, "PlainNasDecode clause: "+nasSrc(cl))
			continue
		}
		out.EpdDecode = append(out.EpdDecode, []string{cn, strconv.FormatInt(v, 10), mm[1]})
	}
}

func nasDecodeDispatch(k string, h *nasDispatch, fd *ast.FuncDecl, consts map[string]int64) {
	b := fd.Body.List
	pre := []string{"buffer := bytes.NewBuffer(*byteArray)", "a." + k + "Message = New" + k + "Message()",
		"binary.Read(buffer, binary.BigEndian, &a." + k + "Message." + k + "Header)"}
	if len(b) != 5 || nasSrc(b[0]) != pre[0] || nasSrc(b[1]) != pre[1] || nasSrc(b[2]) != pre[2] || nasSrc(b[4]) != "return nil" {
		h.Odd = append(h.Odd, k+"MessageDecode: prologue/epilogue")
		return
	}
	sw, ok := b[3].(*ast.SwitchStmt)
	if !ok || sw.Tag == nil || nasSrc(sw.Tag) != "a."+k+"Message."+k+"Header.GetMessageType()" {
		h.Odd = append(h.Odd, k+"MessageDecode: switch")
		return
	}
	for _, cc := range sw.Body.List {
		cl := cc.(*ast.CaseClause)
		if cl.List == nil {
			if len(cl.Body) != 1 || !strings.HasPrefix(nasSrc(cl.Body[0]), "return fmt.Errorf(") {
				h.Odd = append(h.Odd, k+"MessageDecode default: "+nasSrc(cl))
			}
			continue
		}
		okc := len(cl.List) == 1 && len(cl.Body) == 2
		var cn string
		var v int64
		var mm, m2 []string
		if okc {
			var okv bool
			cn, v, okv = nasConstOf(cl.List[0], consts)
			mm = regexp.MustCompile(`^a\.` + k + `Message\.([A-Za-z0-9_]+) = nasMessage\.New([A-Za-z0-9_]+)\(([A-Za-z0-9_]+)\)$`).FindStringSubmatch(nasSrc(cl.Body[0]))
			m2 = regexp.MustCompile(`^a\.` + k + `Message\.(Decode[A-Za-z0-9_]+)\(byteArray\)$`).FindStringSubmatch(nasSrc(cl.Body[1]))
			okc = okv && mm != nil && m2 != nil && mm[1] == mm[2]
		}
		if !okc {
			h.Odd = append(h.Odd, k+"MessageDecode clause: "+nasSrc(cl))
			continue
		}
		h.Decode = append(h.Decode, []string{cn, strconv.FormatInt(v, 10), mm[1], m2[1]})
	}
	hasDefault := false
	for _, cc := range sw.Body.List {
		if cc.(*ast.CaseClause).List == nil {
			hasDefault = true
		}
	}
	if !hasDefault {
		h.Odd = append(h.Odd, k+"MessageDecode: no default clause (unknown types would be accepted)")
	}
}

func nasEncodeDispatch(k string, h *nasDispatch, fd *ast.FuncDecl, consts map[string]int64) {
	b := fd.Body.List
	if len(b) != 2 || nasSrc(b[1]) != "return nil" {
		h.Odd = append(h.Odd, k+"MessageEncode: shape")
		return
	}
	sw, ok := b[0].(*ast.SwitchStmt)
	if !ok || sw.Tag == nil || nasSrc(sw.Tag) != "a."+k+"Message."+k+"Header.GetMessageType()" {
		h.Odd = append(h.Odd, k+"MessageEncode: switch")
		return
	}
	hasDefault := false
	for _, cc := range sw.Body.List {
		cl := cc.(*ast.CaseClause)
		if cl.List == nil {
			hasDefault = true
			if len(cl.Body) != 1 || !strings.HasPrefix(nasSrc(cl.Body[0]), "return fmt.Errorf(") {
				h.Odd = append(h.Odd, k+"MessageEncode default: "+nasSrc(cl))
			}
			continue
		}
		okc := len(cl.List) == 1 && len(cl.Body) == 1
		var cn string
		var v int64
		var mm []string
		if okc {
			var okv bool
			cn, v, okv = nasConstOf(cl.List[0], consts)
			mm = regexp.MustCompile(`^a\.` + k + `Message\.(Encode[A-Za-z0-9_]+)\(buffer\)$`).FindStringSubmatch(nasSrc(cl.Body[0]))
			okc = okv && mm != nil
		}
		if !okc {
			h.Odd = append(h.Odd, k+"MessageEncode clause: "+nasSrc(cl))
			continue
		}
		h.Encode = append(h.Encode, []string{cn, strconv.FormatInt(v, 10), mm[1]})
	}
	if !hasDefault {
		h.Odd = append(h.Odd, k+"MessageEncode: no default clause")
	}
}

// ---- Coq printer
func nasQ(s string) string { return "\"" + strings.ReplaceAll(s, "\"", "\"\"") + "\"" }

func nasStrList(xs []string) string {
	q := make([]string, len(xs))
	for i, x := range xs {
		q[i] = nasQ(x)
	}
	return "[" + strings.Join(q, "; ") + "]"
}

func nasOps(ops []string, write bool) string {
	out := []string{}
	for _, op := range ops {
		p := "R"
		if write {
			p = "W"
		}
		switch {
		case strings.HasPrefix(op, "U:"):
			out = append(out, p+"Unrec "+nasQ(op[2:]))
		case strings.HasPrefix(op, "Body:"):
			out = append(out, p+"Body")
		case strings.HasPrefix(op, "BodyUptoLen:"):
			out = append(out, p+"BodyUptoLen")
		default:
			out = append(out, p+op)
		}
	}
	return "[" + strings.Join(out, "; ") + "]"
}

// the body member named in the statement must be the one the type has (a.X.Buffer on an Octet type does not compile,
// but the descriptor should not depend on that)
func nasCheckBodies(o *nasOut) {
	chk := func(m *nasMsg, field string, ops []string) {
		var ty *nasTypeInfo
		for _, f := range m.Fields {
			if f.Name == field {
				ty = o.typeIdx[f.Type]
			}
		}
		for i, op := range ops {
			if strings.HasPrefix(op, "U:") {
				continue
			}
			if ty == nil {
				ops[i] = "U:" + op + " on unknown field " + field
				continue
			}
			if j := strings.Index(op, ":"); j >= 0 {
				member := op[j+1:]
				if (member == "Buffer") != (ty.Body == "buffer") {
					ops[i] = "U:" + op + " on type with body " + ty.Body
				}
			}
		}
	}
	for _, m := range o.Msgs {
		for _, g := range m.Enc {
			chk(m, g.Field, g.Ops)
		}
		for _, g := range m.DecMand {
			chk(m, g.Field, g.Ops)
		}
		for _, c := range m.Cases {
			chk(m, c.Field, c.Ops)
		}
	}
}

func nasPrintCoq(o *nasOut) {
	p := fmt.Printf
	p("(* GENERATED by `harness gen-nas` from src/free5gclib/nas/{nas.go,nasMessage/NAS_*.go,nasType/NAS_*.go} -- do not edit.\n")
	p("   One msg_desc per nasMessage struct with an Encode*/Decode* method pair: the statements of both methods in\n")
	p("   source order; statements outside the recognised shapes appear as WUnrec/RUnrec/d_odd with their source text. *)\n")
	p("From Coq Require Import NArith List String.\nRequire Import NasCodec.\nImport ListNotations.\nOpen Scope string_scope.\nOpen Scope N_scope.\n\n")
	p("(* ---- IE types (package nasType) *)\n")
	used := map[string]bool{}
	for _, m := range o.Msgs {
		for _, f := range m.Fields {
			used[f.Type] = true
		}
	}
	for _, t := range o.Types {
		if !used[t.Name] {
			continue
		}
		body := map[string]string{"octet": "BOctet", "buffer": "BBuffer", "none": "BNone"}[t.Body]
		if t.Body == "array" {
			body = fmt.Sprintf("(BArray %d)", t.N)
		}
		nk := map[string]string{"plain": "NewPlain", "iei": "NewSetsIei", "nibble": "NewSetsHighNibble", "none": "NewAbsent"}[t.New]
		p("Definition T_%s : ie_type := mk_type %s %v %d%%nat %s %v %s %s.\n", t.Name, nasQ(t.Name), t.HasIei, t.LenW, body, t.SetLenAllocs, nk, nasStrList(t.Odd))
	}
	p("\n(* ---- constants of packages nasMessage and nas the descriptors refer to *)\n")
	refd := map[string]bool{}
	for _, m := range o.Msgs {
		for _, c := range m.Cases {
			refd[c.ConstName] = true
		}
	}
	for _, h := range []nasDispatch{o.Gmm, o.Gsm} {
		for _, r := range h.Decode {
			refd[r[0]] = true
		}
		for _, r := range h.Encode {
			refd[r[0]] = true
		}
	}
	for _, r := range o.EpdDecode {
		refd[strings.TrimPrefix(r[0], "nasMessage.")] = true
	}
	var cn []string
	for n := range refd {
		if _, ok := o.Consts[n]; ok {
			cn = append(cn, n)
		}
	}
	sort.Strings(cn)
	p("Definition nas_consts : list (string * N) := [\n")
	for i, n := range cn {
		sep := ";"
		if i == len(cn)-1 {
			sep = ""
		}
		p("  (%s, %d)%s\n", nasQ(n), o.Consts[n], sep)
	}
	p("].\n\n(* ---- messages (package nasMessage) *)\n")
	for _, m := range o.Msgs {
		p("Definition D_%s : msg_desc := {|\n  d_name := %s; d_enc_func := %s; d_dec_func := %s;\n  d_fields := [", m.Name, nasQ(m.Name), nasQ(m.EncFunc), nasQ(m.DecFunc))
		for i, f := range m.Fields {
			if i > 0 {
				p(";")
			}
			p("\n    mk_field %s T_%s %v", nasQ(f.Name), f.Type, f.Optional)
		}
		p("];\n  d_enc := [")
		for i, g := range m.Enc {
			if i > 0 {
				p(";")
			}
			p("\n    mk_eg %s %v %s", nasQ(g.Field), g.Guarded, nasOps(g.Ops, true))
		}
		p("];\n  d_dec_mand := [")
		for i, g := range m.DecMand {
			if i > 0 {
				p(";")
			}
			p("\n    mk_dg %s %s", nasQ(g.Field), nasOps(g.Ops, false))
		}
		p("];\n")
		switch {
		case m.Loop == "none":
			p("  d_loop := LoopNone;\n")
		case m.Loop == "std":
			p("  d_loop := LoopStd %d;\n", m.Threshold)
		default:
			p("  d_loop := LoopUnrec %s;\n", nasQ(strings.TrimPrefix(m.Loop, "U:")))
		}
		p("  d_cases := [")
		for i, c := range m.Cases {
			if i > 0 {
				p(";")
			}
			p("\n    mk_case %d %s %s %s", c.Const, nasQ(c.ConstName), nasQ(c.Field), nasOps(c.Ops, false))
		}
		p("];\n  d_odd := %s |}.\n\n", nasStrList(m.Odd))
	}
	p("Definition all_msg_descs : list msg_desc := [")
	for i, m := range o.Msgs {
		if i > 0 {
			p("; ")
		}
		if i%4 == 0 {
			p("\n  ")
		}
		p("D_%s", m.Name)
	}
	p("].\n\n(* ---- nas.go: dispatch *)\n")
	for _, h := range []nasDispatch{o.Gmm, o.Gsm} {
		p("Definition %s_dispatch : dispatch := {|\n  h_name := %s; h_header_len := %d%%nat; h_type_index := %d%%nat;\n  h_decode := [", strings.ToLower(h.Header), nasQ(h.Header), h.HeaderLen, max(h.TypeIndex, 0))
		for i, r := range h.Decode {
			if i > 0 {
				p(";")
			}
			p("\n    (%s, (%s, %s))", r[1], nasQ(r[2]), nasQ(r[3]))
		}
		p("];\n  h_encode := [")
		for i, r := range h.Encode {
			if i > 0 {
				p(";")
			}
			p("\n    (%s, %s)", r[1], nasQ(r[2]))
		}
		odd := h.Odd
		if h.TypeIndex < 0 {
			odd = append(odd, "GetMessageType not found")
		}
		p("];\n  h_odd := %s |}.\n\n", nasStrList(odd))
	}
	p("Definition plain_dispatch : plain_desc := {|\n  p_epd_decode := [")
	for i, r := range o.EpdDecode {
		if i > 0 {
			p("; ")
		}
		p("(%s, %s)", r[1], nasQ(r[2]))
	}
	p("];\n  p_encode_order := %s;\n  p_odd := %s |}.\n", nasStrList(o.EncOrder), nasStrList(o.PlainOdd))
}

func nasTranslate(root string) (*nasOut, error) {
	base := filepath.Join(root, "src", "free5gclib", "nas")
	o := &nasOut{Consts: map[string]int64{}}
	if err := nasTypes(filepath.Join(base, "nasType"), o); err != nil {
		return nil, err
	}
	if err := nasMessages(filepath.Join(base, "nasMessage"), o); err != nil {
		return nil, err
	}
	if err := nasDispatchTables(filepath.Join(base, "nas.go"), o); err != nil {
		return nil, err
	}
	nasCheckBodies(o)
	return o, nil
}

func init() {
	rawCmds["gen-nas"] = func(args []string) int {
		mode, root := "coq", "."
		if len(args) > 0 {
			mode = args[0]
		}
		if len(args) > 1 {
			root = args[1]
		}
		o, err := nasTranslate(root)
		if err != nil {
			fmt.Fprintln(os.Stderr, "gen-nas:", err)
			return 1
		}
		if mode == "json" {
			b, _ := json.Marshal(o)
			fmt.Println(string(b))
			return 0
		}
		nasPrintCoq(o)
		return 0
	}
}
