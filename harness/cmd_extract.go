package main

import (
	"free5gclib/aper"
	"free5gclib/ngap/ngapType"
	"fmt"
	"time"

	"stgutg"
)

// exact returns a copy whose capacity equals its length (Go slice expressions are checked against the
// capacity; the model identifies capacity and length)
func extExactCap(b []byte) []byte {
	c := make([]byte, len(b), len(b))
	copy(c, b)
	return c
}

// extWatchdog runs f in a goroutine and reports {"timeout":true} when it does not return within 2 s
func extWatchdog(f func() map[string]interface{}) map[string]interface{} {
	ch := make(chan map[string]interface{}, 1)
	go func() {
		defer func() {
			if r := recover(); r != nil {
				ch <- map[string]interface{}{"panic": fmt.Sprint(r)}
			}
		}()
		ch <- f()
	}()
	select {
	case r := <-ch:
		return r
	case <-time.After(2 * time.Second):
		return map[string]interface{}{"timeout": true}
	}
}

func init() {
	// extract_nas: {pdu} -> UE address found by DecodePDUSessionNASPDU
	lineCmds["extract_nas"] = func(in map[string]interface{}) map[string]interface{} {
		b := extExactCap(unhex(in, "pdu"))
		return extWatchdog(func() map[string]interface{} {
			ip := stgutg.DecodePDUSessionNASPDU(b)
			if ip == nil {
				return map[string]interface{}{"ip": nil}
			}
			return map[string]interface{}{"ip": hx(ip)}
		})
	}
	// extract_transfer: {transfer} -> TEID and UPF address found by DecodePDUSessionResourceSetupRequestTransfer
	lineCmds["extract_transfer"] = func(in map[string]interface{}) map[string]interface{} {
		b := extExactCap(unhex(in, "transfer"))
		return extWatchdog(func() map[string]interface{} {
			teid, ip := stgutg.DecodePDUSessionResourceSetupRequestTransfer(b)
			out := map[string]interface{}{"teid": teid, "ip": nil}
			if ip != nil {
				out["ip"] = hx(ip)
			}
			return out
		})
	}
}

func init() {
	// transfer_build: {dl, ul (aggregate bit rates, -1 = IE absent), addr, teid, pdutype (-1 absent), qfi}
	// -> PDUSessionResourceSetupRequestTransfer encoded by the library's own aper encoder (IEs in definition order)
	lineCmds["transfer_build"] = func(in map[string]interface{}) map[string]interface{} {
		var t ngapType.PDUSessionResourceSetupRequestTransfer
		add := func(id int64, crit aper.Enumerated, f func(v *ngapType.PDUSessionResourceSetupRequestTransferIEsValue)) {
			ie := ngapType.PDUSessionResourceSetupRequestTransferIEs{}
			ie.Id.Value = id
			ie.Criticality.Value = crit
			f(&ie.Value)
			t.ProtocolIEs.List = append(t.ProtocolIEs.List, ie)
		}
		if dl := num(in, "dl"); dl >= 0 {
			add(ngapType.ProtocolIEIDPDUSessionAggregateMaximumBitRate, ngapType.CriticalityPresentReject, func(v *ngapType.PDUSessionResourceSetupRequestTransferIEsValue) {
				v.Present = ngapType.PDUSessionResourceSetupRequestTransferIEsPresentPDUSessionAggregateMaximumBitRate
				v.PDUSessionAggregateMaximumBitRate = &ngapType.PDUSessionAggregateMaximumBitRate{}
				v.PDUSessionAggregateMaximumBitRate.PDUSessionAggregateMaximumBitRateDL.Value = dl
				v.PDUSessionAggregateMaximumBitRate.PDUSessionAggregateMaximumBitRateUL.Value = num(in, "ul")
			})
		}
		add(ngapType.ProtocolIEIDULNGUUPTNLInformation, ngapType.CriticalityPresentReject, func(v *ngapType.PDUSessionResourceSetupRequestTransferIEsValue) {
			v.Present = ngapType.PDUSessionResourceSetupRequestTransferIEsPresentULNGUUPTNLInformation
			v.ULNGUUPTNLInformation = &ngapType.UPTransportLayerInformation{Present: ngapType.UPTransportLayerInformationPresentGTPTunnel}
			v.ULNGUUPTNLInformation.GTPTunnel = &ngapType.GTPTunnel{}
			v.ULNGUUPTNLInformation.GTPTunnel.TransportLayerAddress.Value = aper.BitString{Bytes: unhex(in, "addr"), BitLength: 32}
			v.ULNGUUPTNLInformation.GTPTunnel.GTPTEID.Value = unhex(in, "teid")
		})
		if pt := num(in, "pdutype"); pt >= 0 {
			add(ngapType.ProtocolIEIDPDUSessionType, ngapType.CriticalityPresentReject, func(v *ngapType.PDUSessionResourceSetupRequestTransferIEsValue) {
				v.Present = ngapType.PDUSessionResourceSetupRequestTransferIEsPresentPDUSessionType
				v.PDUSessionType = &ngapType.PDUSessionType{Value: aper.Enumerated(pt)}
			})
		}
		add(ngapType.ProtocolIEIDQosFlowSetupRequestList, ngapType.CriticalityPresentReject, func(v *ngapType.PDUSessionResourceSetupRequestTransferIEsValue) {
			v.Present = ngapType.PDUSessionResourceSetupRequestTransferIEsPresentQosFlowSetupRequestList
			v.QosFlowSetupRequestList = &ngapType.QosFlowSetupRequestList{}
			item := ngapType.QosFlowSetupRequestItem{}
			item.QosFlowIdentifier.Value = num(in, "qfi")
			item.QosFlowLevelQosParameters.QosCharacteristics.Present = ngapType.QosCharacteristicsPresentNonDynamic5QI
			item.QosFlowLevelQosParameters.QosCharacteristics.NonDynamic5QI = &ngapType.NonDynamic5QIDescriptor{}
			item.QosFlowLevelQosParameters.QosCharacteristics.NonDynamic5QI.FiveQI.Value = 9
			item.QosFlowLevelQosParameters.AllocationAndRetentionPriority.PriorityLevelARP.Value = 8
			item.QosFlowLevelQosParameters.AllocationAndRetentionPriority.PreEmptionCapability.Value = ngapType.PreEmptionCapabilityPresentShallNotTriggerPreEmption
			item.QosFlowLevelQosParameters.AllocationAndRetentionPriority.PreEmptionVulnerability.Value = ngapType.PreEmptionVulnerabilityPresentNotPreEmptable
			v.QosFlowSetupRequestList.List = append(v.QosFlowSetupRequestList.List, item)
		})
		b, err := aper.MarshalWithParams(t, "valueExt")
		if err != nil {
			return map[string]interface{}{"err": err.Error()}
		}
		out := map[string]interface{}{"transfer": hx(b)}
		// and what the emulator's extractor makes of it
		r := extWatchdog(func() map[string]interface{} {
			teid, ip := stgutg.DecodePDUSessionResourceSetupRequestTransfer(extExactCap(b))
			o := map[string]interface{}{"teid": teid, "ip": nil}
			if ip != nil {
				o["ip"] = hx(ip)
			}
			return o
		})
		for k, v := range r {
			out[k] = v
		}
		return out
	}
}
