(* Decimal strings: Go's strconv.Atoi on digit strings and fmt's %0*d on non-negative integers. *)
From Coq Require Import NArith List Lia Bool.
From Coq Require Import ZifyN ZifyNat ZifyBool.
Import ListNotations.
Open Scope N_scope.

(* digits are N below 10; text is ASCII (digit + 48) *)
Definition is_digit (d:N) : bool := d <? 10.
Definition digits_ok (l:list N) : bool := forallb is_digit l.

(* value of a big-endian digit list *)
Definition undec (l:list N) : N := fold_left (fun a d => a * 10 + d) l 0.
(* value of a little-endian digit list *)
Fixpoint undec_le (l:list N) : N := match l with [] => 0 | d :: r => d + 10 * undec_le r end.

(* little-endian digits of n, minimal (one digit for 0), fuel-bounded *)
Fixpoint dec_le (fuel:nat) (n:N) : list N :=
  match fuel with
  | O => []
  | S f => if n <? 10 then [n] else (n mod 10) :: dec_le f (n / 10)
  end.
Definition dec_fuel (n:N) : nat := S (N.to_nat (N.log2 n)).
Definition dec (n:N) : list N := rev (dec_le (dec_fuel n) n).
(* %0*d with width w on a non-negative value *)
Definition pad0 (w:nat) (n:N) : list N := let d := dec n in repeat 0 (w - length d) ++ d.

Definition to_ascii (l:list N) : list N := map (N.add 48) l.
Definition of_ascii (l:list N) : list N := map (fun c => c - 48) l.
Definition ascii_digits_ok (l:list N) : bool := forallb (fun c => (48 <=? c) && (c <=? 57)) l.
