(* Small generic additions to Lib/Bytes.v used by the Milenage / KDF development (C15, C05):
   decidable equality of octet strings and lemmas about xor_bytes, rotl_list, N_to_be, be_to_N. *)
From Coq Require Import NArith ZArith List Lia Bool.
From Coq Require Import ZifyN ZifyNat ZifyBool.
Require Import Bytes.
Import ListNotations.
Open Scope N_scope.
Ltac Zify.zify_post_hook ::= Z.div_mod_to_equations.

Fixpoint bytes_eqb (a b:bytes) : bool :=
  match a, b with
  | [], [] => true
  | x::a', y::b' => (x =? y) && bytes_eqb a' b'
  | _, _ => false
  end.

Lemma bytes_eqb_eq a b : bytes_eqb a b = true <-> a = b.
Proof.
  revert b; induction a as [|x a IH]; intros [|y b]; cbn [bytes_eqb]; split; intro H; try reflexivity; try discriminate.
  - apply andb_true_iff in H. destruct H as [H1 H2]. apply N.eqb_eq in H1. apply IH in H2. subst; reflexivity.
  - inversion H; subst. rewrite N.eqb_refl. cbn. apply IH. reflexivity.
Qed.
Lemma bytes_eqb_refl a : bytes_eqb a a = true.
Proof. apply bytes_eqb_eq. reflexivity. Qed.
Lemma bytes_eqb_neq a b : bytes_eqb a b = false <-> a <> b.
Proof.
  split.
  - intros H Heq. apply bytes_eqb_eq in Heq. congruence.
  - intro H. destruct (bytes_eqb a b) eqn:Hb; [|reflexivity]. apply bytes_eqb_eq in Hb. contradiction.
Qed.

(* ---- xor_bytes *)
Lemma xor_bytes_length a b : length (xor_bytes a b) = Nat.min (length a) (length b).
Proof. revert b; induction a as [|x a IH]; intros [|y b]; cbn [xor_bytes length Nat.min]; try reflexivity. rewrite IH. reflexivity. Qed.
Lemma xor_bytes_comm a b : xor_bytes a b = xor_bytes b a.
Proof. revert b; induction a as [|x a IH]; intros [|y b]; cbn [xor_bytes]; try reflexivity. rewrite N.lxor_comm, IH. reflexivity. Qed.
(* (a xor b) xor b = a when b is at least as long as a *)
Lemma xor_bytes_cancel a b : (length a <= length b)%nat -> xor_bytes (xor_bytes a b) b = a.
Proof.
  revert b; induction a as [|x a IH]; intros [|y b] H; cbn [xor_bytes length] in *; try reflexivity; try lia.
  rewrite N.lxor_assoc, N.lxor_nilpotent, N.lxor_0_r, IH by lia. reflexivity.
Qed.
Lemma xor_bytes_app a1 a2 b1 b2 : length a1 = length b1 ->
  xor_bytes (a1 ++ a2) (b1 ++ b2) = xor_bytes a1 b1 ++ xor_bytes a2 b2.
Proof.
  revert b1; induction a1 as [|x a IH]; intros [|y b] H; cbn [xor_bytes length app] in *; try reflexivity; try discriminate.
  rewrite IH by lia. reflexivity.
Qed.
Lemma xor_bytes_zeros a n : (length a <= n)%nat -> xor_bytes a (repeat 0 n) = a.
Proof.
  revert n; induction a as [|x a IH]; intros [|n] H; cbn [xor_bytes repeat length] in *; try reflexivity; try lia.
  rewrite N.lxor_0_r, IH by lia. reflexivity.
Qed.
Lemma lt256_log2 z : z < 256 <-> z = 0 \/ N.log2 z < 8.
Proof.
  destruct (N.eq_dec z 0) as [->|Hz]; [split; intro; [left; reflexivity|lia]|].
  change 256 with (2 ^ 8). rewrite (N.log2_lt_pow2 z 8) by lia. split; [intro; right; assumption|intros [H|H]; [contradiction|assumption]].
Qed.
Lemma lxor_byte_ok x y : x < 256 -> y < 256 -> N.lxor x y < 256.
Proof.
  intros Hx Hy. apply lt256_log2. destruct (N.eq_dec (N.lxor x y) 0) as [H0|Hn]; [left; exact H0|right].
  eapply N.le_lt_trans; [apply N.log2_lxor|].
  apply lt256_log2 in Hx. apply lt256_log2 in Hy.
  assert (N.log2 0 = 0) as L0 by reflexivity.
  destruct Hx as [->|Hx], Hy as [->|Hy]; rewrite ?L0; lia.
Qed.
Lemma xor_bytes_ok a b : bytes_ok a = true -> bytes_ok b = true -> bytes_ok (xor_bytes a b) = true.
Proof.
  revert b; induction a as [|x a IH]; intros [|y b] Ha Hb; cbn [xor_bytes bytes_ok forallb] in *; try reflexivity.
  apply andb_true_iff in Ha. apply andb_true_iff in Hb. destruct Ha as [Hx Ha], Hb as [Hy Hb].
  apply andb_true_iff. split; [|apply IH; assumption].
  unfold byte_ok in *. apply N.ltb_lt. apply lxor_byte_ok; apply N.ltb_lt; assumption.
Qed.
Lemma bytes_ok_firstn n l : bytes_ok l = true -> bytes_ok (firstn n l) = true.
Proof.
  revert l; induction n as [|n IH]; intros [|x l] H; cbn [firstn bytes_ok forallb] in *; try reflexivity.
  apply andb_true_iff in H. destruct H as [Hx H]. rewrite Hx. cbn. apply IH. exact H.
Qed.
Lemma bytes_ok_skipn n l : bytes_ok l = true -> bytes_ok (skipn n l) = true.
Proof.
  revert l; induction n as [|n IH]; intros [|x l] H; cbn [skipn] in *; try assumption; try reflexivity.
  cbn [bytes_ok forallb] in H. apply andb_true_iff in H. destruct H as [_ H]. apply IH. exact H.
Qed.

(* ---- big-endian numbers *)
Lemma be_to_N_acc_spec acc l : be_to_N_acc acc l = acc * 256 ^ N.of_nat (length l) + be_to_N l.
Proof.
  unfold be_to_N. revert acc; induction l as [|x l IH]; intro acc.
  - cbn [be_to_N_acc length]. change (N.of_nat 0) with 0. rewrite N.pow_0_r. lia.
  - cbn [be_to_N_acc length]. rewrite (IH (acc * 256 + x)), (IH (0 * 256 + x)).
    rewrite Nat2N.inj_succ, N.pow_succ_r'. lia.
Qed.
Lemma be_to_N_cons x l : be_to_N (x :: l) = x * 256 ^ N.of_nat (length l) + be_to_N l.
Proof. unfold be_to_N at 1. cbn [be_to_N_acc]. rewrite be_to_N_acc_spec. lia. Qed.
Lemma be_to_N_bound l : bytes_ok l = true -> be_to_N l < 256 ^ N.of_nat (length l).
Proof.
  induction l as [|x l IH]; intro H.
  - cbn. lia.
  - cbn [bytes_ok forallb] in H. apply andb_true_iff in H. destruct H as [Hx H]. unfold byte_ok in Hx. apply N.ltb_lt in Hx.
    rewrite be_to_N_cons. cbn [length]. rewrite Nat2N.inj_succ, N.pow_succ_r'. specialize (IH H).
    set (P := 256 ^ N.of_nat (length l)) in *. nia.
Qed.
(* N_to_be 2 only looks at the low 16 bits: Go's uint16(len) truncation is invisible in 2 octets *)
Lemma N_to_be_2_mod v : N_to_be 2 (v mod 65536) = N_to_be 2 v.
Proof.
  cbn [N_to_be app]. f_equal; [|f_equal]; lia.
Qed.

(* strings.HasPrefix-like test: is p a prefix of s *)
Fixpoint bytes_eqb_prefix (p s:bytes) : bool :=
  match p, s with
  | [], _ => true
  | x::p', y::s' => (x =? y) && bytes_eqb_prefix p' s'
  | _ :: _, [] => false
  end.
Lemma bytes_eqb_prefix_app p s : bytes_eqb_prefix p (p ++ s) = true.
Proof. induction p as [|x p IH]; cbn [bytes_eqb_prefix app]; [reflexivity|]. rewrite N.eqb_refl, IH. reflexivity. Qed.

(* ---- firstn / skipn at an append boundary *)
Lemma firstn_app_exact {A} (l1 l2:list A) n : length l1 = n -> firstn n (l1 ++ l2) = l1.
Proof. intro H. subst n. rewrite firstn_app, Nat.sub_diag, firstn_O, app_nil_r. apply firstn_all. Qed.
Lemma skipn_app_exact {A} (l1 l2:list A) n : length l1 = n -> skipn n (l1 ++ l2) = l2.
Proof. intro H. subst n. rewrite skipn_app, Nat.sub_diag, skipn_all. reflexivity. Qed.
