(* Generic NAS message values shared by the model of the library codec (Model/NasCodec.v) and the
   TS 24.501 reference codec (Spec/TS24501.v): a message is an ordered list of named fields, each with
   a presence flag, an IEI, a length value and the content octets.  Result type of partial operations. *)
From Coq Require Import NArith List Bool String.
Require Import Bytes.
Import ListNotations.
Open Scope N_scope.

Inductive res (A:Type) : Type :=
| Ok (a:A)
| Err (why:string)       (* an error return of the Go code, or a construct the model does not cover *)
| Panic (why:string)     (* Go run-time panic: slice bounds, nil dereference, index out of range *)
| OutOfFuel.
Arguments Ok {A} a.
Arguments Err {A} why.
Arguments Panic {A} why.
Arguments OutOfFuel {A}.

Definition bind {A B} (r:res A) (f:A -> res B) : res B :=
  match r with Ok a => f a | Err s => Err s | Panic s => Panic s | OutOfFuel => OutOfFuel end.

Record fval := mk_fval { fv_present : bool; fv_iei : N; fv_len : N; fv_body : bytes }.
Definition absent : fval := mk_fval false 0 0 [].
Definition msg := list (string * fval).

Fixpoint lookup {A} (k:string) (l:list (string * A)) : option A :=
  match l with [] => None | (k', v) :: r => if String.eqb k k' then Some v else lookup k r end.

Fixpoint eqb_bytes (a b:bytes) : bool :=
  match a, b with [], [] => true | x::a', y::b' => (x =? y) && eqb_bytes a' b' | _, _ => false end.
Definition eqb_fval (a b:fval) : bool :=
  Bool.eqb (fv_present a) (fv_present b) && (fv_iei a =? fv_iei b) && (fv_len a =? fv_len b) && eqb_bytes (fv_body a) (fv_body b).
Fixpoint eqb_msg (a b:msg) : bool :=
  match a, b with [], [] => true
  | (k,v)::a', (k',v')::b' => String.eqb k k' && eqb_fval v v' && eqb_msg a' b' | _, _ => false end.
Fixpoint eqb_vals (a b:list fval) : bool :=
  match a, b with [], [] => true | v::a', v'::b' => eqb_fval v v' && eqb_vals a' b' | _, _ => false end.
