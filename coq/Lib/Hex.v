(* Go's encoding/hex on strings (lists of code units). *)
From Coq Require Import NArith List Bool.
Import ListNotations.
Open Scope N_scope.

(* reverseHexTable: 0-9 a-f A-F -> value, anything else invalid *)
Definition hexval (c:N) : option N :=
  if (48 <=? c) && (c <=? 57) then Some (c - 48)
  else if (97 <=? c) && (c <=? 102) then Some (c - 87)
  else if (65 <=? c) && (c <=? 70) then Some (c - 55) else None.

(* hex.DecodeString: (decoded prefix, ok).  The prefix holds the complete valid pairs before the first
   invalid character / the dangling last character. *)
Fixpoint hex_decode_go (s:list N) : list N * bool :=
  match s with
  | [] => ([], true)
  | [_] => ([], false)
  | p :: q :: r =>
      match hexval p, hexval q with
      | Some a, Some b => let '(t, ok) := hex_decode_go r in ((a * 16 + b) :: t, ok)
      | _, _ => ([], false)
      end
  end.

Definition hexchar (v:N) : N := if v <? 10 then 48 + v else 87 + v.     (* lower case, as hex.EncodeToString *)
Fixpoint hex_encode (b:list N) : list N :=
  match b with [] => [] | x :: r => hexchar (x / 16) :: hexchar (x mod 16) :: hex_encode r end.
