(* Bit lists: big-endian fixed-width numbers, octets <-> bits, alignment. *)
From Coq Require Import NArith List Lia Bool Arith.
From Coq Require Import ZifyN ZifyNat ZifyBool.
Import ListNotations.
Open Scope N_scope.

Definition bits := list bool.

(* big-endian n-bit representation of v (the n low-order bits of v) *)
Fixpoint bits_of_N (n : nat) (v : N) : bits :=
  match n with
  | O => []
  | S n' => bits_of_N n' (N.div2 v) ++ [N.odd v]
  end.

Fixpoint N_of_bits_acc (acc : N) (l : bits) : N :=
  match l with
  | [] => acc
  | b :: r => N_of_bits_acc (2 * acc + (if b then 1 else 0)) r
  end.
Definition N_of_bits := N_of_bits_acc 0.

Definition bits_of_bytes (bs : list N) : bits := flat_map (bits_of_N 8) bs.

(* pack a bit list into octets, padding the last octet with zero bits *)
Fixpoint pack_fuel (fuel : nat) (l : bits) : list N :=
  match fuel with
  | O => []
  | S f => match l with
           | [] => []
           | _ => N_of_bits (firstn 8 (l ++ repeat false 7)) :: pack_fuel f (skipn 8 l)
           end
  end.
Definition pack_bits (l : bits) : list N := pack_fuel (S (length l)) l.

(* padding needed at bit position pos to reach an octet boundary *)
Definition pad_len (pos : nat) : nat := ((8 - pos mod 8) mod 8)%nat.
Definition align (pos : nat) : bits := repeat false (pad_len pos).

Lemma bits_of_N_length n v : length (bits_of_N n v) = n.
Proof.
  revert v; induction n as [|n IH]; intros v; cbn [bits_of_N]; [reflexivity|].
  rewrite app_length, IH; cbn; lia.
Qed.

Lemma N_of_bits_acc_app acc l1 l2 :
  N_of_bits_acc acc (l1 ++ l2) = N_of_bits_acc (N_of_bits_acc acc l1) l2.
Proof. revert acc; induction l1 as [|b l1 IH]; intros acc; cbn; [reflexivity|apply IH]. Qed.

Lemma N_of_bits_acc_shift acc l :
  N_of_bits_acc acc l = acc * 2 ^ N.of_nat (length l) + N_of_bits_acc 0 l.
Proof.
  revert acc; induction l as [|b l IH]; intros acc.
  - cbn. lia.
  - cbn [N_of_bits_acc length]. rewrite IH. rewrite (IH (2 * 0 + _)).
    rewrite Nat2N.inj_succ, N.pow_succ_r'. destruct b; ring.
Qed.

Lemma div2_odd v : v = 2 * N.div2 v + (if N.odd v then 1 else 0).
Proof. pose proof (N.div2_odd v) as H. unfold N.b2n in H. exact H. Qed.

Lemma N_of_bits_of_N n v : v < 2 ^ N.of_nat n -> N_of_bits (bits_of_N n v) = v.
Proof.
  unfold N_of_bits. revert v; induction n as [|n IH]; intros v Hv.
  - cbn in *. lia.
  - cbn [bits_of_N]. rewrite N_of_bits_acc_app. rewrite IH.
    + cbn [N_of_bits_acc]. pose proof (div2_odd v). destruct (N.odd v); lia.
    + rewrite Nat2N.inj_succ, N.pow_succ_r' in Hv. pose proof (div2_odd v). destruct (N.odd v); lia.
Qed.
