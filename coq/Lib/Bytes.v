(* Bytes and words as N with explicit widths. *)
From Coq Require Import NArith List Lia Bool.
Import ListNotations.
Open Scope N_scope.

Definition byte := N.
Definition bytes := list N.
Definition byte_ok (b:N) : bool := b <? 256.
Definition bytes_ok (l:bytes) : bool := forallb byte_ok l.

Definition w8  (x:N) : N := N.land x 255.
Definition w16 (x:N) : N := N.land x 65535.
Definition w32 (x:N) : N := N.land x 4294967295.
Definition w64 (x:N) : N := N.land x 18446744073709551615.

Definition xorb8 (a b:N) : N := N.lxor a b.
Fixpoint xor_bytes (a b:bytes) : bytes :=
  match a, b with x::a', y::b' => N.lxor x y :: xor_bytes a' b' | _, _ => [] end.

(* big-endian conversions *)
Fixpoint be_to_N_acc (acc:N) (l:bytes) : N :=
  match l with [] => acc | b::r => be_to_N_acc (acc * 256 + b) r end.
Definition be_to_N (l:bytes) : N := be_to_N_acc 0 l.
Fixpoint N_to_be (n:nat) (v:N) : bytes :=     (* n octets, most significant first *)
  match n with O => [] | S n' => N_to_be n' (v / 256) ++ [v mod 256] end.

Definition be32 (l:bytes) : N := be_to_N (firstn 4 l).
Definition word_bytes (w:N) : bytes := N_to_be 4 w.
Fixpoint chunks (k:nat) (fuel:nat) (l:bytes) : list bytes :=
  match fuel with O => [] | S f => match l with [] => [] | _ => firstn k l :: chunks k f (skipn k l) end end.
Definition chunk (k:nat) (l:bytes) : list bytes := chunks k (S (length l)) l.

Fixpoint rotl_list {A} (n:nat) (l:list A) : list A :=
  match n with O => l | S n' => match l with [] => [] | x::r => rotl_list n' (r ++ [x]) end end.

(* hex *)
Definition hexdigit (c:N) : option N :=
  if (48 <=? c) && (c <=? 57) then Some (c - 48)
  else if (97 <=? c) && (c <=? 102) then Some (c - 87)
  else if (65 <=? c) && (c <=? 70) then Some (c - 55) else None.
Fixpoint hex_decode (l:bytes) : option bytes :=      (* ASCII codes of hex digits -> octets; odd length or bad digit -> None *)
  match l with
  | [] => Some []
  | a::b::r => match hexdigit a, hexdigit b, hex_decode r with
               | Some x, Some y, Some t => Some (x*16+y :: t) | _,_,_ => None end
  | _ => None end.

Lemma N_to_be_length n v : length (N_to_be n v) = n.
Proof. revert v; induction n as [|n IH]; intro v; cbn [N_to_be]; [reflexivity|]. rewrite app_length, IH. cbn. lia. Qed.
