(* Result type of modelled Go operations and Go slice semantics with explicit panics.
   A Go []byte is modelled as [list N] whose capacity equals its length. *)
From Coq Require Import NArith ZArith List Bool.
Import ListNotations.
Open Scope N_scope.

Inductive res (A : Type) : Type :=
| Ok (a : A)
| Err (e : N)          (* the Go function returned a non-nil error; [e] identifies the message *)
| Panic (p : N)        (* the Go runtime panicked; [p] identifies the kind *)
| OutOfFuel.
Arguments Ok {A} a.
Arguments Err {A} e.
Arguments Panic {A} p.
Arguments OutOfFuel {A}.

Definition bind {A B} (r : res A) (f : A -> res B) : res B :=
  match r with Ok a => f a | Err e => Err e | Panic p => Panic p | OutOfFuel => OutOfFuel end.
Notation "'do' x <- e ; f" := (bind e (fun x => f)) (at level 200, x pattern, e at level 100, f at level 200, right associativity).

(* panic kinds *)
Definition P_INDEX : N := 1.      (* index out of range *)
Definition P_SLICE : N := 2.      (* slice bounds out of range *)
Definition P_NIL : N := 3.        (* nil dereference / reflect on zero Value *)
Definition P_MAKE : N := 4.       (* makeslice: len out of range *)
Definition P_REFLECT : N := 5.    (* reflect: call of a method on the wrong kind *)

Definition len {A} (l : list A) : N := N.of_nat (length l).

(* l[i] *)
Definition idx (l : list N) (i : N) : res N :=
  if i <? len l then Ok (nth (N.to_nat i) l 0) else Panic P_INDEX.

(* l[i] = v *)
Fixpoint upd_nat (l : list N) (i : nat) (v : N) : list N :=
  match l, i with
  | [], _ => []
  | _ :: r, O => v :: r
  | x :: r, S k => x :: upd_nat r k v
  end.
Definition upd (l : list N) (i : N) (v : N) : res (list N) :=
  if i <? len l then Ok (upd_nat l (N.to_nat i) v) else Panic P_INDEX.

(* l[lo:hi]   (capacity = length) *)
Definition slice (l : list N) (lo hi : N) : res (list N) :=
  if (lo <=? hi) && (hi <=? len l) then Ok (firstn (N.to_nat (hi - lo)) (skipn (N.to_nat lo) l)) else Panic P_SLICE.
(* l[lo:] *)
Definition slice_from (l : list N) (lo : N) : res (list N) :=
  if lo <=? len l then Ok (skipn (N.to_nat lo) l) else Panic P_SLICE.
(* l[:hi] *)
Definition slice_to (l : list N) (hi : N) : res (list N) :=
  if hi <=? len l then Ok (firstn (N.to_nat hi) l) else Panic P_SLICE.

(* make([]byte, n): the runtime refuses lengths above the address space *)
Definition MAXALLOC : N := 281474976710656.      (* 2^48: maxAlloc on linux/amd64 *)
Definition make_bytes (n : N) : res (list N) :=
  if n <=? MAXALLOC then Ok (repeat 0 (N.to_nat n)) else Panic P_MAKE.

(* fixed-width integers *)
Definition TWO64 : N := 18446744073709551616.
Definition u64 (x : N) : N := x mod TWO64.
Definition u64z (z : Z) : N := Z.to_N (z mod 18446744073709551616).           (* uint64(int64) *)
Definition i64 (z : Z) : Z :=                                                  (* int64(...) wrap *)
  let m := (z mod 18446744073709551616)%Z in if (m <? 9223372036854775808)%Z then m else (m - 18446744073709551616)%Z.
Definition i64n (x : N) : Z := i64 (Z.of_N x).                                 (* int64(uint64) *)
Definition sub64 (a b : N) : N := (a + TWO64 - (b mod TWO64)) mod TWO64.        (* a - b on uint64 *)
Definition shl64 (v k : N) : N := if k <? 64 then (N.shiftl v k) mod TWO64 else 0.
Definition shr64 (v k : N) : N := if k <? 64 then N.shiftr v k else 0.
Definition shl8 (b k : N) : N := if k <? 8 then (N.shiftl b k) mod 256 else 0.  (* byte << k *)
Definition shr8 (b k : N) : N := if k <? 8 then N.shiftr b k else 0.            (* byte >> k *)
