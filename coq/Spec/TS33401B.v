(* TS 33.401 Annex B: 128-EEA2 (B.1.3) and 128-EIA2 (B.2.3), parametric in the 128-bit block cipher
   E : key -> block -> block (AES-128 when executed).  Octet-aligned messages.
   - 128-EEA2: the block cipher in CTR mode (SP 800-38A); the 128-bit counter block T1 is
     COUNT[0..31] || BEARER[0..4] || DIRECTION || 0^26 || 0^64, subsequent blocks by incrementing.
   - 128-EIA2: CMAC (SP 800-38B / RFC 4493) over M = COUNT[0..31] || BEARER[0..4] || DIRECTION || 0^26 || MESSAGE,
     Tlen = 32: MACT = the 32 most significant bits of the CMAC output. *)
From Coq Require Import NArith List Bool.
Require Import Bytes AES Modes Snow3gSpec.
Import ListNotations.
Open Scope N_scope.

Section TS33401B.
Variable E : bytes -> bytes -> bytes.

(* COUNT || BEARER || DIRECTION || 0^26 as a 64-bit number *)
Definition cbd64 (count bearer dir:N) : N := count * 2 ^ 32 + bearer * 2 ^ 27 + dir * 2 ^ 26.

Definition eea2_counter_block (count bearer dir:N) : bytes := N_to_be 8 (cbd64 count bearer dir) ++ repeat 0 8.   (* ... || 0^64 *)
Definition eea2 (key:bytes) (count bearer dir:N) (msg:bytes) : bytes :=
  ctr_xor E key (eea2_counter_block count bearer dir) msg.

Definition eia2_input (count bearer dir:N) (msg:bytes) : bytes := N_to_be 8 (cbd64 count bearer dir) ++ msg.
Definition eia2 (key:bytes) (count bearer dir:N) (msg:bytes) : bytes :=
  firstn 4 (cmac E key (eia2_input count bearer dir msg)).
End TS33401B.

(* general bit length for the published vectors: bits beyond LENGTH in the last octet are 0 *)
Definition eea2_keep_bits (nbits:N) (l:bytes) : bytes :=
  let full := N.to_nat (nbits / 8) in
  let r := nbits mod 8 in
  if r =? 0 then firstn full l else firstn full l ++ [ (nth full l 0 / 2 ^ (8 - r)) * 2 ^ (8 - r) ].

(* TS 33.401 C.1 128-EEA2 test set 1: key D3C5D592327FB11C4035C6680AF8C6D1, COUNT 398A59B4, BEARER 15, DIRECTION 1, LENGTH 253 *)
Definition ts33401_k1 : bytes := [211;197;213;146;50;127;177;28;64;53;198;104;10;248;198;209].
Example eea2_ts33401_c1_set1 :
  eea2_keep_bits 253 (eea2 aes128 ts33401_k1 0x398A59B4 0x15 1
    [0x98;0x1B;0xA6;0x82;0x4C;0x1B;0xFB;0x1A;0xB4;0x85;0x47;0x20;0x29;0xB7;0x1D;0x80;
     0x8C;0xE3;0x3E;0x2C;0xC3;0xC0;0xB5;0xFC;0x1F;0x3D;0xE8;0xA6;0xDC;0x66;0xB1;0xF0])
  = [0xE9;0xFE;0xD8;0xA6;0x3D;0x15;0x53;0x04;0xD7;0x1D;0xF2;0x0B;0xF3;0xE8;0x22;0x14;
     0xB2;0x0E;0xD7;0xDA;0xD2;0xF2;0x33;0xDC;0x3C;0x22;0xD7;0xBD;0xEE;0xED;0x8E;0x78].
Proof. vm_compute. reflexivity. Qed.

(* TS 33.401 C.2 128-EIA2 test set 2: COUNT 398A59B4, BEARER 1A, DIRECTION 1, IK D3C5D592327FB11C4035C6680AF8C6D1,
   LENGTH 64, MESSAGE 484583D5AFE082AE, MACT B93787E6 *)
Example eia2_ts33401_c2_set2 :
  eia2 aes128 ts33401_k1 0x398A59B4 0x1A 1 [0x48;0x45;0x83;0xD5;0xAF;0xE0;0x82;0xAE] = [0xB9;0x37;0x87;0xE6].
Proof. vm_compute. reflexivity. Qed.

(* ---- TS 33.501 Annex D: the 5G NAS algorithms.  NEA0 is the null ciphering algorithm (the message is unchanged),
   128-NEA1 = 128-EEA1, 128-NEA2 = 128-EEA2, 128-NIA1 = 128-EIA1, 128-NIA2 = 128-EIA2 (same inputs).
   The claim C07 makes covers identifiers 0, 1, 2 for ciphering and 1, 2 for integrity, BEARER < 32, DIRECTION < 2;
   outside it the specification functions below answer None (no requirement). *)
Definition nea_spec (E:bytes -> bytes -> bytes) (alg:N) (key:bytes) (count bearer dir:N) (msg:bytes) : option bytes :=
  if (bearer <? 32) && (dir <? 2) then
    if alg =? 0 then Some msg
    else if alg =? 1 then Some (eea1 key count bearer dir msg)
    else if alg =? 2 then Some (eea2 E key count bearer dir msg)
    else None
  else None.
Definition nia_spec (E:bytes -> bytes -> bytes) (alg:N) (key:bytes) (count bearer dir:N) (msg:bytes) : option bytes :=
  if (bearer <? 32) && (dir <? 2) then
    if alg =? 1 then Some (eia1 key count bearer dir msg)
    else if alg =? 2 then Some (eia2 E key count bearer dir msg)
    else None
  else None.
