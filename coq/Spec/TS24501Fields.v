(* TS 24.501 (Release 15) clause 9 -- the bit-field layout INSIDE the value part of the information elements that occur
   in the NAS messages on the emulator's path (REGISTRATION REQUEST/ACCEPT/COMPLETE, AUTHENTICATION REQUEST/RESPONSE,
   SECURITY MODE COMMAND/COMPLETE, UL/DL NAS TRANSPORT, SERVICE REQUEST, DEREGISTRATION REQUEST (UE originating), PDU SESSION
   ESTABLISHMENT REQUEST/ACCEPT, PDU SESSION MODIFICATION REQUEST, PDU SESSION RELEASE REQUEST/COMPLETE).

   Transcribed by hand FROM MEMORY of the figures of TS 24.501 clauses 9.2-9.7 and 9.11 (and of TS 24.008 / TS 24.301 where
   24.501 refers to them): no copy of the specification is available offline.  NOT derived from the Go library; the only
   thing taken from the library is the NAME of the accessor pair that is supposed to address each field ([f_get]/[f_set]) and
   the name of the Go type ([ie_go]).  Where I was not sure of a layout the field is left out and listed under
   "NOT TRANSCRIBED" at the end of this file rather than guessed.

   Coordinates.  Octets are numbered within the IE VALUE: 0 is the first octet after the IEI and the length indicator (if the
   format has them), i.e. octet 2 of a TV IE, octet 3 of a TLV IE, octet 4 of a TLV-E IE in the figures; for a half-octet IE
   (format V 1/2 or TV 1) octet 0 is the octet the half octet lives in.  Bits are numbered as in the figures: 8 = most
   significant ... 1 = least significant. *)
From Coq Require Import NArith Arith Bool String List.
Import ListNotations.
Open Scope string_scope.
Open Scope list_scope.
Open Scope N_scope.
Local Infix "+++" := String.append (at level 60, right associativity).

Inductive fkind :=
| FBits (octet hi lo:nat)        (* bits hi..lo of one octet *)
| FSpan (octet width:nat)        (* 9..16 bits: all of [octet] (most significant part) and the top width-8 bits of the next octet *)
| FOctets (first count:nat)      (* [count] whole octets starting at [first] *)
| FRest (first:nat).             (* the octets from [first] to the end of the value *)

Record field := mk_field { f_name : string; f_kind : fkind; f_get : string; f_set : string }.
Record ie_layout := mk_ie { ie_go : string; ie_clause : string; ie_fields : list field }.

(* ---- meaning of a field: the value it holds in an octet string, and the octet string after storing a value.
   Arithmetic on numbers (div/mod/powers of two): no masks, no shifts. *)
Definition fvalue := (N + list N)%type.
Definition pw (n:nat) : N := 2 ^ N.of_nat n.

Fixpoint put (st:list N) (i:nat) (x:N) : option (list N) :=
  match st, i with
  | [], _ => None
  | _ :: r, O => Some (x :: r)
  | y :: r, S i' => match put r i' x with Some r' => Some (y :: r') | None => None end
  end.

Definition kind_ok (k:fkind) : bool :=
  match k with
  | FBits _ hi lo => (1 <=? lo)%nat && (lo <=? hi)%nat && (hi <=? 8)%nat
  | FSpan _ w => (9 <=? w)%nat && (w <=? 16)%nat
  | FOctets _ c => (1 <=? c)%nat
  | FRest _ => true end.

Definition spec_get (k:fkind) (st:list N) : option fvalue :=
  match k with
  | FBits o hi lo =>
      match nth_error st o with Some x => Some (inl ((x / pw (lo - 1)) mod pw (hi - lo + 1))) | None => None end
  | FSpan o w =>
      match nth_error st o, nth_error st (S o) with
      | Some x, Some y => Some (inl ((256 * x + y) / pw (16 - w)))
      | _, _ => None end
  | FOctets first count =>
      if (first + count <=? length st)%nat then Some (inr (firstn count (skipn first st))) else None
  | FRest first => if (first <=? length st)%nat then Some (inr (skipn first st)) else None
  end.

(* the value must be representable in the field *)
Definition value_fits (k:fkind) (st:list N) (v:fvalue) : bool :=
  match k, v with
  | FBits _ hi lo, inl n => n <? pw (hi - lo + 1)
  | FSpan _ w, inl n => n <? pw w
  | FOctets _ count, inr bs => (length bs =? count)%nat && forallb (fun x => x <? 256) bs
  | FRest first, inr bs => (first + length bs =? length st)%nat && forallb (fun x => x <? 256) bs
  | _, _ => false end.

Definition spec_set (k:fkind) (st:list N) (v:fvalue) : option (list N) :=
  if negb (value_fits k st v) then None else
  match k, v with
  | FBits o hi lo, inl n =>
      match nth_error st o with
      | Some x => let old := (x / pw (lo - 1)) mod pw (hi - lo + 1) in put st o (x - old * pw (lo - 1) + n * pw (lo - 1))
      | None => None end
  | FSpan o w, inl n =>
      match nth_error st o, nth_error st (S o) with
      | Some x, Some y =>
          let X := n * pw (16 - w) + (256 * x + y) mod pw (16 - w) in
          match put st o (X / 256) with Some st1 => put st1 (S o) (X mod 256) | None => None end
      | _, _ => None end
  | FOctets first count, inr bs =>
      if (first + count <=? length st)%nat then Some (firstn first st ++ bs ++ skipn (first + count) st) else None
  | FRest first, inr bs => if (first <=? length st)%nat then Some (firstn first st ++ bs) else None
  | _, _ => None end.

(* bit [b] (0 = least significant = bit 1 of the figures) of octet [i] belongs to the field, in a value of [len] octets *)
Definition in_field (k:fkind) (len:nat) (i b:nat) : bool :=
  match k with
  | FBits o hi lo => (i =? o)%nat && (lo - 1 <=? b)%nat && (b <? hi)%nat
  | FSpan o w => (i =? o)%nat || ((i =? S o)%nat && (16 - w <=? b)%nat)
  | FOctets first count => (first <=? i)%nat && (i <? first + count)%nat
  | FRest first => (first <=? i)%nat && (i <? len)%nat
  end.

(* ---- how the table below is written *)
Definition acc (ts go:string) (k:fkind) : field := mk_field ts k ("Get" +++ go) ("Set" +++ go).
Definition bits (ts go:string) (o hi lo:nat) : field := acc ts go (FBits o hi lo).
Definition bit (ts go:string) (o b:nat) : field := acc ts go (FBits o b b).
Definition octet (ts go:string) (o:nat) : field := acc ts go (FBits o 8 1).
Definition octets (ts go:string) (first count:nat) : field := acc ts go (FOctets first count).
Definition rest (ts go:string) (first:nat) : field := acc ts go (FRest first).
Definition span (ts go:string) (o w:nat) : field := acc ts go (FSpan o w).
(* eight one-bit fields of one octet, named from bit 8 down to bit 1; "" = no accessor / spare *)
Fixpoint flags_from (o:nat) (b:nat) (names:list (string * string)) : list field :=
  match names, b with
  | (ts, go) :: r, S b' => (if String.eqb go "" then [] else [bit ts go o b]) ++ flags_from o b' r
  | _, _ => [] end.
Definition flags (o:nat) (names:list (string * string)) : list field := flags_from o 8 names.
Definition same (names:list string) : list (string * string) := map (fun s => (s, s)) names.

Definition digit (n:nat) : string :=
  match n with 0 => "0" | 1 => "1" | 2 => "2" | 3 => "3" | 4 => "4" | 5 => "5" | 6 => "6" | 7 => "7" | 8 => "8" | _ => "9" end%nat.
Definition dec (n:nat) : string := if (n <? 10)%nat then digit n else digit (n / 10) +++ digit (n mod 10).

(* 9.7 message type: the whole octet *)
Definition message_identity (go:string) : ie_layout := mk_ie go "9.7" [octet "Message type" "MessageType" 0].
(* a container whose whole value is one field *)
Definition whole (go clause ts acc_name:string) : ie_layout := mk_ie go clause [rest ts acc_name 0].

(* 9.11.3.44 / 9.11.3.57 / 9.11.3.13 / 9.11.3.42: octet 3 PSI(7)..PSI(0), octet 4 PSI(15)..PSI(8), octets 5*-34* spare *)
Definition psi_octet (o base:nat) : list field :=
  flags o (map (fun k => ("PSI(" +++ dec (base + k) +++ ")", "PSI" +++ dec (base + k))) [7; 6; 5; 4; 3; 2; 1; 0]%nat).
Definition psi_fields : list field := psi_octet 0 0 ++ psi_octet 1 8 ++ [rest "Spare (octets 5* to 34*)" "Spare" 2].

(* PLMN identity (TS 24.008 10.5.1.13 / 24.501 figures): MCC digit 2 | MCC digit 1; MNC digit 3 | MCC digit 3; MNC digit 2 | MNC digit 1 *)
Definition plmn (o:nat) (suffix:string) : list field :=
  [bits "MCC digit 2" ("MCCDigit2" +++ suffix) o 8 5; bits "MCC digit 1" ("MCCDigit1" +++ suffix) o 4 1;
   bits "MNC digit 3" ("MNCDigit3" +++ suffix) (o + 1) 8 5; bits "MCC digit 3" ("MCCDigit3" +++ suffix) (o + 1) 4 1;
   bits "MNC digit 2" ("MNCDigit2" +++ suffix) (o + 2) 8 5; bits "MNC digit 1" ("MNCDigit1" +++ suffix) (o + 2) 4 1].

(* 9.11.3.54 UE security capability, octets 3-6 (and the replayed copy) *)
Definition ue_sec_cap_fields : list field :=
  flags 0 [("5G-EA0", "EA0_5G"); ("128-5G-EA1", "EA1_128_5G"); ("128-5G-EA2", "EA2_128_5G"); ("128-5G-EA3", "EA3_128_5G");
           ("5G-EA4", "EA4_5G"); ("5G-EA5", "EA5_5G"); ("5G-EA6", "EA6_5G"); ("5G-EA7", "EA7_5G")] ++
  flags 1 [("5G-IA0", "IA0_5G"); ("128-5G-IA1", "IA1_128_5G"); ("128-5G-IA2", "IA2_128_5G"); ("128-5G-IA3", "IA3_128_5G");
           ("5G-IA4", "IA4_5G"); ("5G-IA5", "IA5_5G"); ("5G-IA6", "IA6_5G"); ("5G-IA7", "IA7_5G")] ++
  flags 2 [("EEA0", "EEA0"); ("128-EEA1", "EEA1_128"); ("128-EEA2", "EEA2_128"); ("128-EEA3", "EEA3_128");
           ("EEA4", "EEA4"); ("EEA5", "EEA5"); ("EEA6", "EEA6"); ("EEA7", "EEA7")] ++
  flags 3 [("EIA0", "EIA0"); ("128-EIA1", "EIA1_128"); ("128-EIA2", "EIA2_128"); ("128-EIA3", "EIA3_128");
           ("EIA4", "EIA4"); ("EIA5", "EIA5"); ("EIA6", "EIA6"); ("EIA7", "EIA7")] ++
  [octets "Spare (octets 7* to 10*)" "Spare" 4 4].

(* 9.11.3.4 5G-GUTI (figure 9.11.3.4.1): octet 4 = 1111 | 0 (spare) | type of identity; octets 5-7 PLMN; octet 8 AMF region ID;
   octet 9 and bits 8-7 of octet 10 AMF set ID (10 bits); bits 6-1 of octet 10 AMF pointer; octets 11-14 5G-TMSI.
   (The four leading 1 bits have no accessor in the library.) *)
Definition guti_fields : list field :=
  [bit "Spare (bit 4)" "Spare" 0 4; bits "Type of identity" "TypeOfIdentity" 0 3 1] ++ plmn 1 "" ++
  [octet "AMF Region ID" "AMFRegionID" 4; span "AMF Set ID" "AMFSetID" 5 10; bits "AMF Pointer" "AMFPointer" 6 6 1;
   octets "5G-TMSI" "TMSI5G" 7 4].

(* TS 24.008 10.5.7.3 / 10.5.7.4a (GPRS timer, GPRS timer 3): bits 8-6 unit, bits 5-1 timer value *)
Definition gprs_timer (unit_acc:string) : list field := [bits "Unit" unit_acc 0 8 6; bits "Timer value" "TimerValue" 0 5 1].

Definition ts24501_fields : list ie_layout := [
  (* ---- 9.2 - 9.7: header octets *)
  mk_ie "ExtendedProtocolDiscriminator" "9.2" [octet "Extended protocol discriminator" "ExtendedProtocolDiscriminator" 0];
  mk_ie "SpareHalfOctetAndSecurityHeaderType" "9.3, 9.5"
    [bits "Spare half octet" "SpareHalfOctet" 0 8 5; bits "Security header type" "SecurityHeaderType" 0 4 1];
  mk_ie "PDUSessionID" "9.4" [octet "PDU session identity" "PDUSessionID" 0];
  mk_ie "PTI" "9.6" [octet "Procedure transaction identity" "PTI" 0];
  message_identity "RegistrationRequestMessageIdentity"; message_identity "AuthenticationResponseMessageIdentity";
  message_identity "SecurityModeCompleteMessageIdentity"; message_identity "RegistrationCompleteMessageIdentity";
  message_identity "ULNASTRANSPORTMessageIdentity"; message_identity "PDUSESSIONESTABLISHMENTREQUESTMessageIdentity";
  message_identity "PDUSESSIONMODIFICATIONREQUESTMessageIdentity"; message_identity "ServiceRequestMessageIdentity";
  message_identity "DeregistrationRequestMessageIdentity"; message_identity "PDUSESSIONRELEASEREQUESTMessageIdentity";
  message_identity "PDUSESSIONRELEASECOMPLETEMessageIdentity"; message_identity "AuthenticationRequestMessageIdentity";
  message_identity "SecurityModeCommandMessageIdentity"; message_identity "RegistrationAcceptMessageIdentity";
  message_identity "DLNASTRANSPORTMessageIdentity"; message_identity "PDUSESSIONESTABLISHMENTACCEPTMessageIdentity";

  (* ---- half-octet pairs of the mandatory parts (8.2.x: the IE listed first occupies bits 4-1, the second bits 8-5) *)
  (* 8.2.6 REGISTRATION REQUEST: 5GS registration type (9.11.3.7: FOR bit 4, value bits 3-1) then ngKSI (9.11.3.32: TSC bit 4, KSI bits 3-1) *)
  mk_ie "NgksiAndRegistrationType5GS" "9.11.3.7, 9.11.3.32"
    [bit "TSC" "TSC" 0 8; bits "NAS key set identifier" "NasKeySetIdentifiler" 0 7 5;
     bit "FOR" "FOR" 0 4; bits "5GS registration type value" "RegistrationType5GS" 0 3 1];
  (* 8.2.12 DEREGISTRATION REQUEST: De-registration type (9.11.3.20: switch off bit 4, re-registration required bit 3, access type bits 2-1) then ngKSI *)
  mk_ie "NgksiAndDeregistrationType" "9.11.3.20, 9.11.3.32"
    [bit "TSC" "TSC" 0 8; bits "NAS key set identifier" "NasKeySetIdentifiler" 0 7 5;
     bit "Switch off" "SwitchOff" 0 4; bit "Re-registration required" "ReRegistrationRequired" 0 3; bits "Access type" "AccessType" 0 2 1];
  (* 8.2.16 SERVICE REQUEST: ngKSI then Service type (9.11.3.50: bits 4-1 of its half octet) *)
  mk_ie "ServiceTypeAndNgksi" "9.11.3.32, 9.11.3.50"
    [bits "Service type value" "ServiceTypeValue" 0 8 5; bit "TSC" "TSC" 0 4; bits "NAS key set identifier" "NasKeySetIdentifiler" 0 3 1];
  (* 8.2.1 AUTHENTICATION REQUEST, 8.2.25 SECURITY MODE COMMAND: ngKSI then spare half octet *)
  mk_ie "SpareHalfOctetAndNgksi" "9.11.3.32, 9.5"
    [bits "Spare half octet" "SpareHalfOctet" 0 8 5; bit "TSC" "TSC" 0 4; bits "NAS key set identifier" "NasKeySetIdentifiler" 0 3 1];
  (* 8.2.10/8.2.11 UL/DL NAS TRANSPORT: Payload container type (9.11.3.40: bits 4-1) then spare half octet *)
  mk_ie "SpareHalfOctetAndPayloadContainerType" "9.11.3.40, 9.5" [bits "Payload container type value" "PayloadContainerType" 0 4 1];
  (* 8.3.2 PDU SESSION ESTABLISHMENT ACCEPT: Selected PDU session type (9.11.4.11: bits 3-1) then Selected SSC mode (9.11.4.16: bits 3-1 of its half) *)
  mk_ie "SelectedSSCModeAndSelectedPDUSessionType" "9.11.4.11, 9.11.4.16"
    [bits "SSC mode value" "SSCMode" 0 7 5; bits "PDU session type value" "PDUSessionType" 0 3 1];

  (* ---- 9.11.2 common IEs *)
  whole "AdditionalInformation" "9.11.2.1" "Additional information value" "AdditionalInformationValue";
  whole "EAPMessage" "9.11.2.2" "EAP message" "EAPMessage";
  mk_ie "RQTimerValue" "9.11.2.3" (gprs_timer "Unit");
  mk_ie "Non3GppDeregistrationTimerValue" "9.11.2.4" [octet "GPRS timer 2 value" "GPRSTimer2Value" 0];
  mk_ie "T3502Value" "9.11.2.4" [octet "GPRS timer 2 value" "GPRSTimer2Value" 0];
  mk_ie "T3512Value" "9.11.2.5" (gprs_timer "Unit");
  mk_ie "BackoffTimerValue" "9.11.2.5" (gprs_timer "UnitTimerValue");
  (* 9.11.2.8 S-NSSAI: octet 3 SST, 4-6 SD, 7 mapped HPLMN SST, 8-10 mapped HPLMN SD *)
  mk_ie "SNSSAI" "9.11.2.8"
    [octet "SST" "SST" 0; octets "SD" "SD" 1 3; octet "Mapped HPLMN SST" "MappedHPLMNSST" 4; octets "Mapped HPLMN SD" "MappedHPLMNSD" 5 3];

  (* ---- 9.11.3 5GMM IEs *)
  (* 9.11.3.1 5GMM capability: octet 3 = 0 0 0 0 0 LPP HO-attach S1-mode; octets 4*-15* spare *)
  mk_ie "Capability5GMM" "9.11.3.1"
    [bit "LPP" "LPP" 0 3; bit "HO attach" "HOAttach" 0 2; bit "S1 mode" "S1Mode" 0 1; octets "Spare (octets 4* to 15*)" "Spare" 1 12];
  mk_ie "Cause5GMM" "9.11.3.2" [octet "Cause value" "CauseValue" 0];
  mk_ie "RequestedDRXParameters" "9.11.3.2A" [bits "DRX value" "DRXValue" 0 4 1];
  mk_ie "NegotiatedDRXParameters" "9.11.3.2A" [bits "DRX value" "DRXValue" 0 4 1];
  (* 9.11.3.4 5GS mobile identity *)
  whole "MobileIdentity5GS" "9.11.3.4" "5GS mobile identity contents" "MobileIdentity5GSContents";
  mk_ie "AdditionalGUTI" "9.11.3.4" guti_fields;
  mk_ie "GUTI5G" "9.11.3.4" guti_fields;
  (* figure 9.11.3.4.5 5G-S-TMSI: octet 4 = 1111 0 type; octet 5 + bits 8-7 of octet 6 AMF set ID; bits 6-1 AMF pointer; octets 7-10 5G-TMSI *)
  mk_ie "TMSI5GS" "9.11.3.4"
    [bit "Spare (bit 4)" "Spare" 0 4; bits "Type of identity" "TypeOfIdentity" 0 3 1; span "AMF Set ID" "AMFSetID" 1 10;
     bits "AMF Pointer" "AMFPointer" 2 6 1; octets "5G-TMSI" "TMSI5G" 3 4];
  (* figure 9.11.3.4.4 IMEI / IMEISV: octet 4 = identity digit 1 | odd/even | type; then digit p+1 | digit p *)
  mk_ie "IMEISV" "9.11.3.4"
    ([bits "Identity digit 1" "IdentityDigit1" 0 8 5; bit "Odd/even indication" "OddEvenIdic" 0 4; bits "Type of identity" "TypeOfIdentity" 0 3 1;
      bits "Identity digit p+1" "IdentityDigitP_1" 1 8 5; bits "Identity digit p" "IdentityDigitP" 1 4 1] ++
     flat_map (fun k => [bits ("Identity digit p+" +++ dec (2 * k + 1)) ("IdentityDigitP_" +++ dec (2 * k + 1)) (k + 1) 8 5;
                         bits ("Identity digit p+" +++ dec (2 * k)) ("IdentityDigitP_" +++ dec (2 * k)) (k + 1) 4 1]) [1; 2; 3; 4; 5; 6; 7]%nat);
  (* 9.11.3.5 5GS network feature support: octet 3 = MPSI IWK-N26 EMF(2) EMC(2) IMS-VoPS-N3GPP IMS-VoPS-3GPP; octet 4 = spare.. MCSI EMCN3; octet 5 spare *)
  mk_ie "NetworkFeatureSupport5GS" "9.11.3.5"
    [bit "MPSI" "MPSI" 0 8; bit "IWK N26" "IWKN26" 0 7; bits "EMF" "EMF" 0 6 5; bits "EMC" "EMC" 0 4 3;
     bit "IMS-VoPS-N3GPP" "IMSVoPSN3GPP" 0 2; bit "IMS-VoPS-3GPP" "IMSVoPS3GPP" 0 1;
     bit "MCSI" "MCSI" 1 2; bit "EMCN3" "EMCN" 1 1; octet "Spare (octet 5*)" "Spare" 2];
  mk_ie "RegistrationResult5GS" "9.11.3.6" [bit "SMS allowed" "SMSAllowed" 0 4; bits "5GS registration result value" "RegistrationResultValue5GS" 0 3 1];
  (* 9.11.3.8 5GS tracking area identity: octets 2-4 PLMN, octets 5-7 TAC *)
  mk_ie "LastVisitedRegisteredTAI" "9.11.3.8" (plmn 0 "" ++ [octets "TAC" "TAC" 3 3]);
  whole "TAIList" "9.11.3.9" "Partial tracking area identity lists" "PartialTrackingAreaIdentityList";
  mk_ie "UpdateType5GS" "9.11.3.9A" [bit "NG-RAN-RCU" "NGRanRcu" 0 2; bit "SMS requested" "SMSRequested" 0 1];
  whole "ABBA" "9.11.3.10" "ABBA contents" "ABBAContents";
  mk_ie "Additional5GSecurityInformation" "9.11.3.12" [bit "RINMR" "RINMR" 0 2; bit "HDP" "HDP" 0 1];
  mk_ie "AllowedPDUSessionStatus" "9.11.3.13" psi_fields;
  mk_ie "AuthenticationParameterAUTN" "9.11.3.15" [octets "AUTN" "AUTN" 0 16];
  mk_ie "AuthenticationParameterRAND" "9.11.3.16" [octets "RAND value" "RANDValue" 0 16];
  mk_ie "AuthenticationResponseParameter" "9.11.3.17" [octets "RES" "RES" 0 16];
  (* 9.11.3.23 emergency number list (TS 24.008 10.5.3.13): octet 3 length of 1st emergency number information; octet 4 = 0 0 0 | emergency service category *)
  mk_ie "EmergencyNumberList" "9.11.3.23"
    [octet "Length of 1st emergency number information" "Lengthof1EmergencyNumberInformation" 0;
     bits "Emergency service category value" "EmergencyServiceCategoryValue" 1 5 1];
  whole "EPSNASMessageContainer" "9.11.3.24" "EPS NAS message container" "EPANASMessageContainer";
  (* 9.11.3.25 EPS NAS security algorithms (TS 24.301 9.9.3.23): 0 | ciphering (bits 7-5) | 0 | integrity (bits 3-1) *)
  mk_ie "SelectedEPSNASSecurityAlgorithms" "9.11.3.25"
    [bits "Type of ciphering algorithm" "TypeOfCipheringAlgorithm" 0 7 5; bits "Type of integrity protection algorithm" "TypeOfIntegrityProtectionAlgorithm" 0 3 1];
  mk_ie "ExtendedEmergencyNumberList" "9.11.3.26" [bit "EENLV" "EENL" 0 1];
  mk_ie "IMEISVRequest" "9.11.3.28" [bits "IMEISV request value" "IMEISVRequestValue" 0 3 1];
  whole "LADNIndication" "9.11.3.29" "LADN DNN values" "LADNDNNValue";
  whole "LADNInformation" "9.11.3.30" "LADNs" "LADND";
  mk_ie "MICOIndication" "9.11.3.31" [bit "RAAI" "RAAI" 0 1];
  (* 9.11.3.32 NAS key set identifier as a TV 1 IE (non-current native NAS KSI): bit 4 TSC, bits 3-1 KSI *)
  mk_ie "NoncurrentNativeNASKeySetIdentifier" "9.11.3.32" [bit "TSC" "Tsc" 0 4; bits "NAS key set identifier" "NasKeySetIdentifiler" 0 3 1];
  whole "NASMessageContainer" "9.11.3.33" "NAS message container contents" "NASMessageContainerContents";
  (* 9.11.3.34 NAS security algorithms: bits 8-5 ciphering, bits 4-1 integrity *)
  mk_ie "SelectedNASSecurityAlgorithms" "9.11.3.34"
    [bits "Type of ciphering algorithm" "TypeOfCipheringAlgorithm" 0 8 5; bits "Type of integrity protection algorithm" "TypeOfIntegrityProtectionAlgorithm" 0 4 1];
  mk_ie "NetworkSlicingIndication" "9.11.3.36" [bit "DCNI" "DCNI" 0 2; bit "NSSCI" "NSSCI" 0 1];
  whole "RequestedNSSAI" "9.11.3.37" "S-NSSAI values" "SNSSAIValue";
  whole "AllowedNSSAI" "9.11.3.37" "S-NSSAI values" "SNSSAIValue";
  whole "ConfiguredNSSAI" "9.11.3.37" "S-NSSAI values" "SNSSAIValue";
  mk_ie "NSSAIInclusionMode" "9.11.3.37A" [bits "NSSAI inclusion mode" "NSSAIInclusionMode" 0 2 1];
  whole "OperatordefinedAccessCategoryDefinitions" "9.11.3.38" "Operator-defined access category definitions" "OperatorDefinedAccessCategoryDefintiion";
  whole "PayloadContainer" "9.11.3.39" "Payload container contents" "PayloadContainerContents";
  mk_ie "PduSessionID2Value" "9.11.3.41" [octet "PDU session identity 2 value" "PduSessionID2Value" 0];
  mk_ie "OldPDUSessionID" "9.11.3.41" [octet "PDU session identity 2 value" "OldPDUSessionID" 0];
  mk_ie "PDUSessionReactivationResult" "9.11.3.42" psi_fields;
  whole "PDUSessionReactivationResultErrorCause" "9.11.3.43" "PDU session ID and cause value pairs" "PDUSessionIDAndCauseValue";
  mk_ie "PDUSessionStatus" "9.11.3.44" psi_fields;
  (* 9.11.3.45 PLMN list (TS 24.008 10.5.1.13): 3 octets per PLMN, up to 15 *)
  mk_ie "EquivalentPlmns" "9.11.3.45" (flat_map (fun k => plmn (3 * (k - 1)) ("PLMN" +++ dec k)) (seq 1 15));
  whole "RejectedNSSAI" "9.11.3.46" "Rejected S-NSSAIs" "RejectedNSSAIContents";
  mk_ie "RequestType" "9.11.3.47" [bits "Request type value" "RequestTypeValue" 0 3 1];
  (* 9.11.3.48 S1 UE network capability (TS 24.301 9.9.3.34 UE network capability, octets 3-9; rest spare) *)
  mk_ie "S1UENetworkCapability" "9.11.3.48"
    (flags 0 [("EEA0", "EEA0"); ("128-EEA1", "EEA1_128"); ("128-EEA2", "EEA2_128"); ("128-EEA3", "EEA3_128");
              ("EEA4", "EEA4"); ("EEA5", "EEA5"); ("EEA6", "EEA6"); ("EEA7", "EEA7")] ++
     flags 1 [("EIA0", "EIA0"); ("128-EIA1", "EIA1_128"); ("128-EIA2", "EIA2_128"); ("128-EIA3", "EIA3_128");
              ("EIA4", "EIA4"); ("EIA5", "EIA5"); ("EIA6", "EIA6"); ("EIA7", "EIA7")] ++
     flags 2 (same ["UEA0"; "UEA1"; "UEA2"; "UEA3"; "UEA4"; "UEA5"; "UEA6"; "UEA7"]) ++
     flags 3 (same ["UCS2"; "UIA1"; "UIA2"; "UIA3"; "UIA4"; "UIA5"; "UIA6"; "UIA7"]) ++
     flags 4 [("ProSe-dd", "ProSedd"); ("ProSe", "ProSe"); ("H.245-ASH", "H245ASH"); ("ACC-CSFB", "ACCCSFB");
              ("LPP", "LPP"); ("LCS", "LCS"); ("1xSRVCC", "xSRVCC"); ("NF", "NF")] ++
     flags 5 [("ePCO", "EPCO"); ("HC-CP CIoT", "HCCPCIOT"); ("ERw/oPDN", "ERwoPDN"); ("S1-U data", "S1UData");
              ("UP CIoT", "UPCIot"); ("CP CIoT", "CPCIot"); ("ProSe-relay", "Proserelay"); ("ProSe-dc", "ProSedc")] ++
     flags 6 [("15 bearers", "Bearer15"); ("SGC", "SGC"); ("N1mode", "N1mode"); ("DCNR", "DCNR");
              ("CP backoff", "CPbackoff"); ("RestrictEC", "RestrictEC"); ("V2X PC5", "V2XPC5"); ("multipleDRB", "MulitpeDRB")] ++
     [rest "Spare (octets 10* to 15*)" "Spare" 7]);
  (* 9.11.3.48A S1 UE security capability (TS 24.301 9.9.3.36): EEA, EIA, UEA, 0|UIA1-7, 0|GEA1-7 *)
  mk_ie "ReplayedS1UESecurityCapabilities" "9.11.3.48A"
    (flags 0 [("EEA0", "EEA0"); ("128-EEA1", "EEA1_128"); ("128-EEA2", "EEA2_128"); ("128-EEA3", "EEA3_128");
              ("EEA4", "EEA4"); ("EEA5", "EEA5"); ("EEA6", "EEA6"); ("EEA7", "EEA7")] ++
     flags 1 [("EIA0", "EIA0"); ("128-EIA1", "EIA1_128"); ("128-EIA2", "EIA2_128"); ("128-EIA3", "EIA3_128");
              ("EIA4", "EIA4"); ("EIA5", "EIA5"); ("EIA6", "EIA6"); ("EIA7", "EIA7")] ++
     flags 2 (same ["UEA0"; "UEA1"; "UEA2"; "UEA3"; "UEA4"; "UEA5"; "UEA6"; "UEA7"]) ++
     flags 3 (same [""; "UIA1"; "UIA2"; "UIA3"; "UIA4"; "UIA5"; "UIA6"; "UIA7"]) ++
     flags 4 (same [""; "GEA1"; "GEA2"; "GEA3"; "GEA4"; "GEA5"; "GEA6"; "GEA7"]));
  whole "ServiceAreaList" "9.11.3.49" "Partial service area lists" "PartialServiceAreaList";
  whole "SORTransparentContainer" "9.11.3.51" "SOR transparent container contents" "SORContent";
  mk_ie "UESecurityCapability" "9.11.3.54" ue_sec_cap_fields;
  mk_ie "ReplayedUESecurityCapabilities" "9.11.3.54" ue_sec_cap_fields;
  mk_ie "UesUsageSetting" "9.11.3.55" [bit "UE's usage setting" "UesUsageSetting" 0 1];
  mk_ie "UEStatus" "9.11.3.56" [bit "N1 mode reg" "N1ModeReg" 0 2; bit "S1 mode reg" "S1ModeReg" 0 1];
  mk_ie "UplinkDataStatus" "9.11.3.57" psi_fields;

  (* ---- 9.11.4 5GSM IEs *)
  (* 9.11.4.1 5GSM capability: octet 3 = 0 0 0 0 0 0 MH6-PDU RqoS; octets 4*-15* spare *)
  mk_ie "Capability5GSM" "9.11.4.1" [bit "MH6-PDU" "MH6PDU" 0 2; bit "RqoS" "RqoS" 0 1; octets "Spare (octets 4* to 15*)" "Spare" 1 12];
  mk_ie "Cause5GSM" "9.11.4.2" [octet "Cause value" "CauseValue" 0];
  mk_ie "AlwaysonPDUSessionIndication" "9.11.4.3" [bit "APSI" "APSI" 0 1];
  mk_ie "AlwaysonPDUSessionRequested" "9.11.4.4" [bit "APSR" "APSR" 0 1];
  whole "ExtendedProtocolConfigurationOptions" "9.11.4.6" "Extended protocol configuration options contents" "ExtendedProtocolConfigurationOptionsContents";
  (* 9.11.4.7 Integrity protection maximum data rate: octet 2 = maximum data rate per UE for user-plane integrity protection for UPLINK,
     octet 3 = ... for DOWNLINK *)
  mk_ie "IntegrityProtectionMaximumDataRate" "9.11.4.7"
    [octet "Maximum data rate per UE for user-plane integrity protection for uplink" "MaximumDataRatePerUEForUserPlaneIntegrityProtectionForUpLink" 0;
     octet "Maximum data rate per UE for user-plane integrity protection for downlink" "MaximumDataRatePerUEForUserPlaneIntegrityProtectionForDownLink" 1];
  whole "MappedEPSBearerContexts" "9.11.4.8" "Mapped EPS bearer contexts" "MappedEPSBearerContext";
  (* 9.11.4.10 PDU address: octet 3 = 0 0 0 0 0 | PDU session type value; octets 4-15 PDU address information *)
  mk_ie "PDUAddress" "9.11.4.10" [bits "PDU session type value" "PDUSessionTypeValue" 0 3 1; octets "PDU address information" "PDUAddressInformation" 1 12];
  mk_ie "PDUSessionType" "9.11.4.11" [bit "Spare (bit 4)" "Spare" 0 4; bits "PDU session type value" "PDUSessionTypeValue" 0 3 1];
  whole "AuthorizedQosFlowDescriptions" "9.11.4.12" "QoS flow descriptions" "QoSFlowDescriptions";
  whole "RequestedQosFlowDescriptions" "9.11.4.12" "QoS flow descriptions" "QoSFlowDescriptions";
  whole "AuthorizedQosRules" "9.11.4.13" "QoS rules" "QosRule";
  whole "RequestedQosRules" "9.11.4.13" "QoS rules" "QoSRules";
  (* 9.11.4.14 Session-AMBR: octet 3 unit for downlink, 4-5 session-AMBR for downlink, 6 unit for uplink, 7-8 session-AMBR for uplink *)
  mk_ie "SessionAMBR" "9.11.4.14"
    [octet "Unit for Session-AMBR for downlink" "UnitForSessionAMBRForDownlink" 0; octets "Session-AMBR for downlink" "SessionAMBRForDownlink" 1 2;
     octet "Unit for Session-AMBR for uplink" "UnitForSessionAMBRForUplink" 3; octets "Session-AMBR for uplink" "SessionAMBRForUplink" 4 2];
  whole "SMPDUDNRequestContainer" "9.11.4.15" "DN-specific identity" "DNSpecificIdentity";
  mk_ie "SSCMode" "9.11.4.16" [bit "Spare (bit 4)" "Spare" 0 4; bits "SSC mode value" "SSCMode" 0 3 1]
].

(* ---- NOT TRANSCRIBED (types of the messages above whose sub-fields are not in the table, and why)
   DNN (9.11.2.1A): GetDNN/SetDNN convert between a dotted string and the label encoding (util_3gpp.Dnn); not an octet/bit
     accessor.  The label encoding is compared by the constructors stream of C09 (finding C09:ctor:DNN-multi-label).
   MaximumNumberOfSupportedPacketFilters (9.11.4.9): I remember the field as 11 bits (octet 2 and bits 8-6 of octet 3, values up
     to 1024) while the library implements 10 bits (bits 8-7); not sure enough of the figure to state either.
   EmergencyNumberList / ExtendedEmergencyNumberList "EmergencyInformation": the accessor pair addresses the WHOLE value,
     overlapping the two fields above; no field of the figure corresponds to it.
   Fields of 9.11.3.4 that the library has no accessor for: the leading 1111 of octet 4 of the 5G-GUTI / 5G-S-TMSI (see finding
     C09:ctor:GetServiceRequest:5G-S-TMSI-type-of-identity), SUCI / IMEI layouts (the library holds them as opaque contents).
   Bits added to these IEs by Release 16 and later (e.g. 5GMM capability octet 3 bits 8-4, MICO indication SPRTI, 5GS registration
     result bits 6-5) are outside Release 15 and have no accessor. *)
Definition untranscribed_types : list string := ["DNN"; "MaximumNumberOfSupportedPacketFilters"].
Definition untranscribed_accessors : list (string * string) :=
  [("EmergencyNumberList", "GetEmergencyInformation"); ("EmergencyNumberList", "SetEmergencyInformation");
   ("ExtendedEmergencyNumberList", "GetEmergencyInformation"); ("ExtendedEmergencyNumberList", "SetEmergencyInformation")].

Definition find_ie (go:string) : option ie_layout := find (fun l => String.eqb (ie_go l) go) ts24501_fields.

Example spec_uplink_is_first : spec_set (FBits 0 8 1) [0; 0xFF] (inl 0x11) = Some [0x11; 0xFF].
Proof. vm_compute. reflexivity. Qed.
Example spec_amf_set_id :
  spec_set (FSpan 1 10) [0xF4; 0; 0x3F; 0; 0; 0; 1] (inl 0x3F8) = Some [0xF4; 0xFE; 0x3F; 0; 0; 0; 1] /\
  spec_get (FSpan 1 10) [0xF4; 0xFE; 0x3F; 0; 0; 0; 1] = Some (inl 0x3F8).
Proof. vm_compute. split; reflexivity. Qed.
Example spec_ksi_in_high_nibble : spec_set (FBits 0 7 5) [0xFF] (inl 2) = Some [0xAF] /\ spec_get (FBits 0 7 5) [0xAF] = Some (inl 2).
Proof. vm_compute. split; reflexivity. Qed.
Example spec_table_size : (length ts24501_fields, length (flat_map ie_fields ts24501_fields)) = (105%nat, 513%nat).
Proof. vm_compute. reflexivity. Qed.
