(* FROZEN transcription of the NGAP (TS 38.413 v15) types and constraints in the tag notation: the schema as extracted
   from the pinned tree after its encodings had been cross-checked against the independent X.691 reference.
   This file is NOT regenerated; Gen/NgapSchema.v (regenerated on every check) is compared with it, and the
   specification side of the C03/C04 streams interprets THESE types, so a changed tag shows up as a violation. *)
From Coq Require Import ZArith NArith List String.
Require Import AperCommon.
Import ListNotations.
Local Open Scope string_scope.

Definition gp0 : params := mkp false false false false None None (Some 0%Z) (Some 255%Z) None "".
Definition gp1 : params := mkp false false false false None None (Some 0%Z) (Some 2%Z) None "".
Definition gp2 : params := mkp false false false false None None (Some 0%Z) (Some 65535%Z) None "".
Definition gp3 : params := mkp false true false false (Some 1%Z) (Some 150%Z) None None None "".
Definition gp4 : params := mkp false false false false (Some 3%Z) (Some 3%Z) None None None "".
Definition gp5 : params := mkp false false false false (Some 8%Z) (Some 8%Z) None None None "".
Definition gp6 : params := mkp false false false false (Some 10%Z) (Some 10%Z) None None None "".
Definition gp7 : params := mkp false false false false (Some 6%Z) (Some 6%Z) None None None "".
Definition gp8 : params := mkp false false false false None None None None None "".
Definition gp9 : params := mkp false false false true None None None None None "Id".
Definition gp10 : params := mkp false false false false (Some 1%Z) (Some 65535%Z) None None None "".
Definition gp11 : params := mkp true false false false None None None None None "".
Definition gp12 : params := mkp false false true false None None None None None "".
Definition gp13 : params := mkp true true false false (Some 1%Z) (Some 150%Z) None None None "".
Definition gp14 : params := mkp false false true false (Some 1%Z) (Some 256%Z) None None None "".
Definition gp15 : params := mkp false false false false (Some 1%Z) (Some 1%Z) None None None "".
Definition gp16 : params := mkp false false true false (Some 1%Z) (Some 1024%Z) None None None "".
Definition gp17 : params := mkp false false true false (Some 1%Z) (Some 12%Z) None None None "".
Definition gp18 : params := mkp false true false false (Some 1%Z) (Some 160%Z) None None None "".
Definition gp19 : params := mkp false false true false None None (Some 0%Z) (Some 2%Z) None "".
Definition gp20 : params := mkp false false false false None None (Some 0%Z) (Some 1%Z) None "".
Definition gp21 : params := mkp false false true false (Some 1%Z) (Some 32%Z) None None None "".
Definition gp22 : params := mkp false false false false None None None None (Some 1%Z) "".
Definition gp23 : params := mkp false false false false None None None None (Some 96%Z) "".
Definition gp24 : params := mkp false false false false None None None None (Some 86%Z) "".
Definition gp25 : params := mkp false false false false None None None None (Some 80%Z) "".
Definition gp26 : params := mkp false false false false None None None None (Some 6%Z) "".
Definition gp27 : params := mkp false false false false None None None None (Some 7%Z) "".
Definition gp28 : params := mkp false false false false None None None None (Some 8%Z) "".
Definition gp29 : params := mkp false false false false (Some 0%Z) (Some 65535%Z) None None None "".
Definition gp30 : params := mkp false false false false None None (Some 0%Z) (Some 1099511627775%Z) None "".
Definition gp31 : params := mkp false false false false None None (Some 0%Z) (Some 4294967295%Z) None "".
Definition gp32 : params := mkp false false true false None None (Some 0%Z) (Some 44%Z) None "".
Definition gp33 : params := mkp false false true false None None (Some 0%Z) (Some 1%Z) None "".
Definition gp34 : params := mkp false false true false None None (Some 0%Z) (Some 3%Z) None "".
Definition gp35 : params := mkp false false true false None None (Some 0%Z) (Some 6%Z) None "".
Definition gp36 : params := mkp false false true false None None (Some 0%Z) (Some 5%Z) None "".
Definition gp37 : params := mkp false false false false None None None None (Some 10%Z) "".
Definition gp38 : params := mkp false false false false None None None None (Some 85%Z) "".
Definition gp39 : params := mkp false false false false None None (Some 0%Z) (Some 5%Z) (Some 15%Z) "".
Definition gp40 : params := mkp false false false false (Some 22%Z) (Some 32%Z) None None None "".
Definition gp41 : params := mkp false false false false (Some 20%Z) (Some 20%Z) None None None "".
Definition gp42 : params := mkp false false false false (Some 18%Z) (Some 18%Z) None None None "".
Definition gp43 : params := mkp false false false false (Some 21%Z) (Some 21%Z) None None None "".
Definition gp44 : params := mkp false false false false None None (Some 0%Z) (Some 3%Z) None "".
Definition gp45 : params := mkp false false false false (Some 16%Z) (Some 16%Z) None None None "".
Definition gp46 : params := mkp false false false false (Some 2%Z) (Some 2%Z) None None None "".
Definition gp47 : params := mkp false false true false None None (Some 0%Z) (Some 0%Z) None "".
Definition gp48 : params := mkp false false false false None None None None (Some 29%Z) "".
Definition gp49 : params := mkp false false false false None None (Some 0%Z) (Some 2%Z) (Some 105%Z) "".
Definition gp50 : params := mkp false false false false None None None None (Some 22%Z) "".
Definition gp51 : params := mkp false false false false None None None None (Some 61%Z) "".
Definition gp52 : params := mkp false false false false None None None None (Some 101%Z) "".
Definition gp53 : params := mkp false false true false None None (Some 0%Z) (Some 4000000000000%Z) None "".
Definition gp54 : params := mkp false false true false (Some 1%Z) (Some 16%Z) None None None "".
Definition gp55 : params := mkp false false false false (Some 36%Z) (Some 36%Z) None None None "".
Definition gp56 : params := mkp false false false false (Some 28%Z) (Some 28%Z) None None None "".
Definition gp57 : params := mkp true false false false None None (Some 0%Z) (Some 4095%Z) None "".
Definition gp58 : params := mkp true false true false None None None None None "".
Definition gp59 : params := mkp false true false false (Some 16%Z) (Some 16%Z) None None None "".
Definition gp60 : params := mkp false false false false None None (Some 0%Z) (Some 7%Z) None "".
Definition gp61 : params := mkp false false false false (Some 256%Z) (Some 256%Z) None None None "".
Definition gp62 : params := mkp false false true false (Some 1%Z) (Some 8%Z) None None None "".
Definition gp63 : params := mkp false false false false (Some 64%Z) (Some 64%Z) None None None "".
Definition gp64 : params := mkp false false false false (Some 1%Z) (Some 15%Z) None None None "".
Definition gp65 : params := mkp false true false false (Some 8%Z) (Some 8%Z) None None None "".
Definition gp66 : params := mkp false false true false (Some 0%Z) (Some 16%Z) None None None "".
Definition gp67 : params := mkp false false false false (Some 1%Z) (Some 4096%Z) None None None "".
Definition gp68 : params := mkp false false false false (Some 1%Z) (Some 16%Z) None None None "".
Definition gp69 : params := mkp false false true false (Some 1%Z) (Some 64%Z) None None None "".
Definition gp70 : params := mkp false false true false None None (Some 1%Z) (Some 64%Z) None "".
Definition gp71 : params := mkp false false true false None None None None (Some 110%Z) "".
Definition gp72 : params := mkp false false true false None None None None (Some 18%Z) "".
Definition gp73 : params := mkp false false true false None None None None (Some 119%Z) "".
Definition gp74 : params := mkp false false true false None None None None (Some 93%Z) "".
Definition gp75 : params := mkp false false false false None None None None (Some 41%Z) "".
Definition gp76 : params := mkp false false false false None None None None (Some 37%Z) "".
Definition gp77 : params := mkp false false false false None None None None (Some 73%Z) "".
Definition gp78 : params := mkp false false false false None None None None (Some 0%Z) "".
Definition gp79 : params := mkp false false true false None None None None (Some 108%Z) "".
Definition gp80 : params := mkp false false false false None None None None (Some 34%Z) "".
Definition gp81 : params := mkp false false true false None None None None (Some 36%Z) "".
Definition gp82 : params := mkp false false true false None None None None (Some 33%Z) "".
Definition gp83 : params := mkp false false false false None None None None (Some 91%Z) "".
Definition gp84 : params := mkp false false true false None None None None (Some 28%Z) "".
Definition gp85 : params := mkp false false true false None None (Some 1%Z) (Some 256%Z) None "".
Definition gp86 : params := mkp false false false false None None None None (Some 48%Z) "".
Definition gp87 : params := mkp false false false false None None None None (Some 71%Z) "".
Definition gp88 : params := mkp false false false false None None None None (Some 94%Z) "".
Definition gp89 : params := mkp false false false false None None None None (Some 117%Z) "".
Definition gp90 : params := mkp false false false false None None None None (Some 31%Z) "".
Definition gp91 : params := mkp false false false false None None None None (Some 38%Z) "".
Definition gp92 : params := mkp false false true false None None None None (Some 24%Z) "".
Definition gp93 : params := mkp false false true false None None None None (Some 118%Z) "".
Definition gp94 : params := mkp false false true false (Some 1%Z) (Some 65536%Z) None None None "".
Definition gp95 : params := mkp false false false false None None (Some 0%Z) (Some 2%Z) (Some 88%Z) "".
Definition gp96 : params := mkp false false false false None None (Some 0%Z) (Some 3%Z) (Some 27%Z) "".
Definition gp97 : params := mkp false false false false None None None None (Some 82%Z) "".
Definition gp98 : params := mkp false false false false None None None None (Some 102%Z) "".
Definition gp99 : params := mkp false false false false None None None None (Some 21%Z) "".
Definition gp100 : params := mkp false false false false (Some 4%Z) (Some 4%Z) None None None "".
Definition gp101 : params := mkp false false false false None None None None (Some 100%Z) "".
Definition gp102 : params := mkp false false false false None None (Some 0%Z) (Some 3%Z) (Some 121%Z) "".
Definition gp103 : params := mkp false false false false None None None None (Some 76%Z) "".
Definition gp104 : params := mkp false false false false None None None None (Some 57%Z) "".
Definition gp105 : params := mkp false false false false None None (Some 1%Z) (Some 256%Z) None "".
Definition gp106 : params := mkp false false false false None None None None (Some 83%Z) "".
Definition gp107 : params := mkp false false false false None None None None (Some 64%Z) "".
Definition gp108 : params := mkp false false false false None None None None (Some 63%Z) "".
Definition gp109 : params := mkp false false false false None None None None (Some 79%Z) "".
Definition gp110 : params := mkp false false false false None None None None (Some 74%Z) "".
Definition gp111 : params := mkp false false true false (Some 1%Z) (Some 65535%Z) None None None "".
Definition gp112 : params := mkp false false false false None None None None (Some 35%Z) "".
Definition gp113 : params := mkp false false false false None None None None (Some 95%Z) "".
Definition gp114 : params := mkp false false false false None None (Some 0%Z) (Some 4%Z) (Some 122%Z) "".
Definition gp115 : params := mkp false false false false None None None None (Some 14%Z) "".
Definition gp116 : params := mkp false false false false None None None None (Some 40%Z) "".
Definition gp117 : params := mkp false false false false None None (Some 0%Z) (Some 2%Z) (Some 114%Z) "".
Definition gp118 : params := mkp false false false false None None (Some 0%Z) (Some 131071%Z) None "".
Definition gp119 : params := mkp false false false false (Some 50%Z) (Some 50%Z) None None None "".
Definition gp120 : params := mkp false false false false (Some 1%Z) (Some 9600%Z) None None None "".
Definition gp121 : params := mkp false false false false (Some 1%Z) (Some 1024%Z) None None None "".
Definition gp122 : params := mkp false false false false None None None None (Some 87%Z) "".
Definition gp123 : params := mkp false false false false None None None None (Some 47%Z) "".
Definition gp124 : params := mkp false false false false None None None None (Some 125%Z) "".
Definition gp125 : params := mkp false false false false None None None None (Some 124%Z) "".
Definition gp126 : params := mkp false false false false None None None None (Some 20%Z) "".
Definition gp127 : params := mkp false false false false None None None None (Some 123%Z) "".
Definition gp128 : params := mkp false false false false None None None None (Some 17%Z) "".
Definition gp129 : params := mkp false false false false None None None None (Some 141%Z) "".
Definition gp130 : params := mkp false false false false None None None None (Some 120%Z) "".
Definition gp131 : params := mkp false false false false None None None None (Some 44%Z) "".
Definition gp132 : params := mkp false false false false None None (Some 0%Z) (Some 2%Z) (Some 43%Z) "".
Definition gp133 : params := mkp false false false false None None None None (Some 109%Z) "".
Definition gp134 : params := mkp false false false false None None None None (Some 89%Z) "".
Definition gp135 : params := mkp false false false false None None None None (Some 46%Z) "".
Definition gp136 : params := mkp false false true false (Some 1%Z) (Some 2%Z) None None None "".
Definition gp137 : params := mkp false false true false None None None None (Some 98%Z) "".
Definition gp138 : params := mkp false false true false None None (Some 1%Z) (Some 32%Z) None "".
Definition gp139 : params := mkp false false false false None None (Some 0%Z) (Some 4095%Z) None "".
Definition gp140 : params := mkp false false false false None None (Some 0%Z) (Some 1048575%Z) None "".
Definition gp141 : params := mkp true false false false (Some 1%Z) (Some 2048%Z) None None None "".
Definition gp142 : params := mkp false false false false None None (Some 0%Z) (Some 262143%Z) None "".
Definition gp143 : params := mkp false false false false None None (Some 0%Z) (Some 16383%Z) None "".
Definition gp144 : params := mkp true false false false (Some 1%Z) (Some 131072%Z) None None None "".
Definition gp145 : params := mkp false false true false None None None None (Some 84%Z) "".
Definition gp146 : params := mkp false false true false None None None None (Some 19%Z) "".
Definition gp147 : params := mkp false false true false None None (Some 0%Z) (Some 9%Z) None "".
Definition gp148 : params := mkp false false false false None None None None (Some 90%Z) "".
Definition gp149 : params := mkp false false true false None None None None (Some 26%Z) "".
Definition gp150 : params := mkp false false false false None None None None (Some 3%Z) "".
Definition gp151 : params := mkp false false false false None None None None (Some 112%Z) "".
Definition gp152 : params := mkp false false false false None None None None (Some 116%Z) "".
Definition gp153 : params := mkp false false false false None None (Some 1%Z) (Some 99%Z) None "".
Definition gp154 : params := mkp true false false false None None (Some 0%Z) (Some 1%Z) None "".
Definition gp155 : params := mkp false false false false None None (Some 0%Z) (Some 1%Z) (Some 2%Z) "".
Definition gp156 : params := mkp false false false false None None None None (Some 9%Z) "".
Definition gp157 : params := mkp false false false false None None None None (Some 49%Z) "".
Definition gp158 : params := mkp false false true false None None (Some 0%Z) (Some 7%Z) None "".
Definition gp159 : params := mkp false false true false None None (Some 1%Z) (Some 16%Z) None "".
Definition gp160 : params := mkp false false false false None None (Some 0%Z) (Some 1%Z) (Some 115%Z) "".
Definition gp161 : params := mkp false false false false None None None None (Some 50%Z) "".
Definition gp162 : params := mkp false false false false None None None None (Some 103%Z) "".
Definition gp163 : params := mkp false false false false None None None None (Some 52%Z) "".
Definition gp164 : params := mkp false false false false None None None None (Some 51%Z) "".
Definition gp165 : params := mkp false false true false None None None None (Some 11%Z) "".
Definition gp166 : params := mkp false false false false None None None None (Some 66%Z) "".
Definition gp167 : params := mkp false false false false None None None None (Some 67%Z) "".
Definition gp168 : params := mkp false false true false (Some 1%Z) (Some 16384%Z) None None None "".
Definition gp169 : params := mkp false false false false None None (Some 0%Z) (Some 2%Z) (Some 81%Z) "".
Definition gp170 : params := mkp false false true false (Some 1%Z) (Some 2048%Z) None None None "".
Definition gp171 : params := mkp false false false false (Some 1%Z) (Some 256%Z) None None None "".
Definition gp172 : params := mkp false false false false None None (Some 0%Z) (Some 2%Z) (Some 16%Z) "".
Definition gp173 : params := mkp false false false false None None None None (Some 104%Z) "".
Definition gp174 : params := mkp false false false false None None None None (Some 23%Z) "".
Definition gp175 : params := mkp false false false false None None None None (Some 42%Z) "".
Definition gp176 : params := mkp false false false false None None None None (Some 92%Z) "".
Definition gp177 : params := mkp false false false false None None None None (Some 133%Z) "".
Definition gp178 : params := mkp false false true false None None None None (Some 99%Z) "".
Definition gp179 : params := mkp false false true false None None None None (Some 0%Z) "".
Definition gp180 : params := mkp false false true false None None None None (Some 10%Z) "".
Definition gp181 : params := mkp false false true false None None None None (Some 12%Z) "".
Definition gp182 : params := mkp false false true false None None None None (Some 13%Z) "".
Definition gp183 : params := mkp false false true false None None None None (Some 14%Z) "".
Definition gp184 : params := mkp false false true false None None None None (Some 20%Z) "".
Definition gp185 : params := mkp false false true false None None None None (Some 21%Z) "".
Definition gp186 : params := mkp false false true false None None None None (Some 25%Z) "".
Definition gp187 : params := mkp false false true false None None None None (Some 27%Z) "".
Definition gp188 : params := mkp false false true false None None None None (Some 29%Z) "".
Definition gp189 : params := mkp false false true false None None None None (Some 32%Z) "".
Definition gp190 : params := mkp false false true false None None None None (Some 35%Z) "".
Definition gp191 : params := mkp false false true false None None None None (Some 40%Z) "".
Definition gp192 : params := mkp false false true false None None None None (Some 41%Z) "".
Definition gp193 : params := mkp false false true false None None None None (Some 43%Z) "".
Definition gp194 : params := mkp false false true false None None None None (Some 51%Z) "".
Definition gp195 : params := mkp false false true false None None None None (Some 1%Z) "".
Definition gp196 : params := mkp false false true false None None None None (Some 2%Z) "".
Definition gp197 : params := mkp false false true false None None None None (Some 3%Z) "".
Definition gp198 : params := mkp false false true false None None None None (Some 4%Z) "".
Definition gp199 : params := mkp false false true false None None None None (Some 5%Z) "".
Definition gp200 : params := mkp false false true false None None None None (Some 6%Z) "".
Definition gp201 : params := mkp false false true false None None None None (Some 7%Z) "".
Definition gp202 : params := mkp false false true false None None None None (Some 8%Z) "".
Definition gp203 : params := mkp false false true false None None None None (Some 9%Z) "".
Definition gp204 : params := mkp false false true false None None None None (Some 15%Z) "".
Definition gp205 : params := mkp false false true false None None None None (Some 16%Z) "".
Definition gp206 : params := mkp false false true false None None None None (Some 17%Z) "".
Definition gp207 : params := mkp false false true false None None None None (Some 22%Z) "".
Definition gp208 : params := mkp false false true false None None None None (Some 23%Z) "".
Definition gp209 : params := mkp false false true false None None None None (Some 30%Z) "".
Definition gp210 : params := mkp false false true false None None None None (Some 31%Z) "".
Definition gp211 : params := mkp false false true false None None None None (Some 34%Z) "".
Definition gp212 : params := mkp false false true false None None None None (Some 37%Z) "".
Definition gp213 : params := mkp false false true false None None None None (Some 38%Z) "".
Definition gp214 : params := mkp false false true false None None None None (Some 39%Z) "".
Definition gp215 : params := mkp false false true false None None None None (Some 42%Z) "".
Definition gp216 : params := mkp false false true false None None None None (Some 44%Z) "".
Definition gp217 : params := mkp false false true false None None None None (Some 45%Z) "".
Definition gp218 : params := mkp false false true false None None None None (Some 46%Z) "".
Definition gp219 : params := mkp false false true false None None None None (Some 47%Z) "".
Definition gp220 : params := mkp false false true false None None None None (Some 48%Z) "".
Definition gp221 : params := mkp false false true false None None None None (Some 49%Z) "".
Definition gp222 : params := mkp false false true false None None None None (Some 50%Z) "".
Definition gp223 : params := mkp false false false true None None None None None "ProcedureCode".
Definition gp224 : params := mkp false false false false None None (Some 0%Z) (Some 5%Z) None "".
Definition gp225 : params := mkp false false false false None None None None (Some 5%Z) "".
Definition gp226 : params := mkp false false false false None None None None (Some 4%Z) "".
Definition gp227 : params := mkp false false false false None None None None (Some 39%Z) "".
Definition gp228 : params := mkp false false false false None None None None (Some 59%Z) "".
Definition gp229 : params := mkp false false false false None None None None (Some 78%Z) "".
Definition gp230 : params := mkp false false false false None None None None (Some 106%Z) "".
Definition gp231 : params := mkp false false false false None None None None (Some 53%Z) "".
Definition gp232 : params := mkp false false false false None None None None (Some 56%Z) "".
Definition gp233 : params := mkp false false false false None None None None (Some 72%Z) "".
Definition gp234 : params := mkp false false false false None None None None (Some 55%Z) "".
Definition gp235 : params := mkp false false false false None None None None (Some 111%Z) "".
Definition gp236 : params := mkp false false false false None None None None (Some 77%Z) "".
Definition gp237 : params := mkp false false false false None None None None (Some 68%Z) "".
Definition gp238 : params := mkp false false false false None None None None (Some 65%Z) "".
Definition gp239 : params := mkp false false false false None None None None (Some 54%Z) "".
Definition gp240 : params := mkp false false false false None None None None (Some 62%Z) "".
Definition gp241 : params := mkp false false false false None None None None (Some 131%Z) "".
Definition gp242 : params := mkp false false false false None None None None (Some 70%Z) "".
Definition gp243 : params := mkp false false false false None None None None (Some 75%Z) "".
Definition gp244 : params := mkp false false false false None None None None (Some 58%Z) "".
Definition gp245 : params := mkp false false false false None None (Some 0%Z) (Some 6%Z) (Some 12%Z) "".
Definition gp246 : params := mkp false false false false None None None None (Some 60%Z) "".
Definition gp247 : params := mkp false false false false None None None None (Some 30%Z) "".
Definition gp248 : params := mkp false false false false None None (Some 0%Z) (Some 6%Z) (Some 13%Z) "".
Definition gp249 : params := mkp false false false false None None None None (Some 107%Z) "".
Definition gp250 : params := mkp false false false false None None None None (Some 132%Z) "".
Definition gp251 : params := mkp false false false false None None None None (Some 69%Z) "".
Definition gp252 : params := mkp false false true false None None (Some 0%Z) (Some 4%Z) None "".
Definition gp253 : params := mkp false false true false None None (Some 0%Z) (Some 63%Z) None "".
Definition gp254 : params := mkp false false true false None None (Some 0%Z) (Some 255%Z) None "".
Definition gp255 : params := mkp false false true false None None (Some 1%Z) (Some 127%Z) None "".
Definition gp256 : params := mkp false false true false None None (Some 0%Z) (Some 4095%Z) None "".
Definition gp257 : params := mkp false false true false None None (Some 0%Z) (Some 1023%Z) None "".
Definition gp258 : params := mkp false false false false None None (Some 1%Z) (Some 15%Z) None "".
Definition gp259 : params := mkp false false true false None None (Some 0%Z) (Some 1000%Z) None "".
Definition gp260 : params := mkp false false true false None None (Some 0%Z) (Some 15%Z) None "".
Definition gp261 : params := mkp false false true false None None None None (Some 130%Z) "".
Definition gp262 : params := mkp false false false false None None (Some 0%Z) (Some 1%Z) (Some 139%Z) "".
Definition gp263 : params := mkp false false false false None None (Some 0%Z) (Some 1%Z) (Some 126%Z) "".
Definition gp264 : params := mkp false false false false None None None None (Some 127%Z) "".
Definition gp265 : params := mkp false false false false None None None None (Some 134%Z) "".
Definition gp266 : params := mkp false false true false None None None None (Some 138%Z) "".
Definition gp267 : params := mkp false false false false None None None None (Some 129%Z) "".
Definition gp268 : params := mkp false false false false None None None None (Some 136%Z) "".
Definition gp269 : params := mkp false false true false (Some 0%Z) (Some 4%Z) None None None "".
Definition gp270 : params := mkp false false false false None None None None (Some 140%Z) "".
Definition gp271 : params := mkp false false false false None None None None (Some 135%Z) "".
Definition gp272 : params := mkp false false false false None None None None (Some 137%Z) "".
Definition gp273 : params := mkp false false true false (Some 1%Z) (Some 4%Z) None None None "".
Definition gp274 : params := mkp true false false false None None (Some 0%Z) (Some 2%Z) None "".
Definition gp275 : params := mkp false false false false None None (Some 0%Z) (Some 40950%Z) None "".
Definition gp276 : params := mkp true false false false None None (Some 0%Z) (Some 5%Z) None "".
Definition gp277 : params := mkp false false false false None None (Some 0%Z) (Some 4%Z) None "".

Definition G_ProcedureCode : ty := TStruct [
  ("Value", gp0, TInt)].
Definition G_Criticality : ty := TStruct [
  ("Value", gp1, TEnum)].
Definition G_ProtocolIEID : ty := TStruct [
  ("Value", gp2, TInt)].
Definition G_AMFName : ty := TStruct [
  ("Value", gp3, TString)].
Definition G_PLMNIdentity : ty := TStruct [
  ("Value", gp4, TOctets)].
Definition G_AMFRegionID : ty := TStruct [
  ("Value", gp5, TBits)].
Definition G_AMFSetID : ty := TStruct [
  ("Value", gp6, TBits)].
Definition G_AMFPointer : ty := TStruct [
  ("Value", gp7, TBits)].
Definition G_ProtocolExtensionID : ty := TStruct [
  ("Value", gp2, TInt)].
Definition G_GUAMIExtIEsExtensionValue : ty := TStruct [
  ("Present", gp8, TInt)].
Definition G_GUAMIExtIEs : ty := TStruct [
  ("Id", gp8, G_ProtocolExtensionID);
  ("Criticality", gp8, G_Criticality);
  ("ExtensionValue", gp9, G_GUAMIExtIEsExtensionValue)].
Definition G_ProtocolExtensionContainerGUAMIExtIEs : ty := TStruct [
  ("List", gp10, (TSlice G_GUAMIExtIEs))].
Definition G_GUAMI : ty := TStruct [
  ("PLMNIdentity", gp8, G_PLMNIdentity);
  ("AMFRegionID", gp8, G_AMFRegionID);
  ("AMFSetID", gp8, G_AMFSetID);
  ("AMFPointer", gp8, G_AMFPointer);
  ("IEExtensions", gp11, (TPtr G_ProtocolExtensionContainerGUAMIExtIEs))].
Definition G_ServedGUAMIItemExtIEsExtensionValue : ty := TStruct [
  ("Present", gp8, TInt)].
Definition G_ServedGUAMIItemExtIEs : ty := TStruct [
  ("Id", gp8, G_ProtocolExtensionID);
  ("Criticality", gp8, G_Criticality);
  ("ExtensionValue", gp9, G_ServedGUAMIItemExtIEsExtensionValue)].
Definition G_ProtocolExtensionContainerServedGUAMIItemExtIEs : ty := TStruct [
  ("List", gp10, (TSlice G_ServedGUAMIItemExtIEs))].
Definition G_ServedGUAMIItem : ty := TStruct [
  ("GUAMI", gp12, G_GUAMI);
  ("BackupAMFName", gp13, (TPtr G_AMFName));
  ("IEExtensions", gp11, (TPtr G_ProtocolExtensionContainerServedGUAMIItemExtIEs))].
Definition G_ServedGUAMIList : ty := TStruct [
  ("List", gp14, (TSlice G_ServedGUAMIItem))].
Definition G_RelativeAMFCapacity : ty := TStruct [
  ("Value", gp0, TInt)].
Definition G_SST : ty := TStruct [
  ("Value", gp15, TOctets)].
Definition G_SD : ty := TStruct [
  ("Value", gp4, TOctets)].
Definition G_SNSSAIExtIEsExtensionValue : ty := TStruct [
  ("Present", gp8, TInt)].
Definition G_SNSSAIExtIEs : ty := TStruct [
  ("Id", gp8, G_ProtocolExtensionID);
  ("Criticality", gp8, G_Criticality);
  ("ExtensionValue", gp9, G_SNSSAIExtIEsExtensionValue)].
Definition G_ProtocolExtensionContainerSNSSAIExtIEs : ty := TStruct [
  ("List", gp10, (TSlice G_SNSSAIExtIEs))].
Definition G_SNSSAI : ty := TStruct [
  ("SST", gp8, G_SST);
  ("SD", gp11, (TPtr G_SD));
  ("IEExtensions", gp11, (TPtr G_ProtocolExtensionContainerSNSSAIExtIEs))].
Definition G_SliceSupportItemExtIEsExtensionValue : ty := TStruct [
  ("Present", gp8, TInt)].
Definition G_SliceSupportItemExtIEs : ty := TStruct [
  ("Id", gp8, G_ProtocolExtensionID);
  ("Criticality", gp8, G_Criticality);
  ("ExtensionValue", gp9, G_SliceSupportItemExtIEsExtensionValue)].
Definition G_ProtocolExtensionContainerSliceSupportItemExtIEs : ty := TStruct [
  ("List", gp10, (TSlice G_SliceSupportItemExtIEs))].
Definition G_SliceSupportItem : ty := TStruct [
  ("SNSSAI", gp12, G_SNSSAI);
  ("IEExtensions", gp11, (TPtr G_ProtocolExtensionContainerSliceSupportItemExtIEs))].
Definition G_SliceSupportList : ty := TStruct [
  ("List", gp16, (TSlice G_SliceSupportItem))].
Definition G_PLMNSupportItemExtIEsExtensionValue : ty := TStruct [
  ("Present", gp8, TInt)].
Definition G_PLMNSupportItemExtIEs : ty := TStruct [
  ("Id", gp8, G_ProtocolExtensionID);
  ("Criticality", gp8, G_Criticality);
  ("ExtensionValue", gp9, G_PLMNSupportItemExtIEsExtensionValue)].
Definition G_ProtocolExtensionContainerPLMNSupportItemExtIEs : ty := TStruct [
  ("List", gp10, (TSlice G_PLMNSupportItemExtIEs))].
Definition G_PLMNSupportItem : ty := TStruct [
  ("PLMNIdentity", gp8, G_PLMNIdentity);
  ("SliceSupportList", gp8, G_SliceSupportList);
  ("IEExtensions", gp11, (TPtr G_ProtocolExtensionContainerPLMNSupportItemExtIEs))].
Definition G_PLMNSupportList : ty := TStruct [
  ("List", gp17, (TSlice G_PLMNSupportItem))].
Definition G_TransportLayerAddress : ty := TStruct [
  ("Value", gp18, TBits)].
Definition G_ProtocolIESingleContainerCPTransportLayerInformationExtIEs : ty := TStruct [].
Definition G_CPTransportLayerInformation : ty := TStruct [
  ("Present", gp8, TInt);
  ("EndpointIPAddress", gp8, (TPtr G_TransportLayerAddress));
  ("ChoiceExtensions", gp8, (TPtr G_ProtocolIESingleContainerCPTransportLayerInformationExtIEs))].
Definition G_TNLAssociationUsage : ty := TStruct [
  ("Value", gp19, TEnum)].
Definition G_TNLAddressWeightFactor : ty := TStruct [
  ("Value", gp0, TInt)].
Definition G_AMFTNLAssociationToAddItemExtIEsExtensionValue : ty := TStruct [
  ("Present", gp8, TInt)].
Definition G_AMFTNLAssociationToAddItemExtIEs : ty := TStruct [
  ("Id", gp8, G_ProtocolExtensionID);
  ("Criticality", gp8, G_Criticality);
  ("ExtensionValue", gp9, G_AMFTNLAssociationToAddItemExtIEsExtensionValue)].
Definition G_ProtocolExtensionContainerAMFTNLAssociationToAddItemExtIEs : ty := TStruct [
  ("List", gp10, (TSlice G_AMFTNLAssociationToAddItemExtIEs))].
Definition G_AMFTNLAssociationToAddItem : ty := TStruct [
  ("AMFTNLAssociationAddress", gp20, G_CPTransportLayerInformation);
  ("TNLAssociationUsage", gp11, (TPtr G_TNLAssociationUsage));
  ("TNLAddressWeightFactor", gp8, G_TNLAddressWeightFactor);
  ("IEExtensions", gp11, (TPtr G_ProtocolExtensionContainerAMFTNLAssociationToAddItemExtIEs))].
Definition G_AMFTNLAssociationToAddList : ty := TStruct [
  ("List", gp21, (TSlice G_AMFTNLAssociationToAddItem))].
Definition G_AMFTNLAssociationToRemoveItemExtIEsExtensionValue : ty := TStruct [
  ("Present", gp8, TInt)].
Definition G_AMFTNLAssociationToRemoveItemExtIEs : ty := TStruct [
  ("Id", gp8, G_ProtocolExtensionID);
  ("Criticality", gp8, G_Criticality);
  ("ExtensionValue", gp9, G_AMFTNLAssociationToRemoveItemExtIEsExtensionValue)].
Definition G_ProtocolExtensionContainerAMFTNLAssociationToRemoveItemExtIEs : ty := TStruct [
  ("List", gp10, (TSlice G_AMFTNLAssociationToRemoveItemExtIEs))].
Definition G_AMFTNLAssociationToRemoveItem : ty := TStruct [
  ("AMFTNLAssociationAddress", gp20, G_CPTransportLayerInformation);
  ("IEExtensions", gp11, (TPtr G_ProtocolExtensionContainerAMFTNLAssociationToRemoveItemExtIEs))].
Definition G_AMFTNLAssociationToRemoveList : ty := TStruct [
  ("List", gp21, (TSlice G_AMFTNLAssociationToRemoveItem))].
Definition G_AMFTNLAssociationToUpdateItemExtIEsExtensionValue : ty := TStruct [
  ("Present", gp8, TInt)].
Definition G_AMFTNLAssociationToUpdateItemExtIEs : ty := TStruct [
  ("Id", gp8, G_ProtocolExtensionID);
  ("Criticality", gp8, G_Criticality);
  ("ExtensionValue", gp9, G_AMFTNLAssociationToUpdateItemExtIEsExtensionValue)].
Definition G_ProtocolExtensionContainerAMFTNLAssociationToUpdateItemExtIEs : ty := TStruct [
  ("List", gp10, (TSlice G_AMFTNLAssociationToUpdateItemExtIEs))].
Definition G_AMFTNLAssociationToUpdateItem : ty := TStruct [
  ("AMFTNLAssociationAddress", gp20, G_CPTransportLayerInformation);
  ("TNLAssociationUsage", gp11, (TPtr G_TNLAssociationUsage));
  ("TNLAddressWeightFactor", gp11, (TPtr G_TNLAddressWeightFactor));
  ("IEExtensions", gp11, (TPtr G_ProtocolExtensionContainerAMFTNLAssociationToUpdateItemExtIEs))].
Definition G_AMFTNLAssociationToUpdateList : ty := TStruct [
  ("List", gp21, (TSlice G_AMFTNLAssociationToUpdateItem))].
Definition G_AMFConfigurationUpdateIEsValue : ty := TStruct [
  ("Present", gp8, TInt);
  ("AMFName", gp22, (TPtr G_AMFName));
  ("ServedGUAMIList", gp23, (TPtr G_ServedGUAMIList));
  ("RelativeAMFCapacity", gp24, (TPtr G_RelativeAMFCapacity));
  ("PLMNSupportList", gp25, (TPtr G_PLMNSupportList));
  ("AMFTNLAssociationToAddList", gp26, (TPtr G_AMFTNLAssociationToAddList));
  ("AMFTNLAssociationToRemoveList", gp27, (TPtr G_AMFTNLAssociationToRemoveList));
  ("AMFTNLAssociationToUpdateList", gp28, (TPtr G_AMFTNLAssociationToUpdateList))].
Definition G_AMFConfigurationUpdateIEs : ty := TStruct [
  ("Id", gp8, G_ProtocolIEID);
  ("Criticality", gp8, G_Criticality);
  ("Value", gp9, G_AMFConfigurationUpdateIEsValue)].
Definition G_ProtocolIEContainerAMFConfigurationUpdateIEs : ty := TStruct [
  ("List", gp29, (TSlice G_AMFConfigurationUpdateIEs))].
Definition G_AMFConfigurationUpdate : ty := TStruct [
  ("ProtocolIEs", gp8, G_ProtocolIEContainerAMFConfigurationUpdateIEs)].
Definition G_AMFUENGAPID : ty := TStruct [
  ("Value", gp30, TInt)].
Definition G_RANUENGAPID : ty := TStruct [
  ("Value", gp31, TInt)].
Definition G_CauseRadioNetwork : ty := TStruct [
  ("Value", gp32, TEnum)].
Definition G_CauseTransport : ty := TStruct [
  ("Value", gp33, TEnum)].
Definition G_CauseNas : ty := TStruct [
  ("Value", gp34, TEnum)].
Definition G_CauseProtocol : ty := TStruct [
  ("Value", gp35, TEnum)].
Definition G_CauseMisc : ty := TStruct [
  ("Value", gp36, TEnum)].
Definition G_ProtocolIESingleContainerCauseExtIEs : ty := TStruct [].
Definition G_Cause : ty := TStruct [
  ("Present", gp8, TInt);
  ("RadioNetwork", gp8, (TPtr G_CauseRadioNetwork));
  ("Transport", gp8, (TPtr G_CauseTransport));
  ("Nas", gp8, (TPtr G_CauseNas));
  ("Protocol", gp8, (TPtr G_CauseProtocol));
  ("Misc", gp8, (TPtr G_CauseMisc));
  ("ChoiceExtensions", gp8, (TPtr G_ProtocolIESingleContainerCauseExtIEs))].
Definition G_HandoverCancelIEsValue : ty := TStruct [
  ("Present", gp8, TInt);
  ("AMFUENGAPID", gp37, (TPtr G_AMFUENGAPID));
  ("RANUENGAPID", gp38, (TPtr G_RANUENGAPID));
  ("Cause", gp39, (TPtr G_Cause))].
Definition G_HandoverCancelIEs : ty := TStruct [
  ("Id", gp8, G_ProtocolIEID);
  ("Criticality", gp8, G_Criticality);
  ("Value", gp9, G_HandoverCancelIEsValue)].
Definition G_ProtocolIEContainerHandoverCancelIEs : ty := TStruct [
  ("List", gp29, (TSlice G_HandoverCancelIEs))].
Definition G_HandoverCancel : ty := TStruct [
  ("ProtocolIEs", gp8, G_ProtocolIEContainerHandoverCancelIEs)].
Definition G_HandoverType : ty := TStruct [
  ("Value", gp19, TEnum)].
Definition G_ProtocolIESingleContainerGNBIDExtIEs : ty := TStruct [].
Definition G_GNBID : ty := TStruct [
  ("Present", gp8, TInt);
  ("GNBID", gp40, (TPtr TBits));
  ("ChoiceExtensions", gp8, (TPtr G_ProtocolIESingleContainerGNBIDExtIEs))].
Definition G_GlobalGNBIDExtIEsExtensionValue : ty := TStruct [
  ("Present", gp8, TInt)].
Definition G_GlobalGNBIDExtIEs : ty := TStruct [
  ("Id", gp8, G_ProtocolExtensionID);
  ("Criticality", gp8, G_Criticality);
  ("ExtensionValue", gp9, G_GlobalGNBIDExtIEsExtensionValue)].
Definition G_ProtocolExtensionContainerGlobalGNBIDExtIEs : ty := TStruct [
  ("List", gp10, (TSlice G_GlobalGNBIDExtIEs))].
Definition G_GlobalGNBID : ty := TStruct [
  ("PLMNIdentity", gp8, G_PLMNIdentity);
  ("GNBID", gp20, G_GNBID);
  ("IEExtensions", gp11, (TPtr G_ProtocolExtensionContainerGlobalGNBIDExtIEs))].
Definition G_ProtocolIESingleContainerNgENBIDExtIEs : ty := TStruct [].
Definition G_NgENBID : ty := TStruct [
  ("Present", gp8, TInt);
  ("MacroNgENBID", gp41, (TPtr TBits));
  ("ShortMacroNgENBID", gp42, (TPtr TBits));
  ("LongMacroNgENBID", gp43, (TPtr TBits));
  ("ChoiceExtensions", gp8, (TPtr G_ProtocolIESingleContainerNgENBIDExtIEs))].
Definition G_GlobalNgENBIDExtIEsExtensionValue : ty := TStruct [
  ("Present", gp8, TInt)].
Definition G_GlobalNgENBIDExtIEs : ty := TStruct [
  ("Id", gp8, G_ProtocolExtensionID);
  ("Criticality", gp8, G_Criticality);
  ("ExtensionValue", gp9, G_GlobalNgENBIDExtIEsExtensionValue)].
Definition G_ProtocolExtensionContainerGlobalNgENBIDExtIEs : ty := TStruct [
  ("List", gp10, (TSlice G_GlobalNgENBIDExtIEs))].
Definition G_GlobalNgENBID : ty := TStruct [
  ("PLMNIdentity", gp8, G_PLMNIdentity);
  ("NgENBID", gp44, G_NgENBID);
  ("IEExtensions", gp11, (TPtr G_ProtocolExtensionContainerGlobalNgENBIDExtIEs))].
Definition G_ProtocolIESingleContainerN3IWFIDExtIEs : ty := TStruct [].
Definition G_N3IWFID : ty := TStruct [
  ("Present", gp8, TInt);
  ("N3IWFID", gp45, (TPtr TBits));
  ("ChoiceExtensions", gp8, (TPtr G_ProtocolIESingleContainerN3IWFIDExtIEs))].
Definition G_GlobalN3IWFIDExtIEsExtensionValue : ty := TStruct [
  ("Present", gp8, TInt)].
Definition G_GlobalN3IWFIDExtIEs : ty := TStruct [
  ("Id", gp8, G_ProtocolExtensionID);
  ("Criticality", gp8, G_Criticality);
  ("ExtensionValue", gp9, G_GlobalN3IWFIDExtIEsExtensionValue)].
Definition G_ProtocolExtensionContainerGlobalN3IWFIDExtIEs : ty := TStruct [
  ("List", gp10, (TSlice G_GlobalN3IWFIDExtIEs))].
Definition G_GlobalN3IWFID : ty := TStruct [
  ("PLMNIdentity", gp8, G_PLMNIdentity);
  ("N3IWFID", gp20, G_N3IWFID);
  ("IEExtensions", gp11, (TPtr G_ProtocolExtensionContainerGlobalN3IWFIDExtIEs))].
Definition G_ProtocolIESingleContainerGlobalRANNodeIDExtIEs : ty := TStruct [].
Definition G_GlobalRANNodeID : ty := TStruct [
  ("Present", gp8, TInt);
  ("GlobalGNBID", gp12, (TPtr G_GlobalGNBID));
  ("GlobalNgENBID", gp12, (TPtr G_GlobalNgENBID));
  ("GlobalN3IWFID", gp12, (TPtr G_GlobalN3IWFID));
  ("ChoiceExtensions", gp8, (TPtr G_ProtocolIESingleContainerGlobalRANNodeIDExtIEs))].
Definition G_TAC : ty := TStruct [
  ("Value", gp4, TOctets)].
Definition G_TAIExtIEsExtensionValue : ty := TStruct [
  ("Present", gp8, TInt)].
Definition G_TAIExtIEs : ty := TStruct [
  ("Id", gp8, G_ProtocolExtensionID);
  ("Criticality", gp8, G_Criticality);
  ("ExtensionValue", gp9, G_TAIExtIEsExtensionValue)].
Definition G_ProtocolExtensionContainerTAIExtIEs : ty := TStruct [
  ("List", gp10, (TSlice G_TAIExtIEs))].
Definition G_TAI : ty := TStruct [
  ("PLMNIdentity", gp8, G_PLMNIdentity);
  ("TAC", gp8, G_TAC);
  ("IEExtensions", gp11, (TPtr G_ProtocolExtensionContainerTAIExtIEs))].
Definition G_TargetRANNodeIDExtIEsExtensionValue : ty := TStruct [
  ("Present", gp8, TInt)].
Definition G_TargetRANNodeIDExtIEs : ty := TStruct [
  ("Id", gp8, G_ProtocolExtensionID);
  ("Criticality", gp8, G_Criticality);
  ("ExtensionValue", gp9, G_TargetRANNodeIDExtIEsExtensionValue)].
Definition G_ProtocolExtensionContainerTargetRANNodeIDExtIEs : ty := TStruct [
  ("List", gp10, (TSlice G_TargetRANNodeIDExtIEs))].
Definition G_TargetRANNodeID : ty := TStruct [
  ("GlobalRANNodeID", gp44, G_GlobalRANNodeID);
  ("SelectedTAI", gp12, G_TAI);
  ("IEExtensions", gp11, (TPtr G_ProtocolExtensionContainerTargetRANNodeIDExtIEs))].
Definition G_EPSTAC : ty := TStruct [
  ("Value", gp46, TOctets)].
Definition G_EPSTAIExtIEsExtensionValue : ty := TStruct [
  ("Present", gp8, TInt)].
Definition G_EPSTAIExtIEs : ty := TStruct [
  ("Id", gp8, G_ProtocolExtensionID);
  ("Criticality", gp8, G_Criticality);
  ("ExtensionValue", gp9, G_EPSTAIExtIEsExtensionValue)].
Definition G_ProtocolExtensionContainerEPSTAIExtIEs : ty := TStruct [
  ("List", gp10, (TSlice G_EPSTAIExtIEs))].
Definition G_EPSTAI : ty := TStruct [
  ("PLMNIdentity", gp8, G_PLMNIdentity);
  ("EPSTAC", gp8, G_EPSTAC);
  ("IEExtensions", gp11, (TPtr G_ProtocolExtensionContainerEPSTAIExtIEs))].
Definition G_TargeteNBIDExtIEsExtensionValue : ty := TStruct [
  ("Present", gp8, TInt)].
Definition G_TargeteNBIDExtIEs : ty := TStruct [
  ("Id", gp8, G_ProtocolExtensionID);
  ("Criticality", gp8, G_Criticality);
  ("ExtensionValue", gp9, G_TargeteNBIDExtIEsExtensionValue)].
Definition G_ProtocolExtensionContainerTargeteNBIDExtIEs : ty := TStruct [
  ("List", gp10, (TSlice G_TargeteNBIDExtIEs))].
Definition G_TargeteNBID : ty := TStruct [
  ("GlobalENBID", gp12, G_GlobalNgENBID);
  ("SelectedEPSTAI", gp12, G_EPSTAI);
  ("IEExtensions", gp11, (TPtr G_ProtocolExtensionContainerTargeteNBIDExtIEs))].
Definition G_ProtocolIESingleContainerTargetIDExtIEs : ty := TStruct [].
Definition G_TargetID : ty := TStruct [
  ("Present", gp8, TInt);
  ("TargetRANNodeID", gp12, (TPtr G_TargetRANNodeID));
  ("TargeteNBID", gp12, (TPtr G_TargeteNBID));
  ("ChoiceExtensions", gp8, (TPtr G_ProtocolIESingleContainerTargetIDExtIEs))].
Definition G_DirectForwardingPathAvailability : ty := TStruct [
  ("Value", gp47, TEnum)].
Definition G_PDUSessionID : ty := TStruct [
  ("Value", gp0, TInt)].
Definition G_PDUSessionResourceItemHORqdExtIEsExtensionValue : ty := TStruct [
  ("Present", gp8, TInt)].
Definition G_PDUSessionResourceItemHORqdExtIEs : ty := TStruct [
  ("Id", gp8, G_ProtocolExtensionID);
  ("Criticality", gp8, G_Criticality);
  ("ExtensionValue", gp9, G_PDUSessionResourceItemHORqdExtIEsExtensionValue)].
Definition G_ProtocolExtensionContainerPDUSessionResourceItemHORqdExtIEs : ty := TStruct [
  ("List", gp10, (TSlice G_PDUSessionResourceItemHORqdExtIEs))].
Definition G_PDUSessionResourceItemHORqd : ty := TStruct [
  ("PDUSessionID", gp8, G_PDUSessionID);
  ("HandoverRequiredTransfer", gp8, TOctets);
  ("IEExtensions", gp11, (TPtr G_ProtocolExtensionContainerPDUSessionResourceItemHORqdExtIEs))].
Definition G_PDUSessionResourceListHORqd : ty := TStruct [
  ("List", gp14, (TSlice G_PDUSessionResourceItemHORqd))].
Definition G_SourceToTargetTransparentContainer : ty := TStruct [
  ("Value", gp8, TOctets)].
Definition G_HandoverRequiredIEsValue : ty := TStruct [
  ("Present", gp8, TInt);
  ("AMFUENGAPID", gp37, (TPtr G_AMFUENGAPID));
  ("RANUENGAPID", gp38, (TPtr G_RANUENGAPID));
  ("HandoverType", gp48, (TPtr G_HandoverType));
  ("Cause", gp39, (TPtr G_Cause));
  ("TargetID", gp49, (TPtr G_TargetID));
  ("DirectForwardingPathAvailability", gp50, (TPtr G_DirectForwardingPathAvailability));
  ("PDUSessionResourceListHORqd", gp51, (TPtr G_PDUSessionResourceListHORqd));
  ("SourceToTargetTransparentContainer", gp52, (TPtr G_SourceToTargetTransparentContainer))].
Definition G_HandoverRequiredIEs : ty := TStruct [
  ("Id", gp8, G_ProtocolIEID);
  ("Criticality", gp8, G_Criticality);
  ("Value", gp9, G_HandoverRequiredIEsValue)].
Definition G_ProtocolIEContainerHandoverRequiredIEs : ty := TStruct [
  ("List", gp29, (TSlice G_HandoverRequiredIEs))].
Definition G_HandoverRequired : ty := TStruct [
  ("ProtocolIEs", gp8, G_ProtocolIEContainerHandoverRequiredIEs)].
Definition G_BitRate : ty := TStruct [
  ("Value", gp53, TInt)].
Definition G_UEAggregateMaximumBitRateExtIEsExtensionValue : ty := TStruct [
  ("Present", gp8, TInt)].
Definition G_UEAggregateMaximumBitRateExtIEs : ty := TStruct [
  ("Id", gp8, G_ProtocolExtensionID);
  ("Criticality", gp8, G_Criticality);
  ("ExtensionValue", gp9, G_UEAggregateMaximumBitRateExtIEsExtensionValue)].
Definition G_ProtocolExtensionContainerUEAggregateMaximumBitRateExtIEs : ty := TStruct [
  ("List", gp10, (TSlice G_UEAggregateMaximumBitRateExtIEs))].
Definition G_UEAggregateMaximumBitRate : ty := TStruct [
  ("UEAggregateMaximumBitRateDL", gp8, G_BitRate);
  ("UEAggregateMaximumBitRateUL", gp8, G_BitRate);
  ("IEExtensions", gp11, (TPtr G_ProtocolExtensionContainerUEAggregateMaximumBitRateExtIEs))].
Definition G_ProtocolIESingleContainerUEIdentityIndexValueExtIEs : ty := TStruct [].
Definition G_UEIdentityIndexValue : ty := TStruct [
  ("Present", gp8, TInt);
  ("IndexLength10", gp6, (TPtr TBits));
  ("ChoiceExtensions", gp8, (TPtr G_ProtocolIESingleContainerUEIdentityIndexValueExtIEs))].
Definition G_PagingDRX : ty := TStruct [
  ("Value", gp34, TEnum)].
Definition G_PeriodicRegistrationUpdateTimer : ty := TStruct [
  ("Value", gp5, TBits)].
Definition G_MICOModeIndication : ty := TStruct [
  ("Value", gp47, TEnum)].
Definition G_TAIListForInactiveItemExtIEsExtensionValue : ty := TStruct [
  ("Present", gp8, TInt)].
Definition G_TAIListForInactiveItemExtIEs : ty := TStruct [
  ("Id", gp8, G_ProtocolExtensionID);
  ("Criticality", gp8, G_Criticality);
  ("ExtensionValue", gp9, G_TAIListForInactiveItemExtIEsExtensionValue)].
Definition G_ProtocolExtensionContainerTAIListForInactiveItemExtIEs : ty := TStruct [
  ("List", gp10, (TSlice G_TAIListForInactiveItemExtIEs))].
Definition G_TAIListForInactiveItem : ty := TStruct [
  ("TAI", gp12, G_TAI);
  ("IEExtensions", gp11, (TPtr G_ProtocolExtensionContainerTAIListForInactiveItemExtIEs))].
Definition G_TAIListForInactive : ty := TStruct [
  ("List", gp54, (TSlice G_TAIListForInactiveItem))].
Definition G_ExpectedActivityPeriod : ty := TStruct [
  ("Value", gp8, TInt)].
Definition G_ExpectedIdlePeriod : ty := TStruct [
  ("Value", gp8, TInt)].
Definition G_SourceOfUEActivityBehaviourInformation : ty := TStruct [
  ("Value", gp33, TEnum)].
Definition G_ExpectedUEActivityBehaviourExtIEsExtensionValue : ty := TStruct [
  ("Present", gp8, TInt)].
Definition G_ExpectedUEActivityBehaviourExtIEs : ty := TStruct [
  ("Id", gp8, G_ProtocolExtensionID);
  ("Criticality", gp8, G_Criticality);
  ("ExtensionValue", gp9, G_ExpectedUEActivityBehaviourExtIEsExtensionValue)].
Definition G_ProtocolExtensionContainerExpectedUEActivityBehaviourExtIEs : ty := TStruct [
  ("List", gp10, (TSlice G_ExpectedUEActivityBehaviourExtIEs))].
Definition G_ExpectedUEActivityBehaviour : ty := TStruct [
  ("ExpectedActivityPeriod", gp11, (TPtr G_ExpectedActivityPeriod));
  ("ExpectedIdlePeriod", gp11, (TPtr G_ExpectedIdlePeriod));
  ("SourceOfUEActivityBehaviourInformation", gp11, (TPtr G_SourceOfUEActivityBehaviourInformation));
  ("IEExtensions", gp11, (TPtr G_ProtocolExtensionContainerExpectedUEActivityBehaviourExtIEs))].
Definition G_ExpectedHOInterval : ty := TStruct [
  ("Value", gp35, TEnum)].
Definition G_ExpectedUEMobility : ty := TStruct [
  ("Value", gp33, TEnum)].
Definition G_NRCellIdentity : ty := TStruct [
  ("Value", gp55, TBits)].
Definition G_NRCGIExtIEsExtensionValue : ty := TStruct [
  ("Present", gp8, TInt)].
Definition G_NRCGIExtIEs : ty := TStruct [
  ("Id", gp8, G_ProtocolExtensionID);
  ("Criticality", gp8, G_Criticality);
  ("ExtensionValue", gp9, G_NRCGIExtIEsExtensionValue)].
Definition G_ProtocolExtensionContainerNRCGIExtIEs : ty := TStruct [
  ("List", gp10, (TSlice G_NRCGIExtIEs))].
Definition G_NRCGI : ty := TStruct [
  ("PLMNIdentity", gp8, G_PLMNIdentity);
  ("NRCellIdentity", gp8, G_NRCellIdentity);
  ("IEExtensions", gp11, (TPtr G_ProtocolExtensionContainerNRCGIExtIEs))].
Definition G_EUTRACellIdentity : ty := TStruct [
  ("Value", gp56, TBits)].
Definition G_EUTRACGIExtIEsExtensionValue : ty := TStruct [
  ("Present", gp8, TInt)].
Definition G_EUTRACGIExtIEs : ty := TStruct [
  ("Id", gp8, G_ProtocolExtensionID);
  ("Criticality", gp8, G_Criticality);
  ("ExtensionValue", gp9, G_EUTRACGIExtIEsExtensionValue)].
Definition G_ProtocolExtensionContainerEUTRACGIExtIEs : ty := TStruct [
  ("List", gp10, (TSlice G_EUTRACGIExtIEs))].
Definition G_EUTRACGI : ty := TStruct [
  ("PLMNIdentity", gp8, G_PLMNIdentity);
  ("EUTRACellIdentity", gp8, G_EUTRACellIdentity);
  ("IEExtensions", gp11, (TPtr G_ProtocolExtensionContainerEUTRACGIExtIEs))].
Definition G_ProtocolIESingleContainerNGRANCGIExtIEs : ty := TStruct [].
Definition G_NGRANCGI : ty := TStruct [
  ("Present", gp8, TInt);
  ("NRCGI", gp12, (TPtr G_NRCGI));
  ("EUTRACGI", gp12, (TPtr G_EUTRACGI));
  ("ChoiceExtensions", gp8, (TPtr G_ProtocolIESingleContainerNGRANCGIExtIEs))].
Definition G_ExpectedUEMovingTrajectoryItemExtIEsExtensionValue : ty := TStruct [
  ("Present", gp8, TInt)].
Definition G_ExpectedUEMovingTrajectoryItemExtIEs : ty := TStruct [
  ("Id", gp8, G_ProtocolExtensionID);
  ("Criticality", gp8, G_Criticality);
  ("ExtensionValue", gp9, G_ExpectedUEMovingTrajectoryItemExtIEsExtensionValue)].
Definition G_ProtocolExtensionContainerExpectedUEMovingTrajectoryItemExtIEs : ty := TStruct [
  ("List", gp10, (TSlice G_ExpectedUEMovingTrajectoryItemExtIEs))].
Definition G_ExpectedUEMovingTrajectoryItem : ty := TStruct [
  ("NGRANCGI", gp1, G_NGRANCGI);
  ("TimeStayedInCell", gp57, (TPtr TInt));
  ("IEExtensions", gp11, (TPtr G_ProtocolExtensionContainerExpectedUEMovingTrajectoryItemExtIEs))].
Definition G_ExpectedUEMovingTrajectory : ty := TStruct [
  ("List", gp54, (TSlice G_ExpectedUEMovingTrajectoryItem))].
Definition G_ExpectedUEBehaviourExtIEsExtensionValue : ty := TStruct [
  ("Present", gp8, TInt)].
Definition G_ExpectedUEBehaviourExtIEs : ty := TStruct [
  ("Id", gp8, G_ProtocolExtensionID);
  ("Criticality", gp8, G_Criticality);
  ("ExtensionValue", gp9, G_ExpectedUEBehaviourExtIEsExtensionValue)].
Definition G_ProtocolExtensionContainerExpectedUEBehaviourExtIEs : ty := TStruct [
  ("List", gp10, (TSlice G_ExpectedUEBehaviourExtIEs))].
Definition G_ExpectedUEBehaviour : ty := TStruct [
  ("ExpectedUEActivityBehaviour", gp58, (TPtr G_ExpectedUEActivityBehaviour));
  ("ExpectedHOInterval", gp11, (TPtr G_ExpectedHOInterval));
  ("ExpectedUEMobility", gp11, (TPtr G_ExpectedUEMobility));
  ("ExpectedUEMovingTrajectory", gp11, (TPtr G_ExpectedUEMovingTrajectory));
  ("IEExtensions", gp11, (TPtr G_ProtocolExtensionContainerExpectedUEBehaviourExtIEs))].
Definition G_CoreNetworkAssistanceInformationExtIEsExtensionValue : ty := TStruct [
  ("Present", gp8, TInt)].
Definition G_CoreNetworkAssistanceInformationExtIEs : ty := TStruct [
  ("Id", gp8, G_ProtocolExtensionID);
  ("Criticality", gp8, G_Criticality);
  ("ExtensionValue", gp9, G_CoreNetworkAssistanceInformationExtIEsExtensionValue)].
Definition G_ProtocolExtensionContainerCoreNetworkAssistanceInformationExtIEs : ty := TStruct [
  ("List", gp10, (TSlice G_CoreNetworkAssistanceInformationExtIEs))].
Definition G_CoreNetworkAssistanceInformation : ty := TStruct [
  ("UEIdentityIndexValue", gp20, G_UEIdentityIndexValue);
  ("UESpecificDRX", gp11, (TPtr G_PagingDRX));
  ("PeriodicRegistrationUpdateTimer", gp8, G_PeriodicRegistrationUpdateTimer);
  ("MICOModeIndication", gp11, (TPtr G_MICOModeIndication));
  ("TAIListForInactive", gp8, G_TAIListForInactive);
  ("ExpectedUEBehaviour", gp58, (TPtr G_ExpectedUEBehaviour));
  ("IEExtensions", gp11, (TPtr G_ProtocolExtensionContainerCoreNetworkAssistanceInformationExtIEs))].
Definition G_NRencryptionAlgorithms : ty := TStruct [
  ("Value", gp59, TBits)].
Definition G_NRintegrityProtectionAlgorithms : ty := TStruct [
  ("Value", gp59, TBits)].
Definition G_EUTRAencryptionAlgorithms : ty := TStruct [
  ("Value", gp59, TBits)].
Definition G_EUTRAintegrityProtectionAlgorithms : ty := TStruct [
  ("Value", gp59, TBits)].
Definition G_UESecurityCapabilitiesExtIEsExtensionValue : ty := TStruct [
  ("Present", gp8, TInt)].
Definition G_UESecurityCapabilitiesExtIEs : ty := TStruct [
  ("Id", gp8, G_ProtocolExtensionID);
  ("Criticality", gp8, G_Criticality);
  ("ExtensionValue", gp9, G_UESecurityCapabilitiesExtIEsExtensionValue)].
Definition G_ProtocolExtensionContainerUESecurityCapabilitiesExtIEs : ty := TStruct [
  ("List", gp10, (TSlice G_UESecurityCapabilitiesExtIEs))].
Definition G_UESecurityCapabilities : ty := TStruct [
  ("NRencryptionAlgorithms", gp8, G_NRencryptionAlgorithms);
  ("NRintegrityProtectionAlgorithms", gp8, G_NRintegrityProtectionAlgorithms);
  ("EUTRAencryptionAlgorithms", gp8, G_EUTRAencryptionAlgorithms);
  ("EUTRAintegrityProtectionAlgorithms", gp8, G_EUTRAintegrityProtectionAlgorithms);
  ("IEExtensions", gp11, (TPtr G_ProtocolExtensionContainerUESecurityCapabilitiesExtIEs))].
Definition G_NextHopChainingCount : ty := TStruct [
  ("Value", gp60, TInt)].
Definition G_SecurityKey : ty := TStruct [
  ("Value", gp61, TBits)].
Definition G_SecurityContextExtIEsExtensionValue : ty := TStruct [
  ("Present", gp8, TInt)].
Definition G_SecurityContextExtIEs : ty := TStruct [
  ("Id", gp8, G_ProtocolExtensionID);
  ("Criticality", gp8, G_Criticality);
  ("ExtensionValue", gp9, G_SecurityContextExtIEsExtensionValue)].
Definition G_ProtocolExtensionContainerSecurityContextExtIEs : ty := TStruct [
  ("List", gp10, (TSlice G_SecurityContextExtIEs))].
Definition G_SecurityContext : ty := TStruct [
  ("NextHopChainingCount", gp8, G_NextHopChainingCount);
  ("NextHopNH", gp8, G_SecurityKey);
  ("IEExtensions", gp11, (TPtr G_ProtocolExtensionContainerSecurityContextExtIEs))].
Definition G_NewSecurityContextInd : ty := TStruct [
  ("Value", gp47, TEnum)].
Definition G_NASPDU : ty := TStruct [
  ("Value", gp8, TOctets)].
Definition G_PDUSessionResourceSetupItemHOReqExtIEsExtensionValue : ty := TStruct [
  ("Present", gp8, TInt)].
Definition G_PDUSessionResourceSetupItemHOReqExtIEs : ty := TStruct [
  ("Id", gp8, G_ProtocolExtensionID);
  ("Criticality", gp8, G_Criticality);
  ("ExtensionValue", gp9, G_PDUSessionResourceSetupItemHOReqExtIEsExtensionValue)].
Definition G_ProtocolExtensionContainerPDUSessionResourceSetupItemHOReqExtIEs : ty := TStruct [
  ("List", gp10, (TSlice G_PDUSessionResourceSetupItemHOReqExtIEs))].
Definition G_PDUSessionResourceSetupItemHOReq : ty := TStruct [
  ("PDUSessionID", gp8, G_PDUSessionID);
  ("SNSSAI", gp12, G_SNSSAI);
  ("HandoverRequestTransfer", gp8, TOctets);
  ("IEExtensions", gp11, (TPtr G_ProtocolExtensionContainerPDUSessionResourceSetupItemHOReqExtIEs))].
Definition G_PDUSessionResourceSetupListHOReq : ty := TStruct [
  ("List", gp14, (TSlice G_PDUSessionResourceSetupItemHOReq))].
Definition G_AllowedNSSAIItemExtIEsExtensionValue : ty := TStruct [
  ("Present", gp8, TInt)].
Definition G_AllowedNSSAIItemExtIEs : ty := TStruct [
  ("Id", gp8, G_ProtocolExtensionID);
  ("Criticality", gp8, G_Criticality);
  ("ExtensionValue", gp9, G_AllowedNSSAIItemExtIEsExtensionValue)].
Definition G_ProtocolExtensionContainerAllowedNSSAIItemExtIEs : ty := TStruct [
  ("List", gp10, (TSlice G_AllowedNSSAIItemExtIEs))].
Definition G_AllowedNSSAIItem : ty := TStruct [
  ("SNSSAI", gp12, G_SNSSAI);
  ("IEExtensions", gp11, (TPtr G_ProtocolExtensionContainerAllowedNSSAIItemExtIEs))].
Definition G_AllowedNSSAI : ty := TStruct [
  ("List", gp62, (TSlice G_AllowedNSSAIItem))].
Definition G_NGRANTraceID : ty := TStruct [
  ("Value", gp5, TOctets)].
Definition G_InterfacesToTrace : ty := TStruct [
  ("Value", gp5, TBits)].
Definition G_TraceDepth : ty := TStruct [
  ("Value", gp36, TEnum)].
Definition G_TraceActivationExtIEsExtensionValue : ty := TStruct [
  ("Present", gp8, TInt)].
Definition G_TraceActivationExtIEs : ty := TStruct [
  ("Id", gp8, G_ProtocolExtensionID);
  ("Criticality", gp8, G_Criticality);
  ("ExtensionValue", gp9, G_TraceActivationExtIEsExtensionValue)].
Definition G_ProtocolExtensionContainerTraceActivationExtIEs : ty := TStruct [
  ("List", gp10, (TSlice G_TraceActivationExtIEs))].
Definition G_TraceActivation : ty := TStruct [
  ("NGRANTraceID", gp8, G_NGRANTraceID);
  ("InterfacesToTrace", gp8, G_InterfacesToTrace);
  ("TraceDepth", gp8, G_TraceDepth);
  ("TraceCollectionEntityIPAddress", gp8, G_TransportLayerAddress);
  ("IEExtensions", gp11, (TPtr G_ProtocolExtensionContainerTraceActivationExtIEs))].
Definition G_MaskedIMEISV : ty := TStruct [
  ("Value", gp63, TBits)].
Definition G_EquivalentPLMNs : ty := TStruct [
  ("List", gp64, (TSlice G_PLMNIdentity))].
Definition G_RATRestrictionInformation : ty := TStruct [
  ("Value", gp65, TBits)].
Definition G_RATRestrictionsItemExtIEsExtensionValue : ty := TStruct [
  ("Present", gp8, TInt)].
Definition G_RATRestrictionsItemExtIEs : ty := TStruct [
  ("Id", gp8, G_ProtocolExtensionID);
  ("Criticality", gp8, G_Criticality);
  ("ExtensionValue", gp9, G_RATRestrictionsItemExtIEsExtensionValue)].
Definition G_ProtocolExtensionContainerRATRestrictionsItemExtIEs : ty := TStruct [
  ("List", gp10, (TSlice G_RATRestrictionsItemExtIEs))].
Definition G_RATRestrictionsItem : ty := TStruct [
  ("PLMNIdentity", gp8, G_PLMNIdentity);
  ("RATRestrictionInformation", gp8, G_RATRestrictionInformation);
  ("IEExtensions", gp11, (TPtr G_ProtocolExtensionContainerRATRestrictionsItemExtIEs))].
Definition G_RATRestrictions : ty := TStruct [
  ("List", gp66, (TSlice G_RATRestrictionsItem))].
Definition G_ForbiddenTACs : ty := TStruct [
  ("List", gp67, (TSlice G_TAC))].
Definition G_ForbiddenAreaInformationItemExtIEsExtensionValue : ty := TStruct [
  ("Present", gp8, TInt)].
Definition G_ForbiddenAreaInformationItemExtIEs : ty := TStruct [
  ("Id", gp8, G_ProtocolExtensionID);
  ("Criticality", gp8, G_Criticality);
  ("ExtensionValue", gp9, G_ForbiddenAreaInformationItemExtIEsExtensionValue)].
Definition G_ProtocolExtensionContainerForbiddenAreaInformationItemExtIEs : ty := TStruct [
  ("List", gp10, (TSlice G_ForbiddenAreaInformationItemExtIEs))].
Definition G_ForbiddenAreaInformationItem : ty := TStruct [
  ("PLMNIdentity", gp8, G_PLMNIdentity);
  ("ForbiddenTACs", gp8, G_ForbiddenTACs);
  ("IEExtensions", gp11, (TPtr G_ProtocolExtensionContainerForbiddenAreaInformationItemExtIEs))].
Definition G_ForbiddenAreaInformation : ty := TStruct [
  ("List", gp54, (TSlice G_ForbiddenAreaInformationItem))].
Definition G_AllowedTACs : ty := TStruct [
  ("List", gp68, (TSlice G_TAC))].
Definition G_NotAllowedTACs : ty := TStruct [
  ("List", gp68, (TSlice G_TAC))].
Definition G_ServiceAreaInformationItemExtIEsExtensionValue : ty := TStruct [
  ("Present", gp8, TInt)].
Definition G_ServiceAreaInformationItemExtIEs : ty := TStruct [
  ("Id", gp8, G_ProtocolExtensionID);
  ("Criticality", gp8, G_Criticality);
  ("ExtensionValue", gp9, G_ServiceAreaInformationItemExtIEsExtensionValue)].
Definition G_ProtocolExtensionContainerServiceAreaInformationItemExtIEs : ty := TStruct [
  ("List", gp10, (TSlice G_ServiceAreaInformationItemExtIEs))].
Definition G_ServiceAreaInformationItem : ty := TStruct [
  ("PLMNIdentity", gp8, G_PLMNIdentity);
  ("AllowedTACs", gp11, (TPtr G_AllowedTACs));
  ("NotAllowedTACs", gp11, (TPtr G_NotAllowedTACs));
  ("IEExtensions", gp11, (TPtr G_ProtocolExtensionContainerServiceAreaInformationItemExtIEs))].
Definition G_ServiceAreaInformation : ty := TStruct [
  ("List", gp54, (TSlice G_ServiceAreaInformationItem))].
Definition G_MobilityRestrictionListExtIEsExtensionValue : ty := TStruct [
  ("Present", gp8, TInt)].
Definition G_MobilityRestrictionListExtIEs : ty := TStruct [
  ("Id", gp8, G_ProtocolExtensionID);
  ("Criticality", gp8, G_Criticality);
  ("ExtensionValue", gp9, G_MobilityRestrictionListExtIEsExtensionValue)].
Definition G_ProtocolExtensionContainerMobilityRestrictionListExtIEs : ty := TStruct [
  ("List", gp10, (TSlice G_MobilityRestrictionListExtIEs))].
Definition G_MobilityRestrictionList : ty := TStruct [
  ("ServingPLMN", gp8, G_PLMNIdentity);
  ("EquivalentPLMNs", gp11, (TPtr G_EquivalentPLMNs));
  ("RATRestrictions", gp11, (TPtr G_RATRestrictions));
  ("ForbiddenAreaInformation", gp11, (TPtr G_ForbiddenAreaInformation));
  ("ServiceAreaInformation", gp11, (TPtr G_ServiceAreaInformation));
  ("IEExtensions", gp11, (TPtr G_ProtocolExtensionContainerMobilityRestrictionListExtIEs))].
Definition G_EventType : ty := TStruct [
  ("Value", gp36, TEnum)].
Definition G_ReportArea : ty := TStruct [
  ("Value", gp47, TEnum)].
Definition G_AreaOfInterestTAIItemExtIEsExtensionValue : ty := TStruct [
  ("Present", gp8, TInt)].
Definition G_AreaOfInterestTAIItemExtIEs : ty := TStruct [
  ("Id", gp8, G_ProtocolExtensionID);
  ("Criticality", gp8, G_Criticality);
  ("ExtensionValue", gp9, G_AreaOfInterestTAIItemExtIEsExtensionValue)].
Definition G_ProtocolExtensionContainerAreaOfInterestTAIItemExtIEs : ty := TStruct [
  ("List", gp10, (TSlice G_AreaOfInterestTAIItemExtIEs))].
Definition G_AreaOfInterestTAIItem : ty := TStruct [
  ("TAI", gp12, G_TAI);
  ("IEExtensions", gp11, (TPtr G_ProtocolExtensionContainerAreaOfInterestTAIItemExtIEs))].
Definition G_AreaOfInterestTAIList : ty := TStruct [
  ("List", gp54, (TSlice G_AreaOfInterestTAIItem))].
Definition G_AreaOfInterestCellItemExtIEsExtensionValue : ty := TStruct [
  ("Present", gp8, TInt)].
Definition G_AreaOfInterestCellItemExtIEs : ty := TStruct [
  ("Id", gp8, G_ProtocolExtensionID);
  ("Criticality", gp8, G_Criticality);
  ("ExtensionValue", gp9, G_AreaOfInterestCellItemExtIEsExtensionValue)].
Definition G_ProtocolExtensionContainerAreaOfInterestCellItemExtIEs : ty := TStruct [
  ("List", gp10, (TSlice G_AreaOfInterestCellItemExtIEs))].
Definition G_AreaOfInterestCellItem : ty := TStruct [
  ("NGRANCGI", gp1, G_NGRANCGI);
  ("IEExtensions", gp11, (TPtr G_ProtocolExtensionContainerAreaOfInterestCellItemExtIEs))].
Definition G_AreaOfInterestCellList : ty := TStruct [
  ("List", gp14, (TSlice G_AreaOfInterestCellItem))].
Definition G_AreaOfInterestRANNodeItemExtIEsExtensionValue : ty := TStruct [
  ("Present", gp8, TInt)].
Definition G_AreaOfInterestRANNodeItemExtIEs : ty := TStruct [
  ("Id", gp8, G_ProtocolExtensionID);
  ("Criticality", gp8, G_Criticality);
  ("ExtensionValue", gp9, G_AreaOfInterestRANNodeItemExtIEsExtensionValue)].
Definition G_ProtocolExtensionContainerAreaOfInterestRANNodeItemExtIEs : ty := TStruct [
  ("List", gp10, (TSlice G_AreaOfInterestRANNodeItemExtIEs))].
Definition G_AreaOfInterestRANNodeItem : ty := TStruct [
  ("GlobalRANNodeID", gp44, G_GlobalRANNodeID);
  ("IEExtensions", gp11, (TPtr G_ProtocolExtensionContainerAreaOfInterestRANNodeItemExtIEs))].
Definition G_AreaOfInterestRANNodeList : ty := TStruct [
  ("List", gp69, (TSlice G_AreaOfInterestRANNodeItem))].
Definition G_AreaOfInterestExtIEsExtensionValue : ty := TStruct [
  ("Present", gp8, TInt)].
Definition G_AreaOfInterestExtIEs : ty := TStruct [
  ("Id", gp8, G_ProtocolExtensionID);
  ("Criticality", gp8, G_Criticality);
  ("ExtensionValue", gp9, G_AreaOfInterestExtIEsExtensionValue)].
Definition G_ProtocolExtensionContainerAreaOfInterestExtIEs : ty := TStruct [
  ("List", gp10, (TSlice G_AreaOfInterestExtIEs))].
Definition G_AreaOfInterest : ty := TStruct [
  ("AreaOfInterestTAIList", gp11, (TPtr G_AreaOfInterestTAIList));
  ("AreaOfInterestCellList", gp11, (TPtr G_AreaOfInterestCellList));
  ("AreaOfInterestRANNodeList", gp11, (TPtr G_AreaOfInterestRANNodeList));
  ("IEExtensions", gp11, (TPtr G_ProtocolExtensionContainerAreaOfInterestExtIEs))].
Definition G_LocationReportingReferenceID : ty := TStruct [
  ("Value", gp70, TInt)].
Definition G_AreaOfInterestItemExtIEsExtensionValue : ty := TStruct [
  ("Present", gp8, TInt)].
Definition G_AreaOfInterestItemExtIEs : ty := TStruct [
  ("Id", gp8, G_ProtocolExtensionID);
  ("Criticality", gp8, G_Criticality);
  ("ExtensionValue", gp9, G_AreaOfInterestItemExtIEsExtensionValue)].
Definition G_ProtocolExtensionContainerAreaOfInterestItemExtIEs : ty := TStruct [
  ("List", gp10, (TSlice G_AreaOfInterestItemExtIEs))].
Definition G_AreaOfInterestItem : ty := TStruct [
  ("AreaOfInterest", gp12, G_AreaOfInterest);
  ("LocationReportingReferenceID", gp8, G_LocationReportingReferenceID);
  ("IEExtensions", gp11, (TPtr G_ProtocolExtensionContainerAreaOfInterestItemExtIEs))].
Definition G_AreaOfInterestList : ty := TStruct [
  ("List", gp69, (TSlice G_AreaOfInterestItem))].
Definition G_LocationReportingRequestTypeExtIEsExtensionValue : ty := TStruct [
  ("Present", gp8, TInt)].
Definition G_LocationReportingRequestTypeExtIEs : ty := TStruct [
  ("Id", gp8, G_ProtocolExtensionID);
  ("Criticality", gp8, G_Criticality);
  ("ExtensionValue", gp9, G_LocationReportingRequestTypeExtIEsExtensionValue)].
Definition G_ProtocolExtensionContainerLocationReportingRequestTypeExtIEs : ty := TStruct [
  ("List", gp10, (TSlice G_LocationReportingRequestTypeExtIEs))].
Definition G_LocationReportingRequestType : ty := TStruct [
  ("EventType", gp8, G_EventType);
  ("ReportArea", gp8, G_ReportArea);
  ("AreaOfInterestList", gp11, (TPtr G_AreaOfInterestList));
  ("LocationReportingReferenceIDToBeCancelled", gp11, (TPtr G_LocationReportingReferenceID));
  ("IEExtensions", gp11, (TPtr G_ProtocolExtensionContainerLocationReportingRequestTypeExtIEs))].
Definition G_RRCInactiveTransitionReportRequest : ty := TStruct [
  ("Value", gp19, TEnum)].
Definition G_HandoverRequestIEsValue : ty := TStruct [
  ("Present", gp8, TInt);
  ("AMFUENGAPID", gp37, (TPtr G_AMFUENGAPID));
  ("HandoverType", gp48, (TPtr G_HandoverType));
  ("Cause", gp39, (TPtr G_Cause));
  ("UEAggregateMaximumBitRate", gp71, (TPtr G_UEAggregateMaximumBitRate));
  ("CoreNetworkAssistanceInformation", gp72, (TPtr G_CoreNetworkAssistanceInformation));
  ("UESecurityCapabilities", gp73, (TPtr G_UESecurityCapabilities));
  ("SecurityContext", gp74, (TPtr G_SecurityContext));
  ("NewSecurityContextInd", gp75, (TPtr G_NewSecurityContextInd));
  ("NASC", gp76, (TPtr G_NASPDU));
  ("PDUSessionResourceSetupListHOReq", gp77, (TPtr G_PDUSessionResourceSetupListHOReq));
  ("AllowedNSSAI", gp78, (TPtr G_AllowedNSSAI));
  ("TraceActivation", gp79, (TPtr G_TraceActivation));
  ("MaskedIMEISV", gp80, (TPtr G_MaskedIMEISV));
  ("SourceToTargetTransparentContainer", gp52, (TPtr G_SourceToTargetTransparentContainer));
  ("MobilityRestrictionList", gp81, (TPtr G_MobilityRestrictionList));
  ("LocationReportingRequestType", gp82, (TPtr G_LocationReportingRequestType));
  ("RRCInactiveTransitionReportRequest", gp83, (TPtr G_RRCInactiveTransitionReportRequest));
  ("GUAMI", gp84, (TPtr G_GUAMI))].
Definition G_HandoverRequestIEs : ty := TStruct [
  ("Id", gp8, G_ProtocolIEID);
  ("Criticality", gp8, G_Criticality);
  ("Value", gp9, G_HandoverRequestIEsValue)].
Definition G_ProtocolIEContainerHandoverRequestIEs : ty := TStruct [
  ("List", gp29, (TSlice G_HandoverRequestIEs))].
Definition G_HandoverRequest : ty := TStruct [
  ("ProtocolIEs", gp8, G_ProtocolIEContainerHandoverRequestIEs)].
Definition G_PDUSessionResourceSetupItemCxtReqExtIEsExtensionValue : ty := TStruct [
  ("Present", gp8, TInt)].
Definition G_PDUSessionResourceSetupItemCxtReqExtIEs : ty := TStruct [
  ("Id", gp8, G_ProtocolExtensionID);
  ("Criticality", gp8, G_Criticality);
  ("ExtensionValue", gp9, G_PDUSessionResourceSetupItemCxtReqExtIEsExtensionValue)].
Definition G_ProtocolExtensionContainerPDUSessionResourceSetupItemCxtReqExtIEs : ty := TStruct [
  ("List", gp10, (TSlice G_PDUSessionResourceSetupItemCxtReqExtIEs))].
Definition G_PDUSessionResourceSetupItemCxtReq : ty := TStruct [
  ("PDUSessionID", gp8, G_PDUSessionID);
  ("NASPDU", gp11, (TPtr G_NASPDU));
  ("SNSSAI", gp12, G_SNSSAI);
  ("PDUSessionResourceSetupRequestTransfer", gp8, TOctets);
  ("IEExtensions", gp11, (TPtr G_ProtocolExtensionContainerPDUSessionResourceSetupItemCxtReqExtIEs))].
Definition G_PDUSessionResourceSetupListCxtReq : ty := TStruct [
  ("List", gp14, (TSlice G_PDUSessionResourceSetupItemCxtReq))].
Definition G_UERadioCapability : ty := TStruct [
  ("Value", gp8, TOctets)].
Definition G_IndexToRFSP : ty := TStruct [
  ("Value", gp85, TInt)].
Definition G_EmergencyFallbackRequestIndicator : ty := TStruct [
  ("Value", gp47, TEnum)].
Definition G_EmergencyServiceTargetCN : ty := TStruct [
  ("Value", gp33, TEnum)].
Definition G_EmergencyFallbackIndicatorExtIEsExtensionValue : ty := TStruct [
  ("Present", gp8, TInt)].
Definition G_EmergencyFallbackIndicatorExtIEs : ty := TStruct [
  ("Id", gp8, G_ProtocolExtensionID);
  ("Criticality", gp8, G_Criticality);
  ("ExtensionValue", gp9, G_EmergencyFallbackIndicatorExtIEsExtensionValue)].
Definition G_ProtocolExtensionContainerEmergencyFallbackIndicatorExtIEs : ty := TStruct [
  ("List", gp10, (TSlice G_EmergencyFallbackIndicatorExtIEs))].
Definition G_EmergencyFallbackIndicator : ty := TStruct [
  ("EmergencyFallbackRequestIndicator", gp8, G_EmergencyFallbackRequestIndicator);
  ("EmergencyServiceTargetCN", gp11, (TPtr G_EmergencyServiceTargetCN));
  ("IEExtensions", gp11, (TPtr G_ProtocolExtensionContainerEmergencyFallbackIndicatorExtIEs))].
Definition G_UERadioCapabilityForPagingOfNR : ty := TStruct [
  ("Value", gp8, TOctets)].
Definition G_UERadioCapabilityForPagingOfEUTRA : ty := TStruct [
  ("Value", gp8, TOctets)].
Definition G_UERadioCapabilityForPagingExtIEsExtensionValue : ty := TStruct [
  ("Present", gp8, TInt)].
Definition G_UERadioCapabilityForPagingExtIEs : ty := TStruct [
  ("Id", gp8, G_ProtocolExtensionID);
  ("Criticality", gp8, G_Criticality);
  ("ExtensionValue", gp9, G_UERadioCapabilityForPagingExtIEsExtensionValue)].
Definition G_ProtocolExtensionContainerUERadioCapabilityForPagingExtIEs : ty := TStruct [
  ("List", gp10, (TSlice G_UERadioCapabilityForPagingExtIEs))].
Definition G_UERadioCapabilityForPaging : ty := TStruct [
  ("UERadioCapabilityForPagingOfNR", gp11, (TPtr G_UERadioCapabilityForPagingOfNR));
  ("UERadioCapabilityForPagingOfEUTRA", gp11, (TPtr G_UERadioCapabilityForPagingOfEUTRA));
  ("IEExtensions", gp11, (TPtr G_ProtocolExtensionContainerUERadioCapabilityForPagingExtIEs))].
Definition G_InitialContextSetupRequestIEsValue : ty := TStruct [
  ("Present", gp8, TInt);
  ("AMFUENGAPID", gp37, (TPtr G_AMFUENGAPID));
  ("RANUENGAPID", gp38, (TPtr G_RANUENGAPID));
  ("OldAMF", gp86, (TPtr G_AMFName));
  ("UEAggregateMaximumBitRate", gp71, (TPtr G_UEAggregateMaximumBitRate));
  ("CoreNetworkAssistanceInformation", gp72, (TPtr G_CoreNetworkAssistanceInformation));
  ("GUAMI", gp84, (TPtr G_GUAMI));
  ("PDUSessionResourceSetupListCxtReq", gp87, (TPtr G_PDUSessionResourceSetupListCxtReq));
  ("AllowedNSSAI", gp78, (TPtr G_AllowedNSSAI));
  ("UESecurityCapabilities", gp73, (TPtr G_UESecurityCapabilities));
  ("SecurityKey", gp88, (TPtr G_SecurityKey));
  ("TraceActivation", gp79, (TPtr G_TraceActivation));
  ("MobilityRestrictionList", gp81, (TPtr G_MobilityRestrictionList));
  ("UERadioCapability", gp89, (TPtr G_UERadioCapability));
  ("IndexToRFSP", gp90, (TPtr G_IndexToRFSP));
  ("MaskedIMEISV", gp80, (TPtr G_MaskedIMEISV));
  ("NASPDU", gp91, (TPtr G_NASPDU));
  ("EmergencyFallbackIndicator", gp92, (TPtr G_EmergencyFallbackIndicator));
  ("RRCInactiveTransitionReportRequest", gp83, (TPtr G_RRCInactiveTransitionReportRequest));
  ("UERadioCapabilityForPaging", gp93, (TPtr G_UERadioCapabilityForPaging))].
Definition G_InitialContextSetupRequestIEs : ty := TStruct [
  ("Id", gp8, G_ProtocolIEID);
  ("Criticality", gp8, G_Criticality);
  ("Value", gp9, G_InitialContextSetupRequestIEsValue)].
Definition G_ProtocolIEContainerInitialContextSetupRequestIEs : ty := TStruct [
  ("List", gp29, (TSlice G_InitialContextSetupRequestIEs))].
Definition G_InitialContextSetupRequest : ty := TStruct [
  ("ProtocolIEs", gp8, G_ProtocolIEContainerInitialContextSetupRequestIEs)].
Definition G_ResetAll : ty := TStruct [
  ("Value", gp47, TEnum)].
Definition G_UEAssociatedLogicalNGConnectionItemExtIEsExtensionValue : ty := TStruct [
  ("Present", gp8, TInt)].
Definition G_UEAssociatedLogicalNGConnectionItemExtIEs : ty := TStruct [
  ("Id", gp8, G_ProtocolExtensionID);
  ("Criticality", gp8, G_Criticality);
  ("ExtensionValue", gp9, G_UEAssociatedLogicalNGConnectionItemExtIEsExtensionValue)].
Definition G_ProtocolExtensionContainerUEAssociatedLogicalNGConnectionItemExtIEs : ty := TStruct [
  ("List", gp10, (TSlice G_UEAssociatedLogicalNGConnectionItemExtIEs))].
Definition G_UEAssociatedLogicalNGConnectionItem : ty := TStruct [
  ("AMFUENGAPID", gp11, (TPtr G_AMFUENGAPID));
  ("RANUENGAPID", gp11, (TPtr G_RANUENGAPID));
  ("IEExtensions", gp11, (TPtr G_ProtocolExtensionContainerUEAssociatedLogicalNGConnectionItemExtIEs))].
Definition G_UEAssociatedLogicalNGConnectionList : ty := TStruct [
  ("List", gp94, (TSlice G_UEAssociatedLogicalNGConnectionItem))].
Definition G_ProtocolIESingleContainerResetTypeExtIEs : ty := TStruct [].
Definition G_ResetType : ty := TStruct [
  ("Present", gp8, TInt);
  ("NGInterface", gp8, (TPtr G_ResetAll));
  ("PartOfNGInterface", gp8, (TPtr G_UEAssociatedLogicalNGConnectionList));
  ("ChoiceExtensions", gp8, (TPtr G_ProtocolIESingleContainerResetTypeExtIEs))].
Definition G_NGResetIEsValue : ty := TStruct [
  ("Present", gp8, TInt);
  ("Cause", gp39, (TPtr G_Cause));
  ("ResetType", gp95, (TPtr G_ResetType))].
Definition G_NGResetIEs : ty := TStruct [
  ("Id", gp8, G_ProtocolIEID);
  ("Criticality", gp8, G_Criticality);
  ("Value", gp9, G_NGResetIEsValue)].
Definition G_ProtocolIEContainerNGResetIEs : ty := TStruct [
  ("List", gp29, (TSlice G_NGResetIEs))].
Definition G_NGReset : ty := TStruct [
  ("ProtocolIEs", gp8, G_ProtocolIEContainerNGResetIEs)].
Definition G_RANNodeName : ty := TStruct [
  ("Value", gp3, TString)].
Definition G_BroadcastPLMNItemExtIEsExtensionValue : ty := TStruct [
  ("Present", gp8, TInt)].
Definition G_BroadcastPLMNItemExtIEs : ty := TStruct [
  ("Id", gp8, G_ProtocolExtensionID);
  ("Criticality", gp8, G_Criticality);
  ("ExtensionValue", gp9, G_BroadcastPLMNItemExtIEsExtensionValue)].
Definition G_ProtocolExtensionContainerBroadcastPLMNItemExtIEs : ty := TStruct [
  ("List", gp10, (TSlice G_BroadcastPLMNItemExtIEs))].
Definition G_BroadcastPLMNItem : ty := TStruct [
  ("PLMNIdentity", gp8, G_PLMNIdentity);
  ("TAISliceSupportList", gp8, G_SliceSupportList);
  ("IEExtensions", gp11, (TPtr G_ProtocolExtensionContainerBroadcastPLMNItemExtIEs))].
Definition G_BroadcastPLMNList : ty := TStruct [
  ("List", gp17, (TSlice G_BroadcastPLMNItem))].
Definition G_SupportedTAItemExtIEsExtensionValue : ty := TStruct [
  ("Present", gp8, TInt)].
Definition G_SupportedTAItemExtIEs : ty := TStruct [
  ("Id", gp8, G_ProtocolExtensionID);
  ("Criticality", gp8, G_Criticality);
  ("ExtensionValue", gp9, G_SupportedTAItemExtIEsExtensionValue)].
Definition G_ProtocolExtensionContainerSupportedTAItemExtIEs : ty := TStruct [
  ("List", gp10, (TSlice G_SupportedTAItemExtIEs))].
Definition G_SupportedTAItem : ty := TStruct [
  ("TAC", gp8, G_TAC);
  ("BroadcastPLMNList", gp8, G_BroadcastPLMNList);
  ("IEExtensions", gp11, (TPtr G_ProtocolExtensionContainerSupportedTAItemExtIEs))].
Definition G_SupportedTAList : ty := TStruct [
  ("List", gp14, (TSlice G_SupportedTAItem))].
Definition G_NGSetupRequestIEsValue : ty := TStruct [
  ("Present", gp8, TInt);
  ("GlobalRANNodeID", gp96, (TPtr G_GlobalRANNodeID));
  ("RANNodeName", gp97, (TPtr G_RANNodeName));
  ("SupportedTAList", gp98, (TPtr G_SupportedTAList));
  ("DefaultPagingDRX", gp99, (TPtr G_PagingDRX))].
Definition G_NGSetupRequestIEs : ty := TStruct [
  ("Id", gp8, G_ProtocolIEID);
  ("Criticality", gp8, G_Criticality);
  ("Value", gp9, G_NGSetupRequestIEsValue)].
Definition G_ProtocolIEContainerNGSetupRequestIEs : ty := TStruct [
  ("List", gp29, (TSlice G_NGSetupRequestIEs))].
Definition G_NGSetupRequest : ty := TStruct [
  ("ProtocolIEs", gp8, G_ProtocolIEContainerNGSetupRequestIEs)].
Definition G_TimeStamp : ty := TStruct [
  ("Value", gp100, TOctets)].
Definition G_UserLocationInformationEUTRAExtIEsExtensionValue : ty := TStruct [
  ("Present", gp8, TInt)].
Definition G_UserLocationInformationEUTRAExtIEs : ty := TStruct [
  ("Id", gp8, G_ProtocolExtensionID);
  ("Criticality", gp8, G_Criticality);
  ("ExtensionValue", gp9, G_UserLocationInformationEUTRAExtIEsExtensionValue)].
Definition G_ProtocolExtensionContainerUserLocationInformationEUTRAExtIEs : ty := TStruct [
  ("List", gp10, (TSlice G_UserLocationInformationEUTRAExtIEs))].
Definition G_UserLocationInformationEUTRA : ty := TStruct [
  ("EUTRACGI", gp12, G_EUTRACGI);
  ("TAI", gp12, G_TAI);
  ("TimeStamp", gp11, (TPtr G_TimeStamp));
  ("IEExtensions", gp11, (TPtr G_ProtocolExtensionContainerUserLocationInformationEUTRAExtIEs))].
Definition G_UserLocationInformationNRExtIEsExtensionValue : ty := TStruct [
  ("Present", gp8, TInt)].
Definition G_UserLocationInformationNRExtIEs : ty := TStruct [
  ("Id", gp8, G_ProtocolExtensionID);
  ("Criticality", gp8, G_Criticality);
  ("ExtensionValue", gp9, G_UserLocationInformationNRExtIEsExtensionValue)].
Definition G_ProtocolExtensionContainerUserLocationInformationNRExtIEs : ty := TStruct [
  ("List", gp10, (TSlice G_UserLocationInformationNRExtIEs))].
Definition G_UserLocationInformationNR : ty := TStruct [
  ("NRCGI", gp12, G_NRCGI);
  ("TAI", gp12, G_TAI);
  ("TimeStamp", gp11, (TPtr G_TimeStamp));
  ("IEExtensions", gp11, (TPtr G_ProtocolExtensionContainerUserLocationInformationNRExtIEs))].
Definition G_PortNumber : ty := TStruct [
  ("Value", gp46, TOctets)].
Definition G_UserLocationInformationN3IWFExtIEsExtensionValue : ty := TStruct [
  ("Present", gp8, TInt)].
Definition G_UserLocationInformationN3IWFExtIEs : ty := TStruct [
  ("Id", gp8, G_ProtocolExtensionID);
  ("Criticality", gp8, G_Criticality);
  ("ExtensionValue", gp9, G_UserLocationInformationN3IWFExtIEsExtensionValue)].
Definition G_ProtocolExtensionContainerUserLocationInformationN3IWFExtIEs : ty := TStruct [
  ("List", gp10, (TSlice G_UserLocationInformationN3IWFExtIEs))].
Definition G_UserLocationInformationN3IWF : ty := TStruct [
  ("IPAddress", gp8, G_TransportLayerAddress);
  ("PortNumber", gp8, G_PortNumber);
  ("IEExtensions", gp11, (TPtr G_ProtocolExtensionContainerUserLocationInformationN3IWFExtIEs))].
Definition G_ProtocolIESingleContainerUserLocationInformationExtIEs : ty := TStruct [].
Definition G_UserLocationInformation : ty := TStruct [
  ("Present", gp8, TInt);
  ("UserLocationInformationEUTRA", gp12, (TPtr G_UserLocationInformationEUTRA));
  ("UserLocationInformationNR", gp12, (TPtr G_UserLocationInformationNR));
  ("UserLocationInformationN3IWF", gp12, (TPtr G_UserLocationInformationN3IWF));
  ("ChoiceExtensions", gp8, (TPtr G_ProtocolIESingleContainerUserLocationInformationExtIEs))].
Definition G_PDUSessionResourceToBeSwitchedDLItemExtIEsExtensionValue : ty := TStruct [
  ("Present", gp8, TInt)].
Definition G_PDUSessionResourceToBeSwitchedDLItemExtIEs : ty := TStruct [
  ("Id", gp8, G_ProtocolExtensionID);
  ("Criticality", gp8, G_Criticality);
  ("ExtensionValue", gp9, G_PDUSessionResourceToBeSwitchedDLItemExtIEsExtensionValue)].
Definition G_ProtocolExtensionContainerPDUSessionResourceToBeSwitchedDLItemExtIEs : ty := TStruct [
  ("List", gp10, (TSlice G_PDUSessionResourceToBeSwitchedDLItemExtIEs))].
Definition G_PDUSessionResourceToBeSwitchedDLItem : ty := TStruct [
  ("PDUSessionID", gp8, G_PDUSessionID);
  ("PathSwitchRequestTransfer", gp8, TOctets);
  ("IEExtensions", gp11, (TPtr G_ProtocolExtensionContainerPDUSessionResourceToBeSwitchedDLItemExtIEs))].
Definition G_PDUSessionResourceToBeSwitchedDLList : ty := TStruct [
  ("List", gp14, (TSlice G_PDUSessionResourceToBeSwitchedDLItem))].
Definition G_PDUSessionResourceFailedToSetupItemPSReqExtIEsExtensionValue : ty := TStruct [
  ("Present", gp8, TInt)].
Definition G_PDUSessionResourceFailedToSetupItemPSReqExtIEs : ty := TStruct [
  ("Id", gp8, G_ProtocolExtensionID);
  ("Criticality", gp8, G_Criticality);
  ("ExtensionValue", gp9, G_PDUSessionResourceFailedToSetupItemPSReqExtIEsExtensionValue)].
Definition G_ProtocolExtensionContainerPDUSessionResourceFailedToSetupItemPSReqExtIEs : ty := TStruct [
  ("List", gp10, (TSlice G_PDUSessionResourceFailedToSetupItemPSReqExtIEs))].
Definition G_PDUSessionResourceFailedToSetupItemPSReq : ty := TStruct [
  ("PDUSessionID", gp8, G_PDUSessionID);
  ("PathSwitchRequestSetupFailedTransfer", gp8, TOctets);
  ("IEExtensions", gp11, (TPtr G_ProtocolExtensionContainerPDUSessionResourceFailedToSetupItemPSReqExtIEs))].
Definition G_PDUSessionResourceFailedToSetupListPSReq : ty := TStruct [
  ("List", gp14, (TSlice G_PDUSessionResourceFailedToSetupItemPSReq))].
Definition G_PathSwitchRequestIEsValue : ty := TStruct [
  ("Present", gp8, TInt);
  ("RANUENGAPID", gp38, (TPtr G_RANUENGAPID));
  ("SourceAMFUENGAPID", gp101, (TPtr G_AMFUENGAPID));
  ("UserLocationInformation", gp102, (TPtr G_UserLocationInformation));
  ("UESecurityCapabilities", gp73, (TPtr G_UESecurityCapabilities));
  ("PDUSessionResourceToBeSwitchedDLList", gp103, (TPtr G_PDUSessionResourceToBeSwitchedDLList));
  ("PDUSessionResourceFailedToSetupListPSReq", gp104, (TPtr G_PDUSessionResourceFailedToSetupListPSReq))].
Definition G_PathSwitchRequestIEs : ty := TStruct [
  ("Id", gp8, G_ProtocolIEID);
  ("Criticality", gp8, G_Criticality);
  ("Value", gp9, G_PathSwitchRequestIEsValue)].
Definition G_ProtocolIEContainerPathSwitchRequestIEs : ty := TStruct [
  ("List", gp29, (TSlice G_PathSwitchRequestIEs))].
Definition G_PathSwitchRequest : ty := TStruct [
  ("ProtocolIEs", gp8, G_ProtocolIEContainerPathSwitchRequestIEs)].
Definition G_RANPagingPriority : ty := TStruct [
  ("Value", gp105, TInt)].
Definition G_PDUSessionResourceModifyItemModReqExtIEsExtensionValue : ty := TStruct [
  ("Present", gp8, TInt)].
Definition G_PDUSessionResourceModifyItemModReqExtIEs : ty := TStruct [
  ("Id", gp8, G_ProtocolExtensionID);
  ("Criticality", gp8, G_Criticality);
  ("ExtensionValue", gp9, G_PDUSessionResourceModifyItemModReqExtIEsExtensionValue)].
Definition G_ProtocolExtensionContainerPDUSessionResourceModifyItemModReqExtIEs : ty := TStruct [
  ("List", gp10, (TSlice G_PDUSessionResourceModifyItemModReqExtIEs))].
Definition G_PDUSessionResourceModifyItemModReq : ty := TStruct [
  ("PDUSessionID", gp8, G_PDUSessionID);
  ("NASPDU", gp11, (TPtr G_NASPDU));
  ("PDUSessionResourceModifyRequestTransfer", gp8, TOctets);
  ("IEExtensions", gp11, (TPtr G_ProtocolExtensionContainerPDUSessionResourceModifyItemModReqExtIEs))].
Definition G_PDUSessionResourceModifyListModReq : ty := TStruct [
  ("List", gp14, (TSlice G_PDUSessionResourceModifyItemModReq))].
Definition G_PDUSessionResourceModifyRequestIEsValue : ty := TStruct [
  ("Present", gp8, TInt);
  ("AMFUENGAPID", gp37, (TPtr G_AMFUENGAPID));
  ("RANUENGAPID", gp38, (TPtr G_RANUENGAPID));
  ("RANPagingPriority", gp106, (TPtr G_RANPagingPriority));
  ("PDUSessionResourceModifyListModReq", gp107, (TPtr G_PDUSessionResourceModifyListModReq))].
Definition G_PDUSessionResourceModifyRequestIEs : ty := TStruct [
  ("Id", gp8, G_ProtocolIEID);
  ("Criticality", gp8, G_Criticality);
  ("Value", gp9, G_PDUSessionResourceModifyRequestIEsValue)].
Definition G_ProtocolIEContainerPDUSessionResourceModifyRequestIEs : ty := TStruct [
  ("List", gp29, (TSlice G_PDUSessionResourceModifyRequestIEs))].
Definition G_PDUSessionResourceModifyRequest : ty := TStruct [
  ("ProtocolIEs", gp8, G_ProtocolIEContainerPDUSessionResourceModifyRequestIEs)].
Definition G_PDUSessionResourceModifyItemModIndExtIEsExtensionValue : ty := TStruct [
  ("Present", gp8, TInt)].
Definition G_PDUSessionResourceModifyItemModIndExtIEs : ty := TStruct [
  ("Id", gp8, G_ProtocolExtensionID);
  ("Criticality", gp8, G_Criticality);
  ("ExtensionValue", gp9, G_PDUSessionResourceModifyItemModIndExtIEsExtensionValue)].
Definition G_ProtocolExtensionContainerPDUSessionResourceModifyItemModIndExtIEs : ty := TStruct [
  ("List", gp10, (TSlice G_PDUSessionResourceModifyItemModIndExtIEs))].
Definition G_PDUSessionResourceModifyItemModInd : ty := TStruct [
  ("PDUSessionID", gp8, G_PDUSessionID);
  ("PDUSessionResourceModifyIndicationTransfer", gp8, TOctets);
  ("IEExtensions", gp11, (TPtr G_ProtocolExtensionContainerPDUSessionResourceModifyItemModIndExtIEs))].
Definition G_PDUSessionResourceModifyListModInd : ty := TStruct [
  ("List", gp14, (TSlice G_PDUSessionResourceModifyItemModInd))].
Definition G_PDUSessionResourceModifyIndicationIEsValue : ty := TStruct [
  ("Present", gp8, TInt);
  ("AMFUENGAPID", gp37, (TPtr G_AMFUENGAPID));
  ("RANUENGAPID", gp38, (TPtr G_RANUENGAPID));
  ("PDUSessionResourceModifyListModInd", gp108, (TPtr G_PDUSessionResourceModifyListModInd))].
Definition G_PDUSessionResourceModifyIndicationIEs : ty := TStruct [
  ("Id", gp8, G_ProtocolIEID);
  ("Criticality", gp8, G_Criticality);
  ("Value", gp9, G_PDUSessionResourceModifyIndicationIEsValue)].
Definition G_ProtocolIEContainerPDUSessionResourceModifyIndicationIEs : ty := TStruct [
  ("List", gp29, (TSlice G_PDUSessionResourceModifyIndicationIEs))].
Definition G_PDUSessionResourceModifyIndication : ty := TStruct [
  ("ProtocolIEs", gp8, G_ProtocolIEContainerPDUSessionResourceModifyIndicationIEs)].
Definition G_PDUSessionResourceToReleaseItemRelCmdExtIEsExtensionValue : ty := TStruct [
  ("Present", gp8, TInt)].
Definition G_PDUSessionResourceToReleaseItemRelCmdExtIEs : ty := TStruct [
  ("Id", gp8, G_ProtocolExtensionID);
  ("Criticality", gp8, G_Criticality);
  ("ExtensionValue", gp9, G_PDUSessionResourceToReleaseItemRelCmdExtIEsExtensionValue)].
Definition G_ProtocolExtensionContainerPDUSessionResourceToReleaseItemRelCmdExtIEs : ty := TStruct [
  ("List", gp10, (TSlice G_PDUSessionResourceToReleaseItemRelCmdExtIEs))].
Definition G_PDUSessionResourceToReleaseItemRelCmd : ty := TStruct [
  ("PDUSessionID", gp8, G_PDUSessionID);
  ("PDUSessionResourceReleaseCommandTransfer", gp8, TOctets);
  ("IEExtensions", gp11, (TPtr G_ProtocolExtensionContainerPDUSessionResourceToReleaseItemRelCmdExtIEs))].
Definition G_PDUSessionResourceToReleaseListRelCmd : ty := TStruct [
  ("List", gp14, (TSlice G_PDUSessionResourceToReleaseItemRelCmd))].
Definition G_PDUSessionResourceReleaseCommandIEsValue : ty := TStruct [
  ("Present", gp8, TInt);
  ("AMFUENGAPID", gp37, (TPtr G_AMFUENGAPID));
  ("RANUENGAPID", gp38, (TPtr G_RANUENGAPID));
  ("RANPagingPriority", gp106, (TPtr G_RANPagingPriority));
  ("NASPDU", gp91, (TPtr G_NASPDU));
  ("PDUSessionResourceToReleaseListRelCmd", gp109, (TPtr G_PDUSessionResourceToReleaseListRelCmd))].
Definition G_PDUSessionResourceReleaseCommandIEs : ty := TStruct [
  ("Id", gp8, G_ProtocolIEID);
  ("Criticality", gp8, G_Criticality);
  ("Value", gp9, G_PDUSessionResourceReleaseCommandIEsValue)].
Definition G_ProtocolIEContainerPDUSessionResourceReleaseCommandIEs : ty := TStruct [
  ("List", gp29, (TSlice G_PDUSessionResourceReleaseCommandIEs))].
Definition G_PDUSessionResourceReleaseCommand : ty := TStruct [
  ("ProtocolIEs", gp8, G_ProtocolIEContainerPDUSessionResourceReleaseCommandIEs)].
Definition G_PDUSessionResourceSetupItemSUReqExtIEsExtensionValue : ty := TStruct [
  ("Present", gp8, TInt)].
Definition G_PDUSessionResourceSetupItemSUReqExtIEs : ty := TStruct [
  ("Id", gp8, G_ProtocolExtensionID);
  ("Criticality", gp8, G_Criticality);
  ("ExtensionValue", gp9, G_PDUSessionResourceSetupItemSUReqExtIEsExtensionValue)].
Definition G_ProtocolExtensionContainerPDUSessionResourceSetupItemSUReqExtIEs : ty := TStruct [
  ("List", gp10, (TSlice G_PDUSessionResourceSetupItemSUReqExtIEs))].
Definition G_PDUSessionResourceSetupItemSUReq : ty := TStruct [
  ("PDUSessionID", gp8, G_PDUSessionID);
  ("PDUSessionNASPDU", gp11, (TPtr G_NASPDU));
  ("SNSSAI", gp12, G_SNSSAI);
  ("PDUSessionResourceSetupRequestTransfer", gp8, TOctets);
  ("IEExtensions", gp11, (TPtr G_ProtocolExtensionContainerPDUSessionResourceSetupItemSUReqExtIEs))].
Definition G_PDUSessionResourceSetupListSUReq : ty := TStruct [
  ("List", gp14, (TSlice G_PDUSessionResourceSetupItemSUReq))].
Definition G_PDUSessionResourceSetupRequestIEsValue : ty := TStruct [
  ("Present", gp8, TInt);
  ("AMFUENGAPID", gp37, (TPtr G_AMFUENGAPID));
  ("RANUENGAPID", gp38, (TPtr G_RANUENGAPID));
  ("RANPagingPriority", gp106, (TPtr G_RANPagingPriority));
  ("NASPDU", gp91, (TPtr G_NASPDU));
  ("PDUSessionResourceSetupListSUReq", gp110, (TPtr G_PDUSessionResourceSetupListSUReq))].
Definition G_PDUSessionResourceSetupRequestIEs : ty := TStruct [
  ("Id", gp8, G_ProtocolIEID);
  ("Criticality", gp8, G_Criticality);
  ("Value", gp9, G_PDUSessionResourceSetupRequestIEsValue)].
Definition G_ProtocolIEContainerPDUSessionResourceSetupRequestIEs : ty := TStruct [
  ("List", gp29, (TSlice G_PDUSessionResourceSetupRequestIEs))].
Definition G_PDUSessionResourceSetupRequest : ty := TStruct [
  ("ProtocolIEs", gp8, G_ProtocolIEContainerPDUSessionResourceSetupRequestIEs)].
Definition G_MessageIdentifier : ty := TStruct [
  ("Value", gp45, TBits)].
Definition G_SerialNumber : ty := TStruct [
  ("Value", gp45, TBits)].
Definition G_EUTRACGIListForWarning : ty := TStruct [
  ("List", gp111, (TSlice G_EUTRACGI))].
Definition G_NRCGIListForWarning : ty := TStruct [
  ("List", gp111, (TSlice G_NRCGI))].
Definition G_TAIListForWarning : ty := TStruct [
  ("List", gp111, (TSlice G_TAI))].
Definition G_EmergencyAreaID : ty := TStruct [
  ("Value", gp4, TOctets)].
Definition G_EmergencyAreaIDList : ty := TStruct [
  ("List", gp10, (TSlice G_EmergencyAreaID))].
Definition G_ProtocolIESingleContainerWarningAreaListExtIEs : ty := TStruct [].
Definition G_WarningAreaList : ty := TStruct [
  ("Present", gp8, TInt);
  ("EUTRACGIListForWarning", gp8, (TPtr G_EUTRACGIListForWarning));
  ("NRCGIListForWarning", gp8, (TPtr G_NRCGIListForWarning));
  ("TAIListForWarning", gp8, (TPtr G_TAIListForWarning));
  ("EmergencyAreaIDList", gp8, (TPtr G_EmergencyAreaIDList));
  ("ChoiceExtensions", gp8, (TPtr G_ProtocolIESingleContainerWarningAreaListExtIEs))].
Definition G_CancelAllWarningMessages : ty := TStruct [
  ("Value", gp47, TEnum)].
Definition G_PWSCancelRequestIEsValue : ty := TStruct [
  ("Present", gp8, TInt);
  ("MessageIdentifier", gp112, (TPtr G_MessageIdentifier));
  ("SerialNumber", gp113, (TPtr G_SerialNumber));
  ("WarningAreaList", gp114, (TPtr G_WarningAreaList));
  ("CancelAllWarningMessages", gp115, (TPtr G_CancelAllWarningMessages))].
Definition G_PWSCancelRequestIEs : ty := TStruct [
  ("Id", gp8, G_ProtocolIEID);
  ("Criticality", gp8, G_Criticality);
  ("Value", gp9, G_PWSCancelRequestIEsValue)].
Definition G_ProtocolIEContainerPWSCancelRequestIEs : ty := TStruct [
  ("List", gp29, (TSlice G_PWSCancelRequestIEs))].
Definition G_PWSCancelRequest : ty := TStruct [
  ("ProtocolIEs", gp8, G_ProtocolIEContainerPWSCancelRequestIEs)].
Definition G_RANConfigurationUpdateIEsValue : ty := TStruct [
  ("Present", gp8, TInt);
  ("RANNodeName", gp97, (TPtr G_RANNodeName));
  ("SupportedTAList", gp98, (TPtr G_SupportedTAList));
  ("DefaultPagingDRX", gp99, (TPtr G_PagingDRX))].
Definition G_RANConfigurationUpdateIEs : ty := TStruct [
  ("Id", gp8, G_ProtocolIEID);
  ("Criticality", gp8, G_Criticality);
  ("Value", gp9, G_RANConfigurationUpdateIEsValue)].
Definition G_ProtocolIEContainerRANConfigurationUpdateIEs : ty := TStruct [
  ("List", gp29, (TSlice G_RANConfigurationUpdateIEs))].
Definition G_RANConfigurationUpdate : ty := TStruct [
  ("ProtocolIEs", gp8, G_ProtocolIEContainerRANConfigurationUpdateIEs)].
Definition G_UEContextModificationRequestIEsValue : ty := TStruct [
  ("Present", gp8, TInt);
  ("AMFUENGAPID", gp37, (TPtr G_AMFUENGAPID));
  ("RANUENGAPID", gp38, (TPtr G_RANUENGAPID));
  ("RANPagingPriority", gp106, (TPtr G_RANPagingPriority));
  ("SecurityKey", gp88, (TPtr G_SecurityKey));
  ("IndexToRFSP", gp90, (TPtr G_IndexToRFSP));
  ("UEAggregateMaximumBitRate", gp71, (TPtr G_UEAggregateMaximumBitRate));
  ("UESecurityCapabilities", gp73, (TPtr G_UESecurityCapabilities));
  ("CoreNetworkAssistanceInformation", gp72, (TPtr G_CoreNetworkAssistanceInformation));
  ("EmergencyFallbackIndicator", gp92, (TPtr G_EmergencyFallbackIndicator));
  ("NewAMFUENGAPID", gp116, (TPtr G_AMFUENGAPID));
  ("RRCInactiveTransitionReportRequest", gp83, (TPtr G_RRCInactiveTransitionReportRequest))].
Definition G_UEContextModificationRequestIEs : ty := TStruct [
  ("Id", gp8, G_ProtocolIEID);
  ("Criticality", gp8, G_Criticality);
  ("Value", gp9, G_UEContextModificationRequestIEsValue)].
Definition G_ProtocolIEContainerUEContextModificationRequestIEs : ty := TStruct [
  ("List", gp29, (TSlice G_UEContextModificationRequestIEs))].
Definition G_UEContextModificationRequest : ty := TStruct [
  ("ProtocolIEs", gp8, G_ProtocolIEContainerUEContextModificationRequestIEs)].
Definition G_UENGAPIDPairExtIEsExtensionValue : ty := TStruct [
  ("Present", gp8, TInt)].
Definition G_UENGAPIDPairExtIEs : ty := TStruct [
  ("Id", gp8, G_ProtocolExtensionID);
  ("Criticality", gp8, G_Criticality);
  ("ExtensionValue", gp9, G_UENGAPIDPairExtIEsExtensionValue)].
Definition G_ProtocolExtensionContainerUENGAPIDPairExtIEs : ty := TStruct [
  ("List", gp10, (TSlice G_UENGAPIDPairExtIEs))].
Definition G_UENGAPIDPair : ty := TStruct [
  ("AMFUENGAPID", gp8, G_AMFUENGAPID);
  ("RANUENGAPID", gp8, G_RANUENGAPID);
  ("IEExtensions", gp11, (TPtr G_ProtocolExtensionContainerUENGAPIDPairExtIEs))].
Definition G_ProtocolIESingleContainerUENGAPIDsExtIEs : ty := TStruct [].
Definition G_UENGAPIDs : ty := TStruct [
  ("Present", gp8, TInt);
  ("UENGAPIDPair", gp12, (TPtr G_UENGAPIDPair));
  ("AMFUENGAPID", gp8, (TPtr G_AMFUENGAPID));
  ("ChoiceExtensions", gp8, (TPtr G_ProtocolIESingleContainerUENGAPIDsExtIEs))].
Definition G_UEContextReleaseCommandIEsValue : ty := TStruct [
  ("Present", gp8, TInt);
  ("UENGAPIDs", gp117, (TPtr G_UENGAPIDs));
  ("Cause", gp39, (TPtr G_Cause))].
Definition G_UEContextReleaseCommandIEs : ty := TStruct [
  ("Id", gp8, G_ProtocolIEID);
  ("Criticality", gp8, G_Criticality);
  ("Value", gp9, G_UEContextReleaseCommandIEsValue)].
Definition G_ProtocolIEContainerUEContextReleaseCommandIEs : ty := TStruct [
  ("List", gp29, (TSlice G_UEContextReleaseCommandIEs))].
Definition G_UEContextReleaseCommand : ty := TStruct [
  ("ProtocolIEs", gp8, G_ProtocolIEContainerUEContextReleaseCommandIEs)].
Definition G_UERadioCapabilityCheckRequestIEsValue : ty := TStruct [
  ("Present", gp8, TInt);
  ("AMFUENGAPID", gp37, (TPtr G_AMFUENGAPID));
  ("RANUENGAPID", gp38, (TPtr G_RANUENGAPID));
  ("UERadioCapability", gp89, (TPtr G_UERadioCapability))].
Definition G_UERadioCapabilityCheckRequestIEs : ty := TStruct [
  ("Id", gp8, G_ProtocolIEID);
  ("Criticality", gp8, G_Criticality);
  ("Value", gp9, G_UERadioCapabilityCheckRequestIEsValue)].
Definition G_ProtocolIEContainerUERadioCapabilityCheckRequestIEs : ty := TStruct [
  ("List", gp29, (TSlice G_UERadioCapabilityCheckRequestIEs))].
Definition G_UERadioCapabilityCheckRequest : ty := TStruct [
  ("ProtocolIEs", gp8, G_ProtocolIEContainerUERadioCapabilityCheckRequestIEs)].
Definition G_RepetitionPeriod : ty := TStruct [
  ("Value", gp118, TInt)].
Definition G_NumberOfBroadcastsRequested : ty := TStruct [
  ("Value", gp2, TInt)].
Definition G_WarningType : ty := TStruct [
  ("Value", gp46, TOctets)].
Definition G_WarningSecurityInfo : ty := TStruct [
  ("Value", gp119, TOctets)].
Definition G_DataCodingScheme : ty := TStruct [
  ("Value", gp5, TBits)].
Definition G_WarningMessageContents : ty := TStruct [
  ("Value", gp120, TOctets)].
Definition G_ConcurrentWarningMessageInd : ty := TStruct [
  ("Value", gp47, TEnum)].
Definition G_WarningAreaCoordinates : ty := TStruct [
  ("Value", gp121, TOctets)].
Definition G_WriteReplaceWarningRequestIEsValue : ty := TStruct [
  ("Present", gp8, TInt);
  ("MessageIdentifier", gp112, (TPtr G_MessageIdentifier));
  ("SerialNumber", gp113, (TPtr G_SerialNumber));
  ("WarningAreaList", gp114, (TPtr G_WarningAreaList));
  ("RepetitionPeriod", gp122, (TPtr G_RepetitionPeriod));
  ("NumberOfBroadcastsRequested", gp123, (TPtr G_NumberOfBroadcastsRequested));
  ("WarningType", gp124, (TPtr G_WarningType));
  ("WarningSecurityInfo", gp125, (TPtr G_WarningSecurityInfo));
  ("DataCodingScheme", gp126, (TPtr G_DataCodingScheme));
  ("WarningMessageContents", gp127, (TPtr G_WarningMessageContents));
  ("ConcurrentWarningMessageInd", gp128, (TPtr G_ConcurrentWarningMessageInd));
  ("WarningAreaCoordinates", gp129, (TPtr G_WarningAreaCoordinates))].
Definition G_WriteReplaceWarningRequestIEs : ty := TStruct [
  ("Id", gp8, G_ProtocolIEID);
  ("Criticality", gp8, G_Criticality);
  ("Value", gp9, G_WriteReplaceWarningRequestIEsValue)].
Definition G_ProtocolIEContainerWriteReplaceWarningRequestIEs : ty := TStruct [
  ("List", gp29, (TSlice G_WriteReplaceWarningRequestIEs))].
Definition G_WriteReplaceWarningRequest : ty := TStruct [
  ("ProtocolIEs", gp8, G_ProtocolIEContainerWriteReplaceWarningRequestIEs)].
Definition G_TimerApproachForGUAMIRemoval : ty := TStruct [
  ("Value", gp47, TEnum)].
Definition G_UnavailableGUAMIItemExtIEsExtensionValue : ty := TStruct [
  ("Present", gp8, TInt)].
Definition G_UnavailableGUAMIItemExtIEs : ty := TStruct [
  ("Id", gp8, G_ProtocolExtensionID);
  ("Criticality", gp8, G_Criticality);
  ("ExtensionValue", gp9, G_UnavailableGUAMIItemExtIEsExtensionValue)].
Definition G_ProtocolExtensionContainerUnavailableGUAMIItemExtIEs : ty := TStruct [
  ("List", gp10, (TSlice G_UnavailableGUAMIItemExtIEs))].
Definition G_UnavailableGUAMIItem : ty := TStruct [
  ("GUAMI", gp12, G_GUAMI);
  ("TimerApproachForGUAMIRemoval", gp11, (TPtr G_TimerApproachForGUAMIRemoval));
  ("BackupAMFName", gp13, (TPtr G_AMFName));
  ("IEExtensions", gp11, (TPtr G_ProtocolExtensionContainerUnavailableGUAMIItemExtIEs))].
Definition G_UnavailableGUAMIList : ty := TStruct [
  ("List", gp14, (TSlice G_UnavailableGUAMIItem))].
Definition G_AMFStatusIndicationIEsValue : ty := TStruct [
  ("Present", gp8, TInt);
  ("UnavailableGUAMIList", gp130, (TPtr G_UnavailableGUAMIList))].
Definition G_AMFStatusIndicationIEs : ty := TStruct [
  ("Id", gp8, G_ProtocolIEID);
  ("Criticality", gp8, G_Criticality);
  ("Value", gp9, G_AMFStatusIndicationIEsValue)].
Definition G_ProtocolIEContainerAMFStatusIndicationIEs : ty := TStruct [
  ("List", gp29, (TSlice G_AMFStatusIndicationIEs))].
Definition G_AMFStatusIndication : ty := TStruct [
  ("ProtocolIEs", gp8, G_ProtocolIEContainerAMFStatusIndicationIEs)].
Definition G_CellTrafficTraceIEsValue : ty := TStruct [
  ("Present", gp8, TInt);
  ("AMFUENGAPID", gp37, (TPtr G_AMFUENGAPID));
  ("RANUENGAPID", gp38, (TPtr G_RANUENGAPID));
  ("NGRANTraceID", gp131, (TPtr G_NGRANTraceID));
  ("NGRANCGI", gp132, (TPtr G_NGRANCGI));
  ("TraceCollectionEntityIPAddress", gp133, (TPtr G_TransportLayerAddress))].
Definition G_CellTrafficTraceIEs : ty := TStruct [
  ("Id", gp8, G_ProtocolIEID);
  ("Criticality", gp8, G_Criticality);
  ("Value", gp9, G_CellTrafficTraceIEsValue)].
Definition G_ProtocolIEContainerCellTrafficTraceIEs : ty := TStruct [
  ("List", gp29, (TSlice G_CellTrafficTraceIEs))].
Definition G_CellTrafficTrace : ty := TStruct [
  ("ProtocolIEs", gp8, G_ProtocolIEContainerCellTrafficTraceIEs)].
Definition G_DeactivateTraceIEsValue : ty := TStruct [
  ("Present", gp8, TInt);
  ("AMFUENGAPID", gp37, (TPtr G_AMFUENGAPID));
  ("RANUENGAPID", gp38, (TPtr G_RANUENGAPID));
  ("NGRANTraceID", gp131, (TPtr G_NGRANTraceID))].
Definition G_DeactivateTraceIEs : ty := TStruct [
  ("Id", gp8, G_ProtocolIEID);
  ("Criticality", gp8, G_Criticality);
  ("Value", gp9, G_DeactivateTraceIEsValue)].
Definition G_ProtocolIEContainerDeactivateTraceIEs : ty := TStruct [
  ("List", gp29, (TSlice G_DeactivateTraceIEs))].
Definition G_DeactivateTrace : ty := TStruct [
  ("ProtocolIEs", gp8, G_ProtocolIEContainerDeactivateTraceIEs)].
Definition G_DownlinkNASTransportIEsValue : ty := TStruct [
  ("Present", gp8, TInt);
  ("AMFUENGAPID", gp37, (TPtr G_AMFUENGAPID));
  ("RANUENGAPID", gp38, (TPtr G_RANUENGAPID));
  ("OldAMF", gp86, (TPtr G_AMFName));
  ("RANPagingPriority", gp106, (TPtr G_RANPagingPriority));
  ("NASPDU", gp91, (TPtr G_NASPDU));
  ("MobilityRestrictionList", gp81, (TPtr G_MobilityRestrictionList));
  ("IndexToRFSP", gp90, (TPtr G_IndexToRFSP));
  ("UEAggregateMaximumBitRate", gp71, (TPtr G_UEAggregateMaximumBitRate));
  ("AllowedNSSAI", gp78, (TPtr G_AllowedNSSAI))].
Definition G_DownlinkNASTransportIEs : ty := TStruct [
  ("Id", gp8, G_ProtocolIEID);
  ("Criticality", gp8, G_Criticality);
  ("Value", gp9, G_DownlinkNASTransportIEsValue)].
Definition G_ProtocolIEContainerDownlinkNASTransportIEs : ty := TStruct [
  ("List", gp29, (TSlice G_DownlinkNASTransportIEs))].
Definition G_DownlinkNASTransport : ty := TStruct [
  ("ProtocolIEs", gp8, G_ProtocolIEContainerDownlinkNASTransportIEs)].
Definition G_RoutingID : ty := TStruct [
  ("Value", gp8, TOctets)].
Definition G_NRPPaPDU : ty := TStruct [
  ("Value", gp8, TOctets)].
Definition G_DownlinkNonUEAssociatedNRPPaTransportIEsValue : ty := TStruct [
  ("Present", gp8, TInt);
  ("RoutingID", gp134, (TPtr G_RoutingID));
  ("NRPPaPDU", gp135, (TPtr G_NRPPaPDU))].
Definition G_DownlinkNonUEAssociatedNRPPaTransportIEs : ty := TStruct [
  ("Id", gp8, G_ProtocolIEID);
  ("Criticality", gp8, G_Criticality);
  ("Value", gp9, G_DownlinkNonUEAssociatedNRPPaTransportIEsValue)].
Definition G_ProtocolIEContainerDownlinkNonUEAssociatedNRPPaTransportIEs : ty := TStruct [
  ("List", gp29, (TSlice G_DownlinkNonUEAssociatedNRPPaTransportIEs))].
Definition G_DownlinkNonUEAssociatedNRPPaTransport : ty := TStruct [
  ("ProtocolIEs", gp8, G_ProtocolIEContainerDownlinkNonUEAssociatedNRPPaTransportIEs)].
Definition G_SourceRANNodeIDExtIEsExtensionValue : ty := TStruct [
  ("Present", gp8, TInt)].
Definition G_SourceRANNodeIDExtIEs : ty := TStruct [
  ("Id", gp8, G_ProtocolExtensionID);
  ("Criticality", gp8, G_Criticality);
  ("ExtensionValue", gp9, G_SourceRANNodeIDExtIEsExtensionValue)].
Definition G_ProtocolExtensionContainerSourceRANNodeIDExtIEs : ty := TStruct [
  ("List", gp10, (TSlice G_SourceRANNodeIDExtIEs))].
Definition G_SourceRANNodeID : ty := TStruct [
  ("GlobalRANNodeID", gp44, G_GlobalRANNodeID);
  ("SelectedTAI", gp12, G_TAI);
  ("IEExtensions", gp11, (TPtr G_ProtocolExtensionContainerSourceRANNodeIDExtIEs))].
Definition G_SONInformationRequest : ty := TStruct [
  ("Value", gp47, TEnum)].
Definition G_XnTLAs : ty := TStruct [
  ("List", gp68, (TSlice G_TransportLayerAddress))].
Definition G_XnGTPTLAs : ty := TStruct [
  ("List", gp68, (TSlice G_TransportLayerAddress))].
Definition G_XnExtTLAItemExtIEsExtensionValue : ty := TStruct [
  ("Present", gp8, TInt)].
Definition G_XnExtTLAItemExtIEs : ty := TStruct [
  ("Id", gp8, G_ProtocolExtensionID);
  ("Criticality", gp8, G_Criticality);
  ("ExtensionValue", gp9, G_XnExtTLAItemExtIEsExtensionValue)].
Definition G_ProtocolExtensionContainerXnExtTLAItemExtIEs : ty := TStruct [
  ("List", gp10, (TSlice G_XnExtTLAItemExtIEs))].
Definition G_XnExtTLAItem : ty := TStruct [
  ("IPsecTLA", gp11, (TPtr G_TransportLayerAddress));
  ("GTPTLAs", gp11, (TPtr G_XnGTPTLAs));
  ("IEExtensions", gp11, (TPtr G_ProtocolExtensionContainerXnExtTLAItemExtIEs))].
Definition G_XnExtTLAs : ty := TStruct [
  ("List", gp136, (TSlice G_XnExtTLAItem))].
Definition G_XnTNLConfigurationInfoExtIEsExtensionValue : ty := TStruct [
  ("Present", gp8, TInt)].
Definition G_XnTNLConfigurationInfoExtIEs : ty := TStruct [
  ("Id", gp8, G_ProtocolExtensionID);
  ("Criticality", gp8, G_Criticality);
  ("ExtensionValue", gp9, G_XnTNLConfigurationInfoExtIEsExtensionValue)].
Definition G_ProtocolExtensionContainerXnTNLConfigurationInfoExtIEs : ty := TStruct [
  ("List", gp10, (TSlice G_XnTNLConfigurationInfoExtIEs))].
Definition G_XnTNLConfigurationInfo : ty := TStruct [
  ("XnTransportLayerAddresses", gp8, G_XnTLAs);
  ("XnExtendedTransportLayerAddresses", gp11, (TPtr G_XnExtTLAs));
  ("IEExtensions", gp11, (TPtr G_ProtocolExtensionContainerXnTNLConfigurationInfoExtIEs))].
Definition G_SONInformationReplyExtIEsExtensionValue : ty := TStruct [
  ("Present", gp8, TInt)].
Definition G_SONInformationReplyExtIEs : ty := TStruct [
  ("Id", gp8, G_ProtocolExtensionID);
  ("Criticality", gp8, G_Criticality);
  ("ExtensionValue", gp9, G_SONInformationReplyExtIEsExtensionValue)].
Definition G_ProtocolExtensionContainerSONInformationReplyExtIEs : ty := TStruct [
  ("List", gp10, (TSlice G_SONInformationReplyExtIEs))].
Definition G_SONInformationReply : ty := TStruct [
  ("XnTNLConfigurationInfo", gp58, (TPtr G_XnTNLConfigurationInfo));
  ("IEExtensions", gp11, (TPtr G_ProtocolExtensionContainerSONInformationReplyExtIEs))].
Definition G_ProtocolIESingleContainerSONInformationExtIEs : ty := TStruct [].
Definition G_SONInformation : ty := TStruct [
  ("Present", gp8, TInt);
  ("SONInformationRequest", gp8, (TPtr G_SONInformationRequest));
  ("SONInformationReply", gp12, (TPtr G_SONInformationReply));
  ("ChoiceExtensions", gp8, (TPtr G_ProtocolIESingleContainerSONInformationExtIEs))].
Definition G_SONConfigurationTransferExtIEsExtensionValue : ty := TStruct [
  ("Present", gp8, TInt)].
Definition G_SONConfigurationTransferExtIEs : ty := TStruct [
  ("Id", gp8, G_ProtocolExtensionID);
  ("Criticality", gp8, G_Criticality);
  ("ExtensionValue", gp9, G_SONConfigurationTransferExtIEsExtensionValue)].
Definition G_ProtocolExtensionContainerSONConfigurationTransferExtIEs : ty := TStruct [
  ("List", gp10, (TSlice G_SONConfigurationTransferExtIEs))].
Definition G_SONConfigurationTransfer : ty := TStruct [
  ("TargetRANNodeID", gp12, G_TargetRANNodeID);
  ("SourceRANNodeID", gp12, G_SourceRANNodeID);
  ("SONInformation", gp1, G_SONInformation);
  ("XnTNLConfigurationInfo", gp12, G_XnTNLConfigurationInfo);
  ("IEExtensions", gp11, (TPtr G_ProtocolExtensionContainerSONConfigurationTransferExtIEs))].
Definition G_DownlinkRANConfigurationTransferIEsValue : ty := TStruct [
  ("Present", gp8, TInt);
  ("SONConfigurationTransferDL", gp137, (TPtr G_SONConfigurationTransfer))].
Definition G_DownlinkRANConfigurationTransferIEs : ty := TStruct [
  ("Id", gp8, G_ProtocolIEID);
  ("Criticality", gp8, G_Criticality);
  ("Value", gp9, G_DownlinkRANConfigurationTransferIEsValue)].
Definition G_ProtocolIEContainerDownlinkRANConfigurationTransferIEs : ty := TStruct [
  ("List", gp29, (TSlice G_DownlinkRANConfigurationTransferIEs))].
Definition G_DownlinkRANConfigurationTransfer : ty := TStruct [
  ("ProtocolIEs", gp8, G_ProtocolIEContainerDownlinkRANConfigurationTransferIEs)].
Definition G_DRBID : ty := TStruct [
  ("Value", gp138, TInt)].
Definition G_COUNTValueForPDCPSN12ExtIEsExtensionValue : ty := TStruct [
  ("Present", gp8, TInt)].
Definition G_COUNTValueForPDCPSN12ExtIEs : ty := TStruct [
  ("Id", gp8, G_ProtocolExtensionID);
  ("Criticality", gp8, G_Criticality);
  ("ExtensionValue", gp9, G_COUNTValueForPDCPSN12ExtIEsExtensionValue)].
Definition G_ProtocolExtensionContainerCOUNTValueForPDCPSN12ExtIEs : ty := TStruct [
  ("List", gp10, (TSlice G_COUNTValueForPDCPSN12ExtIEs))].
Definition G_COUNTValueForPDCPSN12 : ty := TStruct [
  ("PDCPSN12", gp139, TInt);
  ("HFNPDCPSN12", gp140, TInt);
  ("IEExtensions", gp11, (TPtr G_ProtocolExtensionContainerCOUNTValueForPDCPSN12ExtIEs))].
Definition G_DRBStatusUL12ExtIEsExtensionValue : ty := TStruct [
  ("Present", gp8, TInt)].
Definition G_DRBStatusUL12ExtIEs : ty := TStruct [
  ("Id", gp8, G_ProtocolExtensionID);
  ("Criticality", gp8, G_Criticality);
  ("ExtensionValue", gp9, G_DRBStatusUL12ExtIEsExtensionValue)].
Definition G_ProtocolExtensionContainerDRBStatusUL12ExtIEs : ty := TStruct [
  ("List", gp10, (TSlice G_DRBStatusUL12ExtIEs))].
Definition G_DRBStatusUL12 : ty := TStruct [
  ("ULCOUNTValue", gp12, G_COUNTValueForPDCPSN12);
  ("ReceiveStatusOfULPDCPSDUs", gp141, (TPtr TBits));
  ("IEExtension", gp11, (TPtr G_ProtocolExtensionContainerDRBStatusUL12ExtIEs))].
Definition G_COUNTValueForPDCPSN18ExtIEsExtensionValue : ty := TStruct [
  ("Present", gp8, TInt)].
Definition G_COUNTValueForPDCPSN18ExtIEs : ty := TStruct [
  ("Id", gp8, G_ProtocolExtensionID);
  ("Criticality", gp8, G_Criticality);
  ("ExtensionValue", gp9, G_COUNTValueForPDCPSN18ExtIEsExtensionValue)].
Definition G_ProtocolExtensionContainerCOUNTValueForPDCPSN18ExtIEs : ty := TStruct [
  ("List", gp10, (TSlice G_COUNTValueForPDCPSN18ExtIEs))].
Definition G_COUNTValueForPDCPSN18 : ty := TStruct [
  ("PDCPSN18", gp142, TInt);
  ("HFNPDCPSN18", gp143, TInt);
  ("IEExtensions", gp11, (TPtr G_ProtocolExtensionContainerCOUNTValueForPDCPSN18ExtIEs))].
Definition G_DRBStatusUL18ExtIEsExtensionValue : ty := TStruct [
  ("Present", gp8, TInt)].
Definition G_DRBStatusUL18ExtIEs : ty := TStruct [
  ("Id", gp8, G_ProtocolExtensionID);
  ("Criticality", gp8, G_Criticality);
  ("ExtensionValue", gp9, G_DRBStatusUL18ExtIEsExtensionValue)].
Definition G_ProtocolExtensionContainerDRBStatusUL18ExtIEs : ty := TStruct [
  ("List", gp10, (TSlice G_DRBStatusUL18ExtIEs))].
Definition G_DRBStatusUL18 : ty := TStruct [
  ("ULCOUNTValue", gp12, G_COUNTValueForPDCPSN18);
  ("ReceiveStatusOfULPDCPSDUs", gp144, (TPtr TBits));
  ("IEExtension", gp11, (TPtr G_ProtocolExtensionContainerDRBStatusUL18ExtIEs))].
Definition G_ProtocolIESingleContainerDRBStatusULExtIEs : ty := TStruct [].
Definition G_DRBStatusUL : ty := TStruct [
  ("Present", gp8, TInt);
  ("DRBStatusUL12", gp12, (TPtr G_DRBStatusUL12));
  ("DRBStatusUL18", gp12, (TPtr G_DRBStatusUL18));
  ("ChoiceExtensions", gp8, (TPtr G_ProtocolIESingleContainerDRBStatusULExtIEs))].
Definition G_DRBStatusDL12ExtIEsExtensionValue : ty := TStruct [
  ("Present", gp8, TInt)].
Definition G_DRBStatusDL12ExtIEs : ty := TStruct [
  ("Id", gp8, G_ProtocolExtensionID);
  ("Criticality", gp8, G_Criticality);
  ("ExtensionValue", gp9, G_DRBStatusDL12ExtIEsExtensionValue)].
Definition G_ProtocolExtensionContainerDRBStatusDL12ExtIEs : ty := TStruct [
  ("List", gp10, (TSlice G_DRBStatusDL12ExtIEs))].
Definition G_DRBStatusDL12 : ty := TStruct [
  ("DLCOUNTValue", gp12, G_COUNTValueForPDCPSN12);
  ("IEExtension", gp11, (TPtr G_ProtocolExtensionContainerDRBStatusDL12ExtIEs))].
Definition G_DRBStatusDL18ExtIEsExtensionValue : ty := TStruct [
  ("Present", gp8, TInt)].
Definition G_DRBStatusDL18ExtIEs : ty := TStruct [
  ("Id", gp8, G_ProtocolExtensionID);
  ("Criticality", gp8, G_Criticality);
  ("ExtensionValue", gp9, G_DRBStatusDL18ExtIEsExtensionValue)].
Definition G_ProtocolExtensionContainerDRBStatusDL18ExtIEs : ty := TStruct [
  ("List", gp10, (TSlice G_DRBStatusDL18ExtIEs))].
Definition G_DRBStatusDL18 : ty := TStruct [
  ("DLCOUNTValue", gp12, G_COUNTValueForPDCPSN18);
  ("IEExtension", gp11, (TPtr G_ProtocolExtensionContainerDRBStatusDL18ExtIEs))].
Definition G_ProtocolIESingleContainerDRBStatusDLExtIEs : ty := TStruct [].
Definition G_DRBStatusDL : ty := TStruct [
  ("Present", gp8, TInt);
  ("DRBStatusDL12", gp12, (TPtr G_DRBStatusDL12));
  ("DRBStatusDL18", gp12, (TPtr G_DRBStatusDL18));
  ("ChoiceExtensions", gp8, (TPtr G_ProtocolIESingleContainerDRBStatusDLExtIEs))].
Definition G_DRBsSubjectToStatusTransferItemExtIEsExtensionValue : ty := TStruct [
  ("Present", gp8, TInt)].
Definition G_DRBsSubjectToStatusTransferItemExtIEs : ty := TStruct [
  ("Id", gp8, G_ProtocolExtensionID);
  ("Criticality", gp8, G_Criticality);
  ("ExtensionValue", gp9, G_DRBsSubjectToStatusTransferItemExtIEsExtensionValue)].
Definition G_ProtocolExtensionContainerDRBsSubjectToStatusTransferItemExtIEs : ty := TStruct [
  ("List", gp10, (TSlice G_DRBsSubjectToStatusTransferItemExtIEs))].
Definition G_DRBsSubjectToStatusTransferItem : ty := TStruct [
  ("DRBID", gp8, G_DRBID);
  ("DRBStatusUL", gp1, G_DRBStatusUL);
  ("DRBStatusDL", gp1, G_DRBStatusDL);
  ("IEExtension", gp11, (TPtr G_ProtocolExtensionContainerDRBsSubjectToStatusTransferItemExtIEs))].
Definition G_DRBsSubjectToStatusTransferList : ty := TStruct [
  ("List", gp21, (TSlice G_DRBsSubjectToStatusTransferItem))].
Definition G_RANStatusTransferTransparentContainerExtIEsExtensionValue : ty := TStruct [
  ("Present", gp8, TInt)].
Definition G_RANStatusTransferTransparentContainerExtIEs : ty := TStruct [
  ("Id", gp8, G_ProtocolExtensionID);
  ("Criticality", gp8, G_Criticality);
  ("ExtensionValue", gp9, G_RANStatusTransferTransparentContainerExtIEsExtensionValue)].
Definition G_ProtocolExtensionContainerRANStatusTransferTransparentContainerExtIEs : ty := TStruct [
  ("List", gp10, (TSlice G_RANStatusTransferTransparentContainerExtIEs))].
Definition G_RANStatusTransferTransparentContainer : ty := TStruct [
  ("DRBsSubjectToStatusTransferList", gp8, G_DRBsSubjectToStatusTransferList);
  ("IEExtensions", gp11, (TPtr G_ProtocolExtensionContainerRANStatusTransferTransparentContainerExtIEs))].
Definition G_DownlinkRANStatusTransferIEsValue : ty := TStruct [
  ("Present", gp8, TInt);
  ("AMFUENGAPID", gp37, (TPtr G_AMFUENGAPID));
  ("RANUENGAPID", gp38, (TPtr G_RANUENGAPID));
  ("RANStatusTransferTransparentContainer", gp145, (TPtr G_RANStatusTransferTransparentContainer))].
Definition G_DownlinkRANStatusTransferIEs : ty := TStruct [
  ("Id", gp8, G_ProtocolIEID);
  ("Criticality", gp8, G_Criticality);
  ("Value", gp9, G_DownlinkRANStatusTransferIEsValue)].
Definition G_ProtocolIEContainerDownlinkRANStatusTransferIEs : ty := TStruct [
  ("List", gp29, (TSlice G_DownlinkRANStatusTransferIEs))].
Definition G_DownlinkRANStatusTransfer : ty := TStruct [
  ("ProtocolIEs", gp8, G_ProtocolIEContainerDownlinkRANStatusTransferIEs)].
Definition G_DownlinkUEAssociatedNRPPaTransportIEsValue : ty := TStruct [
  ("Present", gp8, TInt);
  ("AMFUENGAPID", gp37, (TPtr G_AMFUENGAPID));
  ("RANUENGAPID", gp38, (TPtr G_RANUENGAPID));
  ("RoutingID", gp134, (TPtr G_RoutingID));
  ("NRPPaPDU", gp135, (TPtr G_NRPPaPDU))].
Definition G_DownlinkUEAssociatedNRPPaTransportIEs : ty := TStruct [
  ("Id", gp8, G_ProtocolIEID);
  ("Criticality", gp8, G_Criticality);
  ("Value", gp9, G_DownlinkUEAssociatedNRPPaTransportIEsValue)].
Definition G_ProtocolIEContainerDownlinkUEAssociatedNRPPaTransportIEs : ty := TStruct [
  ("List", gp29, (TSlice G_DownlinkUEAssociatedNRPPaTransportIEs))].
Definition G_DownlinkUEAssociatedNRPPaTransport : ty := TStruct [
  ("ProtocolIEs", gp8, G_ProtocolIEContainerDownlinkUEAssociatedNRPPaTransportIEs)].
Definition G_TriggeringMessage : ty := TStruct [
  ("Value", gp1, TEnum)].
Definition G_TypeOfError : ty := TStruct [
  ("Value", gp33, TEnum)].
Definition G_CriticalityDiagnosticsIEItemExtIEsExtensionValue : ty := TStruct [
  ("Present", gp8, TInt)].
Definition G_CriticalityDiagnosticsIEItemExtIEs : ty := TStruct [
  ("Id", gp8, G_ProtocolExtensionID);
  ("Criticality", gp8, G_Criticality);
  ("ExtensionValue", gp9, G_CriticalityDiagnosticsIEItemExtIEsExtensionValue)].
Definition G_ProtocolExtensionContainerCriticalityDiagnosticsIEItemExtIEs : ty := TStruct [
  ("List", gp10, (TSlice G_CriticalityDiagnosticsIEItemExtIEs))].
Definition G_CriticalityDiagnosticsIEItem : ty := TStruct [
  ("IECriticality", gp8, G_Criticality);
  ("IEID", gp8, G_ProtocolIEID);
  ("TypeOfError", gp8, G_TypeOfError);
  ("IEExtensions", gp11, (TPtr G_ProtocolExtensionContainerCriticalityDiagnosticsIEItemExtIEs))].
Definition G_CriticalityDiagnosticsIEList : ty := TStruct [
  ("List", gp14, (TSlice G_CriticalityDiagnosticsIEItem))].
Definition G_CriticalityDiagnosticsExtIEsExtensionValue : ty := TStruct [
  ("Present", gp8, TInt)].
Definition G_CriticalityDiagnosticsExtIEs : ty := TStruct [
  ("Id", gp8, G_ProtocolExtensionID);
  ("Criticality", gp8, G_Criticality);
  ("ExtensionValue", gp9, G_CriticalityDiagnosticsExtIEsExtensionValue)].
Definition G_ProtocolExtensionContainerCriticalityDiagnosticsExtIEs : ty := TStruct [
  ("List", gp10, (TSlice G_CriticalityDiagnosticsExtIEs))].
Definition G_CriticalityDiagnostics : ty := TStruct [
  ("ProcedureCode", gp11, (TPtr G_ProcedureCode));
  ("TriggeringMessage", gp11, (TPtr G_TriggeringMessage));
  ("ProcedureCriticality", gp11, (TPtr G_Criticality));
  ("IEsCriticalityDiagnostics", gp11, (TPtr G_CriticalityDiagnosticsIEList));
  ("IEExtensions", gp11, (TPtr G_ProtocolExtensionContainerCriticalityDiagnosticsExtIEs))].
Definition G_ErrorIndicationIEsValue : ty := TStruct [
  ("Present", gp8, TInt);
  ("AMFUENGAPID", gp37, (TPtr G_AMFUENGAPID));
  ("RANUENGAPID", gp38, (TPtr G_RANUENGAPID));
  ("Cause", gp39, (TPtr G_Cause));
  ("CriticalityDiagnostics", gp146, (TPtr G_CriticalityDiagnostics))].
Definition G_ErrorIndicationIEs : ty := TStruct [
  ("Id", gp8, G_ProtocolIEID);
  ("Criticality", gp8, G_Criticality);
  ("Value", gp9, G_ErrorIndicationIEsValue)].
Definition G_ProtocolIEContainerErrorIndicationIEs : ty := TStruct [
  ("List", gp29, (TSlice G_ErrorIndicationIEs))].
Definition G_ErrorIndication : ty := TStruct [
  ("ProtocolIEs", gp8, G_ProtocolIEContainerErrorIndicationIEs)].
Definition G_HandoverNotifyIEsValue : ty := TStruct [
  ("Present", gp8, TInt);
  ("AMFUENGAPID", gp37, (TPtr G_AMFUENGAPID));
  ("RANUENGAPID", gp38, (TPtr G_RANUENGAPID));
  ("UserLocationInformation", gp102, (TPtr G_UserLocationInformation))].
Definition G_HandoverNotifyIEs : ty := TStruct [
  ("Id", gp8, G_ProtocolIEID);
  ("Criticality", gp8, G_Criticality);
  ("Value", gp9, G_HandoverNotifyIEsValue)].
Definition G_ProtocolIEContainerHandoverNotifyIEs : ty := TStruct [
  ("List", gp29, (TSlice G_HandoverNotifyIEs))].
Definition G_HandoverNotify : ty := TStruct [
  ("ProtocolIEs", gp8, G_ProtocolIEContainerHandoverNotifyIEs)].
Definition G_RRCEstablishmentCause : ty := TStruct [
  ("Value", gp147, TEnum)].
Definition G_FiveGTMSI : ty := TStruct [
  ("Value", gp100, TOctets)].
Definition G_FiveGSTMSIExtIEsExtensionValue : ty := TStruct [
  ("Present", gp8, TInt)].
Definition G_FiveGSTMSIExtIEs : ty := TStruct [
  ("Id", gp8, G_ProtocolExtensionID);
  ("Criticality", gp8, G_Criticality);
  ("ExtensionValue", gp9, G_FiveGSTMSIExtIEsExtensionValue)].
Definition G_ProtocolExtensionContainerFiveGSTMSIExtIEs : ty := TStruct [
  ("List", gp10, (TSlice G_FiveGSTMSIExtIEs))].
Definition G_FiveGSTMSI : ty := TStruct [
  ("AMFSetID", gp8, G_AMFSetID);
  ("AMFPointer", gp8, G_AMFPointer);
  ("FiveGTMSI", gp8, G_FiveGTMSI);
  ("IEExtensions", gp11, (TPtr G_ProtocolExtensionContainerFiveGSTMSIExtIEs))].
Definition G_UEContextRequest : ty := TStruct [
  ("Value", gp47, TEnum)].
Definition G_InitialUEMessageIEsValue : ty := TStruct [
  ("Present", gp8, TInt);
  ("RANUENGAPID", gp38, (TPtr G_RANUENGAPID));
  ("NASPDU", gp91, (TPtr G_NASPDU));
  ("UserLocationInformation", gp102, (TPtr G_UserLocationInformation));
  ("RRCEstablishmentCause", gp148, (TPtr G_RRCEstablishmentCause));
  ("FiveGSTMSI", gp149, (TPtr G_FiveGSTMSI));
  ("AMFSetID", gp150, (TPtr G_AMFSetID));
  ("UEContextRequest", gp151, (TPtr G_UEContextRequest));
  ("AllowedNSSAI", gp78, (TPtr G_AllowedNSSAI))].
Definition G_InitialUEMessageIEs : ty := TStruct [
  ("Id", gp8, G_ProtocolIEID);
  ("Criticality", gp8, G_Criticality);
  ("Value", gp9, G_InitialUEMessageIEsValue)].
Definition G_ProtocolIEContainerInitialUEMessageIEs : ty := TStruct [
  ("List", gp29, (TSlice G_InitialUEMessageIEs))].
Definition G_InitialUEMessage : ty := TStruct [
  ("ProtocolIEs", gp8, G_ProtocolIEContainerInitialUEMessageIEs)].
Definition G_UEPresence : ty := TStruct [
  ("Value", gp19, TEnum)].
Definition G_UEPresenceInAreaOfInterestItemExtIEsExtensionValue : ty := TStruct [
  ("Present", gp8, TInt)].
Definition G_UEPresenceInAreaOfInterestItemExtIEs : ty := TStruct [
  ("Id", gp8, G_ProtocolExtensionID);
  ("Criticality", gp8, G_Criticality);
  ("ExtensionValue", gp9, G_UEPresenceInAreaOfInterestItemExtIEsExtensionValue)].
Definition G_ProtocolExtensionContainerUEPresenceInAreaOfInterestItemExtIEs : ty := TStruct [
  ("List", gp10, (TSlice G_UEPresenceInAreaOfInterestItemExtIEs))].
Definition G_UEPresenceInAreaOfInterestItem : ty := TStruct [
  ("LocationReportingReferenceID", gp8, G_LocationReportingReferenceID);
  ("UEPresence", gp8, G_UEPresence);
  ("IEExtensions", gp11, (TPtr G_ProtocolExtensionContainerUEPresenceInAreaOfInterestItemExtIEs))].
Definition G_UEPresenceInAreaOfInterestList : ty := TStruct [
  ("List", gp69, (TSlice G_UEPresenceInAreaOfInterestItem))].
Definition G_LocationReportIEsValue : ty := TStruct [
  ("Present", gp8, TInt);
  ("AMFUENGAPID", gp37, (TPtr G_AMFUENGAPID));
  ("RANUENGAPID", gp38, (TPtr G_RANUENGAPID));
  ("UserLocationInformation", gp102, (TPtr G_UserLocationInformation));
  ("UEPresenceInAreaOfInterestList", gp152, (TPtr G_UEPresenceInAreaOfInterestList));
  ("LocationReportingRequestType", gp82, (TPtr G_LocationReportingRequestType))].
Definition G_LocationReportIEs : ty := TStruct [
  ("Id", gp8, G_ProtocolIEID);
  ("Criticality", gp8, G_Criticality);
  ("Value", gp9, G_LocationReportIEsValue)].
Definition G_ProtocolIEContainerLocationReportIEs : ty := TStruct [
  ("List", gp29, (TSlice G_LocationReportIEs))].
Definition G_LocationReport : ty := TStruct [
  ("ProtocolIEs", gp8, G_ProtocolIEContainerLocationReportIEs)].
Definition G_LocationReportingControlIEsValue : ty := TStruct [
  ("Present", gp8, TInt);
  ("AMFUENGAPID", gp37, (TPtr G_AMFUENGAPID));
  ("RANUENGAPID", gp38, (TPtr G_RANUENGAPID));
  ("LocationReportingRequestType", gp82, (TPtr G_LocationReportingRequestType))].
Definition G_LocationReportingControlIEs : ty := TStruct [
  ("Id", gp8, G_ProtocolIEID);
  ("Criticality", gp8, G_Criticality);
  ("Value", gp9, G_LocationReportingControlIEsValue)].
Definition G_ProtocolIEContainerLocationReportingControlIEs : ty := TStruct [
  ("List", gp29, (TSlice G_LocationReportingControlIEs))].
Definition G_LocationReportingControl : ty := TStruct [
  ("ProtocolIEs", gp8, G_ProtocolIEContainerLocationReportingControlIEs)].
Definition G_LocationReportingFailureIndicationIEsValue : ty := TStruct [
  ("Present", gp8, TInt);
  ("AMFUENGAPID", gp37, (TPtr G_AMFUENGAPID));
  ("RANUENGAPID", gp38, (TPtr G_RANUENGAPID));
  ("Cause", gp39, (TPtr G_Cause))].
Definition G_LocationReportingFailureIndicationIEs : ty := TStruct [
  ("Id", gp8, G_ProtocolIEID);
  ("Criticality", gp8, G_Criticality);
  ("Value", gp9, G_LocationReportingFailureIndicationIEsValue)].
Definition G_ProtocolIEContainerLocationReportingFailureIndicationIEs : ty := TStruct [
  ("List", gp29, (TSlice G_LocationReportingFailureIndicationIEs))].
Definition G_LocationReportingFailureIndication : ty := TStruct [
  ("ProtocolIEs", gp8, G_ProtocolIEContainerLocationReportingFailureIndicationIEs)].
Definition G_NASNonDeliveryIndicationIEsValue : ty := TStruct [
  ("Present", gp8, TInt);
  ("AMFUENGAPID", gp37, (TPtr G_AMFUENGAPID));
  ("RANUENGAPID", gp38, (TPtr G_RANUENGAPID));
  ("NASPDU", gp91, (TPtr G_NASPDU));
  ("Cause", gp39, (TPtr G_Cause))].
Definition G_NASNonDeliveryIndicationIEs : ty := TStruct [
  ("Id", gp8, G_ProtocolIEID);
  ("Criticality", gp8, G_Criticality);
  ("Value", gp9, G_NASNonDeliveryIndicationIEsValue)].
Definition G_ProtocolIEContainerNASNonDeliveryIndicationIEs : ty := TStruct [
  ("List", gp29, (TSlice G_NASNonDeliveryIndicationIEs))].
Definition G_NASNonDeliveryIndication : ty := TStruct [
  ("ProtocolIEs", gp8, G_ProtocolIEContainerNASNonDeliveryIndicationIEs)].
Definition G_OverloadAction : ty := TStruct [
  ("Value", gp34, TEnum)].
Definition G_ProtocolIESingleContainerOverloadResponseExtIEs : ty := TStruct [].
Definition G_OverloadResponse : ty := TStruct [
  ("Present", gp8, TInt);
  ("OverloadAction", gp8, (TPtr G_OverloadAction));
  ("ChoiceExtensions", gp8, (TPtr G_ProtocolIESingleContainerOverloadResponseExtIEs))].
Definition G_TrafficLoadReductionIndication : ty := TStruct [
  ("Value", gp153, TInt)].
Definition G_SliceOverloadItemExtIEsExtensionValue : ty := TStruct [
  ("Present", gp8, TInt)].
Definition G_SliceOverloadItemExtIEs : ty := TStruct [
  ("Id", gp8, G_ProtocolExtensionID);
  ("Criticality", gp8, G_Criticality);
  ("ExtensionValue", gp9, G_SliceOverloadItemExtIEsExtensionValue)].
Definition G_ProtocolExtensionContainerSliceOverloadItemExtIEs : ty := TStruct [
  ("List", gp10, (TSlice G_SliceOverloadItemExtIEs))].
Definition G_SliceOverloadItem : ty := TStruct [
  ("SNSSAI", gp12, G_SNSSAI);
  ("IEExtensions", gp11, (TPtr G_ProtocolExtensionContainerSliceOverloadItemExtIEs))].
Definition G_SliceOverloadList : ty := TStruct [
  ("List", gp16, (TSlice G_SliceOverloadItem))].
Definition G_OverloadStartNSSAIItemExtIEsExtensionValue : ty := TStruct [
  ("Present", gp8, TInt)].
Definition G_OverloadStartNSSAIItemExtIEs : ty := TStruct [
  ("Id", gp8, G_ProtocolExtensionID);
  ("Criticality", gp8, G_Criticality);
  ("ExtensionValue", gp9, G_OverloadStartNSSAIItemExtIEsExtensionValue)].
Definition G_ProtocolExtensionContainerOverloadStartNSSAIItemExtIEs : ty := TStruct [
  ("List", gp10, (TSlice G_OverloadStartNSSAIItemExtIEs))].
Definition G_OverloadStartNSSAIItem : ty := TStruct [
  ("SliceOverloadList", gp8, G_SliceOverloadList);
  ("SliceOverloadResponse", gp154, (TPtr G_OverloadResponse));
  ("SliceTrafficLoadReductionIndication", gp11, (TPtr G_TrafficLoadReductionIndication));
  ("IEExtensions", gp11, (TPtr G_ProtocolExtensionContainerOverloadStartNSSAIItemExtIEs))].
Definition G_OverloadStartNSSAIList : ty := TStruct [
  ("List", gp16, (TSlice G_OverloadStartNSSAIItem))].
Definition G_OverloadStartIEsValue : ty := TStruct [
  ("Present", gp8, TInt);
  ("AMFOverloadResponse", gp155, (TPtr G_OverloadResponse));
  ("AMFTrafficLoadReductionIndication", gp156, (TPtr G_TrafficLoadReductionIndication));
  ("OverloadStartNSSAIList", gp157, (TPtr G_OverloadStartNSSAIList))].
Definition G_OverloadStartIEs : ty := TStruct [
  ("Id", gp8, G_ProtocolIEID);
  ("Criticality", gp8, G_Criticality);
  ("Value", gp9, G_OverloadStartIEsValue)].
Definition G_ProtocolIEContainerOverloadStartIEs : ty := TStruct [
  ("List", gp29, (TSlice G_OverloadStartIEs))].
Definition G_OverloadStart : ty := TStruct [
  ("ProtocolIEs", gp8, G_ProtocolIEContainerOverloadStartIEs)].
Definition G_OverloadStopIEsValue : ty := TStruct [
  ("Present", gp8, TInt)].
Definition G_OverloadStopIEs : ty := TStruct [
  ("Id", gp8, G_ProtocolIEID);
  ("Criticality", gp8, G_Criticality);
  ("Value", gp9, G_OverloadStopIEsValue)].
Definition G_ProtocolIEContainerOverloadStopIEs : ty := TStruct [
  ("List", gp29, (TSlice G_OverloadStopIEs))].
Definition G_OverloadStop : ty := TStruct [
  ("ProtocolIEs", gp8, G_ProtocolIEContainerOverloadStopIEs)].
Definition G_ProtocolIESingleContainerUEPagingIdentityExtIEs : ty := TStruct [].
Definition G_UEPagingIdentity : ty := TStruct [
  ("Present", gp8, TInt);
  ("FiveGSTMSI", gp12, (TPtr G_FiveGSTMSI));
  ("ChoiceExtensions", gp8, (TPtr G_ProtocolIESingleContainerUEPagingIdentityExtIEs))].
Definition G_TAIListForPagingItemExtIEsExtensionValue : ty := TStruct [
  ("Present", gp8, TInt)].
Definition G_TAIListForPagingItemExtIEs : ty := TStruct [
  ("Id", gp8, G_ProtocolExtensionID);
  ("Criticality", gp8, G_Criticality);
  ("ExtensionValue", gp9, G_TAIListForPagingItemExtIEsExtensionValue)].
Definition G_ProtocolExtensionContainerTAIListForPagingItemExtIEs : ty := TStruct [
  ("List", gp10, (TSlice G_TAIListForPagingItemExtIEs))].
Definition G_TAIListForPagingItem : ty := TStruct [
  ("TAI", gp12, G_TAI);
  ("IEExtensions", gp11, (TPtr G_ProtocolExtensionContainerTAIListForPagingItemExtIEs))].
Definition G_TAIListForPaging : ty := TStruct [
  ("List", gp54, (TSlice G_TAIListForPagingItem))].
Definition G_PagingPriority : ty := TStruct [
  ("Value", gp158, TEnum)].
Definition G_PagingOrigin : ty := TStruct [
  ("Value", gp47, TEnum)].
Definition G_RecommendedCellItemExtIEsExtensionValue : ty := TStruct [
  ("Present", gp8, TInt)].
Definition G_RecommendedCellItemExtIEs : ty := TStruct [
  ("Id", gp8, G_ProtocolExtensionID);
  ("Criticality", gp8, G_Criticality);
  ("ExtensionValue", gp9, G_RecommendedCellItemExtIEsExtensionValue)].
Definition G_ProtocolExtensionContainerRecommendedCellItemExtIEs : ty := TStruct [
  ("List", gp10, (TSlice G_RecommendedCellItemExtIEs))].
Definition G_RecommendedCellItem : ty := TStruct [
  ("NGRANCGI", gp1, G_NGRANCGI);
  ("TimeStayedInCell", gp57, (TPtr TInt));
  ("IEExtensions", gp11, (TPtr G_ProtocolExtensionContainerRecommendedCellItemExtIEs))].
Definition G_RecommendedCellList : ty := TStruct [
  ("List", gp54, (TSlice G_RecommendedCellItem))].
Definition G_RecommendedCellsForPagingExtIEsExtensionValue : ty := TStruct [
  ("Present", gp8, TInt)].
Definition G_RecommendedCellsForPagingExtIEs : ty := TStruct [
  ("Id", gp8, G_ProtocolExtensionID);
  ("Criticality", gp8, G_Criticality);
  ("ExtensionValue", gp9, G_RecommendedCellsForPagingExtIEsExtensionValue)].
Definition G_ProtocolExtensionContainerRecommendedCellsForPagingExtIEs : ty := TStruct [
  ("List", gp10, (TSlice G_RecommendedCellsForPagingExtIEs))].
Definition G_RecommendedCellsForPaging : ty := TStruct [
  ("RecommendedCellList", gp8, G_RecommendedCellList);
  ("IEExtensions", gp11, (TPtr G_ProtocolExtensionContainerRecommendedCellsForPagingExtIEs))].
Definition G_AssistanceDataForRecommendedCellsExtIEsExtensionValue : ty := TStruct [
  ("Present", gp8, TInt)].
Definition G_AssistanceDataForRecommendedCellsExtIEs : ty := TStruct [
  ("Id", gp8, G_ProtocolExtensionID);
  ("Criticality", gp8, G_Criticality);
  ("ExtensionValue", gp9, G_AssistanceDataForRecommendedCellsExtIEsExtensionValue)].
Definition G_ProtocolExtensionContainerAssistanceDataForRecommendedCellsExtIEs : ty := TStruct [
  ("List", gp10, (TSlice G_AssistanceDataForRecommendedCellsExtIEs))].
Definition G_AssistanceDataForRecommendedCells : ty := TStruct [
  ("RecommendedCellsForPaging", gp12, G_RecommendedCellsForPaging);
  ("IEExtensions", gp11, (TPtr G_ProtocolExtensionContainerAssistanceDataForRecommendedCellsExtIEs))].
Definition G_PagingAttemptCount : ty := TStruct [
  ("Value", gp159, TInt)].
Definition G_IntendedNumberOfPagingAttempts : ty := TStruct [
  ("Value", gp159, TInt)].
Definition G_NextPagingAreaScope : ty := TStruct [
  ("Value", gp33, TEnum)].
Definition G_PagingAttemptInformationExtIEsExtensionValue : ty := TStruct [
  ("Present", gp8, TInt)].
Definition G_PagingAttemptInformationExtIEs : ty := TStruct [
  ("Id", gp8, G_ProtocolExtensionID);
  ("Criticality", gp8, G_Criticality);
  ("ExtensionValue", gp9, G_PagingAttemptInformationExtIEsExtensionValue)].
Definition G_ProtocolExtensionContainerPagingAttemptInformationExtIEs : ty := TStruct [
  ("List", gp10, (TSlice G_PagingAttemptInformationExtIEs))].
Definition G_PagingAttemptInformation : ty := TStruct [
  ("PagingAttemptCount", gp8, G_PagingAttemptCount);
  ("IntendedNumberOfPagingAttempts", gp8, G_IntendedNumberOfPagingAttempts);
  ("NextPagingAreaScope", gp11, (TPtr G_NextPagingAreaScope));
  ("IEExtensions", gp11, (TPtr G_ProtocolExtensionContainerPagingAttemptInformationExtIEs))].
Definition G_AssistanceDataForPagingExtIEsExtensionValue : ty := TStruct [
  ("Present", gp8, TInt)].
Definition G_AssistanceDataForPagingExtIEs : ty := TStruct [
  ("Id", gp8, G_ProtocolExtensionID);
  ("Criticality", gp8, G_Criticality);
  ("ExtensionValue", gp9, G_AssistanceDataForPagingExtIEsExtensionValue)].
Definition G_ProtocolExtensionContainerAssistanceDataForPagingExtIEs : ty := TStruct [
  ("List", gp10, (TSlice G_AssistanceDataForPagingExtIEs))].
Definition G_AssistanceDataForPaging : ty := TStruct [
  ("AssistanceDataForRecommendedCells", gp58, (TPtr G_AssistanceDataForRecommendedCells));
  ("PagingAttemptInformation", gp58, (TPtr G_PagingAttemptInformation));
  ("IEExtensions", gp11, (TPtr G_ProtocolExtensionContainerAssistanceDataForPagingExtIEs))].
Definition G_PagingIEsValue : ty := TStruct [
  ("Present", gp8, TInt);
  ("UEPagingIdentity", gp160, (TPtr G_UEPagingIdentity));
  ("PagingDRX", gp161, (TPtr G_PagingDRX));
  ("TAIListForPaging", gp162, (TPtr G_TAIListForPaging));
  ("PagingPriority", gp163, (TPtr G_PagingPriority));
  ("UERadioCapabilityForPaging", gp93, (TPtr G_UERadioCapabilityForPaging));
  ("PagingOrigin", gp164, (TPtr G_PagingOrigin));
  ("AssistanceDataForPaging", gp165, (TPtr G_AssistanceDataForPaging))].
Definition G_PagingIEs : ty := TStruct [
  ("Id", gp8, G_ProtocolIEID);
  ("Criticality", gp8, G_Criticality);
  ("Value", gp9, G_PagingIEsValue)].
Definition G_ProtocolIEContainerPagingIEs : ty := TStruct [
  ("List", gp29, (TSlice G_PagingIEs))].
Definition G_Paging : ty := TStruct [
  ("ProtocolIEs", gp8, G_ProtocolIEContainerPagingIEs)].
Definition G_PDUSessionResourceNotifyItemExtIEsExtensionValue : ty := TStruct [
  ("Present", gp8, TInt)].
Definition G_PDUSessionResourceNotifyItemExtIEs : ty := TStruct [
  ("Id", gp8, G_ProtocolExtensionID);
  ("Criticality", gp8, G_Criticality);
  ("ExtensionValue", gp9, G_PDUSessionResourceNotifyItemExtIEsExtensionValue)].
Definition G_ProtocolExtensionContainerPDUSessionResourceNotifyItemExtIEs : ty := TStruct [
  ("List", gp10, (TSlice G_PDUSessionResourceNotifyItemExtIEs))].
Definition G_PDUSessionResourceNotifyItem : ty := TStruct [
  ("PDUSessionID", gp8, G_PDUSessionID);
  ("PDUSessionResourceNotifyTransfer", gp8, TOctets);
  ("IEExtensions", gp11, (TPtr G_ProtocolExtensionContainerPDUSessionResourceNotifyItemExtIEs))].
Definition G_PDUSessionResourceNotifyList : ty := TStruct [
  ("List", gp14, (TSlice G_PDUSessionResourceNotifyItem))].
Definition G_PDUSessionResourceReleasedItemNotExtIEsExtensionValue : ty := TStruct [
  ("Present", gp8, TInt)].
Definition G_PDUSessionResourceReleasedItemNotExtIEs : ty := TStruct [
  ("Id", gp8, G_ProtocolExtensionID);
  ("Criticality", gp8, G_Criticality);
  ("ExtensionValue", gp9, G_PDUSessionResourceReleasedItemNotExtIEsExtensionValue)].
Definition G_ProtocolExtensionContainerPDUSessionResourceReleasedItemNotExtIEs : ty := TStruct [
  ("List", gp10, (TSlice G_PDUSessionResourceReleasedItemNotExtIEs))].
Definition G_PDUSessionResourceReleasedItemNot : ty := TStruct [
  ("PDUSessionID", gp8, G_PDUSessionID);
  ("PDUSessionResourceNotifyReleasedTransfer", gp8, TOctets);
  ("IEExtensions", gp11, (TPtr G_ProtocolExtensionContainerPDUSessionResourceReleasedItemNotExtIEs))].
Definition G_PDUSessionResourceReleasedListNot : ty := TStruct [
  ("List", gp14, (TSlice G_PDUSessionResourceReleasedItemNot))].
Definition G_PDUSessionResourceNotifyIEsValue : ty := TStruct [
  ("Present", gp8, TInt);
  ("AMFUENGAPID", gp37, (TPtr G_AMFUENGAPID));
  ("RANUENGAPID", gp38, (TPtr G_RANUENGAPID));
  ("PDUSessionResourceNotifyList", gp166, (TPtr G_PDUSessionResourceNotifyList));
  ("PDUSessionResourceReleasedListNot", gp167, (TPtr G_PDUSessionResourceReleasedListNot));
  ("UserLocationInformation", gp102, (TPtr G_UserLocationInformation))].
Definition G_PDUSessionResourceNotifyIEs : ty := TStruct [
  ("Id", gp8, G_ProtocolIEID);
  ("Criticality", gp8, G_Criticality);
  ("Value", gp9, G_PDUSessionResourceNotifyIEsValue)].
Definition G_ProtocolIEContainerPDUSessionResourceNotifyIEs : ty := TStruct [
  ("List", gp29, (TSlice G_PDUSessionResourceNotifyIEs))].
Definition G_PDUSessionResourceNotify : ty := TStruct [
  ("ProtocolIEs", gp8, G_ProtocolIEContainerPDUSessionResourceNotifyIEs)].
Definition G_PrivateIEID : ty := TStruct [
  ("Present", gp8, TInt);
  ("Local", gp2, (TPtr TInt));
  ("Global", gp8, (TPtr TOid))].
Definition G_PrivateMessageIEsValue : ty := TStruct [
  ("Present", gp8, TInt)].
Definition G_PrivateMessageIEs : ty := TStruct [
  ("Id", gp8, G_PrivateIEID);
  ("Criticality", gp8, G_Criticality);
  ("Value", gp9, G_PrivateMessageIEsValue)].
Definition G_PrivateIEContainerPrivateMessageIEs : ty := TStruct [
  ("List", gp10, (TSlice G_PrivateMessageIEs))].
Definition G_PrivateMessage : ty := TStruct [
  ("PrivateIEs", gp8, G_PrivateIEContainerPrivateMessageIEs)].
Definition G_EUTRACGIList : ty := TStruct [
  ("List", gp14, (TSlice G_EUTRACGI))].
Definition G_NRCGIList : ty := TStruct [
  ("List", gp168, (TSlice G_NRCGI))].
Definition G_ProtocolIESingleContainerPWSFailedCellIDListExtIEs : ty := TStruct [].
Definition G_PWSFailedCellIDList : ty := TStruct [
  ("Present", gp8, TInt);
  ("EUTRACGIPWSFailedList", gp8, (TPtr G_EUTRACGIList));
  ("NRCGIPWSFailedList", gp8, (TPtr G_NRCGIList));
  ("ChoiceExtensions", gp8, (TPtr G_ProtocolIESingleContainerPWSFailedCellIDListExtIEs))].
Definition G_PWSFailureIndicationIEsValue : ty := TStruct [
  ("Present", gp8, TInt);
  ("PWSFailedCellIDList", gp169, (TPtr G_PWSFailedCellIDList));
  ("GlobalRANNodeID", gp96, (TPtr G_GlobalRANNodeID))].
Definition G_PWSFailureIndicationIEs : ty := TStruct [
  ("Id", gp8, G_ProtocolIEID);
  ("Criticality", gp8, G_Criticality);
  ("Value", gp9, G_PWSFailureIndicationIEsValue)].
Definition G_ProtocolIEContainerPWSFailureIndicationIEs : ty := TStruct [
  ("List", gp29, (TSlice G_PWSFailureIndicationIEs))].
Definition G_PWSFailureIndication : ty := TStruct [
  ("ProtocolIEs", gp8, G_ProtocolIEContainerPWSFailureIndicationIEs)].
Definition G_ProtocolIESingleContainerCellIDListForRestartExtIEs : ty := TStruct [].
Definition G_CellIDListForRestart : ty := TStruct [
  ("Present", gp8, TInt);
  ("EUTRACGIListforRestart", gp8, (TPtr G_EUTRACGIList));
  ("NRCGIListforRestart", gp8, (TPtr G_NRCGIList));
  ("ChoiceExtensions", gp8, (TPtr G_ProtocolIESingleContainerCellIDListForRestartExtIEs))].
Definition G_TAIListForRestart : ty := TStruct [
  ("List", gp170, (TSlice G_TAI))].
Definition G_EmergencyAreaIDListForRestart : ty := TStruct [
  ("List", gp171, (TSlice G_EmergencyAreaID))].
Definition G_PWSRestartIndicationIEsValue : ty := TStruct [
  ("Present", gp8, TInt);
  ("CellIDListForRestart", gp172, (TPtr G_CellIDListForRestart));
  ("GlobalRANNodeID", gp96, (TPtr G_GlobalRANNodeID));
  ("TAIListForRestart", gp173, (TPtr G_TAIListForRestart));
  ("EmergencyAreaIDListForRestart", gp174, (TPtr G_EmergencyAreaIDListForRestart))].
Definition G_PWSRestartIndicationIEs : ty := TStruct [
  ("Id", gp8, G_ProtocolIEID);
  ("Criticality", gp8, G_Criticality);
  ("Value", gp9, G_PWSRestartIndicationIEsValue)].
Definition G_ProtocolIEContainerPWSRestartIndicationIEs : ty := TStruct [
  ("List", gp29, (TSlice G_PWSRestartIndicationIEs))].
Definition G_PWSRestartIndication : ty := TStruct [
  ("ProtocolIEs", gp8, G_ProtocolIEContainerPWSRestartIndicationIEs)].
Definition G_RerouteNASRequestIEsValue : ty := TStruct [
  ("Present", gp8, TInt);
  ("RANUENGAPID", gp38, (TPtr G_RANUENGAPID));
  ("AMFUENGAPID", gp37, (TPtr G_AMFUENGAPID));
  ("NGAPMessage", gp175, (TPtr TOctets));
  ("AMFSetID", gp150, (TPtr G_AMFSetID));
  ("AllowedNSSAI", gp78, (TPtr G_AllowedNSSAI))].
Definition G_RerouteNASRequestIEs : ty := TStruct [
  ("Id", gp8, G_ProtocolIEID);
  ("Criticality", gp8, G_Criticality);
  ("Value", gp9, G_RerouteNASRequestIEsValue)].
Definition G_ProtocolIEContainerRerouteNASRequestIEs : ty := TStruct [
  ("List", gp29, (TSlice G_RerouteNASRequestIEs))].
Definition G_RerouteNASRequest : ty := TStruct [
  ("ProtocolIEs", gp8, G_ProtocolIEContainerRerouteNASRequestIEs)].
Definition G_RRCState : ty := TStruct [
  ("Value", gp33, TEnum)].
Definition G_RRCInactiveTransitionReportIEsValue : ty := TStruct [
  ("Present", gp8, TInt);
  ("AMFUENGAPID", gp37, (TPtr G_AMFUENGAPID));
  ("RANUENGAPID", gp38, (TPtr G_RANUENGAPID));
  ("RRCState", gp176, (TPtr G_RRCState));
  ("UserLocationInformation", gp102, (TPtr G_UserLocationInformation))].
Definition G_RRCInactiveTransitionReportIEs : ty := TStruct [
  ("Id", gp8, G_ProtocolIEID);
  ("Criticality", gp8, G_Criticality);
  ("Value", gp9, G_RRCInactiveTransitionReportIEsValue)].
Definition G_ProtocolIEContainerRRCInactiveTransitionReportIEs : ty := TStruct [
  ("List", gp29, (TSlice G_RRCInactiveTransitionReportIEs))].
Definition G_RRCInactiveTransitionReport : ty := TStruct [
  ("ProtocolIEs", gp8, G_ProtocolIEContainerRRCInactiveTransitionReportIEs)].
Definition G_TraceFailureIndicationIEsValue : ty := TStruct [
  ("Present", gp8, TInt);
  ("AMFUENGAPID", gp37, (TPtr G_AMFUENGAPID));
  ("RANUENGAPID", gp38, (TPtr G_RANUENGAPID));
  ("NGRANTraceID", gp131, (TPtr G_NGRANTraceID));
  ("Cause", gp39, (TPtr G_Cause))].
Definition G_TraceFailureIndicationIEs : ty := TStruct [
  ("Id", gp8, G_ProtocolIEID);
  ("Criticality", gp8, G_Criticality);
  ("Value", gp9, G_TraceFailureIndicationIEsValue)].
Definition G_ProtocolIEContainerTraceFailureIndicationIEs : ty := TStruct [
  ("List", gp29, (TSlice G_TraceFailureIndicationIEs))].
Definition G_TraceFailureIndication : ty := TStruct [
  ("ProtocolIEs", gp8, G_ProtocolIEContainerTraceFailureIndicationIEs)].
Definition G_TraceStartIEsValue : ty := TStruct [
  ("Present", gp8, TInt);
  ("AMFUENGAPID", gp37, (TPtr G_AMFUENGAPID));
  ("RANUENGAPID", gp38, (TPtr G_RANUENGAPID));
  ("TraceActivation", gp79, (TPtr G_TraceActivation))].
Definition G_TraceStartIEs : ty := TStruct [
  ("Id", gp8, G_ProtocolIEID);
  ("Criticality", gp8, G_Criticality);
  ("Value", gp9, G_TraceStartIEsValue)].
Definition G_ProtocolIEContainerTraceStartIEs : ty := TStruct [
  ("List", gp29, (TSlice G_TraceStartIEs))].
Definition G_TraceStart : ty := TStruct [
  ("ProtocolIEs", gp8, G_ProtocolIEContainerTraceStartIEs)].
Definition G_PDUSessionResourceItemCxtRelReqExtIEsExtensionValue : ty := TStruct [
  ("Present", gp8, TInt)].
Definition G_PDUSessionResourceItemCxtRelReqExtIEs : ty := TStruct [
  ("Id", gp8, G_ProtocolExtensionID);
  ("Criticality", gp8, G_Criticality);
  ("ExtensionValue", gp9, G_PDUSessionResourceItemCxtRelReqExtIEsExtensionValue)].
Definition G_ProtocolExtensionContainerPDUSessionResourceItemCxtRelReqExtIEs : ty := TStruct [
  ("List", gp10, (TSlice G_PDUSessionResourceItemCxtRelReqExtIEs))].
Definition G_PDUSessionResourceItemCxtRelReq : ty := TStruct [
  ("PDUSessionID", gp8, G_PDUSessionID);
  ("IEExtensions", gp11, (TPtr G_ProtocolExtensionContainerPDUSessionResourceItemCxtRelReqExtIEs))].
Definition G_PDUSessionResourceListCxtRelReq : ty := TStruct [
  ("List", gp14, (TSlice G_PDUSessionResourceItemCxtRelReq))].
Definition G_UEContextReleaseRequestIEsValue : ty := TStruct [
  ("Present", gp8, TInt);
  ("AMFUENGAPID", gp37, (TPtr G_AMFUENGAPID));
  ("RANUENGAPID", gp38, (TPtr G_RANUENGAPID));
  ("PDUSessionResourceListCxtRelReq", gp177, (TPtr G_PDUSessionResourceListCxtRelReq));
  ("Cause", gp39, (TPtr G_Cause))].
Definition G_UEContextReleaseRequestIEs : ty := TStruct [
  ("Id", gp8, G_ProtocolIEID);
  ("Criticality", gp8, G_Criticality);
  ("Value", gp9, G_UEContextReleaseRequestIEsValue)].
Definition G_ProtocolIEContainerUEContextReleaseRequestIEs : ty := TStruct [
  ("List", gp29, (TSlice G_UEContextReleaseRequestIEs))].
Definition G_UEContextReleaseRequest : ty := TStruct [
  ("ProtocolIEs", gp8, G_ProtocolIEContainerUEContextReleaseRequestIEs)].
Definition G_UERadioCapabilityInfoIndicationIEsValue : ty := TStruct [
  ("Present", gp8, TInt);
  ("AMFUENGAPID", gp37, (TPtr G_AMFUENGAPID));
  ("RANUENGAPID", gp38, (TPtr G_RANUENGAPID));
  ("UERadioCapability", gp89, (TPtr G_UERadioCapability));
  ("UERadioCapabilityForPaging", gp93, (TPtr G_UERadioCapabilityForPaging))].
Definition G_UERadioCapabilityInfoIndicationIEs : ty := TStruct [
  ("Id", gp8, G_ProtocolIEID);
  ("Criticality", gp8, G_Criticality);
  ("Value", gp9, G_UERadioCapabilityInfoIndicationIEsValue)].
Definition G_ProtocolIEContainerUERadioCapabilityInfoIndicationIEs : ty := TStruct [
  ("List", gp29, (TSlice G_UERadioCapabilityInfoIndicationIEs))].
Definition G_UERadioCapabilityInfoIndication : ty := TStruct [
  ("ProtocolIEs", gp8, G_ProtocolIEContainerUERadioCapabilityInfoIndicationIEs)].
Definition G_UETNLABindingReleaseRequestIEsValue : ty := TStruct [
  ("Present", gp8, TInt);
  ("AMFUENGAPID", gp37, (TPtr G_AMFUENGAPID));
  ("RANUENGAPID", gp38, (TPtr G_RANUENGAPID))].
Definition G_UETNLABindingReleaseRequestIEs : ty := TStruct [
  ("Id", gp8, G_ProtocolIEID);
  ("Criticality", gp8, G_Criticality);
  ("Value", gp9, G_UETNLABindingReleaseRequestIEsValue)].
Definition G_ProtocolIEContainerUETNLABindingReleaseRequestIEs : ty := TStruct [
  ("List", gp29, (TSlice G_UETNLABindingReleaseRequestIEs))].
Definition G_UETNLABindingReleaseRequest : ty := TStruct [
  ("ProtocolIEs", gp8, G_ProtocolIEContainerUETNLABindingReleaseRequestIEs)].
Definition G_UplinkNASTransportIEsValue : ty := TStruct [
  ("Present", gp8, TInt);
  ("AMFUENGAPID", gp37, (TPtr G_AMFUENGAPID));
  ("RANUENGAPID", gp38, (TPtr G_RANUENGAPID));
  ("NASPDU", gp91, (TPtr G_NASPDU));
  ("UserLocationInformation", gp102, (TPtr G_UserLocationInformation))].
Definition G_UplinkNASTransportIEs : ty := TStruct [
  ("Id", gp8, G_ProtocolIEID);
  ("Criticality", gp8, G_Criticality);
  ("Value", gp9, G_UplinkNASTransportIEsValue)].
Definition G_ProtocolIEContainerUplinkNASTransportIEs : ty := TStruct [
  ("List", gp29, (TSlice G_UplinkNASTransportIEs))].
Definition G_UplinkNASTransport : ty := TStruct [
  ("ProtocolIEs", gp8, G_ProtocolIEContainerUplinkNASTransportIEs)].
Definition G_UplinkNonUEAssociatedNRPPaTransportIEsValue : ty := TStruct [
  ("Present", gp8, TInt);
  ("RoutingID", gp134, (TPtr G_RoutingID));
  ("NRPPaPDU", gp135, (TPtr G_NRPPaPDU))].
Definition G_UplinkNonUEAssociatedNRPPaTransportIEs : ty := TStruct [
  ("Id", gp8, G_ProtocolIEID);
  ("Criticality", gp8, G_Criticality);
  ("Value", gp9, G_UplinkNonUEAssociatedNRPPaTransportIEsValue)].
Definition G_ProtocolIEContainerUplinkNonUEAssociatedNRPPaTransportIEs : ty := TStruct [
  ("List", gp29, (TSlice G_UplinkNonUEAssociatedNRPPaTransportIEs))].
Definition G_UplinkNonUEAssociatedNRPPaTransport : ty := TStruct [
  ("ProtocolIEs", gp8, G_ProtocolIEContainerUplinkNonUEAssociatedNRPPaTransportIEs)].
Definition G_UplinkRANConfigurationTransferIEsValue : ty := TStruct [
  ("Present", gp8, TInt);
  ("SONConfigurationTransferUL", gp178, (TPtr G_SONConfigurationTransfer))].
Definition G_UplinkRANConfigurationTransferIEs : ty := TStruct [
  ("Id", gp8, G_ProtocolIEID);
  ("Criticality", gp8, G_Criticality);
  ("Value", gp9, G_UplinkRANConfigurationTransferIEsValue)].
Definition G_ProtocolIEContainerUplinkRANConfigurationTransferIEs : ty := TStruct [
  ("List", gp29, (TSlice G_UplinkRANConfigurationTransferIEs))].
Definition G_UplinkRANConfigurationTransfer : ty := TStruct [
  ("ProtocolIEs", gp8, G_ProtocolIEContainerUplinkRANConfigurationTransferIEs)].
Definition G_UplinkRANStatusTransferIEsValue : ty := TStruct [
  ("Present", gp8, TInt);
  ("AMFUENGAPID", gp37, (TPtr G_AMFUENGAPID));
  ("RANUENGAPID", gp38, (TPtr G_RANUENGAPID));
  ("RANStatusTransferTransparentContainer", gp145, (TPtr G_RANStatusTransferTransparentContainer))].
Definition G_UplinkRANStatusTransferIEs : ty := TStruct [
  ("Id", gp8, G_ProtocolIEID);
  ("Criticality", gp8, G_Criticality);
  ("Value", gp9, G_UplinkRANStatusTransferIEsValue)].
Definition G_ProtocolIEContainerUplinkRANStatusTransferIEs : ty := TStruct [
  ("List", gp29, (TSlice G_UplinkRANStatusTransferIEs))].
Definition G_UplinkRANStatusTransfer : ty := TStruct [
  ("ProtocolIEs", gp8, G_ProtocolIEContainerUplinkRANStatusTransferIEs)].
Definition G_UplinkUEAssociatedNRPPaTransportIEsValue : ty := TStruct [
  ("Present", gp8, TInt);
  ("AMFUENGAPID", gp37, (TPtr G_AMFUENGAPID));
  ("RANUENGAPID", gp38, (TPtr G_RANUENGAPID));
  ("RoutingID", gp134, (TPtr G_RoutingID));
  ("NRPPaPDU", gp135, (TPtr G_NRPPaPDU))].
Definition G_UplinkUEAssociatedNRPPaTransportIEs : ty := TStruct [
  ("Id", gp8, G_ProtocolIEID);
  ("Criticality", gp8, G_Criticality);
  ("Value", gp9, G_UplinkUEAssociatedNRPPaTransportIEsValue)].
Definition G_ProtocolIEContainerUplinkUEAssociatedNRPPaTransportIEs : ty := TStruct [
  ("List", gp29, (TSlice G_UplinkUEAssociatedNRPPaTransportIEs))].
Definition G_UplinkUEAssociatedNRPPaTransport : ty := TStruct [
  ("ProtocolIEs", gp8, G_ProtocolIEContainerUplinkUEAssociatedNRPPaTransportIEs)].
Definition G_InitiatingMessageValue : ty := TStruct [
  ("Present", gp8, TInt);
  ("AMFConfigurationUpdate", gp179, (TPtr G_AMFConfigurationUpdate));
  ("HandoverCancel", gp180, (TPtr G_HandoverCancel));
  ("HandoverRequired", gp181, (TPtr G_HandoverRequired));
  ("HandoverRequest", gp182, (TPtr G_HandoverRequest));
  ("InitialContextSetupRequest", gp183, (TPtr G_InitialContextSetupRequest));
  ("NGReset", gp184, (TPtr G_NGReset));
  ("NGSetupRequest", gp185, (TPtr G_NGSetupRequest));
  ("PathSwitchRequest", gp186, (TPtr G_PathSwitchRequest));
  ("PDUSessionResourceModifyRequest", gp149, (TPtr G_PDUSessionResourceModifyRequest));
  ("PDUSessionResourceModifyIndication", gp187, (TPtr G_PDUSessionResourceModifyIndication));
  ("PDUSessionResourceReleaseCommand", gp84, (TPtr G_PDUSessionResourceReleaseCommand));
  ("PDUSessionResourceSetupRequest", gp188, (TPtr G_PDUSessionResourceSetupRequest));
  ("PWSCancelRequest", gp189, (TPtr G_PWSCancelRequest));
  ("RANConfigurationUpdate", gp190, (TPtr G_RANConfigurationUpdate));
  ("UEContextModificationRequest", gp191, (TPtr G_UEContextModificationRequest));
  ("UEContextReleaseCommand", gp192, (TPtr G_UEContextReleaseCommand));
  ("UERadioCapabilityCheckRequest", gp193, (TPtr G_UERadioCapabilityCheckRequest));
  ("WriteReplaceWarningRequest", gp194, (TPtr G_WriteReplaceWarningRequest));
  ("AMFStatusIndication", gp195, (TPtr G_AMFStatusIndication));
  ("CellTrafficTrace", gp196, (TPtr G_CellTrafficTrace));
  ("DeactivateTrace", gp197, (TPtr G_DeactivateTrace));
  ("DownlinkNASTransport", gp198, (TPtr G_DownlinkNASTransport));
  ("DownlinkNonUEAssociatedNRPPaTransport", gp199, (TPtr G_DownlinkNonUEAssociatedNRPPaTransport));
  ("DownlinkRANConfigurationTransfer", gp200, (TPtr G_DownlinkRANConfigurationTransfer));
  ("DownlinkRANStatusTransfer", gp201, (TPtr G_DownlinkRANStatusTransfer));
  ("DownlinkUEAssociatedNRPPaTransport", gp202, (TPtr G_DownlinkUEAssociatedNRPPaTransport));
  ("ErrorIndication", gp203, (TPtr G_ErrorIndication));
  ("HandoverNotify", gp165, (TPtr G_HandoverNotify));
  ("InitialUEMessage", gp204, (TPtr G_InitialUEMessage));
  ("LocationReport", gp72, (TPtr G_LocationReport));
  ("LocationReportingControl", gp205, (TPtr G_LocationReportingControl));
  ("LocationReportingFailureIndication", gp206, (TPtr G_LocationReportingFailureIndication));
  ("NASNonDeliveryIndication", gp146, (TPtr G_NASNonDeliveryIndication));
  ("OverloadStart", gp207, (TPtr G_OverloadStart));
  ("OverloadStop", gp208, (TPtr G_OverloadStop));
  ("Paging", gp92, (TPtr G_Paging));
  ("PDUSessionResourceNotify", gp209, (TPtr G_PDUSessionResourceNotify));
  ("PrivateMessage", gp210, (TPtr G_PrivateMessage));
  ("PWSFailureIndication", gp82, (TPtr G_PWSFailureIndication));
  ("PWSRestartIndication", gp211, (TPtr G_PWSRestartIndication));
  ("RerouteNASRequest", gp81, (TPtr G_RerouteNASRequest));
  ("RRCInactiveTransitionReport", gp212, (TPtr G_RRCInactiveTransitionReport));
  ("TraceFailureIndication", gp213, (TPtr G_TraceFailureIndication));
  ("TraceStart", gp214, (TPtr G_TraceStart));
  ("UEContextReleaseRequest", gp215, (TPtr G_UEContextReleaseRequest));
  ("UERadioCapabilityInfoIndication", gp216, (TPtr G_UERadioCapabilityInfoIndication));
  ("UETNLABindingReleaseRequest", gp217, (TPtr G_UETNLABindingReleaseRequest));
  ("UplinkNASTransport", gp218, (TPtr G_UplinkNASTransport));
  ("UplinkNonUEAssociatedNRPPaTransport", gp219, (TPtr G_UplinkNonUEAssociatedNRPPaTransport));
  ("UplinkRANConfigurationTransfer", gp220, (TPtr G_UplinkRANConfigurationTransfer));
  ("UplinkRANStatusTransfer", gp221, (TPtr G_UplinkRANStatusTransfer));
  ("UplinkUEAssociatedNRPPaTransport", gp222, (TPtr G_UplinkUEAssociatedNRPPaTransport))].
Definition G_InitiatingMessage : ty := TStruct [
  ("ProcedureCode", gp8, G_ProcedureCode);
  ("Criticality", gp8, G_Criticality);
  ("Value", gp223, G_InitiatingMessageValue)].
Definition G_AMFTNLAssociationSetupItemExtIEsExtensionValue : ty := TStruct [
  ("Present", gp8, TInt)].
Definition G_AMFTNLAssociationSetupItemExtIEs : ty := TStruct [
  ("Id", gp8, G_ProtocolExtensionID);
  ("Criticality", gp8, G_Criticality);
  ("ExtensionValue", gp9, G_AMFTNLAssociationSetupItemExtIEsExtensionValue)].
Definition G_ProtocolExtensionContainerAMFTNLAssociationSetupItemExtIEs : ty := TStruct [
  ("List", gp10, (TSlice G_AMFTNLAssociationSetupItemExtIEs))].
Definition G_AMFTNLAssociationSetupItem : ty := TStruct [
  ("AMFTNLAssociationAddress", gp20, G_CPTransportLayerInformation);
  ("IEExtensions", gp11, (TPtr G_ProtocolExtensionContainerAMFTNLAssociationSetupItemExtIEs))].
Definition G_AMFTNLAssociationSetupList : ty := TStruct [
  ("List", gp21, (TSlice G_AMFTNLAssociationSetupItem))].
Definition G_TNLAssociationItemExtIEsExtensionValue : ty := TStruct [
  ("Present", gp8, TInt)].
Definition G_TNLAssociationItemExtIEs : ty := TStruct [
  ("Id", gp8, G_ProtocolExtensionID);
  ("Criticality", gp8, G_Criticality);
  ("ExtensionValue", gp9, G_TNLAssociationItemExtIEsExtensionValue)].
Definition G_ProtocolExtensionContainerTNLAssociationItemExtIEs : ty := TStruct [
  ("List", gp10, (TSlice G_TNLAssociationItemExtIEs))].
Definition G_TNLAssociationItem : ty := TStruct [
  ("TNLAssociationAddress", gp20, G_CPTransportLayerInformation);
  ("Cause", gp224, G_Cause);
  ("IEExtensions", gp11, (TPtr G_ProtocolExtensionContainerTNLAssociationItemExtIEs))].
Definition G_TNLAssociationList : ty := TStruct [
  ("List", gp21, (TSlice G_TNLAssociationItem))].
Definition G_AMFConfigurationUpdateAcknowledgeIEsValue : ty := TStruct [
  ("Present", gp8, TInt);
  ("AMFTNLAssociationSetupList", gp225, (TPtr G_AMFTNLAssociationSetupList));
  ("AMFTNLAssociationFailedToSetupList", gp226, (TPtr G_TNLAssociationList));
  ("CriticalityDiagnostics", gp146, (TPtr G_CriticalityDiagnostics))].
Definition G_AMFConfigurationUpdateAcknowledgeIEs : ty := TStruct [
  ("Id", gp8, G_ProtocolIEID);
  ("Criticality", gp8, G_Criticality);
  ("Value", gp9, G_AMFConfigurationUpdateAcknowledgeIEsValue)].
Definition G_ProtocolIEContainerAMFConfigurationUpdateAcknowledgeIEs : ty := TStruct [
  ("List", gp29, (TSlice G_AMFConfigurationUpdateAcknowledgeIEs))].
Definition G_AMFConfigurationUpdateAcknowledge : ty := TStruct [
  ("ProtocolIEs", gp8, G_ProtocolIEContainerAMFConfigurationUpdateAcknowledgeIEs)].
Definition G_HandoverCancelAcknowledgeIEsValue : ty := TStruct [
  ("Present", gp8, TInt);
  ("AMFUENGAPID", gp37, (TPtr G_AMFUENGAPID));
  ("RANUENGAPID", gp38, (TPtr G_RANUENGAPID));
  ("CriticalityDiagnostics", gp146, (TPtr G_CriticalityDiagnostics))].
Definition G_HandoverCancelAcknowledgeIEs : ty := TStruct [
  ("Id", gp8, G_ProtocolIEID);
  ("Criticality", gp8, G_Criticality);
  ("Value", gp9, G_HandoverCancelAcknowledgeIEsValue)].
Definition G_ProtocolIEContainerHandoverCancelAcknowledgeIEs : ty := TStruct [
  ("List", gp29, (TSlice G_HandoverCancelAcknowledgeIEs))].
Definition G_HandoverCancelAcknowledge : ty := TStruct [
  ("ProtocolIEs", gp8, G_ProtocolIEContainerHandoverCancelAcknowledgeIEs)].
Definition G_NASSecurityParametersFromNGRAN : ty := TStruct [
  ("Value", gp8, TOctets)].
Definition G_PDUSessionResourceHandoverItemExtIEsExtensionValue : ty := TStruct [
  ("Present", gp8, TInt)].
Definition G_PDUSessionResourceHandoverItemExtIEs : ty := TStruct [
  ("Id", gp8, G_ProtocolExtensionID);
  ("Criticality", gp8, G_Criticality);
  ("ExtensionValue", gp9, G_PDUSessionResourceHandoverItemExtIEsExtensionValue)].
Definition G_ProtocolExtensionContainerPDUSessionResourceHandoverItemExtIEs : ty := TStruct [
  ("List", gp10, (TSlice G_PDUSessionResourceHandoverItemExtIEs))].
Definition G_PDUSessionResourceHandoverItem : ty := TStruct [
  ("PDUSessionID", gp8, G_PDUSessionID);
  ("HandoverCommandTransfer", gp8, TOctets);
  ("IEExtensions", gp11, (TPtr G_ProtocolExtensionContainerPDUSessionResourceHandoverItemExtIEs))].
Definition G_PDUSessionResourceHandoverList : ty := TStruct [
  ("List", gp14, (TSlice G_PDUSessionResourceHandoverItem))].
Definition G_PDUSessionResourceToReleaseItemHOCmdExtIEsExtensionValue : ty := TStruct [
  ("Present", gp8, TInt)].
Definition G_PDUSessionResourceToReleaseItemHOCmdExtIEs : ty := TStruct [
  ("Id", gp8, G_ProtocolExtensionID);
  ("Criticality", gp8, G_Criticality);
  ("ExtensionValue", gp9, G_PDUSessionResourceToReleaseItemHOCmdExtIEsExtensionValue)].
Definition G_ProtocolExtensionContainerPDUSessionResourceToReleaseItemHOCmdExtIEs : ty := TStruct [
  ("List", gp10, (TSlice G_PDUSessionResourceToReleaseItemHOCmdExtIEs))].
Definition G_PDUSessionResourceToReleaseItemHOCmd : ty := TStruct [
  ("PDUSessionID", gp8, G_PDUSessionID);
  ("HandoverPreparationUnsuccessfulTransfer", gp8, TOctets);
  ("IEExtensions", gp11, (TPtr G_ProtocolExtensionContainerPDUSessionResourceToReleaseItemHOCmdExtIEs))].
Definition G_PDUSessionResourceToReleaseListHOCmd : ty := TStruct [
  ("List", gp14, (TSlice G_PDUSessionResourceToReleaseItemHOCmd))].
Definition G_TargetToSourceTransparentContainer : ty := TStruct [
  ("Value", gp8, TOctets)].
Definition G_HandoverCommandIEsValue : ty := TStruct [
  ("Present", gp8, TInt);
  ("AMFUENGAPID", gp37, (TPtr G_AMFUENGAPID));
  ("RANUENGAPID", gp38, (TPtr G_RANUENGAPID));
  ("HandoverType", gp48, (TPtr G_HandoverType));
  ("NASSecurityParametersFromNGRAN", gp227, (TPtr G_NASSecurityParametersFromNGRAN));
  ("PDUSessionResourceHandoverList", gp228, (TPtr G_PDUSessionResourceHandoverList));
  ("PDUSessionResourceToReleaseListHOCmd", gp229, (TPtr G_PDUSessionResourceToReleaseListHOCmd));
  ("TargetToSourceTransparentContainer", gp230, (TPtr G_TargetToSourceTransparentContainer));
  ("CriticalityDiagnostics", gp146, (TPtr G_CriticalityDiagnostics))].
Definition G_HandoverCommandIEs : ty := TStruct [
  ("Id", gp8, G_ProtocolIEID);
  ("Criticality", gp8, G_Criticality);
  ("Value", gp9, G_HandoverCommandIEsValue)].
Definition G_ProtocolIEContainerHandoverCommandIEs : ty := TStruct [
  ("List", gp29, (TSlice G_HandoverCommandIEs))].
Definition G_HandoverCommand : ty := TStruct [
  ("ProtocolIEs", gp8, G_ProtocolIEContainerHandoverCommandIEs)].
Definition G_PDUSessionResourceAdmittedItemExtIEsExtensionValue : ty := TStruct [
  ("Present", gp8, TInt)].
Definition G_PDUSessionResourceAdmittedItemExtIEs : ty := TStruct [
  ("Id", gp8, G_ProtocolExtensionID);
  ("Criticality", gp8, G_Criticality);
  ("ExtensionValue", gp9, G_PDUSessionResourceAdmittedItemExtIEsExtensionValue)].
Definition G_ProtocolExtensionContainerPDUSessionResourceAdmittedItemExtIEs : ty := TStruct [
  ("List", gp10, (TSlice G_PDUSessionResourceAdmittedItemExtIEs))].
Definition G_PDUSessionResourceAdmittedItem : ty := TStruct [
  ("PDUSessionID", gp8, G_PDUSessionID);
  ("HandoverRequestAcknowledgeTransfer", gp8, TOctets);
  ("IEExtensions", gp11, (TPtr G_ProtocolExtensionContainerPDUSessionResourceAdmittedItemExtIEs))].
Definition G_PDUSessionResourceAdmittedList : ty := TStruct [
  ("List", gp14, (TSlice G_PDUSessionResourceAdmittedItem))].
Definition G_PDUSessionResourceFailedToSetupItemHOAckExtIEsExtensionValue : ty := TStruct [
  ("Present", gp8, TInt)].
Definition G_PDUSessionResourceFailedToSetupItemHOAckExtIEs : ty := TStruct [
  ("Id", gp8, G_ProtocolExtensionID);
  ("Criticality", gp8, G_Criticality);
  ("ExtensionValue", gp9, G_PDUSessionResourceFailedToSetupItemHOAckExtIEsExtensionValue)].
Definition G_ProtocolExtensionContainerPDUSessionResourceFailedToSetupItemHOAckExtIEs : ty := TStruct [
  ("List", gp10, (TSlice G_PDUSessionResourceFailedToSetupItemHOAckExtIEs))].
Definition G_PDUSessionResourceFailedToSetupItemHOAck : ty := TStruct [
  ("PDUSessionID", gp8, G_PDUSessionID);
  ("HandoverResourceAllocationUnsuccessfulTransfer", gp8, TOctets);
  ("IEExtensions", gp11, (TPtr G_ProtocolExtensionContainerPDUSessionResourceFailedToSetupItemHOAckExtIEs))].
Definition G_PDUSessionResourceFailedToSetupListHOAck : ty := TStruct [
  ("List", gp14, (TSlice G_PDUSessionResourceFailedToSetupItemHOAck))].
Definition G_HandoverRequestAcknowledgeIEsValue : ty := TStruct [
  ("Present", gp8, TInt);
  ("AMFUENGAPID", gp37, (TPtr G_AMFUENGAPID));
  ("RANUENGAPID", gp38, (TPtr G_RANUENGAPID));
  ("PDUSessionResourceAdmittedList", gp231, (TPtr G_PDUSessionResourceAdmittedList));
  ("PDUSessionResourceFailedToSetupListHOAck", gp232, (TPtr G_PDUSessionResourceFailedToSetupListHOAck));
  ("TargetToSourceTransparentContainer", gp230, (TPtr G_TargetToSourceTransparentContainer));
  ("CriticalityDiagnostics", gp146, (TPtr G_CriticalityDiagnostics))].
Definition G_HandoverRequestAcknowledgeIEs : ty := TStruct [
  ("Id", gp8, G_ProtocolIEID);
  ("Criticality", gp8, G_Criticality);
  ("Value", gp9, G_HandoverRequestAcknowledgeIEsValue)].
Definition G_ProtocolIEContainerHandoverRequestAcknowledgeIEs : ty := TStruct [
  ("List", gp29, (TSlice G_HandoverRequestAcknowledgeIEs))].
Definition G_HandoverRequestAcknowledge : ty := TStruct [
  ("ProtocolIEs", gp8, G_ProtocolIEContainerHandoverRequestAcknowledgeIEs)].
Definition G_PDUSessionResourceSetupItemCxtResExtIEsExtensionValue : ty := TStruct [
  ("Present", gp8, TInt)].
Definition G_PDUSessionResourceSetupItemCxtResExtIEs : ty := TStruct [
  ("Id", gp8, G_ProtocolExtensionID);
  ("Criticality", gp8, G_Criticality);
  ("ExtensionValue", gp9, G_PDUSessionResourceSetupItemCxtResExtIEsExtensionValue)].
Definition G_ProtocolExtensionContainerPDUSessionResourceSetupItemCxtResExtIEs : ty := TStruct [
  ("List", gp10, (TSlice G_PDUSessionResourceSetupItemCxtResExtIEs))].
Definition G_PDUSessionResourceSetupItemCxtRes : ty := TStruct [
  ("PDUSessionID", gp8, G_PDUSessionID);
  ("PDUSessionResourceSetupResponseTransfer", gp8, TOctets);
  ("IEExtensions", gp11, (TPtr G_ProtocolExtensionContainerPDUSessionResourceSetupItemCxtResExtIEs))].
Definition G_PDUSessionResourceSetupListCxtRes : ty := TStruct [
  ("List", gp14, (TSlice G_PDUSessionResourceSetupItemCxtRes))].
Definition G_PDUSessionResourceFailedToSetupItemCxtResExtIEsExtensionValue : ty := TStruct [
  ("Present", gp8, TInt)].
Definition G_PDUSessionResourceFailedToSetupItemCxtResExtIEs : ty := TStruct [
  ("Id", gp8, G_ProtocolExtensionID);
  ("Criticality", gp8, G_Criticality);
  ("ExtensionValue", gp9, G_PDUSessionResourceFailedToSetupItemCxtResExtIEsExtensionValue)].
Definition G_ProtocolExtensionContainerPDUSessionResourceFailedToSetupItemCxtResExtIEs : ty := TStruct [
  ("List", gp10, (TSlice G_PDUSessionResourceFailedToSetupItemCxtResExtIEs))].
Definition G_PDUSessionResourceFailedToSetupItemCxtRes : ty := TStruct [
  ("PDUSessionID", gp8, G_PDUSessionID);
  ("PDUSessionResourceSetupUnsuccessfulTransfer", gp8, TOctets);
  ("IEExtensions", gp11, (TPtr G_ProtocolExtensionContainerPDUSessionResourceFailedToSetupItemCxtResExtIEs))].
Definition G_PDUSessionResourceFailedToSetupListCxtRes : ty := TStruct [
  ("List", gp14, (TSlice G_PDUSessionResourceFailedToSetupItemCxtRes))].
Definition G_InitialContextSetupResponseIEsValue : ty := TStruct [
  ("Present", gp8, TInt);
  ("AMFUENGAPID", gp37, (TPtr G_AMFUENGAPID));
  ("RANUENGAPID", gp38, (TPtr G_RANUENGAPID));
  ("PDUSessionResourceSetupListCxtRes", gp233, (TPtr G_PDUSessionResourceSetupListCxtRes));
  ("PDUSessionResourceFailedToSetupListCxtRes", gp234, (TPtr G_PDUSessionResourceFailedToSetupListCxtRes));
  ("CriticalityDiagnostics", gp146, (TPtr G_CriticalityDiagnostics))].
Definition G_InitialContextSetupResponseIEs : ty := TStruct [
  ("Id", gp8, G_ProtocolIEID);
  ("Criticality", gp8, G_Criticality);
  ("Value", gp9, G_InitialContextSetupResponseIEsValue)].
Definition G_ProtocolIEContainerInitialContextSetupResponseIEs : ty := TStruct [
  ("List", gp29, (TSlice G_InitialContextSetupResponseIEs))].
Definition G_InitialContextSetupResponse : ty := TStruct [
  ("ProtocolIEs", gp8, G_ProtocolIEContainerInitialContextSetupResponseIEs)].
Definition G_NGResetAcknowledgeIEsValue : ty := TStruct [
  ("Present", gp8, TInt);
  ("UEAssociatedLogicalNGConnectionList", gp235, (TPtr G_UEAssociatedLogicalNGConnectionList));
  ("CriticalityDiagnostics", gp146, (TPtr G_CriticalityDiagnostics))].
Definition G_NGResetAcknowledgeIEs : ty := TStruct [
  ("Id", gp8, G_ProtocolIEID);
  ("Criticality", gp8, G_Criticality);
  ("Value", gp9, G_NGResetAcknowledgeIEsValue)].
Definition G_ProtocolIEContainerNGResetAcknowledgeIEs : ty := TStruct [
  ("List", gp29, (TSlice G_NGResetAcknowledgeIEs))].
Definition G_NGResetAcknowledge : ty := TStruct [
  ("ProtocolIEs", gp8, G_ProtocolIEContainerNGResetAcknowledgeIEs)].
Definition G_NGSetupResponseIEsValue : ty := TStruct [
  ("Present", gp8, TInt);
  ("AMFName", gp22, (TPtr G_AMFName));
  ("ServedGUAMIList", gp23, (TPtr G_ServedGUAMIList));
  ("RelativeAMFCapacity", gp24, (TPtr G_RelativeAMFCapacity));
  ("PLMNSupportList", gp25, (TPtr G_PLMNSupportList));
  ("CriticalityDiagnostics", gp146, (TPtr G_CriticalityDiagnostics))].
Definition G_NGSetupResponseIEs : ty := TStruct [
  ("Id", gp8, G_ProtocolIEID);
  ("Criticality", gp8, G_Criticality);
  ("Value", gp9, G_NGSetupResponseIEsValue)].
Definition G_ProtocolIEContainerNGSetupResponseIEs : ty := TStruct [
  ("List", gp29, (TSlice G_NGSetupResponseIEs))].
Definition G_NGSetupResponse : ty := TStruct [
  ("ProtocolIEs", gp8, G_ProtocolIEContainerNGSetupResponseIEs)].
Definition G_PDUSessionResourceSwitchedItemExtIEsExtensionValue : ty := TStruct [
  ("Present", gp8, TInt)].
Definition G_PDUSessionResourceSwitchedItemExtIEs : ty := TStruct [
  ("Id", gp8, G_ProtocolExtensionID);
  ("Criticality", gp8, G_Criticality);
  ("ExtensionValue", gp9, G_PDUSessionResourceSwitchedItemExtIEsExtensionValue)].
Definition G_ProtocolExtensionContainerPDUSessionResourceSwitchedItemExtIEs : ty := TStruct [
  ("List", gp10, (TSlice G_PDUSessionResourceSwitchedItemExtIEs))].
Definition G_PDUSessionResourceSwitchedItem : ty := TStruct [
  ("PDUSessionID", gp8, G_PDUSessionID);
  ("PathSwitchRequestAcknowledgeTransfer", gp8, TOctets);
  ("IEExtensions", gp11, (TPtr G_ProtocolExtensionContainerPDUSessionResourceSwitchedItemExtIEs))].
Definition G_PDUSessionResourceSwitchedList : ty := TStruct [
  ("List", gp14, (TSlice G_PDUSessionResourceSwitchedItem))].
Definition G_PDUSessionResourceReleasedItemPSAckExtIEsExtensionValue : ty := TStruct [
  ("Present", gp8, TInt)].
Definition G_PDUSessionResourceReleasedItemPSAckExtIEs : ty := TStruct [
  ("Id", gp8, G_ProtocolExtensionID);
  ("Criticality", gp8, G_Criticality);
  ("ExtensionValue", gp9, G_PDUSessionResourceReleasedItemPSAckExtIEsExtensionValue)].
Definition G_ProtocolExtensionContainerPDUSessionResourceReleasedItemPSAckExtIEs : ty := TStruct [
  ("List", gp10, (TSlice G_PDUSessionResourceReleasedItemPSAckExtIEs))].
Definition G_PDUSessionResourceReleasedItemPSAck : ty := TStruct [
  ("PDUSessionID", gp8, G_PDUSessionID);
  ("PathSwitchRequestUnsuccessfulTransfer", gp8, TOctets);
  ("IEExtensions", gp11, (TPtr G_ProtocolExtensionContainerPDUSessionResourceReleasedItemPSAckExtIEs))].
Definition G_PDUSessionResourceReleasedListPSAck : ty := TStruct [
  ("List", gp14, (TSlice G_PDUSessionResourceReleasedItemPSAck))].
Definition G_PathSwitchRequestAcknowledgeIEsValue : ty := TStruct [
  ("Present", gp8, TInt);
  ("AMFUENGAPID", gp37, (TPtr G_AMFUENGAPID));
  ("RANUENGAPID", gp38, (TPtr G_RANUENGAPID));
  ("UESecurityCapabilities", gp73, (TPtr G_UESecurityCapabilities));
  ("SecurityContext", gp74, (TPtr G_SecurityContext));
  ("NewSecurityContextInd", gp75, (TPtr G_NewSecurityContextInd));
  ("PDUSessionResourceSwitchedList", gp236, (TPtr G_PDUSessionResourceSwitchedList));
  ("PDUSessionResourceReleasedListPSAck", gp237, (TPtr G_PDUSessionResourceReleasedListPSAck));
  ("AllowedNSSAI", gp78, (TPtr G_AllowedNSSAI));
  ("CoreNetworkAssistanceInformation", gp72, (TPtr G_CoreNetworkAssistanceInformation));
  ("RRCInactiveTransitionReportRequest", gp83, (TPtr G_RRCInactiveTransitionReportRequest));
  ("CriticalityDiagnostics", gp146, (TPtr G_CriticalityDiagnostics))].
Definition G_PathSwitchRequestAcknowledgeIEs : ty := TStruct [
  ("Id", gp8, G_ProtocolIEID);
  ("Criticality", gp8, G_Criticality);
  ("Value", gp9, G_PathSwitchRequestAcknowledgeIEsValue)].
Definition G_ProtocolIEContainerPathSwitchRequestAcknowledgeIEs : ty := TStruct [
  ("List", gp29, (TSlice G_PathSwitchRequestAcknowledgeIEs))].
Definition G_PathSwitchRequestAcknowledge : ty := TStruct [
  ("ProtocolIEs", gp8, G_ProtocolIEContainerPathSwitchRequestAcknowledgeIEs)].
Definition G_PDUSessionResourceModifyItemModResExtIEsExtensionValue : ty := TStruct [
  ("Present", gp8, TInt)].
Definition G_PDUSessionResourceModifyItemModResExtIEs : ty := TStruct [
  ("Id", gp8, G_ProtocolExtensionID);
  ("Criticality", gp8, G_Criticality);
  ("ExtensionValue", gp9, G_PDUSessionResourceModifyItemModResExtIEsExtensionValue)].
Definition G_ProtocolExtensionContainerPDUSessionResourceModifyItemModResExtIEs : ty := TStruct [
  ("List", gp10, (TSlice G_PDUSessionResourceModifyItemModResExtIEs))].
Definition G_PDUSessionResourceModifyItemModRes : ty := TStruct [
  ("PDUSessionID", gp8, G_PDUSessionID);
  ("PDUSessionResourceModifyResponseTransfer", gp11, (TPtr TOctets));
  ("IEExtensions", gp11, (TPtr G_ProtocolExtensionContainerPDUSessionResourceModifyItemModResExtIEs))].
Definition G_PDUSessionResourceModifyListModRes : ty := TStruct [
  ("List", gp14, (TSlice G_PDUSessionResourceModifyItemModRes))].
Definition G_PDUSessionResourceFailedToModifyItemModResExtIEsExtensionValue : ty := TStruct [
  ("Present", gp8, TInt)].
Definition G_PDUSessionResourceFailedToModifyItemModResExtIEs : ty := TStruct [
  ("Id", gp8, G_ProtocolExtensionID);
  ("Criticality", gp8, G_Criticality);
  ("ExtensionValue", gp9, G_PDUSessionResourceFailedToModifyItemModResExtIEsExtensionValue)].
Definition G_ProtocolExtensionContainerPDUSessionResourceFailedToModifyItemModResExtIEs : ty := TStruct [
  ("List", gp10, (TSlice G_PDUSessionResourceFailedToModifyItemModResExtIEs))].
Definition G_PDUSessionResourceFailedToModifyItemModRes : ty := TStruct [
  ("PDUSessionID", gp8, G_PDUSessionID);
  ("PDUSessionResourceModifyUnsuccessfulTransfer", gp8, TOctets);
  ("IEExtensions", gp11, (TPtr G_ProtocolExtensionContainerPDUSessionResourceFailedToModifyItemModResExtIEs))].
Definition G_PDUSessionResourceFailedToModifyListModRes : ty := TStruct [
  ("List", gp14, (TSlice G_PDUSessionResourceFailedToModifyItemModRes))].
Definition G_PDUSessionResourceModifyResponseIEsValue : ty := TStruct [
  ("Present", gp8, TInt);
  ("AMFUENGAPID", gp37, (TPtr G_AMFUENGAPID));
  ("RANUENGAPID", gp38, (TPtr G_RANUENGAPID));
  ("PDUSessionResourceModifyListModRes", gp238, (TPtr G_PDUSessionResourceModifyListModRes));
  ("PDUSessionResourceFailedToModifyListModRes", gp239, (TPtr G_PDUSessionResourceFailedToModifyListModRes));
  ("UserLocationInformation", gp102, (TPtr G_UserLocationInformation));
  ("CriticalityDiagnostics", gp146, (TPtr G_CriticalityDiagnostics))].
Definition G_PDUSessionResourceModifyResponseIEs : ty := TStruct [
  ("Id", gp8, G_ProtocolIEID);
  ("Criticality", gp8, G_Criticality);
  ("Value", gp9, G_PDUSessionResourceModifyResponseIEsValue)].
Definition G_ProtocolIEContainerPDUSessionResourceModifyResponseIEs : ty := TStruct [
  ("List", gp29, (TSlice G_PDUSessionResourceModifyResponseIEs))].
Definition G_PDUSessionResourceModifyResponse : ty := TStruct [
  ("ProtocolIEs", gp8, G_ProtocolIEContainerPDUSessionResourceModifyResponseIEs)].
Definition G_PDUSessionResourceModifyItemModCfmExtIEsExtensionValue : ty := TStruct [
  ("Present", gp8, TInt)].
Definition G_PDUSessionResourceModifyItemModCfmExtIEs : ty := TStruct [
  ("Id", gp8, G_ProtocolExtensionID);
  ("Criticality", gp8, G_Criticality);
  ("ExtensionValue", gp9, G_PDUSessionResourceModifyItemModCfmExtIEsExtensionValue)].
Definition G_ProtocolExtensionContainerPDUSessionResourceModifyItemModCfmExtIEs : ty := TStruct [
  ("List", gp10, (TSlice G_PDUSessionResourceModifyItemModCfmExtIEs))].
Definition G_PDUSessionResourceModifyItemModCfm : ty := TStruct [
  ("PDUSessionID", gp8, G_PDUSessionID);
  ("PDUSessionResourceModifyConfirmTransfer", gp8, TOctets);
  ("IEExtensions", gp11, (TPtr G_ProtocolExtensionContainerPDUSessionResourceModifyItemModCfmExtIEs))].
Definition G_PDUSessionResourceModifyListModCfm : ty := TStruct [
  ("List", gp14, (TSlice G_PDUSessionResourceModifyItemModCfm))].
Definition G_PDUSessionResourceFailedToModifyItemModCfmExtIEsExtensionValue : ty := TStruct [
  ("Present", gp8, TInt)].
Definition G_PDUSessionResourceFailedToModifyItemModCfmExtIEs : ty := TStruct [
  ("Id", gp8, G_ProtocolExtensionID);
  ("Criticality", gp8, G_Criticality);
  ("ExtensionValue", gp9, G_PDUSessionResourceFailedToModifyItemModCfmExtIEsExtensionValue)].
Definition G_ProtocolExtensionContainerPDUSessionResourceFailedToModifyItemModCfmExtIEs : ty := TStruct [
  ("List", gp10, (TSlice G_PDUSessionResourceFailedToModifyItemModCfmExtIEs))].
Definition G_PDUSessionResourceFailedToModifyItemModCfm : ty := TStruct [
  ("PDUSessionID", gp8, G_PDUSessionID);
  ("PDUSessionResourceModifyIndicationUnsuccessfulTransfer", gp8, TOctets);
  ("IEExtensions", gp11, (TPtr G_ProtocolExtensionContainerPDUSessionResourceFailedToModifyItemModCfmExtIEs))].
Definition G_PDUSessionResourceFailedToModifyListModCfm : ty := TStruct [
  ("List", gp14, (TSlice G_PDUSessionResourceFailedToModifyItemModCfm))].
Definition G_PDUSessionResourceModifyConfirmIEsValue : ty := TStruct [
  ("Present", gp8, TInt);
  ("AMFUENGAPID", gp37, (TPtr G_AMFUENGAPID));
  ("RANUENGAPID", gp38, (TPtr G_RANUENGAPID));
  ("PDUSessionResourceModifyListModCfm", gp240, (TPtr G_PDUSessionResourceModifyListModCfm));
  ("PDUSessionResourceFailedToModifyListModCfm", gp241, (TPtr G_PDUSessionResourceFailedToModifyListModCfm));
  ("CriticalityDiagnostics", gp146, (TPtr G_CriticalityDiagnostics))].
Definition G_PDUSessionResourceModifyConfirmIEs : ty := TStruct [
  ("Id", gp8, G_ProtocolIEID);
  ("Criticality", gp8, G_Criticality);
  ("Value", gp9, G_PDUSessionResourceModifyConfirmIEsValue)].
Definition G_ProtocolIEContainerPDUSessionResourceModifyConfirmIEs : ty := TStruct [
  ("List", gp29, (TSlice G_PDUSessionResourceModifyConfirmIEs))].
Definition G_PDUSessionResourceModifyConfirm : ty := TStruct [
  ("ProtocolIEs", gp8, G_ProtocolIEContainerPDUSessionResourceModifyConfirmIEs)].
Definition G_PDUSessionResourceReleasedItemRelResExtIEsExtensionValue : ty := TStruct [
  ("Present", gp8, TInt)].
Definition G_PDUSessionResourceReleasedItemRelResExtIEs : ty := TStruct [
  ("Id", gp8, G_ProtocolExtensionID);
  ("Criticality", gp8, G_Criticality);
  ("ExtensionValue", gp9, G_PDUSessionResourceReleasedItemRelResExtIEsExtensionValue)].
Definition G_ProtocolExtensionContainerPDUSessionResourceReleasedItemRelResExtIEs : ty := TStruct [
  ("List", gp10, (TSlice G_PDUSessionResourceReleasedItemRelResExtIEs))].
Definition G_PDUSessionResourceReleasedItemRelRes : ty := TStruct [
  ("PDUSessionID", gp8, G_PDUSessionID);
  ("PDUSessionResourceReleaseResponseTransfer", gp8, TOctets);
  ("IEExtensions", gp11, (TPtr G_ProtocolExtensionContainerPDUSessionResourceReleasedItemRelResExtIEs))].
Definition G_PDUSessionResourceReleasedListRelRes : ty := TStruct [
  ("List", gp14, (TSlice G_PDUSessionResourceReleasedItemRelRes))].
Definition G_PDUSessionResourceReleaseResponseIEsValue : ty := TStruct [
  ("Present", gp8, TInt);
  ("AMFUENGAPID", gp37, (TPtr G_AMFUENGAPID));
  ("RANUENGAPID", gp38, (TPtr G_RANUENGAPID));
  ("PDUSessionResourceReleasedListRelRes", gp242, (TPtr G_PDUSessionResourceReleasedListRelRes));
  ("UserLocationInformation", gp102, (TPtr G_UserLocationInformation));
  ("CriticalityDiagnostics", gp146, (TPtr G_CriticalityDiagnostics))].
Definition G_PDUSessionResourceReleaseResponseIEs : ty := TStruct [
  ("Id", gp8, G_ProtocolIEID);
  ("Criticality", gp8, G_Criticality);
  ("Value", gp9, G_PDUSessionResourceReleaseResponseIEsValue)].
Definition G_ProtocolIEContainerPDUSessionResourceReleaseResponseIEs : ty := TStruct [
  ("List", gp29, (TSlice G_PDUSessionResourceReleaseResponseIEs))].
Definition G_PDUSessionResourceReleaseResponse : ty := TStruct [
  ("ProtocolIEs", gp8, G_ProtocolIEContainerPDUSessionResourceReleaseResponseIEs)].
Definition G_PDUSessionResourceSetupItemSUResExtIEsExtensionValue : ty := TStruct [
  ("Present", gp8, TInt)].
Definition G_PDUSessionResourceSetupItemSUResExtIEs : ty := TStruct [
  ("Id", gp8, G_ProtocolExtensionID);
  ("Criticality", gp8, G_Criticality);
  ("ExtensionValue", gp9, G_PDUSessionResourceSetupItemSUResExtIEsExtensionValue)].
Definition G_ProtocolExtensionContainerPDUSessionResourceSetupItemSUResExtIEs : ty := TStruct [
  ("List", gp10, (TSlice G_PDUSessionResourceSetupItemSUResExtIEs))].
Definition G_PDUSessionResourceSetupItemSURes : ty := TStruct [
  ("PDUSessionID", gp8, G_PDUSessionID);
  ("PDUSessionResourceSetupResponseTransfer", gp8, TOctets);
  ("IEExtensions", gp11, (TPtr G_ProtocolExtensionContainerPDUSessionResourceSetupItemSUResExtIEs))].
Definition G_PDUSessionResourceSetupListSURes : ty := TStruct [
  ("List", gp14, (TSlice G_PDUSessionResourceSetupItemSURes))].
Definition G_PDUSessionResourceFailedToSetupItemSUResExtIEsExtensionValue : ty := TStruct [
  ("Present", gp8, TInt)].
Definition G_PDUSessionResourceFailedToSetupItemSUResExtIEs : ty := TStruct [
  ("Id", gp8, G_ProtocolExtensionID);
  ("Criticality", gp8, G_Criticality);
  ("ExtensionValue", gp9, G_PDUSessionResourceFailedToSetupItemSUResExtIEsExtensionValue)].
Definition G_ProtocolExtensionContainerPDUSessionResourceFailedToSetupItemSUResExtIEs : ty := TStruct [
  ("List", gp10, (TSlice G_PDUSessionResourceFailedToSetupItemSUResExtIEs))].
Definition G_PDUSessionResourceFailedToSetupItemSURes : ty := TStruct [
  ("PDUSessionID", gp8, G_PDUSessionID);
  ("PDUSessionResourceSetupUnsuccessfulTransfer", gp8, TOctets);
  ("IEExtensions", gp11, (TPtr G_ProtocolExtensionContainerPDUSessionResourceFailedToSetupItemSUResExtIEs))].
Definition G_PDUSessionResourceFailedToSetupListSURes : ty := TStruct [
  ("List", gp14, (TSlice G_PDUSessionResourceFailedToSetupItemSURes))].
Definition G_PDUSessionResourceSetupResponseIEsValue : ty := TStruct [
  ("Present", gp8, TInt);
  ("AMFUENGAPID", gp37, (TPtr G_AMFUENGAPID));
  ("RANUENGAPID", gp38, (TPtr G_RANUENGAPID));
  ("PDUSessionResourceSetupListSURes", gp243, (TPtr G_PDUSessionResourceSetupListSURes));
  ("PDUSessionResourceFailedToSetupListSURes", gp244, (TPtr G_PDUSessionResourceFailedToSetupListSURes));
  ("CriticalityDiagnostics", gp146, (TPtr G_CriticalityDiagnostics))].
Definition G_PDUSessionResourceSetupResponseIEs : ty := TStruct [
  ("Id", gp8, G_ProtocolIEID);
  ("Criticality", gp8, G_Criticality);
  ("Value", gp9, G_PDUSessionResourceSetupResponseIEsValue)].
Definition G_ProtocolIEContainerPDUSessionResourceSetupResponseIEs : ty := TStruct [
  ("List", gp29, (TSlice G_PDUSessionResourceSetupResponseIEs))].
Definition G_PDUSessionResourceSetupResponse : ty := TStruct [
  ("ProtocolIEs", gp8, G_ProtocolIEContainerPDUSessionResourceSetupResponseIEs)].
Definition G_NumberOfBroadcasts : ty := TStruct [
  ("Value", gp2, TInt)].
Definition G_CellIDCancelledEUTRAItemExtIEsExtensionValue : ty := TStruct [
  ("Present", gp8, TInt)].
Definition G_CellIDCancelledEUTRAItemExtIEs : ty := TStruct [
  ("Id", gp8, G_ProtocolExtensionID);
  ("Criticality", gp8, G_Criticality);
  ("ExtensionValue", gp9, G_CellIDCancelledEUTRAItemExtIEsExtensionValue)].
Definition G_ProtocolExtensionContainerCellIDCancelledEUTRAItemExtIEs : ty := TStruct [
  ("List", gp10, (TSlice G_CellIDCancelledEUTRAItemExtIEs))].
Definition G_CellIDCancelledEUTRAItem : ty := TStruct [
  ("EUTRACGI", gp12, G_EUTRACGI);
  ("NumberOfBroadcasts", gp8, G_NumberOfBroadcasts);
  ("IEExtensions", gp11, (TPtr G_ProtocolExtensionContainerCellIDCancelledEUTRAItemExtIEs))].
Definition G_CellIDCancelledEUTRA : ty := TStruct [
  ("List", gp111, (TSlice G_CellIDCancelledEUTRAItem))].
Definition G_CancelledCellsInTAIEUTRAItemExtIEsExtensionValue : ty := TStruct [
  ("Present", gp8, TInt)].
Definition G_CancelledCellsInTAIEUTRAItemExtIEs : ty := TStruct [
  ("Id", gp8, G_ProtocolExtensionID);
  ("Criticality", gp8, G_Criticality);
  ("ExtensionValue", gp9, G_CancelledCellsInTAIEUTRAItemExtIEsExtensionValue)].
Definition G_ProtocolExtensionContainerCancelledCellsInTAIEUTRAItemExtIEs : ty := TStruct [
  ("List", gp10, (TSlice G_CancelledCellsInTAIEUTRAItemExtIEs))].
Definition G_CancelledCellsInTAIEUTRAItem : ty := TStruct [
  ("EUTRACGI", gp12, G_EUTRACGI);
  ("NumberOfBroadcasts", gp8, G_NumberOfBroadcasts);
  ("IEExtensions", gp11, (TPtr G_ProtocolExtensionContainerCancelledCellsInTAIEUTRAItemExtIEs))].
Definition G_CancelledCellsInTAIEUTRA : ty := TStruct [
  ("List", gp111, (TSlice G_CancelledCellsInTAIEUTRAItem))].
Definition G_TAICancelledEUTRAItemExtIEsExtensionValue : ty := TStruct [
  ("Present", gp8, TInt)].
Definition G_TAICancelledEUTRAItemExtIEs : ty := TStruct [
  ("Id", gp8, G_ProtocolExtensionID);
  ("Criticality", gp8, G_Criticality);
  ("ExtensionValue", gp9, G_TAICancelledEUTRAItemExtIEsExtensionValue)].
Definition G_ProtocolExtensionContainerTAICancelledEUTRAItemExtIEs : ty := TStruct [
  ("List", gp10, (TSlice G_TAICancelledEUTRAItemExtIEs))].
Definition G_TAICancelledEUTRAItem : ty := TStruct [
  ("TAI", gp12, G_TAI);
  ("CancelledCellsInTAIEUTRA", gp8, G_CancelledCellsInTAIEUTRA);
  ("IEExtensions", gp11, (TPtr G_ProtocolExtensionContainerTAICancelledEUTRAItemExtIEs))].
Definition G_TAICancelledEUTRA : ty := TStruct [
  ("List", gp111, (TSlice G_TAICancelledEUTRAItem))].
Definition G_CancelledCellsInEAIEUTRAItemExtIEsExtensionValue : ty := TStruct [
  ("Present", gp8, TInt)].
Definition G_CancelledCellsInEAIEUTRAItemExtIEs : ty := TStruct [
  ("Id", gp8, G_ProtocolExtensionID);
  ("Criticality", gp8, G_Criticality);
  ("ExtensionValue", gp9, G_CancelledCellsInEAIEUTRAItemExtIEsExtensionValue)].
Definition G_ProtocolExtensionContainerCancelledCellsInEAIEUTRAItemExtIEs : ty := TStruct [
  ("List", gp10, (TSlice G_CancelledCellsInEAIEUTRAItemExtIEs))].
Definition G_CancelledCellsInEAIEUTRAItem : ty := TStruct [
  ("EUTRACGI", gp12, G_EUTRACGI);
  ("NumberOfBroadcasts", gp8, G_NumberOfBroadcasts);
  ("IEExtensions", gp11, (TPtr G_ProtocolExtensionContainerCancelledCellsInEAIEUTRAItemExtIEs))].
Definition G_CancelledCellsInEAIEUTRA : ty := TStruct [
  ("List", gp111, (TSlice G_CancelledCellsInEAIEUTRAItem))].
Definition G_EmergencyAreaIDCancelledEUTRAItemExtIEsExtensionValue : ty := TStruct [
  ("Present", gp8, TInt)].
Definition G_EmergencyAreaIDCancelledEUTRAItemExtIEs : ty := TStruct [
  ("Id", gp8, G_ProtocolExtensionID);
  ("Criticality", gp8, G_Criticality);
  ("ExtensionValue", gp9, G_EmergencyAreaIDCancelledEUTRAItemExtIEsExtensionValue)].
Definition G_ProtocolExtensionContainerEmergencyAreaIDCancelledEUTRAItemExtIEs : ty := TStruct [
  ("List", gp10, (TSlice G_EmergencyAreaIDCancelledEUTRAItemExtIEs))].
Definition G_EmergencyAreaIDCancelledEUTRAItem : ty := TStruct [
  ("EmergencyAreaID", gp8, G_EmergencyAreaID);
  ("CancelledCellsInEAIEUTRA", gp8, G_CancelledCellsInEAIEUTRA);
  ("IEExtensions", gp11, (TPtr G_ProtocolExtensionContainerEmergencyAreaIDCancelledEUTRAItemExtIEs))].
Definition G_EmergencyAreaIDCancelledEUTRA : ty := TStruct [
  ("List", gp111, (TSlice G_EmergencyAreaIDCancelledEUTRAItem))].
Definition G_CellIDCancelledNRItemExtIEsExtensionValue : ty := TStruct [
  ("Present", gp8, TInt)].
Definition G_CellIDCancelledNRItemExtIEs : ty := TStruct [
  ("Id", gp8, G_ProtocolExtensionID);
  ("Criticality", gp8, G_Criticality);
  ("ExtensionValue", gp9, G_CellIDCancelledNRItemExtIEsExtensionValue)].
Definition G_ProtocolExtensionContainerCellIDCancelledNRItemExtIEs : ty := TStruct [
  ("List", gp10, (TSlice G_CellIDCancelledNRItemExtIEs))].
Definition G_CellIDCancelledNRItem : ty := TStruct [
  ("NRCGI", gp12, G_NRCGI);
  ("NumberOfBroadcasts", gp8, G_NumberOfBroadcasts);
  ("IEExtensions", gp11, (TPtr G_ProtocolExtensionContainerCellIDCancelledNRItemExtIEs))].
Definition G_CellIDCancelledNR : ty := TStruct [
  ("List", gp111, (TSlice G_CellIDCancelledNRItem))].
Definition G_CancelledCellsInTAINRItemExtIEsExtensionValue : ty := TStruct [
  ("Present", gp8, TInt)].
Definition G_CancelledCellsInTAINRItemExtIEs : ty := TStruct [
  ("Id", gp8, G_ProtocolExtensionID);
  ("Criticality", gp8, G_Criticality);
  ("ExtensionValue", gp9, G_CancelledCellsInTAINRItemExtIEsExtensionValue)].
Definition G_ProtocolExtensionContainerCancelledCellsInTAINRItemExtIEs : ty := TStruct [
  ("List", gp10, (TSlice G_CancelledCellsInTAINRItemExtIEs))].
Definition G_CancelledCellsInTAINRItem : ty := TStruct [
  ("NRCGI", gp12, G_NRCGI);
  ("NumberOfBroadcasts", gp8, G_NumberOfBroadcasts);
  ("IEExtensions", gp11, (TPtr G_ProtocolExtensionContainerCancelledCellsInTAINRItemExtIEs))].
Definition G_CancelledCellsInTAINR : ty := TStruct [
  ("List", gp111, (TSlice G_CancelledCellsInTAINRItem))].
Definition G_TAICancelledNRItemExtIEsExtensionValue : ty := TStruct [
  ("Present", gp8, TInt)].
Definition G_TAICancelledNRItemExtIEs : ty := TStruct [
  ("Id", gp8, G_ProtocolExtensionID);
  ("Criticality", gp8, G_Criticality);
  ("ExtensionValue", gp9, G_TAICancelledNRItemExtIEsExtensionValue)].
Definition G_ProtocolExtensionContainerTAICancelledNRItemExtIEs : ty := TStruct [
  ("List", gp10, (TSlice G_TAICancelledNRItemExtIEs))].
Definition G_TAICancelledNRItem : ty := TStruct [
  ("TAI", gp12, G_TAI);
  ("CancelledCellsInTAINR", gp8, G_CancelledCellsInTAINR);
  ("IEExtensions", gp11, (TPtr G_ProtocolExtensionContainerTAICancelledNRItemExtIEs))].
Definition G_TAICancelledNR : ty := TStruct [
  ("List", gp111, (TSlice G_TAICancelledNRItem))].
Definition G_CancelledCellsInEAINRItemExtIEsExtensionValue : ty := TStruct [
  ("Present", gp8, TInt)].
Definition G_CancelledCellsInEAINRItemExtIEs : ty := TStruct [
  ("Id", gp8, G_ProtocolExtensionID);
  ("Criticality", gp8, G_Criticality);
  ("ExtensionValue", gp9, G_CancelledCellsInEAINRItemExtIEsExtensionValue)].
Definition G_ProtocolExtensionContainerCancelledCellsInEAINRItemExtIEs : ty := TStruct [
  ("List", gp10, (TSlice G_CancelledCellsInEAINRItemExtIEs))].
Definition G_CancelledCellsInEAINRItem : ty := TStruct [
  ("NRCGI", gp12, G_NRCGI);
  ("NumberOfBroadcasts", gp8, G_NumberOfBroadcasts);
  ("IEExtensions", gp11, (TPtr G_ProtocolExtensionContainerCancelledCellsInEAINRItemExtIEs))].
Definition G_CancelledCellsInEAINR : ty := TStruct [
  ("List", gp111, (TSlice G_CancelledCellsInEAINRItem))].
Definition G_EmergencyAreaIDCancelledNRItemExtIEsExtensionValue : ty := TStruct [
  ("Present", gp8, TInt)].
Definition G_EmergencyAreaIDCancelledNRItemExtIEs : ty := TStruct [
  ("Id", gp8, G_ProtocolExtensionID);
  ("Criticality", gp8, G_Criticality);
  ("ExtensionValue", gp9, G_EmergencyAreaIDCancelledNRItemExtIEsExtensionValue)].
Definition G_ProtocolExtensionContainerEmergencyAreaIDCancelledNRItemExtIEs : ty := TStruct [
  ("List", gp10, (TSlice G_EmergencyAreaIDCancelledNRItemExtIEs))].
Definition G_EmergencyAreaIDCancelledNRItem : ty := TStruct [
  ("EmergencyAreaID", gp8, G_EmergencyAreaID);
  ("CancelledCellsInEAINR", gp8, G_CancelledCellsInEAINR);
  ("IEExtensions", gp11, (TPtr G_ProtocolExtensionContainerEmergencyAreaIDCancelledNRItemExtIEs))].
Definition G_EmergencyAreaIDCancelledNR : ty := TStruct [
  ("List", gp111, (TSlice G_EmergencyAreaIDCancelledNRItem))].
Definition G_ProtocolIESingleContainerBroadcastCancelledAreaListExtIEs : ty := TStruct [].
Definition G_BroadcastCancelledAreaList : ty := TStruct [
  ("Present", gp8, TInt);
  ("CellIDCancelledEUTRA", gp8, (TPtr G_CellIDCancelledEUTRA));
  ("TAICancelledEUTRA", gp8, (TPtr G_TAICancelledEUTRA));
  ("EmergencyAreaIDCancelledEUTRA", gp8, (TPtr G_EmergencyAreaIDCancelledEUTRA));
  ("CellIDCancelledNR", gp8, (TPtr G_CellIDCancelledNR));
  ("TAICancelledNR", gp8, (TPtr G_TAICancelledNR));
  ("EmergencyAreaIDCancelledNR", gp8, (TPtr G_EmergencyAreaIDCancelledNR));
  ("ChoiceExtensions", gp8, (TPtr G_ProtocolIESingleContainerBroadcastCancelledAreaListExtIEs))].
Definition G_PWSCancelResponseIEsValue : ty := TStruct [
  ("Present", gp8, TInt);
  ("MessageIdentifier", gp112, (TPtr G_MessageIdentifier));
  ("SerialNumber", gp113, (TPtr G_SerialNumber));
  ("BroadcastCancelledAreaList", gp245, (TPtr G_BroadcastCancelledAreaList));
  ("CriticalityDiagnostics", gp146, (TPtr G_CriticalityDiagnostics))].
Definition G_PWSCancelResponseIEs : ty := TStruct [
  ("Id", gp8, G_ProtocolIEID);
  ("Criticality", gp8, G_Criticality);
  ("Value", gp9, G_PWSCancelResponseIEsValue)].
Definition G_ProtocolIEContainerPWSCancelResponseIEs : ty := TStruct [
  ("List", gp29, (TSlice G_PWSCancelResponseIEs))].
Definition G_PWSCancelResponse : ty := TStruct [
  ("ProtocolIEs", gp8, G_ProtocolIEContainerPWSCancelResponseIEs)].
Definition G_RANConfigurationUpdateAcknowledgeIEsValue : ty := TStruct [
  ("Present", gp8, TInt);
  ("CriticalityDiagnostics", gp146, (TPtr G_CriticalityDiagnostics))].
Definition G_RANConfigurationUpdateAcknowledgeIEs : ty := TStruct [
  ("Id", gp8, G_ProtocolIEID);
  ("Criticality", gp8, G_Criticality);
  ("Value", gp9, G_RANConfigurationUpdateAcknowledgeIEsValue)].
Definition G_ProtocolIEContainerRANConfigurationUpdateAcknowledgeIEs : ty := TStruct [
  ("List", gp29, (TSlice G_RANConfigurationUpdateAcknowledgeIEs))].
Definition G_RANConfigurationUpdateAcknowledge : ty := TStruct [
  ("ProtocolIEs", gp8, G_ProtocolIEContainerRANConfigurationUpdateAcknowledgeIEs)].
Definition G_UEContextModificationResponseIEsValue : ty := TStruct [
  ("Present", gp8, TInt);
  ("AMFUENGAPID", gp37, (TPtr G_AMFUENGAPID));
  ("RANUENGAPID", gp38, (TPtr G_RANUENGAPID));
  ("RRCState", gp176, (TPtr G_RRCState));
  ("UserLocationInformation", gp102, (TPtr G_UserLocationInformation));
  ("CriticalityDiagnostics", gp146, (TPtr G_CriticalityDiagnostics))].
Definition G_UEContextModificationResponseIEs : ty := TStruct [
  ("Id", gp8, G_ProtocolIEID);
  ("Criticality", gp8, G_Criticality);
  ("Value", gp9, G_UEContextModificationResponseIEsValue)].
Definition G_ProtocolIEContainerUEContextModificationResponseIEs : ty := TStruct [
  ("List", gp29, (TSlice G_UEContextModificationResponseIEs))].
Definition G_UEContextModificationResponse : ty := TStruct [
  ("ProtocolIEs", gp8, G_ProtocolIEContainerUEContextModificationResponseIEs)].
Definition G_ProtocolIESingleContainerAMFPagingTargetExtIEs : ty := TStruct [].
Definition G_AMFPagingTarget : ty := TStruct [
  ("Present", gp8, TInt);
  ("GlobalRANNodeID", gp44, (TPtr G_GlobalRANNodeID));
  ("TAI", gp12, (TPtr G_TAI));
  ("ChoiceExtensions", gp8, (TPtr G_ProtocolIESingleContainerAMFPagingTargetExtIEs))].
Definition G_RecommendedRANNodeItemExtIEsExtensionValue : ty := TStruct [
  ("Present", gp8, TInt)].
Definition G_RecommendedRANNodeItemExtIEs : ty := TStruct [
  ("Id", gp8, G_ProtocolExtensionID);
  ("Criticality", gp8, G_Criticality);
  ("ExtensionValue", gp9, G_RecommendedRANNodeItemExtIEsExtensionValue)].
Definition G_ProtocolExtensionContainerRecommendedRANNodeItemExtIEs : ty := TStruct [
  ("List", gp10, (TSlice G_RecommendedRANNodeItemExtIEs))].
Definition G_RecommendedRANNodeItem : ty := TStruct [
  ("AMFPagingTarget", gp1, G_AMFPagingTarget);
  ("IEExtensions", gp11, (TPtr G_ProtocolExtensionContainerRecommendedRANNodeItemExtIEs))].
Definition G_RecommendedRANNodeList : ty := TStruct [
  ("List", gp54, (TSlice G_RecommendedRANNodeItem))].
Definition G_RecommendedRANNodesForPagingExtIEsExtensionValue : ty := TStruct [
  ("Present", gp8, TInt)].
Definition G_RecommendedRANNodesForPagingExtIEs : ty := TStruct [
  ("Id", gp8, G_ProtocolExtensionID);
  ("Criticality", gp8, G_Criticality);
  ("ExtensionValue", gp9, G_RecommendedRANNodesForPagingExtIEsExtensionValue)].
Definition G_ProtocolExtensionContainerRecommendedRANNodesForPagingExtIEs : ty := TStruct [
  ("List", gp10, (TSlice G_RecommendedRANNodesForPagingExtIEs))].
Definition G_RecommendedRANNodesForPaging : ty := TStruct [
  ("RecommendedRANNodeList", gp8, G_RecommendedRANNodeList);
  ("IEExtensions", gp11, (TPtr G_ProtocolExtensionContainerRecommendedRANNodesForPagingExtIEs))].
Definition G_InfoOnRecommendedCellsAndRANNodesForPagingExtIEsExtensionValue : ty := TStruct [
  ("Present", gp8, TInt)].
Definition G_InfoOnRecommendedCellsAndRANNodesForPagingExtIEs : ty := TStruct [
  ("Id", gp8, G_ProtocolExtensionID);
  ("Criticality", gp8, G_Criticality);
  ("ExtensionValue", gp9, G_InfoOnRecommendedCellsAndRANNodesForPagingExtIEsExtensionValue)].
Definition G_ProtocolExtensionContainerInfoOnRecommendedCellsAndRANNodesForPagingExtIEs : ty := TStruct [
  ("List", gp10, (TSlice G_InfoOnRecommendedCellsAndRANNodesForPagingExtIEs))].
Definition G_InfoOnRecommendedCellsAndRANNodesForPaging : ty := TStruct [
  ("RecommendedCellsForPaging", gp12, G_RecommendedCellsForPaging);
  ("RecommendRANNodesForPaging", gp12, G_RecommendedRANNodesForPaging);
  ("IEExtensions", gp11, (TPtr G_ProtocolExtensionContainerInfoOnRecommendedCellsAndRANNodesForPagingExtIEs))].
Definition G_PDUSessionResourceItemCxtRelCplExtIEsExtensionValue : ty := TStruct [
  ("Present", gp8, TInt)].
Definition G_PDUSessionResourceItemCxtRelCplExtIEs : ty := TStruct [
  ("Id", gp8, G_ProtocolExtensionID);
  ("Criticality", gp8, G_Criticality);
  ("ExtensionValue", gp9, G_PDUSessionResourceItemCxtRelCplExtIEsExtensionValue)].
Definition G_ProtocolExtensionContainerPDUSessionResourceItemCxtRelCplExtIEs : ty := TStruct [
  ("List", gp10, (TSlice G_PDUSessionResourceItemCxtRelCplExtIEs))].
Definition G_PDUSessionResourceItemCxtRelCpl : ty := TStruct [
  ("PDUSessionID", gp8, G_PDUSessionID);
  ("IEExtensions", gp11, (TPtr G_ProtocolExtensionContainerPDUSessionResourceItemCxtRelCplExtIEs))].
Definition G_PDUSessionResourceListCxtRelCpl : ty := TStruct [
  ("List", gp14, (TSlice G_PDUSessionResourceItemCxtRelCpl))].
Definition G_UEContextReleaseCompleteIEsValue : ty := TStruct [
  ("Present", gp8, TInt);
  ("AMFUENGAPID", gp37, (TPtr G_AMFUENGAPID));
  ("RANUENGAPID", gp38, (TPtr G_RANUENGAPID));
  ("UserLocationInformation", gp102, (TPtr G_UserLocationInformation));
  ("InfoOnRecommendedCellsAndRANNodesForPaging", gp189, (TPtr G_InfoOnRecommendedCellsAndRANNodesForPaging));
  ("PDUSessionResourceListCxtRelCpl", gp246, (TPtr G_PDUSessionResourceListCxtRelCpl));
  ("CriticalityDiagnostics", gp146, (TPtr G_CriticalityDiagnostics))].
Definition G_UEContextReleaseCompleteIEs : ty := TStruct [
  ("Id", gp8, G_ProtocolIEID);
  ("Criticality", gp8, G_Criticality);
  ("Value", gp9, G_UEContextReleaseCompleteIEsValue)].
Definition G_ProtocolIEContainerUEContextReleaseCompleteIEs : ty := TStruct [
  ("List", gp29, (TSlice G_UEContextReleaseCompleteIEs))].
Definition G_UEContextReleaseComplete : ty := TStruct [
  ("ProtocolIEs", gp8, G_ProtocolIEContainerUEContextReleaseCompleteIEs)].
Definition G_IMSVoiceSupportIndicator : ty := TStruct [
  ("Value", gp33, TEnum)].
Definition G_UERadioCapabilityCheckResponseIEsValue : ty := TStruct [
  ("Present", gp8, TInt);
  ("AMFUENGAPID", gp37, (TPtr G_AMFUENGAPID));
  ("RANUENGAPID", gp38, (TPtr G_RANUENGAPID));
  ("IMSVoiceSupportIndicator", gp247, (TPtr G_IMSVoiceSupportIndicator));
  ("CriticalityDiagnostics", gp146, (TPtr G_CriticalityDiagnostics))].
Definition G_UERadioCapabilityCheckResponseIEs : ty := TStruct [
  ("Id", gp8, G_ProtocolIEID);
  ("Criticality", gp8, G_Criticality);
  ("Value", gp9, G_UERadioCapabilityCheckResponseIEsValue)].
Definition G_ProtocolIEContainerUERadioCapabilityCheckResponseIEs : ty := TStruct [
  ("List", gp29, (TSlice G_UERadioCapabilityCheckResponseIEs))].
Definition G_UERadioCapabilityCheckResponse : ty := TStruct [
  ("ProtocolIEs", gp8, G_ProtocolIEContainerUERadioCapabilityCheckResponseIEs)].
Definition G_CellIDBroadcastEUTRAItemExtIEsExtensionValue : ty := TStruct [
  ("Present", gp8, TInt)].
Definition G_CellIDBroadcastEUTRAItemExtIEs : ty := TStruct [
  ("Id", gp8, G_ProtocolExtensionID);
  ("Criticality", gp8, G_Criticality);
  ("ExtensionValue", gp9, G_CellIDBroadcastEUTRAItemExtIEsExtensionValue)].
Definition G_ProtocolExtensionContainerCellIDBroadcastEUTRAItemExtIEs : ty := TStruct [
  ("List", gp10, (TSlice G_CellIDBroadcastEUTRAItemExtIEs))].
Definition G_CellIDBroadcastEUTRAItem : ty := TStruct [
  ("EUTRACGI", gp12, G_EUTRACGI);
  ("IEExtensions", gp11, (TPtr G_ProtocolExtensionContainerCellIDBroadcastEUTRAItemExtIEs))].
Definition G_CellIDBroadcastEUTRA : ty := TStruct [
  ("List", gp111, (TSlice G_CellIDBroadcastEUTRAItem))].
Definition G_CompletedCellsInTAIEUTRAItemExtIEsExtensionValue : ty := TStruct [
  ("Present", gp8, TInt)].
Definition G_CompletedCellsInTAIEUTRAItemExtIEs : ty := TStruct [
  ("Id", gp8, G_ProtocolExtensionID);
  ("Criticality", gp8, G_Criticality);
  ("ExtensionValue", gp9, G_CompletedCellsInTAIEUTRAItemExtIEsExtensionValue)].
Definition G_ProtocolExtensionContainerCompletedCellsInTAIEUTRAItemExtIEs : ty := TStruct [
  ("List", gp10, (TSlice G_CompletedCellsInTAIEUTRAItemExtIEs))].
Definition G_CompletedCellsInTAIEUTRAItem : ty := TStruct [
  ("EUTRACGI", gp12, G_EUTRACGI);
  ("IEExtensions", gp11, (TPtr G_ProtocolExtensionContainerCompletedCellsInTAIEUTRAItemExtIEs))].
Definition G_CompletedCellsInTAIEUTRA : ty := TStruct [
  ("List", gp111, (TSlice G_CompletedCellsInTAIEUTRAItem))].
Definition G_TAIBroadcastEUTRAItemExtIEsExtensionValue : ty := TStruct [
  ("Present", gp8, TInt)].
Definition G_TAIBroadcastEUTRAItemExtIEs : ty := TStruct [
  ("Id", gp8, G_ProtocolExtensionID);
  ("Criticality", gp8, G_Criticality);
  ("ExtensionValue", gp9, G_TAIBroadcastEUTRAItemExtIEsExtensionValue)].
Definition G_ProtocolExtensionContainerTAIBroadcastEUTRAItemExtIEs : ty := TStruct [
  ("List", gp10, (TSlice G_TAIBroadcastEUTRAItemExtIEs))].
Definition G_TAIBroadcastEUTRAItem : ty := TStruct [
  ("TAI", gp12, G_TAI);
  ("CompletedCellsInTAIEUTRA", gp8, G_CompletedCellsInTAIEUTRA);
  ("IEExtensions", gp11, (TPtr G_ProtocolExtensionContainerTAIBroadcastEUTRAItemExtIEs))].
Definition G_TAIBroadcastEUTRA : ty := TStruct [
  ("List", gp111, (TSlice G_TAIBroadcastEUTRAItem))].
Definition G_CompletedCellsInEAIEUTRAItemExtIEsExtensionValue : ty := TStruct [
  ("Present", gp8, TInt)].
Definition G_CompletedCellsInEAIEUTRAItemExtIEs : ty := TStruct [
  ("Id", gp8, G_ProtocolExtensionID);
  ("Criticality", gp8, G_Criticality);
  ("ExtensionValue", gp9, G_CompletedCellsInEAIEUTRAItemExtIEsExtensionValue)].
Definition G_ProtocolExtensionContainerCompletedCellsInEAIEUTRAItemExtIEs : ty := TStruct [
  ("List", gp10, (TSlice G_CompletedCellsInEAIEUTRAItemExtIEs))].
Definition G_CompletedCellsInEAIEUTRAItem : ty := TStruct [
  ("EUTRACGI", gp12, G_EUTRACGI);
  ("IEExtensions", gp11, (TPtr G_ProtocolExtensionContainerCompletedCellsInEAIEUTRAItemExtIEs))].
Definition G_CompletedCellsInEAIEUTRA : ty := TStruct [
  ("List", gp111, (TSlice G_CompletedCellsInEAIEUTRAItem))].
Definition G_EmergencyAreaIDBroadcastEUTRAItemExtIEsExtensionValue : ty := TStruct [
  ("Present", gp8, TInt)].
Definition G_EmergencyAreaIDBroadcastEUTRAItemExtIEs : ty := TStruct [
  ("Id", gp8, G_ProtocolExtensionID);
  ("Criticality", gp8, G_Criticality);
  ("ExtensionValue", gp9, G_EmergencyAreaIDBroadcastEUTRAItemExtIEsExtensionValue)].
Definition G_ProtocolExtensionContainerEmergencyAreaIDBroadcastEUTRAItemExtIEs : ty := TStruct [
  ("List", gp10, (TSlice G_EmergencyAreaIDBroadcastEUTRAItemExtIEs))].
Definition G_EmergencyAreaIDBroadcastEUTRAItem : ty := TStruct [
  ("EmergencyAreaID", gp8, G_EmergencyAreaID);
  ("CompletedCellsInEAIEUTRA", gp8, G_CompletedCellsInEAIEUTRA);
  ("IEExtensions", gp11, (TPtr G_ProtocolExtensionContainerEmergencyAreaIDBroadcastEUTRAItemExtIEs))].
Definition G_EmergencyAreaIDBroadcastEUTRA : ty := TStruct [
  ("List", gp111, (TSlice G_EmergencyAreaIDBroadcastEUTRAItem))].
Definition G_CellIDBroadcastNRItemExtIEsExtensionValue : ty := TStruct [
  ("Present", gp8, TInt)].
Definition G_CellIDBroadcastNRItemExtIEs : ty := TStruct [
  ("Id", gp8, G_ProtocolExtensionID);
  ("Criticality", gp8, G_Criticality);
  ("ExtensionValue", gp9, G_CellIDBroadcastNRItemExtIEsExtensionValue)].
Definition G_ProtocolExtensionContainerCellIDBroadcastNRItemExtIEs : ty := TStruct [
  ("List", gp10, (TSlice G_CellIDBroadcastNRItemExtIEs))].
Definition G_CellIDBroadcastNRItem : ty := TStruct [
  ("NRCGI", gp12, G_NRCGI);
  ("IEExtensions", gp11, (TPtr G_ProtocolExtensionContainerCellIDBroadcastNRItemExtIEs))].
Definition G_CellIDBroadcastNR : ty := TStruct [
  ("List", gp111, (TSlice G_CellIDBroadcastNRItem))].
Definition G_CompletedCellsInTAINRItemExtIEsExtensionValue : ty := TStruct [
  ("Present", gp8, TInt)].
Definition G_CompletedCellsInTAINRItemExtIEs : ty := TStruct [
  ("Id", gp8, G_ProtocolExtensionID);
  ("Criticality", gp8, G_Criticality);
  ("ExtensionValue", gp9, G_CompletedCellsInTAINRItemExtIEsExtensionValue)].
Definition G_ProtocolExtensionContainerCompletedCellsInTAINRItemExtIEs : ty := TStruct [
  ("List", gp10, (TSlice G_CompletedCellsInTAINRItemExtIEs))].
Definition G_CompletedCellsInTAINRItem : ty := TStruct [
  ("NRCGI", gp12, G_NRCGI);
  ("IEExtensions", gp11, (TPtr G_ProtocolExtensionContainerCompletedCellsInTAINRItemExtIEs))].
Definition G_CompletedCellsInTAINR : ty := TStruct [
  ("List", gp111, (TSlice G_CompletedCellsInTAINRItem))].
Definition G_TAIBroadcastNRItemExtIEsExtensionValue : ty := TStruct [
  ("Present", gp8, TInt)].
Definition G_TAIBroadcastNRItemExtIEs : ty := TStruct [
  ("Id", gp8, G_ProtocolExtensionID);
  ("Criticality", gp8, G_Criticality);
  ("ExtensionValue", gp9, G_TAIBroadcastNRItemExtIEsExtensionValue)].
Definition G_ProtocolExtensionContainerTAIBroadcastNRItemExtIEs : ty := TStruct [
  ("List", gp10, (TSlice G_TAIBroadcastNRItemExtIEs))].
Definition G_TAIBroadcastNRItem : ty := TStruct [
  ("TAI", gp12, G_TAI);
  ("CompletedCellsInTAINR", gp8, G_CompletedCellsInTAINR);
  ("IEExtensions", gp11, (TPtr G_ProtocolExtensionContainerTAIBroadcastNRItemExtIEs))].
Definition G_TAIBroadcastNR : ty := TStruct [
  ("List", gp111, (TSlice G_TAIBroadcastNRItem))].
Definition G_CompletedCellsInEAINRItemExtIEsExtensionValue : ty := TStruct [
  ("Present", gp8, TInt)].
Definition G_CompletedCellsInEAINRItemExtIEs : ty := TStruct [
  ("Id", gp8, G_ProtocolExtensionID);
  ("Criticality", gp8, G_Criticality);
  ("ExtensionValue", gp9, G_CompletedCellsInEAINRItemExtIEsExtensionValue)].
Definition G_ProtocolExtensionContainerCompletedCellsInEAINRItemExtIEs : ty := TStruct [
  ("List", gp10, (TSlice G_CompletedCellsInEAINRItemExtIEs))].
Definition G_CompletedCellsInEAINRItem : ty := TStruct [
  ("NRCGI", gp12, G_NRCGI);
  ("IEExtensions", gp11, (TPtr G_ProtocolExtensionContainerCompletedCellsInEAINRItemExtIEs))].
Definition G_CompletedCellsInEAINR : ty := TStruct [
  ("List", gp111, (TSlice G_CompletedCellsInEAINRItem))].
Definition G_EmergencyAreaIDBroadcastNRItemExtIEsExtensionValue : ty := TStruct [
  ("Present", gp8, TInt)].
Definition G_EmergencyAreaIDBroadcastNRItemExtIEs : ty := TStruct [
  ("Id", gp8, G_ProtocolExtensionID);
  ("Criticality", gp8, G_Criticality);
  ("ExtensionValue", gp9, G_EmergencyAreaIDBroadcastNRItemExtIEsExtensionValue)].
Definition G_ProtocolExtensionContainerEmergencyAreaIDBroadcastNRItemExtIEs : ty := TStruct [
  ("List", gp10, (TSlice G_EmergencyAreaIDBroadcastNRItemExtIEs))].
Definition G_EmergencyAreaIDBroadcastNRItem : ty := TStruct [
  ("EmergencyAreaID", gp8, G_EmergencyAreaID);
  ("CompletedCellsInEAINR", gp8, G_CompletedCellsInEAINR);
  ("IEExtensions", gp11, (TPtr G_ProtocolExtensionContainerEmergencyAreaIDBroadcastNRItemExtIEs))].
Definition G_EmergencyAreaIDBroadcastNR : ty := TStruct [
  ("List", gp111, (TSlice G_EmergencyAreaIDBroadcastNRItem))].
Definition G_ProtocolIESingleContainerBroadcastCompletedAreaListExtIEs : ty := TStruct [].
Definition G_BroadcastCompletedAreaList : ty := TStruct [
  ("Present", gp8, TInt);
  ("CellIDBroadcastEUTRA", gp8, (TPtr G_CellIDBroadcastEUTRA));
  ("TAIBroadcastEUTRA", gp8, (TPtr G_TAIBroadcastEUTRA));
  ("EmergencyAreaIDBroadcastEUTRA", gp8, (TPtr G_EmergencyAreaIDBroadcastEUTRA));
  ("CellIDBroadcastNR", gp8, (TPtr G_CellIDBroadcastNR));
  ("TAIBroadcastNR", gp8, (TPtr G_TAIBroadcastNR));
  ("EmergencyAreaIDBroadcastNR", gp8, (TPtr G_EmergencyAreaIDBroadcastNR));
  ("ChoiceExtensions", gp8, (TPtr G_ProtocolIESingleContainerBroadcastCompletedAreaListExtIEs))].
Definition G_WriteReplaceWarningResponseIEsValue : ty := TStruct [
  ("Present", gp8, TInt);
  ("MessageIdentifier", gp112, (TPtr G_MessageIdentifier));
  ("SerialNumber", gp113, (TPtr G_SerialNumber));
  ("BroadcastCompletedAreaList", gp248, (TPtr G_BroadcastCompletedAreaList));
  ("CriticalityDiagnostics", gp146, (TPtr G_CriticalityDiagnostics))].
Definition G_WriteReplaceWarningResponseIEs : ty := TStruct [
  ("Id", gp8, G_ProtocolIEID);
  ("Criticality", gp8, G_Criticality);
  ("Value", gp9, G_WriteReplaceWarningResponseIEsValue)].
Definition G_ProtocolIEContainerWriteReplaceWarningResponseIEs : ty := TStruct [
  ("List", gp29, (TSlice G_WriteReplaceWarningResponseIEs))].
Definition G_WriteReplaceWarningResponse : ty := TStruct [
  ("ProtocolIEs", gp8, G_ProtocolIEContainerWriteReplaceWarningResponseIEs)].
Definition G_SuccessfulOutcomeValue : ty := TStruct [
  ("Present", gp8, TInt);
  ("AMFConfigurationUpdateAcknowledge", gp179, (TPtr G_AMFConfigurationUpdateAcknowledge));
  ("HandoverCancelAcknowledge", gp180, (TPtr G_HandoverCancelAcknowledge));
  ("HandoverCommand", gp181, (TPtr G_HandoverCommand));
  ("HandoverRequestAcknowledge", gp182, (TPtr G_HandoverRequestAcknowledge));
  ("InitialContextSetupResponse", gp183, (TPtr G_InitialContextSetupResponse));
  ("NGResetAcknowledge", gp184, (TPtr G_NGResetAcknowledge));
  ("NGSetupResponse", gp185, (TPtr G_NGSetupResponse));
  ("PathSwitchRequestAcknowledge", gp186, (TPtr G_PathSwitchRequestAcknowledge));
  ("PDUSessionResourceModifyResponse", gp149, (TPtr G_PDUSessionResourceModifyResponse));
  ("PDUSessionResourceModifyConfirm", gp187, (TPtr G_PDUSessionResourceModifyConfirm));
  ("PDUSessionResourceReleaseResponse", gp84, (TPtr G_PDUSessionResourceReleaseResponse));
  ("PDUSessionResourceSetupResponse", gp188, (TPtr G_PDUSessionResourceSetupResponse));
  ("PWSCancelResponse", gp189, (TPtr G_PWSCancelResponse));
  ("RANConfigurationUpdateAcknowledge", gp190, (TPtr G_RANConfigurationUpdateAcknowledge));
  ("UEContextModificationResponse", gp191, (TPtr G_UEContextModificationResponse));
  ("UEContextReleaseComplete", gp192, (TPtr G_UEContextReleaseComplete));
  ("UERadioCapabilityCheckResponse", gp193, (TPtr G_UERadioCapabilityCheckResponse));
  ("WriteReplaceWarningResponse", gp194, (TPtr G_WriteReplaceWarningResponse))].
Definition G_SuccessfulOutcome : ty := TStruct [
  ("ProcedureCode", gp8, G_ProcedureCode);
  ("Criticality", gp8, G_Criticality);
  ("Value", gp223, G_SuccessfulOutcomeValue)].
Definition G_TimeToWait : ty := TStruct [
  ("Value", gp36, TEnum)].
Definition G_AMFConfigurationUpdateFailureIEsValue : ty := TStruct [
  ("Present", gp8, TInt);
  ("Cause", gp39, (TPtr G_Cause));
  ("TimeToWait", gp249, (TPtr G_TimeToWait));
  ("CriticalityDiagnostics", gp146, (TPtr G_CriticalityDiagnostics))].
Definition G_AMFConfigurationUpdateFailureIEs : ty := TStruct [
  ("Id", gp8, G_ProtocolIEID);
  ("Criticality", gp8, G_Criticality);
  ("Value", gp9, G_AMFConfigurationUpdateFailureIEsValue)].
Definition G_ProtocolIEContainerAMFConfigurationUpdateFailureIEs : ty := TStruct [
  ("List", gp29, (TSlice G_AMFConfigurationUpdateFailureIEs))].
Definition G_AMFConfigurationUpdateFailure : ty := TStruct [
  ("ProtocolIEs", gp8, G_ProtocolIEContainerAMFConfigurationUpdateFailureIEs)].
Definition G_HandoverPreparationFailureIEsValue : ty := TStruct [
  ("Present", gp8, TInt);
  ("AMFUENGAPID", gp37, (TPtr G_AMFUENGAPID));
  ("RANUENGAPID", gp38, (TPtr G_RANUENGAPID));
  ("Cause", gp39, (TPtr G_Cause));
  ("CriticalityDiagnostics", gp146, (TPtr G_CriticalityDiagnostics))].
Definition G_HandoverPreparationFailureIEs : ty := TStruct [
  ("Id", gp8, G_ProtocolIEID);
  ("Criticality", gp8, G_Criticality);
  ("Value", gp9, G_HandoverPreparationFailureIEsValue)].
Definition G_ProtocolIEContainerHandoverPreparationFailureIEs : ty := TStruct [
  ("List", gp29, (TSlice G_HandoverPreparationFailureIEs))].
Definition G_HandoverPreparationFailure : ty := TStruct [
  ("ProtocolIEs", gp8, G_ProtocolIEContainerHandoverPreparationFailureIEs)].
Definition G_HandoverFailureIEsValue : ty := TStruct [
  ("Present", gp8, TInt);
  ("AMFUENGAPID", gp37, (TPtr G_AMFUENGAPID));
  ("Cause", gp39, (TPtr G_Cause));
  ("CriticalityDiagnostics", gp146, (TPtr G_CriticalityDiagnostics))].
Definition G_HandoverFailureIEs : ty := TStruct [
  ("Id", gp8, G_ProtocolIEID);
  ("Criticality", gp8, G_Criticality);
  ("Value", gp9, G_HandoverFailureIEsValue)].
Definition G_ProtocolIEContainerHandoverFailureIEs : ty := TStruct [
  ("List", gp29, (TSlice G_HandoverFailureIEs))].
Definition G_HandoverFailure : ty := TStruct [
  ("ProtocolIEs", gp8, G_ProtocolIEContainerHandoverFailureIEs)].
Definition G_PDUSessionResourceFailedToSetupItemCxtFailExtIEsExtensionValue : ty := TStruct [
  ("Present", gp8, TInt)].
Definition G_PDUSessionResourceFailedToSetupItemCxtFailExtIEs : ty := TStruct [
  ("Id", gp8, G_ProtocolExtensionID);
  ("Criticality", gp8, G_Criticality);
  ("ExtensionValue", gp9, G_PDUSessionResourceFailedToSetupItemCxtFailExtIEsExtensionValue)].
Definition G_ProtocolExtensionContainerPDUSessionResourceFailedToSetupItemCxtFailExtIEs : ty := TStruct [
  ("List", gp10, (TSlice G_PDUSessionResourceFailedToSetupItemCxtFailExtIEs))].
Definition G_PDUSessionResourceFailedToSetupItemCxtFail : ty := TStruct [
  ("PDUSessionID", gp8, G_PDUSessionID);
  ("PDUSessionResourceSetupUnsuccessfulTransfer", gp8, TOctets);
  ("IEExtensions", gp11, (TPtr G_ProtocolExtensionContainerPDUSessionResourceFailedToSetupItemCxtFailExtIEs))].
Definition G_PDUSessionResourceFailedToSetupListCxtFail : ty := TStruct [
  ("List", gp14, (TSlice G_PDUSessionResourceFailedToSetupItemCxtFail))].
Definition G_InitialContextSetupFailureIEsValue : ty := TStruct [
  ("Present", gp8, TInt);
  ("AMFUENGAPID", gp37, (TPtr G_AMFUENGAPID));
  ("RANUENGAPID", gp38, (TPtr G_RANUENGAPID));
  ("PDUSessionResourceFailedToSetupListCxtFail", gp250, (TPtr G_PDUSessionResourceFailedToSetupListCxtFail));
  ("Cause", gp39, (TPtr G_Cause));
  ("CriticalityDiagnostics", gp146, (TPtr G_CriticalityDiagnostics))].
Definition G_InitialContextSetupFailureIEs : ty := TStruct [
  ("Id", gp8, G_ProtocolIEID);
  ("Criticality", gp8, G_Criticality);
  ("Value", gp9, G_InitialContextSetupFailureIEsValue)].
Definition G_ProtocolIEContainerInitialContextSetupFailureIEs : ty := TStruct [
  ("List", gp29, (TSlice G_InitialContextSetupFailureIEs))].
Definition G_InitialContextSetupFailure : ty := TStruct [
  ("ProtocolIEs", gp8, G_ProtocolIEContainerInitialContextSetupFailureIEs)].
Definition G_NGSetupFailureIEsValue : ty := TStruct [
  ("Present", gp8, TInt);
  ("Cause", gp39, (TPtr G_Cause));
  ("TimeToWait", gp249, (TPtr G_TimeToWait));
  ("CriticalityDiagnostics", gp146, (TPtr G_CriticalityDiagnostics))].
Definition G_NGSetupFailureIEs : ty := TStruct [
  ("Id", gp8, G_ProtocolIEID);
  ("Criticality", gp8, G_Criticality);
  ("Value", gp9, G_NGSetupFailureIEsValue)].
Definition G_ProtocolIEContainerNGSetupFailureIEs : ty := TStruct [
  ("List", gp29, (TSlice G_NGSetupFailureIEs))].
Definition G_NGSetupFailure : ty := TStruct [
  ("ProtocolIEs", gp8, G_ProtocolIEContainerNGSetupFailureIEs)].
Definition G_PDUSessionResourceReleasedItemPSFailExtIEsExtensionValue : ty := TStruct [
  ("Present", gp8, TInt)].
Definition G_PDUSessionResourceReleasedItemPSFailExtIEs : ty := TStruct [
  ("Id", gp8, G_ProtocolExtensionID);
  ("Criticality", gp8, G_Criticality);
  ("ExtensionValue", gp9, G_PDUSessionResourceReleasedItemPSFailExtIEsExtensionValue)].
Definition G_ProtocolExtensionContainerPDUSessionResourceReleasedItemPSFailExtIEs : ty := TStruct [
  ("List", gp10, (TSlice G_PDUSessionResourceReleasedItemPSFailExtIEs))].
Definition G_PDUSessionResourceReleasedItemPSFail : ty := TStruct [
  ("PDUSessionID", gp8, G_PDUSessionID);
  ("PathSwitchRequestUnsuccessfulTransfer", gp8, TOctets);
  ("IEExtensions", gp11, (TPtr G_ProtocolExtensionContainerPDUSessionResourceReleasedItemPSFailExtIEs))].
Definition G_PDUSessionResourceReleasedListPSFail : ty := TStruct [
  ("List", gp14, (TSlice G_PDUSessionResourceReleasedItemPSFail))].
Definition G_PathSwitchRequestFailureIEsValue : ty := TStruct [
  ("Present", gp8, TInt);
  ("AMFUENGAPID", gp37, (TPtr G_AMFUENGAPID));
  ("RANUENGAPID", gp38, (TPtr G_RANUENGAPID));
  ("PDUSessionResourceReleasedListPSFail", gp251, (TPtr G_PDUSessionResourceReleasedListPSFail));
  ("CriticalityDiagnostics", gp146, (TPtr G_CriticalityDiagnostics))].
Definition G_PathSwitchRequestFailureIEs : ty := TStruct [
  ("Id", gp8, G_ProtocolIEID);
  ("Criticality", gp8, G_Criticality);
  ("Value", gp9, G_PathSwitchRequestFailureIEsValue)].
Definition G_ProtocolIEContainerPathSwitchRequestFailureIEs : ty := TStruct [
  ("List", gp29, (TSlice G_PathSwitchRequestFailureIEs))].
Definition G_PathSwitchRequestFailure : ty := TStruct [
  ("ProtocolIEs", gp8, G_ProtocolIEContainerPathSwitchRequestFailureIEs)].
Definition G_RANConfigurationUpdateFailureIEsValue : ty := TStruct [
  ("Present", gp8, TInt);
  ("Cause", gp39, (TPtr G_Cause));
  ("TimeToWait", gp249, (TPtr G_TimeToWait));
  ("CriticalityDiagnostics", gp146, (TPtr G_CriticalityDiagnostics))].
Definition G_RANConfigurationUpdateFailureIEs : ty := TStruct [
  ("Id", gp8, G_ProtocolIEID);
  ("Criticality", gp8, G_Criticality);
  ("Value", gp9, G_RANConfigurationUpdateFailureIEsValue)].
Definition G_ProtocolIEContainerRANConfigurationUpdateFailureIEs : ty := TStruct [
  ("List", gp29, (TSlice G_RANConfigurationUpdateFailureIEs))].
Definition G_RANConfigurationUpdateFailure : ty := TStruct [
  ("ProtocolIEs", gp8, G_ProtocolIEContainerRANConfigurationUpdateFailureIEs)].
Definition G_UEContextModificationFailureIEsValue : ty := TStruct [
  ("Present", gp8, TInt);
  ("AMFUENGAPID", gp37, (TPtr G_AMFUENGAPID));
  ("RANUENGAPID", gp38, (TPtr G_RANUENGAPID));
  ("Cause", gp39, (TPtr G_Cause));
  ("CriticalityDiagnostics", gp146, (TPtr G_CriticalityDiagnostics))].
Definition G_UEContextModificationFailureIEs : ty := TStruct [
  ("Id", gp8, G_ProtocolIEID);
  ("Criticality", gp8, G_Criticality);
  ("Value", gp9, G_UEContextModificationFailureIEsValue)].
Definition G_ProtocolIEContainerUEContextModificationFailureIEs : ty := TStruct [
  ("List", gp29, (TSlice G_UEContextModificationFailureIEs))].
Definition G_UEContextModificationFailure : ty := TStruct [
  ("ProtocolIEs", gp8, G_ProtocolIEContainerUEContextModificationFailureIEs)].
Definition G_UnsuccessfulOutcomeValue : ty := TStruct [
  ("Present", gp8, TInt);
  ("AMFConfigurationUpdateFailure", gp179, (TPtr G_AMFConfigurationUpdateFailure));
  ("HandoverPreparationFailure", gp181, (TPtr G_HandoverPreparationFailure));
  ("HandoverFailure", gp182, (TPtr G_HandoverFailure));
  ("InitialContextSetupFailure", gp183, (TPtr G_InitialContextSetupFailure));
  ("NGSetupFailure", gp185, (TPtr G_NGSetupFailure));
  ("PathSwitchRequestFailure", gp186, (TPtr G_PathSwitchRequestFailure));
  ("RANConfigurationUpdateFailure", gp190, (TPtr G_RANConfigurationUpdateFailure));
  ("UEContextModificationFailure", gp191, (TPtr G_UEContextModificationFailure))].
Definition G_UnsuccessfulOutcome : ty := TStruct [
  ("ProcedureCode", gp8, G_ProcedureCode);
  ("Criticality", gp8, G_Criticality);
  ("Value", gp223, G_UnsuccessfulOutcomeValue)].
Definition G_NGAPPDU : ty := TStruct [
  ("Present", gp8, TInt);
  ("InitiatingMessage", gp8, (TPtr G_InitiatingMessage));
  ("SuccessfulOutcome", gp8, (TPtr G_SuccessfulOutcome));
  ("UnsuccessfulOutcome", gp8, (TPtr G_UnsuccessfulOutcome))].
Definition G_PDUSessionAggregateMaximumBitRateExtIEsExtensionValue : ty := TStruct [
  ("Present", gp8, TInt)].
Definition G_PDUSessionAggregateMaximumBitRateExtIEs : ty := TStruct [
  ("Id", gp8, G_ProtocolExtensionID);
  ("Criticality", gp8, G_Criticality);
  ("ExtensionValue", gp9, G_PDUSessionAggregateMaximumBitRateExtIEsExtensionValue)].
Definition G_ProtocolExtensionContainerPDUSessionAggregateMaximumBitRateExtIEs : ty := TStruct [
  ("List", gp10, (TSlice G_PDUSessionAggregateMaximumBitRateExtIEs))].
Definition G_PDUSessionAggregateMaximumBitRate : ty := TStruct [
  ("PDUSessionAggregateMaximumBitRateDL", gp8, G_BitRate);
  ("PDUSessionAggregateMaximumBitRateUL", gp8, G_BitRate);
  ("IEExtensions", gp11, (TPtr G_ProtocolExtensionContainerPDUSessionAggregateMaximumBitRateExtIEs))].
Definition G_GTPTEID : ty := TStruct [
  ("Value", gp100, TOctets)].
Definition G_GTPTunnelExtIEsExtensionValue : ty := TStruct [
  ("Present", gp8, TInt)].
Definition G_GTPTunnelExtIEs : ty := TStruct [
  ("Id", gp8, G_ProtocolExtensionID);
  ("Criticality", gp8, G_Criticality);
  ("ExtensionValue", gp9, G_GTPTunnelExtIEsExtensionValue)].
Definition G_ProtocolExtensionContainerGTPTunnelExtIEs : ty := TStruct [
  ("List", gp10, (TSlice G_GTPTunnelExtIEs))].
Definition G_GTPTunnel : ty := TStruct [
  ("TransportLayerAddress", gp8, G_TransportLayerAddress);
  ("GTPTEID", gp8, G_GTPTEID);
  ("IEExtensions", gp11, (TPtr G_ProtocolExtensionContainerGTPTunnelExtIEs))].
Definition G_ProtocolIESingleContainerUPTransportLayerInformationExtIEs : ty := TStruct [].
Definition G_UPTransportLayerInformation : ty := TStruct [
  ("Present", gp8, TInt);
  ("GTPTunnel", gp12, (TPtr G_GTPTunnel));
  ("ChoiceExtensions", gp8, (TPtr G_ProtocolIESingleContainerUPTransportLayerInformationExtIEs))].
Definition G_DataForwardingNotPossible : ty := TStruct [
  ("Value", gp47, TEnum)].
Definition G_PDUSessionType : ty := TStruct [
  ("Value", gp252, TEnum)].
Definition G_IntegrityProtectionIndication : ty := TStruct [
  ("Value", gp19, TEnum)].
Definition G_ConfidentialityProtectionIndication : ty := TStruct [
  ("Value", gp19, TEnum)].
Definition G_MaximumIntegrityProtectedDataRate : ty := TStruct [
  ("Value", gp33, TEnum)].
Definition G_SecurityIndicationExtIEsExtensionValue : ty := TStruct [
  ("Present", gp8, TInt)].
Definition G_SecurityIndicationExtIEs : ty := TStruct [
  ("Id", gp8, G_ProtocolExtensionID);
  ("Criticality", gp8, G_Criticality);
  ("ExtensionValue", gp9, G_SecurityIndicationExtIEsExtensionValue)].
Definition G_ProtocolExtensionContainerSecurityIndicationExtIEs : ty := TStruct [
  ("List", gp10, (TSlice G_SecurityIndicationExtIEs))].
Definition G_SecurityIndication : ty := TStruct [
  ("IntegrityProtectionIndication", gp8, G_IntegrityProtectionIndication);
  ("ConfidentialityProtectionIndication", gp8, G_ConfidentialityProtectionIndication);
  ("MaximumIntegrityProtectedDataRate", gp11, (TPtr G_MaximumIntegrityProtectedDataRate));
  ("IEExtensions", gp11, (TPtr G_ProtocolExtensionContainerSecurityIndicationExtIEs))].
Definition G_NetworkInstance : ty := TStruct [
  ("Value", gp85, TInt)].
Definition G_QosFlowIdentifier : ty := TStruct [
  ("Value", gp253, TInt)].
Definition G_FiveQI : ty := TStruct [
  ("Value", gp254, TInt)].
Definition G_PriorityLevelQos : ty := TStruct [
  ("Value", gp255, TInt)].
Definition G_AveragingWindow : ty := TStruct [
  ("Value", gp256, TInt)].
Definition G_MaximumDataBurstVolume : ty := TStruct [
  ("Value", gp256, TInt)].
Definition G_NonDynamic5QIDescriptorExtIEsExtensionValue : ty := TStruct [
  ("Present", gp8, TInt)].
Definition G_NonDynamic5QIDescriptorExtIEs : ty := TStruct [
  ("Id", gp8, G_ProtocolExtensionID);
  ("Criticality", gp8, G_Criticality);
  ("ExtensionValue", gp9, G_NonDynamic5QIDescriptorExtIEsExtensionValue)].
Definition G_ProtocolExtensionContainerNonDynamic5QIDescriptorExtIEs : ty := TStruct [
  ("List", gp10, (TSlice G_NonDynamic5QIDescriptorExtIEs))].
Definition G_NonDynamic5QIDescriptor : ty := TStruct [
  ("FiveQI", gp8, G_FiveQI);
  ("PriorityLevelQos", gp11, (TPtr G_PriorityLevelQos));
  ("AveragingWindow", gp11, (TPtr G_AveragingWindow));
  ("MaximumDataBurstVolume", gp11, (TPtr G_MaximumDataBurstVolume));
  ("IEExtensions", gp11, (TPtr G_ProtocolExtensionContainerNonDynamic5QIDescriptorExtIEs))].
Definition G_PacketDelayBudget : ty := TStruct [
  ("Value", gp257, TInt)].
Definition G_PacketErrorRateExtIEsExtensionValue : ty := TStruct [
  ("Present", gp8, TInt)].
Definition G_PacketErrorRateExtIEs : ty := TStruct [
  ("Id", gp8, G_ProtocolExtensionID);
  ("Criticality", gp8, G_Criticality);
  ("ExtensionValue", gp9, G_PacketErrorRateExtIEsExtensionValue)].
Definition G_ProtocolExtensionContainerPacketErrorRateExtIEs : ty := TStruct [
  ("List", gp10, (TSlice G_PacketErrorRateExtIEs))].
Definition G_PacketErrorRate : ty := TStruct [
  ("PERScalar", gp147, TInt);
  ("PERExponent", gp147, TInt);
  ("IEExtensions", gp11, (TPtr G_ProtocolExtensionContainerPacketErrorRateExtIEs))].
Definition G_DelayCritical : ty := TStruct [
  ("Value", gp33, TEnum)].
Definition G_Dynamic5QIDescriptorExtIEsExtensionValue : ty := TStruct [
  ("Present", gp8, TInt)].
Definition G_Dynamic5QIDescriptorExtIEs : ty := TStruct [
  ("Id", gp8, G_ProtocolExtensionID);
  ("Criticality", gp8, G_Criticality);
  ("ExtensionValue", gp9, G_Dynamic5QIDescriptorExtIEsExtensionValue)].
Definition G_ProtocolExtensionContainerDynamic5QIDescriptorExtIEs : ty := TStruct [
  ("List", gp10, (TSlice G_Dynamic5QIDescriptorExtIEs))].
Definition G_Dynamic5QIDescriptor : ty := TStruct [
  ("PriorityLevelQos", gp8, G_PriorityLevelQos);
  ("PacketDelayBudget", gp8, G_PacketDelayBudget);
  ("PacketErrorRate", gp12, G_PacketErrorRate);
  ("FiveQI", gp11, (TPtr G_FiveQI));
  ("DelayCritical", gp11, (TPtr G_DelayCritical));
  ("AveragingWindow", gp11, (TPtr G_AveragingWindow));
  ("MaximumDataBurstVolume", gp11, (TPtr G_MaximumDataBurstVolume));
  ("IEExtensions", gp11, (TPtr G_ProtocolExtensionContainerDynamic5QIDescriptorExtIEs))].
Definition G_ProtocolIESingleContainerQosCharacteristicsExtIEs : ty := TStruct [].
Definition G_QosCharacteristics : ty := TStruct [
  ("Present", gp8, TInt);
  ("NonDynamic5QI", gp12, (TPtr G_NonDynamic5QIDescriptor));
  ("Dynamic5QI", gp12, (TPtr G_Dynamic5QIDescriptor));
  ("ChoiceExtensions", gp8, (TPtr G_ProtocolIESingleContainerQosCharacteristicsExtIEs))].
Definition G_PriorityLevelARP : ty := TStruct [
  ("Value", gp258, TInt)].
Definition G_PreEmptionCapability : ty := TStruct [
  ("Value", gp33, TEnum)].
Definition G_PreEmptionVulnerability : ty := TStruct [
  ("Value", gp33, TEnum)].
Definition G_AllocationAndRetentionPriorityExtIEsExtensionValue : ty := TStruct [
  ("Present", gp8, TInt)].
Definition G_AllocationAndRetentionPriorityExtIEs : ty := TStruct [
  ("Id", gp8, G_ProtocolExtensionID);
  ("Criticality", gp8, G_Criticality);
  ("ExtensionValue", gp9, G_AllocationAndRetentionPriorityExtIEsExtensionValue)].
Definition G_ProtocolExtensionContainerAllocationAndRetentionPriorityExtIEs : ty := TStruct [
  ("List", gp10, (TSlice G_AllocationAndRetentionPriorityExtIEs))].
Definition G_AllocationAndRetentionPriority : ty := TStruct [
  ("PriorityLevelARP", gp8, G_PriorityLevelARP);
  ("PreEmptionCapability", gp8, G_PreEmptionCapability);
  ("PreEmptionVulnerability", gp8, G_PreEmptionVulnerability);
  ("IEExtensions", gp11, (TPtr G_ProtocolExtensionContainerAllocationAndRetentionPriorityExtIEs))].
Definition G_NotificationControl : ty := TStruct [
  ("Value", gp47, TEnum)].
Definition G_PacketLossRate : ty := TStruct [
  ("Value", gp259, TInt)].
Definition G_GBRQosInformationExtIEsExtensionValue : ty := TStruct [
  ("Present", gp8, TInt)].
Definition G_GBRQosInformationExtIEs : ty := TStruct [
  ("Id", gp8, G_ProtocolExtensionID);
  ("Criticality", gp8, G_Criticality);
  ("ExtensionValue", gp9, G_GBRQosInformationExtIEsExtensionValue)].
Definition G_ProtocolExtensionContainerGBRQosInformationExtIEs : ty := TStruct [
  ("List", gp10, (TSlice G_GBRQosInformationExtIEs))].
Definition G_GBRQosInformation : ty := TStruct [
  ("MaximumFlowBitRateDL", gp8, G_BitRate);
  ("MaximumFlowBitRateUL", gp8, G_BitRate);
  ("GuaranteedFlowBitRateDL", gp8, G_BitRate);
  ("GuaranteedFlowBitRateUL", gp8, G_BitRate);
  ("NotificationControl", gp11, (TPtr G_NotificationControl));
  ("MaximumPacketLossRateDL", gp11, (TPtr G_PacketLossRate));
  ("MaximumPacketLossRateUL", gp11, (TPtr G_PacketLossRate));
  ("IEExtensions", gp11, (TPtr G_ProtocolExtensionContainerGBRQosInformationExtIEs))].
Definition G_ReflectiveQosAttribute : ty := TStruct [
  ("Value", gp47, TEnum)].
Definition G_AdditionalQosFlowInformation : ty := TStruct [
  ("Value", gp47, TEnum)].
Definition G_QosFlowLevelQosParametersExtIEsExtensionValue : ty := TStruct [
  ("Present", gp8, TInt)].
Definition G_QosFlowLevelQosParametersExtIEs : ty := TStruct [
  ("Id", gp8, G_ProtocolExtensionID);
  ("Criticality", gp8, G_Criticality);
  ("ExtensionValue", gp9, G_QosFlowLevelQosParametersExtIEsExtensionValue)].
Definition G_ProtocolExtensionContainerQosFlowLevelQosParametersExtIEs : ty := TStruct [
  ("List", gp10, (TSlice G_QosFlowLevelQosParametersExtIEs))].
Definition G_QosFlowLevelQosParameters : ty := TStruct [
  ("QosCharacteristics", gp1, G_QosCharacteristics);
  ("AllocationAndRetentionPriority", gp12, G_AllocationAndRetentionPriority);
  ("GBRQosInformation", gp58, (TPtr G_GBRQosInformation));
  ("ReflectiveQosAttribute", gp11, (TPtr G_ReflectiveQosAttribute));
  ("AdditionalQosFlowInformation", gp11, (TPtr G_AdditionalQosFlowInformation));
  ("IEExtensions", gp11, (TPtr G_ProtocolExtensionContainerQosFlowLevelQosParametersExtIEs))].
Definition G_ERABID : ty := TStruct [
  ("Value", gp260, TInt)].
Definition G_QosFlowSetupRequestItemExtIEsExtensionValue : ty := TStruct [
  ("Present", gp8, TInt)].
Definition G_QosFlowSetupRequestItemExtIEs : ty := TStruct [
  ("Id", gp8, G_ProtocolExtensionID);
  ("Criticality", gp8, G_Criticality);
  ("ExtensionValue", gp9, G_QosFlowSetupRequestItemExtIEsExtensionValue)].
Definition G_ProtocolExtensionContainerQosFlowSetupRequestItemExtIEs : ty := TStruct [
  ("List", gp10, (TSlice G_QosFlowSetupRequestItemExtIEs))].
Definition G_QosFlowSetupRequestItem : ty := TStruct [
  ("QosFlowIdentifier", gp8, G_QosFlowIdentifier);
  ("QosFlowLevelQosParameters", gp12, G_QosFlowLevelQosParameters);
  ("ERABID", gp11, (TPtr G_ERABID));
  ("IEExtensions", gp11, (TPtr G_ProtocolExtensionContainerQosFlowSetupRequestItemExtIEs))].
Definition G_QosFlowSetupRequestList : ty := TStruct [
  ("List", gp69, (TSlice G_QosFlowSetupRequestItem))].
Definition G_PDUSessionResourceSetupRequestTransferIEsValue : ty := TStruct [
  ("Present", gp8, TInt);
  ("PDUSessionAggregateMaximumBitRate", gp261, (TPtr G_PDUSessionAggregateMaximumBitRate));
  ("ULNGUUPTNLInformation", gp262, (TPtr G_UPTransportLayerInformation));
  ("AdditionalULNGUUPTNLInformation", gp263, (TPtr G_UPTransportLayerInformation));
  ("DataForwardingNotPossible", gp264, (TPtr G_DataForwardingNotPossible));
  ("PDUSessionType", gp265, (TPtr G_PDUSessionType));
  ("SecurityIndication", gp266, (TPtr G_SecurityIndication));
  ("NetworkInstance", gp267, (TPtr G_NetworkInstance));
  ("QosFlowSetupRequestList", gp268, (TPtr G_QosFlowSetupRequestList))].
Definition G_PDUSessionResourceSetupRequestTransferIEs : ty := TStruct [
  ("Id", gp8, G_ProtocolIEID);
  ("Criticality", gp8, G_Criticality);
  ("Value", gp9, G_PDUSessionResourceSetupRequestTransferIEsValue)].
Definition G_ProtocolIEContainerPDUSessionResourceSetupRequestTransferIEs : ty := TStruct [
  ("List", gp29, (TSlice G_PDUSessionResourceSetupRequestTransferIEs))].
Definition G_PDUSessionResourceSetupRequestTransfer : ty := TStruct [
  ("ProtocolIEs", gp8, G_ProtocolIEContainerPDUSessionResourceSetupRequestTransferIEs)].
Definition G_AssociatedQosFlowItemExtIEsExtensionValue : ty := TStruct [
  ("Present", gp8, TInt)].
Definition G_AssociatedQosFlowItemExtIEs : ty := TStruct [
  ("Id", gp8, G_ProtocolExtensionID);
  ("Criticality", gp8, G_Criticality);
  ("ExtensionValue", gp9, G_AssociatedQosFlowItemExtIEsExtensionValue)].
Definition G_ProtocolExtensionContainerAssociatedQosFlowItemExtIEs : ty := TStruct [
  ("List", gp10, (TSlice G_AssociatedQosFlowItemExtIEs))].
Definition gp_qfmi : params := mkp true false true false None None (Some 0%Z) (Some 1%Z) None "".
Definition G_AssociatedQosFlowItem : ty := TStruct [
  ("QosFlowIdentifier", gp8, G_QosFlowIdentifier);
  ("QosFlowMappingIndication", gp_qfmi, (TPtr TEnum));   (* TS 38.413: ENUMERATED {ul, dl, ...} OPTIONAL (the Go tag had no bounds before fix a2bb2cf) *)
  ("IEExtensions", gp11, (TPtr G_ProtocolExtensionContainerAssociatedQosFlowItemExtIEs))].
Definition G_AssociatedQosFlowList : ty := TStruct [
  ("List", gp69, (TSlice G_AssociatedQosFlowItem))].
Definition G_QosFlowPerTNLInformationExtIEsExtensionValue : ty := TStruct [
  ("Present", gp8, TInt)].
Definition G_QosFlowPerTNLInformationExtIEs : ty := TStruct [
  ("Id", gp8, G_ProtocolExtensionID);
  ("Criticality", gp8, G_Criticality);
  ("ExtensionValue", gp9, G_QosFlowPerTNLInformationExtIEsExtensionValue)].
Definition G_ProtocolExtensionContainerQosFlowPerTNLInformationExtIEs : ty := TStruct [
  ("List", gp10, (TSlice G_QosFlowPerTNLInformationExtIEs))].
Definition G_QosFlowPerTNLInformation : ty := TStruct [
  ("UPTransportLayerInformation", gp20, G_UPTransportLayerInformation);
  ("AssociatedQosFlowList", gp8, G_AssociatedQosFlowList);
  ("IEExtensions", gp11, (TPtr G_ProtocolExtensionContainerQosFlowPerTNLInformationExtIEs))].
Definition G_IntegrityProtectionResult : ty := TStruct [
  ("Value", gp33, TEnum)].
Definition G_ConfidentialityProtectionResult : ty := TStruct [
  ("Value", gp33, TEnum)].
Definition G_SecurityResultExtIEsExtensionValue : ty := TStruct [
  ("Present", gp8, TInt)].
Definition G_SecurityResultExtIEs : ty := TStruct [
  ("Id", gp8, G_ProtocolExtensionID);
  ("Criticality", gp8, G_Criticality);
  ("ExtensionValue", gp9, G_SecurityResultExtIEsExtensionValue)].
Definition G_ProtocolExtensionContainerSecurityResultExtIEs : ty := TStruct [
  ("List", gp10, (TSlice G_SecurityResultExtIEs))].
Definition G_SecurityResult : ty := TStruct [
  ("IntegrityProtectionResult", gp8, G_IntegrityProtectionResult);
  ("ConfidentialityProtectionResult", gp8, G_ConfidentialityProtectionResult);
  ("IEExtensions", gp11, (TPtr G_ProtocolExtensionContainerSecurityResultExtIEs))].
Definition G_QosFlowItemExtIEsExtensionValue : ty := TStruct [
  ("Present", gp8, TInt)].
Definition G_QosFlowItemExtIEs : ty := TStruct [
  ("Id", gp8, G_ProtocolExtensionID);
  ("Criticality", gp8, G_Criticality);
  ("ExtensionValue", gp9, G_QosFlowItemExtIEsExtensionValue)].
Definition G_ProtocolExtensionContainerQosFlowItemExtIEs : ty := TStruct [
  ("List", gp10, (TSlice G_QosFlowItemExtIEs))].
Definition G_QosFlowItem : ty := TStruct [
  ("QosFlowIdentifier", gp8, G_QosFlowIdentifier);
  ("Cause", gp224, G_Cause);
  ("IEExtensions", gp11, (TPtr G_ProtocolExtensionContainerQosFlowItemExtIEs))].
Definition G_QosFlowList : ty := TStruct [
  ("List", gp69, (TSlice G_QosFlowItem))].
Definition G_PDUSessionResourceSetupResponseTransferExtIEsExtensionValue : ty := TStruct [
  ("Present", gp8, TInt)].
Definition G_PDUSessionResourceSetupResponseTransferExtIEs : ty := TStruct [
  ("Id", gp8, G_ProtocolExtensionID);
  ("Criticality", gp8, G_Criticality);
  ("ExtensionValue", gp9, G_PDUSessionResourceSetupResponseTransferExtIEsExtensionValue)].
Definition G_ProtocolExtensionContainerPDUSessionResourceSetupResponseTransferExtIEs : ty := TStruct [
  ("List", gp10, (TSlice G_PDUSessionResourceSetupResponseTransferExtIEs))].
Definition G_PDUSessionResourceSetupResponseTransfer : ty := TStruct [
  ("QosFlowPerTNLInformation", gp12, G_QosFlowPerTNLInformation);
  ("AdditionalQosFlowPerTNLInformation", gp58, (TPtr G_QosFlowPerTNLInformation));
  ("SecurityResult", gp58, (TPtr G_SecurityResult));
  ("QosFlowFailedToSetupList", gp11, (TPtr G_QosFlowList));
  ("IEExtensions", gp11, (TPtr G_ProtocolExtensionContainerPDUSessionResourceSetupResponseTransferExtIEs))].
Definition G_PDUSessionResourceSetupUnsuccessfulTransferExtIEsExtensionValue : ty := TStruct [
  ("Present", gp8, TInt)].
Definition G_PDUSessionResourceSetupUnsuccessfulTransferExtIEs : ty := TStruct [
  ("Id", gp8, G_ProtocolExtensionID);
  ("Criticality", gp8, G_Criticality);
  ("ExtensionValue", gp9, G_PDUSessionResourceSetupUnsuccessfulTransferExtIEsExtensionValue)].
Definition G_ProtocolExtensionContainerPDUSessionResourceSetupUnsuccessfulTransferExtIEs : ty := TStruct [
  ("List", gp10, (TSlice G_PDUSessionResourceSetupUnsuccessfulTransferExtIEs))].
Definition G_PDUSessionResourceSetupUnsuccessfulTransfer : ty := TStruct [
  ("Cause", gp224, G_Cause);
  ("CriticalityDiagnostics", gp58, (TPtr G_CriticalityDiagnostics));
  ("IEExtensions", gp11, (TPtr G_ProtocolExtensionContainerPDUSessionResourceSetupUnsuccessfulTransferExtIEs))].
Definition G_PDUSessionResourceReleaseCommandTransferExtIEsExtensionValue : ty := TStruct [
  ("Present", gp8, TInt)].
Definition G_PDUSessionResourceReleaseCommandTransferExtIEs : ty := TStruct [
  ("Id", gp8, G_ProtocolExtensionID);
  ("Criticality", gp8, G_Criticality);
  ("ExtensionValue", gp9, G_PDUSessionResourceReleaseCommandTransferExtIEsExtensionValue)].
Definition G_ProtocolExtensionContainerPDUSessionResourceReleaseCommandTransferExtIEs : ty := TStruct [
  ("List", gp10, (TSlice G_PDUSessionResourceReleaseCommandTransferExtIEs))].
Definition G_PDUSessionResourceReleaseCommandTransfer : ty := TStruct [
  ("Cause", gp224, G_Cause);
  ("IEExtensions", gp11, (TPtr G_ProtocolExtensionContainerPDUSessionResourceReleaseCommandTransferExtIEs))].
Definition G_PDUSessionResourceReleaseResponseTransferExtIEsExtensionValue : ty := TStruct [
  ("Present", gp8, TInt)].
Definition G_PDUSessionResourceReleaseResponseTransferExtIEs : ty := TStruct [
  ("Id", gp8, G_ProtocolExtensionID);
  ("Criticality", gp8, G_Criticality);
  ("ExtensionValue", gp9, G_PDUSessionResourceReleaseResponseTransferExtIEsExtensionValue)].
Definition G_ProtocolExtensionContainerPDUSessionResourceReleaseResponseTransferExtIEs : ty := TStruct [
  ("List", gp10, (TSlice G_PDUSessionResourceReleaseResponseTransferExtIEs))].
Definition G_PDUSessionResourceReleaseResponseTransfer : ty := TStruct [
  ("IEExtensions", gp11, (TPtr G_ProtocolExtensionContainerPDUSessionResourceReleaseResponseTransferExtIEs))].
Definition G_ULNGUUPTNLModifyItemExtIEsExtensionValue : ty := TStruct [
  ("Present", gp8, TInt)].
Definition G_ULNGUUPTNLModifyItemExtIEs : ty := TStruct [
  ("Id", gp8, G_ProtocolExtensionID);
  ("Criticality", gp8, G_Criticality);
  ("ExtensionValue", gp9, G_ULNGUUPTNLModifyItemExtIEsExtensionValue)].
Definition G_ProtocolExtensionContainerULNGUUPTNLModifyItemExtIEs : ty := TStruct [
  ("List", gp10, (TSlice G_ULNGUUPTNLModifyItemExtIEs))].
Definition G_ULNGUUPTNLModifyItem : ty := TStruct [
  ("ULNGUUPTNLInformation", gp20, G_UPTransportLayerInformation);
  ("DLNGUUPTNLInformation", gp20, G_UPTransportLayerInformation);
  ("IEExtensions", gp11, (TPtr G_ProtocolExtensionContainerULNGUUPTNLModifyItemExtIEs))].
Definition G_ULNGUUPTNLModifyList : ty := TStruct [
  ("List", gp269, (TSlice G_ULNGUUPTNLModifyItem))].
Definition G_QosFlowAddOrModifyRequestItemExtIEsExtensionValue : ty := TStruct [
  ("Present", gp8, TInt)].
Definition G_QosFlowAddOrModifyRequestItemExtIEs : ty := TStruct [
  ("Id", gp8, G_ProtocolExtensionID);
  ("Criticality", gp8, G_Criticality);
  ("ExtensionValue", gp9, G_QosFlowAddOrModifyRequestItemExtIEsExtensionValue)].
Definition G_ProtocolExtensionContainerQosFlowAddOrModifyRequestItemExtIEs : ty := TStruct [
  ("List", gp10, (TSlice G_QosFlowAddOrModifyRequestItemExtIEs))].
Definition G_QosFlowAddOrModifyRequestItem : ty := TStruct [
  ("QosFlowIdentifier", gp8, G_QosFlowIdentifier);
  ("QosFlowLevelQosParameters", gp58, (TPtr G_QosFlowLevelQosParameters));
  ("ERABID", gp11, (TPtr G_ERABID));
  ("IEExtensions", gp11, (TPtr G_ProtocolExtensionContainerQosFlowAddOrModifyRequestItemExtIEs))].
Definition G_QosFlowAddOrModifyRequestList : ty := TStruct [
  ("List", gp69, (TSlice G_QosFlowAddOrModifyRequestItem))].
Definition G_PDUSessionResourceModifyRequestTransferIEsValue : ty := TStruct [
  ("Present", gp8, TInt);
  ("PDUSessionAggregateMaximumBitRate", gp261, (TPtr G_PDUSessionAggregateMaximumBitRate));
  ("ULNGUUPTNLModifyList", gp270, (TPtr G_ULNGUUPTNLModifyList));
  ("NetworkInstance", gp267, (TPtr G_NetworkInstance));
  ("QosFlowAddOrModifyRequestList", gp271, (TPtr G_QosFlowAddOrModifyRequestList));
  ("QosFlowToReleaseList", gp272, (TPtr G_QosFlowList));
  ("AdditionalULNGUUPTNLInformation", gp263, (TPtr G_UPTransportLayerInformation))].
Definition G_PDUSessionResourceModifyRequestTransferIEs : ty := TStruct [
  ("Id", gp8, G_ProtocolIEID);
  ("Criticality", gp8, G_Criticality);
  ("Value", gp9, G_PDUSessionResourceModifyRequestTransferIEsValue)].
Definition G_ProtocolIEContainerPDUSessionResourceModifyRequestTransferIEs : ty := TStruct [
  ("List", gp29, (TSlice G_PDUSessionResourceModifyRequestTransferIEs))].
Definition G_PDUSessionResourceModifyRequestTransfer : ty := TStruct [
  ("ProtocolIEs", gp8, G_ProtocolIEContainerPDUSessionResourceModifyRequestTransferIEs)].
Definition G_QosFlowAddOrModifyResponseItemExtIEsExtensionValue : ty := TStruct [
  ("Present", gp8, TInt)].
Definition G_QosFlowAddOrModifyResponseItemExtIEs : ty := TStruct [
  ("Id", gp8, G_ProtocolExtensionID);
  ("Criticality", gp8, G_Criticality);
  ("ExtensionValue", gp9, G_QosFlowAddOrModifyResponseItemExtIEsExtensionValue)].
Definition G_ProtocolExtensionContainerQosFlowAddOrModifyResponseItemExtIEs : ty := TStruct [
  ("List", gp10, (TSlice G_QosFlowAddOrModifyResponseItemExtIEs))].
Definition G_QosFlowAddOrModifyResponseItem : ty := TStruct [
  ("QosFlowIdentifier", gp8, G_QosFlowIdentifier);
  ("IEExtensions", gp11, (TPtr G_ProtocolExtensionContainerQosFlowAddOrModifyResponseItemExtIEs))].
Definition G_QosFlowAddOrModifyResponseList : ty := TStruct [
  ("List", gp69, (TSlice G_QosFlowAddOrModifyResponseItem))].
Definition G_PDUSessionResourceModifyResponseTransferExtIEsExtensionValue : ty := TStruct [
  ("Present", gp8, TInt)].
Definition G_PDUSessionResourceModifyResponseTransferExtIEs : ty := TStruct [
  ("Id", gp8, G_ProtocolExtensionID);
  ("Criticality", gp8, G_Criticality);
  ("ExtensionValue", gp9, G_PDUSessionResourceModifyResponseTransferExtIEsExtensionValue)].
Definition G_ProtocolExtensionContainerPDUSessionResourceModifyResponseTransferExtIEs : ty := TStruct [
  ("List", gp10, (TSlice G_PDUSessionResourceModifyResponseTransferExtIEs))].
Definition G_PDUSessionResourceModifyResponseTransfer : ty := TStruct [
  ("DLNGUUPTNLInformation", gp154, (TPtr G_UPTransportLayerInformation));
  ("ULNGUUPTNLInformation", gp154, (TPtr G_UPTransportLayerInformation));
  ("QosFlowAddOrModifyResponseList", gp11, (TPtr G_QosFlowAddOrModifyResponseList));
  ("AdditionalQosFlowPerTNLInformation", gp58, (TPtr G_QosFlowPerTNLInformation));
  ("QosFlowFailedToAddOrModifyList", gp11, (TPtr G_QosFlowList));
  ("IEExtensions", gp11, (TPtr G_ProtocolExtensionContainerPDUSessionResourceModifyResponseTransferExtIEs))].
Definition G_PDUSessionResourceModifyUnsuccessfulTransferExtIEsExtensionValue : ty := TStruct [
  ("Present", gp8, TInt)].
Definition G_PDUSessionResourceModifyUnsuccessfulTransferExtIEs : ty := TStruct [
  ("Id", gp8, G_ProtocolExtensionID);
  ("Criticality", gp8, G_Criticality);
  ("ExtensionValue", gp9, G_PDUSessionResourceModifyUnsuccessfulTransferExtIEsExtensionValue)].
Definition G_ProtocolExtensionContainerPDUSessionResourceModifyUnsuccessfulTransferExtIEs : ty := TStruct [
  ("List", gp10, (TSlice G_PDUSessionResourceModifyUnsuccessfulTransferExtIEs))].
Definition G_PDUSessionResourceModifyUnsuccessfulTransfer : ty := TStruct [
  ("Cause", gp224, G_Cause);
  ("CriticalityDiagnostics", gp58, (TPtr G_CriticalityDiagnostics));
  ("IEExtensions", gp11, (TPtr G_ProtocolExtensionContainerPDUSessionResourceModifyUnsuccessfulTransferExtIEs))].
Definition G_SingleTNLInformationExtIEsExtensionValue : ty := TStruct [
  ("Present", gp8, TInt)].
Definition G_SingleTNLInformationExtIEs : ty := TStruct [
  ("Id", gp8, G_ProtocolExtensionID);
  ("Criticality", gp8, G_Criticality);
  ("ExtensionValue", gp9, G_SingleTNLInformationExtIEsExtensionValue)].
Definition G_ProtocolExtensionContainerSingleTNLInformationExtIEs : ty := TStruct [
  ("List", gp10, (TSlice G_SingleTNLInformationExtIEs))].
Definition G_SingleTNLInformation : ty := TStruct [
  ("UPTransportLayerInformation", gp20, G_UPTransportLayerInformation);
  ("IEExtensions", gp11, (TPtr G_ProtocolExtensionContainerSingleTNLInformationExtIEs))].
Definition G_TNLInformationItemExtIEsExtensionValue : ty := TStruct [
  ("Present", gp8, TInt)].
Definition G_TNLInformationItemExtIEs : ty := TStruct [
  ("Id", gp8, G_ProtocolExtensionID);
  ("Criticality", gp8, G_Criticality);
  ("ExtensionValue", gp9, G_TNLInformationItemExtIEsExtensionValue)].
Definition G_ProtocolExtensionContainerTNLInformationItemExtIEs : ty := TStruct [
  ("List", gp10, (TSlice G_TNLInformationItemExtIEs))].
Definition G_TNLInformationItem : ty := TStruct [
  ("QosFlowPerTNLInformation", gp12, G_QosFlowPerTNLInformation);
  ("IEExtensions", gp11, (TPtr G_ProtocolExtensionContainerTNLInformationItemExtIEs))].
Definition G_TNLInformationList : ty := TStruct [
  ("List", gp273, (TSlice G_TNLInformationItem))].
Definition G_MultipleTNLInformationExtIEsExtensionValue : ty := TStruct [
  ("Present", gp8, TInt)].
Definition G_MultipleTNLInformationExtIEs : ty := TStruct [
  ("Id", gp8, G_ProtocolExtensionID);
  ("Criticality", gp8, G_Criticality);
  ("ExtensionValue", gp9, G_MultipleTNLInformationExtIEsExtensionValue)].
Definition G_ProtocolExtensionContainerMultipleTNLInformationExtIEs : ty := TStruct [
  ("List", gp10, (TSlice G_MultipleTNLInformationExtIEs))].
Definition G_MultipleTNLInformation : ty := TStruct [
  ("TNLInformationList", gp8, G_TNLInformationList);
  ("IEExtensions", gp11, (TPtr G_ProtocolExtensionContainerMultipleTNLInformationExtIEs))].
Definition G_ProtocolIESingleContainerUPTNLInformationExtIEs : ty := TStruct [].
Definition G_UPTNLInformation : ty := TStruct [
  ("Present", gp8, TInt);
  ("SingleTNLInformation", gp12, (TPtr G_SingleTNLInformation));
  ("MultipleTNLInformation", gp12, (TPtr G_MultipleTNLInformation));
  ("ChoiceExtensions", gp8, (TPtr G_ProtocolIESingleContainerUPTNLInformationExtIEs))].
Definition G_PDUSessionResourceModifyIndicationTransferExtIEsExtensionValue : ty := TStruct [
  ("Present", gp8, TInt)].
Definition G_PDUSessionResourceModifyIndicationTransferExtIEs : ty := TStruct [
  ("Id", gp8, G_ProtocolExtensionID);
  ("Criticality", gp8, G_Criticality);
  ("ExtensionValue", gp9, G_PDUSessionResourceModifyIndicationTransferExtIEsExtensionValue)].
Definition G_ProtocolExtensionContainerPDUSessionResourceModifyIndicationTransferExtIEs : ty := TStruct [
  ("List", gp10, (TSlice G_PDUSessionResourceModifyIndicationTransferExtIEs))].
Definition G_PDUSessionResourceModifyIndicationTransfer : ty := TStruct [
  ("DLUPTNLInformation", gp274, (TPtr G_UPTNLInformation));
  ("IEExtensions", gp11, (TPtr G_ProtocolExtensionContainerPDUSessionResourceModifyIndicationTransferExtIEs))].
Definition G_QosFlowModifyConfirmItemExtIEsExtensionValue : ty := TStruct [
  ("Present", gp8, TInt)].
Definition G_QosFlowModifyConfirmItemExtIEs : ty := TStruct [
  ("Id", gp8, G_ProtocolExtensionID);
  ("Criticality", gp8, G_Criticality);
  ("ExtensionValue", gp9, G_QosFlowModifyConfirmItemExtIEsExtensionValue)].
Definition G_ProtocolExtensionContainerQosFlowModifyConfirmItemExtIEs : ty := TStruct [
  ("List", gp10, (TSlice G_QosFlowModifyConfirmItemExtIEs))].
Definition G_QosFlowModifyConfirmItem : ty := TStruct [
  ("QosFlowIdentifier", gp8, G_QosFlowIdentifier);
  ("IEExtensions", gp11, (TPtr G_ProtocolExtensionContainerQosFlowModifyConfirmItemExtIEs))].
Definition G_QosFlowModifyConfirmList : ty := TStruct [
  ("List", gp69, (TSlice G_QosFlowModifyConfirmItem))].
Definition G_TNLMappingItemExtIEsExtensionValue : ty := TStruct [
  ("Present", gp8, TInt)].
Definition G_TNLMappingItemExtIEs : ty := TStruct [
  ("Id", gp8, G_ProtocolExtensionID);
  ("Criticality", gp8, G_Criticality);
  ("ExtensionValue", gp9, G_TNLMappingItemExtIEsExtensionValue)].
Definition G_ProtocolExtensionContainerTNLMappingItemExtIEs : ty := TStruct [
  ("List", gp10, (TSlice G_TNLMappingItemExtIEs))].
Definition G_TNLMappingItem : ty := TStruct [
  ("DLNGUUPTNLInformation", gp20, G_UPTransportLayerInformation);
  ("ULNGUUPTNLInformation", gp20, G_UPTransportLayerInformation);
  ("IEExtensions", gp11, (TPtr G_ProtocolExtensionContainerTNLMappingItemExtIEs))].
Definition G_TNLMappingList : ty := TStruct [
  ("List", gp273, (TSlice G_TNLMappingItem))].
Definition G_PDUSessionResourceModifyConfirmTransferExtIEsExtensionValue : ty := TStruct [
  ("Present", gp8, TInt)].
Definition G_PDUSessionResourceModifyConfirmTransferExtIEs : ty := TStruct [
  ("Id", gp8, G_ProtocolExtensionID);
  ("Criticality", gp8, G_Criticality);
  ("ExtensionValue", gp9, G_PDUSessionResourceModifyConfirmTransferExtIEsExtensionValue)].
Definition G_ProtocolExtensionContainerPDUSessionResourceModifyConfirmTransferExtIEs : ty := TStruct [
  ("List", gp10, (TSlice G_PDUSessionResourceModifyConfirmTransferExtIEs))].
Definition G_PDUSessionResourceModifyConfirmTransfer : ty := TStruct [
  ("QosFlowModifyConfirmList", gp8, G_QosFlowModifyConfirmList);
  ("TNLMappingList", gp11, (TPtr G_TNLMappingList));
  ("QosFlowFailedToModifyList", gp11, (TPtr G_QosFlowList));
  ("IEExtensions", gp11, (TPtr G_ProtocolExtensionContainerPDUSessionResourceModifyConfirmTransferExtIEs))].
Definition G_PDUSessionResourceModifyIndicationUnsuccessfulTransferExtIEsExtensionValue : ty := TStruct [
  ("Present", gp8, TInt)].
Definition G_PDUSessionResourceModifyIndicationUnsuccessfulTransferExtIEs : ty := TStruct [
  ("Id", gp8, G_ProtocolExtensionID);
  ("Criticality", gp8, G_Criticality);
  ("ExtensionValue", gp9, G_PDUSessionResourceModifyIndicationUnsuccessfulTransferExtIEsExtensionValue)].
Definition G_ProtocolExtensionContainerPDUSessionResourceModifyIndicationUnsuccessfulTransferExtIEs : ty := TStruct [
  ("List", gp10, (TSlice G_PDUSessionResourceModifyIndicationUnsuccessfulTransferExtIEs))].
Definition G_PDUSessionResourceModifyIndicationUnsuccessfulTransfer : ty := TStruct [
  ("Cause", gp224, G_Cause);
  ("IEExtensions", gp11, (TPtr G_ProtocolExtensionContainerPDUSessionResourceModifyIndicationUnsuccessfulTransferExtIEs))].
Definition G_NotificationCause : ty := TStruct [
  ("Value", gp33, TEnum)].
Definition G_QosFlowNotifyItemExtIEsExtensionValue : ty := TStruct [
  ("Present", gp8, TInt)].
Definition G_QosFlowNotifyItemExtIEs : ty := TStruct [
  ("Id", gp8, G_ProtocolExtensionID);
  ("Criticality", gp8, G_Criticality);
  ("ExtensionValue", gp9, G_QosFlowNotifyItemExtIEsExtensionValue)].
Definition G_ProtocolExtensionContainerQosFlowNotifyItemExtIEs : ty := TStruct [
  ("List", gp10, (TSlice G_QosFlowNotifyItemExtIEs))].
Definition G_QosFlowNotifyItem : ty := TStruct [
  ("QosFlowIdentifier", gp8, G_QosFlowIdentifier);
  ("NotificationCause", gp8, G_NotificationCause);
  ("IEExtensions", gp11, (TPtr G_ProtocolExtensionContainerQosFlowNotifyItemExtIEs))].
Definition G_QosFlowNotifyList : ty := TStruct [
  ("List", gp69, (TSlice G_QosFlowNotifyItem))].
Definition G_PDUSessionResourceNotifyTransferExtIEsExtensionValue : ty := TStruct [
  ("Present", gp8, TInt)].
Definition G_PDUSessionResourceNotifyTransferExtIEs : ty := TStruct [
  ("Id", gp8, G_ProtocolExtensionID);
  ("Criticality", gp8, G_Criticality);
  ("ExtensionValue", gp9, G_PDUSessionResourceNotifyTransferExtIEsExtensionValue)].
Definition G_ProtocolExtensionContainerPDUSessionResourceNotifyTransferExtIEs : ty := TStruct [
  ("List", gp10, (TSlice G_PDUSessionResourceNotifyTransferExtIEs))].
Definition G_PDUSessionResourceNotifyTransfer : ty := TStruct [
  ("QosFlowNotifyList", gp11, (TPtr G_QosFlowNotifyList));
  ("QosFlowReleasedList", gp11, (TPtr G_QosFlowList));
  ("IEExtensions", gp11, (TPtr G_ProtocolExtensionContainerPDUSessionResourceNotifyTransferExtIEs))].
Definition G_PDUSessionResourceNotifyReleasedTransferExtIEsExtensionValue : ty := TStruct [
  ("Present", gp8, TInt)].
Definition G_PDUSessionResourceNotifyReleasedTransferExtIEs : ty := TStruct [
  ("Id", gp8, G_ProtocolExtensionID);
  ("Criticality", gp8, G_Criticality);
  ("ExtensionValue", gp9, G_PDUSessionResourceNotifyReleasedTransferExtIEsExtensionValue)].
Definition G_ProtocolExtensionContainerPDUSessionResourceNotifyReleasedTransferExtIEs : ty := TStruct [
  ("List", gp10, (TSlice G_PDUSessionResourceNotifyReleasedTransferExtIEs))].
Definition G_PDUSessionResourceNotifyReleasedTransfer : ty := TStruct [
  ("Cause", gp224, G_Cause);
  ("IEExtensions", gp11, (TPtr G_ProtocolExtensionContainerPDUSessionResourceNotifyReleasedTransferExtIEs))].
Definition G_DLNGUTNLInformationReused : ty := TStruct [
  ("Value", gp47, TEnum)].
Definition G_UserPlaneSecurityInformationExtIEsExtensionValue : ty := TStruct [
  ("Present", gp8, TInt)].
Definition G_UserPlaneSecurityInformationExtIEs : ty := TStruct [
  ("Id", gp8, G_ProtocolExtensionID);
  ("Criticality", gp8, G_Criticality);
  ("ExtensionValue", gp9, G_UserPlaneSecurityInformationExtIEsExtensionValue)].
Definition G_ProtocolExtensionContainerUserPlaneSecurityInformationExtIEs : ty := TStruct [
  ("List", gp10, (TSlice G_UserPlaneSecurityInformationExtIEs))].
Definition G_UserPlaneSecurityInformation : ty := TStruct [
  ("SecurityResult", gp12, G_SecurityResult);
  ("SecurityIndication", gp12, G_SecurityIndication);
  ("IEExtensions", gp11, (TPtr G_ProtocolExtensionContainerUserPlaneSecurityInformationExtIEs))].
Definition G_QosFlowAcceptedItemExtIEsExtensionValue : ty := TStruct [
  ("Present", gp8, TInt)].
Definition G_QosFlowAcceptedItemExtIEs : ty := TStruct [
  ("Id", gp8, G_ProtocolExtensionID);
  ("Criticality", gp8, G_Criticality);
  ("ExtensionValue", gp9, G_QosFlowAcceptedItemExtIEsExtensionValue)].
Definition G_ProtocolExtensionContainerQosFlowAcceptedItemExtIEs : ty := TStruct [
  ("List", gp10, (TSlice G_QosFlowAcceptedItemExtIEs))].
Definition G_QosFlowAcceptedItem : ty := TStruct [
  ("QosFlowIdentifier", gp8, G_QosFlowIdentifier);
  ("IEExtensions", gp11, (TPtr G_ProtocolExtensionContainerQosFlowAcceptedItemExtIEs))].
Definition G_QosFlowAcceptedList : ty := TStruct [
  ("List", gp69, (TSlice G_QosFlowAcceptedItem))].
Definition G_PathSwitchRequestTransferExtIEsExtensionValue : ty := TStruct [
  ("Present", gp8, TInt)].
Definition G_PathSwitchRequestTransferExtIEs : ty := TStruct [
  ("Id", gp8, G_ProtocolExtensionID);
  ("Criticality", gp8, G_Criticality);
  ("ExtensionValue", gp9, G_PathSwitchRequestTransferExtIEsExtensionValue)].
Definition G_ProtocolExtensionContainerPathSwitchRequestTransferExtIEs : ty := TStruct [
  ("List", gp10, (TSlice G_PathSwitchRequestTransferExtIEs))].
Definition G_PathSwitchRequestTransfer : ty := TStruct [
  ("DLNGUUPTNLInformation", gp20, G_UPTransportLayerInformation);
  ("DLNGUTNLInformationReused", gp11, (TPtr G_DLNGUTNLInformationReused));
  ("UserPlaneSecurityInformation", gp58, (TPtr G_UserPlaneSecurityInformation));
  ("QosFlowAcceptedList", gp8, G_QosFlowAcceptedList);
  ("IEExtensions", gp11, (TPtr G_ProtocolExtensionContainerPathSwitchRequestTransferExtIEs))].
Definition G_PathSwitchRequestSetupFailedTransferExtIEsExtensionValue : ty := TStruct [
  ("Present", gp8, TInt)].
Definition G_PathSwitchRequestSetupFailedTransferExtIEs : ty := TStruct [
  ("Id", gp8, G_ProtocolExtensionID);
  ("Criticality", gp8, G_Criticality);
  ("ExtensionValue", gp9, G_PathSwitchRequestSetupFailedTransferExtIEsExtensionValue)].
Definition G_ProtocolExtensionContainerPathSwitchRequestSetupFailedTransferExtIEs : ty := TStruct [
  ("List", gp10, (TSlice G_PathSwitchRequestSetupFailedTransferExtIEs))].
Definition G_PathSwitchRequestSetupFailedTransfer : ty := TStruct [
  ("Cause", gp224, G_Cause);
  ("IEExtensions", gp11, (TPtr G_ProtocolExtensionContainerPathSwitchRequestSetupFailedTransferExtIEs))].
Definition G_PathSwitchRequestAcknowledgeTransferExtIEsExtensionValue : ty := TStruct [
  ("Present", gp8, TInt)].
Definition G_PathSwitchRequestAcknowledgeTransferExtIEs : ty := TStruct [
  ("Id", gp8, G_ProtocolExtensionID);
  ("Criticality", gp8, G_Criticality);
  ("ExtensionValue", gp9, G_PathSwitchRequestAcknowledgeTransferExtIEsExtensionValue)].
Definition G_ProtocolExtensionContainerPathSwitchRequestAcknowledgeTransferExtIEs : ty := TStruct [
  ("List", gp10, (TSlice G_PathSwitchRequestAcknowledgeTransferExtIEs))].
Definition G_PathSwitchRequestAcknowledgeTransfer : ty := TStruct [
  ("ULNGUUPTNLInformation", gp154, (TPtr G_UPTransportLayerInformation));
  ("SecurityIndication", gp58, (TPtr G_SecurityIndication));
  ("IEExtensions", gp11, (TPtr G_ProtocolExtensionContainerPathSwitchRequestAcknowledgeTransferExtIEs))].
Definition G_PathSwitchRequestUnsuccessfulTransferExtIEsExtensionValue : ty := TStruct [
  ("Present", gp8, TInt)].
Definition G_PathSwitchRequestUnsuccessfulTransferExtIEs : ty := TStruct [
  ("Id", gp8, G_ProtocolExtensionID);
  ("Criticality", gp8, G_Criticality);
  ("ExtensionValue", gp9, G_PathSwitchRequestUnsuccessfulTransferExtIEsExtensionValue)].
Definition G_ProtocolExtensionContainerPathSwitchRequestUnsuccessfulTransferExtIEs : ty := TStruct [
  ("List", gp10, (TSlice G_PathSwitchRequestUnsuccessfulTransferExtIEs))].
Definition G_PathSwitchRequestUnsuccessfulTransfer : ty := TStruct [
  ("Cause", gp224, G_Cause);
  ("IEExtensions", gp11, (TPtr G_ProtocolExtensionContainerPathSwitchRequestUnsuccessfulTransferExtIEs))].
Definition G_HandoverRequiredTransferExtIEsExtensionValue : ty := TStruct [
  ("Present", gp8, TInt)].
Definition G_HandoverRequiredTransferExtIEs : ty := TStruct [
  ("Id", gp8, G_ProtocolExtensionID);
  ("Criticality", gp8, G_Criticality);
  ("ExtensionValue", gp9, G_HandoverRequiredTransferExtIEsExtensionValue)].
Definition G_ProtocolExtensionContainerHandoverRequiredTransferExtIEs : ty := TStruct [
  ("List", gp10, (TSlice G_HandoverRequiredTransferExtIEs))].
Definition G_HandoverRequiredTransfer : ty := TStruct [
  ("DirectForwardingPathAvailability", gp11, (TPtr G_DirectForwardingPathAvailability));
  ("IEExtensions", gp11, (TPtr G_ProtocolExtensionContainerHandoverRequiredTransferExtIEs))].
Definition G_QosFlowToBeForwardedItemExtIEsExtensionValue : ty := TStruct [
  ("Present", gp8, TInt)].
Definition G_QosFlowToBeForwardedItemExtIEs : ty := TStruct [
  ("Id", gp8, G_ProtocolExtensionID);
  ("Criticality", gp8, G_Criticality);
  ("ExtensionValue", gp9, G_QosFlowToBeForwardedItemExtIEsExtensionValue)].
Definition G_ProtocolExtensionContainerQosFlowToBeForwardedItemExtIEs : ty := TStruct [
  ("List", gp10, (TSlice G_QosFlowToBeForwardedItemExtIEs))].
Definition G_QosFlowToBeForwardedItem : ty := TStruct [
  ("QosFlowIdentifier", gp8, G_QosFlowIdentifier);
  ("IEExtensions", gp11, (TPtr G_ProtocolExtensionContainerQosFlowToBeForwardedItemExtIEs))].
Definition G_QosFlowToBeForwardedList : ty := TStruct [
  ("List", gp69, (TSlice G_QosFlowToBeForwardedItem))].
Definition G_DataForwardingResponseDRBItemExtIEsExtensionValue : ty := TStruct [
  ("Present", gp8, TInt)].
Definition G_DataForwardingResponseDRBItemExtIEs : ty := TStruct [
  ("Id", gp8, G_ProtocolExtensionID);
  ("Criticality", gp8, G_Criticality);
  ("ExtensionValue", gp9, G_DataForwardingResponseDRBItemExtIEsExtensionValue)].
Definition G_ProtocolExtensionContainerDataForwardingResponseDRBItemExtIEs : ty := TStruct [
  ("List", gp10, (TSlice G_DataForwardingResponseDRBItemExtIEs))].
Definition G_DataForwardingResponseDRBItem : ty := TStruct [
  ("DRBID", gp8, G_DRBID);
  ("DLForwardingUPTNLInformation", gp154, (TPtr G_UPTransportLayerInformation));
  ("ULForwardingUPTNLInformation", gp154, (TPtr G_UPTransportLayerInformation));
  ("IEExtensions", gp11, (TPtr G_ProtocolExtensionContainerDataForwardingResponseDRBItemExtIEs))].
Definition G_DataForwardingResponseDRBList : ty := TStruct [
  ("List", gp21, (TSlice G_DataForwardingResponseDRBItem))].
Definition G_HandoverCommandTransferExtIEsExtensionValue : ty := TStruct [
  ("Present", gp8, TInt)].
Definition G_HandoverCommandTransferExtIEs : ty := TStruct [
  ("Id", gp8, G_ProtocolExtensionID);
  ("Criticality", gp8, G_Criticality);
  ("ExtensionValue", gp9, G_HandoverCommandTransferExtIEsExtensionValue)].
Definition G_ProtocolExtensionContainerHandoverCommandTransferExtIEs : ty := TStruct [
  ("List", gp10, (TSlice G_HandoverCommandTransferExtIEs))].
Definition G_HandoverCommandTransfer : ty := TStruct [
  ("DLForwardingUPTNLInformation", gp154, (TPtr G_UPTransportLayerInformation));
  ("QosFlowToBeForwardedList", gp11, (TPtr G_QosFlowToBeForwardedList));
  ("DataForwardingResponseDRBList", gp11, (TPtr G_DataForwardingResponseDRBList));
  ("IEExtensions", gp11, (TPtr G_ProtocolExtensionContainerHandoverCommandTransferExtIEs))].
Definition G_DataForwardingAccepted : ty := TStruct [
  ("Value", gp47, TEnum)].
Definition G_QosFlowSetupResponseItemHOReqAckExtIEsExtensionValue : ty := TStruct [
  ("Present", gp8, TInt)].
Definition G_QosFlowSetupResponseItemHOReqAckExtIEs : ty := TStruct [
  ("Id", gp8, G_ProtocolExtensionID);
  ("Criticality", gp8, G_Criticality);
  ("ExtensionValue", gp9, G_QosFlowSetupResponseItemHOReqAckExtIEsExtensionValue)].
Definition G_ProtocolExtensionContainerQosFlowSetupResponseItemHOReqAckExtIEs : ty := TStruct [
  ("List", gp10, (TSlice G_QosFlowSetupResponseItemHOReqAckExtIEs))].
Definition G_QosFlowSetupResponseItemHOReqAck : ty := TStruct [
  ("QosFlowIdentifier", gp8, G_QosFlowIdentifier);
  ("DataForwardingAccepted", gp11, (TPtr G_DataForwardingAccepted));
  ("IEExtensions", gp11, (TPtr G_ProtocolExtensionContainerQosFlowSetupResponseItemHOReqAckExtIEs))].
Definition G_QosFlowSetupResponseListHOReqAck : ty := TStruct [
  ("List", gp69, (TSlice G_QosFlowSetupResponseItemHOReqAck))].
Definition G_HandoverRequestAcknowledgeTransferExtIEsExtensionValue : ty := TStruct [
  ("Present", gp8, TInt)].
Definition G_HandoverRequestAcknowledgeTransferExtIEs : ty := TStruct [
  ("Id", gp8, G_ProtocolExtensionID);
  ("Criticality", gp8, G_Criticality);
  ("ExtensionValue", gp9, G_HandoverRequestAcknowledgeTransferExtIEsExtensionValue)].
Definition G_ProtocolExtensionContainerHandoverRequestAcknowledgeTransferExtIEs : ty := TStruct [
  ("List", gp10, (TSlice G_HandoverRequestAcknowledgeTransferExtIEs))].
Definition G_HandoverRequestAcknowledgeTransfer : ty := TStruct [
  ("DLNGUUPTNLInformation", gp20, G_UPTransportLayerInformation);
  ("DLForwardingUPTNLInformation", gp154, (TPtr G_UPTransportLayerInformation));
  ("SecurityResult", gp58, (TPtr G_SecurityResult));
  ("QosFlowSetupResponseList", gp8, G_QosFlowSetupResponseListHOReqAck);
  ("QosFlowFailedToSetupList", gp11, (TPtr G_QosFlowList));
  ("DataForwardingResponseDRBList", gp11, (TPtr G_DataForwardingResponseDRBList));
  ("IEExtensions", gp11, (TPtr G_ProtocolExtensionContainerHandoverRequestAcknowledgeTransferExtIEs))].
Definition G_HandoverPreparationUnsuccessfulTransferExtIEsExtensionValue : ty := TStruct [
  ("Present", gp8, TInt)].
Definition G_HandoverPreparationUnsuccessfulTransferExtIEs : ty := TStruct [
  ("Id", gp8, G_ProtocolExtensionID);
  ("Criticality", gp8, G_Criticality);
  ("ExtensionValue", gp9, G_HandoverPreparationUnsuccessfulTransferExtIEsExtensionValue)].
Definition G_ProtocolExtensionContainerHandoverPreparationUnsuccessfulTransferExtIEs : ty := TStruct [
  ("List", gp10, (TSlice G_HandoverPreparationUnsuccessfulTransferExtIEs))].
Definition G_HandoverPreparationUnsuccessfulTransfer : ty := TStruct [
  ("Cause", gp224, G_Cause);
  ("IEExtensions", gp11, (TPtr G_ProtocolExtensionContainerHandoverPreparationUnsuccessfulTransferExtIEs))].
Definition G_HandoverResourceAllocationUnsuccessfulTransferExtIEsExtensionValue : ty := TStruct [
  ("Present", gp8, TInt)].
Definition G_HandoverResourceAllocationUnsuccessfulTransferExtIEs : ty := TStruct [
  ("Id", gp8, G_ProtocolExtensionID);
  ("Criticality", gp8, G_Criticality);
  ("ExtensionValue", gp9, G_HandoverResourceAllocationUnsuccessfulTransferExtIEsExtensionValue)].
Definition G_ProtocolExtensionContainerHandoverResourceAllocationUnsuccessfulTransferExtIEs : ty := TStruct [
  ("List", gp10, (TSlice G_HandoverResourceAllocationUnsuccessfulTransferExtIEs))].
Definition G_HandoverResourceAllocationUnsuccessfulTransfer : ty := TStruct [
  ("Cause", gp224, G_Cause);
  ("CriticalityDiagnostics", gp58, (TPtr G_CriticalityDiagnostics));
  ("IEExtensions", gp11, (TPtr G_ProtocolExtensionContainerHandoverResourceAllocationUnsuccessfulTransferExtIEs))].
Definition G_RRCContainer : ty := TStruct [
  ("Value", gp8, TOctets)].
Definition G_DLForwarding : ty := TStruct [
  ("Value", gp47, TEnum)].
Definition G_QosFlowInformationItemExtIEsExtensionValue : ty := TStruct [
  ("Present", gp8, TInt)].
Definition G_QosFlowInformationItemExtIEs : ty := TStruct [
  ("Id", gp8, G_ProtocolExtensionID);
  ("Criticality", gp8, G_Criticality);
  ("ExtensionValue", gp9, G_QosFlowInformationItemExtIEsExtensionValue)].
Definition G_ProtocolExtensionContainerQosFlowInformationItemExtIEs : ty := TStruct [
  ("List", gp10, (TSlice G_QosFlowInformationItemExtIEs))].
Definition G_QosFlowInformationItem : ty := TStruct [
  ("QosFlowIdentifier", gp8, G_QosFlowIdentifier);
  ("DLForwarding", gp11, (TPtr G_DLForwarding));
  ("IEExtensions", gp11, (TPtr G_ProtocolExtensionContainerQosFlowInformationItemExtIEs))].
Definition G_QosFlowInformationList : ty := TStruct [
  ("List", gp69, (TSlice G_QosFlowInformationItem))].
Definition G_DRBsToQosFlowsMappingItemExtIEsExtensionValue : ty := TStruct [
  ("Present", gp8, TInt)].
Definition G_DRBsToQosFlowsMappingItemExtIEs : ty := TStruct [
  ("Id", gp8, G_ProtocolExtensionID);
  ("Criticality", gp8, G_Criticality);
  ("ExtensionValue", gp9, G_DRBsToQosFlowsMappingItemExtIEsExtensionValue)].
Definition G_ProtocolExtensionContainerDRBsToQosFlowsMappingItemExtIEs : ty := TStruct [
  ("List", gp10, (TSlice G_DRBsToQosFlowsMappingItemExtIEs))].
Definition G_DRBsToQosFlowsMappingItem : ty := TStruct [
  ("DRBID", gp8, G_DRBID);
  ("AssociatedQosFlowList", gp8, G_AssociatedQosFlowList);
  ("IEExtensions", gp11, (TPtr G_ProtocolExtensionContainerDRBsToQosFlowsMappingItemExtIEs))].
Definition G_DRBsToQosFlowsMappingList : ty := TStruct [
  ("List", gp21, (TSlice G_DRBsToQosFlowsMappingItem))].
Definition G_PDUSessionResourceInformationItemExtIEsExtensionValue : ty := TStruct [
  ("Present", gp8, TInt)].
Definition G_PDUSessionResourceInformationItemExtIEs : ty := TStruct [
  ("Id", gp8, G_ProtocolExtensionID);
  ("Criticality", gp8, G_Criticality);
  ("ExtensionValue", gp9, G_PDUSessionResourceInformationItemExtIEsExtensionValue)].
Definition G_ProtocolExtensionContainerPDUSessionResourceInformationItemExtIEs : ty := TStruct [
  ("List", gp10, (TSlice G_PDUSessionResourceInformationItemExtIEs))].
Definition G_PDUSessionResourceInformationItem : ty := TStruct [
  ("PDUSessionID", gp8, G_PDUSessionID);
  ("QosFlowInformationList", gp8, G_QosFlowInformationList);
  ("DRBsToQosFlowsMappingList", gp11, (TPtr G_DRBsToQosFlowsMappingList));
  ("IEExtensions", gp11, (TPtr G_ProtocolExtensionContainerPDUSessionResourceInformationItemExtIEs))].
Definition G_PDUSessionResourceInformationList : ty := TStruct [
  ("List", gp14, (TSlice G_PDUSessionResourceInformationItem))].
Definition G_ERABInformationItemExtIEsExtensionValue : ty := TStruct [
  ("Present", gp8, TInt)].
Definition G_ERABInformationItemExtIEs : ty := TStruct [
  ("Id", gp8, G_ProtocolExtensionID);
  ("Criticality", gp8, G_Criticality);
  ("ExtensionValue", gp9, G_ERABInformationItemExtIEsExtensionValue)].
Definition G_ProtocolExtensionContainerERABInformationItemExtIEs : ty := TStruct [
  ("List", gp10, (TSlice G_ERABInformationItemExtIEs))].
Definition G_ERABInformationItem : ty := TStruct [
  ("ERABID", gp8, G_ERABID);
  ("DLForwarding", gp11, (TPtr G_DLForwarding));
  ("IEExtensions", gp11, (TPtr G_ProtocolExtensionContainerERABInformationItemExtIEs))].
Definition G_ERABInformationList : ty := TStruct [
  ("List", gp14, (TSlice G_ERABInformationItem))].
Definition G_CellSize : ty := TStruct [
  ("Value", gp34, TEnum)].
Definition G_CellTypeExtIEsExtensionValue : ty := TStruct [
  ("Present", gp8, TInt)].
Definition G_CellTypeExtIEs : ty := TStruct [
  ("Id", gp8, G_ProtocolExtensionID);
  ("Criticality", gp8, G_Criticality);
  ("ExtensionValue", gp9, G_CellTypeExtIEsExtensionValue)].
Definition G_ProtocolExtensionContainerCellTypeExtIEs : ty := TStruct [
  ("List", gp10, (TSlice G_CellTypeExtIEs))].
Definition G_CellType : ty := TStruct [
  ("CellSize", gp8, G_CellSize);
  ("IEExtensions", gp11, (TPtr G_ProtocolExtensionContainerCellTypeExtIEs))].
Definition G_TimeUEStayedInCell : ty := TStruct [
  ("Value", gp139, TInt)].
Definition G_TimeUEStayedInCellEnhancedGranularity : ty := TStruct [
  ("Value", gp275, TInt)].
Definition G_LastVisitedNGRANCellInformationExtIEsExtensionValue : ty := TStruct [
  ("Present", gp8, TInt)].
Definition G_LastVisitedNGRANCellInformationExtIEs : ty := TStruct [
  ("Id", gp8, G_ProtocolExtensionID);
  ("Criticality", gp8, G_Criticality);
  ("ExtensionValue", gp9, G_LastVisitedNGRANCellInformationExtIEsExtensionValue)].
Definition G_ProtocolExtensionContainerLastVisitedNGRANCellInformationExtIEs : ty := TStruct [
  ("List", gp10, (TSlice G_LastVisitedNGRANCellInformationExtIEs))].
Definition G_LastVisitedNGRANCellInformation : ty := TStruct [
  ("GlobalCellID", gp1, G_NGRANCGI);
  ("CellType", gp12, G_CellType);
  ("TimeUEStayedInCell", gp8, G_TimeUEStayedInCell);
  ("TimeUEStayedInCellEnhancedGranularity", gp11, (TPtr G_TimeUEStayedInCellEnhancedGranularity));
  ("HOCauseValue", gp276, (TPtr G_Cause));
  ("IEExtensions", gp11, (TPtr G_ProtocolExtensionContainerLastVisitedNGRANCellInformationExtIEs))].
Definition G_LastVisitedEUTRANCellInformation : ty := TStruct [
  ("Value", gp8, TOctets)].
Definition G_LastVisitedUTRANCellInformation : ty := TStruct [
  ("Value", gp8, TOctets)].
Definition G_LastVisitedGERANCellInformation : ty := TStruct [
  ("Value", gp8, TOctets)].
Definition G_ProtocolIESingleContainerLastVisitedCellInformationExtIEs : ty := TStruct [].
Definition G_LastVisitedCellInformation : ty := TStruct [
  ("Present", gp8, TInt);
  ("NGRANCell", gp12, (TPtr G_LastVisitedNGRANCellInformation));
  ("EUTRANCell", gp8, (TPtr G_LastVisitedEUTRANCellInformation));
  ("UTRANCell", gp8, (TPtr G_LastVisitedUTRANCellInformation));
  ("GERANCell", gp8, (TPtr G_LastVisitedGERANCellInformation));
  ("ChoiceExtensions", gp8, (TPtr G_ProtocolIESingleContainerLastVisitedCellInformationExtIEs))].
Definition G_LastVisitedCellItemExtIEsExtensionValue : ty := TStruct [
  ("Present", gp8, TInt)].
Definition G_LastVisitedCellItemExtIEs : ty := TStruct [
  ("Id", gp8, G_ProtocolExtensionID);
  ("Criticality", gp8, G_Criticality);
  ("ExtensionValue", gp9, G_LastVisitedCellItemExtIEsExtensionValue)].
Definition G_ProtocolExtensionContainerLastVisitedCellItemExtIEs : ty := TStruct [
  ("List", gp10, (TSlice G_LastVisitedCellItemExtIEs))].
Definition G_LastVisitedCellItem : ty := TStruct [
  ("LastVisitedCellInformation", gp277, G_LastVisitedCellInformation);
  ("IEExtensions", gp11, (TPtr G_ProtocolExtensionContainerLastVisitedCellItemExtIEs))].
Definition G_UEHistoryInformation : ty := TStruct [
  ("List", gp54, (TSlice G_LastVisitedCellItem))].
Definition G_SourceNGRANNodeToTargetNGRANNodeTransparentContainerExtIEsExtensionValue : ty := TStruct [
  ("Present", gp8, TInt)].
Definition G_SourceNGRANNodeToTargetNGRANNodeTransparentContainerExtIEs : ty := TStruct [
  ("Id", gp8, G_ProtocolExtensionID);
  ("Criticality", gp8, G_Criticality);
  ("ExtensionValue", gp9, G_SourceNGRANNodeToTargetNGRANNodeTransparentContainerExtIEsExtensionValue)].
Definition G_ProtocolExtensionContainerSourceNGRANNodeToTargetNGRANNodeTransparentContainerExtIEs : ty := TStruct [
  ("List", gp10, (TSlice G_SourceNGRANNodeToTargetNGRANNodeTransparentContainerExtIEs))].
Definition G_SourceNGRANNodeToTargetNGRANNodeTransparentContainer : ty := TStruct [
  ("RRCContainer", gp8, G_RRCContainer);
  ("PDUSessionResourceInformationList", gp11, (TPtr G_PDUSessionResourceInformationList));
  ("ERABInformationList", gp11, (TPtr G_ERABInformationList));
  ("TargetCellID", gp1, G_NGRANCGI);
  ("IndexToRFSP", gp11, (TPtr G_IndexToRFSP));
  ("UEHistoryInformation", gp8, G_UEHistoryInformation);
  ("IEExtensions", gp11, (TPtr G_ProtocolExtensionContainerSourceNGRANNodeToTargetNGRANNodeTransparentContainerExtIEs))].
Definition G_TargetNGRANNodeToSourceNGRANNodeTransparentContainerExtIEsExtensionValue : ty := TStruct [
  ("Present", gp8, TInt)].
Definition G_TargetNGRANNodeToSourceNGRANNodeTransparentContainerExtIEs : ty := TStruct [
  ("Id", gp8, G_ProtocolExtensionID);
  ("Criticality", gp8, G_Criticality);
  ("ExtensionValue", gp9, G_TargetNGRANNodeToSourceNGRANNodeTransparentContainerExtIEsExtensionValue)].
Definition G_ProtocolExtensionContainerTargetNGRANNodeToSourceNGRANNodeTransparentContainerExtIEs : ty := TStruct [
  ("List", gp10, (TSlice G_TargetNGRANNodeToSourceNGRANNodeTransparentContainerExtIEs))].
Definition G_TargetNGRANNodeToSourceNGRANNodeTransparentContainer : ty := TStruct [
  ("RRCContainer", gp8, G_RRCContainer);
  ("IEExtensions", gp11, (TPtr G_ProtocolExtensionContainerTargetNGRANNodeToSourceNGRANNodeTransparentContainerExtIEs))].

(* name, type, parameters of the encoding call, parameters of the decoding call *)
Definition golden_roots_full : list (string * ty * params * params) := [
  ("NGAPPDU", G_NGAPPDU, gp19, gp19);
  ("PDUSessionResourceSetupRequestTransfer", G_PDUSessionResourceSetupRequestTransfer, gp12, gp12);
  ("PDUSessionResourceSetupResponseTransfer", G_PDUSessionResourceSetupResponseTransfer, gp12, gp12);
  ("PDUSessionResourceSetupUnsuccessfulTransfer", G_PDUSessionResourceSetupUnsuccessfulTransfer, gp12, gp12);
  ("PDUSessionResourceReleaseCommandTransfer", G_PDUSessionResourceReleaseCommandTransfer, gp12, gp12);
  ("PDUSessionResourceReleaseResponseTransfer", G_PDUSessionResourceReleaseResponseTransfer, gp12, gp12);
  ("PDUSessionResourceModifyRequestTransfer", G_PDUSessionResourceModifyRequestTransfer, gp12, gp12);
  ("PDUSessionResourceModifyResponseTransfer", G_PDUSessionResourceModifyResponseTransfer, gp12, gp12);
  ("PDUSessionResourceModifyUnsuccessfulTransfer", G_PDUSessionResourceModifyUnsuccessfulTransfer, gp12, gp12);
  ("PDUSessionResourceModifyIndicationTransfer", G_PDUSessionResourceModifyIndicationTransfer, gp12, gp12);
  ("PDUSessionResourceModifyConfirmTransfer", G_PDUSessionResourceModifyConfirmTransfer, gp12, gp12);
  ("PDUSessionResourceModifyIndicationUnsuccessfulTransfer", G_PDUSessionResourceModifyIndicationUnsuccessfulTransfer, gp12, gp12);
  ("PDUSessionResourceNotifyTransfer", G_PDUSessionResourceNotifyTransfer, gp12, gp12);
  ("PDUSessionResourceNotifyReleasedTransfer", G_PDUSessionResourceNotifyReleasedTransfer, gp12, gp12);
  ("PathSwitchRequestTransfer", G_PathSwitchRequestTransfer, gp12, gp12);
  ("PathSwitchRequestSetupFailedTransfer", G_PathSwitchRequestSetupFailedTransfer, gp12, gp12);
  ("PathSwitchRequestAcknowledgeTransfer", G_PathSwitchRequestAcknowledgeTransfer, gp12, gp12);
  ("PathSwitchRequestUnsuccessfulTransfer", G_PathSwitchRequestUnsuccessfulTransfer, gp12, gp12);
  ("HandoverRequiredTransfer", G_HandoverRequiredTransfer, gp12, gp12);
  ("HandoverCommandTransfer", G_HandoverCommandTransfer, gp12, gp12);
  ("HandoverRequestAcknowledgeTransfer", G_HandoverRequestAcknowledgeTransfer, gp12, gp12);
  ("HandoverPreparationUnsuccessfulTransfer", G_HandoverPreparationUnsuccessfulTransfer, gp12, gp12);
  ("HandoverResourceAllocationUnsuccessfulTransfer", G_HandoverResourceAllocationUnsuccessfulTransfer, gp12, gp12);
  ("SourceNGRANNodeToTargetNGRANNodeTransparentContainer", G_SourceNGRANNodeToTargetNGRANNodeTransparentContainer, gp12, gp12);
  ("TargetNGRANNodeToSourceNGRANNodeTransparentContainer", G_TargetNGRANNodeToSourceNGRANNodeTransparentContainer, gp12, gp12)].
Definition golden_roots : list (string * ty * params) := map (fun r => let '(n, t, pe, _) := r in (n, t, pe)) golden_roots_full.

(* all struct types, dependencies first, with reflect's Size() *)
Definition golden_types : list (string * ty * N) := [
  ("ProcedureCode", G_ProcedureCode, 8%N);
  ("Criticality", G_Criticality, 8%N);
  ("ProtocolIEID", G_ProtocolIEID, 8%N);
  ("AMFName", G_AMFName, 16%N);
  ("PLMNIdentity", G_PLMNIdentity, 24%N);
  ("AMFRegionID", G_AMFRegionID, 32%N);
  ("AMFSetID", G_AMFSetID, 32%N);
  ("AMFPointer", G_AMFPointer, 32%N);
  ("ProtocolExtensionID", G_ProtocolExtensionID, 8%N);
  ("GUAMIExtIEsExtensionValue", G_GUAMIExtIEsExtensionValue, 8%N);
  ("GUAMIExtIEs", G_GUAMIExtIEs, 24%N);
  ("ProtocolExtensionContainerGUAMIExtIEs", G_ProtocolExtensionContainerGUAMIExtIEs, 24%N);
  ("GUAMI", G_GUAMI, 128%N);
  ("ServedGUAMIItemExtIEsExtensionValue", G_ServedGUAMIItemExtIEsExtensionValue, 8%N);
  ("ServedGUAMIItemExtIEs", G_ServedGUAMIItemExtIEs, 24%N);
  ("ProtocolExtensionContainerServedGUAMIItemExtIEs", G_ProtocolExtensionContainerServedGUAMIItemExtIEs, 24%N);
  ("ServedGUAMIItem", G_ServedGUAMIItem, 144%N);
  ("ServedGUAMIList", G_ServedGUAMIList, 24%N);
  ("RelativeAMFCapacity", G_RelativeAMFCapacity, 8%N);
  ("SST", G_SST, 24%N);
  ("SD", G_SD, 24%N);
  ("SNSSAIExtIEsExtensionValue", G_SNSSAIExtIEsExtensionValue, 8%N);
  ("SNSSAIExtIEs", G_SNSSAIExtIEs, 24%N);
  ("ProtocolExtensionContainerSNSSAIExtIEs", G_ProtocolExtensionContainerSNSSAIExtIEs, 24%N);
  ("SNSSAI", G_SNSSAI, 40%N);
  ("SliceSupportItemExtIEsExtensionValue", G_SliceSupportItemExtIEsExtensionValue, 8%N);
  ("SliceSupportItemExtIEs", G_SliceSupportItemExtIEs, 24%N);
  ("ProtocolExtensionContainerSliceSupportItemExtIEs", G_ProtocolExtensionContainerSliceSupportItemExtIEs, 24%N);
  ("SliceSupportItem", G_SliceSupportItem, 48%N);
  ("SliceSupportList", G_SliceSupportList, 24%N);
  ("PLMNSupportItemExtIEsExtensionValue", G_PLMNSupportItemExtIEsExtensionValue, 8%N);
  ("PLMNSupportItemExtIEs", G_PLMNSupportItemExtIEs, 24%N);
  ("ProtocolExtensionContainerPLMNSupportItemExtIEs", G_ProtocolExtensionContainerPLMNSupportItemExtIEs, 24%N);
  ("PLMNSupportItem", G_PLMNSupportItem, 56%N);
  ("PLMNSupportList", G_PLMNSupportList, 24%N);
  ("TransportLayerAddress", G_TransportLayerAddress, 32%N);
  ("ProtocolIESingleContainerCPTransportLayerInformationExtIEs", G_ProtocolIESingleContainerCPTransportLayerInformationExtIEs, 0%N);
  ("CPTransportLayerInformation", G_CPTransportLayerInformation, 24%N);
  ("TNLAssociationUsage", G_TNLAssociationUsage, 8%N);
  ("TNLAddressWeightFactor", G_TNLAddressWeightFactor, 8%N);
  ("AMFTNLAssociationToAddItemExtIEsExtensionValue", G_AMFTNLAssociationToAddItemExtIEsExtensionValue, 8%N);
  ("AMFTNLAssociationToAddItemExtIEs", G_AMFTNLAssociationToAddItemExtIEs, 24%N);
  ("ProtocolExtensionContainerAMFTNLAssociationToAddItemExtIEs", G_ProtocolExtensionContainerAMFTNLAssociationToAddItemExtIEs, 24%N);
  ("AMFTNLAssociationToAddItem", G_AMFTNLAssociationToAddItem, 48%N);
  ("AMFTNLAssociationToAddList", G_AMFTNLAssociationToAddList, 24%N);
  ("AMFTNLAssociationToRemoveItemExtIEsExtensionValue", G_AMFTNLAssociationToRemoveItemExtIEsExtensionValue, 8%N);
  ("AMFTNLAssociationToRemoveItemExtIEs", G_AMFTNLAssociationToRemoveItemExtIEs, 24%N);
  ("ProtocolExtensionContainerAMFTNLAssociationToRemoveItemExtIEs", G_ProtocolExtensionContainerAMFTNLAssociationToRemoveItemExtIEs, 24%N);
  ("AMFTNLAssociationToRemoveItem", G_AMFTNLAssociationToRemoveItem, 32%N);
  ("AMFTNLAssociationToRemoveList", G_AMFTNLAssociationToRemoveList, 24%N);
  ("AMFTNLAssociationToUpdateItemExtIEsExtensionValue", G_AMFTNLAssociationToUpdateItemExtIEsExtensionValue, 8%N);
  ("AMFTNLAssociationToUpdateItemExtIEs", G_AMFTNLAssociationToUpdateItemExtIEs, 24%N);
  ("ProtocolExtensionContainerAMFTNLAssociationToUpdateItemExtIEs", G_ProtocolExtensionContainerAMFTNLAssociationToUpdateItemExtIEs, 24%N);
  ("AMFTNLAssociationToUpdateItem", G_AMFTNLAssociationToUpdateItem, 48%N);
  ("AMFTNLAssociationToUpdateList", G_AMFTNLAssociationToUpdateList, 24%N);
  ("AMFConfigurationUpdateIEsValue", G_AMFConfigurationUpdateIEsValue, 64%N);
  ("AMFConfigurationUpdateIEs", G_AMFConfigurationUpdateIEs, 80%N);
  ("ProtocolIEContainerAMFConfigurationUpdateIEs", G_ProtocolIEContainerAMFConfigurationUpdateIEs, 24%N);
  ("AMFConfigurationUpdate", G_AMFConfigurationUpdate, 24%N);
  ("AMFUENGAPID", G_AMFUENGAPID, 8%N);
  ("RANUENGAPID", G_RANUENGAPID, 8%N);
  ("CauseRadioNetwork", G_CauseRadioNetwork, 8%N);
  ("CauseTransport", G_CauseTransport, 8%N);
  ("CauseNas", G_CauseNas, 8%N);
  ("CauseProtocol", G_CauseProtocol, 8%N);
  ("CauseMisc", G_CauseMisc, 8%N);
  ("ProtocolIESingleContainerCauseExtIEs", G_ProtocolIESingleContainerCauseExtIEs, 0%N);
  ("Cause", G_Cause, 56%N);
  ("HandoverCancelIEsValue", G_HandoverCancelIEsValue, 32%N);
  ("HandoverCancelIEs", G_HandoverCancelIEs, 48%N);
  ("ProtocolIEContainerHandoverCancelIEs", G_ProtocolIEContainerHandoverCancelIEs, 24%N);
  ("HandoverCancel", G_HandoverCancel, 24%N);
  ("HandoverType", G_HandoverType, 8%N);
  ("ProtocolIESingleContainerGNBIDExtIEs", G_ProtocolIESingleContainerGNBIDExtIEs, 0%N);
  ("GNBID", G_GNBID, 24%N);
  ("GlobalGNBIDExtIEsExtensionValue", G_GlobalGNBIDExtIEsExtensionValue, 8%N);
  ("GlobalGNBIDExtIEs", G_GlobalGNBIDExtIEs, 24%N);
  ("ProtocolExtensionContainerGlobalGNBIDExtIEs", G_ProtocolExtensionContainerGlobalGNBIDExtIEs, 24%N);
  ("GlobalGNBID", G_GlobalGNBID, 56%N);
  ("ProtocolIESingleContainerNgENBIDExtIEs", G_ProtocolIESingleContainerNgENBIDExtIEs, 0%N);
  ("NgENBID", G_NgENBID, 40%N);
  ("GlobalNgENBIDExtIEsExtensionValue", G_GlobalNgENBIDExtIEsExtensionValue, 8%N);
  ("GlobalNgENBIDExtIEs", G_GlobalNgENBIDExtIEs, 24%N);
  ("ProtocolExtensionContainerGlobalNgENBIDExtIEs", G_ProtocolExtensionContainerGlobalNgENBIDExtIEs, 24%N);
  ("GlobalNgENBID", G_GlobalNgENBID, 72%N);
  ("ProtocolIESingleContainerN3IWFIDExtIEs", G_ProtocolIESingleContainerN3IWFIDExtIEs, 0%N);
  ("N3IWFID", G_N3IWFID, 24%N);
  ("GlobalN3IWFIDExtIEsExtensionValue", G_GlobalN3IWFIDExtIEsExtensionValue, 8%N);
  ("GlobalN3IWFIDExtIEs", G_GlobalN3IWFIDExtIEs, 24%N);
  ("ProtocolExtensionContainerGlobalN3IWFIDExtIEs", G_ProtocolExtensionContainerGlobalN3IWFIDExtIEs, 24%N);
  ("GlobalN3IWFID", G_GlobalN3IWFID, 56%N);
  ("ProtocolIESingleContainerGlobalRANNodeIDExtIEs", G_ProtocolIESingleContainerGlobalRANNodeIDExtIEs, 0%N);
  ("GlobalRANNodeID", G_GlobalRANNodeID, 40%N);
  ("TAC", G_TAC, 24%N);
  ("TAIExtIEsExtensionValue", G_TAIExtIEsExtensionValue, 8%N);
  ("TAIExtIEs", G_TAIExtIEs, 24%N);
  ("ProtocolExtensionContainerTAIExtIEs", G_ProtocolExtensionContainerTAIExtIEs, 24%N);
  ("TAI", G_TAI, 56%N);
  ("TargetRANNodeIDExtIEsExtensionValue", G_TargetRANNodeIDExtIEsExtensionValue, 8%N);
  ("TargetRANNodeIDExtIEs", G_TargetRANNodeIDExtIEs, 24%N);
  ("ProtocolExtensionContainerTargetRANNodeIDExtIEs", G_ProtocolExtensionContainerTargetRANNodeIDExtIEs, 24%N);
  ("TargetRANNodeID", G_TargetRANNodeID, 104%N);
  ("EPSTAC", G_EPSTAC, 24%N);
  ("EPSTAIExtIEsExtensionValue", G_EPSTAIExtIEsExtensionValue, 8%N);
  ("EPSTAIExtIEs", G_EPSTAIExtIEs, 24%N);
  ("ProtocolExtensionContainerEPSTAIExtIEs", G_ProtocolExtensionContainerEPSTAIExtIEs, 24%N);
  ("EPSTAI", G_EPSTAI, 56%N);
  ("TargeteNBIDExtIEsExtensionValue", G_TargeteNBIDExtIEsExtensionValue, 8%N);
  ("TargeteNBIDExtIEs", G_TargeteNBIDExtIEs, 24%N);
  ("ProtocolExtensionContainerTargeteNBIDExtIEs", G_ProtocolExtensionContainerTargeteNBIDExtIEs, 24%N);
  ("TargeteNBID", G_TargeteNBID, 136%N);
  ("ProtocolIESingleContainerTargetIDExtIEs", G_ProtocolIESingleContainerTargetIDExtIEs, 0%N);
  ("TargetID", G_TargetID, 32%N);
  ("DirectForwardingPathAvailability", G_DirectForwardingPathAvailability, 8%N);
  ("PDUSessionID", G_PDUSessionID, 8%N);
  ("PDUSessionResourceItemHORqdExtIEsExtensionValue", G_PDUSessionResourceItemHORqdExtIEsExtensionValue, 8%N);
  ("PDUSessionResourceItemHORqdExtIEs", G_PDUSessionResourceItemHORqdExtIEs, 24%N);
  ("ProtocolExtensionContainerPDUSessionResourceItemHORqdExtIEs", G_ProtocolExtensionContainerPDUSessionResourceItemHORqdExtIEs, 24%N);
  ("PDUSessionResourceItemHORqd", G_PDUSessionResourceItemHORqd, 40%N);
  ("PDUSessionResourceListHORqd", G_PDUSessionResourceListHORqd, 24%N);
  ("SourceToTargetTransparentContainer", G_SourceToTargetTransparentContainer, 24%N);
  ("HandoverRequiredIEsValue", G_HandoverRequiredIEsValue, 72%N);
  ("HandoverRequiredIEs", G_HandoverRequiredIEs, 88%N);
  ("ProtocolIEContainerHandoverRequiredIEs", G_ProtocolIEContainerHandoverRequiredIEs, 24%N);
  ("HandoverRequired", G_HandoverRequired, 24%N);
  ("BitRate", G_BitRate, 8%N);
  ("UEAggregateMaximumBitRateExtIEsExtensionValue", G_UEAggregateMaximumBitRateExtIEsExtensionValue, 8%N);
  ("UEAggregateMaximumBitRateExtIEs", G_UEAggregateMaximumBitRateExtIEs, 24%N);
  ("ProtocolExtensionContainerUEAggregateMaximumBitRateExtIEs", G_ProtocolExtensionContainerUEAggregateMaximumBitRateExtIEs, 24%N);
  ("UEAggregateMaximumBitRate", G_UEAggregateMaximumBitRate, 24%N);
  ("ProtocolIESingleContainerUEIdentityIndexValueExtIEs", G_ProtocolIESingleContainerUEIdentityIndexValueExtIEs, 0%N);
  ("UEIdentityIndexValue", G_UEIdentityIndexValue, 24%N);
  ("PagingDRX", G_PagingDRX, 8%N);
  ("PeriodicRegistrationUpdateTimer", G_PeriodicRegistrationUpdateTimer, 32%N);
  ("MICOModeIndication", G_MICOModeIndication, 8%N);
  ("TAIListForInactiveItemExtIEsExtensionValue", G_TAIListForInactiveItemExtIEsExtensionValue, 8%N);
  ("TAIListForInactiveItemExtIEs", G_TAIListForInactiveItemExtIEs, 24%N);
  ("ProtocolExtensionContainerTAIListForInactiveItemExtIEs", G_ProtocolExtensionContainerTAIListForInactiveItemExtIEs, 24%N);
  ("TAIListForInactiveItem", G_TAIListForInactiveItem, 64%N);
  ("TAIListForInactive", G_TAIListForInactive, 24%N);
  ("ExpectedActivityPeriod", G_ExpectedActivityPeriod, 8%N);
  ("ExpectedIdlePeriod", G_ExpectedIdlePeriod, 8%N);
  ("SourceOfUEActivityBehaviourInformation", G_SourceOfUEActivityBehaviourInformation, 8%N);
  ("ExpectedUEActivityBehaviourExtIEsExtensionValue", G_ExpectedUEActivityBehaviourExtIEsExtensionValue, 8%N);
  ("ExpectedUEActivityBehaviourExtIEs", G_ExpectedUEActivityBehaviourExtIEs, 24%N);
  ("ProtocolExtensionContainerExpectedUEActivityBehaviourExtIEs", G_ProtocolExtensionContainerExpectedUEActivityBehaviourExtIEs, 24%N);
  ("ExpectedUEActivityBehaviour", G_ExpectedUEActivityBehaviour, 32%N);
  ("ExpectedHOInterval", G_ExpectedHOInterval, 8%N);
  ("ExpectedUEMobility", G_ExpectedUEMobility, 8%N);
  ("NRCellIdentity", G_NRCellIdentity, 32%N);
  ("NRCGIExtIEsExtensionValue", G_NRCGIExtIEsExtensionValue, 8%N);
  ("NRCGIExtIEs", G_NRCGIExtIEs, 24%N);
  ("ProtocolExtensionContainerNRCGIExtIEs", G_ProtocolExtensionContainerNRCGIExtIEs, 24%N);
  ("NRCGI", G_NRCGI, 64%N);
  ("EUTRACellIdentity", G_EUTRACellIdentity, 32%N);
  ("EUTRACGIExtIEsExtensionValue", G_EUTRACGIExtIEsExtensionValue, 8%N);
  ("EUTRACGIExtIEs", G_EUTRACGIExtIEs, 24%N);
  ("ProtocolExtensionContainerEUTRACGIExtIEs", G_ProtocolExtensionContainerEUTRACGIExtIEs, 24%N);
  ("EUTRACGI", G_EUTRACGI, 64%N);
  ("ProtocolIESingleContainerNGRANCGIExtIEs", G_ProtocolIESingleContainerNGRANCGIExtIEs, 0%N);
  ("NGRANCGI", G_NGRANCGI, 32%N);
  ("ExpectedUEMovingTrajectoryItemExtIEsExtensionValue", G_ExpectedUEMovingTrajectoryItemExtIEsExtensionValue, 8%N);
  ("ExpectedUEMovingTrajectoryItemExtIEs", G_ExpectedUEMovingTrajectoryItemExtIEs, 24%N);
  ("ProtocolExtensionContainerExpectedUEMovingTrajectoryItemExtIEs", G_ProtocolExtensionContainerExpectedUEMovingTrajectoryItemExtIEs, 24%N);
  ("ExpectedUEMovingTrajectoryItem", G_ExpectedUEMovingTrajectoryItem, 48%N);
  ("ExpectedUEMovingTrajectory", G_ExpectedUEMovingTrajectory, 24%N);
  ("ExpectedUEBehaviourExtIEsExtensionValue", G_ExpectedUEBehaviourExtIEsExtensionValue, 8%N);
  ("ExpectedUEBehaviourExtIEs", G_ExpectedUEBehaviourExtIEs, 24%N);
  ("ProtocolExtensionContainerExpectedUEBehaviourExtIEs", G_ProtocolExtensionContainerExpectedUEBehaviourExtIEs, 24%N);
  ("ExpectedUEBehaviour", G_ExpectedUEBehaviour, 40%N);
  ("CoreNetworkAssistanceInformationExtIEsExtensionValue", G_CoreNetworkAssistanceInformationExtIEsExtensionValue, 8%N);
  ("CoreNetworkAssistanceInformationExtIEs", G_CoreNetworkAssistanceInformationExtIEs, 24%N);
  ("ProtocolExtensionContainerCoreNetworkAssistanceInformationExtIEs", G_ProtocolExtensionContainerCoreNetworkAssistanceInformationExtIEs, 24%N);
  ("CoreNetworkAssistanceInformation", G_CoreNetworkAssistanceInformation, 112%N);
  ("NRencryptionAlgorithms", G_NRencryptionAlgorithms, 32%N);
  ("NRintegrityProtectionAlgorithms", G_NRintegrityProtectionAlgorithms, 32%N);
  ("EUTRAencryptionAlgorithms", G_EUTRAencryptionAlgorithms, 32%N);
  ("EUTRAintegrityProtectionAlgorithms", G_EUTRAintegrityProtectionAlgorithms, 32%N);
  ("UESecurityCapabilitiesExtIEsExtensionValue", G_UESecurityCapabilitiesExtIEsExtensionValue, 8%N);
  ("UESecurityCapabilitiesExtIEs", G_UESecurityCapabilitiesExtIEs, 24%N);
  ("ProtocolExtensionContainerUESecurityCapabilitiesExtIEs", G_ProtocolExtensionContainerUESecurityCapabilitiesExtIEs, 24%N);
  ("UESecurityCapabilities", G_UESecurityCapabilities, 136%N);
  ("NextHopChainingCount", G_NextHopChainingCount, 8%N);
  ("SecurityKey", G_SecurityKey, 32%N);
  ("SecurityContextExtIEsExtensionValue", G_SecurityContextExtIEsExtensionValue, 8%N);
  ("SecurityContextExtIEs", G_SecurityContextExtIEs, 24%N);
  ("ProtocolExtensionContainerSecurityContextExtIEs", G_ProtocolExtensionContainerSecurityContextExtIEs, 24%N);
  ("SecurityContext", G_SecurityContext, 48%N);
  ("NewSecurityContextInd", G_NewSecurityContextInd, 8%N);
  ("NASPDU", G_NASPDU, 24%N);
  ("PDUSessionResourceSetupItemHOReqExtIEsExtensionValue", G_PDUSessionResourceSetupItemHOReqExtIEsExtensionValue, 8%N);
  ("PDUSessionResourceSetupItemHOReqExtIEs", G_PDUSessionResourceSetupItemHOReqExtIEs, 24%N);
  ("ProtocolExtensionContainerPDUSessionResourceSetupItemHOReqExtIEs", G_ProtocolExtensionContainerPDUSessionResourceSetupItemHOReqExtIEs, 24%N);
  ("PDUSessionResourceSetupItemHOReq", G_PDUSessionResourceSetupItemHOReq, 80%N);
  ("PDUSessionResourceSetupListHOReq", G_PDUSessionResourceSetupListHOReq, 24%N);
  ("AllowedNSSAIItemExtIEsExtensionValue", G_AllowedNSSAIItemExtIEsExtensionValue, 8%N);
  ("AllowedNSSAIItemExtIEs", G_AllowedNSSAIItemExtIEs, 24%N);
  ("ProtocolExtensionContainerAllowedNSSAIItemExtIEs", G_ProtocolExtensionContainerAllowedNSSAIItemExtIEs, 24%N);
  ("AllowedNSSAIItem", G_AllowedNSSAIItem, 48%N);
  ("AllowedNSSAI", G_AllowedNSSAI, 24%N);
  ("NGRANTraceID", G_NGRANTraceID, 24%N);
  ("InterfacesToTrace", G_InterfacesToTrace, 32%N);
  ("TraceDepth", G_TraceDepth, 8%N);
  ("TraceActivationExtIEsExtensionValue", G_TraceActivationExtIEsExtensionValue, 8%N);
  ("TraceActivationExtIEs", G_TraceActivationExtIEs, 24%N);
  ("ProtocolExtensionContainerTraceActivationExtIEs", G_ProtocolExtensionContainerTraceActivationExtIEs, 24%N);
  ("TraceActivation", G_TraceActivation, 104%N);
  ("MaskedIMEISV", G_MaskedIMEISV, 32%N);
  ("EquivalentPLMNs", G_EquivalentPLMNs, 24%N);
  ("RATRestrictionInformation", G_RATRestrictionInformation, 32%N);
  ("RATRestrictionsItemExtIEsExtensionValue", G_RATRestrictionsItemExtIEsExtensionValue, 8%N);
  ("RATRestrictionsItemExtIEs", G_RATRestrictionsItemExtIEs, 24%N);
  ("ProtocolExtensionContainerRATRestrictionsItemExtIEs", G_ProtocolExtensionContainerRATRestrictionsItemExtIEs, 24%N);
  ("RATRestrictionsItem", G_RATRestrictionsItem, 64%N);
  ("RATRestrictions", G_RATRestrictions, 24%N);
  ("ForbiddenTACs", G_ForbiddenTACs, 24%N);
  ("ForbiddenAreaInformationItemExtIEsExtensionValue", G_ForbiddenAreaInformationItemExtIEsExtensionValue, 8%N);
  ("ForbiddenAreaInformationItemExtIEs", G_ForbiddenAreaInformationItemExtIEs, 24%N);
  ("ProtocolExtensionContainerForbiddenAreaInformationItemExtIEs", G_ProtocolExtensionContainerForbiddenAreaInformationItemExtIEs, 24%N);
  ("ForbiddenAreaInformationItem", G_ForbiddenAreaInformationItem, 56%N);
  ("ForbiddenAreaInformation", G_ForbiddenAreaInformation, 24%N);
  ("AllowedTACs", G_AllowedTACs, 24%N);
  ("NotAllowedTACs", G_NotAllowedTACs, 24%N);
  ("ServiceAreaInformationItemExtIEsExtensionValue", G_ServiceAreaInformationItemExtIEsExtensionValue, 8%N);
  ("ServiceAreaInformationItemExtIEs", G_ServiceAreaInformationItemExtIEs, 24%N);
  ("ProtocolExtensionContainerServiceAreaInformationItemExtIEs", G_ProtocolExtensionContainerServiceAreaInformationItemExtIEs, 24%N);
  ("ServiceAreaInformationItem", G_ServiceAreaInformationItem, 48%N);
  ("ServiceAreaInformation", G_ServiceAreaInformation, 24%N);
  ("MobilityRestrictionListExtIEsExtensionValue", G_MobilityRestrictionListExtIEsExtensionValue, 8%N);
  ("MobilityRestrictionListExtIEs", G_MobilityRestrictionListExtIEs, 24%N);
  ("ProtocolExtensionContainerMobilityRestrictionListExtIEs", G_ProtocolExtensionContainerMobilityRestrictionListExtIEs, 24%N);
  ("MobilityRestrictionList", G_MobilityRestrictionList, 64%N);
  ("EventType", G_EventType, 8%N);
  ("ReportArea", G_ReportArea, 8%N);
  ("AreaOfInterestTAIItemExtIEsExtensionValue", G_AreaOfInterestTAIItemExtIEsExtensionValue, 8%N);
  ("AreaOfInterestTAIItemExtIEs", G_AreaOfInterestTAIItemExtIEs, 24%N);
  ("ProtocolExtensionContainerAreaOfInterestTAIItemExtIEs", G_ProtocolExtensionContainerAreaOfInterestTAIItemExtIEs, 24%N);
  ("AreaOfInterestTAIItem", G_AreaOfInterestTAIItem, 64%N);
  ("AreaOfInterestTAIList", G_AreaOfInterestTAIList, 24%N);
  ("AreaOfInterestCellItemExtIEsExtensionValue", G_AreaOfInterestCellItemExtIEsExtensionValue, 8%N);
  ("AreaOfInterestCellItemExtIEs", G_AreaOfInterestCellItemExtIEs, 24%N);
  ("ProtocolExtensionContainerAreaOfInterestCellItemExtIEs", G_ProtocolExtensionContainerAreaOfInterestCellItemExtIEs, 24%N);
  ("AreaOfInterestCellItem", G_AreaOfInterestCellItem, 40%N);
  ("AreaOfInterestCellList", G_AreaOfInterestCellList, 24%N);
  ("AreaOfInterestRANNodeItemExtIEsExtensionValue", G_AreaOfInterestRANNodeItemExtIEsExtensionValue, 8%N);
  ("AreaOfInterestRANNodeItemExtIEs", G_AreaOfInterestRANNodeItemExtIEs, 24%N);
  ("ProtocolExtensionContainerAreaOfInterestRANNodeItemExtIEs", G_ProtocolExtensionContainerAreaOfInterestRANNodeItemExtIEs, 24%N);
  ("AreaOfInterestRANNodeItem", G_AreaOfInterestRANNodeItem, 48%N);
  ("AreaOfInterestRANNodeList", G_AreaOfInterestRANNodeList, 24%N);
  ("AreaOfInterestExtIEsExtensionValue", G_AreaOfInterestExtIEsExtensionValue, 8%N);
  ("AreaOfInterestExtIEs", G_AreaOfInterestExtIEs, 24%N);
  ("ProtocolExtensionContainerAreaOfInterestExtIEs", G_ProtocolExtensionContainerAreaOfInterestExtIEs, 24%N);
  ("AreaOfInterest", G_AreaOfInterest, 32%N);
  ("LocationReportingReferenceID", G_LocationReportingReferenceID, 8%N);
  ("AreaOfInterestItemExtIEsExtensionValue", G_AreaOfInterestItemExtIEsExtensionValue, 8%N);
  ("AreaOfInterestItemExtIEs", G_AreaOfInterestItemExtIEs, 24%N);
  ("ProtocolExtensionContainerAreaOfInterestItemExtIEs", G_ProtocolExtensionContainerAreaOfInterestItemExtIEs, 24%N);
  ("AreaOfInterestItem", G_AreaOfInterestItem, 48%N);
  ("AreaOfInterestList", G_AreaOfInterestList, 24%N);
  ("LocationReportingRequestTypeExtIEsExtensionValue", G_LocationReportingRequestTypeExtIEsExtensionValue, 8%N);
  ("LocationReportingRequestTypeExtIEs", G_LocationReportingRequestTypeExtIEs, 24%N);
  ("ProtocolExtensionContainerLocationReportingRequestTypeExtIEs", G_ProtocolExtensionContainerLocationReportingRequestTypeExtIEs, 24%N);
  ("LocationReportingRequestType", G_LocationReportingRequestType, 40%N);
  ("RRCInactiveTransitionReportRequest", G_RRCInactiveTransitionReportRequest, 8%N);
  ("HandoverRequestIEsValue", G_HandoverRequestIEsValue, 152%N);
  ("HandoverRequestIEs", G_HandoverRequestIEs, 168%N);
  ("ProtocolIEContainerHandoverRequestIEs", G_ProtocolIEContainerHandoverRequestIEs, 24%N);
  ("HandoverRequest", G_HandoverRequest, 24%N);
  ("PDUSessionResourceSetupItemCxtReqExtIEsExtensionValue", G_PDUSessionResourceSetupItemCxtReqExtIEsExtensionValue, 8%N);
  ("PDUSessionResourceSetupItemCxtReqExtIEs", G_PDUSessionResourceSetupItemCxtReqExtIEs, 24%N);
  ("ProtocolExtensionContainerPDUSessionResourceSetupItemCxtReqExtIEs", G_ProtocolExtensionContainerPDUSessionResourceSetupItemCxtReqExtIEs, 24%N);
  ("PDUSessionResourceSetupItemCxtReq", G_PDUSessionResourceSetupItemCxtReq, 88%N);
  ("PDUSessionResourceSetupListCxtReq", G_PDUSessionResourceSetupListCxtReq, 24%N);
  ("UERadioCapability", G_UERadioCapability, 24%N);
  ("IndexToRFSP", G_IndexToRFSP, 8%N);
  ("EmergencyFallbackRequestIndicator", G_EmergencyFallbackRequestIndicator, 8%N);
  ("EmergencyServiceTargetCN", G_EmergencyServiceTargetCN, 8%N);
  ("EmergencyFallbackIndicatorExtIEsExtensionValue", G_EmergencyFallbackIndicatorExtIEsExtensionValue, 8%N);
  ("EmergencyFallbackIndicatorExtIEs", G_EmergencyFallbackIndicatorExtIEs, 24%N);
  ("ProtocolExtensionContainerEmergencyFallbackIndicatorExtIEs", G_ProtocolExtensionContainerEmergencyFallbackIndicatorExtIEs, 24%N);
  ("EmergencyFallbackIndicator", G_EmergencyFallbackIndicator, 24%N);
  ("UERadioCapabilityForPagingOfNR", G_UERadioCapabilityForPagingOfNR, 24%N);
  ("UERadioCapabilityForPagingOfEUTRA", G_UERadioCapabilityForPagingOfEUTRA, 24%N);
  ("UERadioCapabilityForPagingExtIEsExtensionValue", G_UERadioCapabilityForPagingExtIEsExtensionValue, 8%N);
  ("UERadioCapabilityForPagingExtIEs", G_UERadioCapabilityForPagingExtIEs, 24%N);
  ("ProtocolExtensionContainerUERadioCapabilityForPagingExtIEs", G_ProtocolExtensionContainerUERadioCapabilityForPagingExtIEs, 24%N);
  ("UERadioCapabilityForPaging", G_UERadioCapabilityForPaging, 24%N);
  ("InitialContextSetupRequestIEsValue", G_InitialContextSetupRequestIEsValue, 160%N);
  ("InitialContextSetupRequestIEs", G_InitialContextSetupRequestIEs, 176%N);
  ("ProtocolIEContainerInitialContextSetupRequestIEs", G_ProtocolIEContainerInitialContextSetupRequestIEs, 24%N);
  ("InitialContextSetupRequest", G_InitialContextSetupRequest, 24%N);
  ("ResetAll", G_ResetAll, 8%N);
  ("UEAssociatedLogicalNGConnectionItemExtIEsExtensionValue", G_UEAssociatedLogicalNGConnectionItemExtIEsExtensionValue, 8%N);
  ("UEAssociatedLogicalNGConnectionItemExtIEs", G_UEAssociatedLogicalNGConnectionItemExtIEs, 24%N);
  ("ProtocolExtensionContainerUEAssociatedLogicalNGConnectionItemExtIEs", G_ProtocolExtensionContainerUEAssociatedLogicalNGConnectionItemExtIEs, 24%N);
  ("UEAssociatedLogicalNGConnectionItem", G_UEAssociatedLogicalNGConnectionItem, 24%N);
  ("UEAssociatedLogicalNGConnectionList", G_UEAssociatedLogicalNGConnectionList, 24%N);
  ("ProtocolIESingleContainerResetTypeExtIEs", G_ProtocolIESingleContainerResetTypeExtIEs, 0%N);
  ("ResetType", G_ResetType, 32%N);
  ("NGResetIEsValue", G_NGResetIEsValue, 24%N);
  ("NGResetIEs", G_NGResetIEs, 40%N);
  ("ProtocolIEContainerNGResetIEs", G_ProtocolIEContainerNGResetIEs, 24%N);
  ("NGReset", G_NGReset, 24%N);
  ("RANNodeName", G_RANNodeName, 16%N);
  ("BroadcastPLMNItemExtIEsExtensionValue", G_BroadcastPLMNItemExtIEsExtensionValue, 8%N);
  ("BroadcastPLMNItemExtIEs", G_BroadcastPLMNItemExtIEs, 24%N);
  ("ProtocolExtensionContainerBroadcastPLMNItemExtIEs", G_ProtocolExtensionContainerBroadcastPLMNItemExtIEs, 24%N);
  ("BroadcastPLMNItem", G_BroadcastPLMNItem, 56%N);
  ("BroadcastPLMNList", G_BroadcastPLMNList, 24%N);
  ("SupportedTAItemExtIEsExtensionValue", G_SupportedTAItemExtIEsExtensionValue, 8%N);
  ("SupportedTAItemExtIEs", G_SupportedTAItemExtIEs, 24%N);
  ("ProtocolExtensionContainerSupportedTAItemExtIEs", G_ProtocolExtensionContainerSupportedTAItemExtIEs, 24%N);
  ("SupportedTAItem", G_SupportedTAItem, 56%N);
  ("SupportedTAList", G_SupportedTAList, 24%N);
  ("NGSetupRequestIEsValue", G_NGSetupRequestIEsValue, 40%N);
  ("NGSetupRequestIEs", G_NGSetupRequestIEs, 56%N);
  ("ProtocolIEContainerNGSetupRequestIEs", G_ProtocolIEContainerNGSetupRequestIEs, 24%N);
  ("NGSetupRequest", G_NGSetupRequest, 24%N);
  ("TimeStamp", G_TimeStamp, 24%N);
  ("UserLocationInformationEUTRAExtIEsExtensionValue", G_UserLocationInformationEUTRAExtIEsExtensionValue, 8%N);
  ("UserLocationInformationEUTRAExtIEs", G_UserLocationInformationEUTRAExtIEs, 24%N);
  ("ProtocolExtensionContainerUserLocationInformationEUTRAExtIEs", G_ProtocolExtensionContainerUserLocationInformationEUTRAExtIEs, 24%N);
  ("UserLocationInformationEUTRA", G_UserLocationInformationEUTRA, 136%N);
  ("UserLocationInformationNRExtIEsExtensionValue", G_UserLocationInformationNRExtIEsExtensionValue, 8%N);
  ("UserLocationInformationNRExtIEs", G_UserLocationInformationNRExtIEs, 24%N);
  ("ProtocolExtensionContainerUserLocationInformationNRExtIEs", G_ProtocolExtensionContainerUserLocationInformationNRExtIEs, 24%N);
  ("UserLocationInformationNR", G_UserLocationInformationNR, 136%N);
  ("PortNumber", G_PortNumber, 24%N);
  ("UserLocationInformationN3IWFExtIEsExtensionValue", G_UserLocationInformationN3IWFExtIEsExtensionValue, 8%N);
  ("UserLocationInformationN3IWFExtIEs", G_UserLocationInformationN3IWFExtIEs, 24%N);
  ("ProtocolExtensionContainerUserLocationInformationN3IWFExtIEs", G_ProtocolExtensionContainerUserLocationInformationN3IWFExtIEs, 24%N);
  ("UserLocationInformationN3IWF", G_UserLocationInformationN3IWF, 64%N);
  ("ProtocolIESingleContainerUserLocationInformationExtIEs", G_ProtocolIESingleContainerUserLocationInformationExtIEs, 0%N);
  ("UserLocationInformation", G_UserLocationInformation, 40%N);
  ("PDUSessionResourceToBeSwitchedDLItemExtIEsExtensionValue", G_PDUSessionResourceToBeSwitchedDLItemExtIEsExtensionValue, 8%N);
  ("PDUSessionResourceToBeSwitchedDLItemExtIEs", G_PDUSessionResourceToBeSwitchedDLItemExtIEs, 24%N);
  ("ProtocolExtensionContainerPDUSessionResourceToBeSwitchedDLItemExtIEs", G_ProtocolExtensionContainerPDUSessionResourceToBeSwitchedDLItemExtIEs, 24%N);
  ("PDUSessionResourceToBeSwitchedDLItem", G_PDUSessionResourceToBeSwitchedDLItem, 40%N);
  ("PDUSessionResourceToBeSwitchedDLList", G_PDUSessionResourceToBeSwitchedDLList, 24%N);
  ("PDUSessionResourceFailedToSetupItemPSReqExtIEsExtensionValue", G_PDUSessionResourceFailedToSetupItemPSReqExtIEsExtensionValue, 8%N);
  ("PDUSessionResourceFailedToSetupItemPSReqExtIEs", G_PDUSessionResourceFailedToSetupItemPSReqExtIEs, 24%N);
  ("ProtocolExtensionContainerPDUSessionResourceFailedToSetupItemPSReqExtIEs", G_ProtocolExtensionContainerPDUSessionResourceFailedToSetupItemPSReqExtIEs, 24%N);
  ("PDUSessionResourceFailedToSetupItemPSReq", G_PDUSessionResourceFailedToSetupItemPSReq, 40%N);
  ("PDUSessionResourceFailedToSetupListPSReq", G_PDUSessionResourceFailedToSetupListPSReq, 24%N);
  ("PathSwitchRequestIEsValue", G_PathSwitchRequestIEsValue, 56%N);
  ("PathSwitchRequestIEs", G_PathSwitchRequestIEs, 72%N);
  ("ProtocolIEContainerPathSwitchRequestIEs", G_ProtocolIEContainerPathSwitchRequestIEs, 24%N);
  ("PathSwitchRequest", G_PathSwitchRequest, 24%N);
  ("RANPagingPriority", G_RANPagingPriority, 8%N);
  ("PDUSessionResourceModifyItemModReqExtIEsExtensionValue", G_PDUSessionResourceModifyItemModReqExtIEsExtensionValue, 8%N);
  ("PDUSessionResourceModifyItemModReqExtIEs", G_PDUSessionResourceModifyItemModReqExtIEs, 24%N);
  ("ProtocolExtensionContainerPDUSessionResourceModifyItemModReqExtIEs", G_ProtocolExtensionContainerPDUSessionResourceModifyItemModReqExtIEs, 24%N);
  ("PDUSessionResourceModifyItemModReq", G_PDUSessionResourceModifyItemModReq, 48%N);
  ("PDUSessionResourceModifyListModReq", G_PDUSessionResourceModifyListModReq, 24%N);
  ("PDUSessionResourceModifyRequestIEsValue", G_PDUSessionResourceModifyRequestIEsValue, 40%N);
  ("PDUSessionResourceModifyRequestIEs", G_PDUSessionResourceModifyRequestIEs, 56%N);
  ("ProtocolIEContainerPDUSessionResourceModifyRequestIEs", G_ProtocolIEContainerPDUSessionResourceModifyRequestIEs, 24%N);
  ("PDUSessionResourceModifyRequest", G_PDUSessionResourceModifyRequest, 24%N);
  ("PDUSessionResourceModifyItemModIndExtIEsExtensionValue", G_PDUSessionResourceModifyItemModIndExtIEsExtensionValue, 8%N);
  ("PDUSessionResourceModifyItemModIndExtIEs", G_PDUSessionResourceModifyItemModIndExtIEs, 24%N);
  ("ProtocolExtensionContainerPDUSessionResourceModifyItemModIndExtIEs", G_ProtocolExtensionContainerPDUSessionResourceModifyItemModIndExtIEs, 24%N);
  ("PDUSessionResourceModifyItemModInd", G_PDUSessionResourceModifyItemModInd, 40%N);
  ("PDUSessionResourceModifyListModInd", G_PDUSessionResourceModifyListModInd, 24%N);
  ("PDUSessionResourceModifyIndicationIEsValue", G_PDUSessionResourceModifyIndicationIEsValue, 32%N);
  ("PDUSessionResourceModifyIndicationIEs", G_PDUSessionResourceModifyIndicationIEs, 48%N);
  ("ProtocolIEContainerPDUSessionResourceModifyIndicationIEs", G_ProtocolIEContainerPDUSessionResourceModifyIndicationIEs, 24%N);
  ("PDUSessionResourceModifyIndication", G_PDUSessionResourceModifyIndication, 24%N);
  ("PDUSessionResourceToReleaseItemRelCmdExtIEsExtensionValue", G_PDUSessionResourceToReleaseItemRelCmdExtIEsExtensionValue, 8%N);
  ("PDUSessionResourceToReleaseItemRelCmdExtIEs", G_PDUSessionResourceToReleaseItemRelCmdExtIEs, 24%N);
  ("ProtocolExtensionContainerPDUSessionResourceToReleaseItemRelCmdExtIEs", G_ProtocolExtensionContainerPDUSessionResourceToReleaseItemRelCmdExtIEs, 24%N);
  ("PDUSessionResourceToReleaseItemRelCmd", G_PDUSessionResourceToReleaseItemRelCmd, 40%N);
  ("PDUSessionResourceToReleaseListRelCmd", G_PDUSessionResourceToReleaseListRelCmd, 24%N);
  ("PDUSessionResourceReleaseCommandIEsValue", G_PDUSessionResourceReleaseCommandIEsValue, 48%N);
  ("PDUSessionResourceReleaseCommandIEs", G_PDUSessionResourceReleaseCommandIEs, 64%N);
  ("ProtocolIEContainerPDUSessionResourceReleaseCommandIEs", G_ProtocolIEContainerPDUSessionResourceReleaseCommandIEs, 24%N);
  ("PDUSessionResourceReleaseCommand", G_PDUSessionResourceReleaseCommand, 24%N);
  ("PDUSessionResourceSetupItemSUReqExtIEsExtensionValue", G_PDUSessionResourceSetupItemSUReqExtIEsExtensionValue, 8%N);
  ("PDUSessionResourceSetupItemSUReqExtIEs", G_PDUSessionResourceSetupItemSUReqExtIEs, 24%N);
  ("ProtocolExtensionContainerPDUSessionResourceSetupItemSUReqExtIEs", G_ProtocolExtensionContainerPDUSessionResourceSetupItemSUReqExtIEs, 24%N);
  ("PDUSessionResourceSetupItemSUReq", G_PDUSessionResourceSetupItemSUReq, 88%N);
  ("PDUSessionResourceSetupListSUReq", G_PDUSessionResourceSetupListSUReq, 24%N);
  ("PDUSessionResourceSetupRequestIEsValue", G_PDUSessionResourceSetupRequestIEsValue, 48%N);
  ("PDUSessionResourceSetupRequestIEs", G_PDUSessionResourceSetupRequestIEs, 64%N);
  ("ProtocolIEContainerPDUSessionResourceSetupRequestIEs", G_ProtocolIEContainerPDUSessionResourceSetupRequestIEs, 24%N);
  ("PDUSessionResourceSetupRequest", G_PDUSessionResourceSetupRequest, 24%N);
  ("MessageIdentifier", G_MessageIdentifier, 32%N);
  ("SerialNumber", G_SerialNumber, 32%N);
  ("EUTRACGIListForWarning", G_EUTRACGIListForWarning, 24%N);
  ("NRCGIListForWarning", G_NRCGIListForWarning, 24%N);
  ("TAIListForWarning", G_TAIListForWarning, 24%N);
  ("EmergencyAreaID", G_EmergencyAreaID, 24%N);
  ("EmergencyAreaIDList", G_EmergencyAreaIDList, 24%N);
  ("ProtocolIESingleContainerWarningAreaListExtIEs", G_ProtocolIESingleContainerWarningAreaListExtIEs, 0%N);
  ("WarningAreaList", G_WarningAreaList, 48%N);
  ("CancelAllWarningMessages", G_CancelAllWarningMessages, 8%N);
  ("PWSCancelRequestIEsValue", G_PWSCancelRequestIEsValue, 40%N);
  ("PWSCancelRequestIEs", G_PWSCancelRequestIEs, 56%N);
  ("ProtocolIEContainerPWSCancelRequestIEs", G_ProtocolIEContainerPWSCancelRequestIEs, 24%N);
  ("PWSCancelRequest", G_PWSCancelRequest, 24%N);
  ("RANConfigurationUpdateIEsValue", G_RANConfigurationUpdateIEsValue, 32%N);
  ("RANConfigurationUpdateIEs", G_RANConfigurationUpdateIEs, 48%N);
  ("ProtocolIEContainerRANConfigurationUpdateIEs", G_ProtocolIEContainerRANConfigurationUpdateIEs, 24%N);
  ("RANConfigurationUpdate", G_RANConfigurationUpdate, 24%N);
  ("UEContextModificationRequestIEsValue", G_UEContextModificationRequestIEsValue, 96%N);
  ("UEContextModificationRequestIEs", G_UEContextModificationRequestIEs, 112%N);
  ("ProtocolIEContainerUEContextModificationRequestIEs", G_ProtocolIEContainerUEContextModificationRequestIEs, 24%N);
  ("UEContextModificationRequest", G_UEContextModificationRequest, 24%N);
  ("UENGAPIDPairExtIEsExtensionValue", G_UENGAPIDPairExtIEsExtensionValue, 8%N);
  ("UENGAPIDPairExtIEs", G_UENGAPIDPairExtIEs, 24%N);
  ("ProtocolExtensionContainerUENGAPIDPairExtIEs", G_ProtocolExtensionContainerUENGAPIDPairExtIEs, 24%N);
  ("UENGAPIDPair", G_UENGAPIDPair, 24%N);
  ("ProtocolIESingleContainerUENGAPIDsExtIEs", G_ProtocolIESingleContainerUENGAPIDsExtIEs, 0%N);
  ("UENGAPIDs", G_UENGAPIDs, 32%N);
  ("UEContextReleaseCommandIEsValue", G_UEContextReleaseCommandIEsValue, 24%N);
  ("UEContextReleaseCommandIEs", G_UEContextReleaseCommandIEs, 40%N);
  ("ProtocolIEContainerUEContextReleaseCommandIEs", G_ProtocolIEContainerUEContextReleaseCommandIEs, 24%N);
  ("UEContextReleaseCommand", G_UEContextReleaseCommand, 24%N);
  ("UERadioCapabilityCheckRequestIEsValue", G_UERadioCapabilityCheckRequestIEsValue, 32%N);
  ("UERadioCapabilityCheckRequestIEs", G_UERadioCapabilityCheckRequestIEs, 48%N);
  ("ProtocolIEContainerUERadioCapabilityCheckRequestIEs", G_ProtocolIEContainerUERadioCapabilityCheckRequestIEs, 24%N);
  ("UERadioCapabilityCheckRequest", G_UERadioCapabilityCheckRequest, 24%N);
  ("RepetitionPeriod", G_RepetitionPeriod, 8%N);
  ("NumberOfBroadcastsRequested", G_NumberOfBroadcastsRequested, 8%N);
  ("WarningType", G_WarningType, 24%N);
  ("WarningSecurityInfo", G_WarningSecurityInfo, 24%N);
  ("DataCodingScheme", G_DataCodingScheme, 32%N);
  ("WarningMessageContents", G_WarningMessageContents, 24%N);
  ("ConcurrentWarningMessageInd", G_ConcurrentWarningMessageInd, 8%N);
  ("WarningAreaCoordinates", G_WarningAreaCoordinates, 24%N);
  ("WriteReplaceWarningRequestIEsValue", G_WriteReplaceWarningRequestIEsValue, 96%N);
  ("WriteReplaceWarningRequestIEs", G_WriteReplaceWarningRequestIEs, 112%N);
  ("ProtocolIEContainerWriteReplaceWarningRequestIEs", G_ProtocolIEContainerWriteReplaceWarningRequestIEs, 24%N);
  ("WriteReplaceWarningRequest", G_WriteReplaceWarningRequest, 24%N);
  ("TimerApproachForGUAMIRemoval", G_TimerApproachForGUAMIRemoval, 8%N);
  ("UnavailableGUAMIItemExtIEsExtensionValue", G_UnavailableGUAMIItemExtIEsExtensionValue, 8%N);
  ("UnavailableGUAMIItemExtIEs", G_UnavailableGUAMIItemExtIEs, 24%N);
  ("ProtocolExtensionContainerUnavailableGUAMIItemExtIEs", G_ProtocolExtensionContainerUnavailableGUAMIItemExtIEs, 24%N);
  ("UnavailableGUAMIItem", G_UnavailableGUAMIItem, 152%N);
  ("UnavailableGUAMIList", G_UnavailableGUAMIList, 24%N);
  ("AMFStatusIndicationIEsValue", G_AMFStatusIndicationIEsValue, 16%N);
  ("AMFStatusIndicationIEs", G_AMFStatusIndicationIEs, 32%N);
  ("ProtocolIEContainerAMFStatusIndicationIEs", G_ProtocolIEContainerAMFStatusIndicationIEs, 24%N);
  ("AMFStatusIndication", G_AMFStatusIndication, 24%N);
  ("CellTrafficTraceIEsValue", G_CellTrafficTraceIEsValue, 48%N);
  ("CellTrafficTraceIEs", G_CellTrafficTraceIEs, 64%N);
  ("ProtocolIEContainerCellTrafficTraceIEs", G_ProtocolIEContainerCellTrafficTraceIEs, 24%N);
  ("CellTrafficTrace", G_CellTrafficTrace, 24%N);
  ("DeactivateTraceIEsValue", G_DeactivateTraceIEsValue, 32%N);
  ("DeactivateTraceIEs", G_DeactivateTraceIEs, 48%N);
  ("ProtocolIEContainerDeactivateTraceIEs", G_ProtocolIEContainerDeactivateTraceIEs, 24%N);
  ("DeactivateTrace", G_DeactivateTrace, 24%N);
  ("DownlinkNASTransportIEsValue", G_DownlinkNASTransportIEsValue, 80%N);
  ("DownlinkNASTransportIEs", G_DownlinkNASTransportIEs, 96%N);
  ("ProtocolIEContainerDownlinkNASTransportIEs", G_ProtocolIEContainerDownlinkNASTransportIEs, 24%N);
  ("DownlinkNASTransport", G_DownlinkNASTransport, 24%N);
  ("RoutingID", G_RoutingID, 24%N);
  ("NRPPaPDU", G_NRPPaPDU, 24%N);
  ("DownlinkNonUEAssociatedNRPPaTransportIEsValue", G_DownlinkNonUEAssociatedNRPPaTransportIEsValue, 24%N);
  ("DownlinkNonUEAssociatedNRPPaTransportIEs", G_DownlinkNonUEAssociatedNRPPaTransportIEs, 40%N);
  ("ProtocolIEContainerDownlinkNonUEAssociatedNRPPaTransportIEs", G_ProtocolIEContainerDownlinkNonUEAssociatedNRPPaTransportIEs, 24%N);
  ("DownlinkNonUEAssociatedNRPPaTransport", G_DownlinkNonUEAssociatedNRPPaTransport, 24%N);
  ("SourceRANNodeIDExtIEsExtensionValue", G_SourceRANNodeIDExtIEsExtensionValue, 8%N);
  ("SourceRANNodeIDExtIEs", G_SourceRANNodeIDExtIEs, 24%N);
  ("ProtocolExtensionContainerSourceRANNodeIDExtIEs", G_ProtocolExtensionContainerSourceRANNodeIDExtIEs, 24%N);
  ("SourceRANNodeID", G_SourceRANNodeID, 104%N);
  ("SONInformationRequest", G_SONInformationRequest, 8%N);
  ("XnTLAs", G_XnTLAs, 24%N);
  ("XnGTPTLAs", G_XnGTPTLAs, 24%N);
  ("XnExtTLAItemExtIEsExtensionValue", G_XnExtTLAItemExtIEsExtensionValue, 8%N);
  ("XnExtTLAItemExtIEs", G_XnExtTLAItemExtIEs, 24%N);
  ("ProtocolExtensionContainerXnExtTLAItemExtIEs", G_ProtocolExtensionContainerXnExtTLAItemExtIEs, 24%N);
  ("XnExtTLAItem", G_XnExtTLAItem, 24%N);
  ("XnExtTLAs", G_XnExtTLAs, 24%N);
  ("XnTNLConfigurationInfoExtIEsExtensionValue", G_XnTNLConfigurationInfoExtIEsExtensionValue, 8%N);
  ("XnTNLConfigurationInfoExtIEs", G_XnTNLConfigurationInfoExtIEs, 24%N);
  ("ProtocolExtensionContainerXnTNLConfigurationInfoExtIEs", G_ProtocolExtensionContainerXnTNLConfigurationInfoExtIEs, 24%N);
  ("XnTNLConfigurationInfo", G_XnTNLConfigurationInfo, 40%N);
  ("SONInformationReplyExtIEsExtensionValue", G_SONInformationReplyExtIEsExtensionValue, 8%N);
  ("SONInformationReplyExtIEs", G_SONInformationReplyExtIEs, 24%N);
  ("ProtocolExtensionContainerSONInformationReplyExtIEs", G_ProtocolExtensionContainerSONInformationReplyExtIEs, 24%N);
  ("SONInformationReply", G_SONInformationReply, 16%N);
  ("ProtocolIESingleContainerSONInformationExtIEs", G_ProtocolIESingleContainerSONInformationExtIEs, 0%N);
  ("SONInformation", G_SONInformation, 32%N);
  ("SONConfigurationTransferExtIEsExtensionValue", G_SONConfigurationTransferExtIEsExtensionValue, 8%N);
  ("SONConfigurationTransferExtIEs", G_SONConfigurationTransferExtIEs, 24%N);
  ("ProtocolExtensionContainerSONConfigurationTransferExtIEs", G_ProtocolExtensionContainerSONConfigurationTransferExtIEs, 24%N);
  ("SONConfigurationTransfer", G_SONConfigurationTransfer, 288%N);
  ("DownlinkRANConfigurationTransferIEsValue", G_DownlinkRANConfigurationTransferIEsValue, 16%N);
  ("DownlinkRANConfigurationTransferIEs", G_DownlinkRANConfigurationTransferIEs, 32%N);
  ("ProtocolIEContainerDownlinkRANConfigurationTransferIEs", G_ProtocolIEContainerDownlinkRANConfigurationTransferIEs, 24%N);
  ("DownlinkRANConfigurationTransfer", G_DownlinkRANConfigurationTransfer, 24%N);
  ("DRBID", G_DRBID, 8%N);
  ("COUNTValueForPDCPSN12ExtIEsExtensionValue", G_COUNTValueForPDCPSN12ExtIEsExtensionValue, 8%N);
  ("COUNTValueForPDCPSN12ExtIEs", G_COUNTValueForPDCPSN12ExtIEs, 24%N);
  ("ProtocolExtensionContainerCOUNTValueForPDCPSN12ExtIEs", G_ProtocolExtensionContainerCOUNTValueForPDCPSN12ExtIEs, 24%N);
  ("COUNTValueForPDCPSN12", G_COUNTValueForPDCPSN12, 24%N);
  ("DRBStatusUL12ExtIEsExtensionValue", G_DRBStatusUL12ExtIEsExtensionValue, 8%N);
  ("DRBStatusUL12ExtIEs", G_DRBStatusUL12ExtIEs, 24%N);
  ("ProtocolExtensionContainerDRBStatusUL12ExtIEs", G_ProtocolExtensionContainerDRBStatusUL12ExtIEs, 24%N);
  ("DRBStatusUL12", G_DRBStatusUL12, 40%N);
  ("COUNTValueForPDCPSN18ExtIEsExtensionValue", G_COUNTValueForPDCPSN18ExtIEsExtensionValue, 8%N);
  ("COUNTValueForPDCPSN18ExtIEs", G_COUNTValueForPDCPSN18ExtIEs, 24%N);
  ("ProtocolExtensionContainerCOUNTValueForPDCPSN18ExtIEs", G_ProtocolExtensionContainerCOUNTValueForPDCPSN18ExtIEs, 24%N);
  ("COUNTValueForPDCPSN18", G_COUNTValueForPDCPSN18, 24%N);
  ("DRBStatusUL18ExtIEsExtensionValue", G_DRBStatusUL18ExtIEsExtensionValue, 8%N);
  ("DRBStatusUL18ExtIEs", G_DRBStatusUL18ExtIEs, 24%N);
  ("ProtocolExtensionContainerDRBStatusUL18ExtIEs", G_ProtocolExtensionContainerDRBStatusUL18ExtIEs, 24%N);
  ("DRBStatusUL18", G_DRBStatusUL18, 40%N);
  ("ProtocolIESingleContainerDRBStatusULExtIEs", G_ProtocolIESingleContainerDRBStatusULExtIEs, 0%N);
  ("DRBStatusUL", G_DRBStatusUL, 32%N);
  ("DRBStatusDL12ExtIEsExtensionValue", G_DRBStatusDL12ExtIEsExtensionValue, 8%N);
  ("DRBStatusDL12ExtIEs", G_DRBStatusDL12ExtIEs, 24%N);
  ("ProtocolExtensionContainerDRBStatusDL12ExtIEs", G_ProtocolExtensionContainerDRBStatusDL12ExtIEs, 24%N);
  ("DRBStatusDL12", G_DRBStatusDL12, 32%N);
  ("DRBStatusDL18ExtIEsExtensionValue", G_DRBStatusDL18ExtIEsExtensionValue, 8%N);
  ("DRBStatusDL18ExtIEs", G_DRBStatusDL18ExtIEs, 24%N);
  ("ProtocolExtensionContainerDRBStatusDL18ExtIEs", G_ProtocolExtensionContainerDRBStatusDL18ExtIEs, 24%N);
  ("DRBStatusDL18", G_DRBStatusDL18, 32%N);
  ("ProtocolIESingleContainerDRBStatusDLExtIEs", G_ProtocolIESingleContainerDRBStatusDLExtIEs, 0%N);
  ("DRBStatusDL", G_DRBStatusDL, 32%N);
  ("DRBsSubjectToStatusTransferItemExtIEsExtensionValue", G_DRBsSubjectToStatusTransferItemExtIEsExtensionValue, 8%N);
  ("DRBsSubjectToStatusTransferItemExtIEs", G_DRBsSubjectToStatusTransferItemExtIEs, 24%N);
  ("ProtocolExtensionContainerDRBsSubjectToStatusTransferItemExtIEs", G_ProtocolExtensionContainerDRBsSubjectToStatusTransferItemExtIEs, 24%N);
  ("DRBsSubjectToStatusTransferItem", G_DRBsSubjectToStatusTransferItem, 80%N);
  ("DRBsSubjectToStatusTransferList", G_DRBsSubjectToStatusTransferList, 24%N);
  ("RANStatusTransferTransparentContainerExtIEsExtensionValue", G_RANStatusTransferTransparentContainerExtIEsExtensionValue, 8%N);
  ("RANStatusTransferTransparentContainerExtIEs", G_RANStatusTransferTransparentContainerExtIEs, 24%N);
  ("ProtocolExtensionContainerRANStatusTransferTransparentContainerExtIEs", G_ProtocolExtensionContainerRANStatusTransferTransparentContainerExtIEs, 24%N);
  ("RANStatusTransferTransparentContainer", G_RANStatusTransferTransparentContainer, 32%N);
  ("DownlinkRANStatusTransferIEsValue", G_DownlinkRANStatusTransferIEsValue, 32%N);
  ("DownlinkRANStatusTransferIEs", G_DownlinkRANStatusTransferIEs, 48%N);
  ("ProtocolIEContainerDownlinkRANStatusTransferIEs", G_ProtocolIEContainerDownlinkRANStatusTransferIEs, 24%N);
  ("DownlinkRANStatusTransfer", G_DownlinkRANStatusTransfer, 24%N);
  ("DownlinkUEAssociatedNRPPaTransportIEsValue", G_DownlinkUEAssociatedNRPPaTransportIEsValue, 40%N);
  ("DownlinkUEAssociatedNRPPaTransportIEs", G_DownlinkUEAssociatedNRPPaTransportIEs, 56%N);
  ("ProtocolIEContainerDownlinkUEAssociatedNRPPaTransportIEs", G_ProtocolIEContainerDownlinkUEAssociatedNRPPaTransportIEs, 24%N);
  ("DownlinkUEAssociatedNRPPaTransport", G_DownlinkUEAssociatedNRPPaTransport, 24%N);
  ("TriggeringMessage", G_TriggeringMessage, 8%N);
  ("TypeOfError", G_TypeOfError, 8%N);
  ("CriticalityDiagnosticsIEItemExtIEsExtensionValue", G_CriticalityDiagnosticsIEItemExtIEsExtensionValue, 8%N);
  ("CriticalityDiagnosticsIEItemExtIEs", G_CriticalityDiagnosticsIEItemExtIEs, 24%N);
  ("ProtocolExtensionContainerCriticalityDiagnosticsIEItemExtIEs", G_ProtocolExtensionContainerCriticalityDiagnosticsIEItemExtIEs, 24%N);
  ("CriticalityDiagnosticsIEItem", G_CriticalityDiagnosticsIEItem, 32%N);
  ("CriticalityDiagnosticsIEList", G_CriticalityDiagnosticsIEList, 24%N);
  ("CriticalityDiagnosticsExtIEsExtensionValue", G_CriticalityDiagnosticsExtIEsExtensionValue, 8%N);
  ("CriticalityDiagnosticsExtIEs", G_CriticalityDiagnosticsExtIEs, 24%N);
  ("ProtocolExtensionContainerCriticalityDiagnosticsExtIEs", G_ProtocolExtensionContainerCriticalityDiagnosticsExtIEs, 24%N);
  ("CriticalityDiagnostics", G_CriticalityDiagnostics, 40%N);
  ("ErrorIndicationIEsValue", G_ErrorIndicationIEsValue, 40%N);
  ("ErrorIndicationIEs", G_ErrorIndicationIEs, 56%N);
  ("ProtocolIEContainerErrorIndicationIEs", G_ProtocolIEContainerErrorIndicationIEs, 24%N);
  ("ErrorIndication", G_ErrorIndication, 24%N);
  ("HandoverNotifyIEsValue", G_HandoverNotifyIEsValue, 32%N);
  ("HandoverNotifyIEs", G_HandoverNotifyIEs, 48%N);
  ("ProtocolIEContainerHandoverNotifyIEs", G_ProtocolIEContainerHandoverNotifyIEs, 24%N);
  ("HandoverNotify", G_HandoverNotify, 24%N);
  ("RRCEstablishmentCause", G_RRCEstablishmentCause, 8%N);
  ("FiveGTMSI", G_FiveGTMSI, 24%N);
  ("FiveGSTMSIExtIEsExtensionValue", G_FiveGSTMSIExtIEsExtensionValue, 8%N);
  ("FiveGSTMSIExtIEs", G_FiveGSTMSIExtIEs, 24%N);
  ("ProtocolExtensionContainerFiveGSTMSIExtIEs", G_ProtocolExtensionContainerFiveGSTMSIExtIEs, 24%N);
  ("FiveGSTMSI", G_FiveGSTMSI, 96%N);
  ("UEContextRequest", G_UEContextRequest, 8%N);
  ("InitialUEMessageIEsValue", G_InitialUEMessageIEsValue, 72%N);
  ("InitialUEMessageIEs", G_InitialUEMessageIEs, 88%N);
  ("ProtocolIEContainerInitialUEMessageIEs", G_ProtocolIEContainerInitialUEMessageIEs, 24%N);
  ("InitialUEMessage", G_InitialUEMessage, 24%N);
  ("UEPresence", G_UEPresence, 8%N);
  ("UEPresenceInAreaOfInterestItemExtIEsExtensionValue", G_UEPresenceInAreaOfInterestItemExtIEsExtensionValue, 8%N);
  ("UEPresenceInAreaOfInterestItemExtIEs", G_UEPresenceInAreaOfInterestItemExtIEs, 24%N);
  ("ProtocolExtensionContainerUEPresenceInAreaOfInterestItemExtIEs", G_ProtocolExtensionContainerUEPresenceInAreaOfInterestItemExtIEs, 24%N);
  ("UEPresenceInAreaOfInterestItem", G_UEPresenceInAreaOfInterestItem, 24%N);
  ("UEPresenceInAreaOfInterestList", G_UEPresenceInAreaOfInterestList, 24%N);
  ("LocationReportIEsValue", G_LocationReportIEsValue, 48%N);
  ("LocationReportIEs", G_LocationReportIEs, 64%N);
  ("ProtocolIEContainerLocationReportIEs", G_ProtocolIEContainerLocationReportIEs, 24%N);
  ("LocationReport", G_LocationReport, 24%N);
  ("LocationReportingControlIEsValue", G_LocationReportingControlIEsValue, 32%N);
  ("LocationReportingControlIEs", G_LocationReportingControlIEs, 48%N);
  ("ProtocolIEContainerLocationReportingControlIEs", G_ProtocolIEContainerLocationReportingControlIEs, 24%N);
  ("LocationReportingControl", G_LocationReportingControl, 24%N);
  ("LocationReportingFailureIndicationIEsValue", G_LocationReportingFailureIndicationIEsValue, 32%N);
  ("LocationReportingFailureIndicationIEs", G_LocationReportingFailureIndicationIEs, 48%N);
  ("ProtocolIEContainerLocationReportingFailureIndicationIEs", G_ProtocolIEContainerLocationReportingFailureIndicationIEs, 24%N);
  ("LocationReportingFailureIndication", G_LocationReportingFailureIndication, 24%N);
  ("NASNonDeliveryIndicationIEsValue", G_NASNonDeliveryIndicationIEsValue, 40%N);
  ("NASNonDeliveryIndicationIEs", G_NASNonDeliveryIndicationIEs, 56%N);
  ("ProtocolIEContainerNASNonDeliveryIndicationIEs", G_ProtocolIEContainerNASNonDeliveryIndicationIEs, 24%N);
  ("NASNonDeliveryIndication", G_NASNonDeliveryIndication, 24%N);
  ("OverloadAction", G_OverloadAction, 8%N);
  ("ProtocolIESingleContainerOverloadResponseExtIEs", G_ProtocolIESingleContainerOverloadResponseExtIEs, 0%N);
  ("OverloadResponse", G_OverloadResponse, 24%N);
  ("TrafficLoadReductionIndication", G_TrafficLoadReductionIndication, 8%N);
  ("SliceOverloadItemExtIEsExtensionValue", G_SliceOverloadItemExtIEsExtensionValue, 8%N);
  ("SliceOverloadItemExtIEs", G_SliceOverloadItemExtIEs, 24%N);
  ("ProtocolExtensionContainerSliceOverloadItemExtIEs", G_ProtocolExtensionContainerSliceOverloadItemExtIEs, 24%N);
  ("SliceOverloadItem", G_SliceOverloadItem, 48%N);
  ("SliceOverloadList", G_SliceOverloadList, 24%N);
  ("OverloadStartNSSAIItemExtIEsExtensionValue", G_OverloadStartNSSAIItemExtIEsExtensionValue, 8%N);
  ("OverloadStartNSSAIItemExtIEs", G_OverloadStartNSSAIItemExtIEs, 24%N);
  ("ProtocolExtensionContainerOverloadStartNSSAIItemExtIEs", G_ProtocolExtensionContainerOverloadStartNSSAIItemExtIEs, 24%N);
  ("OverloadStartNSSAIItem", G_OverloadStartNSSAIItem, 48%N);
  ("OverloadStartNSSAIList", G_OverloadStartNSSAIList, 24%N);
  ("OverloadStartIEsValue", G_OverloadStartIEsValue, 32%N);
  ("OverloadStartIEs", G_OverloadStartIEs, 48%N);
  ("ProtocolIEContainerOverloadStartIEs", G_ProtocolIEContainerOverloadStartIEs, 24%N);
  ("OverloadStart", G_OverloadStart, 24%N);
  ("OverloadStopIEsValue", G_OverloadStopIEsValue, 8%N);
  ("OverloadStopIEs", G_OverloadStopIEs, 24%N);
  ("ProtocolIEContainerOverloadStopIEs", G_ProtocolIEContainerOverloadStopIEs, 24%N);
  ("OverloadStop", G_OverloadStop, 24%N);
  ("ProtocolIESingleContainerUEPagingIdentityExtIEs", G_ProtocolIESingleContainerUEPagingIdentityExtIEs, 0%N);
  ("UEPagingIdentity", G_UEPagingIdentity, 24%N);
  ("TAIListForPagingItemExtIEsExtensionValue", G_TAIListForPagingItemExtIEsExtensionValue, 8%N);
  ("TAIListForPagingItemExtIEs", G_TAIListForPagingItemExtIEs, 24%N);
  ("ProtocolExtensionContainerTAIListForPagingItemExtIEs", G_ProtocolExtensionContainerTAIListForPagingItemExtIEs, 24%N);
  ("TAIListForPagingItem", G_TAIListForPagingItem, 64%N);
  ("TAIListForPaging", G_TAIListForPaging, 24%N);
  ("PagingPriority", G_PagingPriority, 8%N);
  ("PagingOrigin", G_PagingOrigin, 8%N);
  ("RecommendedCellItemExtIEsExtensionValue", G_RecommendedCellItemExtIEsExtensionValue, 8%N);
  ("RecommendedCellItemExtIEs", G_RecommendedCellItemExtIEs, 24%N);
  ("ProtocolExtensionContainerRecommendedCellItemExtIEs", G_ProtocolExtensionContainerRecommendedCellItemExtIEs, 24%N);
  ("RecommendedCellItem", G_RecommendedCellItem, 48%N);
  ("RecommendedCellList", G_RecommendedCellList, 24%N);
  ("RecommendedCellsForPagingExtIEsExtensionValue", G_RecommendedCellsForPagingExtIEsExtensionValue, 8%N);
  ("RecommendedCellsForPagingExtIEs", G_RecommendedCellsForPagingExtIEs, 24%N);
  ("ProtocolExtensionContainerRecommendedCellsForPagingExtIEs", G_ProtocolExtensionContainerRecommendedCellsForPagingExtIEs, 24%N);
  ("RecommendedCellsForPaging", G_RecommendedCellsForPaging, 32%N);
  ("AssistanceDataForRecommendedCellsExtIEsExtensionValue", G_AssistanceDataForRecommendedCellsExtIEsExtensionValue, 8%N);
  ("AssistanceDataForRecommendedCellsExtIEs", G_AssistanceDataForRecommendedCellsExtIEs, 24%N);
  ("ProtocolExtensionContainerAssistanceDataForRecommendedCellsExtIEs", G_ProtocolExtensionContainerAssistanceDataForRecommendedCellsExtIEs, 24%N);
  ("AssistanceDataForRecommendedCells", G_AssistanceDataForRecommendedCells, 40%N);
  ("PagingAttemptCount", G_PagingAttemptCount, 8%N);
  ("IntendedNumberOfPagingAttempts", G_IntendedNumberOfPagingAttempts, 8%N);
  ("NextPagingAreaScope", G_NextPagingAreaScope, 8%N);
  ("PagingAttemptInformationExtIEsExtensionValue", G_PagingAttemptInformationExtIEsExtensionValue, 8%N);
  ("PagingAttemptInformationExtIEs", G_PagingAttemptInformationExtIEs, 24%N);
  ("ProtocolExtensionContainerPagingAttemptInformationExtIEs", G_ProtocolExtensionContainerPagingAttemptInformationExtIEs, 24%N);
  ("PagingAttemptInformation", G_PagingAttemptInformation, 32%N);
  ("AssistanceDataForPagingExtIEsExtensionValue", G_AssistanceDataForPagingExtIEsExtensionValue, 8%N);
  ("AssistanceDataForPagingExtIEs", G_AssistanceDataForPagingExtIEs, 24%N);
  ("ProtocolExtensionContainerAssistanceDataForPagingExtIEs", G_ProtocolExtensionContainerAssistanceDataForPagingExtIEs, 24%N);
  ("AssistanceDataForPaging", G_AssistanceDataForPaging, 24%N);
  ("PagingIEsValue", G_PagingIEsValue, 64%N);
  ("PagingIEs", G_PagingIEs, 80%N);
  ("ProtocolIEContainerPagingIEs", G_ProtocolIEContainerPagingIEs, 24%N);
  ("Paging", G_Paging, 24%N);
  ("PDUSessionResourceNotifyItemExtIEsExtensionValue", G_PDUSessionResourceNotifyItemExtIEsExtensionValue, 8%N);
  ("PDUSessionResourceNotifyItemExtIEs", G_PDUSessionResourceNotifyItemExtIEs, 24%N);
  ("ProtocolExtensionContainerPDUSessionResourceNotifyItemExtIEs", G_ProtocolExtensionContainerPDUSessionResourceNotifyItemExtIEs, 24%N);
  ("PDUSessionResourceNotifyItem", G_PDUSessionResourceNotifyItem, 40%N);
  ("PDUSessionResourceNotifyList", G_PDUSessionResourceNotifyList, 24%N);
  ("PDUSessionResourceReleasedItemNotExtIEsExtensionValue", G_PDUSessionResourceReleasedItemNotExtIEsExtensionValue, 8%N);
  ("PDUSessionResourceReleasedItemNotExtIEs", G_PDUSessionResourceReleasedItemNotExtIEs, 24%N);
  ("ProtocolExtensionContainerPDUSessionResourceReleasedItemNotExtIEs", G_ProtocolExtensionContainerPDUSessionResourceReleasedItemNotExtIEs, 24%N);
  ("PDUSessionResourceReleasedItemNot", G_PDUSessionResourceReleasedItemNot, 40%N);
  ("PDUSessionResourceReleasedListNot", G_PDUSessionResourceReleasedListNot, 24%N);
  ("PDUSessionResourceNotifyIEsValue", G_PDUSessionResourceNotifyIEsValue, 48%N);
  ("PDUSessionResourceNotifyIEs", G_PDUSessionResourceNotifyIEs, 64%N);
  ("ProtocolIEContainerPDUSessionResourceNotifyIEs", G_ProtocolIEContainerPDUSessionResourceNotifyIEs, 24%N);
  ("PDUSessionResourceNotify", G_PDUSessionResourceNotify, 24%N);
  ("PrivateIEID", G_PrivateIEID, 24%N);
  ("PrivateMessageIEsValue", G_PrivateMessageIEsValue, 8%N);
  ("PrivateMessageIEs", G_PrivateMessageIEs, 40%N);
  ("PrivateIEContainerPrivateMessageIEs", G_PrivateIEContainerPrivateMessageIEs, 24%N);
  ("PrivateMessage", G_PrivateMessage, 24%N);
  ("EUTRACGIList", G_EUTRACGIList, 24%N);
  ("NRCGIList", G_NRCGIList, 24%N);
  ("ProtocolIESingleContainerPWSFailedCellIDListExtIEs", G_ProtocolIESingleContainerPWSFailedCellIDListExtIEs, 0%N);
  ("PWSFailedCellIDList", G_PWSFailedCellIDList, 32%N);
  ("PWSFailureIndicationIEsValue", G_PWSFailureIndicationIEsValue, 24%N);
  ("PWSFailureIndicationIEs", G_PWSFailureIndicationIEs, 40%N);
  ("ProtocolIEContainerPWSFailureIndicationIEs", G_ProtocolIEContainerPWSFailureIndicationIEs, 24%N);
  ("PWSFailureIndication", G_PWSFailureIndication, 24%N);
  ("ProtocolIESingleContainerCellIDListForRestartExtIEs", G_ProtocolIESingleContainerCellIDListForRestartExtIEs, 0%N);
  ("CellIDListForRestart", G_CellIDListForRestart, 32%N);
  ("TAIListForRestart", G_TAIListForRestart, 24%N);
  ("EmergencyAreaIDListForRestart", G_EmergencyAreaIDListForRestart, 24%N);
  ("PWSRestartIndicationIEsValue", G_PWSRestartIndicationIEsValue, 40%N);
  ("PWSRestartIndicationIEs", G_PWSRestartIndicationIEs, 56%N);
  ("ProtocolIEContainerPWSRestartIndicationIEs", G_ProtocolIEContainerPWSRestartIndicationIEs, 24%N);
  ("PWSRestartIndication", G_PWSRestartIndication, 24%N);
  ("RerouteNASRequestIEsValue", G_RerouteNASRequestIEsValue, 48%N);
  ("RerouteNASRequestIEs", G_RerouteNASRequestIEs, 64%N);
  ("ProtocolIEContainerRerouteNASRequestIEs", G_ProtocolIEContainerRerouteNASRequestIEs, 24%N);
  ("RerouteNASRequest", G_RerouteNASRequest, 24%N);
  ("RRCState", G_RRCState, 8%N);
  ("RRCInactiveTransitionReportIEsValue", G_RRCInactiveTransitionReportIEsValue, 40%N);
  ("RRCInactiveTransitionReportIEs", G_RRCInactiveTransitionReportIEs, 56%N);
  ("ProtocolIEContainerRRCInactiveTransitionReportIEs", G_ProtocolIEContainerRRCInactiveTransitionReportIEs, 24%N);
  ("RRCInactiveTransitionReport", G_RRCInactiveTransitionReport, 24%N);
  ("TraceFailureIndicationIEsValue", G_TraceFailureIndicationIEsValue, 40%N);
  ("TraceFailureIndicationIEs", G_TraceFailureIndicationIEs, 56%N);
  ("ProtocolIEContainerTraceFailureIndicationIEs", G_ProtocolIEContainerTraceFailureIndicationIEs, 24%N);
  ("TraceFailureIndication", G_TraceFailureIndication, 24%N);
  ("TraceStartIEsValue", G_TraceStartIEsValue, 32%N);
  ("TraceStartIEs", G_TraceStartIEs, 48%N);
  ("ProtocolIEContainerTraceStartIEs", G_ProtocolIEContainerTraceStartIEs, 24%N);
  ("TraceStart", G_TraceStart, 24%N);
  ("PDUSessionResourceItemCxtRelReqExtIEsExtensionValue", G_PDUSessionResourceItemCxtRelReqExtIEsExtensionValue, 8%N);
  ("PDUSessionResourceItemCxtRelReqExtIEs", G_PDUSessionResourceItemCxtRelReqExtIEs, 24%N);
  ("ProtocolExtensionContainerPDUSessionResourceItemCxtRelReqExtIEs", G_ProtocolExtensionContainerPDUSessionResourceItemCxtRelReqExtIEs, 24%N);
  ("PDUSessionResourceItemCxtRelReq", G_PDUSessionResourceItemCxtRelReq, 16%N);
  ("PDUSessionResourceListCxtRelReq", G_PDUSessionResourceListCxtRelReq, 24%N);
  ("UEContextReleaseRequestIEsValue", G_UEContextReleaseRequestIEsValue, 40%N);
  ("UEContextReleaseRequestIEs", G_UEContextReleaseRequestIEs, 56%N);
  ("ProtocolIEContainerUEContextReleaseRequestIEs", G_ProtocolIEContainerUEContextReleaseRequestIEs, 24%N);
  ("UEContextReleaseRequest", G_UEContextReleaseRequest, 24%N);
  ("UERadioCapabilityInfoIndicationIEsValue", G_UERadioCapabilityInfoIndicationIEsValue, 40%N);
  ("UERadioCapabilityInfoIndicationIEs", G_UERadioCapabilityInfoIndicationIEs, 56%N);
  ("ProtocolIEContainerUERadioCapabilityInfoIndicationIEs", G_ProtocolIEContainerUERadioCapabilityInfoIndicationIEs, 24%N);
  ("UERadioCapabilityInfoIndication", G_UERadioCapabilityInfoIndication, 24%N);
  ("UETNLABindingReleaseRequestIEsValue", G_UETNLABindingReleaseRequestIEsValue, 24%N);
  ("UETNLABindingReleaseRequestIEs", G_UETNLABindingReleaseRequestIEs, 40%N);
  ("ProtocolIEContainerUETNLABindingReleaseRequestIEs", G_ProtocolIEContainerUETNLABindingReleaseRequestIEs, 24%N);
  ("UETNLABindingReleaseRequest", G_UETNLABindingReleaseRequest, 24%N);
  ("UplinkNASTransportIEsValue", G_UplinkNASTransportIEsValue, 40%N);
  ("UplinkNASTransportIEs", G_UplinkNASTransportIEs, 56%N);
  ("ProtocolIEContainerUplinkNASTransportIEs", G_ProtocolIEContainerUplinkNASTransportIEs, 24%N);
  ("UplinkNASTransport", G_UplinkNASTransport, 24%N);
  ("UplinkNonUEAssociatedNRPPaTransportIEsValue", G_UplinkNonUEAssociatedNRPPaTransportIEsValue, 24%N);
  ("UplinkNonUEAssociatedNRPPaTransportIEs", G_UplinkNonUEAssociatedNRPPaTransportIEs, 40%N);
  ("ProtocolIEContainerUplinkNonUEAssociatedNRPPaTransportIEs", G_ProtocolIEContainerUplinkNonUEAssociatedNRPPaTransportIEs, 24%N);
  ("UplinkNonUEAssociatedNRPPaTransport", G_UplinkNonUEAssociatedNRPPaTransport, 24%N);
  ("UplinkRANConfigurationTransferIEsValue", G_UplinkRANConfigurationTransferIEsValue, 16%N);
  ("UplinkRANConfigurationTransferIEs", G_UplinkRANConfigurationTransferIEs, 32%N);
  ("ProtocolIEContainerUplinkRANConfigurationTransferIEs", G_ProtocolIEContainerUplinkRANConfigurationTransferIEs, 24%N);
  ("UplinkRANConfigurationTransfer", G_UplinkRANConfigurationTransfer, 24%N);
  ("UplinkRANStatusTransferIEsValue", G_UplinkRANStatusTransferIEsValue, 32%N);
  ("UplinkRANStatusTransferIEs", G_UplinkRANStatusTransferIEs, 48%N);
  ("ProtocolIEContainerUplinkRANStatusTransferIEs", G_ProtocolIEContainerUplinkRANStatusTransferIEs, 24%N);
  ("UplinkRANStatusTransfer", G_UplinkRANStatusTransfer, 24%N);
  ("UplinkUEAssociatedNRPPaTransportIEsValue", G_UplinkUEAssociatedNRPPaTransportIEsValue, 40%N);
  ("UplinkUEAssociatedNRPPaTransportIEs", G_UplinkUEAssociatedNRPPaTransportIEs, 56%N);
  ("ProtocolIEContainerUplinkUEAssociatedNRPPaTransportIEs", G_ProtocolIEContainerUplinkUEAssociatedNRPPaTransportIEs, 24%N);
  ("UplinkUEAssociatedNRPPaTransport", G_UplinkUEAssociatedNRPPaTransport, 24%N);
  ("InitiatingMessageValue", G_InitiatingMessageValue, 424%N);
  ("InitiatingMessage", G_InitiatingMessage, 440%N);
  ("AMFTNLAssociationSetupItemExtIEsExtensionValue", G_AMFTNLAssociationSetupItemExtIEsExtensionValue, 8%N);
  ("AMFTNLAssociationSetupItemExtIEs", G_AMFTNLAssociationSetupItemExtIEs, 24%N);
  ("ProtocolExtensionContainerAMFTNLAssociationSetupItemExtIEs", G_ProtocolExtensionContainerAMFTNLAssociationSetupItemExtIEs, 24%N);
  ("AMFTNLAssociationSetupItem", G_AMFTNLAssociationSetupItem, 32%N);
  ("AMFTNLAssociationSetupList", G_AMFTNLAssociationSetupList, 24%N);
  ("TNLAssociationItemExtIEsExtensionValue", G_TNLAssociationItemExtIEsExtensionValue, 8%N);
  ("TNLAssociationItemExtIEs", G_TNLAssociationItemExtIEs, 24%N);
  ("ProtocolExtensionContainerTNLAssociationItemExtIEs", G_ProtocolExtensionContainerTNLAssociationItemExtIEs, 24%N);
  ("TNLAssociationItem", G_TNLAssociationItem, 88%N);
  ("TNLAssociationList", G_TNLAssociationList, 24%N);
  ("AMFConfigurationUpdateAcknowledgeIEsValue", G_AMFConfigurationUpdateAcknowledgeIEsValue, 32%N);
  ("AMFConfigurationUpdateAcknowledgeIEs", G_AMFConfigurationUpdateAcknowledgeIEs, 48%N);
  ("ProtocolIEContainerAMFConfigurationUpdateAcknowledgeIEs", G_ProtocolIEContainerAMFConfigurationUpdateAcknowledgeIEs, 24%N);
  ("AMFConfigurationUpdateAcknowledge", G_AMFConfigurationUpdateAcknowledge, 24%N);
  ("HandoverCancelAcknowledgeIEsValue", G_HandoverCancelAcknowledgeIEsValue, 32%N);
  ("HandoverCancelAcknowledgeIEs", G_HandoverCancelAcknowledgeIEs, 48%N);
  ("ProtocolIEContainerHandoverCancelAcknowledgeIEs", G_ProtocolIEContainerHandoverCancelAcknowledgeIEs, 24%N);
  ("HandoverCancelAcknowledge", G_HandoverCancelAcknowledge, 24%N);
  ("NASSecurityParametersFromNGRAN", G_NASSecurityParametersFromNGRAN, 24%N);
  ("PDUSessionResourceHandoverItemExtIEsExtensionValue", G_PDUSessionResourceHandoverItemExtIEsExtensionValue, 8%N);
  ("PDUSessionResourceHandoverItemExtIEs", G_PDUSessionResourceHandoverItemExtIEs, 24%N);
  ("ProtocolExtensionContainerPDUSessionResourceHandoverItemExtIEs", G_ProtocolExtensionContainerPDUSessionResourceHandoverItemExtIEs, 24%N);
  ("PDUSessionResourceHandoverItem", G_PDUSessionResourceHandoverItem, 40%N);
  ("PDUSessionResourceHandoverList", G_PDUSessionResourceHandoverList, 24%N);
  ("PDUSessionResourceToReleaseItemHOCmdExtIEsExtensionValue", G_PDUSessionResourceToReleaseItemHOCmdExtIEsExtensionValue, 8%N);
  ("PDUSessionResourceToReleaseItemHOCmdExtIEs", G_PDUSessionResourceToReleaseItemHOCmdExtIEs, 24%N);
  ("ProtocolExtensionContainerPDUSessionResourceToReleaseItemHOCmdExtIEs", G_ProtocolExtensionContainerPDUSessionResourceToReleaseItemHOCmdExtIEs, 24%N);
  ("PDUSessionResourceToReleaseItemHOCmd", G_PDUSessionResourceToReleaseItemHOCmd, 40%N);
  ("PDUSessionResourceToReleaseListHOCmd", G_PDUSessionResourceToReleaseListHOCmd, 24%N);
  ("TargetToSourceTransparentContainer", G_TargetToSourceTransparentContainer, 24%N);
  ("HandoverCommandIEsValue", G_HandoverCommandIEsValue, 72%N);
  ("HandoverCommandIEs", G_HandoverCommandIEs, 88%N);
  ("ProtocolIEContainerHandoverCommandIEs", G_ProtocolIEContainerHandoverCommandIEs, 24%N);
  ("HandoverCommand", G_HandoverCommand, 24%N);
  ("PDUSessionResourceAdmittedItemExtIEsExtensionValue", G_PDUSessionResourceAdmittedItemExtIEsExtensionValue, 8%N);
  ("PDUSessionResourceAdmittedItemExtIEs", G_PDUSessionResourceAdmittedItemExtIEs, 24%N);
  ("ProtocolExtensionContainerPDUSessionResourceAdmittedItemExtIEs", G_ProtocolExtensionContainerPDUSessionResourceAdmittedItemExtIEs, 24%N);
  ("PDUSessionResourceAdmittedItem", G_PDUSessionResourceAdmittedItem, 40%N);
  ("PDUSessionResourceAdmittedList", G_PDUSessionResourceAdmittedList, 24%N);
  ("PDUSessionResourceFailedToSetupItemHOAckExtIEsExtensionValue", G_PDUSessionResourceFailedToSetupItemHOAckExtIEsExtensionValue, 8%N);
  ("PDUSessionResourceFailedToSetupItemHOAckExtIEs", G_PDUSessionResourceFailedToSetupItemHOAckExtIEs, 24%N);
  ("ProtocolExtensionContainerPDUSessionResourceFailedToSetupItemHOAckExtIEs", G_ProtocolExtensionContainerPDUSessionResourceFailedToSetupItemHOAckExtIEs, 24%N);
  ("PDUSessionResourceFailedToSetupItemHOAck", G_PDUSessionResourceFailedToSetupItemHOAck, 40%N);
  ("PDUSessionResourceFailedToSetupListHOAck", G_PDUSessionResourceFailedToSetupListHOAck, 24%N);
  ("HandoverRequestAcknowledgeIEsValue", G_HandoverRequestAcknowledgeIEsValue, 56%N);
  ("HandoverRequestAcknowledgeIEs", G_HandoverRequestAcknowledgeIEs, 72%N);
  ("ProtocolIEContainerHandoverRequestAcknowledgeIEs", G_ProtocolIEContainerHandoverRequestAcknowledgeIEs, 24%N);
  ("HandoverRequestAcknowledge", G_HandoverRequestAcknowledge, 24%N);
  ("PDUSessionResourceSetupItemCxtResExtIEsExtensionValue", G_PDUSessionResourceSetupItemCxtResExtIEsExtensionValue, 8%N);
  ("PDUSessionResourceSetupItemCxtResExtIEs", G_PDUSessionResourceSetupItemCxtResExtIEs, 24%N);
  ("ProtocolExtensionContainerPDUSessionResourceSetupItemCxtResExtIEs", G_ProtocolExtensionContainerPDUSessionResourceSetupItemCxtResExtIEs, 24%N);
  ("PDUSessionResourceSetupItemCxtRes", G_PDUSessionResourceSetupItemCxtRes, 40%N);
  ("PDUSessionResourceSetupListCxtRes", G_PDUSessionResourceSetupListCxtRes, 24%N);
  ("PDUSessionResourceFailedToSetupItemCxtResExtIEsExtensionValue", G_PDUSessionResourceFailedToSetupItemCxtResExtIEsExtensionValue, 8%N);
  ("PDUSessionResourceFailedToSetupItemCxtResExtIEs", G_PDUSessionResourceFailedToSetupItemCxtResExtIEs, 24%N);
  ("ProtocolExtensionContainerPDUSessionResourceFailedToSetupItemCxtResExtIEs", G_ProtocolExtensionContainerPDUSessionResourceFailedToSetupItemCxtResExtIEs, 24%N);
  ("PDUSessionResourceFailedToSetupItemCxtRes", G_PDUSessionResourceFailedToSetupItemCxtRes, 40%N);
  ("PDUSessionResourceFailedToSetupListCxtRes", G_PDUSessionResourceFailedToSetupListCxtRes, 24%N);
  ("InitialContextSetupResponseIEsValue", G_InitialContextSetupResponseIEsValue, 48%N);
  ("InitialContextSetupResponseIEs", G_InitialContextSetupResponseIEs, 64%N);
  ("ProtocolIEContainerInitialContextSetupResponseIEs", G_ProtocolIEContainerInitialContextSetupResponseIEs, 24%N);
  ("InitialContextSetupResponse", G_InitialContextSetupResponse, 24%N);
  ("NGResetAcknowledgeIEsValue", G_NGResetAcknowledgeIEsValue, 24%N);
  ("NGResetAcknowledgeIEs", G_NGResetAcknowledgeIEs, 40%N);
  ("ProtocolIEContainerNGResetAcknowledgeIEs", G_ProtocolIEContainerNGResetAcknowledgeIEs, 24%N);
  ("NGResetAcknowledge", G_NGResetAcknowledge, 24%N);
  ("NGSetupResponseIEsValue", G_NGSetupResponseIEsValue, 48%N);
  ("NGSetupResponseIEs", G_NGSetupResponseIEs, 64%N);
  ("ProtocolIEContainerNGSetupResponseIEs", G_ProtocolIEContainerNGSetupResponseIEs, 24%N);
  ("NGSetupResponse", G_NGSetupResponse, 24%N);
  ("PDUSessionResourceSwitchedItemExtIEsExtensionValue", G_PDUSessionResourceSwitchedItemExtIEsExtensionValue, 8%N);
  ("PDUSessionResourceSwitchedItemExtIEs", G_PDUSessionResourceSwitchedItemExtIEs, 24%N);
  ("ProtocolExtensionContainerPDUSessionResourceSwitchedItemExtIEs", G_ProtocolExtensionContainerPDUSessionResourceSwitchedItemExtIEs, 24%N);
  ("PDUSessionResourceSwitchedItem", G_PDUSessionResourceSwitchedItem, 40%N);
  ("PDUSessionResourceSwitchedList", G_PDUSessionResourceSwitchedList, 24%N);
  ("PDUSessionResourceReleasedItemPSAckExtIEsExtensionValue", G_PDUSessionResourceReleasedItemPSAckExtIEsExtensionValue, 8%N);
  ("PDUSessionResourceReleasedItemPSAckExtIEs", G_PDUSessionResourceReleasedItemPSAckExtIEs, 24%N);
  ("ProtocolExtensionContainerPDUSessionResourceReleasedItemPSAckExtIEs", G_ProtocolExtensionContainerPDUSessionResourceReleasedItemPSAckExtIEs, 24%N);
  ("PDUSessionResourceReleasedItemPSAck", G_PDUSessionResourceReleasedItemPSAck, 40%N);
  ("PDUSessionResourceReleasedListPSAck", G_PDUSessionResourceReleasedListPSAck, 24%N);
  ("PathSwitchRequestAcknowledgeIEsValue", G_PathSwitchRequestAcknowledgeIEsValue, 96%N);
  ("PathSwitchRequestAcknowledgeIEs", G_PathSwitchRequestAcknowledgeIEs, 112%N);
  ("ProtocolIEContainerPathSwitchRequestAcknowledgeIEs", G_ProtocolIEContainerPathSwitchRequestAcknowledgeIEs, 24%N);
  ("PathSwitchRequestAcknowledge", G_PathSwitchRequestAcknowledge, 24%N);
  ("PDUSessionResourceModifyItemModResExtIEsExtensionValue", G_PDUSessionResourceModifyItemModResExtIEsExtensionValue, 8%N);
  ("PDUSessionResourceModifyItemModResExtIEs", G_PDUSessionResourceModifyItemModResExtIEs, 24%N);
  ("ProtocolExtensionContainerPDUSessionResourceModifyItemModResExtIEs", G_ProtocolExtensionContainerPDUSessionResourceModifyItemModResExtIEs, 24%N);
  ("PDUSessionResourceModifyItemModRes", G_PDUSessionResourceModifyItemModRes, 24%N);
  ("PDUSessionResourceModifyListModRes", G_PDUSessionResourceModifyListModRes, 24%N);
  ("PDUSessionResourceFailedToModifyItemModResExtIEsExtensionValue", G_PDUSessionResourceFailedToModifyItemModResExtIEsExtensionValue, 8%N);
  ("PDUSessionResourceFailedToModifyItemModResExtIEs", G_PDUSessionResourceFailedToModifyItemModResExtIEs, 24%N);
  ("ProtocolExtensionContainerPDUSessionResourceFailedToModifyItemModResExtIEs", G_ProtocolExtensionContainerPDUSessionResourceFailedToModifyItemModResExtIEs, 24%N);
  ("PDUSessionResourceFailedToModifyItemModRes", G_PDUSessionResourceFailedToModifyItemModRes, 40%N);
  ("PDUSessionResourceFailedToModifyListModRes", G_PDUSessionResourceFailedToModifyListModRes, 24%N);
  ("PDUSessionResourceModifyResponseIEsValue", G_PDUSessionResourceModifyResponseIEsValue, 56%N);
  ("PDUSessionResourceModifyResponseIEs", G_PDUSessionResourceModifyResponseIEs, 72%N);
  ("ProtocolIEContainerPDUSessionResourceModifyResponseIEs", G_ProtocolIEContainerPDUSessionResourceModifyResponseIEs, 24%N);
  ("PDUSessionResourceModifyResponse", G_PDUSessionResourceModifyResponse, 24%N);
  ("PDUSessionResourceModifyItemModCfmExtIEsExtensionValue", G_PDUSessionResourceModifyItemModCfmExtIEsExtensionValue, 8%N);
  ("PDUSessionResourceModifyItemModCfmExtIEs", G_PDUSessionResourceModifyItemModCfmExtIEs, 24%N);
  ("ProtocolExtensionContainerPDUSessionResourceModifyItemModCfmExtIEs", G_ProtocolExtensionContainerPDUSessionResourceModifyItemModCfmExtIEs, 24%N);
  ("PDUSessionResourceModifyItemModCfm", G_PDUSessionResourceModifyItemModCfm, 40%N);
  ("PDUSessionResourceModifyListModCfm", G_PDUSessionResourceModifyListModCfm, 24%N);
  ("PDUSessionResourceFailedToModifyItemModCfmExtIEsExtensionValue", G_PDUSessionResourceFailedToModifyItemModCfmExtIEsExtensionValue, 8%N);
  ("PDUSessionResourceFailedToModifyItemModCfmExtIEs", G_PDUSessionResourceFailedToModifyItemModCfmExtIEs, 24%N);
  ("ProtocolExtensionContainerPDUSessionResourceFailedToModifyItemModCfmExtIEs", G_ProtocolExtensionContainerPDUSessionResourceFailedToModifyItemModCfmExtIEs, 24%N);
  ("PDUSessionResourceFailedToModifyItemModCfm", G_PDUSessionResourceFailedToModifyItemModCfm, 40%N);
  ("PDUSessionResourceFailedToModifyListModCfm", G_PDUSessionResourceFailedToModifyListModCfm, 24%N);
  ("PDUSessionResourceModifyConfirmIEsValue", G_PDUSessionResourceModifyConfirmIEsValue, 48%N);
  ("PDUSessionResourceModifyConfirmIEs", G_PDUSessionResourceModifyConfirmIEs, 64%N);
  ("ProtocolIEContainerPDUSessionResourceModifyConfirmIEs", G_ProtocolIEContainerPDUSessionResourceModifyConfirmIEs, 24%N);
  ("PDUSessionResourceModifyConfirm", G_PDUSessionResourceModifyConfirm, 24%N);
  ("PDUSessionResourceReleasedItemRelResExtIEsExtensionValue", G_PDUSessionResourceReleasedItemRelResExtIEsExtensionValue, 8%N);
  ("PDUSessionResourceReleasedItemRelResExtIEs", G_PDUSessionResourceReleasedItemRelResExtIEs, 24%N);
  ("ProtocolExtensionContainerPDUSessionResourceReleasedItemRelResExtIEs", G_ProtocolExtensionContainerPDUSessionResourceReleasedItemRelResExtIEs, 24%N);
  ("PDUSessionResourceReleasedItemRelRes", G_PDUSessionResourceReleasedItemRelRes, 40%N);
  ("PDUSessionResourceReleasedListRelRes", G_PDUSessionResourceReleasedListRelRes, 24%N);
  ("PDUSessionResourceReleaseResponseIEsValue", G_PDUSessionResourceReleaseResponseIEsValue, 48%N);
  ("PDUSessionResourceReleaseResponseIEs", G_PDUSessionResourceReleaseResponseIEs, 64%N);
  ("ProtocolIEContainerPDUSessionResourceReleaseResponseIEs", G_ProtocolIEContainerPDUSessionResourceReleaseResponseIEs, 24%N);
  ("PDUSessionResourceReleaseResponse", G_PDUSessionResourceReleaseResponse, 24%N);
  ("PDUSessionResourceSetupItemSUResExtIEsExtensionValue", G_PDUSessionResourceSetupItemSUResExtIEsExtensionValue, 8%N);
  ("PDUSessionResourceSetupItemSUResExtIEs", G_PDUSessionResourceSetupItemSUResExtIEs, 24%N);
  ("ProtocolExtensionContainerPDUSessionResourceSetupItemSUResExtIEs", G_ProtocolExtensionContainerPDUSessionResourceSetupItemSUResExtIEs, 24%N);
  ("PDUSessionResourceSetupItemSURes", G_PDUSessionResourceSetupItemSURes, 40%N);
  ("PDUSessionResourceSetupListSURes", G_PDUSessionResourceSetupListSURes, 24%N);
  ("PDUSessionResourceFailedToSetupItemSUResExtIEsExtensionValue", G_PDUSessionResourceFailedToSetupItemSUResExtIEsExtensionValue, 8%N);
  ("PDUSessionResourceFailedToSetupItemSUResExtIEs", G_PDUSessionResourceFailedToSetupItemSUResExtIEs, 24%N);
  ("ProtocolExtensionContainerPDUSessionResourceFailedToSetupItemSUResExtIEs", G_ProtocolExtensionContainerPDUSessionResourceFailedToSetupItemSUResExtIEs, 24%N);
  ("PDUSessionResourceFailedToSetupItemSURes", G_PDUSessionResourceFailedToSetupItemSURes, 40%N);
  ("PDUSessionResourceFailedToSetupListSURes", G_PDUSessionResourceFailedToSetupListSURes, 24%N);
  ("PDUSessionResourceSetupResponseIEsValue", G_PDUSessionResourceSetupResponseIEsValue, 48%N);
  ("PDUSessionResourceSetupResponseIEs", G_PDUSessionResourceSetupResponseIEs, 64%N);
  ("ProtocolIEContainerPDUSessionResourceSetupResponseIEs", G_ProtocolIEContainerPDUSessionResourceSetupResponseIEs, 24%N);
  ("PDUSessionResourceSetupResponse", G_PDUSessionResourceSetupResponse, 24%N);
  ("NumberOfBroadcasts", G_NumberOfBroadcasts, 8%N);
  ("CellIDCancelledEUTRAItemExtIEsExtensionValue", G_CellIDCancelledEUTRAItemExtIEsExtensionValue, 8%N);
  ("CellIDCancelledEUTRAItemExtIEs", G_CellIDCancelledEUTRAItemExtIEs, 24%N);
  ("ProtocolExtensionContainerCellIDCancelledEUTRAItemExtIEs", G_ProtocolExtensionContainerCellIDCancelledEUTRAItemExtIEs, 24%N);
  ("CellIDCancelledEUTRAItem", G_CellIDCancelledEUTRAItem, 80%N);
  ("CellIDCancelledEUTRA", G_CellIDCancelledEUTRA, 24%N);
  ("CancelledCellsInTAIEUTRAItemExtIEsExtensionValue", G_CancelledCellsInTAIEUTRAItemExtIEsExtensionValue, 8%N);
  ("CancelledCellsInTAIEUTRAItemExtIEs", G_CancelledCellsInTAIEUTRAItemExtIEs, 24%N);
  ("ProtocolExtensionContainerCancelledCellsInTAIEUTRAItemExtIEs", G_ProtocolExtensionContainerCancelledCellsInTAIEUTRAItemExtIEs, 24%N);
  ("CancelledCellsInTAIEUTRAItem", G_CancelledCellsInTAIEUTRAItem, 80%N);
  ("CancelledCellsInTAIEUTRA", G_CancelledCellsInTAIEUTRA, 24%N);
  ("TAICancelledEUTRAItemExtIEsExtensionValue", G_TAICancelledEUTRAItemExtIEsExtensionValue, 8%N);
  ("TAICancelledEUTRAItemExtIEs", G_TAICancelledEUTRAItemExtIEs, 24%N);
  ("ProtocolExtensionContainerTAICancelledEUTRAItemExtIEs", G_ProtocolExtensionContainerTAICancelledEUTRAItemExtIEs, 24%N);
  ("TAICancelledEUTRAItem", G_TAICancelledEUTRAItem, 88%N);
  ("TAICancelledEUTRA", G_TAICancelledEUTRA, 24%N);
  ("CancelledCellsInEAIEUTRAItemExtIEsExtensionValue", G_CancelledCellsInEAIEUTRAItemExtIEsExtensionValue, 8%N);
  ("CancelledCellsInEAIEUTRAItemExtIEs", G_CancelledCellsInEAIEUTRAItemExtIEs, 24%N);
  ("ProtocolExtensionContainerCancelledCellsInEAIEUTRAItemExtIEs", G_ProtocolExtensionContainerCancelledCellsInEAIEUTRAItemExtIEs, 24%N);
  ("CancelledCellsInEAIEUTRAItem", G_CancelledCellsInEAIEUTRAItem, 80%N);
  ("CancelledCellsInEAIEUTRA", G_CancelledCellsInEAIEUTRA, 24%N);
  ("EmergencyAreaIDCancelledEUTRAItemExtIEsExtensionValue", G_EmergencyAreaIDCancelledEUTRAItemExtIEsExtensionValue, 8%N);
  ("EmergencyAreaIDCancelledEUTRAItemExtIEs", G_EmergencyAreaIDCancelledEUTRAItemExtIEs, 24%N);
  ("ProtocolExtensionContainerEmergencyAreaIDCancelledEUTRAItemExtIEs", G_ProtocolExtensionContainerEmergencyAreaIDCancelledEUTRAItemExtIEs, 24%N);
  ("EmergencyAreaIDCancelledEUTRAItem", G_EmergencyAreaIDCancelledEUTRAItem, 56%N);
  ("EmergencyAreaIDCancelledEUTRA", G_EmergencyAreaIDCancelledEUTRA, 24%N);
  ("CellIDCancelledNRItemExtIEsExtensionValue", G_CellIDCancelledNRItemExtIEsExtensionValue, 8%N);
  ("CellIDCancelledNRItemExtIEs", G_CellIDCancelledNRItemExtIEs, 24%N);
  ("ProtocolExtensionContainerCellIDCancelledNRItemExtIEs", G_ProtocolExtensionContainerCellIDCancelledNRItemExtIEs, 24%N);
  ("CellIDCancelledNRItem", G_CellIDCancelledNRItem, 80%N);
  ("CellIDCancelledNR", G_CellIDCancelledNR, 24%N);
  ("CancelledCellsInTAINRItemExtIEsExtensionValue", G_CancelledCellsInTAINRItemExtIEsExtensionValue, 8%N);
  ("CancelledCellsInTAINRItemExtIEs", G_CancelledCellsInTAINRItemExtIEs, 24%N);
  ("ProtocolExtensionContainerCancelledCellsInTAINRItemExtIEs", G_ProtocolExtensionContainerCancelledCellsInTAINRItemExtIEs, 24%N);
  ("CancelledCellsInTAINRItem", G_CancelledCellsInTAINRItem, 80%N);
  ("CancelledCellsInTAINR", G_CancelledCellsInTAINR, 24%N);
  ("TAICancelledNRItemExtIEsExtensionValue", G_TAICancelledNRItemExtIEsExtensionValue, 8%N);
  ("TAICancelledNRItemExtIEs", G_TAICancelledNRItemExtIEs, 24%N);
  ("ProtocolExtensionContainerTAICancelledNRItemExtIEs", G_ProtocolExtensionContainerTAICancelledNRItemExtIEs, 24%N);
  ("TAICancelledNRItem", G_TAICancelledNRItem, 88%N);
  ("TAICancelledNR", G_TAICancelledNR, 24%N);
  ("CancelledCellsInEAINRItemExtIEsExtensionValue", G_CancelledCellsInEAINRItemExtIEsExtensionValue, 8%N);
  ("CancelledCellsInEAINRItemExtIEs", G_CancelledCellsInEAINRItemExtIEs, 24%N);
  ("ProtocolExtensionContainerCancelledCellsInEAINRItemExtIEs", G_ProtocolExtensionContainerCancelledCellsInEAINRItemExtIEs, 24%N);
  ("CancelledCellsInEAINRItem", G_CancelledCellsInEAINRItem, 80%N);
  ("CancelledCellsInEAINR", G_CancelledCellsInEAINR, 24%N);
  ("EmergencyAreaIDCancelledNRItemExtIEsExtensionValue", G_EmergencyAreaIDCancelledNRItemExtIEsExtensionValue, 8%N);
  ("EmergencyAreaIDCancelledNRItemExtIEs", G_EmergencyAreaIDCancelledNRItemExtIEs, 24%N);
  ("ProtocolExtensionContainerEmergencyAreaIDCancelledNRItemExtIEs", G_ProtocolExtensionContainerEmergencyAreaIDCancelledNRItemExtIEs, 24%N);
  ("EmergencyAreaIDCancelledNRItem", G_EmergencyAreaIDCancelledNRItem, 56%N);
  ("EmergencyAreaIDCancelledNR", G_EmergencyAreaIDCancelledNR, 24%N);
  ("ProtocolIESingleContainerBroadcastCancelledAreaListExtIEs", G_ProtocolIESingleContainerBroadcastCancelledAreaListExtIEs, 0%N);
  ("BroadcastCancelledAreaList", G_BroadcastCancelledAreaList, 64%N);
  ("PWSCancelResponseIEsValue", G_PWSCancelResponseIEsValue, 40%N);
  ("PWSCancelResponseIEs", G_PWSCancelResponseIEs, 56%N);
  ("ProtocolIEContainerPWSCancelResponseIEs", G_ProtocolIEContainerPWSCancelResponseIEs, 24%N);
  ("PWSCancelResponse", G_PWSCancelResponse, 24%N);
  ("RANConfigurationUpdateAcknowledgeIEsValue", G_RANConfigurationUpdateAcknowledgeIEsValue, 16%N);
  ("RANConfigurationUpdateAcknowledgeIEs", G_RANConfigurationUpdateAcknowledgeIEs, 32%N);
  ("ProtocolIEContainerRANConfigurationUpdateAcknowledgeIEs", G_ProtocolIEContainerRANConfigurationUpdateAcknowledgeIEs, 24%N);
  ("RANConfigurationUpdateAcknowledge", G_RANConfigurationUpdateAcknowledge, 24%N);
  ("UEContextModificationResponseIEsValue", G_UEContextModificationResponseIEsValue, 48%N);
  ("UEContextModificationResponseIEs", G_UEContextModificationResponseIEs, 64%N);
  ("ProtocolIEContainerUEContextModificationResponseIEs", G_ProtocolIEContainerUEContextModificationResponseIEs, 24%N);
  ("UEContextModificationResponse", G_UEContextModificationResponse, 24%N);
  ("ProtocolIESingleContainerAMFPagingTargetExtIEs", G_ProtocolIESingleContainerAMFPagingTargetExtIEs, 0%N);
  ("AMFPagingTarget", G_AMFPagingTarget, 32%N);
  ("RecommendedRANNodeItemExtIEsExtensionValue", G_RecommendedRANNodeItemExtIEsExtensionValue, 8%N);
  ("RecommendedRANNodeItemExtIEs", G_RecommendedRANNodeItemExtIEs, 24%N);
  ("ProtocolExtensionContainerRecommendedRANNodeItemExtIEs", G_ProtocolExtensionContainerRecommendedRANNodeItemExtIEs, 24%N);
  ("RecommendedRANNodeItem", G_RecommendedRANNodeItem, 40%N);
  ("RecommendedRANNodeList", G_RecommendedRANNodeList, 24%N);
  ("RecommendedRANNodesForPagingExtIEsExtensionValue", G_RecommendedRANNodesForPagingExtIEsExtensionValue, 8%N);
  ("RecommendedRANNodesForPagingExtIEs", G_RecommendedRANNodesForPagingExtIEs, 24%N);
  ("ProtocolExtensionContainerRecommendedRANNodesForPagingExtIEs", G_ProtocolExtensionContainerRecommendedRANNodesForPagingExtIEs, 24%N);
  ("RecommendedRANNodesForPaging", G_RecommendedRANNodesForPaging, 32%N);
  ("InfoOnRecommendedCellsAndRANNodesForPagingExtIEsExtensionValue", G_InfoOnRecommendedCellsAndRANNodesForPagingExtIEsExtensionValue, 8%N);
  ("InfoOnRecommendedCellsAndRANNodesForPagingExtIEs", G_InfoOnRecommendedCellsAndRANNodesForPagingExtIEs, 24%N);
  ("ProtocolExtensionContainerInfoOnRecommendedCellsAndRANNodesForPagingExtIEs", G_ProtocolExtensionContainerInfoOnRecommendedCellsAndRANNodesForPagingExtIEs, 24%N);
  ("InfoOnRecommendedCellsAndRANNodesForPaging", G_InfoOnRecommendedCellsAndRANNodesForPaging, 72%N);
  ("PDUSessionResourceItemCxtRelCplExtIEsExtensionValue", G_PDUSessionResourceItemCxtRelCplExtIEsExtensionValue, 8%N);
  ("PDUSessionResourceItemCxtRelCplExtIEs", G_PDUSessionResourceItemCxtRelCplExtIEs, 24%N);
  ("ProtocolExtensionContainerPDUSessionResourceItemCxtRelCplExtIEs", G_ProtocolExtensionContainerPDUSessionResourceItemCxtRelCplExtIEs, 24%N);
  ("PDUSessionResourceItemCxtRelCpl", G_PDUSessionResourceItemCxtRelCpl, 16%N);
  ("PDUSessionResourceListCxtRelCpl", G_PDUSessionResourceListCxtRelCpl, 24%N);
  ("UEContextReleaseCompleteIEsValue", G_UEContextReleaseCompleteIEsValue, 56%N);
  ("UEContextReleaseCompleteIEs", G_UEContextReleaseCompleteIEs, 72%N);
  ("ProtocolIEContainerUEContextReleaseCompleteIEs", G_ProtocolIEContainerUEContextReleaseCompleteIEs, 24%N);
  ("UEContextReleaseComplete", G_UEContextReleaseComplete, 24%N);
  ("IMSVoiceSupportIndicator", G_IMSVoiceSupportIndicator, 8%N);
  ("UERadioCapabilityCheckResponseIEsValue", G_UERadioCapabilityCheckResponseIEsValue, 40%N);
  ("UERadioCapabilityCheckResponseIEs", G_UERadioCapabilityCheckResponseIEs, 56%N);
  ("ProtocolIEContainerUERadioCapabilityCheckResponseIEs", G_ProtocolIEContainerUERadioCapabilityCheckResponseIEs, 24%N);
  ("UERadioCapabilityCheckResponse", G_UERadioCapabilityCheckResponse, 24%N);
  ("CellIDBroadcastEUTRAItemExtIEsExtensionValue", G_CellIDBroadcastEUTRAItemExtIEsExtensionValue, 8%N);
  ("CellIDBroadcastEUTRAItemExtIEs", G_CellIDBroadcastEUTRAItemExtIEs, 24%N);
  ("ProtocolExtensionContainerCellIDBroadcastEUTRAItemExtIEs", G_ProtocolExtensionContainerCellIDBroadcastEUTRAItemExtIEs, 24%N);
  ("CellIDBroadcastEUTRAItem", G_CellIDBroadcastEUTRAItem, 72%N);
  ("CellIDBroadcastEUTRA", G_CellIDBroadcastEUTRA, 24%N);
  ("CompletedCellsInTAIEUTRAItemExtIEsExtensionValue", G_CompletedCellsInTAIEUTRAItemExtIEsExtensionValue, 8%N);
  ("CompletedCellsInTAIEUTRAItemExtIEs", G_CompletedCellsInTAIEUTRAItemExtIEs, 24%N);
  ("ProtocolExtensionContainerCompletedCellsInTAIEUTRAItemExtIEs", G_ProtocolExtensionContainerCompletedCellsInTAIEUTRAItemExtIEs, 24%N);
  ("CompletedCellsInTAIEUTRAItem", G_CompletedCellsInTAIEUTRAItem, 72%N);
  ("CompletedCellsInTAIEUTRA", G_CompletedCellsInTAIEUTRA, 24%N);
  ("TAIBroadcastEUTRAItemExtIEsExtensionValue", G_TAIBroadcastEUTRAItemExtIEsExtensionValue, 8%N);
  ("TAIBroadcastEUTRAItemExtIEs", G_TAIBroadcastEUTRAItemExtIEs, 24%N);
  ("ProtocolExtensionContainerTAIBroadcastEUTRAItemExtIEs", G_ProtocolExtensionContainerTAIBroadcastEUTRAItemExtIEs, 24%N);
  ("TAIBroadcastEUTRAItem", G_TAIBroadcastEUTRAItem, 88%N);
  ("TAIBroadcastEUTRA", G_TAIBroadcastEUTRA, 24%N);
  ("CompletedCellsInEAIEUTRAItemExtIEsExtensionValue", G_CompletedCellsInEAIEUTRAItemExtIEsExtensionValue, 8%N);
  ("CompletedCellsInEAIEUTRAItemExtIEs", G_CompletedCellsInEAIEUTRAItemExtIEs, 24%N);
  ("ProtocolExtensionContainerCompletedCellsInEAIEUTRAItemExtIEs", G_ProtocolExtensionContainerCompletedCellsInEAIEUTRAItemExtIEs, 24%N);
  ("CompletedCellsInEAIEUTRAItem", G_CompletedCellsInEAIEUTRAItem, 72%N);
  ("CompletedCellsInEAIEUTRA", G_CompletedCellsInEAIEUTRA, 24%N);
  ("EmergencyAreaIDBroadcastEUTRAItemExtIEsExtensionValue", G_EmergencyAreaIDBroadcastEUTRAItemExtIEsExtensionValue, 8%N);
  ("EmergencyAreaIDBroadcastEUTRAItemExtIEs", G_EmergencyAreaIDBroadcastEUTRAItemExtIEs, 24%N);
  ("ProtocolExtensionContainerEmergencyAreaIDBroadcastEUTRAItemExtIEs", G_ProtocolExtensionContainerEmergencyAreaIDBroadcastEUTRAItemExtIEs, 24%N);
  ("EmergencyAreaIDBroadcastEUTRAItem", G_EmergencyAreaIDBroadcastEUTRAItem, 56%N);
  ("EmergencyAreaIDBroadcastEUTRA", G_EmergencyAreaIDBroadcastEUTRA, 24%N);
  ("CellIDBroadcastNRItemExtIEsExtensionValue", G_CellIDBroadcastNRItemExtIEsExtensionValue, 8%N);
  ("CellIDBroadcastNRItemExtIEs", G_CellIDBroadcastNRItemExtIEs, 24%N);
  ("ProtocolExtensionContainerCellIDBroadcastNRItemExtIEs", G_ProtocolExtensionContainerCellIDBroadcastNRItemExtIEs, 24%N);
  ("CellIDBroadcastNRItem", G_CellIDBroadcastNRItem, 72%N);
  ("CellIDBroadcastNR", G_CellIDBroadcastNR, 24%N);
  ("CompletedCellsInTAINRItemExtIEsExtensionValue", G_CompletedCellsInTAINRItemExtIEsExtensionValue, 8%N);
  ("CompletedCellsInTAINRItemExtIEs", G_CompletedCellsInTAINRItemExtIEs, 24%N);
  ("ProtocolExtensionContainerCompletedCellsInTAINRItemExtIEs", G_ProtocolExtensionContainerCompletedCellsInTAINRItemExtIEs, 24%N);
  ("CompletedCellsInTAINRItem", G_CompletedCellsInTAINRItem, 72%N);
  ("CompletedCellsInTAINR", G_CompletedCellsInTAINR, 24%N);
  ("TAIBroadcastNRItemExtIEsExtensionValue", G_TAIBroadcastNRItemExtIEsExtensionValue, 8%N);
  ("TAIBroadcastNRItemExtIEs", G_TAIBroadcastNRItemExtIEs, 24%N);
  ("ProtocolExtensionContainerTAIBroadcastNRItemExtIEs", G_ProtocolExtensionContainerTAIBroadcastNRItemExtIEs, 24%N);
  ("TAIBroadcastNRItem", G_TAIBroadcastNRItem, 88%N);
  ("TAIBroadcastNR", G_TAIBroadcastNR, 24%N);
  ("CompletedCellsInEAINRItemExtIEsExtensionValue", G_CompletedCellsInEAINRItemExtIEsExtensionValue, 8%N);
  ("CompletedCellsInEAINRItemExtIEs", G_CompletedCellsInEAINRItemExtIEs, 24%N);
  ("ProtocolExtensionContainerCompletedCellsInEAINRItemExtIEs", G_ProtocolExtensionContainerCompletedCellsInEAINRItemExtIEs, 24%N);
  ("CompletedCellsInEAINRItem", G_CompletedCellsInEAINRItem, 72%N);
  ("CompletedCellsInEAINR", G_CompletedCellsInEAINR, 24%N);
  ("EmergencyAreaIDBroadcastNRItemExtIEsExtensionValue", G_EmergencyAreaIDBroadcastNRItemExtIEsExtensionValue, 8%N);
  ("EmergencyAreaIDBroadcastNRItemExtIEs", G_EmergencyAreaIDBroadcastNRItemExtIEs, 24%N);
  ("ProtocolExtensionContainerEmergencyAreaIDBroadcastNRItemExtIEs", G_ProtocolExtensionContainerEmergencyAreaIDBroadcastNRItemExtIEs, 24%N);
  ("EmergencyAreaIDBroadcastNRItem", G_EmergencyAreaIDBroadcastNRItem, 56%N);
  ("EmergencyAreaIDBroadcastNR", G_EmergencyAreaIDBroadcastNR, 24%N);
  ("ProtocolIESingleContainerBroadcastCompletedAreaListExtIEs", G_ProtocolIESingleContainerBroadcastCompletedAreaListExtIEs, 0%N);
  ("BroadcastCompletedAreaList", G_BroadcastCompletedAreaList, 64%N);
  ("WriteReplaceWarningResponseIEsValue", G_WriteReplaceWarningResponseIEsValue, 40%N);
  ("WriteReplaceWarningResponseIEs", G_WriteReplaceWarningResponseIEs, 56%N);
  ("ProtocolIEContainerWriteReplaceWarningResponseIEs", G_ProtocolIEContainerWriteReplaceWarningResponseIEs, 24%N);
  ("WriteReplaceWarningResponse", G_WriteReplaceWarningResponse, 24%N);
  ("SuccessfulOutcomeValue", G_SuccessfulOutcomeValue, 152%N);
  ("SuccessfulOutcome", G_SuccessfulOutcome, 168%N);
  ("TimeToWait", G_TimeToWait, 8%N);
  ("AMFConfigurationUpdateFailureIEsValue", G_AMFConfigurationUpdateFailureIEsValue, 32%N);
  ("AMFConfigurationUpdateFailureIEs", G_AMFConfigurationUpdateFailureIEs, 48%N);
  ("ProtocolIEContainerAMFConfigurationUpdateFailureIEs", G_ProtocolIEContainerAMFConfigurationUpdateFailureIEs, 24%N);
  ("AMFConfigurationUpdateFailure", G_AMFConfigurationUpdateFailure, 24%N);
  ("HandoverPreparationFailureIEsValue", G_HandoverPreparationFailureIEsValue, 40%N);
  ("HandoverPreparationFailureIEs", G_HandoverPreparationFailureIEs, 56%N);
  ("ProtocolIEContainerHandoverPreparationFailureIEs", G_ProtocolIEContainerHandoverPreparationFailureIEs, 24%N);
  ("HandoverPreparationFailure", G_HandoverPreparationFailure, 24%N);
  ("HandoverFailureIEsValue", G_HandoverFailureIEsValue, 32%N);
  ("HandoverFailureIEs", G_HandoverFailureIEs, 48%N);
  ("ProtocolIEContainerHandoverFailureIEs", G_ProtocolIEContainerHandoverFailureIEs, 24%N);
  ("HandoverFailure", G_HandoverFailure, 24%N);
  ("PDUSessionResourceFailedToSetupItemCxtFailExtIEsExtensionValue", G_PDUSessionResourceFailedToSetupItemCxtFailExtIEsExtensionValue, 8%N);
  ("PDUSessionResourceFailedToSetupItemCxtFailExtIEs", G_PDUSessionResourceFailedToSetupItemCxtFailExtIEs, 24%N);
  ("ProtocolExtensionContainerPDUSessionResourceFailedToSetupItemCxtFailExtIEs", G_ProtocolExtensionContainerPDUSessionResourceFailedToSetupItemCxtFailExtIEs, 24%N);
  ("PDUSessionResourceFailedToSetupItemCxtFail", G_PDUSessionResourceFailedToSetupItemCxtFail, 40%N);
  ("PDUSessionResourceFailedToSetupListCxtFail", G_PDUSessionResourceFailedToSetupListCxtFail, 24%N);
  ("InitialContextSetupFailureIEsValue", G_InitialContextSetupFailureIEsValue, 48%N);
  ("InitialContextSetupFailureIEs", G_InitialContextSetupFailureIEs, 64%N);
  ("ProtocolIEContainerInitialContextSetupFailureIEs", G_ProtocolIEContainerInitialContextSetupFailureIEs, 24%N);
  ("InitialContextSetupFailure", G_InitialContextSetupFailure, 24%N);
  ("NGSetupFailureIEsValue", G_NGSetupFailureIEsValue, 32%N);
  ("NGSetupFailureIEs", G_NGSetupFailureIEs, 48%N);
  ("ProtocolIEContainerNGSetupFailureIEs", G_ProtocolIEContainerNGSetupFailureIEs, 24%N);
  ("NGSetupFailure", G_NGSetupFailure, 24%N);
  ("PDUSessionResourceReleasedItemPSFailExtIEsExtensionValue", G_PDUSessionResourceReleasedItemPSFailExtIEsExtensionValue, 8%N);
  ("PDUSessionResourceReleasedItemPSFailExtIEs", G_PDUSessionResourceReleasedItemPSFailExtIEs, 24%N);
  ("ProtocolExtensionContainerPDUSessionResourceReleasedItemPSFailExtIEs", G_ProtocolExtensionContainerPDUSessionResourceReleasedItemPSFailExtIEs, 24%N);
  ("PDUSessionResourceReleasedItemPSFail", G_PDUSessionResourceReleasedItemPSFail, 40%N);
  ("PDUSessionResourceReleasedListPSFail", G_PDUSessionResourceReleasedListPSFail, 24%N);
  ("PathSwitchRequestFailureIEsValue", G_PathSwitchRequestFailureIEsValue, 40%N);
  ("PathSwitchRequestFailureIEs", G_PathSwitchRequestFailureIEs, 56%N);
  ("ProtocolIEContainerPathSwitchRequestFailureIEs", G_ProtocolIEContainerPathSwitchRequestFailureIEs, 24%N);
  ("PathSwitchRequestFailure", G_PathSwitchRequestFailure, 24%N);
  ("RANConfigurationUpdateFailureIEsValue", G_RANConfigurationUpdateFailureIEsValue, 32%N);
  ("RANConfigurationUpdateFailureIEs", G_RANConfigurationUpdateFailureIEs, 48%N);
  ("ProtocolIEContainerRANConfigurationUpdateFailureIEs", G_ProtocolIEContainerRANConfigurationUpdateFailureIEs, 24%N);
  ("RANConfigurationUpdateFailure", G_RANConfigurationUpdateFailure, 24%N);
  ("UEContextModificationFailureIEsValue", G_UEContextModificationFailureIEsValue, 40%N);
  ("UEContextModificationFailureIEs", G_UEContextModificationFailureIEs, 56%N);
  ("ProtocolIEContainerUEContextModificationFailureIEs", G_ProtocolIEContainerUEContextModificationFailureIEs, 24%N);
  ("UEContextModificationFailure", G_UEContextModificationFailure, 24%N);
  ("UnsuccessfulOutcomeValue", G_UnsuccessfulOutcomeValue, 72%N);
  ("UnsuccessfulOutcome", G_UnsuccessfulOutcome, 88%N);
  ("NGAPPDU", G_NGAPPDU, 32%N);
  ("PDUSessionAggregateMaximumBitRateExtIEsExtensionValue", G_PDUSessionAggregateMaximumBitRateExtIEsExtensionValue, 8%N);
  ("PDUSessionAggregateMaximumBitRateExtIEs", G_PDUSessionAggregateMaximumBitRateExtIEs, 24%N);
  ("ProtocolExtensionContainerPDUSessionAggregateMaximumBitRateExtIEs", G_ProtocolExtensionContainerPDUSessionAggregateMaximumBitRateExtIEs, 24%N);
  ("PDUSessionAggregateMaximumBitRate", G_PDUSessionAggregateMaximumBitRate, 24%N);
  ("GTPTEID", G_GTPTEID, 24%N);
  ("GTPTunnelExtIEsExtensionValue", G_GTPTunnelExtIEsExtensionValue, 8%N);
  ("GTPTunnelExtIEs", G_GTPTunnelExtIEs, 24%N);
  ("ProtocolExtensionContainerGTPTunnelExtIEs", G_ProtocolExtensionContainerGTPTunnelExtIEs, 24%N);
  ("GTPTunnel", G_GTPTunnel, 64%N);
  ("ProtocolIESingleContainerUPTransportLayerInformationExtIEs", G_ProtocolIESingleContainerUPTransportLayerInformationExtIEs, 0%N);
  ("UPTransportLayerInformation", G_UPTransportLayerInformation, 24%N);
  ("DataForwardingNotPossible", G_DataForwardingNotPossible, 8%N);
  ("PDUSessionType", G_PDUSessionType, 8%N);
  ("IntegrityProtectionIndication", G_IntegrityProtectionIndication, 8%N);
  ("ConfidentialityProtectionIndication", G_ConfidentialityProtectionIndication, 8%N);
  ("MaximumIntegrityProtectedDataRate", G_MaximumIntegrityProtectedDataRate, 8%N);
  ("SecurityIndicationExtIEsExtensionValue", G_SecurityIndicationExtIEsExtensionValue, 8%N);
  ("SecurityIndicationExtIEs", G_SecurityIndicationExtIEs, 24%N);
  ("ProtocolExtensionContainerSecurityIndicationExtIEs", G_ProtocolExtensionContainerSecurityIndicationExtIEs, 24%N);
  ("SecurityIndication", G_SecurityIndication, 32%N);
  ("NetworkInstance", G_NetworkInstance, 8%N);
  ("QosFlowIdentifier", G_QosFlowIdentifier, 8%N);
  ("FiveQI", G_FiveQI, 8%N);
  ("PriorityLevelQos", G_PriorityLevelQos, 8%N);
  ("AveragingWindow", G_AveragingWindow, 8%N);
  ("MaximumDataBurstVolume", G_MaximumDataBurstVolume, 8%N);
  ("NonDynamic5QIDescriptorExtIEsExtensionValue", G_NonDynamic5QIDescriptorExtIEsExtensionValue, 8%N);
  ("NonDynamic5QIDescriptorExtIEs", G_NonDynamic5QIDescriptorExtIEs, 24%N);
  ("ProtocolExtensionContainerNonDynamic5QIDescriptorExtIEs", G_ProtocolExtensionContainerNonDynamic5QIDescriptorExtIEs, 24%N);
  ("NonDynamic5QIDescriptor", G_NonDynamic5QIDescriptor, 40%N);
  ("PacketDelayBudget", G_PacketDelayBudget, 8%N);
  ("PacketErrorRateExtIEsExtensionValue", G_PacketErrorRateExtIEsExtensionValue, 8%N);
  ("PacketErrorRateExtIEs", G_PacketErrorRateExtIEs, 24%N);
  ("ProtocolExtensionContainerPacketErrorRateExtIEs", G_ProtocolExtensionContainerPacketErrorRateExtIEs, 24%N);
  ("PacketErrorRate", G_PacketErrorRate, 24%N);
  ("DelayCritical", G_DelayCritical, 8%N);
  ("Dynamic5QIDescriptorExtIEsExtensionValue", G_Dynamic5QIDescriptorExtIEsExtensionValue, 8%N);
  ("Dynamic5QIDescriptorExtIEs", G_Dynamic5QIDescriptorExtIEs, 24%N);
  ("ProtocolExtensionContainerDynamic5QIDescriptorExtIEs", G_ProtocolExtensionContainerDynamic5QIDescriptorExtIEs, 24%N);
  ("Dynamic5QIDescriptor", G_Dynamic5QIDescriptor, 80%N);
  ("ProtocolIESingleContainerQosCharacteristicsExtIEs", G_ProtocolIESingleContainerQosCharacteristicsExtIEs, 0%N);
  ("QosCharacteristics", G_QosCharacteristics, 32%N);
  ("PriorityLevelARP", G_PriorityLevelARP, 8%N);
  ("PreEmptionCapability", G_PreEmptionCapability, 8%N);
  ("PreEmptionVulnerability", G_PreEmptionVulnerability, 8%N);
  ("AllocationAndRetentionPriorityExtIEsExtensionValue", G_AllocationAndRetentionPriorityExtIEsExtensionValue, 8%N);
  ("AllocationAndRetentionPriorityExtIEs", G_AllocationAndRetentionPriorityExtIEs, 24%N);
  ("ProtocolExtensionContainerAllocationAndRetentionPriorityExtIEs", G_ProtocolExtensionContainerAllocationAndRetentionPriorityExtIEs, 24%N);
  ("AllocationAndRetentionPriority", G_AllocationAndRetentionPriority, 32%N);
  ("NotificationControl", G_NotificationControl, 8%N);
  ("PacketLossRate", G_PacketLossRate, 8%N);
  ("GBRQosInformationExtIEsExtensionValue", G_GBRQosInformationExtIEsExtensionValue, 8%N);
  ("GBRQosInformationExtIEs", G_GBRQosInformationExtIEs, 24%N);
  ("ProtocolExtensionContainerGBRQosInformationExtIEs", G_ProtocolExtensionContainerGBRQosInformationExtIEs, 24%N);
  ("GBRQosInformation", G_GBRQosInformation, 64%N);
  ("ReflectiveQosAttribute", G_ReflectiveQosAttribute, 8%N);
  ("AdditionalQosFlowInformation", G_AdditionalQosFlowInformation, 8%N);
  ("QosFlowLevelQosParametersExtIEsExtensionValue", G_QosFlowLevelQosParametersExtIEsExtensionValue, 8%N);
  ("QosFlowLevelQosParametersExtIEs", G_QosFlowLevelQosParametersExtIEs, 24%N);
  ("ProtocolExtensionContainerQosFlowLevelQosParametersExtIEs", G_ProtocolExtensionContainerQosFlowLevelQosParametersExtIEs, 24%N);
  ("QosFlowLevelQosParameters", G_QosFlowLevelQosParameters, 96%N);
  ("ERABID", G_ERABID, 8%N);
  ("QosFlowSetupRequestItemExtIEsExtensionValue", G_QosFlowSetupRequestItemExtIEsExtensionValue, 8%N);
  ("QosFlowSetupRequestItemExtIEs", G_QosFlowSetupRequestItemExtIEs, 24%N);
  ("ProtocolExtensionContainerQosFlowSetupRequestItemExtIEs", G_ProtocolExtensionContainerQosFlowSetupRequestItemExtIEs, 24%N);
  ("QosFlowSetupRequestItem", G_QosFlowSetupRequestItem, 120%N);
  ("QosFlowSetupRequestList", G_QosFlowSetupRequestList, 24%N);
  ("PDUSessionResourceSetupRequestTransferIEsValue", G_PDUSessionResourceSetupRequestTransferIEsValue, 72%N);
  ("PDUSessionResourceSetupRequestTransferIEs", G_PDUSessionResourceSetupRequestTransferIEs, 88%N);
  ("ProtocolIEContainerPDUSessionResourceSetupRequestTransferIEs", G_ProtocolIEContainerPDUSessionResourceSetupRequestTransferIEs, 24%N);
  ("PDUSessionResourceSetupRequestTransfer", G_PDUSessionResourceSetupRequestTransfer, 24%N);
  ("AssociatedQosFlowItemExtIEsExtensionValue", G_AssociatedQosFlowItemExtIEsExtensionValue, 8%N);
  ("AssociatedQosFlowItemExtIEs", G_AssociatedQosFlowItemExtIEs, 24%N);
  ("ProtocolExtensionContainerAssociatedQosFlowItemExtIEs", G_ProtocolExtensionContainerAssociatedQosFlowItemExtIEs, 24%N);
  ("AssociatedQosFlowItem", G_AssociatedQosFlowItem, 24%N);
  ("AssociatedQosFlowList", G_AssociatedQosFlowList, 24%N);
  ("QosFlowPerTNLInformationExtIEsExtensionValue", G_QosFlowPerTNLInformationExtIEsExtensionValue, 8%N);
  ("QosFlowPerTNLInformationExtIEs", G_QosFlowPerTNLInformationExtIEs, 24%N);
  ("ProtocolExtensionContainerQosFlowPerTNLInformationExtIEs", G_ProtocolExtensionContainerQosFlowPerTNLInformationExtIEs, 24%N);
  ("QosFlowPerTNLInformation", G_QosFlowPerTNLInformation, 56%N);
  ("IntegrityProtectionResult", G_IntegrityProtectionResult, 8%N);
  ("ConfidentialityProtectionResult", G_ConfidentialityProtectionResult, 8%N);
  ("SecurityResultExtIEsExtensionValue", G_SecurityResultExtIEsExtensionValue, 8%N);
  ("SecurityResultExtIEs", G_SecurityResultExtIEs, 24%N);
  ("ProtocolExtensionContainerSecurityResultExtIEs", G_ProtocolExtensionContainerSecurityResultExtIEs, 24%N);
  ("SecurityResult", G_SecurityResult, 24%N);
  ("QosFlowItemExtIEsExtensionValue", G_QosFlowItemExtIEsExtensionValue, 8%N);
  ("QosFlowItemExtIEs", G_QosFlowItemExtIEs, 24%N);
  ("ProtocolExtensionContainerQosFlowItemExtIEs", G_ProtocolExtensionContainerQosFlowItemExtIEs, 24%N);
  ("QosFlowItem", G_QosFlowItem, 72%N);
  ("QosFlowList", G_QosFlowList, 24%N);
  ("PDUSessionResourceSetupResponseTransferExtIEsExtensionValue", G_PDUSessionResourceSetupResponseTransferExtIEsExtensionValue, 8%N);
  ("PDUSessionResourceSetupResponseTransferExtIEs", G_PDUSessionResourceSetupResponseTransferExtIEs, 24%N);
  ("ProtocolExtensionContainerPDUSessionResourceSetupResponseTransferExtIEs", G_ProtocolExtensionContainerPDUSessionResourceSetupResponseTransferExtIEs, 24%N);
  ("PDUSessionResourceSetupResponseTransfer", G_PDUSessionResourceSetupResponseTransfer, 88%N);
  ("PDUSessionResourceSetupUnsuccessfulTransferExtIEsExtensionValue", G_PDUSessionResourceSetupUnsuccessfulTransferExtIEsExtensionValue, 8%N);
  ("PDUSessionResourceSetupUnsuccessfulTransferExtIEs", G_PDUSessionResourceSetupUnsuccessfulTransferExtIEs, 24%N);
  ("ProtocolExtensionContainerPDUSessionResourceSetupUnsuccessfulTransferExtIEs", G_ProtocolExtensionContainerPDUSessionResourceSetupUnsuccessfulTransferExtIEs, 24%N);
  ("PDUSessionResourceSetupUnsuccessfulTransfer", G_PDUSessionResourceSetupUnsuccessfulTransfer, 72%N);
  ("PDUSessionResourceReleaseCommandTransferExtIEsExtensionValue", G_PDUSessionResourceReleaseCommandTransferExtIEsExtensionValue, 8%N);
  ("PDUSessionResourceReleaseCommandTransferExtIEs", G_PDUSessionResourceReleaseCommandTransferExtIEs, 24%N);
  ("ProtocolExtensionContainerPDUSessionResourceReleaseCommandTransferExtIEs", G_ProtocolExtensionContainerPDUSessionResourceReleaseCommandTransferExtIEs, 24%N);
  ("PDUSessionResourceReleaseCommandTransfer", G_PDUSessionResourceReleaseCommandTransfer, 64%N);
  ("PDUSessionResourceReleaseResponseTransferExtIEsExtensionValue", G_PDUSessionResourceReleaseResponseTransferExtIEsExtensionValue, 8%N);
  ("PDUSessionResourceReleaseResponseTransferExtIEs", G_PDUSessionResourceReleaseResponseTransferExtIEs, 24%N);
  ("ProtocolExtensionContainerPDUSessionResourceReleaseResponseTransferExtIEs", G_ProtocolExtensionContainerPDUSessionResourceReleaseResponseTransferExtIEs, 24%N);
  ("PDUSessionResourceReleaseResponseTransfer", G_PDUSessionResourceReleaseResponseTransfer, 8%N);
  ("ULNGUUPTNLModifyItemExtIEsExtensionValue", G_ULNGUUPTNLModifyItemExtIEsExtensionValue, 8%N);
  ("ULNGUUPTNLModifyItemExtIEs", G_ULNGUUPTNLModifyItemExtIEs, 24%N);
  ("ProtocolExtensionContainerULNGUUPTNLModifyItemExtIEs", G_ProtocolExtensionContainerULNGUUPTNLModifyItemExtIEs, 24%N);
  ("ULNGUUPTNLModifyItem", G_ULNGUUPTNLModifyItem, 56%N);
  ("ULNGUUPTNLModifyList", G_ULNGUUPTNLModifyList, 24%N);
  ("QosFlowAddOrModifyRequestItemExtIEsExtensionValue", G_QosFlowAddOrModifyRequestItemExtIEsExtensionValue, 8%N);
  ("QosFlowAddOrModifyRequestItemExtIEs", G_QosFlowAddOrModifyRequestItemExtIEs, 24%N);
  ("ProtocolExtensionContainerQosFlowAddOrModifyRequestItemExtIEs", G_ProtocolExtensionContainerQosFlowAddOrModifyRequestItemExtIEs, 24%N);
  ("QosFlowAddOrModifyRequestItem", G_QosFlowAddOrModifyRequestItem, 32%N);
  ("QosFlowAddOrModifyRequestList", G_QosFlowAddOrModifyRequestList, 24%N);
  ("PDUSessionResourceModifyRequestTransferIEsValue", G_PDUSessionResourceModifyRequestTransferIEsValue, 56%N);
  ("PDUSessionResourceModifyRequestTransferIEs", G_PDUSessionResourceModifyRequestTransferIEs, 72%N);
  ("ProtocolIEContainerPDUSessionResourceModifyRequestTransferIEs", G_ProtocolIEContainerPDUSessionResourceModifyRequestTransferIEs, 24%N);
  ("PDUSessionResourceModifyRequestTransfer", G_PDUSessionResourceModifyRequestTransfer, 24%N);
  ("QosFlowAddOrModifyResponseItemExtIEsExtensionValue", G_QosFlowAddOrModifyResponseItemExtIEsExtensionValue, 8%N);
  ("QosFlowAddOrModifyResponseItemExtIEs", G_QosFlowAddOrModifyResponseItemExtIEs, 24%N);
  ("ProtocolExtensionContainerQosFlowAddOrModifyResponseItemExtIEs", G_ProtocolExtensionContainerQosFlowAddOrModifyResponseItemExtIEs, 24%N);
  ("QosFlowAddOrModifyResponseItem", G_QosFlowAddOrModifyResponseItem, 16%N);
  ("QosFlowAddOrModifyResponseList", G_QosFlowAddOrModifyResponseList, 24%N);
  ("PDUSessionResourceModifyResponseTransferExtIEsExtensionValue", G_PDUSessionResourceModifyResponseTransferExtIEsExtensionValue, 8%N);
  ("PDUSessionResourceModifyResponseTransferExtIEs", G_PDUSessionResourceModifyResponseTransferExtIEs, 24%N);
  ("ProtocolExtensionContainerPDUSessionResourceModifyResponseTransferExtIEs", G_ProtocolExtensionContainerPDUSessionResourceModifyResponseTransferExtIEs, 24%N);
  ("PDUSessionResourceModifyResponseTransfer", G_PDUSessionResourceModifyResponseTransfer, 48%N);
  ("PDUSessionResourceModifyUnsuccessfulTransferExtIEsExtensionValue", G_PDUSessionResourceModifyUnsuccessfulTransferExtIEsExtensionValue, 8%N);
  ("PDUSessionResourceModifyUnsuccessfulTransferExtIEs", G_PDUSessionResourceModifyUnsuccessfulTransferExtIEs, 24%N);
  ("ProtocolExtensionContainerPDUSessionResourceModifyUnsuccessfulTransferExtIEs", G_ProtocolExtensionContainerPDUSessionResourceModifyUnsuccessfulTransferExtIEs, 24%N);
  ("PDUSessionResourceModifyUnsuccessfulTransfer", G_PDUSessionResourceModifyUnsuccessfulTransfer, 72%N);
  ("SingleTNLInformationExtIEsExtensionValue", G_SingleTNLInformationExtIEsExtensionValue, 8%N);
  ("SingleTNLInformationExtIEs", G_SingleTNLInformationExtIEs, 24%N);
  ("ProtocolExtensionContainerSingleTNLInformationExtIEs", G_ProtocolExtensionContainerSingleTNLInformationExtIEs, 24%N);
  ("SingleTNLInformation", G_SingleTNLInformation, 32%N);
  ("TNLInformationItemExtIEsExtensionValue", G_TNLInformationItemExtIEsExtensionValue, 8%N);
  ("TNLInformationItemExtIEs", G_TNLInformationItemExtIEs, 24%N);
  ("ProtocolExtensionContainerTNLInformationItemExtIEs", G_ProtocolExtensionContainerTNLInformationItemExtIEs, 24%N);
  ("TNLInformationItem", G_TNLInformationItem, 64%N);
  ("TNLInformationList", G_TNLInformationList, 24%N);
  ("MultipleTNLInformationExtIEsExtensionValue", G_MultipleTNLInformationExtIEsExtensionValue, 8%N);
  ("MultipleTNLInformationExtIEs", G_MultipleTNLInformationExtIEs, 24%N);
  ("ProtocolExtensionContainerMultipleTNLInformationExtIEs", G_ProtocolExtensionContainerMultipleTNLInformationExtIEs, 24%N);
  ("MultipleTNLInformation", G_MultipleTNLInformation, 32%N);
  ("ProtocolIESingleContainerUPTNLInformationExtIEs", G_ProtocolIESingleContainerUPTNLInformationExtIEs, 0%N);
  ("UPTNLInformation", G_UPTNLInformation, 32%N);
  ("PDUSessionResourceModifyIndicationTransferExtIEsExtensionValue", G_PDUSessionResourceModifyIndicationTransferExtIEsExtensionValue, 8%N);
  ("PDUSessionResourceModifyIndicationTransferExtIEs", G_PDUSessionResourceModifyIndicationTransferExtIEs, 24%N);
  ("ProtocolExtensionContainerPDUSessionResourceModifyIndicationTransferExtIEs", G_ProtocolExtensionContainerPDUSessionResourceModifyIndicationTransferExtIEs, 24%N);
  ("PDUSessionResourceModifyIndicationTransfer", G_PDUSessionResourceModifyIndicationTransfer, 16%N);
  ("QosFlowModifyConfirmItemExtIEsExtensionValue", G_QosFlowModifyConfirmItemExtIEsExtensionValue, 8%N);
  ("QosFlowModifyConfirmItemExtIEs", G_QosFlowModifyConfirmItemExtIEs, 24%N);
  ("ProtocolExtensionContainerQosFlowModifyConfirmItemExtIEs", G_ProtocolExtensionContainerQosFlowModifyConfirmItemExtIEs, 24%N);
  ("QosFlowModifyConfirmItem", G_QosFlowModifyConfirmItem, 16%N);
  ("QosFlowModifyConfirmList", G_QosFlowModifyConfirmList, 24%N);
  ("TNLMappingItemExtIEsExtensionValue", G_TNLMappingItemExtIEsExtensionValue, 8%N);
  ("TNLMappingItemExtIEs", G_TNLMappingItemExtIEs, 24%N);
  ("ProtocolExtensionContainerTNLMappingItemExtIEs", G_ProtocolExtensionContainerTNLMappingItemExtIEs, 24%N);
  ("TNLMappingItem", G_TNLMappingItem, 56%N);
  ("TNLMappingList", G_TNLMappingList, 24%N);
  ("PDUSessionResourceModifyConfirmTransferExtIEsExtensionValue", G_PDUSessionResourceModifyConfirmTransferExtIEsExtensionValue, 8%N);
  ("PDUSessionResourceModifyConfirmTransferExtIEs", G_PDUSessionResourceModifyConfirmTransferExtIEs, 24%N);
  ("ProtocolExtensionContainerPDUSessionResourceModifyConfirmTransferExtIEs", G_ProtocolExtensionContainerPDUSessionResourceModifyConfirmTransferExtIEs, 24%N);
  ("PDUSessionResourceModifyConfirmTransfer", G_PDUSessionResourceModifyConfirmTransfer, 48%N);
  ("PDUSessionResourceModifyIndicationUnsuccessfulTransferExtIEsExtensionValue", G_PDUSessionResourceModifyIndicationUnsuccessfulTransferExtIEsExtensionValue, 8%N);
  ("PDUSessionResourceModifyIndicationUnsuccessfulTransferExtIEs", G_PDUSessionResourceModifyIndicationUnsuccessfulTransferExtIEs, 24%N);
  ("ProtocolExtensionContainerPDUSessionResourceModifyIndicationUnsuccessfulTransferExtIEs", G_ProtocolExtensionContainerPDUSessionResourceModifyIndicationUnsuccessfulTransferExtIEs, 24%N);
  ("PDUSessionResourceModifyIndicationUnsuccessfulTransfer", G_PDUSessionResourceModifyIndicationUnsuccessfulTransfer, 64%N);
  ("NotificationCause", G_NotificationCause, 8%N);
  ("QosFlowNotifyItemExtIEsExtensionValue", G_QosFlowNotifyItemExtIEsExtensionValue, 8%N);
  ("QosFlowNotifyItemExtIEs", G_QosFlowNotifyItemExtIEs, 24%N);
  ("ProtocolExtensionContainerQosFlowNotifyItemExtIEs", G_ProtocolExtensionContainerQosFlowNotifyItemExtIEs, 24%N);
  ("QosFlowNotifyItem", G_QosFlowNotifyItem, 24%N);
  ("QosFlowNotifyList", G_QosFlowNotifyList, 24%N);
  ("PDUSessionResourceNotifyTransferExtIEsExtensionValue", G_PDUSessionResourceNotifyTransferExtIEsExtensionValue, 8%N);
  ("PDUSessionResourceNotifyTransferExtIEs", G_PDUSessionResourceNotifyTransferExtIEs, 24%N);
  ("ProtocolExtensionContainerPDUSessionResourceNotifyTransferExtIEs", G_ProtocolExtensionContainerPDUSessionResourceNotifyTransferExtIEs, 24%N);
  ("PDUSessionResourceNotifyTransfer", G_PDUSessionResourceNotifyTransfer, 24%N);
  ("PDUSessionResourceNotifyReleasedTransferExtIEsExtensionValue", G_PDUSessionResourceNotifyReleasedTransferExtIEsExtensionValue, 8%N);
  ("PDUSessionResourceNotifyReleasedTransferExtIEs", G_PDUSessionResourceNotifyReleasedTransferExtIEs, 24%N);
  ("ProtocolExtensionContainerPDUSessionResourceNotifyReleasedTransferExtIEs", G_ProtocolExtensionContainerPDUSessionResourceNotifyReleasedTransferExtIEs, 24%N);
  ("PDUSessionResourceNotifyReleasedTransfer", G_PDUSessionResourceNotifyReleasedTransfer, 64%N);
  ("DLNGUTNLInformationReused", G_DLNGUTNLInformationReused, 8%N);
  ("UserPlaneSecurityInformationExtIEsExtensionValue", G_UserPlaneSecurityInformationExtIEsExtensionValue, 8%N);
  ("UserPlaneSecurityInformationExtIEs", G_UserPlaneSecurityInformationExtIEs, 24%N);
  ("ProtocolExtensionContainerUserPlaneSecurityInformationExtIEs", G_ProtocolExtensionContainerUserPlaneSecurityInformationExtIEs, 24%N);
  ("UserPlaneSecurityInformation", G_UserPlaneSecurityInformation, 64%N);
  ("QosFlowAcceptedItemExtIEsExtensionValue", G_QosFlowAcceptedItemExtIEsExtensionValue, 8%N);
  ("QosFlowAcceptedItemExtIEs", G_QosFlowAcceptedItemExtIEs, 24%N);
  ("ProtocolExtensionContainerQosFlowAcceptedItemExtIEs", G_ProtocolExtensionContainerQosFlowAcceptedItemExtIEs, 24%N);
  ("QosFlowAcceptedItem", G_QosFlowAcceptedItem, 16%N);
  ("QosFlowAcceptedList", G_QosFlowAcceptedList, 24%N);
  ("PathSwitchRequestTransferExtIEsExtensionValue", G_PathSwitchRequestTransferExtIEsExtensionValue, 8%N);
  ("PathSwitchRequestTransferExtIEs", G_PathSwitchRequestTransferExtIEs, 24%N);
  ("ProtocolExtensionContainerPathSwitchRequestTransferExtIEs", G_ProtocolExtensionContainerPathSwitchRequestTransferExtIEs, 24%N);
  ("PathSwitchRequestTransfer", G_PathSwitchRequestTransfer, 72%N);
  ("PathSwitchRequestSetupFailedTransferExtIEsExtensionValue", G_PathSwitchRequestSetupFailedTransferExtIEsExtensionValue, 8%N);
  ("PathSwitchRequestSetupFailedTransferExtIEs", G_PathSwitchRequestSetupFailedTransferExtIEs, 24%N);
  ("ProtocolExtensionContainerPathSwitchRequestSetupFailedTransferExtIEs", G_ProtocolExtensionContainerPathSwitchRequestSetupFailedTransferExtIEs, 24%N);
  ("PathSwitchRequestSetupFailedTransfer", G_PathSwitchRequestSetupFailedTransfer, 64%N);
  ("PathSwitchRequestAcknowledgeTransferExtIEsExtensionValue", G_PathSwitchRequestAcknowledgeTransferExtIEsExtensionValue, 8%N);
  ("PathSwitchRequestAcknowledgeTransferExtIEs", G_PathSwitchRequestAcknowledgeTransferExtIEs, 24%N);
  ("ProtocolExtensionContainerPathSwitchRequestAcknowledgeTransferExtIEs", G_ProtocolExtensionContainerPathSwitchRequestAcknowledgeTransferExtIEs, 24%N);
  ("PathSwitchRequestAcknowledgeTransfer", G_PathSwitchRequestAcknowledgeTransfer, 24%N);
  ("PathSwitchRequestUnsuccessfulTransferExtIEsExtensionValue", G_PathSwitchRequestUnsuccessfulTransferExtIEsExtensionValue, 8%N);
  ("PathSwitchRequestUnsuccessfulTransferExtIEs", G_PathSwitchRequestUnsuccessfulTransferExtIEs, 24%N);
  ("ProtocolExtensionContainerPathSwitchRequestUnsuccessfulTransferExtIEs", G_ProtocolExtensionContainerPathSwitchRequestUnsuccessfulTransferExtIEs, 24%N);
  ("PathSwitchRequestUnsuccessfulTransfer", G_PathSwitchRequestUnsuccessfulTransfer, 64%N);
  ("HandoverRequiredTransferExtIEsExtensionValue", G_HandoverRequiredTransferExtIEsExtensionValue, 8%N);
  ("HandoverRequiredTransferExtIEs", G_HandoverRequiredTransferExtIEs, 24%N);
  ("ProtocolExtensionContainerHandoverRequiredTransferExtIEs", G_ProtocolExtensionContainerHandoverRequiredTransferExtIEs, 24%N);
  ("HandoverRequiredTransfer", G_HandoverRequiredTransfer, 16%N);
  ("QosFlowToBeForwardedItemExtIEsExtensionValue", G_QosFlowToBeForwardedItemExtIEsExtensionValue, 8%N);
  ("QosFlowToBeForwardedItemExtIEs", G_QosFlowToBeForwardedItemExtIEs, 24%N);
  ("ProtocolExtensionContainerQosFlowToBeForwardedItemExtIEs", G_ProtocolExtensionContainerQosFlowToBeForwardedItemExtIEs, 24%N);
  ("QosFlowToBeForwardedItem", G_QosFlowToBeForwardedItem, 16%N);
  ("QosFlowToBeForwardedList", G_QosFlowToBeForwardedList, 24%N);
  ("DataForwardingResponseDRBItemExtIEsExtensionValue", G_DataForwardingResponseDRBItemExtIEsExtensionValue, 8%N);
  ("DataForwardingResponseDRBItemExtIEs", G_DataForwardingResponseDRBItemExtIEs, 24%N);
  ("ProtocolExtensionContainerDataForwardingResponseDRBItemExtIEs", G_ProtocolExtensionContainerDataForwardingResponseDRBItemExtIEs, 24%N);
  ("DataForwardingResponseDRBItem", G_DataForwardingResponseDRBItem, 32%N);
  ("DataForwardingResponseDRBList", G_DataForwardingResponseDRBList, 24%N);
  ("HandoverCommandTransferExtIEsExtensionValue", G_HandoverCommandTransferExtIEsExtensionValue, 8%N);
  ("HandoverCommandTransferExtIEs", G_HandoverCommandTransferExtIEs, 24%N);
  ("ProtocolExtensionContainerHandoverCommandTransferExtIEs", G_ProtocolExtensionContainerHandoverCommandTransferExtIEs, 24%N);
  ("HandoverCommandTransfer", G_HandoverCommandTransfer, 32%N);
  ("DataForwardingAccepted", G_DataForwardingAccepted, 8%N);
  ("QosFlowSetupResponseItemHOReqAckExtIEsExtensionValue", G_QosFlowSetupResponseItemHOReqAckExtIEsExtensionValue, 8%N);
  ("QosFlowSetupResponseItemHOReqAckExtIEs", G_QosFlowSetupResponseItemHOReqAckExtIEs, 24%N);
  ("ProtocolExtensionContainerQosFlowSetupResponseItemHOReqAckExtIEs", G_ProtocolExtensionContainerQosFlowSetupResponseItemHOReqAckExtIEs, 24%N);
  ("QosFlowSetupResponseItemHOReqAck", G_QosFlowSetupResponseItemHOReqAck, 24%N);
  ("QosFlowSetupResponseListHOReqAck", G_QosFlowSetupResponseListHOReqAck, 24%N);
  ("HandoverRequestAcknowledgeTransferExtIEsExtensionValue", G_HandoverRequestAcknowledgeTransferExtIEsExtensionValue, 8%N);
  ("HandoverRequestAcknowledgeTransferExtIEs", G_HandoverRequestAcknowledgeTransferExtIEs, 24%N);
  ("ProtocolExtensionContainerHandoverRequestAcknowledgeTransferExtIEs", G_ProtocolExtensionContainerHandoverRequestAcknowledgeTransferExtIEs, 24%N);
  ("HandoverRequestAcknowledgeTransfer", G_HandoverRequestAcknowledgeTransfer, 88%N);
  ("HandoverPreparationUnsuccessfulTransferExtIEsExtensionValue", G_HandoverPreparationUnsuccessfulTransferExtIEsExtensionValue, 8%N);
  ("HandoverPreparationUnsuccessfulTransferExtIEs", G_HandoverPreparationUnsuccessfulTransferExtIEs, 24%N);
  ("ProtocolExtensionContainerHandoverPreparationUnsuccessfulTransferExtIEs", G_ProtocolExtensionContainerHandoverPreparationUnsuccessfulTransferExtIEs, 24%N);
  ("HandoverPreparationUnsuccessfulTransfer", G_HandoverPreparationUnsuccessfulTransfer, 64%N);
  ("HandoverResourceAllocationUnsuccessfulTransferExtIEsExtensionValue", G_HandoverResourceAllocationUnsuccessfulTransferExtIEsExtensionValue, 8%N);
  ("HandoverResourceAllocationUnsuccessfulTransferExtIEs", G_HandoverResourceAllocationUnsuccessfulTransferExtIEs, 24%N);
  ("ProtocolExtensionContainerHandoverResourceAllocationUnsuccessfulTransferExtIEs", G_ProtocolExtensionContainerHandoverResourceAllocationUnsuccessfulTransferExtIEs, 24%N);
  ("HandoverResourceAllocationUnsuccessfulTransfer", G_HandoverResourceAllocationUnsuccessfulTransfer, 72%N);
  ("RRCContainer", G_RRCContainer, 24%N);
  ("DLForwarding", G_DLForwarding, 8%N);
  ("QosFlowInformationItemExtIEsExtensionValue", G_QosFlowInformationItemExtIEsExtensionValue, 8%N);
  ("QosFlowInformationItemExtIEs", G_QosFlowInformationItemExtIEs, 24%N);
  ("ProtocolExtensionContainerQosFlowInformationItemExtIEs", G_ProtocolExtensionContainerQosFlowInformationItemExtIEs, 24%N);
  ("QosFlowInformationItem", G_QosFlowInformationItem, 24%N);
  ("QosFlowInformationList", G_QosFlowInformationList, 24%N);
  ("DRBsToQosFlowsMappingItemExtIEsExtensionValue", G_DRBsToQosFlowsMappingItemExtIEsExtensionValue, 8%N);
  ("DRBsToQosFlowsMappingItemExtIEs", G_DRBsToQosFlowsMappingItemExtIEs, 24%N);
  ("ProtocolExtensionContainerDRBsToQosFlowsMappingItemExtIEs", G_ProtocolExtensionContainerDRBsToQosFlowsMappingItemExtIEs, 24%N);
  ("DRBsToQosFlowsMappingItem", G_DRBsToQosFlowsMappingItem, 40%N);
  ("DRBsToQosFlowsMappingList", G_DRBsToQosFlowsMappingList, 24%N);
  ("PDUSessionResourceInformationItemExtIEsExtensionValue", G_PDUSessionResourceInformationItemExtIEsExtensionValue, 8%N);
  ("PDUSessionResourceInformationItemExtIEs", G_PDUSessionResourceInformationItemExtIEs, 24%N);
  ("ProtocolExtensionContainerPDUSessionResourceInformationItemExtIEs", G_ProtocolExtensionContainerPDUSessionResourceInformationItemExtIEs, 24%N);
  ("PDUSessionResourceInformationItem", G_PDUSessionResourceInformationItem, 48%N);
  ("PDUSessionResourceInformationList", G_PDUSessionResourceInformationList, 24%N);
  ("ERABInformationItemExtIEsExtensionValue", G_ERABInformationItemExtIEsExtensionValue, 8%N);
  ("ERABInformationItemExtIEs", G_ERABInformationItemExtIEs, 24%N);
  ("ProtocolExtensionContainerERABInformationItemExtIEs", G_ProtocolExtensionContainerERABInformationItemExtIEs, 24%N);
  ("ERABInformationItem", G_ERABInformationItem, 24%N);
  ("ERABInformationList", G_ERABInformationList, 24%N);
  ("CellSize", G_CellSize, 8%N);
  ("CellTypeExtIEsExtensionValue", G_CellTypeExtIEsExtensionValue, 8%N);
  ("CellTypeExtIEs", G_CellTypeExtIEs, 24%N);
  ("ProtocolExtensionContainerCellTypeExtIEs", G_ProtocolExtensionContainerCellTypeExtIEs, 24%N);
  ("CellType", G_CellType, 16%N);
  ("TimeUEStayedInCell", G_TimeUEStayedInCell, 8%N);
  ("TimeUEStayedInCellEnhancedGranularity", G_TimeUEStayedInCellEnhancedGranularity, 8%N);
  ("LastVisitedNGRANCellInformationExtIEsExtensionValue", G_LastVisitedNGRANCellInformationExtIEsExtensionValue, 8%N);
  ("LastVisitedNGRANCellInformationExtIEs", G_LastVisitedNGRANCellInformationExtIEs, 24%N);
  ("ProtocolExtensionContainerLastVisitedNGRANCellInformationExtIEs", G_ProtocolExtensionContainerLastVisitedNGRANCellInformationExtIEs, 24%N);
  ("LastVisitedNGRANCellInformation", G_LastVisitedNGRANCellInformation, 80%N);
  ("LastVisitedEUTRANCellInformation", G_LastVisitedEUTRANCellInformation, 24%N);
  ("LastVisitedUTRANCellInformation", G_LastVisitedUTRANCellInformation, 24%N);
  ("LastVisitedGERANCellInformation", G_LastVisitedGERANCellInformation, 24%N);
  ("ProtocolIESingleContainerLastVisitedCellInformationExtIEs", G_ProtocolIESingleContainerLastVisitedCellInformationExtIEs, 0%N);
  ("LastVisitedCellInformation", G_LastVisitedCellInformation, 48%N);
  ("LastVisitedCellItemExtIEsExtensionValue", G_LastVisitedCellItemExtIEsExtensionValue, 8%N);
  ("LastVisitedCellItemExtIEs", G_LastVisitedCellItemExtIEs, 24%N);
  ("ProtocolExtensionContainerLastVisitedCellItemExtIEs", G_ProtocolExtensionContainerLastVisitedCellItemExtIEs, 24%N);
  ("LastVisitedCellItem", G_LastVisitedCellItem, 56%N);
  ("UEHistoryInformation", G_UEHistoryInformation, 24%N);
  ("SourceNGRANNodeToTargetNGRANNodeTransparentContainerExtIEsExtensionValue", G_SourceNGRANNodeToTargetNGRANNodeTransparentContainerExtIEsExtensionValue, 8%N);
  ("SourceNGRANNodeToTargetNGRANNodeTransparentContainerExtIEs", G_SourceNGRANNodeToTargetNGRANNodeTransparentContainerExtIEs, 24%N);
  ("ProtocolExtensionContainerSourceNGRANNodeToTargetNGRANNodeTransparentContainerExtIEs", G_ProtocolExtensionContainerSourceNGRANNodeToTargetNGRANNodeTransparentContainerExtIEs, 24%N);
  ("SourceNGRANNodeToTargetNGRANNodeTransparentContainer", G_SourceNGRANNodeToTargetNGRANNodeTransparentContainer, 112%N);
  ("TargetNGRANNodeToSourceNGRANNodeTransparentContainerExtIEsExtensionValue", G_TargetNGRANNodeToSourceNGRANNodeTransparentContainerExtIEsExtensionValue, 8%N);
  ("TargetNGRANNodeToSourceNGRANNodeTransparentContainerExtIEs", G_TargetNGRANNodeToSourceNGRANNodeTransparentContainerExtIEs, 24%N);
  ("ProtocolExtensionContainerTargetNGRANNodeToSourceNGRANNodeTransparentContainerExtIEs", G_ProtocolExtensionContainerTargetNGRANNodeToSourceNGRANNodeTransparentContainerExtIEs, 24%N);
  ("TargetNGRANNodeToSourceNGRANNodeTransparentContainer", G_TargetNGRANNodeToSourceNGRANNodeTransparentContainer, 32%N)].

(* element types of all slice types with the element's Size() *)
Definition golden_slice_elems : list (ty * N) := [
  (G_AMFConfigurationUpdateAcknowledgeIEs, 48%N);
  (G_AMFConfigurationUpdateFailureIEs, 48%N);
  (G_AMFConfigurationUpdateIEs, 80%N);
  (G_AMFStatusIndicationIEs, 32%N);
  (G_AMFTNLAssociationSetupItem, 32%N);
  (G_AMFTNLAssociationSetupItemExtIEs, 24%N);
  (G_AMFTNLAssociationToAddItem, 48%N);
  (G_AMFTNLAssociationToAddItemExtIEs, 24%N);
  (G_AMFTNLAssociationToRemoveItem, 32%N);
  (G_AMFTNLAssociationToRemoveItemExtIEs, 24%N);
  (G_AMFTNLAssociationToUpdateItem, 48%N);
  (G_AMFTNLAssociationToUpdateItemExtIEs, 24%N);
  (G_AllocationAndRetentionPriorityExtIEs, 24%N);
  (G_AllowedNSSAIItem, 48%N);
  (G_AllowedNSSAIItemExtIEs, 24%N);
  (G_AreaOfInterestCellItem, 40%N);
  (G_AreaOfInterestCellItemExtIEs, 24%N);
  (G_AreaOfInterestExtIEs, 24%N);
  (G_AreaOfInterestItem, 48%N);
  (G_AreaOfInterestItemExtIEs, 24%N);
  (G_AreaOfInterestRANNodeItem, 48%N);
  (G_AreaOfInterestRANNodeItemExtIEs, 24%N);
  (G_AreaOfInterestTAIItem, 64%N);
  (G_AreaOfInterestTAIItemExtIEs, 24%N);
  (G_AssistanceDataForPagingExtIEs, 24%N);
  (G_AssistanceDataForRecommendedCellsExtIEs, 24%N);
  (G_AssociatedQosFlowItem, 24%N);
  (G_AssociatedQosFlowItemExtIEs, 24%N);
  (G_BroadcastPLMNItem, 56%N);
  (G_BroadcastPLMNItemExtIEs, 24%N);
  (G_COUNTValueForPDCPSN12ExtIEs, 24%N);
  (G_COUNTValueForPDCPSN18ExtIEs, 24%N);
  (G_CancelledCellsInEAIEUTRAItem, 80%N);
  (G_CancelledCellsInEAIEUTRAItemExtIEs, 24%N);
  (G_CancelledCellsInEAINRItem, 80%N);
  (G_CancelledCellsInEAINRItemExtIEs, 24%N);
  (G_CancelledCellsInTAIEUTRAItem, 80%N);
  (G_CancelledCellsInTAIEUTRAItemExtIEs, 24%N);
  (G_CancelledCellsInTAINRItem, 80%N);
  (G_CancelledCellsInTAINRItemExtIEs, 24%N);
  (G_CellIDBroadcastEUTRAItem, 72%N);
  (G_CellIDBroadcastEUTRAItemExtIEs, 24%N);
  (G_CellIDBroadcastNRItem, 72%N);
  (G_CellIDBroadcastNRItemExtIEs, 24%N);
  (G_CellIDCancelledEUTRAItem, 80%N);
  (G_CellIDCancelledEUTRAItemExtIEs, 24%N);
  (G_CellIDCancelledNRItem, 80%N);
  (G_CellIDCancelledNRItemExtIEs, 24%N);
  (G_CellTrafficTraceIEs, 64%N);
  (G_CellTypeExtIEs, 24%N);
  (G_CompletedCellsInEAIEUTRAItem, 72%N);
  (G_CompletedCellsInEAIEUTRAItemExtIEs, 24%N);
  (G_CompletedCellsInEAINRItem, 72%N);
  (G_CompletedCellsInEAINRItemExtIEs, 24%N);
  (G_CompletedCellsInTAIEUTRAItem, 72%N);
  (G_CompletedCellsInTAIEUTRAItemExtIEs, 24%N);
  (G_CompletedCellsInTAINRItem, 72%N);
  (G_CompletedCellsInTAINRItemExtIEs, 24%N);
  (G_CoreNetworkAssistanceInformationExtIEs, 24%N);
  (G_CriticalityDiagnosticsExtIEs, 24%N);
  (G_CriticalityDiagnosticsIEItem, 32%N);
  (G_CriticalityDiagnosticsIEItemExtIEs, 24%N);
  (G_DRBStatusDL12ExtIEs, 24%N);
  (G_DRBStatusDL18ExtIEs, 24%N);
  (G_DRBStatusUL12ExtIEs, 24%N);
  (G_DRBStatusUL18ExtIEs, 24%N);
  (G_DRBsSubjectToStatusTransferItem, 80%N);
  (G_DRBsSubjectToStatusTransferItemExtIEs, 24%N);
  (G_DRBsToQosFlowsMappingItem, 40%N);
  (G_DRBsToQosFlowsMappingItemExtIEs, 24%N);
  (G_DataForwardingResponseDRBItem, 32%N);
  (G_DataForwardingResponseDRBItemExtIEs, 24%N);
  (G_DeactivateTraceIEs, 48%N);
  (G_DownlinkNASTransportIEs, 96%N);
  (G_DownlinkNonUEAssociatedNRPPaTransportIEs, 40%N);
  (G_DownlinkRANConfigurationTransferIEs, 32%N);
  (G_DownlinkRANStatusTransferIEs, 48%N);
  (G_DownlinkUEAssociatedNRPPaTransportIEs, 56%N);
  (G_Dynamic5QIDescriptorExtIEs, 24%N);
  (G_EPSTAIExtIEs, 24%N);
  (G_ERABInformationItem, 24%N);
  (G_ERABInformationItemExtIEs, 24%N);
  (G_EUTRACGI, 64%N);
  (G_EUTRACGIExtIEs, 24%N);
  (G_EmergencyAreaID, 24%N);
  (G_EmergencyAreaIDBroadcastEUTRAItem, 56%N);
  (G_EmergencyAreaIDBroadcastEUTRAItemExtIEs, 24%N);
  (G_EmergencyAreaIDBroadcastNRItem, 56%N);
  (G_EmergencyAreaIDBroadcastNRItemExtIEs, 24%N);
  (G_EmergencyAreaIDCancelledEUTRAItem, 56%N);
  (G_EmergencyAreaIDCancelledEUTRAItemExtIEs, 24%N);
  (G_EmergencyAreaIDCancelledNRItem, 56%N);
  (G_EmergencyAreaIDCancelledNRItemExtIEs, 24%N);
  (G_EmergencyFallbackIndicatorExtIEs, 24%N);
  (G_ErrorIndicationIEs, 56%N);
  (G_ExpectedUEActivityBehaviourExtIEs, 24%N);
  (G_ExpectedUEBehaviourExtIEs, 24%N);
  (G_ExpectedUEMovingTrajectoryItem, 48%N);
  (G_ExpectedUEMovingTrajectoryItemExtIEs, 24%N);
  (G_FiveGSTMSIExtIEs, 24%N);
  (G_ForbiddenAreaInformationItem, 56%N);
  (G_ForbiddenAreaInformationItemExtIEs, 24%N);
  (G_GBRQosInformationExtIEs, 24%N);
  (G_GTPTunnelExtIEs, 24%N);
  (G_GUAMIExtIEs, 24%N);
  (G_GlobalGNBIDExtIEs, 24%N);
  (G_GlobalN3IWFIDExtIEs, 24%N);
  (G_GlobalNgENBIDExtIEs, 24%N);
  (G_HandoverCancelAcknowledgeIEs, 48%N);
  (G_HandoverCancelIEs, 48%N);
  (G_HandoverCommandIEs, 88%N);
  (G_HandoverCommandTransferExtIEs, 24%N);
  (G_HandoverFailureIEs, 48%N);
  (G_HandoverNotifyIEs, 48%N);
  (G_HandoverPreparationFailureIEs, 56%N);
  (G_HandoverPreparationUnsuccessfulTransferExtIEs, 24%N);
  (G_HandoverRequestAcknowledgeIEs, 72%N);
  (G_HandoverRequestAcknowledgeTransferExtIEs, 24%N);
  (G_HandoverRequestIEs, 168%N);
  (G_HandoverRequiredIEs, 88%N);
  (G_HandoverRequiredTransferExtIEs, 24%N);
  (G_HandoverResourceAllocationUnsuccessfulTransferExtIEs, 24%N);
  (G_InfoOnRecommendedCellsAndRANNodesForPagingExtIEs, 24%N);
  (G_InitialContextSetupFailureIEs, 64%N);
  (G_InitialContextSetupRequestIEs, 176%N);
  (G_InitialContextSetupResponseIEs, 64%N);
  (G_InitialUEMessageIEs, 88%N);
  (G_LastVisitedCellItem, 56%N);
  (G_LastVisitedCellItemExtIEs, 24%N);
  (G_LastVisitedNGRANCellInformationExtIEs, 24%N);
  (G_LocationReportIEs, 64%N);
  (G_LocationReportingControlIEs, 48%N);
  (G_LocationReportingFailureIndicationIEs, 48%N);
  (G_LocationReportingRequestTypeExtIEs, 24%N);
  (G_MobilityRestrictionListExtIEs, 24%N);
  (G_MultipleTNLInformationExtIEs, 24%N);
  (G_NASNonDeliveryIndicationIEs, 56%N);
  (G_NGResetAcknowledgeIEs, 40%N);
  (G_NGResetIEs, 40%N);
  (G_NGSetupFailureIEs, 48%N);
  (G_NGSetupRequestIEs, 56%N);
  (G_NGSetupResponseIEs, 64%N);
  (G_NRCGI, 64%N);
  (G_NRCGIExtIEs, 24%N);
  (G_NonDynamic5QIDescriptorExtIEs, 24%N);
  (G_OverloadStartIEs, 48%N);
  (G_OverloadStartNSSAIItem, 48%N);
  (G_OverloadStartNSSAIItemExtIEs, 24%N);
  (G_OverloadStopIEs, 24%N);
  (G_PDUSessionAggregateMaximumBitRateExtIEs, 24%N);
  (G_PDUSessionResourceAdmittedItem, 40%N);
  (G_PDUSessionResourceAdmittedItemExtIEs, 24%N);
  (G_PDUSessionResourceFailedToModifyItemModCfm, 40%N);
  (G_PDUSessionResourceFailedToModifyItemModCfmExtIEs, 24%N);
  (G_PDUSessionResourceFailedToModifyItemModRes, 40%N);
  (G_PDUSessionResourceFailedToModifyItemModResExtIEs, 24%N);
  (G_PDUSessionResourceFailedToSetupItemCxtFail, 40%N);
  (G_PDUSessionResourceFailedToSetupItemCxtFailExtIEs, 24%N);
  (G_PDUSessionResourceFailedToSetupItemCxtRes, 40%N);
  (G_PDUSessionResourceFailedToSetupItemCxtResExtIEs, 24%N);
  (G_PDUSessionResourceFailedToSetupItemHOAck, 40%N);
  (G_PDUSessionResourceFailedToSetupItemHOAckExtIEs, 24%N);
  (G_PDUSessionResourceFailedToSetupItemPSReq, 40%N);
  (G_PDUSessionResourceFailedToSetupItemPSReqExtIEs, 24%N);
  (G_PDUSessionResourceFailedToSetupItemSURes, 40%N);
  (G_PDUSessionResourceFailedToSetupItemSUResExtIEs, 24%N);
  (G_PDUSessionResourceHandoverItem, 40%N);
  (G_PDUSessionResourceHandoverItemExtIEs, 24%N);
  (G_PDUSessionResourceInformationItem, 48%N);
  (G_PDUSessionResourceInformationItemExtIEs, 24%N);
  (G_PDUSessionResourceItemCxtRelCpl, 16%N);
  (G_PDUSessionResourceItemCxtRelCplExtIEs, 24%N);
  (G_PDUSessionResourceItemCxtRelReq, 16%N);
  (G_PDUSessionResourceItemCxtRelReqExtIEs, 24%N);
  (G_PDUSessionResourceItemHORqd, 40%N);
  (G_PDUSessionResourceItemHORqdExtIEs, 24%N);
  (G_PDUSessionResourceModifyConfirmIEs, 64%N);
  (G_PDUSessionResourceModifyConfirmTransferExtIEs, 24%N);
  (G_PDUSessionResourceModifyIndicationIEs, 48%N);
  (G_PDUSessionResourceModifyIndicationTransferExtIEs, 24%N);
  (G_PDUSessionResourceModifyIndicationUnsuccessfulTransferExtIEs, 24%N);
  (G_PDUSessionResourceModifyItemModCfm, 40%N);
  (G_PDUSessionResourceModifyItemModCfmExtIEs, 24%N);
  (G_PDUSessionResourceModifyItemModInd, 40%N);
  (G_PDUSessionResourceModifyItemModIndExtIEs, 24%N);
  (G_PDUSessionResourceModifyItemModReq, 48%N);
  (G_PDUSessionResourceModifyItemModReqExtIEs, 24%N);
  (G_PDUSessionResourceModifyItemModRes, 24%N);
  (G_PDUSessionResourceModifyItemModResExtIEs, 24%N);
  (G_PDUSessionResourceModifyRequestIEs, 56%N);
  (G_PDUSessionResourceModifyRequestTransferIEs, 72%N);
  (G_PDUSessionResourceModifyResponseIEs, 72%N);
  (G_PDUSessionResourceModifyResponseTransferExtIEs, 24%N);
  (G_PDUSessionResourceModifyUnsuccessfulTransferExtIEs, 24%N);
  (G_PDUSessionResourceNotifyIEs, 64%N);
  (G_PDUSessionResourceNotifyItem, 40%N);
  (G_PDUSessionResourceNotifyItemExtIEs, 24%N);
  (G_PDUSessionResourceNotifyReleasedTransferExtIEs, 24%N);
  (G_PDUSessionResourceNotifyTransferExtIEs, 24%N);
  (G_PDUSessionResourceReleaseCommandIEs, 64%N);
  (G_PDUSessionResourceReleaseCommandTransferExtIEs, 24%N);
  (G_PDUSessionResourceReleaseResponseIEs, 64%N);
  (G_PDUSessionResourceReleaseResponseTransferExtIEs, 24%N);
  (G_PDUSessionResourceReleasedItemNot, 40%N);
  (G_PDUSessionResourceReleasedItemNotExtIEs, 24%N);
  (G_PDUSessionResourceReleasedItemPSAck, 40%N);
  (G_PDUSessionResourceReleasedItemPSAckExtIEs, 24%N);
  (G_PDUSessionResourceReleasedItemPSFail, 40%N);
  (G_PDUSessionResourceReleasedItemPSFailExtIEs, 24%N);
  (G_PDUSessionResourceReleasedItemRelRes, 40%N);
  (G_PDUSessionResourceReleasedItemRelResExtIEs, 24%N);
  (G_PDUSessionResourceSetupItemCxtReq, 88%N);
  (G_PDUSessionResourceSetupItemCxtReqExtIEs, 24%N);
  (G_PDUSessionResourceSetupItemCxtRes, 40%N);
  (G_PDUSessionResourceSetupItemCxtResExtIEs, 24%N);
  (G_PDUSessionResourceSetupItemHOReq, 80%N);
  (G_PDUSessionResourceSetupItemHOReqExtIEs, 24%N);
  (G_PDUSessionResourceSetupItemSUReq, 88%N);
  (G_PDUSessionResourceSetupItemSUReqExtIEs, 24%N);
  (G_PDUSessionResourceSetupItemSURes, 40%N);
  (G_PDUSessionResourceSetupItemSUResExtIEs, 24%N);
  (G_PDUSessionResourceSetupRequestIEs, 64%N);
  (G_PDUSessionResourceSetupRequestTransferIEs, 88%N);
  (G_PDUSessionResourceSetupResponseIEs, 64%N);
  (G_PDUSessionResourceSetupResponseTransferExtIEs, 24%N);
  (G_PDUSessionResourceSetupUnsuccessfulTransferExtIEs, 24%N);
  (G_PDUSessionResourceSwitchedItem, 40%N);
  (G_PDUSessionResourceSwitchedItemExtIEs, 24%N);
  (G_PDUSessionResourceToBeSwitchedDLItem, 40%N);
  (G_PDUSessionResourceToBeSwitchedDLItemExtIEs, 24%N);
  (G_PDUSessionResourceToReleaseItemHOCmd, 40%N);
  (G_PDUSessionResourceToReleaseItemHOCmdExtIEs, 24%N);
  (G_PDUSessionResourceToReleaseItemRelCmd, 40%N);
  (G_PDUSessionResourceToReleaseItemRelCmdExtIEs, 24%N);
  (G_PLMNIdentity, 24%N);
  (G_PLMNSupportItem, 56%N);
  (G_PLMNSupportItemExtIEs, 24%N);
  (G_PWSCancelRequestIEs, 56%N);
  (G_PWSCancelResponseIEs, 56%N);
  (G_PWSFailureIndicationIEs, 40%N);
  (G_PWSRestartIndicationIEs, 56%N);
  (G_PacketErrorRateExtIEs, 24%N);
  (G_PagingAttemptInformationExtIEs, 24%N);
  (G_PagingIEs, 80%N);
  (G_PathSwitchRequestAcknowledgeIEs, 112%N);
  (G_PathSwitchRequestAcknowledgeTransferExtIEs, 24%N);
  (G_PathSwitchRequestFailureIEs, 56%N);
  (G_PathSwitchRequestIEs, 72%N);
  (G_PathSwitchRequestSetupFailedTransferExtIEs, 24%N);
  (G_PathSwitchRequestTransferExtIEs, 24%N);
  (G_PathSwitchRequestUnsuccessfulTransferExtIEs, 24%N);
  (G_PrivateMessageIEs, 40%N);
  (G_QosFlowAcceptedItem, 16%N);
  (G_QosFlowAcceptedItemExtIEs, 24%N);
  (G_QosFlowAddOrModifyRequestItem, 32%N);
  (G_QosFlowAddOrModifyRequestItemExtIEs, 24%N);
  (G_QosFlowAddOrModifyResponseItem, 16%N);
  (G_QosFlowAddOrModifyResponseItemExtIEs, 24%N);
  (G_QosFlowInformationItem, 24%N);
  (G_QosFlowInformationItemExtIEs, 24%N);
  (G_QosFlowItem, 72%N);
  (G_QosFlowItemExtIEs, 24%N);
  (G_QosFlowLevelQosParametersExtIEs, 24%N);
  (G_QosFlowModifyConfirmItem, 16%N);
  (G_QosFlowModifyConfirmItemExtIEs, 24%N);
  (G_QosFlowNotifyItem, 24%N);
  (G_QosFlowNotifyItemExtIEs, 24%N);
  (G_QosFlowPerTNLInformationExtIEs, 24%N);
  (G_QosFlowSetupRequestItem, 120%N);
  (G_QosFlowSetupRequestItemExtIEs, 24%N);
  (G_QosFlowSetupResponseItemHOReqAck, 24%N);
  (G_QosFlowSetupResponseItemHOReqAckExtIEs, 24%N);
  (G_QosFlowToBeForwardedItem, 16%N);
  (G_QosFlowToBeForwardedItemExtIEs, 24%N);
  (G_RANConfigurationUpdateAcknowledgeIEs, 32%N);
  (G_RANConfigurationUpdateFailureIEs, 48%N);
  (G_RANConfigurationUpdateIEs, 48%N);
  (G_RANStatusTransferTransparentContainerExtIEs, 24%N);
  (G_RATRestrictionsItem, 64%N);
  (G_RATRestrictionsItemExtIEs, 24%N);
  (G_RRCInactiveTransitionReportIEs, 56%N);
  (G_RecommendedCellItem, 48%N);
  (G_RecommendedCellItemExtIEs, 24%N);
  (G_RecommendedCellsForPagingExtIEs, 24%N);
  (G_RecommendedRANNodeItem, 40%N);
  (G_RecommendedRANNodeItemExtIEs, 24%N);
  (G_RecommendedRANNodesForPagingExtIEs, 24%N);
  (G_RerouteNASRequestIEs, 64%N);
  (G_SNSSAIExtIEs, 24%N);
  (G_SONConfigurationTransferExtIEs, 24%N);
  (G_SONInformationReplyExtIEs, 24%N);
  (G_SecurityContextExtIEs, 24%N);
  (G_SecurityIndicationExtIEs, 24%N);
  (G_SecurityResultExtIEs, 24%N);
  (G_ServedGUAMIItem, 144%N);
  (G_ServedGUAMIItemExtIEs, 24%N);
  (G_ServiceAreaInformationItem, 48%N);
  (G_ServiceAreaInformationItemExtIEs, 24%N);
  (G_SingleTNLInformationExtIEs, 24%N);
  (G_SliceOverloadItem, 48%N);
  (G_SliceOverloadItemExtIEs, 24%N);
  (G_SliceSupportItem, 48%N);
  (G_SliceSupportItemExtIEs, 24%N);
  (G_SourceNGRANNodeToTargetNGRANNodeTransparentContainerExtIEs, 24%N);
  (G_SourceRANNodeIDExtIEs, 24%N);
  (G_SupportedTAItem, 56%N);
  (G_SupportedTAItemExtIEs, 24%N);
  (G_TAC, 24%N);
  (G_TAI, 56%N);
  (G_TAIBroadcastEUTRAItem, 88%N);
  (G_TAIBroadcastEUTRAItemExtIEs, 24%N);
  (G_TAIBroadcastNRItem, 88%N);
  (G_TAIBroadcastNRItemExtIEs, 24%N);
  (G_TAICancelledEUTRAItem, 88%N);
  (G_TAICancelledEUTRAItemExtIEs, 24%N);
  (G_TAICancelledNRItem, 88%N);
  (G_TAICancelledNRItemExtIEs, 24%N);
  (G_TAIExtIEs, 24%N);
  (G_TAIListForInactiveItem, 64%N);
  (G_TAIListForInactiveItemExtIEs, 24%N);
  (G_TAIListForPagingItem, 64%N);
  (G_TAIListForPagingItemExtIEs, 24%N);
  (G_TNLAssociationItem, 88%N);
  (G_TNLAssociationItemExtIEs, 24%N);
  (G_TNLInformationItem, 64%N);
  (G_TNLInformationItemExtIEs, 24%N);
  (G_TNLMappingItem, 56%N);
  (G_TNLMappingItemExtIEs, 24%N);
  (G_TargetNGRANNodeToSourceNGRANNodeTransparentContainerExtIEs, 24%N);
  (G_TargetRANNodeIDExtIEs, 24%N);
  (G_TargeteNBIDExtIEs, 24%N);
  (G_TraceActivationExtIEs, 24%N);
  (G_TraceFailureIndicationIEs, 56%N);
  (G_TraceStartIEs, 48%N);
  (G_TransportLayerAddress, 32%N);
  (G_UEAggregateMaximumBitRateExtIEs, 24%N);
  (G_UEAssociatedLogicalNGConnectionItem, 24%N);
  (G_UEAssociatedLogicalNGConnectionItemExtIEs, 24%N);
  (G_UEContextModificationFailureIEs, 56%N);
  (G_UEContextModificationRequestIEs, 112%N);
  (G_UEContextModificationResponseIEs, 64%N);
  (G_UEContextReleaseCommandIEs, 40%N);
  (G_UEContextReleaseCompleteIEs, 72%N);
  (G_UEContextReleaseRequestIEs, 56%N);
  (G_UENGAPIDPairExtIEs, 24%N);
  (G_UEPresenceInAreaOfInterestItem, 24%N);
  (G_UEPresenceInAreaOfInterestItemExtIEs, 24%N);
  (G_UERadioCapabilityCheckRequestIEs, 48%N);
  (G_UERadioCapabilityCheckResponseIEs, 56%N);
  (G_UERadioCapabilityForPagingExtIEs, 24%N);
  (G_UERadioCapabilityInfoIndicationIEs, 56%N);
  (G_UESecurityCapabilitiesExtIEs, 24%N);
  (G_UETNLABindingReleaseRequestIEs, 40%N);
  (G_ULNGUUPTNLModifyItem, 56%N);
  (G_ULNGUUPTNLModifyItemExtIEs, 24%N);
  (G_UnavailableGUAMIItem, 152%N);
  (G_UnavailableGUAMIItemExtIEs, 24%N);
  (G_UplinkNASTransportIEs, 56%N);
  (G_UplinkNonUEAssociatedNRPPaTransportIEs, 40%N);
  (G_UplinkRANConfigurationTransferIEs, 32%N);
  (G_UplinkRANStatusTransferIEs, 48%N);
  (G_UplinkUEAssociatedNRPPaTransportIEs, 56%N);
  (G_UserLocationInformationEUTRAExtIEs, 24%N);
  (G_UserLocationInformationN3IWFExtIEs, 24%N);
  (G_UserLocationInformationNRExtIEs, 24%N);
  (G_UserPlaneSecurityInformationExtIEs, 24%N);
  (G_WriteReplaceWarningRequestIEs, 112%N);
  (G_WriteReplaceWarningResponseIEs, 56%N);
  (G_XnExtTLAItem, 24%N);
  (G_XnExtTLAItemExtIEs, 24%N);
  (G_XnTNLConfigurationInfoExtIEs, 24%N)].

(* 2293 types seen by reflect, 1370 struct definitions, 2823 fields, 278 distinct parameter records *)
