(* TS 24.501 (Release 15) message definitions, clause 8.2 (5GMM) and 8.3 (5GSM): for every message the
   message-type octet, the mandatory part in order and every optional IE (IEI, format, total length in octets as in
   the "Length" column).  Transcribed from the specification as remembered (no copy is available offline), NOT
   from the Go library.  Rows whose presence/IEI differs between Release 15 versions, or that I am not sure of,
   carry [r_uncertain := true] and are left out of the strict comparison.
   Formats (TS 24.007 11.2.1.1): V n; half-octet V ("1/2"); LV; LV-E; TV with half-octet IEI ("TV 1");
   TV n; TLV; TLV-E.  Lengths are total IE lengths; [None] stands for "n". *)
From Coq Require Import NArith List String.
Import ListNotations.
Open Scope string_scope.
Open Scope N_scope.

Inductive ie_format :=
| F_V (n:N) | F_Vhalf
| F_LV (lo:N) (hi:option N) | F_LVE (lo:N) (hi:option N)
| F_TVhalf | F_TV (n:N)
| F_TLV (lo:N) (hi:option N) | F_TLVE (lo:N) (hi:option N).

Record ie_row := mk_row { r_iei : N; r_name : string; r_fmt : ie_format; r_uncertain : bool }.
Record msg_table := mk_table { tb_clause : string; tb_name : string; tb_epd : N; tb_type : N;
                               tb_mand : list ie_row; tb_opt : list ie_row }.

Definition RM (name:string) (f:ie_format) : ie_row := mk_row 0 name f false.
Definition RO (iei:N) (name:string) (f:ie_format) : ie_row := mk_row iei name f false.
Definition RU (iei:N) (name:string) (f:ie_format) : ie_row := mk_row iei name f true.
Definition upto (n:N) : option N := Some n.
Definition any : option N := None.

Definition EPD_5GMM : N := 0x7E.
Definition EPD_5GSM : N := 0x2E.

(* 9.1.1: EPD, security header type + spare half octet, message type *)
Definition hdr_mm : list ie_row :=
  [RM "Extended protocol discriminator" (F_V 1); RM "Security header type" F_Vhalf; RM "Spare half octet" F_Vhalf;
   RM "Message type" (F_V 1)].
(* EPD, PDU session identity, procedure transaction identity, message type *)
Definition hdr_sm : list ie_row :=
  [RM "Extended protocol discriminator" (F_V 1); RM "PDU session ID" (F_V 1); RM "PTI" (F_V 1); RM "Message type" (F_V 1)].

Definition mm (clause name:string) (ty:N) (mand opt:list ie_row) : msg_table := mk_table clause name EPD_5GMM ty (hdr_mm ++ mand) opt.
Definition sm (clause name:string) (ty:N) (mand opt:list ie_row) : msg_table := mk_table clause name EPD_5GSM ty (hdr_sm ++ mand) opt.

(* frequently used rows *)
Definition eap_tlve := RO 0x78 "EAP message" (F_TLVE 7 (upto 1503)).
Definition epco := RO 0x7B "Extended protocol configuration options" (F_TLVE 4 (upto 65538)).
Definition pdu_status := RO 0x50 "PDU session status" (F_TLV 4 (upto 34)).
Definition t3346 := RO 0x5F "T3346 value" (F_TLV 3 (upto 3)).
Definition backoff := RO 0x37 "Back-off timer value" (F_TLV 3 (upto 3)).

Definition ts24501_tables : list msg_table := [
  (* ------------------------------------------------------------------ 8.2  5GMM *)
  mm "8.2.1" "AUTHENTICATION REQUEST" 0x56
     [RM "ngKSI" F_Vhalf; RM "Spare half octet" F_Vhalf; RM "ABBA" (F_LV 3 any)]
     [RO 0x21 "Authentication parameter RAND" (F_TV 17); RO 0x20 "Authentication parameter AUTN" (F_TLV 18 (upto 18)); eap_tlve];
  mm "8.2.2" "AUTHENTICATION RESPONSE" 0x57 []
     [RO 0x2D "Authentication response parameter" (F_TLV 18 (upto 18)); eap_tlve];
  mm "8.2.3" "AUTHENTICATION RESULT" 0x5A
     [RM "ngKSI" F_Vhalf; RM "Spare half octet" F_Vhalf; RM "EAP message" (F_LVE 6 (upto 1502))]
     [RO 0x38 "ABBA" (F_TLV 4 any)];
  mm "8.2.4" "AUTHENTICATION FAILURE" 0x59 [RM "5GMM cause" (F_V 1)]
     [RO 0x30 "Authentication failure parameter" (F_TLV 16 (upto 16))];
  mm "8.2.5" "AUTHENTICATION REJECT" 0x58 [] [eap_tlve];
  mm "8.2.6" "REGISTRATION REQUEST" 0x41
     [RM "5GS registration type" F_Vhalf; RM "ngKSI" F_Vhalf; RM "5GS mobile identity" (F_LVE 6 any)]
     [RO 0xC "Non-current native NAS key set identifier" F_TVhalf;
      RO 0x10 "5GMM capability" (F_TLV 3 (upto 15));
      RO 0x2E "UE security capability" (F_TLV 4 (upto 10));
      RO 0x2F "Requested NSSAI" (F_TLV 4 (upto 74));
      RO 0x52 "Last visited registered TAI" (F_TV 7);
      RO 0x17 "S1 UE network capability" (F_TLV 4 (upto 15));
      RO 0x40 "Uplink data status" (F_TLV 4 (upto 34));
      pdu_status;
      RO 0xB "MICO indication" F_TVhalf;
      RO 0x2B "UE status" (F_TLV 3 (upto 3));
      RO 0x77 "Additional GUTI" (F_TLVE 14 (upto 14));
      RO 0x25 "Allowed PDU session status" (F_TLV 4 (upto 34));
      RO 0x18 "UE's usage setting" (F_TLV 3 (upto 3));
      RO 0x51 "Requested DRX parameters" (F_TLV 3 (upto 3));
      RO 0x70 "EPS NAS message container" (F_TLVE 4 any);
      RO 0x74 "LADN indication" (F_TLVE 3 (upto 811));
      RU 0x8 "Payload container type" F_TVhalf;            (* added to this message in a later Release-15 version *)
      RO 0x7B "Payload container" (F_TLVE 4 (upto 65538));
      RO 0x9 "Network slicing indication" F_TVhalf;
      RO 0x53 "5GS update type" (F_TLV 3 (upto 3));
      RO 0x71 "NAS message container" (F_TLVE 4 any);
      RU 0x60 "EPS bearer context status" (F_TLV 4 (upto 4))];   (* later Release-15 version *)
  mm "8.2.7" "REGISTRATION ACCEPT" 0x42 [RM "5GS registration result" (F_LV 2 (upto 2))]
     [RO 0x77 "5G-GUTI" (F_TLVE 14 (upto 14));
      RO 0x4A "Equivalent PLMNs" (F_TLV 5 (upto 47));
      RO 0x54 "TAI list" (F_TLV 9 (upto 114));
      RO 0x15 "Allowed NSSAI" (F_TLV 4 (upto 74));
      RO 0x11 "Rejected NSSAI" (F_TLV 4 (upto 42));
      RO 0x31 "Configured NSSAI" (F_TLV 4 (upto 146));
      RO 0x21 "5GS network feature support" (F_TLV 3 (upto 5));
      pdu_status;
      RO 0x26 "PDU session reactivation result" (F_TLV 4 (upto 34));
      RO 0x72 "PDU session reactivation result error cause" (F_TLVE 5 (upto 515));
      RO 0x79 "LADN information" (F_TLVE 12 (upto 1715));
      RO 0xB "MICO indication" F_TVhalf;
      RO 0x9 "Network slicing indication" F_TVhalf;
      RO 0x27 "Service area list" (F_TLV 6 (upto 114));
      RO 0x5E "T3512 value" (F_TLV 3 (upto 3));
      RO 0x5D "Non-3GPP de-registration timer value" (F_TLV 3 (upto 3));
      RO 0x16 "T3502 value" (F_TLV 3 (upto 3));
      RO 0x34 "Emergency number list" (F_TLV 5 (upto 50));
      RO 0x7A "Extended emergency number list" (F_TLVE 7 (upto 65538));
      RO 0x73 "SOR transparent container" (F_TLVE 20 any);
      eap_tlve;
      RO 0xA "NSSAI inclusion mode" F_TVhalf;
      RO 0x76 "Operator-defined access category definitions" (F_TLVE 3 any);
      RO 0x51 "Negotiated DRX parameters" (F_TLV 3 (upto 3));
      RU 0xD "Non-3GPP NW policies" F_TVhalf;                (* later Release-15 version *)
      RU 0x60 "EPS bearer context status" (F_TLV 4 (upto 4))];
  mm "8.2.8" "REGISTRATION COMPLETE" 0x43 [] [RO 0x73 "SOR transparent container" (F_TLVE 20 (upto 20))];
  mm "8.2.9" "REGISTRATION REJECT" 0x44 [RM "5GMM cause" (F_V 1)]
     [t3346; RO 0x16 "T3502 value" (F_TLV 3 (upto 3)); eap_tlve];
  mm "8.2.10" "UL NAS TRANSPORT" 0x67
     [RM "Payload container type" F_Vhalf; RM "Spare half octet" F_Vhalf; RM "Payload container" (F_LVE 3 (upto 65537))]
     [RO 0x12 "PDU session ID" (F_TV 2);
      RO 0x59 "Old PDU session ID" (F_TV 2);
      RO 0x8 "Request type" F_TVhalf;
      RO 0x22 "S-NSSAI" (F_TLV 3 (upto 10));
      RO 0x25 "DNN" (F_TLV 3 (upto 102));
      RO 0x24 "Additional information" (F_TLV 3 any)];
  mm "8.2.11" "DL NAS TRANSPORT" 0x68
     [RM "Payload container type" F_Vhalf; RM "Spare half octet" F_Vhalf; RM "Payload container" (F_LVE 3 (upto 65537))]
     [RO 0x12 "PDU session ID" (F_TV 2);
      RO 0x24 "Additional information" (F_TLV 3 any);
      RO 0x58 "5GMM cause" (F_TV 2);
      backoff];
  mm "8.2.12" "DEREGISTRATION REQUEST (UE originating)" 0x45
     [RM "De-registration type" F_Vhalf; RM "ngKSI" F_Vhalf; RM "5GS mobile identity" (F_LVE 6 any)] [];
  mm "8.2.13" "DEREGISTRATION ACCEPT (UE originating)" 0x46 [] [];
  mm "8.2.14" "DEREGISTRATION REQUEST (UE terminated)" 0x47
     [RM "De-registration type" F_Vhalf; RM "Spare half octet" F_Vhalf]
     [RO 0x58 "5GMM cause" (F_TV 2); t3346];
  mm "8.2.15" "DEREGISTRATION ACCEPT (UE terminated)" 0x48 [] [];
  mm "8.2.16" "SERVICE REQUEST" 0x4C
     [RM "ngKSI" F_Vhalf; RM "Service type" F_Vhalf; RM "5G-S-TMSI" (F_LVE 9 (upto 9))]
     [RO 0x40 "Uplink data status" (F_TLV 4 (upto 34)); pdu_status;
      RO 0x25 "Allowed PDU session status" (F_TLV 4 (upto 34));
      RO 0x71 "NAS message container" (F_TLVE 4 any)];
  mm "8.2.17" "SERVICE ACCEPT" 0x4E []
     [pdu_status; RO 0x26 "PDU session reactivation result" (F_TLV 4 (upto 34));
      RO 0x72 "PDU session reactivation result error cause" (F_TLVE 5 (upto 515)); eap_tlve];
  mm "8.2.18" "SERVICE REJECT" 0x4D [RM "5GMM cause" (F_V 1)] [pdu_status; t3346; eap_tlve];
  mm "8.2.19" "CONFIGURATION UPDATE COMMAND" 0x54 []
     [RO 0xD "Configuration update indication" F_TVhalf;
      RO 0x77 "5G-GUTI" (F_TLVE 14 (upto 14));
      RO 0x54 "TAI list" (F_TLV 9 (upto 114));
      RO 0x15 "Allowed NSSAI" (F_TLV 4 (upto 74));
      RO 0x27 "Service area list" (F_TLV 6 (upto 114));
      RO 0x43 "Full name for network" (F_TLV 3 any);
      RO 0x45 "Short name for network" (F_TLV 3 any);
      RO 0x46 "Local time zone" (F_TV 2);
      RO 0x47 "Universal time and local time zone" (F_TV 8);
      RO 0x49 "Network daylight saving time" (F_TLV 3 (upto 3));
      RO 0x79 "LADN information" (F_TLVE 3 (upto 1715));
      RO 0xB "MICO indication" F_TVhalf;
      RO 0x9 "Network slicing indication" F_TVhalf;
      RO 0x31 "Configured NSSAI" (F_TLV 4 (upto 146));
      RO 0x11 "Rejected NSSAI" (F_TLV 4 (upto 42));
      RO 0x76 "Operator-defined access category definitions" (F_TLVE 3 any);
      RO 0xF "SMS indication" F_TVhalf];
  mm "8.2.20" "CONFIGURATION UPDATE COMPLETE" 0x55 [] [];
  mm "8.2.21" "IDENTITY REQUEST" 0x5B [RM "Identity type" F_Vhalf; RM "Spare half octet" F_Vhalf] [];
  mm "8.2.22" "IDENTITY RESPONSE" 0x5C [RM "Mobile identity" (F_LVE 3 any)] [];
  mm "8.2.23" "NOTIFICATION" 0x65 [RM "Access type" F_Vhalf; RM "Spare half octet" F_Vhalf] [];
  mm "8.2.24" "NOTIFICATION RESPONSE" 0x66 [] [pdu_status];
  mm "8.2.25" "SECURITY MODE COMMAND" 0x5D
     [RM "Selected NAS security algorithms" (F_V 1); RM "ngKSI" F_Vhalf; RM "Spare half octet" F_Vhalf;
      RM "Replayed UE security capabilities" (F_LV 3 (upto 9))]
     [RO 0xE "IMEISV request" F_TVhalf;
      RO 0x57 "Selected EPS NAS security algorithms" (F_TV 2);
      RO 0x36 "Additional 5G security information" (F_TLV 3 (upto 3));
      eap_tlve;
      RO 0x38 "ABBA" (F_TLV 4 any);
      RO 0x19 "Replayed S1 UE security capabilities" (F_TLV 4 (upto 7))];
  mm "8.2.26" "SECURITY MODE COMPLETE" 0x5E []
     [RO 0x77 "IMEISV" (F_TLVE 12 (upto 12)); RO 0x71 "NAS message container" (F_TLVE 4 any)];
  mm "8.2.27" "SECURITY MODE REJECT" 0x5F [RM "5GMM cause" (F_V 1)] [];
  mm "8.2.29" "5GMM STATUS" 0x64 [RM "5GMM cause" (F_V 1)] [];
  (* ------------------------------------------------------------------ 8.3  5GSM *)
  sm "8.3.1" "PDU SESSION ESTABLISHMENT REQUEST" 0xC1 [RM "Integrity protection maximum data rate" (F_V 2)]
     [RO 0x9 "PDU session type" F_TVhalf;
      RO 0xA "SSC mode" F_TVhalf;
      RO 0x28 "5GSM capability" (F_TLV 3 (upto 15));
      RO 0x55 "Maximum number of supported packet filters" (F_TV 3);
      RO 0xB "Always-on PDU session requested" F_TVhalf;
      RO 0x39 "SM PDU DN request container" (F_TLV 3 (upto 255));
      epco];
  sm "8.3.2" "PDU SESSION ESTABLISHMENT ACCEPT" 0xC2
     [RM "Selected PDU session type" F_Vhalf; RM "Selected SSC mode" F_Vhalf;
      RM "Authorized QoS rules" (F_LVE 6 (upto 65538)); RM "Session AMBR" (F_LV 7 (upto 7))]
     [RO 0x59 "5GSM cause" (F_TV 2);
      RO 0x29 "PDU address" (F_TLV 7 (upto 15));
      RO 0x56 "RQ timer value" (F_TV 2);
      RO 0x22 "S-NSSAI" (F_TLV 3 (upto 10));
      RO 0x8 "Always-on PDU session indication" F_TVhalf;
      RO 0x75 "Mapped EPS bearer contexts" (F_TLVE 7 (upto 65538));
      eap_tlve;
      RO 0x79 "Authorized QoS flow descriptions" (F_TLVE 6 (upto 65538));
      epco;
      RO 0x25 "DNN" (F_TLV 3 (upto 102))];
  sm "8.3.3" "PDU SESSION ESTABLISHMENT REJECT" 0xC3 [RM "5GSM cause" (F_V 1)]
     [backoff; RO 0xF "Allowed SSC mode" F_TVhalf; eap_tlve; epco];
  sm "8.3.4" "PDU SESSION AUTHENTICATION COMMAND" 0xC5 [RM "EAP message" (F_LVE 6 (upto 1502))] [epco];
  sm "8.3.5" "PDU SESSION AUTHENTICATION COMPLETE" 0xC6 [RM "EAP message" (F_LVE 6 (upto 1502))] [epco];
  sm "8.3.6" "PDU SESSION AUTHENTICATION RESULT" 0xC7 [] [eap_tlve; epco];
  sm "8.3.7" "PDU SESSION MODIFICATION REQUEST" 0xC9 []
     [RO 0x28 "5GSM capability" (F_TLV 3 (upto 15));
      RO 0x59 "5GSM cause" (F_TV 2);
      RO 0x55 "Maximum number of supported packet filters" (F_TV 3);
      RO 0xB "Always-on PDU session requested" F_TVhalf;
      RO 0x13 "Integrity protection maximum data rate" (F_TV 3);
      RO 0x7A "Requested QoS rules" (F_TLVE 7 (upto 65538));
      RO 0x79 "Requested QoS flow descriptions" (F_TLVE 6 (upto 65538));
      RO 0x7F "Mapped EPS bearer contexts" (F_TLVE 7 (upto 65538));
      epco];
  sm "8.3.8" "PDU SESSION MODIFICATION REJECT" 0xCA [RM "5GSM cause" (F_V 1)] [backoff; epco];
  sm "8.3.9" "PDU SESSION MODIFICATION COMMAND" 0xCB []
     [RO 0x59 "5GSM cause" (F_TV 2);
      RO 0x2A "Session AMBR" (F_TLV 8 (upto 8));
      RO 0x56 "RQ timer value" (F_TV 2);
      RO 0x8 "Always-on PDU session indication" F_TVhalf;
      RO 0x7A "Authorized QoS rules" (F_TLVE 7 (upto 65538));
      (* 7F in the early Release-15 versions, 75 from a later one: IEI left out of the strict comparison *)
      RU 0x7F "Mapped EPS bearer contexts" (F_TLVE 7 (upto 65538));
      RU 0x75 "Mapped EPS bearer contexts (later versions)" (F_TLVE 7 (upto 65538));
      RO 0x79 "Authorized QoS flow descriptions" (F_TLVE 6 (upto 65538));
      epco];
  sm "8.3.10" "PDU SESSION MODIFICATION COMPLETE" 0xCC [] [epco];
  sm "8.3.11" "PDU SESSION MODIFICATION COMMAND REJECT" 0xCD [RM "5GSM cause" (F_V 1)] [epco];
  sm "8.3.12" "PDU SESSION RELEASE REQUEST" 0xD1 [] [RO 0x59 "5GSM cause" (F_TV 2); epco];
  sm "8.3.13" "PDU SESSION RELEASE REJECT" 0xD2 [RM "5GSM cause" (F_V 1)] [epco];
  sm "8.3.14" "PDU SESSION RELEASE COMMAND" 0xD3 [RM "5GSM cause" (F_V 1)] [backoff; eap_tlve; epco];
  sm "8.3.15" "PDU SESSION RELEASE COMPLETE" 0xD4 [] [RO 0x59 "5GSM cause" (F_TV 2); epco];
  sm "8.3.16" "5GSM STATUS" 0xD6 [RM "5GSM cause" (F_V 1)] []
].
