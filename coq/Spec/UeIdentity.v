(* What C16 asks of a UE population, stated without reference to the code:
   - TS 23.003: an IMSI is MCC (3 digits) MNC (2 or 3 digits) MSIN; a SUPI of type IMSI is written "imsi-<digits>";
   - TS 24.501 9.11.3.54 UE security capability: octet 3 bit 8..5 = 5G-EA0, 128-5G-EA1, 128-5G-EA2, 128-5G-EA3,
     octet 4 bit 8..5 = 5G-IA0, 128-5G-IA1, 128-5G-IA2, 128-5G-IA3. *)
From Coq Require Import NArith List Bool.
Import ListNotations.
Open Scope N_scope.

(* algorithm k (0..7) advertised in capability octet o (bit 8 is algorithm 0) *)
Definition advertised (octet:N) (k:N) : bool := N.testbit octet (7 - k).
Definition advertises_exactly (cap:list N) (ea ia:N) : bool :=
  match cap with
  | [o3; o4] => forallb (fun k => Bool.eqb (advertised o3 k) (k =? ea) && Bool.eqb (advertised o4 k) (k =? ia))
                        [0;1;2;3;4;5;6;7]
  | _ => false
  end.
