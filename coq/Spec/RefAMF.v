(* The network side of NG Setup + 5G-AKA initial registration as a CHECKER, written from the standards
   (TS 24.501 5.5.1.2 / 5.4.1 / 5.4.2, TS 33.501 6.1.3.2 / 6.7.2 / Annex A, TS 33.102 6.3): what a conformant
   AMF (with AUSF/UDM behind it) verifies on each uplink NAS message of a registration, given its own free
   choices (RAND, SQN, AMF field).  E = Milenage kernel, H = HMAC-SHA-256, nea/nia = 128-NEAx / 128-NIAx.
   The selected algorithms are the ones the UE advertised and the emulator uses: 5G-EA0 / 128-5G-IA2. *)
From Coq Require Import NArith List Bool.
Require Import Bytes TS35206 TS33501 Suci RefNasPeer.
Import ListNotations.
Open Scope N_scope.

Section RefAMF.
Variable E : bytes -> bytes -> bytes.
Variable H : bytes -> bytes -> bytes.
Variable nea nia : N -> list N -> N -> N -> N -> list N -> option (list N).

Record subscriber := { sub_mcc : list N; sub_mnc : list N; sub_msin : list N;    (* digits *)
                       sub_k : bytes; sub_opc : bytes }.
Record choices := { ch_rand : bytes; ch_sqn : bytes; ch_amf : bytes }.

Definition ascii (d:list N) : list N := map (N.add 48) d.
Definition sub_imsi_ascii (s:subscriber) : bytes := ascii (sub_mcc s ++ sub_mnc s ++ sub_msin s).

(* authentication vector and key hierarchy the network derives (UDM/AUSF/SEAF/AMF) *)
Definition amf_autn (s:subscriber) (c:choices) : bytes := autn E (sub_k s) (sub_opc s) (ch_rand c) (ch_sqn c) (ch_amf c).
Definition amf_keys (s:subscriber) (c:choices) : keys :=
  network_keys_sqn E H (sub_k s) (sub_opc s) (ch_rand c) (ch_sqn c) (ascii (sub_mcc s)) (ascii (sub_mnc s)) (sub_imsi_ascii s) 0 2.
Definition amf_ctx (s:subscriber) (c:choices) : sec_ctx :=
  mk_ctx 0 2 (k_nas_enc (amf_keys s c)) (k_nas_int (amf_keys s c)).

(* 1. REGISTRATION REQUEST: the SUCI identifies the subscriber in the serving PLMN *)
Definition identifies (s:subscriber) (regreq:bytes) : bool :=
  match mobile_identity_of REGISTRATION_REQUEST regreq with
  | Some mi => suci_is mi (sub_mcc s) (sub_mnc s) (sub_msin s)
  | None => false end.
(* 2. AUTHENTICATION RESPONSE: 7E 00 57, Authentication response parameter (IEI 2D, length 16) = XRES* *)
Definition res_matches (s:subscriber) (c:choices) (authresp:bytes) : bool :=
  eqb_octets authresp ([126; 0; 87; 45; 16] ++ res_star (amf_keys s c)).
(* 3./4. protected messages: header type as required at that step, MAC valid under the network's K_NASint, NAS COUNT
   equal to the one the AMF expects (0 with SECURITY MODE COMPLETE, then previous + 1), message type as expected *)
Definition protected_ok (ctx:sec_ctx) (stored hdr msgtype:N) (pkt:bytes) : option N :=
  if negb (nth 1 pkt 0 =? hdr) then None else
  if negb (nth 6 pkt 0 =? stored mod 256) then None else          (* sequence number = expected COUNT *)
  match ul_receive nea nia ctx stored pkt with
  | Accept plain stored' =>
      match plain with
      | 126 :: 0 :: mt :: _ => if mt =? msgtype then Some stored' else None
      | _ => None end
  | Reject _ => None
  end.
Definition SECURITY_MODE_COMPLETE : N := 94.     (* 0x5E *)
Definition REGISTRATION_COMPLETE : N := 67.      (* 0x43 *)

Inductive amf_state := Registered (ul_count_next:N) | Rejected (step:nat).
Definition amf_registration (s:subscriber) (c:choices) (regreq authresp smc_complete reg_complete:bytes) : amf_state :=
  if negb (identifies s regreq) then Rejected 1 else
  if negb (res_matches s c authresp) then Rejected 2 else
  match protected_ok (amf_ctx s c) 0 4 SECURITY_MODE_COMPLETE smc_complete with
  | None => Rejected 3
  | Some n1 =>
    match protected_ok (amf_ctx s c) n1 2 REGISTRATION_COMPLETE reg_complete with
    | None => Rejected 4
    | Some n2 => Registered n2
    end
  end.
End RefAMF.
