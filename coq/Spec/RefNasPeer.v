(* Reference NAS security peer (the network side), written from the specifications and not from the Go code:
     TS 24.501  4.4.3.1 (NAS COUNT = overflow counter (16) || sequence number (8); the receiver estimates the COUNT
                         from its stored value and the received sequence number, incrementing the overflow counter
                         when the sequence number wraps), 4.4.3.2/4.4.3.3 (integrity: the MAC covers
                         sequence number || NAS message, BEARER = 1 for 3GPP access, DIRECTION 0 uplink / 1 downlink),
                4.4.4 (ciphering: the NAS message part, not the header/MAC/sequence number), 4.4.5 (partly ciphered
                         types), 9.1-9.3 (layout of a security protected 5GS NAS message:
                         EPD | security header type | MAC (4 octets) | sequence number | plain or ciphered message),
                9.3.1 (header types: 1 integrity protected, 2 integrity protected and ciphered, 3 integrity protected
                         with new 5G NAS security context, 4 integrity protected and ciphered with new context)
     TS 33.501  6.4.3 (COUNT input = 0x00 || NAS COUNT), 6.4.4, Annex D (inputs COUNT, BEARER, DIRECTION).
   The two algorithms are parameters (128-NEAx, 128-NIAx as functions
     alg key count bearer direction message -> Some result | None (algorithm not available));
   the executable instance used by the correspondence streams takes them from Spec/TS33401B.v. *)
From Coq Require Import NArith List Bool.
Import ListNotations.
Open Scope N_scope.

Definition EPD_5GMM : N := 0x7E.
Definition BEARER_3GPP : N := 1.
Definition UPLINK : N := 0.
Definition DOWNLINK : N := 1.
Definition COUNT_MOD : N := 16777216.       (* 2^24 *)

Record sec_ctx := mk_ctx { c_ea : N; c_ia : N; c_kenc : list N; c_kint : list N }.

(* header types whose message part is ciphered / that announce a new security context *)
Definition hdr_ciphered (h:N) : bool := (h =? 2) || (h =? 4).
Definition hdr_newctx (h:N) : bool := (h =? 3) || (h =? 4).
Definition hdr_protected (h:N) : bool := (1 <=? h) && (h <=? 4).

Fixpoint eqb_octets (a b:list N) : bool :=
  match a, b with [], [] => true | x :: a', y :: b' => (x =? y) && eqb_octets a' b' | _, _ => false end.

Section Algorithms.
Variable nea : N -> list N -> N -> N -> N -> list N -> option (list N).
Variable nia : N -> list N -> N -> N -> N -> list N -> option (list N).

(* ---- sender: protect a plain NAS message with NAS COUNT [count] in direction [dir] under header type [hdr] *)
Definition protect (ctx:sec_ctx) (dir count hdr:N) (plain:list N) : option (list N) :=
  let sqn := count mod 256 in
  match (if hdr_ciphered hdr then nea (c_ea ctx) (c_kenc ctx) count BEARER_3GPP dir plain else Some plain) with
  | None => None
  | Some body =>
    match nia (c_ia ctx) (c_kint ctx) count BEARER_3GPP dir (sqn :: body) with
    | None => None
    | Some m => Some (EPD_5GMM :: hdr :: m ++ sqn :: body)
    end
  end.

(* ---- receiver: COUNT estimate (4.4.3.1).  [stored] = the COUNT the receiver expects next (its local value);
   the estimate is the first COUNT at or after it whose low octet is the received sequence number. *)
Definition estimate (stored sqn:N) : N :=
  let ovf := stored / 256 in
  let ovf := if sqn <? stored mod 256 then ovf + 1 else ovf in
  (ovf * 256 + sqn) mod COUNT_MOD.

Inductive reject := BadEPD | BadHeaderType | TooShort | AlgUnavailable | BadMAC.
Inductive rx := Accept (plain:list N) (stored:N) | Reject (why:reject).

Definition receive (ctx:sec_ctx) (dir stored:N) (pkt:list N) : rx :=
  match pkt with
  | epd :: hdr :: m1 :: m2 :: m3 :: m4 :: sqn :: body =>
    if negb (epd =? EPD_5GMM) then Reject BadEPD
    else if negb (hdr_protected hdr) then Reject BadHeaderType
    else
      let count := estimate stored sqn in
      match nia (c_ia ctx) (c_kint ctx) count BEARER_3GPP dir (sqn :: body) with
      | None => Reject AlgUnavailable
      | Some m =>
        if negb (eqb_octets m [m1; m2; m3; m4]) then Reject BadMAC
        else match (if hdr_ciphered hdr then nea (c_ea ctx) (c_kenc ctx) count BEARER_3GPP dir body else Some body) with
             | None => Reject AlgUnavailable
             | Some plain => Accept plain ((count + 1) mod COUNT_MOD)
             end
      end
  | _ => Reject TooShort
  end.

(* the AMF receiving an uplink message *)
Definition ul_receive (ctx:sec_ctx) (stored:N) (pkt:list N) : rx := receive ctx UPLINK stored pkt.

(* ---- the UE side as an uplink sender over a history (what C06 demands of the emulator):
   each message uses the next COUNT; taking a new context into use restarts at 0 *)
Definition ul_count_for (next:N) (newctx:bool) : N := if newctx then 0 else next.
Definition ul_next (count:N) : N := (count + 1) mod COUNT_MOD.

(* sender history: ops = (plain, hdr, newctx); result = protected messages in order and the COUNT to use next *)
Fixpoint ul_history (ctx:sec_ctx) (next:N) (ops:list (list N * N * bool)) : list (option (list N)) * N :=
  match ops with
  | [] => ([], next)
  | (plain, hdr, newctx) :: r =>
    let c := ul_count_for next newctx in
    let '(outs, fin) := ul_history ctx (ul_next c) r in
    (protect ctx UPLINK c hdr plain :: outs, fin)
  end.
(* the COUNT values the messages of a history carry *)
Fixpoint ul_counts (next:N) (news:list bool) : list N :=
  match news with
  | [] => []
  | n :: r => let c := ul_count_for next n in c :: ul_counts (ul_next c) r
  end.

(* receiver history: the AMF receives the messages in order; a new context restarts its stored COUNT at 0
   (the AMF itself initiated the change: TS 24.501 4.4.3.1, 5.4.2) *)
Fixpoint ul_receive_history (ctx:sec_ctx) (stored:N) (pkts:list (list N * bool)) : list rx * N :=
  match pkts with
  | [] => ([], stored)
  | (pkt, newctx) :: r =>
    let s := if newctx then 0 else stored in
    match ul_receive ctx s pkt with
    | Accept plain s' => let '(rs, fin) := ul_receive_history ctx s' r in (Accept plain s' :: rs, fin)
    | Reject w => let '(rs, fin) := ul_receive_history ctx s r in (Reject w :: rs, fin)
    end
  end.

(* ---- the AMF as a downlink sender over a history.
   State = the COUNT of the last protected message it sent.  op = (plain, hdr, d):
     hdr 0      the message goes out plain and consumes no COUNT;
     hdr 3, 4   new security context: COUNT 0;
     hdr 1, 2   COUNT = last + d (1 <= d <= 255: d - 1 messages of the same context were lost or went elsewhere) *)
Definition dl_count (last hdr d:N) : N := if hdr_newctx hdr then 0 else (last + d) mod COUNT_MOD.
Definition dl_send (ctx:sec_ctx) (last:N) (plain:list N) (hdr d:N) : N * option (list N) :=
  if hdr =? 0 then (last, Some plain)
  else let c := dl_count last hdr d in (c, protect ctx DOWNLINK c hdr plain).

Fixpoint dl_history (ctx:sec_ctx) (last:N) (ops:list (list N * N * N)) : list (N * option (list N)) :=
  match ops with
  | [] => []
  | (plain, hdr, d) :: r => let '(c, pkt) := dl_send ctx last plain hdr d in (c, pkt) :: dl_history ctx c r
  end.
End Algorithms.

Example estimate_in_order : estimate 255 255 = 255 /\ estimate 256 0 = 256 /\ estimate 65535 255 = 65535.
Proof. repeat split; vm_compute; reflexivity. Qed.
Example estimate_wrap : estimate 16777215 255 = 16777215 /\ estimate 0x1ff 0 = 0x200 /\ estimate 0xffffff 2 = 2.
Proof. repeat split; vm_compute; reflexivity. Qed.
