(* SNOW 3G, UEA2/UIA2 and 128-EEA1/128-EIA1, written from the specifications
   (ETSI/SAGE "Specification of the 3GPP Confidentiality and Integrity Algorithms UEA2 & UIA2",
   Document 2: SNOW 3G = TS 35.216, Document 1: UEA2/UIA2 = TS 35.215; TS 33.401 Annex B.1.2/B.2.2
   for the EPS/5G parameter mapping).  Nothing here refers to the Go code.
   Words are 32-bit numbers (N), "a || b" is written arithmetically, octets are N < 256. *)
From Coq Require Import NArith List Bool.
Require Import Bytes.
Import ListNotations.
Open Scope N_scope.

Definition two8  : N := 256.
Definition two32 : N := 4294967296.
Definition two64 : N := 18446744073709551616.

(* ---- 3.1 functions on 8-bit and 32-bit words *)
(* octet i (0 = most significant) of a 32-bit word; w = w0 || w1 || w2 || w3 *)
Definition octet (w:N) (i:N) : N := N.land (N.shiftr w (8 * (3 - i))) 255.
Definition cat4 (a b c d:N) : N := ((a * two8 + b) * two8 + c) * two8 + d.
Definition add32 (a b:N) : N := (a + b) mod two32.                 (* integer addition modulo 2^32 *)

(* 3.1.1 MULx: V, c 8-bit.  If the leftmost bit of V is 1: (V <<8 1) xor c, else V <<8 1
   (V <<8 1: shift left by one inside 8 bits = the 8 low bits of 2V) *)
Definition shl8 (V:N) : N := N.land (V * 2) 255.
Definition MULx (V c:N) : N := if 128 <=? V then N.lxor (shl8 V) c else shl8 V.
(* 3.1.2 MULxPOW *)
Fixpoint MULxPOW (V:N) (i:nat) (c:N) : N :=
  match i with O => V | S j => MULx (MULxPOW V j c) c end.

(* ---- arithmetic of GF(2^8) = GF(2)[x]/(p), p given by its low 8 coefficients *)
Fixpoint gf_mul_f (n:nat) (p a b acc:N) : N :=            (* acc + a*b, shift-and-add over the bits of b *)
  match n with
  | O => acc
  | S n' => gf_mul_f n' p (MULx a p) (b / 2) (if N.odd b then N.lxor acc a else acc)
  end.
Definition gf_mul (p a b:N) : N := gf_mul_f 8 p a b 0.
Fixpoint gf_pow (p a:N) (e:nat) : N := match e with O => 1 | S e' => gf_mul p a (gf_pow p a e') end.

(* 3.3.1 S_R is the Rijndael S-box: multiplicative inverse in GF(2)[x]/(x^8+x^4+x^3+x+1) (0 -> 0),
   followed by the affine map b_i' = b_i + b_(i+4) + b_(i+5) + b_(i+6) + b_(i+7) + c_i, c = 0x63 *)
Definition rotl8 (x k:N) : N := (x * 2 ^ k) mod two8 + x / 2 ^ (8 - k).
Definition S_R_alg (x:N) : N :=
  let i := gf_pow 27 x 254 in                              (* x^254 = x^-1, and 0^254 = 0 *)
  N.lxor (N.lxor (N.lxor (N.lxor (N.lxor i (rotl8 i 1)) (rotl8 i 2)) (rotl8 i 3)) (rotl8 i 4)) 99.
(* 3.3.2 S_Q: the Dickson polynomial g_49(x) = x + x^9 + x^13 + x^15 + x^33 + x^41 + x^45 + x^47 + x^49
   over GF(2)[x]/(x^8+x^6+x^5+x^3+1), S_Q(x) = g_49(x) + 0x25 *)
Definition S_Q_alg (x:N) : N :=
  fold_left (fun r e => N.lxor r (gf_pow 105 x e)) [1;9;13;15;33;41;45;47;49]%nat 37.

(* The two S-boxes are functions of one octet: they are tabulated once BY COQ from the algebraic definitions
   (nothing below is typed in), and S_R / S_Q look the value up; [S_R_table_ok], [S_Q_table_ok] restate that. *)
Definition range256 : list N := map N.of_nat (seq 0 256).
Definition S_R_table : list N := Eval vm_compute in map S_R_alg range256.
Definition S_Q_table : list N := Eval vm_compute in map S_Q_alg range256.
Definition S_R (x:N) : N := nth (N.to_nat x) S_R_table 0.
Definition S_Q (x:N) : N := nth (N.to_nat x) S_Q_table 0.
Example S_R_table_ok : S_R_table = map S_R_alg range256.
Proof. vm_compute. reflexivity. Qed.
Example S_Q_table_ok : S_Q_table = map S_Q_alg range256.
Proof. vm_compute. reflexivity. Qed.

(* 3.3.1 S1 and 3.3.2 S2: w = w0||w1||w2||w3 -> r0||r1||r2||r3 (MixColumn of Rijndael / same matrix over the S_Q field) *)
Definition x5 (a b c d e:N) : N := N.lxor (N.lxor (N.lxor (N.lxor a b) c) d) e.
Definition Smix (S:N -> N) (c:N) (w:N) : N :=
  let a0 := S (octet w 0) in let a1 := S (octet w 1) in let a2 := S (octet w 2) in let a3 := S (octet w 3) in
  cat4 (x5 (MULx a0 c) a1 a2 (MULx a3 c) a3)
       (x5 (MULx a0 c) a0 (MULx a1 c) a2 a3)
       (x5 a0 (MULx a1 c) a1 (MULx a2 c) a3)
       (x5 a0 a1 (MULx a2 c) a2 (MULx a3 c)).
Definition S1 : N -> N := Smix S_R 27.       (* 0x1B *)
Definition S2 : N -> N := Smix S_Q 105.      (* 0x69 *)

(* 3.4.2 MULalpha, 3.4.3 DIValpha (c = 0xA9) *)
Definition MULalpha (c:N) : N := cat4 (MULxPOW c 23 169) (MULxPOW c 245 169) (MULxPOW c 48 169) (MULxPOW c 239 169).
Definition DIValpha (c:N) : N := cat4 (MULxPOW c 16 169) (MULxPOW c 39 169) (MULxPOW c 6 169) (MULxPOW c 64 169).

(* ---- state: LFSR s0..s15 (a list, s0 first) and FSM registers R1 R2 R3 *)
Record snow := { S_lfsr : list N; S_R1 : N; S_R2 : N; S_R3 : N }.
Definition sx (st:snow) (i:nat) : N := nth i (S_lfsr st) 0.

(* 3.4.4 / 3.4.5 clocking the LFSR.  Initialisation mode consumes F, keystream mode is the same with F absent (= 0):
   v = (s0,1||s0,2||s0,3||0x00) xor MULalpha(s0,0) xor s2 xor (0x00||s11,0||s11,1||s11,2) xor DIValpha(s11,3) [xor F] *)
Definition lfsr_feedback (st:snow) : N :=
  let s0 := sx st 0 in let s11 := sx st 11 in
  N.lxor (N.lxor (N.lxor (N.lxor ((s0 * two8) mod two32) (MULalpha (octet s0 0))) (sx st 2)) (s11 / two8)) (DIValpha (octet s11 3)).
Definition ClockLFSR (st:snow) (F:N) : snow :=
  {| S_lfsr := tl (S_lfsr st) ++ [N.lxor (lfsr_feedback st) F]; S_R1 := S_R1 st; S_R2 := S_R2 st; S_R3 := S_R3 st |}.

(* 3.4.6 clocking the FSM: F = (s15 [+] R1) xor R2; r = R2 [+] (R3 xor s5); R3 = S2(R2); R2 = S1(R1); R1 = r *)
Definition ClockFSM (st:snow) : snow * N :=
  let F := N.lxor (add32 (sx st 15) (S_R1 st)) (S_R2 st) in
  let r := add32 (S_R2 st) (N.lxor (S_R3 st) (sx st 5)) in
  ({| S_lfsr := S_lfsr st; S_R1 := r; S_R2 := S1 (S_R1 st); S_R3 := S2 (S_R2 st) |}, F).

(* 4.1 initialisation; k = (k0,k1,k2,k3), iv = (IV0,IV1,IV2,IV3), 1 = 0xffffffff *)
Definition ones32 : N := 4294967295.
Definition snow_load (k iv:list N) : snow :=
  let k0 := nth 0 k 0 in let k1 := nth 1 k 0 in let k2 := nth 2 k 0 in let k3 := nth 3 k 0 in
  let iv0 := nth 0 iv 0 in let iv1 := nth 1 iv 0 in let iv2 := nth 2 iv 0 in let iv3 := nth 3 iv 0 in
  {| S_lfsr := [ N.lxor k0 ones32; N.lxor k1 ones32; N.lxor k2 ones32; N.lxor k3 ones32;       (* s0..s3 *)
                 k0; k1; k2; k3;                                                               (* s4..s7 *)
                 N.lxor k0 ones32; N.lxor (N.lxor k1 ones32) iv3; N.lxor (N.lxor k2 ones32) iv2; N.lxor k3 ones32;  (* s8..s11 *)
                 N.lxor k0 iv1; k1; k2; N.lxor k3 iv0 ];                                        (* s12..s15 *)
     S_R1 := 0; S_R2 := 0; S_R3 := 0 |}.
Definition init_round (st:snow) : snow := let '(st', F) := ClockFSM st in ClockLFSR st' F.
Definition snow_init (k iv:list N) : snow := Nat.iter 32 init_round (snow_load k iv).

(* 4.2 keystream: clock the FSM once and discard its output, clock the LFSR in keystream mode; then
   for t = 1..n: F = ClockFSM, z_t = F xor s0, clock the LFSR in keystream mode *)
Fixpoint snow_words (n:nat) (st:snow) : list N :=
  match n with
  | O => []
  | S n' => let '(st', F) := ClockFSM st in N.lxor F (sx st' 0) :: snow_words n' (ClockLFSR st' 0)
  end.
Definition snow3g_keystream (key iv:list N) (n:nat) : list N :=
  let '(st, _) := ClockFSM (snow_init key iv) in snow_words n (ClockLFSR st 0).

(* ---- TS 35.215: f8 (UEA2) and f9 (UIA2) *)
(* key words: K3 = CK[0..31] (the first four octets), ..., K0 = CK[96..127] *)
Definition key_words (ck:bytes) : list N :=
  [be_to_N (firstn 4 (skipn 12 ck)); be_to_N (firstn 4 (skipn 8 ck)); be_to_N (firstn 4 (skipn 4 ck)); be_to_N (firstn 4 ck)].
Definition words_to_bytes (ws:list N) : bytes := flat_map (N_to_be 4) ws.

(* 3.4 f8: IV3 = COUNT, IV2 = BEARER||DIRECTION||0^26, IV1 = COUNT, IV0 = BEARER||DIRECTION||0^26;
   keystream of ceil(LENGTH/32) words, KS[32t+i] = bit i of z_(t+1), output = input xor KS on LENGTH bits.
   [f8_keystream] is the keystream as octets for a message of [nbytes] octets. *)
Definition f8_iv (count bearer dir:N) : list N :=
  let x := bearer * 2 ^ 27 + dir * 2 ^ 26 in [x; count; x; count].
Definition f8_keystream (ck:bytes) (count bearer dir:N) (nbytes:nat) : bytes :=
  words_to_bytes (snow3g_keystream (key_words ck) (f8_iv count bearer dir) (Nat.div (nbytes + 3) 4)).
(* 128-EEA1 on an octet-aligned message (LENGTH = 8 * |msg|) *)
Definition eea1 (key:bytes) (count bearer dir:N) (msg:bytes) : bytes :=
  xor_bytes msg (f8_keystream key count bearer dir (length msg)).
(* general bit length: msg holds ceil(nbits/8) octets; bits beyond LENGTH in the last octet come out as 0 *)
Definition keep_bits (nbits:N) (l:bytes) : bytes :=
  let full := N.to_nat (nbits / 8) in
  let r := nbits mod 8 in
  if r =? 0 then firstn full l
  else firstn full l ++ [ (nth full l 0 / 2 ^ (8 - r)) * 2 ^ (8 - r) ].
Definition f8_bits (key:bytes) (count bearer dir:N) (nbits:N) (msg:bytes) : bytes :=
  keep_bits nbits (eea1 key count bearer dir msg).

(* 4.3.1 MULx / 4.3.2 MULxPOW / 4.3.3 MUL on 64-bit values *)
Definition shl64 (V:N) : N := N.land (V * 2) 18446744073709551615.         (* V <<64 1 *)
Definition MULx64 (V c:N) : N := if 9223372036854775808 <=? V then N.lxor (shl64 V) c else shl64 V.
Fixpoint MULxPOW64 (V:N) (i:nat) (c:N) : N :=
  match i with O => V | S j => MULx64 (MULxPOW64 V j c) c end.
(* result = 0; for i = 0 to 63: if (P >> i) & 1 then result = result xor MULxPOW(V, i, c) *)
Definition MUL64 (V P c:N) : N :=
  fold_left (fun r i => if N.testbit P (N.of_nat i) then N.lxor r (MULxPOW64 V i c) else r) (seq 0 64) 0.

(* 4.4 f9: IV3 = COUNT, IV2 = FRESH, IV1 = COUNT xor (DIRECTION << 31), IV0 = FRESH xor (DIRECTION << 15);
   z1..z5; P = z1||z2, Q = z3||z4; D = ceil(LENGTH/64) + 1; M_0..M_(D-2) the message padded with 0 bits,
   M_(D-1) = LENGTH; EVAL = 0; for i = 0..D-2: EVAL = MUL(EVAL xor M_i, P, 0x1b);
   EVAL = EVAL xor M_(D-1); EVAL = MUL(EVAL, Q, 0x1b); MAC-I = leftmost 32 bits of EVAL, xor z5.
   [msg] holds ceil(nbits/8) octets, unused trailing bits 0. *)
Definition f9_iv (count fresh dir:N) : list N :=
  [N.lxor fresh (dir * 2 ^ 15); N.lxor count (dir * 2 ^ 31); fresh; count].
Definition pad_to (n:nat) (l:bytes) : bytes := l ++ repeat 0 (n - length l).
Definition blocks64 (nblocks:nat) (msg:bytes) : list N :=
  map (fun i:nat => be_to_N (firstn 8 (skipn (Nat.mul 8 i) (pad_to (Nat.mul 8 nblocks) msg)))) (seq 0 nblocks).
Definition uia2 (ik:bytes) (count fresh dir:N) (nbits:N) (msg:bytes) : bytes :=
  let z := snow3g_keystream (key_words ik) (f9_iv count fresh dir) 5 in
  let P := nth 0 z 0 * two32 + nth 1 z 0 in
  let Q := nth 2 z 0 * two32 + nth 3 z 0 in
  let nblocks := N.to_nat ((nbits + 63) / 64) in                  (* D - 1 *)
  let EVAL := fold_left (fun e m => MUL64 (N.lxor e m) P 27) (blocks64 nblocks msg) 0 in
  let EVAL := N.lxor EVAL nbits in
  let EVAL := MUL64 EVAL Q 27 in
  N_to_be 4 (N.lxor (EVAL / two32) (nth 4 z 0)).
(* 128-EIA1 (TS 33.401 B.2.2): FRESH = BEARER || 0^27; octet-aligned message *)
Definition eia1 (key:bytes) (count bearer dir:N) (msg:bytes) : bytes :=
  uia2 key count (bearer * 2 ^ 27) dir (8 * N.of_nat (length msg)) msg.

(* ---- published test data *)
(* TS 35.216 (SNOW 3G) test set 1: key 2BD6459F 82C5B300 952C4910 4881FF48, IV EA024714 AD5C4D84 DF1F9B25 1C0BF45F *)
Example snow3g_ts35222_set1 :
  snow3g_keystream [0x2BD6459F; 0x82C5B300; 0x952C4910; 0x4881FF48] [0xEA024714; 0xAD5C4D84; 0xDF1F9B25; 0x1C0BF45F] 2
  = [0xABEE9704; 0x7AC31373].
Proof. vm_compute. reflexivity. Qed.

(* TS 35.217 UEA2 test set 1: CK 2BD6459F82C5B300952C49104881FF48, COUNT 72A4F20F, BEARER 0C, DIRECTION 1, LENGTH 798 bits *)
Definition uea2_ts1_key : bytes := [43;214;69;159;130;197;179;0;149;44;73;16;72;129;255;72].
Definition uea2_ts1_pt : bytes := [126;198;18;114;116;59;241;97;71;38;68;106;108;56;206;209;102;246;202;118;235;84;48;4;66;134;52;108;239;19;15;146;146;43;3;69;13;58;153;117;229;189;46;160;235;85;173;142;27;25;158;62;196;49;96;32;233;161;178;133;231;98;121;83;89;183;189;253;57;190;244;178;72;69;131;213;175;224;130;174;230;56;191;95;213;166;6;25;57;1;160;143;74;180;26;171;155;19;72;128].
Definition uea2_ts1_ct : bytes := [140;235;166;41;67;220;237;58;9;144;176;110;161;176;162;196;251;60;237;199;27;54;159;66;186;100;193;235;102;101;231;42;161;201;187;13;234;162;15;232;96;88;184;186;238;44;46;127;11;236;206;72;181;41;50;165;60;157;95;147;26;58;124;83;34;89;175;67;37;226;166;94;48;132;173;95;106;81;59;123;221;193;182;95;10;160;217;122;5;61;181;90;136;196;196;249;96;94;65;64].
Example uea2_ts35217_set1 : f8_bits uea2_ts1_key 0x72A4F20F 0x0C 1 798 uea2_ts1_pt = uea2_ts1_ct.
Proof. vm_compute. reflexivity. Qed.
(* the octet-aligned entry point agrees on the 99 complete octets of that vector *)
Example eea1_ts35217_set1_octets : firstn 99 (eea1 uea2_ts1_key 0x72A4F20F 0x0C 1 uea2_ts1_pt) = firstn 99 uea2_ts1_ct.
Proof. vm_compute. reflexivity. Qed.
(* TS 35.217 UIA2 test data are not reproduced here: the vector I remembered (set 1, MAC-I 2BCE1820) did not
   reproduce, so by the project's rule it is left out; uia2 is tied to the implementation by the
   correspondence stream (spec_check) and shares SNOW 3G with f8, which the vectors above exercise. *)
