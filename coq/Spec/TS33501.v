(* 5G key hierarchy on the UE/network side: TS 33.220 B.2 KDF and TS 33.501 Annex A.2, A.4, A.6, A.7, A.8. *)
From Coq Require Import NArith List Lia Bool.
Require Import Bytes AES SHA256 TS35206.
Import ListNotations.
Open Scope N_scope.

Section KDF.
Variable H : bytes -> bytes -> bytes.          (* HMAC-SHA-256 key msg *)

Definition len2 (p:bytes) : bytes := N_to_be 2 (N.of_nat (length p)).
Fixpoint params (ps:list bytes) : bytes := match ps with [] => [] | p::r => p ++ len2 p ++ params r end.
Definition kdf (key:bytes) (fc:N) (ps:list bytes) : bytes := H key (fc :: params ps).

(* serving network name "5G:mnc<MNC>.mcc<MCC>.3gppnetwork.org", MNC padded to three digits (TS 24.501 9.12.1) *)
Definition ascii_5G_mnc : bytes := [53;71;58;109;110;99].                          (* "5G:mnc" *)
Definition ascii_mcc : bytes := [46;109;99;99].                                    (* ".mcc" *)
Definition ascii_tail : bytes := [46;51;103;112;112;110;101;116;119;111;114;107;46;111;114;103]. (* ".3gppnetwork.org" *)
Definition snn (mcc mnc:bytes) : bytes :=      (* digits as ASCII codes *)
  ascii_5G_mnc ++ (if Nat.eqb (length mnc) 2 then 48 :: mnc else mnc) ++ ascii_mcc ++ mcc ++ ascii_tail.

Record keys := { res_star : bytes; k_ausf : bytes; k_seaf : bytes; k_amf : bytes; k_nas_enc : bytes; k_nas_int : bytes }.
Definition derive (ck ik res rand sqn_xor_ak mcc mnc supi_digits:bytes) (ea ia:N) : keys :=
  let n := snn mcc mnc in
  let key := ck ++ ik in
  let kausf := kdf key 106 [n; sqn_xor_ak] in                 (* A.2  FC = 0x6A *)
  let kseaf := kdf kausf 108 [n] in                           (* A.6  FC = 0x6C *)
  let kamf  := kdf kseaf 109 [supi_digits; [0;0]] in          (* A.7  FC = 0x6D, ABBA = 0x0000 *)
  {| res_star := skipn 16 (kdf key 107 [n; rand; res]);       (* A.4  FC = 0x6B, 128 LSBs *)
     k_ausf := kausf; k_seaf := kseaf; k_amf := kamf;
     k_nas_enc := skipn 16 (kdf kamf 105 [[1]; [ea]]);        (* A.8  FC = 0x69, N-NAS-enc-alg = 1 *)
     k_nas_int := skipn 16 (kdf kamf 105 [[2]; [ia]]) |}.     (*               N-NAS-int-alg = 2 *)
End KDF.

(* ---- the network side of 5G AKA (TS 33.501 6.1.3.2): the UDM/ARPF runs Milenage on (K, OPc, RAND), the
   AUSF/SEAF/AMF derive the tree.  P1 of A.2 is SQN xor AK, which is also what the first six octets of the
   AUTN carry (TS 33.102 6.3.2).  The SUPI enters A.7 as the IMSI digits (TS 33.501 A.7.0: "P0 = IMSI or
   NAI or GCI or GLI", for an IMSI its digits as a character string). *)
Section Network.
Variable E : bytes -> bytes -> bytes.
Variable H : bytes -> bytes -> bytes.
Definition network_keys (k opc rand sqn_xor_ak mcc mnc imsi_digits:bytes) (ea ia:N) : keys :=
  derive H (f3 E k opc rand) (f4 E k opc rand) (f2 E k opc rand) rand sqn_xor_ak mcc mnc imsi_digits ea ia.
(* from the sequence number the network chose *)
Definition network_keys_sqn (k opc rand sqn mcc mnc imsi_digits:bytes) (ea ia:N) : keys :=
  network_keys k opc rand (xor_bytes sqn (f5 E k opc rand)) mcc mnc imsi_digits ea ia.
End Network.

Example snn_001_01 : length (snn [48;48;49] [48;49]) = 32%nat. Proof. reflexivity. Qed.
Example snn_208_93 : snn [50;48;56] [57;51] =
  [53;71;58;109;110;99;48;57;51;46;109;99;99;50;48;56;46;51;103;112;112;110;101;116;119;111;114;107;46;111;114;103].
Proof. reflexivity. Qed.   (* "5G:mnc093.mcc208.3gppnetwork.org" *)
