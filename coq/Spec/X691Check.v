(* Checkers evaluated by vm_compute over generated cases: observable of the Go code vs the X.691 specification. *)
From Coq Require Import NArith ZArith List Bool String.
Require Import Bits GoSlice Asn1 X691 AperCommon AperEnc Asn1Tags AperCheck.
Import ListNotations.
Open Scope N_scope.

Inductive spec_verdict := SVBytes (bs : list N) | SVRefuse | SVSkip.

(* what X.691 / TS 38.413 prescribe for MarshalWithParams(t, p, v) *)
Definition spec_encode (t : ty) (p : params) (v : val) : spec_verdict :=
  match tags_to_asn1 t p, abs t p v with
  | Some at', Some av =>
      match x691 at' av 0 with
      | XOk b => SVBytes (pack b)
      | XViolation => SVRefuse
      | XOutside => SVSkip
      end
  | _, _ => SVSkip
  end.

Definition enc_spec_check (c : enc_case) : bool :=
  let '(t, p, v, o) := c in
  match spec_encode t p v, o with
  | SVBytes bs, EOk bs' => list_eqb bs bs'
  | SVBytes _, _ => false
  | SVRefuse, EErr _ => true
  | SVRefuse, _ => false
  | SVSkip, _ => true
  end.
Definition enc_spec_out (c : enc_case) : spec_verdict := let '(t, p, v, _) := c in spec_encode t p v.

(* a canonical encoding produced outside (Python reference) is what the Coq specification prescribes *)
Definition canon_case := (ty * params * val * list N)%type.
Definition canon_spec_check (c : canon_case) : bool :=
  let '(t, p, v, bs) := c in
  match spec_encode t p v with SVBytes bs' => list_eqb bs bs' | _ => false end.

Require Import NgapGolden.
Definition golden_root (n : string) : ty * params * params := find_root n golden_roots_full.
(* strict: a value the specification side cannot interpret counts as a failure (and must be classified) *)
Definition ngap_enc_spec_check (c : ngap_ecase) : bool :=
  let '(n, v, o) := c in
  match spec_encode (fst (fst (golden_root n))) (snd (fst (golden_root n))) v with
  | SVSkip => false
  | _ => enc_spec_check (fst (fst (golden_root n)), snd (fst (golden_root n)), v, o)
  end.
Definition ngap_enc_spec_out (c : ngap_ecase) : spec_verdict :=
  let '(n, v, o) := c in spec_encode (fst (fst (golden_root n))) (snd (fst (golden_root n))) v.
Definition ngap_canon_spec_check (c : ngap_ccase) : bool :=
  let '(n, v, bs, _) := c in canon_spec_check (fst (fst (golden_root n)), snd (fst (golden_root n)), v, bs).
