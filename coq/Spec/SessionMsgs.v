(* The network side of PDU session establishment, as ENCODERS written from the standards
   (what a conformant AMF/SMF puts on the wire), used as the oracle for C12:

   TS 24.007 11.2 information element formats: TV (half octet), TV, TLV, TLV-E;
   TS 24.501 8.2.11 DL NAS TRANSPORT:  EPD 7E | sec hdr 0 | type 68 | payload container type (half octet + spare)
        | payload container LV-E | optional IEs;
   TS 24.501 8.3.2 PDU SESSION ESTABLISHMENT ACCEPT:  EPD 2E | PDU session ID | PTI | type C2
        | selected SSC mode + selected PDU session type (one octet) | authorized QoS rules LV-E | session-AMBR LV (6)
        | optional IEs, among them 29 PDU address (TLV: length, PDU session type value, address);
   TS 24.501 9.1.1: a security protected message = EPD 7E | security header type | MAC (4) | SQN (1) | plain message;
   TS 38.413 9.3.4.1 PDUSessionResourceSetupRequestTransfer in aligned PER (X.691): extension bit + padding (1 octet),
        ProtocolIE-Container count (2 octets), then per IE: id (2 octets), criticality (1 octet), open-type length
        (1 octet below 128) and value; IE 139 UL-NGU-UP-TNLInformation = CHOICE gTPTunnel (index bit 0) of SEQUENCE
        (extension bit 0, no iE-Extensions: 0) { TransportLayerAddress BIT STRING SIZE(1..160,...) (extension bit 0,
        length-1 in 8 bits, contents octet aligned), GTP-TEID OCTET STRING SIZE(4) (aligned) }:
        for a 32-bit address the value is  01 F0 | address (4) | TEID (4). *)
From Coq Require Import NArith List Bool.
Import ListNotations.
Open Scope N_scope.

Definition len1 (v:list N) : list N := [N.of_nat (length v)].
Definition len2 (v:list N) : list N := let n := N.of_nat (length v) in [n / 256; n mod 256].

Inductive ie :=
| TV1 (iei_hi v:N)             (* type 1: IEI in bits 8-5, value in bits 4-1 *)
| TVn (iei:N) (v:list N)       (* type 3: IEI, fixed-length value *)
| TLV (iei:N) (v:list N)       (* type 4 *)
| TLVE (iei:N) (v:list N).     (* type 6 *)
Definition enc_ie (i:ie) : list N :=
  match i with
  | TV1 h v => [h * 16 + v]
  | TVn i v => i :: v
  | TLV i v => i :: len1 v ++ v
  | TLVE i v => i :: len2 v ++ v
  end.
Definition enc_ies (l:list ie) : list N := flat_map enc_ie l.

(* optional IEs of the ACCEPT other than the PDU address, with the formats of table 8.3.2.1.1
   (Rel-15: 59 56 22 8- 75 78 79 7B 25; Rel-16 adds 17 18 77 66 1F C-) *)
Definition accept_opt_ok (i:ie) : bool :=
  match i with
  | TV1 h v => ((h =? 8) || (h =? 12)) && (v <? 16)
  | TVn i v => ((i =? 89) && Nat.eqb (length v) 1) || ((i =? 86) && Nat.eqb (length v) 1)
               || ((i =? 24) && Nat.eqb (length v) 3) || ((i =? 31) && Nat.eqb (length v) 2)
  | TLV i v => ((i =? 34) || (i =? 37) || (i =? 23) || (i =? 102)) && (N.of_nat (length v) <? 256)
  | TLVE i v => ((i =? 117) || (i =? 120) || (i =? 121) || (i =? 123) || (i =? 119)) && (N.of_nat (length v) <? 65536)
  end.

Definition pdu_address_v4 (a:list N) : list N := [41; 5; 1] ++ a.       (* IEI 29, length 5, type IPv4 *)

Definition est_accept (psi pti ssc_type:N) (qos ambr:list N) (pre:list ie) (addr:list N) (post:list N) : list N :=
  [46; psi; pti; 194; ssc_type] ++ len2 qos ++ qos ++ len1 ambr ++ ambr ++ enc_ies pre ++ pdu_address_v4 addr ++ post.
Definition dl_nas_transport (pct:N) (container trailing:list N) : list N :=
  [126; 0; 104; pct] ++ len2 container ++ container ++ trailing.
Definition protected (sht:N) (mac:list N) (sqn:N) (plain:list N) : list N := [126; sht] ++ mac ++ [sqn] ++ plain.

(* transfer *)
Definition pie (id crit:N) (value:list N) : list N := [id / 256; id mod 256; crit] ++ len1 value ++ value.
Definition gtp_tunnel_v4 (addr teid:list N) : list N := [1; 240] ++ addr ++ teid.
Definition setup_request_transfer (pre:list (N * N * list N)) (addr teid:list N) (post:list N) : list N :=
  let n := N.of_nat (length pre) + 1 in      (* at least; the count octets are not looked at by the extractor *)
  [0; n / 256; n mod 256] ++ flat_map (fun p => pie (fst (fst p)) (snd (fst p)) (snd p)) pre
  ++ pie 139 0 (gtp_tunnel_v4 addr teid) ++ post.
Definition transfer_pre_ok (p:N * N * list N) : bool :=
  let '(id, crit, v) := p in (id <? 65536) && negb (id =? 139) && (N.of_nat (length v) <? 128).
