(* MILENAGE (3GPP TS 35.206), written from the standard: OPc, f1, f1*, f2, f3, f4, f5, f5*.
   E is the kernel block cipher (AES-128 in the example algorithm set). Rotations are by whole octets because
   r1..r5 = 64, 0, 32, 64, 96 bits; constants c1..c5 are 128-bit values with only the low octet non-zero. *)
From Coq Require Import NArith List Lia Bool.
Require Import Bytes BytesLemmas AES.
Import ListNotations.
Open Scope N_scope.

Section Milenage.
Variable E : bytes -> bytes -> bytes.

Definition opc_of (k op:bytes) : bytes := xor_bytes (E k op) op.
Definition cconst (n:N) : bytes := repeat 0 15 ++ [n].
Definition rot_octets (r:nat) (x:bytes) : bytes := rotl_list r x.   (* cyclic rotation towards the MSB by 8r bits *)

Definition temp (k opc rand:bytes) := E k (xor_bytes rand opc).
Definition out1 (k opc rand sqn amf:bytes) : bytes :=
  let in1 := sqn ++ amf ++ sqn ++ amf in
  xor_bytes (E k (xor_bytes (xor_bytes (temp k opc rand) (rot_octets 8 (xor_bytes in1 opc))) (cconst 0))) opc.
Definition outn (r:nat) (c:N) (k opc rand:bytes) : bytes :=
  xor_bytes (E k (xor_bytes (rot_octets r (xor_bytes (temp k opc rand) opc)) (cconst c))) opc.
Definition f1  k opc rand sqn amf := firstn 8 (out1 k opc rand sqn amf).
Definition f1s k opc rand sqn amf := skipn 8 (out1 k opc rand sqn amf).
Definition f2  k opc rand := skipn 8 (outn 0 1 k opc rand).
Definition f5  k opc rand := firstn 6 (outn 0 1 k opc rand).
Definition f3  k opc rand := outn 4 2 k opc rand.
Definition f4  k opc rand := outn 8 4 k opc rand.
Definition f5s k opc rand := firstn 6 (outn 12 8 k opc rand).

(* ---- TS 33.102 6.3: authentication and key agreement built on f1..f5*

   6.3.2 (HE/AuC): AUTN = SQN xor AK || AMF || MAC, with MAC = f1_K(SQN || RAND || AMF), AK = f5_K(RAND);
   the authentication vector carries XRES = f2, CK = f3, IK = f4. *)
Definition autn (k opc rand sqn amf:bytes) : bytes :=
  xor_bytes sqn (f5 k opc rand) ++ amf ++ f1 k opc rand sqn amf.
Record av := { av_autn : bytes; av_xres : bytes; av_ck : bytes; av_ik : bytes }.
Definition generate_av (k opc rand sqn amf:bytes) : av :=
  {| av_autn := autn k opc rand sqn amf; av_xres := f2 k opc rand; av_ck := f3 k opc rand; av_ik := f4 k opc rand |}.

(* fields of a received AUTN (16 octets) *)
Definition autn_conc_sqn (a:bytes) : bytes := firstn 6 a.
Definition autn_amf (a:bytes) : bytes := firstn 2 (skipn 6 a).
Definition autn_mac (a:bytes) : bytes := skipn 8 a.

(* 6.3.3 (USIM): AK = f5_K(RAND); SQN = (SQN xor AK) xor AK; XMAC = f1_K(SQN || RAND || AMF); if XMAC differs
   from MAC: user authentication reject, abandon.  Next the USIM verifies that SQN is in the correct
   range -- here: greater than the highest value SQN_MS it has accepted (Annex C leaves finer schemes to
   the operator).  If not: synchronisation failure carrying AUTS.  Otherwise RES = f2, CK = f3, IK = f4. *)
Definition sqn_val (s:bytes) : N := be_to_N s.                (* the 48-bit sequence number *)
Definition autn_sqn (k opc rand a:bytes) : bytes := xor_bytes (autn_conc_sqn a) (f5 k opc rand).
Definition mac_valid (k opc rand a:bytes) : bool :=
  bytes_eqb (f1 k opc rand (autn_sqn k opc rand a) (autn_amf a)) (autn_mac a).
Definition sqn_fresh (k opc rand a sqn_ms:bytes) : bool := sqn_val sqn_ms <? sqn_val (autn_sqn k opc rand a).

(* 6.3.3: AUTS = Conc(SQN_MS) || MAC-S, Conc(SQN_MS) = SQN_MS xor f5*_K(RAND),
   MAC-S = f1*_K(SQN_MS || RAND || AMF) with the dummy AMF of all zeros *)
Definition auts (k opc rand sqn_ms:bytes) : bytes :=
  xor_bytes sqn_ms (f5s k opc rand) ++ f1s k opc rand sqn_ms [0;0].

Inductive usim_outcome := Accept (res ck ik:bytes) | MacFailure | SyncFailure (auts:bytes).
Definition usim_check (k opc rand a sqn_ms:bytes) : usim_outcome :=
  if negb (mac_valid k opc rand a) then MacFailure
  else if negb (sqn_fresh k opc rand a sqn_ms) then SyncFailure (auts k opc rand sqn_ms)
  else Accept (f2 k opc rand) (f3 k opc rand) (f4 k opc rand).
(* the accepting condition alone (what "accepts exactly valid AUTNs" refers to) *)
Definition usim_accepts (k opc rand a sqn_ms:bytes) : bool :=
  mac_valid k opc rand a && sqn_fresh k opc rand a sqn_ms.

(* 6.3.5 (HE/AuC on a synchronisation failure): retrieve SQN_MS = Conc(SQN_MS) xor f5*_K(RAND) and accept it
   iff MAC-S verifies; Some SQN_MS / None *)
Definition auts_check (k opc rand t:bytes) : option bytes :=
  let sqn_ms := xor_bytes (firstn 6 t) (f5s k opc rand) in
  if bytes_eqb (f1s k opc rand sqn_ms [0;0]) (skipn 6 t) then Some sqn_ms else None.
End Milenage.

(* TS 35.208 test set 1 *)
Definition k1   : bytes := [70;91;92;232;177;153;180;159;170;95;10;46;226;56;166;188].
Definition rnd1 : bytes := [35;85;60;190;150;55;168;157;33;138;230;77;174;71;191;53].
Definition sqn1 : bytes := [255;155;180;208;182;7].
Definition amf1 : bytes := [185;185].
Definition op1  : bytes := [205;194;2;213;18;62;32;246;43;109;103;106;199;44;179;24].
Definition opc1 : bytes := [205;99;203;113;149;74;159;78;72;165;153;78;55;160;43;175].
Example ts35208_set1 :
  opc_of aes128 k1 op1 = opc1 /\
  f1  aes128 k1 opc1 rnd1 sqn1 amf1 = [74;159;250;195;84;223;175;179] /\
  f1s aes128 k1 opc1 rnd1 sqn1 amf1 = [1;207;175;158;196;232;113;233] /\
  f2  aes128 k1 opc1 rnd1 = [165;66;17;213;227;186;80;191] /\
  f3  aes128 k1 opc1 rnd1 = [180;11;169;163;197;139;42;5;187;240;217;135;178;27;248;203] /\
  f4  aes128 k1 opc1 rnd1 = [247;105;188;215;81;4;70;4;18;118;114;113;28;109;52;65] /\
  f5  aes128 k1 opc1 rnd1 = [170;104;156;100;131;112] /\
  f5s aes128 k1 opc1 rnd1 = [69;30;139;236;164;59].
Proof. vm_compute. repeat split; reflexivity. Qed.

(* TS 35.208 set 1 through the TS 33.102 procedures: the AUTN the network builds is accepted by a USIM
   whose SQN_MS is one less, rejected with an AUTS when it is equal, and that AUTS gives SQN_MS back *)
Definition sqn1_minus1 : bytes := [255;155;180;208;182;6].
Example ts33102_set1 :
  autn aes128 k1 opc1 rnd1 sqn1 amf1 = [85;243;40;180;53;119;185;185;74;159;250;195;84;223;175;179] /\
  usim_check aes128 k1 opc1 rnd1 (autn aes128 k1 opc1 rnd1 sqn1 amf1) sqn1_minus1
    = Accept (f2 aes128 k1 opc1 rnd1) (f3 aes128 k1 opc1 rnd1) (f4 aes128 k1 opc1 rnd1) /\
  usim_check aes128 k1 opc1 rnd1 (autn aes128 k1 opc1 rnd1 sqn1 amf1) sqn1 = SyncFailure (auts aes128 k1 opc1 rnd1 sqn1) /\
  auts_check aes128 k1 opc1 rnd1 (auts aes128 k1 opc1 rnd1 sqn1) = Some sqn1 /\
  usim_check aes128 k1 opc1 rnd1 (0 :: skipn 1 (autn aes128 k1 opc1 rnd1 sqn1 amf1)) sqn1_minus1 = MacFailure.
Proof. vm_compute. repeat split; reflexivity. Qed.
