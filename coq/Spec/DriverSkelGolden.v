(* FROZEN copy of Gen/DriverSkel.v as regenerated from the unchanged tree (pinned commit + the recorded fix: commits).
   Used by the C19 check ONLY as a fall-back when a proof obligation over the regenerated skeleton no longer checks: the
   positions at which the emulator reads a reply are then taken from here, so that the search for a failing fault does not
   rely on a skeleton that already reflects the change under suspicion. No theorem mentions this file. `./check selftest`
   compares it with the regenerated file. *)
From Coq Require Import List String.
Require Import DriverTypes.
Import ListNotations.
Open Scope string_scope.

Definition skel_ManageNGSetup : list event := [
  Ev EB true "tglib.GetNGSetupRequest";
  Ev EW true "conn.Write";
  Ev ER true "conn.Read";
  Ev ED true "ngap.Decoder"
].

Definition skel_RegisterUE : list event := [
  Ev EB true "tglib.GetInitialUEMessage";
  Ev EW true "conn.Write";
  Ev ER true "conn.Read";
  Ev ED true "ngap.Decoder";
  Ev EB false "tglib.GetUplinkNASTransport";
  Ev EW true "conn.Write";
  Ev ER true "conn.Read";
  Ev ED true "ngap.Decoder";
  Ev EB true "tglib.EncodeNasPduWithSecurity";
  Ev EB true "tglib.GetUplinkNASTransport";
  Ev EW true "conn.Write";
  Ev ER true "conn.Read";
  Ev ED true "ngap.Decoder";
  Ev EB true "tglib.GetInitialContextSetupResponse";
  Ev EW true "conn.Write";
  Ev EB true "tglib.EncodeNasPduWithSecurity";
  Ev EB true "tglib.GetUplinkNASTransport";
  Ev EW true "conn.Write";
  Ev ER true "conn.Read";
  Ev ED false "ngap.Decoder"
].

Definition skel_DeregisterUE : list event := [
  Ev EB true "tglib.EncodeNasPduWithSecurity";
  Ev EB true "tglib.GetUplinkNASTransport";
  Ev EW true "conn.Write";
  Ev ER true "conn.Read";
  Ev ED true "ngap.Decoder";
  Ev ER true "conn.Read";
  Ev ED true "ngap.Decoder";
  Ev EB true "tglib.GetUEContextReleaseComplete";
  Ev EW true "conn.Write"
].

Definition skel_EstablishPDU : list event := [
  Ev EB true "tglib.EncodeNasPduWithSecurity";
  Ev EB true "tglib.GetUplinkNASTransport";
  Ev EW true "conn.Write";
  Ev ER true "conn.Read";
  Ev ED true "ngap.Decoder";
  Ev EB true "tglib.GetPDUSessionResourceSetupResponse";
  Ev EW true "conn.Write"
].

Definition skel_ReleasePDU : list event := [
  Ev EB true "tglib.EncodeNasPduWithSecurity";
  Ev EB true "tglib.GetUplinkNASTransport";
  Ev EW true "conn.Write";
  Ev EB true "tglib.GetPDUSessionResourceReleaseResponse";
  Ev EW true "conn.Write";
  Ev EB true "tglib.EncodeNasPduWithSecurity";
  Ev EB true "tglib.GetUplinkNASTransport";
  Ev EW true "conn.Write"
].

Definition skel_ModifyPDU : list event := [
  Ev EB true "tglib.EncodeNasPduWithSecurity";
  Ev EB true "tglib.GetUplinkNASTransport";
  Ev EW true "conn.Write";
  Ev ER true "conn.Read"
].

Definition skel_ServiceRequest : list event := [
  Ev EB true "tglib.EncodeNasPduWithSecurity";
  Ev EB true "tglib.GetInitialUEMessage";
  Ev EW true "conn.Write";
  Ev ER true "conn.Read";
  Ev ED true "ngap.Decoder";
  Ev EB false "tglib.GetInitialContextSetupResponseForServiceRequest";
  Ev EW true "conn.Write"
].

Definition driver_skeletons : list (string * list event) := [
  ("DeregisterUE", skel_DeregisterUE);
  ("EstablishPDU", skel_EstablishPDU);
  ("ManageNGSetup", skel_ManageNGSetup);
  ("ModifyPDU", skel_ModifyPDU);
  ("RegisterUE", skel_RegisterUE);
  ("ReleasePDU", skel_ReleasePDU);
  ("ServiceRequest", skel_ServiceRequest)
].
