(* What the documentation promises about the configuration file and the command line (README.md and the
   shipped src/config.yaml), written without looking at the code:
   - the 24 keys under `configuration:` with the kind of value each takes;
   - which procedure parameter each key feeds (README section 3 "Configure STGUTG": AMF/gNB addresses and ports for the
     N2 association, PLMN/IMSI/keys for the UE and gNB identity, slice for the sessions, interfaces for traffic mode,
     ue_number for traffic mode, the five repetition counts for test mode);
   - "stgutgmain" = traffic mode, "stgutgmain -t" = testing mode, nothing else is a mode. *)
From Coq Require Import List String Bool.
Import ListNotations.
Open Scope string_scope.

Inductive vkind := KString | KInt.
(* consumer: procedure name and 0-based argument position; CBound m = upper bound of a loop of mode m *)
Inductive consumer := CArg (proc:string) (pos:nat).

Definition documented_keys : list (string * vkind * list consumer) := [
  ("amf_ngap_ip",    KString, [CArg "tglib.ConnectToAmf" 0]);
  ("amf_ngap_port",  KInt,    [CArg "tglib.ConnectToAmf" 2]);
  ("gnb_gtp_ip",     KString, [CArg "stgutg.EstablishPDU" 4; CArg "stgutg.ServiceRequest" 3]);
  ("stg_ngap_ip",    KString, [CArg "tglib.ConnectToAmf" 1]);
  ("stg_ngap_port",  KInt,    [CArg "tglib.ConnectToAmf" 3]);
  ("gnb_id",         KString, [CArg "stgutg.ManageNGSetup" 1]);
  ("gnb_bitlength",  KInt,    [CArg "stgutg.ManageNGSetup" 4]);
  ("gnb_name",       KString, [CArg "stgutg.ManageNGSetup" 5]);
  ("initial_imsi",   KString, [CArg "stgutg.ManageNGSetup" 2; CArg "stgutg.CreateUE" 0]);
  ("mcc",            KString, [CArg "stgutg.RegisterUE" 2]);
  ("mnc",            KString, [CArg "stgutg.ManageNGSetup" 3; CArg "stgutg.RegisterUE" 1; CArg "stgutg.DeregisterUE" 1]);
  ("k",              KString, [CArg "stgutg.CreateUE" 2]);
  ("opc",            KString, [CArg "stgutg.CreateUE" 3]);
  ("op",             KString, [CArg "stgutg.CreateUE" 4]);
  ("sst",            KInt,    [CArg "stgutg.EstablishPDU" 0; CArg "stgutg.ReleasePDU" 0]);
  ("sd",             KString, [CArg "stgutg.EstablishPDU" 1; CArg "stgutg.ReleasePDU" 1]);
  ("downlink_iface", KString, [CArg "net.InterfaceByName" 0]);
  ("uplink_iface",   KString, [CArg "net.InterfaceByName" 0]);
  ("ue_number",      KInt,    []);
  ("ue_registration",   KInt, []);
  ("ue_pdu",            KInt, []);
  ("ue_service",        KInt, []);
  ("ue_pdu_release",    KInt, []);
  ("ue_deregistration", KInt, [])
].

(* repetition counts (documented: "Number of repetitions for each test (Test mode)", "Number of UEs to use in
   traffic mode"): which key bounds which procedure's loop; later procedures are additionally limited to the
   UEs that completed their prerequisite *)
Definition documented_loops_test_mode : list (string * string) := [
  ("stgutg.RegisterUE", "ue_registration"); ("stgutg.EstablishPDU", "ue_pdu"); ("stgutg.ServiceRequest", "ue_service");
  ("stgutg.ReleasePDU", "ue_pdu_release"); ("stgutg.DeregisterUE", "ue_deregistration") ].
Definition documented_loop_traffic_mode : string * string := ("stgutg.RegisterUE", "ue_number").
(* "Number of repetitions for each test (Test mode)": each test is repeated as many times as its own key says, limited
   only by the number of UEs that completed its prerequisite (a session needs a registered UE; service request and
   release need a session; deregistration needs a registered UE).  So the number of repetitions of each procedure is
   the minimum of exactly these keys, and of no other. *)
Definition documented_repetitions_test_mode : list (string * list string) := [
  ("stgutg.RegisterUE", ["ue_registration"]);
  ("stgutg.EstablishPDU", ["ue_registration"; "ue_pdu"]);
  ("stgutg.ServiceRequest", ["ue_registration"; "ue_pdu"; "ue_service"]);
  ("stgutg.ReleasePDU", ["ue_registration"; "ue_pdu"; "ue_pdu_release"]);
  ("stgutg.DeregisterUE", ["ue_registration"; "ue_deregistration"]) ].

(* command line: argv without the program name *)
Inductive mode := TrafficMode | TestMode | NoMode.
Definition documented_mode (argv:list string) : mode :=
  match argv with
  | [] => TrafficMode
  | [a] => if string_dec a "-t" then TestMode else NoMode
  | _ => NoMode
  end.
