(* TS 24.501 / TS 24.007 reference codec, driven by the tables of TS24501Tables.v and independent of the Go
   library: information elements of format V, LV, LV-E, TV (half-octet IEI), TV, TLV, TLV-E (TS 24.007 11.2.1.1),
   mandatory part in table order, optional part recognised by IEI in any order, unknown IEIs skipped by the
   comprehension rules of TS 24.007 11.2.4 (bit 8 set: one octet; 0111xxxx: TLV-E; otherwise TLV).
   Values are the generic [fval]s of Lib/NasValue.v: (present, IEI, length value, content octets); for a
   half-octet TV the content is the whole octet and the IEI its high nibble. *)
From Coq Require Import NArith List Bool String.
Require Import Bytes NasValue TS24501Tables.
Import ListNotations.
Open Scope string_scope.
Open Scope list_scope.
Open Scope N_scope.

(* one unit of the wire: two consecutive half-octet V elements share an octet *)
Inductive unit_kind :=
| UV (n:N)                            (* n value octets *)
| ULV (lw:nat) (lo:N) (hi:option N)   (* lw length octets; lo/hi bounds on the value length *)
| UThalf                              (* IEI nibble + value nibble *)
| UTV (n:N)                           (* IEI + n value octets *)
| UTLV (lw:nat) (lo:N) (hi:option N). (* IEI + lw length octets + value *)
Record unit_row := mk_unit { u_iei : N; u_name : string; u_kind : unit_kind; u_uncertain : bool }.

Definition hi_minus (hi:option N) (k:N) : option N := match hi with Some h => Some (h - k) | None => None end.

Definition unit_of_row (r:ie_row) : option unit_row :=
  let mk k := Some (mk_unit (r_iei r) (r_name r) k (r_uncertain r)) in
  match r_fmt r with
  | F_V n => mk (UV n)
  | F_Vhalf => None
  | F_LV lo hi => mk (ULV 1 (lo - 1) (hi_minus hi 1))
  | F_LVE lo hi => mk (ULV 2 (lo - 2) (hi_minus hi 2))
  | F_TVhalf => mk UThalf
  | F_TV n => mk (UTV (n - 1))
  | F_TLV lo hi => mk (UTLV 1 (lo - 2) (hi_minus hi 2))
  | F_TLVE lo hi => mk (UTLV 2 (lo - 3) (hi_minus hi 3))
  end.

(* mandatory part: pairs of half octets become one octet; an unpaired half octet is a table error *)
Fixpoint mand_units (rs:list ie_row) : option (list unit_row) :=
  match rs with
  | [] => Some []
  | a :: rest =>
      match r_fmt a, rest with
      | F_Vhalf, b :: rest' =>
          match r_fmt b, mand_units rest' with
          | F_Vhalf, Some us => Some (mk_unit 0 (String.append (r_name a) (String.append " + " (r_name b))) (UV 1) (r_uncertain a || r_uncertain b) :: us)
          | _, _ => None end
      | F_Vhalf, [] => None
      | _, _ => match unit_of_row a, mand_units rest with Some u, Some us => Some (u :: us) | _, _ => None end
      end
  end.
Fixpoint opt_units (rs:list ie_row) : option (list unit_row) :=
  match rs with
  | [] => Some []
  | a :: rest => match r_fmt a with
                 | F_V _ | F_Vhalf | F_LV _ _ | F_LVE _ _ => None     (* not an optional format *)
                 | _ => match unit_of_row a, opt_units rest with Some u, Some us => Some (u :: us) | _, _ => None end
                 end
  end.

Definition find_table (epd ty:N) : option msg_table :=
  find (fun t => (tb_epd t =? epd) && (tb_type t =? ty)) ts24501_tables.

(* ---------------------------------------------------------------- encoder *)
Definition len_octets (lw:nat) (l:N) : bytes :=
  match lw with 1%nat => [l] | 2%nat => [l / 256; l mod 256] | _ => [] end.
Definition within (n lo:N) (hi:option N) : bool :=
  (lo <=? n) && match hi with Some h => n <=? h | None => true end.
Definition octets_lt256 (b:bytes) : bool := forallb (fun x => x <? 256) b.

Definition ref_enc_unit (u:unit_row) (v:fval) : res bytes :=
  let b := fv_body v in
  let n := N.of_nat (List.length b) in
  if negb (octets_lt256 b) then Err "octet out of range" else
  match u_kind u with
  | UV k => if n =? k then Ok b else Err "V: wrong size"
  | ULV lw lo hi =>
      if within n lo hi && (fv_len v =? n) && (n <? (if Nat.eqb lw 1 then 256 else 65536))
      then Ok (len_octets lw (fv_len v) ++ b) else Err "LV: length"
  | UThalf => match b with [o] => if (o / 16 =? u_iei u) && (fv_iei v =? u_iei u) then Ok [o] else Err "TV 1/2: IEI nibble"
                      | _ => Err "TV 1/2: one octet" end
  | UTV k => if (n =? k) && (fv_iei v =? u_iei u) then Ok (u_iei u :: b) else Err "TV: size/IEI"
  | UTLV lw lo hi =>
      if within n lo hi && (fv_len v =? n) && (fv_iei v =? u_iei u) && (n <? (if Nat.eqb lw 1 then 256 else 65536))
      then Ok (u_iei u :: len_octets lw (fv_len v) ++ b) else Err "TLV: length/IEI"
  end.

Fixpoint ref_enc_mand (us:list unit_row) (vs:list fval) : res bytes :=
  match us, vs with
  | [], [] => Ok []
  | u :: us', v :: vs' =>
      if fv_present v then bind (ref_enc_unit u v) (fun a => bind (ref_enc_mand us' vs') (fun b => Ok (a ++ b)))
      else Err "mandatory IE missing"
  | _, _ => Err "number of mandatory values"
  end.
Fixpoint ref_enc_opt (us:list unit_row) (vs:list fval) : res bytes :=
  match us, vs with
  | [], [] => Ok []
  | u :: us', v :: vs' =>
      bind (if fv_present v then ref_enc_unit u v else Ok []) (fun a => bind (ref_enc_opt us' vs') (fun b => Ok (a ++ b)))
  | _, _ => Err "number of optional values"
  end.

(* values: one per mandatory unit (header included), one per optional row ([absent] when not sent) *)
Definition ref_encode (t:msg_table) (mand opt:list fval) : res bytes :=
  match mand_units (tb_mand t), opt_units (tb_opt t) with
  | Some mu, Some ou => bind (ref_enc_mand mu mand) (fun a => bind (ref_enc_opt ou opt) (fun b => Ok (a ++ b)))
  | _, _ => Err "table" end.

(* ---------------------------------------------------------------- parser *)
Definition split_at (n:N) (bs:bytes) : option (bytes * bytes) :=
  if n <=? N.of_nat (List.length bs) then Some (firstn (N.to_nat n) bs, skipn (N.to_nat n) bs) else None.
Definition read_len (lw:nat) (bs:bytes) : option (N * bytes) :=
  match lw, bs with
  | 1%nat, l :: r => Some (l, r)
  | 2%nat, h :: l :: r => Some (h * 256 + l, r)
  | _, _ => None end.

(* the value part of a unit, the IEI (if any) already consumed *)
Definition ref_parse_value (u:unit_row) (first:N) (bs:bytes) : res (fval * bytes) :=
  match u_kind u with
  | UV k => match split_at k bs with Some (b, r) => Ok (mk_fval true 0 0 b, r) | None => Err "V: truncated" end
  | UThalf => Ok (mk_fval true (u_iei u) 0 [first], bs)
  | UTV k => match split_at k bs with Some (b, r) => Ok (mk_fval true (u_iei u) 0 b, r) | None => Err "TV: truncated" end
  | ULV lw lo hi | UTLV lw lo hi =>
      match read_len lw bs with
      | None => Err "length truncated"
      | Some (l, r) =>
          match split_at l r with
          | None => Err "value truncated"
          | Some (b, r') =>
              if within l lo hi
              then Ok (mk_fval true (match u_kind u with UTLV _ _ _ => u_iei u | _ => 0 end) l b, r')
              else Err "length outside the bounds of the table"
          end
      end
  end.

Fixpoint ref_parse_mand (us:list unit_row) (bs:bytes) : res (list fval * bytes) :=
  match us with
  | [] => Ok ([], bs)
  | u :: us' => bind (ref_parse_value u 0 bs) (fun r => bind (ref_parse_mand us' (snd r)) (fun r' => Ok (fst r :: fst r', snd r')))
  end.

Definition unit_matches (iei:N) (u:unit_row) : bool :=
  match u_kind u with
  | UThalf => (128 <=? iei) && (iei / 16 =? u_iei u)
  | _ => (iei <? 128) && (iei =? u_iei u)
  end.
(* optional IEs are collected in a log keyed by (IEI, half-octet or not); the first occurrence of an IE wins *)
Definition unit_key (u:unit_row) : N := match u_kind u with UThalf => u_iei u + 1000 | _ => u_iei u end.
Fixpoint lookupK (k:N) (l:list (N * fval)) : option fval :=
  match l with [] => None | (k', v) :: r => if k =? k' then Some v else lookupK k r end.
Definition log_first (k:N) (v:fval) (log:list (N * fval)) : list (N * fval) :=
  match lookupK k log with Some _ => log | None => (k, v) :: log end.

Fixpoint ref_parse_opt (fuel:nat) (us:list unit_row) (log:list (N * fval)) (bs:bytes) : res (list (N * fval)) :=
  match bs with
  | [] => Ok log
  | iei :: rest =>
      match fuel with
      | O => OutOfFuel
      | S fuel' =>
          match find (unit_matches iei) us with
          | Some u =>
              bind (ref_parse_value u iei rest) (fun r => ref_parse_opt fuel' us (log_first (unit_key u) (fst r) log) (snd r))
          | None =>
              (* TS 24.007 11.2.4: unknown IE *)
              if iei <? 16 then Err "comprehension required"
              else if 128 <=? iei then ref_parse_opt fuel' us log rest
              else let lw := if (112 <=? iei) then 2%nat else 1%nat in
                   match read_len lw rest with
                   | None => Err "unknown IE: length truncated"
                   | Some (l, r) => match split_at l r with
                                    | Some (_, r') => ref_parse_opt fuel' us log r'
                                    | None => Err "unknown IE: value truncated" end
                   end
          end
      end
  end.

(* result: the mandatory values in order, and one value per optional row ([absent] when not received) *)
Definition ref_parse (t:msg_table) (bs:bytes) : res (list fval * list fval) :=
  match mand_units (tb_mand t), opt_units (tb_opt t) with
  | Some mu, Some ou =>
      bind (ref_parse_mand mu bs) (fun r =>
      bind (ref_parse_opt (List.length (snd r)) ou [] (snd r)) (fun log =>
      Ok (fst r, map (fun u => match lookupK (unit_key u) log with Some v => v | None => absent end) ou)))
  | _, _ => Err "table" end.

(* dispatch on EPD and message type *)
Definition ref_parse_any (bs:bytes) : res (msg_table * (list fval * list fval)) :=
  match bs with
  | epd :: _ =>
      let ty := if epd =? EPD_5GMM then nth 2 bs 0 else nth 3 bs 0 in
      match find_table epd ty with
      | Some t => bind (ref_parse t bs) (fun r => Ok (t, r))
      | None => Err "message type not defined" end
  | [] => Err "empty" end.

(* the tables themselves are usable: every row has a format allowed at its place, IEIs are distinct per message *)
Fixpoint nodupN (l:list N) : bool := match l with [] => true | x :: r => negb (existsb (N.eqb x) r) && nodupN r end.
Definition table_ok (t:msg_table) : bool :=
  match mand_units (tb_mand t), opt_units (tb_opt t) with
  | Some _, Some ou =>
      nodupN (map unit_key ou) &&
      forallb (fun u => match u_kind u with UThalf => (8 <=? u_iei u) && (u_iei u <? 16) | _ => (16 <=? u_iei u) && (u_iei u <? 128) end) ou
  | _, _ => false end.

Example tables_ok : forallb table_ok ts24501_tables = true /\ List.length ts24501_tables = 44%nat.
Proof. split; vm_compute; reflexivity. Qed.

(* TS 24.501 example: AUTHENTICATION REQUEST with ngKSI 0, ABBA 0000, RAND, AUTN *)
Example ref_auth_request :
  let rand := repeat 17 16 in let autn := repeat 34 16 in
  match find_table EPD_5GMM 0x56 with
  | Some t =>
      ref_encode t [mk_fval true 0 0 [0x7E]; mk_fval true 0 0 [0]; mk_fval true 0 0 [0x56]; mk_fval true 0 0 [0];
                    mk_fval true 0 2 [0; 0]]
                   [mk_fval true 0x21 0 rand; mk_fval true 0x20 16 autn; absent]
      = Ok ([0x7E; 0; 0x56; 0; 2; 0; 0; 0x21] ++ rand ++ [0x20; 16] ++ autn)
  | None => False end.
Proof. vm_compute. reflexivity. Qed.
