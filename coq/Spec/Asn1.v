(* Abstract ASN.1 types and values, as far as NGAP (TS 38.413) uses them.  No Go notions here. *)
From Coq Require Import NArith ZArith List Bool.
Import ListNotations.

Inductive aty :=
| AInt (lb ub : option Z) (ext : bool)                    (* INTEGER (lb..ub[, ...]) *)
| AEnum (n : N) (ext : bool)                              (* ENUMERATED with n root enumerations, identified by index *)
| ABool
| ABits (lb : N) (ub : option N) (ext : bool)             (* BIT STRING (SIZE (lb..ub[, ...])) *)
| AOctets (lb : N) (ub : option N) (ext : bool)           (* OCTET STRING / known-multiplier-less strings coded as octets *)
| ASeq (ext : bool) (fs : list (bool * aty))              (* SEQUENCE: (OPTIONAL?, type) per component *)
| AChoice (ext : bool) (alts : list aty)                  (* CHOICE: root alternatives in index order *)
| ASeqOf (lb : N) (ub : option N) (ext : bool) (e : aty)  (* SEQUENCE (SIZE (lb..ub[, ...])) OF e *)
| AOpen (ref : nat) (alts : list (Z * aty))               (* open type constrained by a table: the sibling component
                                                             number [ref] holds the key selecting the actual type *)
| ANone.                                                  (* a type this development does not describe (OBJECT IDENTIFIER) *)

Inductive aval :=
| AVInt (z : Z)
| AVEnum (i : N)
| AVBool (b : bool)
| AVBits (bs : list bool)
| AVOctets (bs : list N)
| AVSeq (fs : list (option aval))                         (* None = OPTIONAL component absent *)
| AVChoice (idx : N) (v : aval)
| AVSeqOf (l : list aval)
| AVOpen (key : Z) (v : aval)                             (* value of the actual type registered under [key] *)
| AVInvalid.                                              (* not a value of any type (missing mandatory component, ...) *)

(* the INTEGER that identifies an information object: the component itself, or the first component /
   chosen alternative of a wrapper *)
Fixpoint key_of (v : aval) : option Z :=
  match v with
  | AVInt z => Some z
  | AVSeq (Some v' :: _) => key_of v'
  | AVChoice _ v' => key_of v'
  | _ => None
  end.
