(* TS 24.501 9.11.3.4 (5GS mobile identity, SUCI with SUPI format IMSI), written as a DECODER from the
   figure 9.11.3.4.3, and the 3-octet PLMN coding shared by TS 24.501 / TS 24.008 10.5.1.3 (and used for
   the NGAP PLMNIdentity):
     octet a   : MCC digit 2 | MCC digit 1
     octet a+1 : MNC digit 3 | MCC digit 3      (MNC digit 3 = 1111 for a two-digit MNC)
     octet a+2 : MNC digit 2 | MNC digit 1
   SUCI contents (octet 4 onwards): 0|SUPI format(3)|0|type of identity(3); PLMN (3 octets); routing
   indicator (2 octets, BCD, 1111 filler for unused digits 2-4); 0000|protection scheme id; home network
   public key id; scheme output — for the null scheme the MSIN in BCD, digit 1 in bits 4-1, 1111 filler
   in bits 8-5 of the last octet when the number of digits is odd. Digits are N below 10. *)
From Coq Require Import NArith List Bool.
Import ListNotations.
Open Scope N_scope.

Definition lo (o:N) : N := o mod 16.
Definition hi (o:N) : N := o / 16.
Definition isd (d:N) : bool := d <? 10.

Definition plmn_encode (mcc mnc:list N) : option (list N) :=
  match mcc, mnc with
  | [c1; c2; c3], [n1; n2] => Some [c2 * 16 + c1; 15 * 16 + c3; n2 * 16 + n1]
  | [c1; c2; c3], [n1; n2; n3] => Some [c2 * 16 + c1; n3 * 16 + c3; n2 * 16 + n1]
  | _, _ => None
  end.
Definition plmn_decode (o:list N) : option (list N * list N) :=
  match o with
  | [o1; o2; o3] =>
      let mcc := [lo o1; hi o1; lo o2] in
      let mnc := if hi o2 =? 15 then [lo o3; hi o3] else [lo o3; hi o3; hi o2] in
      if forallb isd (mcc ++ mnc) then Some (mcc, mnc) else None
  | _ => None
  end.

(* BCD digit string, low nibble first; a 1111 high nibble is only legal in the last octet *)
Fixpoint bcd_digits (l:list N) : option (list N) :=
  match l with
  | [] => Some []
  | [o] => if isd (lo o) then
             if hi o =? 15 then Some [lo o] else if isd (hi o) then Some [lo o; hi o] else None
           else None
  | o :: r => if isd (lo o) && isd (hi o) then
                match bcd_digits r with Some t => Some (lo o :: hi o :: t) | None => None end
              else None
  end.
(* routing indicator: 1 to 4 digits, unused ones 1111 *)
Definition ri_digits (o8 o9:N) : option (list N) :=
  let ns := [lo o8; hi o8; lo o9; hi o9] in
  let ds := filter isd ns in
  let k := length ds in
  if Nat.leb 1 k && forallb (fun x => x =? 15) (skipn k ns) && forallb isd (firstn k ns) then Some ds else None.

Record suci := { s_mcc : list N; s_mnc : list N; s_ri : list N; s_scheme : N; s_hnpk : N; s_msin : list N }.

Definition suci_decode (b:list N) : option suci :=
  match b with
  | o4 :: o5 :: o6 :: o7 :: o8 :: o9 :: o10 :: o11 :: out =>
      if (o4 mod 8 =? 1) (* type of identity = SUCI *) && ((o4 / 16) mod 8 =? 0) (* SUPI format IMSI *) then
        match plmn_decode [o5; o6; o7], ri_digits o8 o9 with
        | Some (mcc, mnc), Some ri =>
            if (hi o10 =? 0) && (lo o10 =? 0) (* null scheme *) then
              match bcd_digits out with
              | Some msin => Some {| s_mcc := mcc; s_mnc := mnc; s_ri := ri; s_scheme := lo o10; s_hnpk := o11; s_msin := msin |}
              | None => None end
            else None
        | _, _ => None end
      else None
  | _ => None
  end.

(* where the 5GS mobile identity sits in the plain messages that carry it (TS 24.501 8.2.6, 8.2.12):
   EPD 7E, security header 00, message type, one octet (ngKSI|registration type / ngKSI|de-registration type),
   then LV-E: two length octets and the contents *)
Definition be16 (a b:N) : N := a * 256 + b.
Definition mobile_identity_of (msgtype:N) (m:list N) : option (list N) :=
  match m with
  | 126 :: 0 :: mt :: _ :: l1 :: l2 :: rest =>
      if (mt =? msgtype) && (be16 l1 l2 <=? N.of_nat (length rest)) then Some (firstn (N.to_nat (be16 l1 l2)) rest) else None
  | _ => None
  end.
Definition REGISTRATION_REQUEST : N := 65.          (* 0x41 *)
Definition DEREGISTRATION_REQUEST_UE_ORIG : N := 69. (* 0x45 *)

(* ---- executable oracle used by the correspondence run: the implementation's octets are decoded by the
   decoder above and must give back the digits the IMSI was made of *)
Fixpoint eqb_l (a b:list N) : bool :=
  match a, b with [], [] => true | x::a', y::b' => (x =? y) && eqb_l a' b' | _, _ => false end.
Definition suci_is (b:list N) (mcc mnc msin:list N) : bool :=
  match suci_decode b with
  | Some s => eqb_l (s_mcc s) mcc && eqb_l (s_mnc s) mnc && eqb_l (s_msin s) msin && eqb_l (s_ri s) [0]
              && (s_scheme s =? 0) && (s_hnpk s =? 0)
  | None => false end.
Definition plmn_is (o:list N) (mcc mnc:list N) : bool :=
  match plmn_encode mcc mnc with Some e => eqb_l e o | None => false end.
