(* Reading of the Go types + `aper:"..."` tags as ASN.1 types (what the tags mean in TS 38.413 terms) and
   of Go values as ASN.1 values.  This is the bridge between the deep embedding of AperCommon.v and the
   abstract syntax of Asn1.v; X691.v never sees a Go notion. *)
From Coq Require Import NArith ZArith List Bool String.
Require Import Bits Asn1 AperCommon AperEnc.
Import ListNotations.
Open Scope N_scope.

(* a size bound: absent / a natural / ill-formed (negative) *)
Definition size_lb (z : option Z) : option N :=
  match z with None => Some 0 | Some x => if (x <? 0)%Z then None else Some (Z.to_N x) end.
Definition size_ub (z : option Z) : option (option N) :=
  match z with None => Some None | Some x => if (x <? 0)%Z then None else Some (Some (Z.to_N x)) end.

Fixpoint strip_ptr (t : ty) : ty := match t with TPtr e => strip_ptr e | _ => t end.

Fixpoint index_of (name : string) (fs : list field) (k : nat) : option nat :=
  match fs with
  | [] => None
  | f :: r => if String.eqb (f_name f) name then Some k else index_of name r (S k)
  end.

Fixpoint all_some {A} (l : list (option A)) : option (list A) :=
  match l with
  | [] => Some []
  | Some x :: r => match all_some r with Some r' => Some (x :: r') | None => None end
  | None :: _ => None
  end.

(* ANone where the tags do not describe an ASN.1 type this development knows (x691 answers XOutside for a value
   that actually reaches such a position) *)
Fixpoint t2a (fuel : nat) (t : ty) (p : params) : aty :=
  match fuel with
  | O => ANone
  | S f =>
      match t with
      | TInt => AInt (p_valueLB p) (p_valueUB p) (p_valueExt p)
      | TEnum => match p_valueLB p, p_valueUB p with
                 | Some 0%Z, Some u => if (u <? 0)%Z then ANone else AEnum (Z.to_N u + 1) (p_valueExt p)
                 | _, _ => ANone
                 end
      | TBool => ABool
      | TBits => match size_lb (p_sizeLB p), size_ub (p_sizeUB p) with
                 | Some lb, Some ub => ABits lb ub (p_sizeExt p) | _, _ => ANone end
      | TOctets | TString =>
          match size_lb (p_sizeLB p), size_ub (p_sizeUB p) with
          | Some lb, Some ub => AOctets lb ub (p_sizeExt p) | _, _ => ANone end
      | TOid => ANone
      | TPtr e => t2a f e p
      | TSlice e =>
          match size_lb (p_sizeLB p), size_ub (p_sizeUB p) with
          | Some lb, Some ub => ASeqOf lb ub (p_sizeExt p) (t2a f e (clear_size p))
          | _, _ => ANone
          end
      | TStruct fs =>
          if is_choice fs then
            if p_openType p then ANone                     (* an open type only makes sense as a SEQUENCE component *)
            else
              match p_valueUB p with
              | Some u =>
                  if (u + 1 =? Z.of_nat (List.length (tl fs)))%Z && (0 <? u + 1)%Z
                  then AChoice (p_valueExt p) (map (fun a => t2a f (f_ty a) (f_params a)) (tl fs)) else ANone
              | None => ANone
              end
          else
            ASeq (p_valueExt p)
              (map (fun a =>
                      let fp := f_params a in
                      if p_openType fp then
                        (* the open type of an information object class field: alternatives keyed by referenceFieldValue *)
                        match strip_ptr (f_ty a), index_of (p_refName fp) fs 0 with
                        | TStruct cfs, Some ref =>
                            if is_choice cfs && negb (p_valueExt fp) then
                              match all_some (map (fun c => match p_refValue (f_params c) with
                                                            | Some k => Some (k, t2a f (f_ty c) (f_params c)) | None => None end) (tl cfs)) with
                              | Some alts => (p_optional fp, AOpen ref alts)
                              | None => (p_optional fp, ANone)
                              end
                            else (p_optional fp, ANone)
                        | _, _ => (p_optional fp, ANone)
                        end
                      else (p_optional fp, t2a f (f_ty a) fp)) fs)
      end
  end.

Definition tags_to_asn1 (t : ty) (p : params) : option aty :=
  match t2a (S (ty_depth t)) t p with ANone => None | a => Some a end.

(* Go value -> ASN.1 value.  None: the Go value is not a well-formed representation at all (BitString whose
   Bytes do not match BitLength, value of the wrong shape); AVInvalid inside: no ASN.1 value corresponds
   (nil mandatory pointer, Present = 0 or out of range), which the encoder has to refuse. *)
Fixpoint abs_f (fuel : nat) (t : ty) (p : params) (v : val) : option aval :=
  match fuel with
  | O => None
  | S f =>
      match t, v with
      | TInt, VInt z => Some (AVInt z)
      | TEnum, VEnum n => Some (AVEnum n)
      | TBool, VBool b => Some (AVBool b)
      | TBits, VBits bs n =>
          if (N.of_nat (List.length bs) =? (n + 7) / 8) && forallb (fun b => b <? 256) bs
          then Some (AVBits (firstn (N.to_nat n) (bits_of_bytes bs))) else None
      | TOctets, VOctets bs | TString, VOctets bs => Some (AVOctets bs)
      | TPtr e, VPtr v' => abs_f f e p v'
      | TPtr _, VNil => Some AVInvalid
      | TSlice e, VList l =>
          match all_some (map (abs_f f e (clear_size p)) l) with Some l' => Some (AVSeqOf l') | None => None end
      | TStruct fs, VStruct vs =>
          if negb (Nat.eqb (List.length fs) (List.length vs)) then None
          else if is_choice fs then
            match vs with
            | VInt present :: _ =>
                if ((0 <? present) && (present <? Z.of_nat (List.length fs)))%Z then
                  match nth_error fs (Z.to_nat present), nth_error vs (Z.to_nat present) with
                  | Some a, Some av =>
                      match abs_f f (f_ty a) (f_params a) av with
                      | Some x => if p_openType p
                                  then match p_refValue (f_params a) with
                                       | Some k => Some (AVOpen k x) | None => Some AVInvalid end
                                  else Some (AVChoice (Z.to_N (present - 1)) x)
                      | None => None
                      end
                  | _, _ => None
                  end
                else Some AVInvalid
            | _ => None
            end
          else
            match all_some (map (fun av => let '(a, x) := av in
                                           match f_ty a, x with
                                           | TPtr _, VNil => if p_optional (f_params a) then Some None else Some (Some AVInvalid)
                                           | _, _ => match abs_f f (f_ty a) (f_params a) x with
                                                     | Some y => Some (Some y) | None => None end
                                           end) (combine fs vs)) with
            | Some cs => Some (AVSeq cs)
            | None => None
            end
      | _, _ => None
      end
  end.

Definition abs (t : ty) (p : params) (v : val) : option aval := abs_f (S (ty_depth t)) t p v.
