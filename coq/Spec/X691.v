(* ITU-T X.691, ALIGNED variant of the Packed Encoding Rules, for the types of Asn1.v.
   Written from the Recommendation; clause numbers refer to X.691 (08/2015).  Encodings are bit lists;
   [pos] is the number of bits already produced in the enclosing complete encoding (for alignment).
   Restrictions (stated, not hidden): every length determinant is below 16384 (no fragmentation, 10.9.3.8),
   no extension additions are ever present in SEQUENCE / CHOICE / ENUMERATED values. *)
From Coq Require Import NArith ZArith List Bool.
Require Import Bits Asn1.
Import ListNotations.
Open Scope N_scope.

Inductive xres :=
| XOk (b : bits)
| XViolation          (* the value is not a value of the type: nothing may be put on the wire *)
| XOutside.           (* outside the part of X.691 transcribed here (fragmented lengths, OBJECT IDENTIFIER) *)

Definition xbind (r : xres) (f : bits -> xres) : xres :=
  match r with XOk b => f b | XViolation => XViolation | XOutside => XOutside end.
Notation "'dox' x <- e ; f" := (xbind e (fun x => f)) (at level 200, x name, e at level 100, f at level 200, right associativity).

(* 10.3: minimum number of octets of a non-negative-binary-integer *)
Fixpoint octs_fuel (f : nat) (n : N) : nat :=
  match f with O => 1%nat | S f' => if n <? 256 then 1%nat else S (octs_fuel f' (n / 256)) end.
Definition octs (n : N) : nat := octs_fuel 16 n.
(* 10.4: minimum number of octets of a 2's-complement-binary-integer *)
Fixpoint octs_signed_fuel (f : nat) (k : nat) (z : Z) : nat :=
  match f with
  | O => k
  | S f' => let h := Z.pow 2 (8 * Z.of_nat k - 1) in
            if ((- h <=? z) && (z <? h))%Z then k else octs_signed_fuel f' (S k) z
  end.
Definition octs_signed (z : Z) : nat := octs_signed_fuel 16 1 z.
Definition log2up_nat (n : N) : nat := N.to_nat (N.log2_up n).

(* 10.5.7 constrained whole number (aligned): value v in a range of [range] values *)
Definition cwn (range v : N) (pos : nat) : xres :=
  if (range =? 0) || (range <=? v) then XViolation
  else if range =? 1 then XOk []                                             (* 10.5.4 *)
  else if range <=? 255 then XOk (bits_of_N (log2up_nat range) v)            (* 10.5.7.1 bit-field *)
  else if range =? 256 then XOk (align pos ++ bits_of_N 8 v)                 (* 10.5.7.2 one octet *)
  else if range <=? 65536 then XOk (align pos ++ bits_of_N 16 v)             (* 10.5.7.3 two octets *)
  else                                                                       (* 10.5.7.4 indefinite length, 12.2.6 *)
    let mx := octs (range - 1) in
    let n := octs v in
    let lbits := bits_of_N (log2up_nat (N.of_nat mx)) (N.of_nat n - 1) in
    XOk (lbits ++ align (pos + length lbits) ++ bits_of_N (8 * n) v).

(* 10.9.3.5 - 10.9.3.7 unconstrained length determinant (aligned) *)
Definition lendet (n : N) (pos : nat) : xres :=
  if n <? 128 then XOk (align pos ++ bits_of_N 8 n)
  else if n <? 16384 then XOk (align pos ++ bits_of_N 16 (32768 + n))
  else XOutside.

(* 10.8 unconstrained whole number, 12.2.4 *)
Definition unconstrained_int (z : Z) (pos : nat) : xres :=
  let k := octs_signed z in
  dox l <- lendet (N.of_nat k) pos;
  XOk (l ++ bits_of_N (8 * k) (Z.to_N (z mod Z.pow 2 (8 * Z.of_nat k)))).

(* 10.7 semi-constrained whole number, 12.2.3 *)
Definition semi_int (lb z : Z) (pos : nat) : xres :=
  if (z <? lb)%Z then XViolation
  else let v := Z.to_N (z - lb) in
       let k := octs v in
       dox l <- lendet (N.of_nat k) pos; XOk (l ++ bits_of_N (8 * k) v).

(* 12 INTEGER *)
Definition enc_int (lb ub : option Z) (ext : bool) (z : Z) (pos : nat) : xres :=
  let inroot := (match lb with Some l => (l <=? z)%Z | None => true end) && (match ub with Some u => (z <=? u)%Z | None => true end) in
  if ext && negb inroot then dox e <- unconstrained_int z (S pos); XOk (true :: e)          (* 12.1 *)
  else if negb inroot then XViolation
  else
    let pre := if ext then [false] else [] in
    let p0 := (pos + length pre)%nat in
    dox e <- (match lb, ub with
              | Some l, Some u => cwn (Z.to_N (u - l + 1)) (Z.to_N (z - l)) p0        (* 12.2.2 *)
              | Some l, None => semi_int l z p0
              | None, _ => unconstrained_int z p0
              end);
    XOk (pre ++ e).

(* size constraint SIZE(lb..ub[, ...]) applied to a count n: extension bit and length determinant
   (16.6-16.11, 17.5-17.8, 20.4-20.6).  Returns the bits and whether the size is fixed (no length at all). *)
Definition size_fixed (lb : N) (ub : option N) : bool :=
  match ub with Some u => (u <? 65536) && (lb =? u) | None => false end.
Definition size_inroot (lb : N) (ub : option N) (n : N) : bool :=
  (lb <=? n) && (match ub with Some u => n <=? u | None => true end).
Definition size_prefix (lb : N) (ub : option N) (ext : bool) (n : N) (pos : nat) : xres :=
  let inroot := size_inroot lb ub n in
  if ext && negb inroot then dox l <- lendet n (S pos); XOk (true :: l)
  else if negb inroot then XViolation
  else
    let pre := if ext then [false] else [] in
    let p0 := (pos + length pre)%nat in
    dox l <- (match ub with
              | Some u => if u <? 65536
                          then (if lb =? u then XOk [] else cwn (u - lb + 1) (n - lb) p0)     (* 10.9.4.1 *)
                          else lendet n p0
              | None => lendet n p0
              end);
    XOk (pre ++ l).

(* BIT STRING (16) and OCTET STRING (17): [small] = the fixed size is at most 16 bits / 2 octets *)
Definition enc_string (lb : N) (ub : option N) (ext : bool) (n : N) (content : bits) (small : bool) (pos : nat) : xres :=
  dox pre <- size_prefix lb ub ext n pos;
  let p := (pos + length pre)%nat in
  if size_fixed lb ub && size_inroot lb ub n then
    if small then XOk (pre ++ content)                                   (* 16.9, 17.6: not aligned *)
    else XOk (pre ++ align p ++ content)                                 (* 16.10, 17.7 *)
  else if n =? 0 then XOk pre
  else XOk (pre ++ align p ++ content).                                  (* 16.11, 17.8 *)

(* a complete encoding as octets (10.1): padded with zero bits; at least one octet *)
Definition pack (b : bits) : list N := match pack_bits b with [] => [0] | l => l end.

Fixpoint find_alt (key : Z) (alts : list (Z * aty)) : option aty :=
  match alts with
  | [] => None
  | (k, t) :: r => if (k =? key)%Z then Some t else find_alt key r
  end.

Fixpoint count_true (l : list bool) : nat := match l with [] => O | b :: r => ((if b then 1 else 0) + count_true r)%nat end.

Fixpoint x691 (t : aty) (v : aval) (pos : nat) {struct v} : xres :=
  match t, v with
  | AInt lb ub ext, AVInt z => enc_int lb ub ext z pos
  | AEnum n ext, AVEnum i =>                                              (* 13: index among the root enumerations *)
      if n <=? i then XViolation
      else let pre := if ext then [false] else [] in
           dox e <- cwn n i (pos + length pre); XOk (pre ++ e)
  | ABool, AVBool b => XOk [b]                                            (* 11 *)
  | ABits lb ub ext, AVBits bs =>
      enc_string lb ub ext (N.of_nat (length bs)) bs (match ub with Some u => u <=? 16 | None => false end) pos
  | AOctets lb ub ext, AVOctets bs =>
      if forallb (fun b => b <? 256) bs
      then enc_string lb ub ext (N.of_nat (length bs)) (bits_of_bytes bs) (match ub with Some u => u <=? 2 | None => false end) pos
      else XViolation
  | ASeq ext fs, AVSeq vs =>                                              (* 18 *)
      if negb (Nat.eqb (length fs) (length vs)) then XViolation
      else
        let pre := if ext then [false] else [] in                         (* 18.1: no extension additions *)
        (* 18.2: preamble, one bit per OPTIONAL component *)
        let bitmap := flat_map (fun fv => match fv with ((true, _), Some _) => [true] | ((true, _), None) => [false] | _ => [] end)
                               (combine fs vs) in
        (fix comps (fs : list (bool * aty)) (cs : list (option aval)) (acc : bits) {struct cs} : xres :=
           match fs, cs with
           | [], [] => XOk acc
           | (opt, ft) :: fr, c :: cr =>
               match c with
               | None => if opt then comps fr cr acc else XViolation
               | Some cv =>
                   let p := (pos + length acc)%nat in
                   dox e <-
                     (match ft, cv with
                      | AOpen ref alts, AVOpen key ov =>                  (* 10.2 open type field, table constraint *)
                          match nth_error vs ref with
                          | Some (Some sv) =>
                              match key_of sv, find_alt key alts with
                              | Some k, Some at' =>
                                  if (k =? key)%Z then
                                    dox inner <- x691 at' ov 0;
                                    let octets := pack inner in
                                    dox l <- lendet (N.of_nat (length octets)) p;
                                    XOk (l ++ bits_of_bytes octets)
                                  else XViolation
                              | _, _ => XViolation
                              end
                          | _ => XViolation
                          end
                      | AOpen _ _, _ => XViolation
                      | _, _ => x691 ft cv p
                      end);
                   comps fr cr (acc ++ e)
               end
           | _, _ => XViolation
           end) fs vs (pre ++ bitmap)
  | AChoice ext alts, AVChoice i cv =>                                    (* 22 *)
      match nth_error alts (N.to_nat i) with
      | None => XViolation
      | Some at' =>
          let pre := if ext then [false] else [] in
          dox ib <- (if Nat.eqb (length alts) 1 then XOk [] else cwn (N.of_nat (length alts)) i (pos + length pre));
          let hd := pre ++ ib in
          dox e <- x691 at' cv (pos + length hd); XOk (hd ++ e)
      end
  | ASeqOf lb ub ext et, AVSeqOf l =>                                     (* 20 *)
      dox pre <- size_prefix lb ub ext (N.of_nat (length l)) pos;
      (fix elems (l : list aval) (acc : bits) {struct l} : xres :=
         match l with
         | [] => XOk acc
         | x :: r => dox e <- x691 et x (pos + length acc); elems r (acc ++ e)
         end) l pre
  | ANone, _ => XOutside
  | _, _ => XViolation
  end.

(* the complete encoding of a value of a (top-level) type *)
Definition x691_pdu (t : aty) (v : aval) : option (list N) :=
  match x691 t v 0 with XOk b => Some (pack b) | _ => None end.
