(* Interleaving semantics for C20.
   A thread is a list of critical sections; a critical section runs atomically on the shared (lock-protected or
   otherwise exclusively accessed) state and produces a result for its own thread.  A section that touches no
   shared state at all is the special case of a function that ignores its argument and returns it unchanged.
   A schedule is any sequence of thread indices: at each step the chosen thread (if it has work left) runs its
   next section.  Everything a thread computes outside its sections depends only on its own data and on the
   results of its own sections, so it is enough to compare the sections' results. *)
From Coq Require Import List Arith.
Import ListNotations.

Section Interleave.
Variable Shared Res : Type.
Definition section := Shared -> Res * Shared.

(* results of a thread's sections when each starts from an (arbitrary, fixed) shared state s0: for sections whose
   result does not depend on the incoming shared state this is THE result of running the thread on its own *)
Definition solo (s0:Shared) (t:list section) : list Res := map (fun sec => fst (sec s0)) t.

Fixpoint update {A} (l:list A) (i:nat) (x:A) : list A :=
  match l, i with
  | [], _ => []
  | _ :: r, O => x :: r
  | a :: r, S j => a :: update r j x
  end.

(* state of a concurrent run: remaining sections and accumulated results per thread, shared state *)
Fixpoint exec (sched:list nat) (ts:list (list section)) (acc:list (list Res)) (s:Shared) : list (list Res) * list (list section) * Shared :=
  match sched with
  | [] => (acc, ts, s)
  | i :: r =>
      match nth_error ts i with
      | Some (sec :: rest) =>
          let (x, s') := sec s in
          exec r (update ts i rest) (update acc i (nth i acc [] ++ [x])) s'
      | _ => exec r ts acc s
      end
  end.

(* the result of a section does not depend on what the other threads left in the shared state *)
Definition reset_first (sec:section) : Prop := forall s s', fst (sec s) = fst (sec s').
End Interleave.
Arguments update {A} l i x.
