(* TS 38.413 (NGAP, Release 15) — what clauses 9.2 (message functional definition and content), 9.3 (IE
   definitions) and 9.4 (ASN.1: NGAP-PDU-Descriptions, NGAP-Constants) say about the messages an NG-RAN node
   sends.  Transcribed from the standard, not from the code under verification.

   - elementary procedures: procedure code (NGAP-Constants) and criticality (NGAP-PDU-Descriptions);
   - messages: the procedure they belong to and their class (initiating message / successful outcome /
     unsuccessful outcome);
   - for the messages of 9.2.1.2, 9.2.1.4, 9.2.2.2, 9.2.2.3, 9.2.2.5, 9.2.3.8(notify), 9.2.5.1, 9.2.5.3,
     9.2.6.1 the IE table: IE id (NGAP-Constants), presence, assigned criticality;
   - where a message carries the identifiers and payloads this development is about (roles).
   Rows the transcriber was not sure of carry [uncertain := true] and are excluded from strict comparison. *)
From Coq Require Import ZArith NArith List String Bool.
Import ListNotations.
Open Scope string_scope.

Inductive presence := PM | PO.          (* mandatory | optional *)
Inductive criticality := Reject | Ignore | Notify.
Inductive mclass := Initiating | Successful | Unsuccessful.

(* ENUMERATED { reject, ignore, notify } *)
Definition crit_code (c : criticality) : N := match c with Reject => 0%N | Ignore => 1%N | Notify => 2%N end.
(* NGAP-PDU ::= CHOICE { initiatingMessage, successfulOutcome, unsuccessfulOutcome, ... }: 1-based index *)
Definition class_code (c : mclass) : Z := match c with Initiating => 1%Z | Successful => 2%Z | Unsuccessful => 3%Z end.

(* ---- ProtocolIE-ID values used below (NGAP-Constants) *)
Definition id_AllowedNSSAI := 0%Z.                     Definition id_AMFSetID := 3%Z.
Definition id_AMF_UE_NGAP_ID := 10%Z.                  Definition id_Cause := 15%Z.
Definition id_CriticalityDiagnostics := 19%Z.          Definition id_DefaultPagingDRX := 21%Z.
Definition id_FiveG_S_TMSI := 26%Z.                    Definition id_GlobalRANNodeID := 27%Z.
Definition id_InfoOnRecommendedCellsAndRANNodesForPaging := 32%Z.
Definition id_NAS_PDU := 38%Z.
Definition id_PDUSessionResourceFailedToSetupListCxtRes := 55%Z.
Definition id_PDUSessionResourceFailedToSetupListSURes := 58%Z.
Definition id_PDUSessionResourceListCxtRelCpl := 60%Z.
Definition id_PDUSessionResourceReleasedListRelRes := 70%Z.
Definition id_PDUSessionResourceSetupListCxtRes := 72%Z.
Definition id_PDUSessionResourceSetupListSURes := 75%Z.
Definition id_RANNodeName := 82%Z.                     Definition id_RAN_UE_NGAP_ID := 85%Z.
Definition id_RRCEstablishmentCause := 90%Z.           Definition id_SourceAMF_UE_NGAP_ID := 100%Z.
Definition id_SupportedTAList := 102%Z.                Definition id_UEContextRequest := 112%Z.
Definition id_UserLocationInformation := 121%Z.        Definition id_PDUSessionResourceListCxtRelReq := 133%Z.
Definition id_UERetentionInformation := 147%Z.

(* ---- elementary procedures: name, procedure code, criticality *)
Record proc := mkproc { p_name : string; p_code : Z; p_crit : criticality; p_crit_uncertain : bool }.
Definition procedures : list proc := [
  mkproc "AMFConfigurationUpdate" 0 Reject false;            mkproc "AMFStatusIndication" 1 Ignore true;
  mkproc "CellTrafficTrace" 2 Ignore true;                  mkproc "ErrorIndication" 9 Ignore true;
  mkproc "HandoverCancel" 10 Reject false;                   mkproc "HandoverNotification" 11 Ignore false;
  mkproc "HandoverPreparation" 12 Reject false;              mkproc "HandoverResourceAllocation" 13 Reject false;
  mkproc "InitialContextSetup" 14 Reject false;             mkproc "InitialUEMessage" 15 Ignore false;
  mkproc "LocationReportingFailureIndication" 17 Ignore true; mkproc "LocationReport" 18 Ignore true;
  mkproc "NASNonDeliveryIndication" 19 Ignore true;         mkproc "NGReset" 20 Reject false;
  mkproc "NGSetup" 21 Reject false;                         mkproc "OverloadStart" 22 Ignore true;
  mkproc "OverloadStop" 23 Reject true;                     mkproc "PathSwitchRequest" 25 Reject false;
  mkproc "PDUSessionResourceModify" 26 Reject false;         mkproc "PDUSessionResourceModifyIndication" 27 Reject false;
  mkproc "PDUSessionResourceRelease" 28 Reject false;       mkproc "PDUSessionResourceSetup" 29 Reject false;
  mkproc "PDUSessionResourceNotify" 30 Ignore true;         mkproc "RANConfigurationUpdate" 35 Reject false;
  mkproc "RRCInactiveTransitionReport" 37 Ignore true;      mkproc "UEContextModification" 40 Reject false;
  mkproc "UEContextRelease" 41 Reject false;                mkproc "UEContextReleaseRequest" 42 Ignore false;
  mkproc "UERadioCapabilityCheck" 43 Reject false;           mkproc "UERadioCapabilityInfoIndication" 44 Ignore true;
  mkproc "UETNLABindingRelease" 45 Ignore true;             mkproc "UplinkNASTransport" 46 Ignore false;
  mkproc "UplinkNonUEAssociatedNRPPaTransport" 47 Ignore true; mkproc "UplinkRANConfigurationTransfer" 48 Ignore true;
  mkproc "UplinkRANStatusTransfer" 49 Ignore true;          mkproc "UplinkUEAssociatedNRPPaTransport" 50 Ignore true ].

Fixpoint find_proc (n : string) (l : list proc) : option proc :=
  match l with [] => None | p :: r => if String.eqb n (p_name p) then Some p else find_proc n r end.

(* ---- IE tables of clause 9.2 *)
Record ie_row := mkrow { r_id : Z; r_pres : presence; r_crit : criticality; r_name : string; r_uncertain : bool }.
Definition row (id : Z) (p : presence) (c : criticality) (n : string) : ie_row := mkrow id p c n false.

(* roles: the values property C13 follows from the caller into the encoding *)
Inductive role := RAmfId | RRanId | RNasPdu | RSessionId | RGnbId | RGnbName | RGtpAddr | RPlmn.

(* a place inside a message: IE id, then the path of ASN.1 components from the IE's type down to the value
   (component identifiers written as the generated Go package writes them: first letter upper case, hyphens
   dropped; "*" = every element of a SEQUENCE OF; "Value" = the content of a type that is not a SEQUENCE) *)
Definition place := (Z * list string)%type.

Record message := mkmsg {
  m_name : string; m_proc : string; m_class : mclass;
  m_ies : option (list ie_row);            (* None: table not transcribed *)
  m_where : list (role * list place) }.

Definition uli_plmn : list place :=
  [(id_UserLocationInformation, ["UserLocationInformationNR"; "NRCGI"; "PLMNIdentity"; "Value"]);
   (id_UserLocationInformation, ["UserLocationInformationNR"; "TAI"; "PLMNIdentity"; "Value"])].
Definition amf_ran : list (role * list place) :=
  [(RAmfId, [(id_AMF_UE_NGAP_ID, ["Value"])]); (RRanId, [(id_RAN_UE_NGAP_ID, ["Value"])])].

(* 9.2.6.1 NG SETUP REQUEST *)
Definition NGSetupRequest := mkmsg "NGSetupRequest" "NGSetup" Initiating
  (Some [row id_GlobalRANNodeID PM Reject "Global RAN Node ID"; row id_RANNodeName PO Ignore "RAN Node Name";
         row id_SupportedTAList PM Reject "Supported TA List"; row id_DefaultPagingDRX PM Ignore "Default Paging DRX";
         mkrow id_UERetentionInformation PO Ignore "UE Retention Information" true])
  [(RGnbId, [(id_GlobalRANNodeID, ["GlobalGNBID"; "GNBID"; "GNBID"])]);
   (RGnbName, [(id_RANNodeName, ["Value"])]);
   (RPlmn, [(id_GlobalRANNodeID, ["GlobalGNBID"; "PLMNIdentity"; "Value"]);
            (id_SupportedTAList, ["*"; "BroadcastPLMNList"; "*"; "PLMNIdentity"; "Value"])])].

(* 9.2.5.1 INITIAL UE MESSAGE *)
Definition InitialUEMessage := mkmsg "InitialUEMessage" "InitialUEMessage" Initiating
  (Some [row id_RAN_UE_NGAP_ID PM Reject "RAN UE NGAP ID"; row id_NAS_PDU PM Reject "NAS-PDU";
         row id_UserLocationInformation PM Reject "User Location Information";
         row id_RRCEstablishmentCause PM Ignore "RRC Establishment Cause"; row id_FiveG_S_TMSI PO Reject "5G-S-TMSI";
         row id_AMFSetID PO Ignore "AMF Set ID"; row id_UEContextRequest PO Ignore "UE Context Request";
         row id_AllowedNSSAI PO Reject "Allowed NSSAI"])
  [(RRanId, [(id_RAN_UE_NGAP_ID, ["Value"])]); (RNasPdu, [(id_NAS_PDU, ["Value"])]); (RPlmn, uli_plmn)].

(* 9.2.5.3 UPLINK NAS TRANSPORT *)
Definition UplinkNASTransport := mkmsg "UplinkNASTransport" "UplinkNASTransport" Initiating
  (Some [row id_AMF_UE_NGAP_ID PM Reject "AMF UE NGAP ID"; row id_RAN_UE_NGAP_ID PM Reject "RAN UE NGAP ID";
         row id_NAS_PDU PM Reject "NAS-PDU"; row id_UserLocationInformation PM Ignore "User Location Information"])
  (amf_ran ++ [(RNasPdu, [(id_NAS_PDU, ["Value"])]); (RPlmn, uli_plmn)]).

(* the GTP tunnel endpoint inside PDU Session Resource Setup Response Transfer (9.3.4.2), an OCTET STRING
   containing the APER encoding of that type: DL QoS Flow per TNL Information > UP Transport Layer
   Information > GTP tunnel > Transport Layer Address.  The item component
   pDUSessionResourceSetupResponseTransfer is OCTET STRING (CONTAINING PDUSessionResourceSetupResponseTransfer):
   the path names the component and then the contained type *)
Definition gtp_in_transfer : list string :=
  ["*"; "PDUSessionResourceSetupResponseTransfer"; "PDUSessionResourceSetupResponseTransfer"; "QosFlowPerTNLInformation"; "UPTransportLayerInformation"; "GTPTunnel";
   "TransportLayerAddress"; "Value"].

(* 9.2.2.2 INITIAL CONTEXT SETUP RESPONSE *)
Definition InitialContextSetupResponse := mkmsg "InitialContextSetupResponse" "InitialContextSetup" Successful
  (Some [row id_AMF_UE_NGAP_ID PM Ignore "AMF UE NGAP ID"; row id_RAN_UE_NGAP_ID PM Ignore "RAN UE NGAP ID";
         row id_PDUSessionResourceSetupListCxtRes PO Ignore "PDU Session Resource Setup Response List";
         row id_PDUSessionResourceFailedToSetupListCxtRes PO Ignore "PDU Session Resource Failed to Setup List";
         row id_CriticalityDiagnostics PO Ignore "Criticality Diagnostics"])
  (amf_ran ++ [(RSessionId, [(id_PDUSessionResourceSetupListCxtRes, ["*"; "PDUSessionID"; "Value"])]);
               (RGtpAddr, [(id_PDUSessionResourceSetupListCxtRes, gtp_in_transfer)])]).

(* 9.2.1.2 PDU SESSION RESOURCE SETUP RESPONSE *)
Definition PDUSessionResourceSetupResponse := mkmsg "PDUSessionResourceSetupResponse" "PDUSessionResourceSetup" Successful
  (Some [row id_AMF_UE_NGAP_ID PM Ignore "AMF UE NGAP ID"; row id_RAN_UE_NGAP_ID PM Ignore "RAN UE NGAP ID";
         row id_PDUSessionResourceSetupListSURes PO Ignore "PDU Session Resource Setup Response List";
         row id_PDUSessionResourceFailedToSetupListSURes PO Ignore "PDU Session Resource Failed to Setup List";
         row id_CriticalityDiagnostics PO Ignore "Criticality Diagnostics"])
  (amf_ran ++ [(RSessionId, [(id_PDUSessionResourceSetupListSURes, ["*"; "PDUSessionID"; "Value"])]);
               (RGtpAddr, [(id_PDUSessionResourceSetupListSURes, gtp_in_transfer)])]).

(* 9.2.1.4 PDU SESSION RESOURCE RELEASE RESPONSE *)
Definition PDUSessionResourceReleaseResponse := mkmsg "PDUSessionResourceReleaseResponse" "PDUSessionResourceRelease" Successful
  (Some [row id_AMF_UE_NGAP_ID PM Ignore "AMF UE NGAP ID"; row id_RAN_UE_NGAP_ID PM Ignore "RAN UE NGAP ID";
         row id_PDUSessionResourceReleasedListRelRes PM Ignore "PDU Session Resource Released List";
         row id_UserLocationInformation PO Ignore "User Location Information";
         row id_CriticalityDiagnostics PO Ignore "Criticality Diagnostics"])
  (amf_ran ++ [(RSessionId, [(id_PDUSessionResourceReleasedListRelRes, ["*"; "PDUSessionID"; "Value"])])]).

(* 9.2.2.5 UE CONTEXT RELEASE COMPLETE *)
Definition UEContextReleaseComplete := mkmsg "UEContextReleaseComplete" "UEContextRelease" Successful
  (Some [row id_AMF_UE_NGAP_ID PM Ignore "AMF UE NGAP ID"; row id_RAN_UE_NGAP_ID PM Ignore "RAN UE NGAP ID";
         row id_UserLocationInformation PO Ignore "User Location Information";
         row id_InfoOnRecommendedCellsAndRANNodesForPaging PO Ignore "Information on Recommended Cells and RAN Nodes for Paging";
         row id_PDUSessionResourceListCxtRelCpl PO Reject "PDU Session Resource List";
         row id_CriticalityDiagnostics PO Ignore "Criticality Diagnostics"])
  (amf_ran ++ [(RSessionId, [(id_PDUSessionResourceListCxtRelCpl, ["*"; "PDUSessionID"; "Value"])]); (RPlmn, uli_plmn)]).

(* 9.2.2.3 UE CONTEXT RELEASE REQUEST *)
Definition UEContextReleaseRequest := mkmsg "UEContextReleaseRequest" "UEContextReleaseRequest" Initiating
  (Some [row id_AMF_UE_NGAP_ID PM Reject "AMF UE NGAP ID"; row id_RAN_UE_NGAP_ID PM Reject "RAN UE NGAP ID";
         row id_PDUSessionResourceListCxtRelReq PO Reject "PDU Session Resource List"; row id_Cause PM Ignore "Cause"])
  (amf_ran ++ [(RSessionId, [(id_PDUSessionResourceListCxtRelReq, ["*"; "PDUSessionID"; "Value"])])]).

(* 9.2.3.8 HANDOVER NOTIFY (not sent by the emulator; transcribed because its builder is known to deviate) *)
Definition HandoverNotify := mkmsg "HandoverNotify" "HandoverNotification" Initiating
  (Some [row id_AMF_UE_NGAP_ID PM Reject "AMF UE NGAP ID"; row id_RAN_UE_NGAP_ID PM Reject "RAN UE NGAP ID";
         row id_UserLocationInformation PM Ignore "User Location Information"])
  amf_ran.

(* procedure and class only *)
Definition bare (n p : string) (c : mclass) (w : list (role * list place)) : message := mkmsg n p c None w.

Definition messages : list message := [
  NGSetupRequest; InitialUEMessage; UplinkNASTransport; InitialContextSetupResponse; PDUSessionResourceSetupResponse;
  PDUSessionResourceReleaseResponse; UEContextReleaseComplete; UEContextReleaseRequest; HandoverNotify;
  bare "NGReset" "NGReset" Initiating [];
  bare "NGResetAcknowledge" "NGReset" Successful [];
  bare "NGSetupResponse" "NGSetup" Successful [];
  bare "ErrorIndication" "ErrorIndication" Initiating [];
  bare "UEContextModificationResponse" "UEContextModification" Successful amf_ran;
  bare "UEContextModificationFailure" "UEContextModification" Unsuccessful amf_ran;
  bare "InitialContextSetupFailure" "InitialContextSetup" Unsuccessful amf_ran;
  bare "PathSwitchRequest" "PathSwitchRequest" Initiating
    [(RAmfId, [(id_SourceAMF_UE_NGAP_ID, ["Value"])]); (RRanId, [(id_RAN_UE_NGAP_ID, ["Value"])])];
  bare "HandoverRequired" "HandoverPreparation" Initiating amf_ran;
  bare "HandoverRequestAcknowledge" "HandoverResourceAllocation" Successful amf_ran;
  bare "HandoverFailure" "HandoverResourceAllocation" Unsuccessful [(RAmfId, [(id_AMF_UE_NGAP_ID, ["Value"])])];
  bare "HandoverCancel" "HandoverCancel" Initiating [];
  bare "AMFConfigurationUpdate" "AMFConfigurationUpdate" Initiating [];
  bare "AMFConfigurationUpdateAcknowledge" "AMFConfigurationUpdate" Successful [];
  bare "AMFConfigurationUpdateFailure" "AMFConfigurationUpdate" Unsuccessful [];
  bare "UERadioCapabilityCheckRequest" "UERadioCapabilityCheck" Initiating amf_ran;
  bare "UERadioCapabilityCheckResponse" "UERadioCapabilityCheck" Successful [];
  bare "LocationReportingFailureIndication" "LocationReportingFailureIndication" Initiating [];
  bare "LocationReport" "LocationReport" Initiating [];
  bare "PDUSessionResourceModifyResponse" "PDUSessionResourceModify" Successful amf_ran;
  bare "PDUSessionResourceNotify" "PDUSessionResourceNotify" Initiating [];
  bare "PDUSessionResourceModifyIndication" "PDUSessionResourceModifyIndication" Initiating amf_ran;
  bare "PDUSessionResourceModifyConfirm" "PDUSessionResourceModifyIndication" Successful amf_ran;
  bare "PDUSessionResourceReleaseCommand" "PDUSessionResourceRelease" Initiating amf_ran;
  bare "RRCInactiveTransitionReport" "RRCInactiveTransitionReport" Initiating [];
  bare "UplinkRANStatusTransfer" "UplinkRANStatusTransfer" Initiating amf_ran;
  bare "NASNonDeliveryIndication" "NASNonDeliveryIndication" Initiating (amf_ran ++ [(RNasPdu, [(id_NAS_PDU, ["Value"])])]);
  bare "RANConfigurationUpdate" "RANConfigurationUpdate" Initiating [];
  bare "RANConfigurationUpdateAcknowledge" "RANConfigurationUpdate" Successful [];
  bare "RANConfigurationUpdateFailure" "RANConfigurationUpdate" Unsuccessful [];
  bare "UplinkRANConfigurationTransfer" "UplinkRANConfigurationTransfer" Initiating [];
  bare "UplinkUEAssociatedNRPPaTransport" "UplinkUEAssociatedNRPPaTransport" Initiating [];
  bare "UplinkNonUEAssociatedNRPPaTransport" "UplinkNonUEAssociatedNRPPaTransport" Initiating [];
  bare "UERadioCapabilityInfoIndication" "UERadioCapabilityInfoIndication" Initiating [];
  bare "CellTrafficTrace" "CellTrafficTrace" Initiating amf_ran;
  bare "OverloadStart" "OverloadStart" Initiating [];
  bare "OverloadStop" "OverloadStop" Initiating [];
  bare "AMFStatusIndication" "AMFStatusIndication" Initiating [];
  bare "UETNLABindingReleaseRequest" "UETNLABindingRelease" Initiating [] ].

Fixpoint find_message (n : string) (l : list message) : option message :=
  match l with [] => None | m :: r => if String.eqb n (m_name m) then Some m else find_message n r end.

Definition msg_proc (m : message) : option proc := find_proc (m_proc m) procedures.

(* ---- ranges of the identifiers (9.3.3.1, 9.3.3.2, 9.3.1.50) *)
Definition amf_ue_ngap_id_ok (z : Z) : bool := ((0 <=? z) && (z <=? 1099511627775))%Z.      (* INTEGER (0..2^40-1) *)
Definition ran_ue_ngap_id_ok (z : Z) : bool := ((0 <=? z) && (z <=? 4294967295))%Z.         (* INTEGER (0..2^32-1) *)
Definition pdu_session_id_ok (z : Z) : bool := ((0 <=? z) && (z <=? 255))%Z.                (* INTEGER (0..255) *)

(* ---- a decoded PDU (class, procedure code, criticality, (id, criticality) of its IEs in order) meets the
   message definition: class and code of the message; the procedure's criticality; every IE is a row of the
   table with the row's criticality, at most once, in table order; every mandatory row occurs *)
Fixpoint find_row (id : Z) (l : list ie_row) : option ie_row :=
  match l with [] => None | r :: t => if (r_id r =? id)%Z then Some r else find_row id t end.

Fixpoint in_order (ids : list Z) (rows : list ie_row) : bool :=
  match ids with
  | [] => true
  | i :: rest => (fix skip (rows : list ie_row) : bool :=
                    match rows with
                    | [] => false
                    | r :: t => if (r_id r =? i)%Z then in_order rest t else skip t
                    end) rows
  end.

Definition ies_conform (rows : list ie_row) (ies : list (Z * N)) : bool :=
  forallb (fun ic => match find_row (fst ic) rows with
                     | Some r => r_uncertain r || (crit_code (r_crit r) =? snd ic)%N
                     | None => false end) ies
  && forallb (fun r => match r_pres r with PM => existsb (fun ic => (fst ic =? r_id r)%Z) ies | PO => true end) rows
  && in_order (map fst ies) rows.

Definition head_conforms (m : message) (strict_crit : bool) (cls proc : Z) (crit : N) : bool :=
  match msg_proc m with
  | Some p => (cls =? class_code (m_class m))%Z && (proc =? p_code p)%Z
              && (negb strict_crit || p_crit_uncertain p || (crit =? crit_code (p_crit p))%N)
  | None => false
  end.
