(* What the standards say about the identifiers of C17, as DECODERS written without looking at the code:
   - S-NSSAI contents (TS 24.501 9.11.2.8): length 1: SST; length 4: SST, SD (3 octets) [other lengths carry
     mapped values, not produced here];
   - AMF Identifier (TS 23.003 2.10.1): AMF Region ID (8 bits) | AMF Set ID (10 bits) | AMF Pointer (6 bits), 24 bits;
   - Transport Layer Address (TS 38.414 5.1 / TS 38.413 9.3.2.4): BIT STRING of 32 bits = IPv4 address, 128 bits = IPv6
     address, 160 bits = IPv4 address followed by IPv6 address;
   - Protocol configuration options contents (TS 24.008 10.5.6.3): octet 1 = 1 | 0000 | configuration protocol (000 = PPP),
     then units: container id (2 octets), length (1 octet), contents;
   - DNN as LV: length octet, then the value. PLMN: Spec/Suci.v. *)
From Coq Require Import NArith List Bool.
Import ListNotations.
Open Scope N_scope.

Definition snssai_decode (o:list N) : option (N * option (list N)) :=
  match o with
  | [1; sst] => Some (sst, None)
  | [4; sst; a; b; c] => Some (sst, Some [a; b; c])
  | _ => None
  end.

Definition amf_id_fields (v:N) : N * N * N := (v / 65536, (v / 64) mod 1024, v mod 64).     (* v < 2^24 *)

Inductive tla := TlaV4 (a:list N) | TlaV6 (b:list N) | TlaBoth (a b:list N).
Definition tla_decode (bytes:list N) (bitlen:N) : option tla :=
  if (bitlen =? 32) && Nat.eqb (length bytes) 4 then Some (TlaV4 bytes)
  else if (bitlen =? 128) && Nat.eqb (length bytes) 16 then Some (TlaV6 bytes)
  else if (bitlen =? 160) && Nat.eqb (length bytes) 20 then Some (TlaBoth (firstn 4 bytes) (skipn 4 bytes))
  else None.

Fixpoint pco_units (fuel:nat) (l:list N) : option (list (N * list N)) :=
  match fuel with O => None | S f =>
    match l with
    | [] => Some []
    | a :: b :: n :: r =>
        if Nat.ltb (length r) (N.to_nat n) then None else
        match pco_units f (skipn (N.to_nat n) r) with
        | Some t => Some ((a * 256 + b, firstn (N.to_nat n) r) :: t) | None => None end
    | _ => None
    end end.
Definition pco_decode (o:list N) : option (list (N * list N)) :=
  match o with
  | 128 :: r => pco_units (S (length r)) r
  | _ => None
  end.

Definition dnn_lv_decode (o:list N) : option (list N) :=
  match o with n :: r => if N.of_nat (length r) =? n then Some r else None | [] => None end.
