(* Executable instances of Model/NasSec.v (with Model/Security.v's nas_encrypt / nas_mac = the Go code's
   security.NASEncrypt / NASMacCalculate) and of Spec/RefNasPeer.v (with the 3GPP algorithms of Spec/TS33401B.v),
   and the case checkers of the correspondence streams of C06 / C10 (harness command nashist). *)
From Coq Require Import NArith List Bool.
Require Import Bytes AES Security TS33401B Count NasSec RefNasPeer.
Import ListNotations.
Open Scope N_scope.

(* ---- the model, executable *)
Definition nas_encode_x := nas_encode nas_encrypt nas_mac.
Definition encode_nas_pdu_with_security_x := encode_nas_pdu_with_security nas_encrypt nas_mac.
Definition nas_decode_x := nas_decode nas_encrypt nas_mac.
Definition get_nas_pdu_x := get_nas_pdu nas_encrypt nas_mac.
Definition hrun_x := hrun nas_encrypt nas_mac.

(* ---- the reference peer, executable: 128-NEA0/1/2 and 128-NIA1/2 as TS 33.501 Annex D / TS 33.401 Annex B define them *)
Definition nea_s := nea_spec aes128.
Definition nia_s := nia_spec aes128.
Definition protect_s := protect nea_s nia_s.
Definition ul_receive_s := ul_receive nea_s nia_s.
Definition dl_send_s := dl_send nea_s nia_s.

(* ---- correspondence.  One observed step = (result, ULCount.Get(), DLCount.Get()) *)
Definition obs := (nres bytes * N * N)%type.

(* canon = the octets handed to PlainNasDecode are a canonical message (PlainNasEncode(PlainNasDecode x) = x), so the
   harness' re-encoding shows them; otherwise the codec's reaction (message, error, panic) is property C08's business
   and only the counters are compared *)
Definition res_agree (canon:bool) (m o:nres bytes) : bool :=
  match m, o with
  | Ok a, Ok b => if canon then eqb_octets a b else true
  | Ok _, _ => negb canon
  | Err, Err => true
  | Panic, Panic => true
  | _, _ => false
  end.

Fixpoint steps_agree (ms:list obs) (os:list (bool * obs)) : bool :=
  match ms, os with
  | [], [] => true
  | (mr, mu, md) :: ms', (canon, (or_, ou, od)) :: os' =>
      res_agree canon mr or_ && (mu =? ou) && (md =? od) && steps_agree ms' os'
  | _, _ => false
  end.

(* (ea, ia, kenc, kint, [(op, canon, observed)]) *)
Definition hist_case := (N * N * bytes * bytes * list (hop * bool * obs))%type.
Definition hist_model (c:hist_case) : list obs :=
  let '(ea, ia, kenc, kint, l) := c in hrun_x (init_ue ea ia kenc kint) (map (fun x => fst (fst x)) l).
Definition hist_check (c:hist_case) : bool :=
  let '(ea, ia, kenc, kint, l) := c in
  steps_agree (hist_model c) (map (fun x => (snd (fst x), snd x)) l).

(* ---- C06: the implementation's output against the reference sender and the reference receiver.
   next = COUNT the reference sender uses next, stored = the AMF's stored uplink COUNT, dlx = expected DLCount *)
Fixpoint c06_spec_run (ctx:sec_ctx) (next stored dlx:N) (l:list (hop * bool * obs)) : bool :=
  match l with
  | [] => true
  | (o, _, (res, u, d)) :: r =>
    match o with
    | HSetUL ov s => let v := ov * 256 + s in (u =? v) && (d =? dlx) && c06_spec_run ctx v v dlx r
    | HSetDL ov s => let v := ov * 256 + s in (u =? next) && (d =? v) && c06_spec_run ctx next stored v r
    | HSend (Some p) h true n =>
        let c := ul_count_for next n in
        let dlx' := if n then 0 else dlx in
        match res with
        | Ok b =>
          match protect_s ctx UPLINK c h p with Some e => eqb_octets e b | None => false end &&
          match ul_receive_s ctx (if n then 0 else stored) b with
          | Accept p' s' => eqb_octets p' p && (s' =? u) && (u =? ul_next c) && (d =? dlx') &&
                            c06_spec_run ctx (ul_next c) s' dlx' r
          | Reject _ => false
          end
        | _ => false
        end
    | HSend (Some p) h false n =>
        match res with
        | Ok b => eqb_octets b p && (u =? next) && (d =? dlx) && c06_spec_run ctx next stored dlx r
        | _ => false
        end
    | HRecv _ =>
        (* a downlink message arrives in between (whatever it is and whatever becomes of it): the uplink COUNT is not its
           business; the downlink estimate afterwards is C10's subject and is taken as observed *)
        (u =? next) && c06_spec_run ctx next stored d r
    | _ => false
    end
  end.
Definition c06_spec_check (c:hist_case) : bool :=
  let '(ea, ia, kenc, kint, l) := c in c06_spec_run (mk_ctx ea ia kenc kint) 0 0 0 l.

(* ---- C10: (history case, (last0, [((plain, hdr, d), packet fed to the implementation)])): the packets are the
   reference sender's (re-encoded here from the parameters), the implementation returns the plain message and
   its DLCount equals the sender's COUNT.  The history case is [HSetDL ovf0 sqn0; HRecv pkt ...]. *)
Definition c10_case := (hist_case * (N * list (bytes * N * N * bytes)))%type.
Fixpoint c10_spec_run (ctx:sec_ctx) (last:N) (l:list (bytes * N * N * bytes)) (os:list obs) : bool :=
  match l, os with
  | [], [] => true
  | (p, h, dd, pkt) :: r, (res, u, d) :: os' =>
      let '(c, e) := dl_send_s ctx last p h dd in
      match e with Some e => eqb_octets e pkt | None => false end &&
      match res with Ok b => eqb_octets b p | _ => false end &&
      (d =? c) && (u =? 0) && c10_spec_run ctx c r os'
  | _, _ => false
  end.
Definition c10_model_check (c:c10_case) : bool := hist_check (fst c).
Definition c10_spec_check (c:c10_case) : bool :=
  let '((ea, ia, kenc, kint, l), (last0, sl)) := c in
  c10_spec_run (mk_ctx ea ia kenc kint) last0 sl (map snd (tl l)).

