(* Model of stgutg.DecodePDUSessionNASPDU and stgutg.DecodePDUSessionResourceSetupRequestTransfer
   (src/stgutg/pdu.go) with Go's slice semantics made explicit:
   a slice of the input is (offset, length) into the input array b whose capacity runs to the end of b
   (the harness passes the input with capacity = length); index expressions are checked against the
   length, slice expressions s[lo:hi] against lo <= hi <= capacity, s[lo:] against lo <= length.
   Loops run on fuel; XFuel (out of fuel) is excluded by extract_terminates. *)
From Coq Require Import NArith List Bool.
Import ListNotations.
Open Scope N_scope.

Inductive xres (A:Type) := XOk (a:A) | XPanic | XFuel.
Arguments XOk {A} a. Arguments XPanic {A}. Arguments XFuel {A}.

Definition at_ (b:list N) (i:N) : N := nth (N.to_nat i) b 0.
Definition be16_at (b:list N) (i:N) : N := at_ b i * 256 + at_ b (i + 1).
Definition take (b:list N) (off n:N) : list N := firstn (N.to_nat n) (skipn (N.to_nat off) b).

(* PDUSessionEstablishmentAcceptOptionalElementsLength: Some (inl n) fixed total length n,
   Some (inr k) length indicator of k octets, None = IEI not in the map *)
Definition opt_len (iei:N) : option (N + N) :=
  if iei =? 89 then Some (inl 2)          (* 0x59 *)
  else if iei =? 41 then Some (inr 1)     (* 0x29 *)
  else if iei =? 86 then Some (inl 2)     (* 0x56 *)
  else if iei =? 34 then Some (inr 1)     (* 0x22 *)
  else if iei =? 117 then Some (inr 2)    (* 0x75 *)
  else if iei =? 120 then Some (inr 2)    (* 0x78 *)
  else if iei =? 121 then Some (inr 2)    (* 0x79 *)
  else if iei =? 123 then Some (inr 2)    (* 0x7B *)
  else if iei =? 37 then Some (inr 1)     (* 0x25 *)
  else if iei =? 23 then Some (inr 1)     (* 0x17 *)
  else if iei =? 24 then Some (inl 4)     (* 0x18 *)
  else if iei =? 119 then Some (inr 2)    (* 0x77 *)
  else if iei =? 102 then Some (inr 1)    (* 0x66 *)
  else if iei =? 31 then Some (inl 3)     (* 0x1F *)
  else None.
Definition half_octet (iei:N) : bool := let h := N.land iei 240 in (h =? 128) || (h =? 192).   (* 0x80, 0xC0 *)

(* the walk over the optional IEs: o = offset of opElements in b, len = its length, cap = its capacity *)
Fixpoint walk (fuel:nat) (b:list N) (o len cap index:N) : xres (option (list N)) :=
  match fuel with
  | O => XFuel
  | S f =>
    if index <? len then
      let id := at_ b (o + index) in
      if id =? 41 then
        if index + 7 <=? cap then XOk (Some (take b (o + index + 3) 4)) else XPanic
      else if half_octet id then walk f b o len cap (index + 1)
      else match opt_len id with
           | None => XOk None                                  (* unknown IEI: stop (fix bf75daa) *)
           | Some (inl n) => walk f b o len cap (index + n)
           | Some (inr k) =>
               if k =? 1 then
                 if index + 1 <? len then walk f b o len cap (index + 2 + at_ b (o + index + 1)) else XPanic
               else
                 if index + 3 <=? cap then walk f b o len cap (index + 3 + be16_at b (o + index + 1)) else XPanic
           end
    else XOk None
  end.

Definition decode_nas_pdu_fuel (fuel:nat) (b:list N) : xres (option (list N)) :=
  let L := N.of_nat (length b) in
  if L <? 7 then XPanic else                         (* PDUSessionNASPDU[7:] *)
  if L - 7 <? 6 then XPanic else                     (* plain[4:6] *)
  let pcl := be16_at b 11 in
  if L - 7 <? 6 + pcl then XPanic else               (* plain[6 : 6+pcl] *)
  if L - 13 <? 7 then XPanic else                    (* payload[5:7] *)
  let qrl := be16_at b 18 in
  if pcl <? 14 + qrl then XPanic else                (* payload[14+qrl:] *)
  let o := 13 + 14 + qrl in
  walk fuel b o (pcl - 14 - qrl) (L - o) 0.
Definition decode_nas_pdu (b:list N) : xres (option (list N)) := decode_nas_pdu_fuel (S (length b)) b.

(* the walk over the ProtocolIE container of the transfer *)
Definition be32 (l:list N) : N := fold_left (fun a x => a * 256 + x) l 0.
Fixpoint twalk (fuel:nat) (b:list N) (offset:N) : xres (N * option (list N)) :=
  match fuel with
  | O => XFuel
  | S f =>
    let L := N.of_nat (length b) in
    if offset <? L then
      if L <? offset + 2 then XPanic else
      if negb (be16_at b offset =? 139) then
        if L <=? offset + 3 then XPanic else twalk f b (offset + 3 + at_ b (offset + 3) + 1)
      else
        let offset := offset + 3 in
        if L <=? offset then XPanic else
        let l := at_ b offset in
        let offset := offset + 1 in
        if L <? offset + l then XPanic else
        if l <? 8 then XPanic else
        XOk (be32 (take b (offset + l - 4) 4), Some (take b (offset + l - 8) 4))
    else XOk (0, None)
  end.
Definition decode_transfer (b:list N) : xres (N * option (list N)) := twalk (S (length b)) b 3.

(* ---- correspondence: observed = Some (Some ip) | Some None (nil) | None (panic) *)
Fixpoint eqb_bytes (a b:list N) : bool :=
  match a, b with [], [] => true | x::a', y::b' => (x =? y) && eqb_bytes a' b' | _, _ => false end.
Definition eqb_oip (a b:option (list N)) : bool :=
  match a, b with Some x, Some y => eqb_bytes x y | None, None => true | _, _ => false end.
Definition extract_nas_check (c:list N * option (option (list N))) : bool :=
  let '(b, o) := c in
  match decode_nas_pdu b, o with
  | XOk r, Some r' => eqb_oip r r' | XPanic, None => true | _, _ => false end.
Definition extract_transfer_check (c:list N * option (N * option (list N))) : bool :=
  let '(b, o) := c in
  match decode_transfer b, o with
  | XOk (t, r), Some (t', r') => (t =? t') && eqb_oip r r' | XPanic, None => true | _, _ => false end.
