(* Model of the NAS side of stgutg.RegisterUE (src/stgutg/ue.go) for one UE created by stgutg.CreateUE:
   which NAS PDUs the emulator puts into InitialUEMessage / UplinkNASTransport, given the configuration, the UE
   index and what the AMF sent (RAND, AUTN).  It is the composition of the models of CreateUE (C16), EncodeSuci
   (C11), GetUESecurityCapability (C16), DeriveRESstarAndSetKey (C05) and NASEncode (C06); the plain messages are the
   octets nasTestpacket's constructors produce (their layout is C09's subject and is re-checked against the real
   process on every run).  E = AES-128 block, H = HMAC-SHA-256, enc/mac = security.NASEncrypt / NASMacCalculate. *)
From Coq Require Import NArith ZArith List Bool.
Require Import Bytes Dec CreateUE SuciEnc RanUe NasSec.
Import ListNotations.
Open Scope N_scope.

Section Register.
Variable E : bytes -> bytes -> bytes.
Variable H : bytes -> bytes -> bytes.
Variable enc mac : N -> list N -> N -> N -> N -> list N -> option (list N).

Record config := { g_imsi : bytes;            (* initial_imsi: ASCII digits *)
                   g_mcc : bytes; g_mnc : bytes;   (* ASCII digits *)
                   g_k : bytes; g_opc : bytes; g_op : bytes }.   (* hex text *)

Definition len2 (b:bytes) : bytes := [N.of_nat (length b) / 256; N.of_nat (length b) mod 256].

(* nasTestpacket.GetRegistrationRequest(initial registration, SUCI, nil, ueSecurityCapability, 5GMM capability?, nil, nil):
   7E 00 41 | ngKSI 7 + registration type 1 -> 79 | LV-E mobile identity | [10 01 07] | 2E 02 capability *)
Definition registration_request (suci cap:bytes) (with_5gmm:bool) : bytes :=
  [126; 0; 65; 121] ++ len2 suci ++ suci ++ (if with_5gmm then [16; 1; 7] else []) ++ [46; 2] ++ cap.
(* GetAuthenticationResponse(RES*, ""): 7E 00 57 | 2D 10 RES* *)
Definition authentication_response (res_star:bytes) : bytes := [126; 0; 87; 45; 16] ++ res_star.
(* GetSecurityModeComplete(registration request with 5GMM capability): 7E 00 5E | 77 00 09 .. IMEISV | 71 LV-E NAS container *)
Definition imeisv_ie : bytes := [119; 0; 9; 21; 17; 0; 0; 0; 0; 0; 0; 0].
Definition security_mode_complete (container:bytes) : bytes := [126; 0; 94] ++ imeisv_ie ++ [113] ++ len2 container ++ container.
(* GetRegistrationComplete(nil): 7E 00 43 *)
Definition registration_complete : bytes := [126; 0; 67].

Record reg_out := { o_supi : bytes; o_ran_id : N;
                    o_regreq : bytes; o_authresp : bytes; o_smc_complete : bytes; o_reg_complete : bytes;
                    o_final : ue_state }.
Inductive reg_res := RegOk (o:reg_out) | RegFail (where_:nat).

Definition register_ue (g:config) (ue_index:N) (rand autn:bytes) : reg_res :=
  let u := create_ue (g_imsi g) ue_index in
  let digits := skipn 5 (u_supi u) in                          (* strings.TrimPrefix(ue.Supi, "imsi-") *)
  match encode_suci digits (length (g_mnc g)) with
  | None => RegFail 1
  | Some suci =>
    let cap := sec_cap (u_ea u) (u_ia u) in
    let regreq := registration_request suci cap false in
    match register_derive E H (u_supi u) (u_ea u) (u_ia u) (g_k g) (g_opc g) (g_op g) autn rand (g_mnc g) (g_mcc g) with
    | UeOk keys =>
      let st0 := mk_ue 0 0 (u_ea u) (u_ia u) (ue_knasenc keys) (ue_knasint keys) in
      let smc_plain := security_mode_complete (registration_request suci cap true) in
      match encode_nas_pdu_with_security enc mac st0 (Some smc_plain) 4 true true with
      | (st1, Ok smc) =>
        match encode_nas_pdu_with_security enc mac st1 (Some registration_complete) 2 true false with
        | (st2, Ok rc) =>
          RegOk {| o_supi := u_supi u; o_ran_id := u_ranid u; o_regreq := regreq;
                   o_authresp := authentication_response (ue_res_star keys);
                   o_smc_complete := smc; o_reg_complete := rc; o_final := st2 |}
        | _ => RegFail 4
        end
      | _ => RegFail 3
      end
    | _ => RegFail 2
    end
  end.
End Register.
