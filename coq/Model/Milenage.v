(* Model of free5gclib/milenage/milenage.go (the in-repo copy), transcribed loop by loop.
   Go's block.Encrypt is the section variable E; buffers are octet lists of the lengths the Go code allocates. *)
From Coq Require Import NArith ZArith List Lia Bool.
Require Import Bytes.
Import ListNotations.
Open Scope N_scope.

Section Model.
Variable E : bytes -> bytes -> bytes.

(* for i := 0; i < 16; i++ { dst[(i+r)%16] = a[i] ^ b[i] } *)
Definition scatter (r:nat) (a b:bytes) : bytes :=
  map (fun j:nat => let i := Nat.modulo (j + 16 - r) 16 in N.lxor (nth i a 0) (nth i b 0)) (seq 0 16).
Definition xor16 (a b:bytes) : bytes := scatter 0 a b.
Definition set_last_xor (l:bytes) (c:N) : bytes :=        (* tmp1[15] ^= c *)
  firstn 15 l ++ [N.lxor (nth 15 l 0) c].

Definition milenageF1 (opc k rand sqn amf:bytes) : bytes * bytes :=   (* (mac_a, mac_s) *)
  let rin := xor16 rand opc in
  let tmp1 := E k rin in
  let tmp2 := firstn 6 sqn ++ firstn 2 amf ++ firstn 6 sqn ++ firstn 2 amf in   (* copy(tmp2[8:], tmp2[0:8]) *)
  let tmp3 := scatter 8 tmp2 opc in
  let tmp3 := xor16 tmp3 tmp1 in
  let out := xor16 (E k tmp3) opc in
  (firstn 8 out, skipn 8 out).

Record f2345 := { m_res : bytes; m_ck : bytes; m_ik : bytes; m_ak : bytes; m_aks : bytes }.
Definition milenageF2345 (opc k rand:bytes) : f2345 :=
  let tmp2 := E k (xor16 rand opc) in
  let t := set_last_xor (xor16 tmp2 opc) 1 in
  let tmp3 := xor16 (E k t) opc in
  let ck := xor16 (E k (set_last_xor (scatter 12 tmp2 opc) 2)) opc in
  let ik := xor16 (E k (set_last_xor (scatter 8 tmp2 opc) 4)) opc in
  let a5 := E k (set_last_xor (scatter 4 tmp2 opc) 8) in
  {| m_res := skipn 8 tmp3; m_ak := firstn 6 tmp3; m_ck := ck; m_ik := ik; m_aks := firstn 6 (xor16 a5 opc) |}.

Definition GenerateOPC (k op:bytes) : bytes := xor16 (E k op) op.

(* os_memcmp as written: returns -i / i at the first difference (so 0 when it is at index 0) *)
Fixpoint os_memcmp_from (i:nat) (a b:bytes) (num:nat) : Z :=
  match num with O => 0%Z | S n =>
    match a, b with
    | x::a', y::b' => if x <? y then (- Z.of_nat i)%Z else if y <? x then Z.of_nat i else os_memcmp_from (S i) a' b' n
    | _, _ => 0%Z end end.
Definition os_memcmp a b num := os_memcmp_from 0 a b num.

(* Milenage_check: 0 ok (res ck ik), -1 MAC failure, -2 resync (auts) *)
Inductive check_result := CheckOk (res ck ik:bytes) | CheckMacFail | CheckResync (auts:bytes).
Definition Milenage_check (opc k sqn rand autn:bytes) : check_result :=
  let r := milenageF2345 opc k rand in
  let rx_sqn := map (fun p => N.lxor (fst p) (snd p)) (combine (firstn 6 autn) (m_ak r)) in
  if (os_memcmp rx_sqn sqn 6 <=? 0)%Z then
    let aks := m_aks r in
    let auts0 := map (fun p => N.lxor (fst p) (snd p)) (combine (firstn 6 sqn) aks) in
    CheckResync (auts0 ++ snd (milenageF1 opc k rand sqn [0;0]))
  else
    let amf := skipn 6 autn in
    let mac_a := fst (milenageF1 opc k rand rx_sqn amf) in
    if (os_memcmp mac_a (skipn 8 autn) 8 =? 0)%Z then CheckOk (m_res r) (m_ck r) (m_ik r) else CheckMacFail.
End Model.
