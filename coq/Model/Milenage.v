(* Model of free5gclib/milenage/milenage.go (the in-repo copy), transcribed statement by statement.
   Go's aes.NewCipher(k) + block.Encrypt is the section variable E (key, 16-octet block -> 16 octets);
   aes.NewCipher fails (error return) unless len(k) is 16, 24 or 32 -- the executable instance aes128
   only covers 16.  Input slices are octet lists; an index or slice bound beyond the length is MPanic
   (the harness passes slices whose capacity equals their length).  Output buffers are those the
   exported API documents (mac_a/mac_s/res 8, ck/ik 16, ak/akstar/sqn 6, autn 16, auts 14 octets);
   a nil output buffer just skips that output, so the model computes all of them. *)
From Coq Require Import NArith ZArith List Bool.
Require Import Bytes BytesLemmas.
Import ListNotations.
Open Scope N_scope.

Inductive mres (A:Type) : Type := MOk (a:A) | MErr | MPanic.
Arguments MOk {A} a.
Arguments MErr {A}.
Arguments MPanic {A}.

Definition short (n:nat) (l:bytes) : bool := Nat.ltb (length l) n.
(* aes.NewCipher: KeySizeError unless 16, 24, 32 *)
Definition aes_key_bad (k:bytes) : bool :=
  negb (Nat.eqb (length k) 16 || Nat.eqb (length k) 24 || Nat.eqb (length k) 32).

(* for i := 0; i < 16; i++ { dst[(i+r)%16] = a[i] ^ b[i] }   -- every dst index is written exactly once *)
Definition scatter (r:nat) (a b:bytes) : bytes :=
  map (fun j:nat => let i := Nat.modulo (j + 16 - r) 16 in N.lxor (nth i a 0) (nth i b 0)) (seq 0 16).
Definition xor16 (a b:bytes) : bytes := scatter 0 a b.       (* for i < 16 { dst[i] = a[i] ^ b[i] } *)
Definition set_last_xor (l:bytes) (c:N) : bytes :=          (* tmp1[15] ^= c *)
  firstn 15 l ++ [N.lxor (nth 15 l 0) c].

(* os_memcmp as coded after commit 020149a: -1 / 1 at the first differing index, 0 if none below num;
   None = index out of range *)
Fixpoint os_memcmp (a b:bytes) (num:nat) : option Z :=
  match num with
  | O => Some 0%Z
  | S n => match a, b with
           | x::a', y::b' => if x <? y then Some (-1)%Z else if y <? x then Some 1%Z else os_memcmp a' b' n
           | _, _ => None
           end
  end.

Record f2345 := { m_res : bytes; m_ck : bytes; m_ik : bytes; m_ak : bytes; m_aks : bytes }.

Section Model.
Variable E : bytes -> bytes -> bytes.

(* body of milenageF1 once the index checks have passed: (mac_a, mac_s) *)
Definition f1_core (opc k rand sqn amf:bytes) : bytes * bytes :=
  let rin := xor16 rand opc in                       (* rijndaelInput[i] = _rand[i] ^ opc[i] *)
  let tmp1 := E k rin in
  let tmp2 := firstn 6 sqn ++ firstn 2 amf ++ firstn 6 sqn ++ firstn 2 amf in   (* copy(tmp2[8:], tmp2[0:8]) *)
  let tmp3 := scatter 8 tmp2 opc in                  (* tmp3[(i+8)%16] = tmp2[i] ^ opc[i] *)
  let tmp3 := xor16 tmp3 tmp1 in                     (* tmp3[i] ^= tmp1[i] *)
  let out := xor16 (E k tmp3) opc in                 (* tmp1[i] ^= opc[i] *)
  (firstn 8 out, skipn 8 out).

Definition milenageF1 (opc k rand sqn amf:bytes) : mres (bytes * bytes) :=
  if short 16 rand || short 16 opc then MPanic       (* _rand[i] ^ opc[i] *)
  else if aes_key_bad k then MErr                    (* return err *)
  else if short 6 sqn || short 2 amf then MPanic     (* sqn[0:6], amf[0:2] *)
  else MOk (f1_core opc k rand sqn amf).

Definition f2345_core (opc k rand:bytes) : f2345 :=
  let tmp2 := E k (xor16 rand opc) in
  let t := set_last_xor (xor16 tmp2 opc) 1 in
  let tmp3 := xor16 (E k t) opc in
  let ck := xor16 (E k (set_last_xor (scatter 12 tmp2 opc) 2)) opc in
  let ik := xor16 (E k (set_last_xor (scatter 8 tmp2 opc) 4)) opc in
  let a5 := E k (set_last_xor (scatter 4 tmp2 opc) 8) in
  {| m_res := skipn 8 tmp3; m_ak := firstn 6 tmp3; m_ck := ck; m_ik := ik;
     m_aks := firstn 6 (xor16 a5 opc) |}.            (* for i < 6 { akstar[i] = tmp1[i] ^ opc[i] } *)

Definition milenageF2345 (opc k rand:bytes) : mres f2345 :=
  if short 16 rand || short 16 opc then MPanic
  else if aes_key_bad k then MErr
  else MOk (f2345_core opc k rand).

(* exported wrappers *)
Definition F1 := milenageF1.
Definition F2345 := milenageF2345.

(* GenerateOPC: block.Encrypt(opc, op) panics on a short op and uses op[:16] of a longer one *)
Definition GenerateOPC (k op:bytes) : mres bytes :=
  if aes_key_bad k then MErr
  else if short 16 op then MPanic
  else MOk (xor16 (E k (firstn 16 op)) op).

(* MilenageGenerate(opc, amf, k, sqn, _rand, autn, ik, ck, ak, res, &res_len):
   GenFail = *res_len set to 0 and no buffer written *)
Inductive gen_result := GenPanic | GenFail | GenOk (autn ik ck ak res:bytes).
Definition MilenageGenerate (opc amf k sqn rand:bytes) (res_len:N) : gen_result :=
  if res_len <? 8 then GenFail else
  match milenageF1 opc k rand sqn amf with
  | MPanic => GenPanic
  | MErr => GenFail
  | MOk (mac_a, _) =>
    match milenageF2345 opc k rand with
    | MPanic => GenPanic
    | MErr => GenFail
    | MOk r =>       (* autn[i] = sqn[i] ^ ak[i] (i<6); copy(autn[6:], amf[0:2]); copy(autn[8:], mac_a) *)
      GenOk (xor_bytes (firstn 6 sqn) (m_ak r) ++ firstn 2 amf ++ mac_a) (m_ik r) (m_ck r) (m_ak r) (m_res r)
    end
  end.

(* Milenage_check(opc, k, sqn, _rand, autn, ik, ck, res, &res_len, auts):
   CheckErr = -1 before anything is written; CheckRet rc res ck ik auts: res/ck/ik are written by the
   first milenageF2345 call whatever the return code is, *res_len = 8, auts is written only on -2 *)
Inductive check_result := CheckPanic | CheckErr | CheckRet (rc:Z) (res ck ik:bytes) (auts:option bytes).
Definition Milenage_check (opc k sqn rand autn:bytes) : check_result :=
  match milenageF2345 opc k rand with
  | MPanic => CheckPanic
  | MErr => CheckErr
  | MOk r =>
    if short 6 autn then CheckPanic else
    let rx_sqn := xor_bytes (firstn 6 autn) (m_ak r) in            (* rx_sqn[i] = autn[i] ^ ak[i] *)
    match os_memcmp rx_sqn sqn 6 with
    | None => CheckPanic
    | Some c =>
      if (c <=? 0)%Z then
        if short 6 sqn then CheckPanic else
        let auts0 := xor_bytes (firstn 6 sqn) (m_aks r) in         (* auts[i] = sqn[i] ^ ak[i] with ak = f5* *)
        match milenageF1 opc k rand sqn [0;0] with
        | MOk (_, mac_s) => CheckRet (-2) (m_res r) (m_ck r) (m_ik r) (Some (auts0 ++ mac_s))
        | MErr => CheckRet (-1) (m_res r) (m_ck r) (m_ik r) (Some auts0)
        | MPanic => CheckPanic
        end
      else
        let amf := skipn 6 autn in                                  (* amf = autn[6:] *)
        match milenageF1 opc k rand rx_sqn amf with
        | MOk (mac_a, _) =>
          match os_memcmp mac_a (skipn 8 autn) 8 with
          | None => CheckPanic
          | Some d => CheckRet (if (d =? 0)%Z then 0 else -1) (m_res r) (m_ck r) (m_ik r) None
          end
        | MErr => CheckRet (-1) (m_res r) (m_ck r) (m_ik r) None
        | MPanic => CheckPanic
        end
    end
  end.

(* Milenage_auts(opc, k, _rand, auts, sqn): AutsErr = -1 with sqn untouched; AutsRet rc sqn: the sqn
   buffer is written before MAC-S is compared, so it is filled on -1 too *)
Inductive auts_result := AutsPanic | AutsErr | AutsRet (rc:Z) (sqn:bytes).
Definition Milenage_auts (opc k rand auts:bytes) : auts_result :=
  match milenageF2345 opc k rand with
  | MPanic => AutsPanic
  | MErr => AutsErr
  | MOk r =>
    if short 6 auts then AutsPanic else
    let sqn := xor_bytes (firstn 6 auts) (m_aks r) in               (* sqn[i] = auts[i] ^ ak[i] *)
    match milenageF1 opc k rand sqn [0;0] with
    | MOk (_, mac_s) =>
      if short 14 auts then AutsPanic                               (* auts[6:14] *)
      else AutsRet (if bytes_eqb mac_s (firstn 8 (skipn 6 auts)) then 0 else -1) sqn   (* reflect.DeepEqual *)
    | MErr => AutsRet (-1) sqn
    | MPanic => AutsPanic
    end
  end.
End Model.
