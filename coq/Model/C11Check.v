(* executable oracles for the C11 correspondence run *)
From Coq Require Import NArith List Bool.
Require Import Dec SuciEnc Suci.
Import ListNotations.
Open Scope N_scope.

(* digits mcc mnc msin; observed: SUCI buffer, REGISTRATION REQUEST, DEREGISTRATION REQUEST, and every PLMN
   octet string seen (Buffer[1:4], NGSetupRequest GlobalGNBID + SupportedTAList, ULI NR-CGI + TAI) *)
Definition c11_spec_case := (list N * list N * list N * list N * list N * list N * list (list N))%type.
Definition c11_spec_check (c:c11_spec_case) : bool :=
  let '(mcc, mnc, msin, buf, reg, dereg, plmns) := c in
  suci_is buf mcc mnc msin
  && match mobile_identity_of REGISTRATION_REQUEST reg with Some mi => suci_is mi mcc mnc msin | None => false end
  && match mobile_identity_of DEREGISTRATION_REQUEST_UE_ORIG dereg with Some mi => suci_is mi mcc mnc msin | None => false end
  && forallb (fun o => plmn_is o mcc mnc) plmns.
Definition plmnnas_spec_check (c:list N * list N * list N) : bool :=
  let '(mcc, mnc, o) := c in plmn_is o mcc mnc.
