(* executable oracles for the C11 correspondence run *)
From Coq Require Import NArith List Bool.
Require Import Dec SuciEnc Suci.
Import ListNotations.
Open Scope N_scope.

(* digits mcc mnc msin; observed: SUCI buffer, REGISTRATION REQUEST, DEREGISTRATION REQUEST, and every PLMN
   octet string seen (Buffer[1:4], NGSetupRequest GlobalGNBID + SupportedTAList, ULI NR-CGI + TAI) *)
(* the identity as a conformant SENDER writes it (TS 24.501 9.11.3.4, figure 9.11.3.4.3): what suci_is asks for, and the two
   spare bits of the first octet (bits 8 and 4) coded as zero — a receiver may ignore them, the encoder may not set them *)
Definition suci_strict (b:list N) (mcc mnc msin:list N) : bool :=
  suci_is b mcc mnc msin && match b with o4 :: _ => (o4 / 128 =? 0) && ((o4 / 8) mod 2 =? 0) | [] => false end.
Definition c11_spec_case := (list N * list N * list N * list N * list N * list N * list (list N))%type.
Definition c11_spec_check (c:c11_spec_case) : bool :=
  let '(mcc, mnc, msin, buf, reg, dereg, plmns) := c in
  suci_strict buf mcc mnc msin
  && match mobile_identity_of REGISTRATION_REQUEST reg with Some mi => suci_strict mi mcc mnc msin | None => false end
  && match mobile_identity_of DEREGISTRATION_REQUEST_UE_ORIG dereg with Some mi => suci_strict mi mcc mnc msin | None => false end
  && forallb (fun o => plmn_is o mcc mnc) plmns.
Definition plmnnas_spec_check (c:list N * list N * list N) : bool :=
  let '(mcc, mnc, o) := c in plmn_is o mcc mnc.
