(* Executable transcription of free5gclib/aper/marshal.go (byte level: perRawBitData = bytes + bitsOffset).
   Go's uint/uint64 are N reduced mod 2^64 where the code can wrap, int64 is Z with [i64]; every index /
   slice expression goes through GoSlice and yields [Panic] when out of range. *)
From Coq Require Import NArith ZArith List Bool String.
Require Import GoSlice AperCommon.
Import ListNotations.
Open Scope N_scope.

Record est := mkest { e_bytes : list N; e_bitsOffset : N }.          (* perRawBitData *)

Definition appendAlignBits (s : est) : est := mkest (e_bytes s) 0.

Definition append_bytes (s : est) (bs : list N) : est := mkest (e_bytes s ++ bs) (e_bitsOffset s).

(* pd.bytes[currentByte] |= x   with currentByte := len(pd.bytes) - 1 *)
Definition or_last (bytes : list N) (x : N) : res (list N) :=
  let cur := sub64 (len bytes) 1 in
  do b <- idx bytes cur; upd bytes cur (N.lor b x).

Definition putBitString (s : est) (bytes : list N) (numBits : N) : res est :=
  do bytes <- slice_to bytes (N.shiftr (u64 (numBits + 7)) 3);
  let off := e_bitsOffset s in
  if off =? 0 then Ok (mkest (e_bytes s ++ bytes) (N.land numBits 7))
  else
    let bitsLeft := sub64 8 off in
    do pb <-
      (if numBits <=? bitsLeft then
         do b0 <- idx bytes 0; or_last (e_bytes s) (shr8 b0 off)
       else
         let bytes' := 0 :: bytes in
         do shiftBytes <- GetBitString bytes' bitsLeft (u64 (off + numBits));
         do h <- idx shiftBytes 0;
         do pb <- or_last (e_bytes s) h;
         do tl <- slice_from shiftBytes 1;
         Ok (pb ++ tl));
    Ok (mkest pb (N.land (u64 (N.land numBits 7 + off)) 7)).

(* for i = int(Byteslen) - 2; value > 0; i-- *)
Fixpoint pbv_loop (fuel : nat) (i : Z) (value : N) (tmp : list N) : res (list N) :=
  match fuel with
  | O => OutOfFuel
  | S f =>
      if value =? 0 then Ok tmp
      else if (i <? 0)%Z then Err E_OVER_CAPACITY
      else do tmp' <- upd tmp (Z.to_N i) (N.land value 255); pbv_loop f (i - 1)%Z (N.shiftr value 8) tmp'
  end.

Definition putBitsValue (s : est) (value numBits : N) : res est :=
  if numBits =? 0 then Ok s
  else
    let Byteslen := N.shiftr (u64 (numBits + 7)) 3 in
    do tmp <- make_bytes Byteslen;
    let bitOff := let b := N.land numBits 7 in if b =? 0 then 8 else b in
    let LeftbitOff := 8 - bitOff in
    do tmp <- upd tmp (sub64 Byteslen 1) (N.land (shl64 value LeftbitOff) 255);
    let value := shr64 value bitOff in
    do tmp <- pbv_loop 10 (Z.of_N Byteslen - 2)%Z value tmp;
    putBitString s tmp numBits.

(* `for i = 1; i <= 8; i++ { if 1<<i >= x break }` : the value of i afterwards *)
Fixpoint bits_loop (fuel : nat) (i : N) (x : Z) : N :=
  match fuel with
  | O => i
  | S f => if (Z.of_N (N.shiftl 1 i) >=? x)%Z then i else bits_loop f (i + 1) x
  end.
Definition go_bits (x : Z) : N := bits_loop 8 1 x.

Definition appendConstraintValue (s : est) (valueRange : Z) (value : N) : res est :=
  if (valueRange <=? 255)%Z then
    if (valueRange <? 0)%Z then Err E_RANGE_NEG
    else putBitsValue s value (go_bits valueRange)
  else if (valueRange =? 256)%Z then putBitsValue (appendAlignBits s) value 8
  else if (valueRange <=? 65536)%Z then putBitsValue (appendAlignBits s) value 16
  else Err E_RANGE_BIG.

Definition appendLength (s : est) (sizeRange : Z) (value : N) : res est :=
  if ((sizeRange <=? 65536) && (0 <? sizeRange))%Z then appendConstraintValue s sizeRange value
  else
    let s := appendAlignBits s in
    if value <=? 127 then putBitsValue s value 8
    else if value <=? 16383 then putBitsValue s (N.lor value 32768) 16
    else putBitsValue s (N.lor (N.shiftr value 14) 192) 8.

Definition ignore_err (s : est) (r : res est) : res est :=
  match r with Ok s' => Ok s' | Err _ => Ok s | Panic p => Panic p | OutOfFuel => OutOfFuel end.

(* the common prologue of appendBitString / appendOctetString: (state, lb, ub, sizeRange) *)
Definition size_prologue (s : est) (n : N) (ext : bool) (lbp ubp : option Z) (e_over : N) : res (est * Z * Z * Z) :=
  match lbp with
  | None => Ok (s, 0, -1, -1)%Z
  | Some lb0 =>
      match ubp with
      | None => Ok (s, lb0, -1, -1)%Z
      | Some ub0 =>
          let fits := n <=? u64z ub0 in
          if negb fits && negb ext then Err e_over
          else
            let sizeRange := if fits then i64 (ub0 - lb0 + 1) else (-1)%Z in
            if ext then
              if (sizeRange =? -1)%Z then do s' <- ignore_err s (putBitsValue s 1 1); Ok (s', 0%Z, ub0, sizeRange)
              else do s' <- ignore_err s (putBitsValue s 0 1); Ok (s', lb0, ub0, sizeRange)
            else Ok (s, lb0, ub0, sizeRange)
      end
  end.

Definition part_of (rawLength : N) : N :=
  if 65536 <? rawLength then 65536 else if 16384 <=? rawLength then N.land rawLength 49152 else rawLength.

(* the fragment loop of appendBitString; [unit] = 8 for bit strings (sizes = (part+7)>>3) *)
Fixpoint bits_frag_loop (fuel : nat) (s : est) (bytes : list N) (sizeRange lb : Z) (rawLength byteOffset : N) : res est :=
  match fuel with
  | O => OutOfFuel
  | S f =>
      let part := part_of rawLength in
      do s <- appendLength s sizeRange part;
      let part := u64 (part + u64z lb) in
      let sizes := N.shiftr (u64 (part + 7)) 3 in
      if part =? 0 then Ok s
      else
        let s := appendAlignBits s in
        do chunk <- slice bytes byteOffset (u64 (byteOffset + sizes));
        let s := append_bytes s chunk in
        let rawLength := sub64 rawLength (sub64 part (u64z lb)) in
        if 0 <? rawLength then bits_frag_loop f s bytes sizeRange lb rawLength (u64 (byteOffset + sizes))
        else Ok (mkest (e_bytes s) (u64 (e_bitsOffset s + N.land part 7)))
  end.

Definition appendBitString (s : est) (bytes : list N) (bitsLength : N) (ext : bool) (lbp ubp : option Z) : res est :=
  do (s, lb, ub, sizeRange) <- size_prologue s bitsLength ext lbp ubp E_BITS_OVER_UB;
  let sizeRange := if (65535 <? ub)%Z then (-1)%Z else sizeRange in
  let sizes := N.shiftr (u64 (bitsLength + 7)) 3 in
  let shift := 8 - N.land bitsLength 7 in
  do bytes <- (if shift =? 8 then Ok bytes
               else do b <- idx bytes (sub64 sizes 1); upd bytes (sub64 sizes 1) (N.land b (shl8 255 shift)));
  if (sizeRange =? 1)%Z then
    if negb (bitsLength =? u64z ub) then Err E_BITS_FIX       (* returned at once since fix b7bd054 *)
    else if 2 <? sizes then
      let s := appendAlignBits s in
      Ok (mkest (e_bytes s ++ bytes) (N.land (u64z ub) 7))
    else putBitString s bytes bitsLength
  else
    let rawLength := sub64 bitsLength (u64z lb) in
    bits_frag_loop (S (List.length bytes)) s bytes sizeRange lb rawLength 0.

Fixpoint oct_frag_loop (fuel : nat) (s : est) (bytes : list N) (sizeRange lb : Z) (rawLength byteOffset : N) : res est :=
  match fuel with
  | O => OutOfFuel
  | S f =>
      let part := part_of rawLength in
      do s <- appendLength s sizeRange part;
      let part := u64 (part + u64z lb) in
      if part =? 0 then Ok s
      else
        let s := appendAlignBits s in
        do chunk <- slice bytes byteOffset (u64 (byteOffset + part));
        let s := append_bytes s chunk in
        let rawLength := sub64 rawLength (sub64 part (u64z lb)) in
        if 0 <? rawLength then oct_frag_loop f s bytes sizeRange lb rawLength (u64 (byteOffset + part))
        else Ok s
  end.

Definition appendOctetString (s : est) (bytes : list N) (ext : bool) (lbp ubp : option Z) : res est :=
  let byteLen := len bytes in
  do (s, lb, ub, sizeRange) <- size_prologue s byteLen ext lbp ubp E_OCT_OVER_UB;
  let sizeRange := if (65535 <? ub)%Z then (-1)%Z else sizeRange in
  if (sizeRange =? 1)%Z then
    if negb (byteLen =? u64z ub) then Err E_OCT_FIX
    else if 2 <? byteLen then Ok (append_bytes (appendAlignBits s) bytes)
    else putBitString s bytes (u64 (byteLen * 8))
  else
    let rawLength := sub64 byteLen (u64z lb) in
    oct_frag_loop (S (List.length bytes)) s bytes sizeRange lb rawLength 0.

Definition appendBool (s : est) (b : bool) : res est := putBitsValue s (if b then 1 else 0) 1.

(* for rawLength = 1; rawLength <= 127; rawLength++ { if u == 0 break; u >>= 8 } *)
Fixpoint rawlen_loop (fuel : nat) (rawLength u : N) : N :=
  match fuel with
  | O => rawLength
  | S f => if u =? 0 then rawLength else rawlen_loop f (rawLength + 1) (N.shiftr u 8)
  end.
(* for byteLen = 1; byteLen <= 127; byteLen++ { u >>= 8; if u == 0 break }      (`<= 1` before fix 8116821) *)
Fixpoint bytelen_loop (fuel : nat) (byteLen u : N) : N :=
  match fuel with
  | O => byteLen
  | S f => let u' := N.shiftr u 8 in if u' =? 0 then byteLen else bytelen_loop f (byteLen + 1) u'
  end.

Definition appendInteger (s : est) (value : Z) (ext : bool) (lbp ubp : option Z) : res est :=
  do (s, lb, valueRange) <-
    match lbp with
    | None => Ok (s, 0%Z, (-1)%Z)
    | Some lb =>
        if (value <? lb)%Z then Err E_INT_SMALL
        else match ubp with
             | None => Ok (s, lb, 0%Z)
             | Some ub =>
                 let fits := (value <=? ub)%Z in
                 if negb fits && negb ext then Err E_INT_LARGE
                 else
                   let valueRange := if fits then i64 (ub - lb + 1) else 0%Z in
                   if ext then
                     if (valueRange =? 0)%Z then do s' <- ignore_err s (putBitsValue s 1 1); Ok (s', lb, (-1)%Z)
                     else do s' <- ignore_err s (putBitsValue s 0 1); Ok (s', lb, valueRange)
                   else Ok (s, lb, valueRange)
             end
    end;
  if (valueRange =? 1)%Z then Ok s
  else
    let unsignedValue := if (value <? 0)%Z then sub64 (u64z (- value)) 1 else u64z value in
    if ((0 <? valueRange) && (valueRange <=? 65536))%Z then appendConstraintValue s valueRange (u64z (value - lb))
    else
      let unsignedValue := if (valueRange <=? 0)%Z then N.shiftr unsignedValue 7 else N.shiftr unsignedValue 8 in
      let rawLength := rawlen_loop 127 1 unsignedValue in
      do s <-
        (if (valueRange <=? 0)%Z then Ok (append_bytes (appendAlignBits s) [N.land rawLength 255])
         else
           let byteLen := bytelen_loop 127 1 (u64z (valueRange - 1)) in
           let i := go_bits (Z.of_N byteLen) in
           putBitsValue s (sub64 rawLength 1) i);
      let rawLength := u64 (rawLength * 8) in
      let s := appendAlignBits s in
      if (valueRange <? 0)%Z then
        let mask := (i64n (shl64 1 rawLength) - 1)%Z in
        putBitsValue s (u64z (Z.land value mask)) rawLength
      else putBitsValue s (u64z (value - lb)) rawLength.

Definition appendEnumerated (s : est) (value : N) (ext : bool) (lbp ubp : option Z) : res est :=
  match lbp, ubp with
  | Some lb, Some ub =>
      let signedValue := i64n value in
      if (ub <? signedValue)%Z then (if ext then Err E_ENUM_EXT else Err E_ENUM_LARGE)
      else if (signedValue <? lb)%Z then Err E_ENUM_SMALL
      else
        do s <- (if ext then putBitsValue s 0 1 else Ok s);
        let valueRange := i64 (ub - lb + 1) in
        if (1 <? valueRange)%Z then appendConstraintValue s valueRange value else Ok s
  | _, _ => Err E_ENUM_CONSTR
  end.

Definition appendChoiceIndex (s : est) (present : Z) (ext : bool) (ubp : option Z) : res est :=
  let rawChoice := (present - 1)%Z in
  match ubp with
  | None => Err E_CHOICE_NOUB
  | Some ub =>
      if (ub <? 0)%Z then Err E_CHOICE_NEGUB
      else if ext && (ub <? rawChoice)%Z then Err E_CHOICE_EXT
      else appendConstraintValue s (i64 (ub + 1)) (u64z rawChoice)
  end.

Definition clear_size (p : params) : params :=
  mkp (p_optional p) false (p_valueExt p) (p_openType p) None None (p_valueLB p) (p_valueUB p) (p_refValue p) (p_refName p).
Definition set_ref (p : params) (r : option Z) : params :=
  mkp (p_optional p) (p_sizeExt p) (p_valueExt p) (p_openType p) (p_sizeLB p) (p_sizeUB p) (p_valueLB p) (p_valueUB p) r (p_refName p).

Fixpoint open_frag_loop (fuel : nat) (s : est) (bytes : list N) (rawLength byteOffset : N) : res est :=
  match fuel with
  | O => OutOfFuel
  | S f =>
      let part := part_of rawLength in
      do s <- appendLength s (-1) part;
      if part =? 0 then Ok s
      else
        let s := appendAlignBits s in
        do chunk <- slice bytes byteOffset (u64 (byteOffset + part));
        let s := append_bytes s chunk in
        let rawLength := sub64 rawLength part in
        if 0 <? rawLength then open_frag_loop f s bytes rawLength (u64 (byteOffset + part))
        else Ok (appendAlignBits s)
  end.

(* reflect's IsNil on the field value: defined for pointers and slices only *)
Definition is_nil (t : ty) (v : val) : res bool :=
  match t, v with
  | TPtr _, VNil => Ok true
  | TPtr _, VPtr _ => Ok false
  | TSlice _, VList [] => Ok true        (* a nil slice; an empty non-nil slice cannot be expressed in [val] *)
  | TSlice _, VList _ => Ok false
  | TPtr _, _ | TSlice _, _ => Panic P_ILLTYPED
  | _, _ => Panic P_REFLECT
  end.

Section Fields.
  Variable rec : ty -> params -> val -> est -> res est.      (* makeField with one unit of fuel less *)

  Definition encSequenceOf (e : ty) (p : params) (l : list val) (s : est) : res est :=
    let numElements := Z.of_nat (List.length l) in
    let lb := match p_sizeLB p with Some x => if (x <? 65536)%Z then x else 0%Z | None => 0%Z end in
    do (s, ub, sizeRange) <-
      match p_sizeUB p with
      | Some ub =>
          if (ub <? 65536)%Z then
            if p_sizeExt p then
              if (ub <? numElements)%Z then do s <- putBitsValue s 1 1; Ok (s, ub, (-1)%Z)
              else do s <- putBitsValue s 0 1; Ok (s, ub, i64 (ub - lb + 1))
            else if (ub <? numElements)%Z then Err E_SEQOF_LARGE
            else Ok (s, ub, i64 (ub - lb + 1))
          else Ok (s, (-1)%Z, (-1)%Z)
      | None => Ok (s, (-1)%Z, (-1)%Z)
      end;
    do s <-
      (if (numElements <? lb)%Z then Err E_SEQOF_SMALL
       else if (sizeRange =? 1)%Z then (if negb (numElements =? ub)%Z then Err E_SEQOF_FIX else Ok s)
       else if (0 <? sizeRange)%Z then appendConstraintValue s sizeRange (u64z (numElements - lb))
       else Ok (append_bytes (appendAlignBits s) [Z.to_N (Z.land numElements 255)]));
    let p' := clear_size p in
    (fix elems (l : list val) (s : est) : res est :=
       match l with [] => Ok s | x :: r => do s' <- rec e p' x s; elems r s' end) l s.

  Definition appendOpenType (t : ty) (p : params) (v : val) (s : est) : res est :=
    do inner <- rec t p v (mkest [] 0);
    let openTypeBytes := e_bytes inner in
    open_frag_loop (S (List.length openTypeBytes)) s openTypeBytes (len openTypeBytes) 0.

  (* first pass over the fields: OPTIONAL bitmap, nil check *)
  Fixpoint opt_pass (seqType : bool) (fs : list field) (vs : list val) (cnt pres : N) : res (N * N) :=
    match fs, vs with
    | [], [] => Ok (cnt, pres)
    | f :: fr, v :: vr =>
        if seqType then
          if p_optional (f_params f) then
            do isnil <- is_nil (f_ty f) v;
            opt_pass seqType fr vr (cnt + 1) (u64 (2 * pres) + (if isnil then 0 else 1))
          else match f_ty f, v with
               | TPtr _, VNil => Err E_NIL_IN_SEQ
               | _, _ => opt_pass seqType fr vr cnt pres
               end
        else opt_pass seqType fr vr cnt pres
    | _, _ => Panic P_ILLTYPED
    end.

  Fixpoint seq_loop (allf : list field) (allv : list val) (fs : list field) (vs : list val) (i : nat)
           (cnt pres : N) (s : est) : res est :=
    match fs, vs with
    | [], [] => Ok s
    | f :: fr, v :: vr =>
        let fp := f_params f in
        let dec := p_optional fp && (0 <? cnt) in
        let cnt' := if dec then cnt - 1 else cnt in
        if dec && (N.land pres (shl64 1 cnt') =? 0) then seq_loop allf allv fr vr (S i) cnt' pres s
        else
          do fp' <-
            (if p_openType fp then
               let index := find_field (p_refName fp) allf i 0 in
               if Nat.eqb index i then Err E_OPEN_NOFIELD
               else match nth_error allf index, nth_error allv index with
                    | Some rf, Some rv => do z <- get_ref REF_FUEL (f_ty rf) rv; Ok (set_ref fp (Some z))
                    | _, _ => Panic P_ILLTYPED
                    end
             else Ok fp);
          do s' <- rec (f_ty f) fp' v s;
          seq_loop allf allv fr vr (S i) cnt' pres s'
    | _, _ => Panic P_ILLTYPED
    end.

  Definition encStruct (fs : list field) (p : params) (vs : list val) (s : est) : res est :=
    do s <- (if p_valueExt p then putBitsValue s 0 1 else Ok s);
    let seqType := negb (is_choice fs) in
    do (cnt, pres) <- opt_pass seqType fs vs 0 0;
    do s <- (if 0 <? cnt then putBitsValue s pres cnt else Ok s);
    if seqType then seq_loop fs vs fs vs 0 cnt pres s
    else
      match vs with
      | VInt present :: _ =>
          if (present =? 0)%Z then Err E_PRESENT_0
          else if (present >=? Z.of_nat (List.length fs))%Z then Err E_PRESENT_BIG
          else
            let sel := if (present <? 0)%Z then None
                       else match nth_error fs (Z.to_nat present), nth_error vs (Z.to_nat present) with
                            | Some f, Some v => Some (f, v) | _, _ => None end in
            if p_openType p then
              match p_refValue p with
              | None => Err E_OPEN_NOREF
              | Some refValue =>
                  match sel with
                  | None => Panic P_INDEX                       (* structParams[present], present < 0 *)
                  | Some (f, v) =>
                      match p_refValue (f_params f) with
                      | Some r => if (r =? refValue)%Z then appendOpenType (f_ty f) (f_params f) v s
                                  else Err E_OPEN_MISMATCH
                      | None => Err E_OPEN_MISMATCH
                      end
                  end
              end
            else
              do s <- appendChoiceIndex s present (p_valueExt p) (p_valueUB p);
              match sel with
              | None => Panic P_REFLECT                         (* val.Field(present), present < 0 *)
              | Some (f, v) => rec (f_ty f) (f_params f) v s
              end
      | _ => Panic P_ILLTYPED
      end.
End Fields.

Fixpoint makeField (fuel : nat) (t : ty) (p : params) (v : val) (s : est) : res est :=
  match fuel with
  | O => OutOfFuel
  | S f =>
      match t, v with
      | TPtr _, VNil => Err E_NIL_VALUE
      | TPtr e, VPtr v' => makeField f e p v' s
      | TBits, VBits bs n => appendBitString s bs n (p_sizeExt p) (p_sizeLB p) (p_sizeUB p)
      | TOid, _ => Err E_OID
      | TOctets, VOctets bs => appendOctetString s bs (p_sizeExt p) (p_sizeLB p) (p_sizeUB p)
      | TEnum, VEnum n => appendEnumerated s n (p_valueExt p) (p_valueLB p) (p_valueUB p)
      | TBool, VBool b => appendBool s b
      | TInt, VInt z => appendInteger s z (p_valueExt p) (p_valueLB p) (p_valueUB p)
      | TStruct fs, VStruct vs => encStruct (makeField f) fs p vs s
      | TSlice e, VList l => encSequenceOf (makeField f) e p l s
      | TString, VOctets bs => appendOctetString s bs (p_sizeExt p) (p_sizeLB p) (p_sizeUB p)
      | _, _ => Panic P_ILLTYPED
      end
  end.

(* nesting depth of a type: the fuel makeField / parseField need *)
Fixpoint ty_depth (t : ty) : nat :=
  match t with
  | TSlice e | TPtr e => S (ty_depth e)
  | TStruct fs => S ((fix go (fs : list (string * params * ty)) : nat :=
                        match fs with [] => O | (_, _, t') :: r => Nat.max (ty_depth t') (go r) end) fs)
  | _ => 1%nat
  end.

Definition marshal_fuel (fuel : nat) (t : ty) (p : params) (v : val) : res (list N) :=
  do s <- makeField fuel t p v (mkest [] 0);
  match e_bytes s with [] => Ok [0] | bs => Ok bs end.

(* MarshalWithParams(val, params) *)
Definition marshal (t : ty) (p : params) (v : val) : res (list N) := marshal_fuel (S (ty_depth t)) t p v.
