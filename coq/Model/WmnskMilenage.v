(* Model of github.com/wmnsk/milenage v1.2.1 (module cache), the library DeriveRESstarAndSetKey uses:
   New / NewWithOPc, validateLength, computeOPc, f1base / F1 / F1Star, F2345, F5Star, ComputeRESStar.
   E = aes.NewCipher(key) + Encrypt of one block; H = HMAC-SHA-256.  The struct is a record; the
   OP / OPc fields are options (nil or a slice).  Every method starts with validateLength: K 16,
   OP 16 if present, OPc 16 if present, RAND 16 octets (the other fields are allocated by New with the
   right sizes and F1/F2345 re-slice them to the same sizes) -- WErr is that error return. *)
From Coq Require Import NArith List Bool.
Require Import Bytes Milenage.
Import ListNotations.
Open Scope N_scope.

Record wm := { w_K : bytes; w_OP : option bytes; w_OPc : option bytes; w_RAND : bytes;
               w_SQN : bytes; w_AMF : bytes }.

(* New(k, op, rand, sqn uint64, amf uint16): SQN = octets 2..7 of the big-endian uint64, AMF big-endian *)
Definition wm_sqn (sqn:N) : bytes := skipn 2 (N_to_be 8 (sqn mod 2^64)).
Definition wm_amf (amf:N) : bytes := N_to_be 2 (amf mod 65536).
Definition New (k op rand:bytes) (sqn amf:N) : wm :=
  {| w_K := k; w_OP := Some op; w_OPc := None; w_RAND := rand; w_SQN := wm_sqn sqn; w_AMF := wm_amf amf |}.
Definition NewWithOPc (k opc rand:bytes) (sqn amf:N) : wm :=
  {| w_K := k; w_OP := None; w_OPc := Some opc; w_RAND := rand; w_SQN := wm_sqn sqn; w_AMF := wm_amf amf |}.

Definition len_is (n:nat) (l:bytes) : bool := Nat.eqb (length l) n.
Definition opt_len_is (n:nat) (o:option bytes) : bool := match o with None => true | Some l => len_is n l end.
Definition validateLength (m:wm) : bool :=
  len_is 16 (w_K m) && opt_len_is 16 (w_OP m) && opt_len_is 16 (w_OPc m) && len_is 16 (w_RAND m)
  && len_is 6 (w_SQN m) && len_is 2 (w_AMF m).

Inductive wres (A:Type) : Type := WOk (a:A) | WErr | WPanic.
Arguments WOk {A} a.
Arguments WErr {A}.
Arguments WPanic {A}.

Section Wmnsk.
Variable E : bytes -> bytes -> bytes.
Variable H : bytes -> bytes -> bytes.

(* computeOPc: OPc = make(16); cipherText = E_K(OP); bytes = xor(cipherText, OP); copy octet by octet
   (the loop guard `i > len(m.OPc)` never fires for 16 octets).  OP == nil cannot be reached through
   New / NewWithOPc (it would make block.Encrypt panic on an empty input). *)
Definition computeOPc (m:wm) : wres bytes :=
  match w_OP m with
  | Some op => WOk (xor_bytes (E (w_K m) op) op)
  | None => WPanic
  end.
(* `if m.OPc == nil { computeOPc }` -- the value then cached in m.OPc *)
Definition opc_of_wm (m:wm) : wres bytes :=
  match w_OPc m with Some opc => WOk opc | None => computeOPc m end.

(* f1base(sqn, amf): 16 octets, MAC-A = [:8], MAC-S = [8:]; sqn[i] (i<6) and amf[i] (i<2) are indexed *)
Definition f1base (m:wm) (sqn amf:bytes) : wres bytes :=
  if negb (validateLength m) then WErr else
  match opc_of_wm m with
  | WOk opc =>
    if short 6 sqn || short 2 amf then WPanic else
    let temp := E (w_K m) (xor16 (w_RAND m) opc) in
    let in1 := firstn 6 sqn ++ firstn 2 amf ++ firstn 6 sqn ++ firstn 2 amf in
    let rin := xor16 (scatter 8 in1 opc) temp in      (* rijndaelInput[(i+8)%16] = in1[i]^OPc[i]; then ^= temp[i] *)
    WOk (xor_bytes (E (w_K m) rin) opc)
  | WErr => WErr
  | WPanic => WPanic
  end.
Definition wF1 (m:wm) : wres bytes :=
  match f1base m (w_SQN m) (w_AMF m) with WOk mac => WOk (firstn 8 mac) | WErr => WErr | WPanic => WPanic end.
Definition wF1Star (m:wm) (sqn amf:bytes) : wres bytes :=
  match f1base m sqn amf with WOk mac => WOk (skipn 8 mac) | WErr => WErr | WPanic => WPanic end.

(* F2345: (res, ck, ik, ak); the single rijndaelInput buffer is overwritten completely before each use *)
Definition wF2345 (m:wm) : wres (bytes * bytes * bytes * bytes) :=
  if negb (validateLength m) then WErr else
  match opc_of_wm m with
  | WOk opc =>
    let temp := E (w_K m) (xor16 (w_RAND m) opc) in
    let tmp := xor_bytes (E (w_K m) (set_last_xor (xor16 temp opc) 1)) opc in
    let ck := xor_bytes (E (w_K m) (set_last_xor (scatter 12 temp opc) 2)) opc in
    let ik := xor_bytes (E (w_K m) (set_last_xor (scatter 8 temp opc) 4)) opc in
    WOk (skipn 8 tmp, ck, ik, firstn 6 tmp)
  | WErr => WErr
  | WPanic => WPanic
  end.
Definition wF5Star (m:wm) : wres bytes :=
  if negb (validateLength m) then WErr else
  match opc_of_wm m with
  | WOk opc =>
    let temp := E (w_K m) (xor16 (w_RAND m) opc) in
    WOk (firstn 6 (xor_bytes (E (w_K m) (set_last_xor (scatter 4 temp opc) 8)) opc))
  | WErr => WErr
  | WPanic => WPanic
  end.

(* ComputeRESStar(mcc, mnc) with the RES, CK, IK left in the struct by F2345 (8, 16, 16 octets):
   snn = fmt.Sprintf("5G:mnc%s.mcc%s.3gppnetwork.org", mnc, mcc), a 2-character mnc first becoming "0"+mnc;
   b = 0x6b || snn || be16(len snn) || RAND || be16(len RAND) || RES || be16(len RES) laid out in a
   63-octet buffer (snn is checked to be 32 octets, RAND 16 and RES 8 by validateLength);
   key = CK || IK; result = last 16 octets of the HMAC *)
Definition s_5G_mnc : bytes := [53;71;58;109;110;99].
Definition s_mcc : bytes := [46;109;99;99].
Definition s_3gpp : bytes := [46;51;103;112;112;110;101;116;119;111;114;107;46;111;114;103].
Definition be16 (n:nat) : bytes := N_to_be 2 (N.of_nat n mod 65536).
Definition ComputeRESStar (m:wm) (res ck ik:bytes) (mcc mnc:bytes) : wres bytes :=
  if negb (validateLength m) then WErr else
  if negb (len_is 3 mcc) then WErr else
  match (if len_is 2 mnc then Some (48 :: mnc) else if len_is 3 mnc then Some mnc else None) with
  | None => WErr
  | Some mnc3 =>
    let snn := s_5G_mnc ++ mnc3 ++ s_mcc ++ mcc ++ s_3gpp in
    if negb (len_is 32 snn) then WErr else
    let b := [107] ++ snn ++ be16 (length snn) ++ w_RAND m ++ be16 (length (w_RAND m)) ++ res ++ be16 (length res) in
    let out := H (ck ++ ik) b in
    WOk (skipn (length out - 16) out)
  end.
End Wmnsk.
