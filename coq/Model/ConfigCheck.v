(* executable end-to-end oracle for the C18 correspondence run (uses the regenerated wiring) *)
From Coq Require Import List String Bool Arith ZArith.
Require Import DriverTypes ConfigDoc Config MainWiring.
Import ListNotations.
Open Scope string_scope.

(* ---- end-to-end oracle for the correspondence run: the file's value for each documented key is found in the
   field that main() passes to each documented consumer / uses as the documented loop bound.
   [obs] = the fields of the struct GetConfiguration returned, as text. *)
Fixpoint bound_fields (b:bound) : list string :=
  match b with BCfg f => [f] | BMin x y => bound_fields x ++ bound_fields y | _ => [] end.
Definition loop_bound_of (w:list step) (proc:string) : list string :=
  flat_map (fun s => match s with Loop b cs => if existsb (fun c => String.eqb (c_proc c) proc) cs then bound_fields b else [] | _ => [] end) w.
Definition conf_spec_check (c:list (string * string) * list (string * string)) : bool :=
  let (file, obs) := c in
  let value_of k := match find (fun kv => String.eqb (fst kv) k) file with Some kv => Some (snd kv) | None => None end in
  let holds f v := match get obs f with Some v' => String.eqb v v' | None => false end in
  forallb (fun d => match value_of (fst (fst d)) with None => true | Some v =>
     forallb (fun cons => let (proc, pos) := match cons with CArg p n => (p, n) end in
        forallb (fun cl => match nth_error (c_args cl) pos with
                           | Some (ACfg f) => if String.eqb proc "net.InterfaceByName" then true else holds f v
                           | _ => false end)
                (flat_map (fun w => calls_of w proc) [wiring_mode1; wiring_mode2])) (snd d) end) documented_keys
  && forallb (fun pk => match value_of (snd pk) with None => true | Some v => existsb (fun f => holds f v) (loop_bound_of wiring_mode2 (fst pk)) end)
             documented_loops_test_mode
  && match value_of (snd documented_loop_traffic_mode) with None => true
     | Some v => existsb (fun f => holds f v) (loop_bound_of wiring_mode1 (fst documented_loop_traffic_mode)) end.
