(* Correspondence glue for C05: one observed case of the `derive` / `wmnsk` harness commands and the
   executable judgements observed = model (Model/RanUe.v, E := aes128, H := hmac_sha256) and
   observed = specification (Spec/TS33501.v network side). *)
From Coq Require Import NArith ZArith List Bool.
Require Import Bytes BytesLemmas AES SHA256 Milenage WmnskMilenage Kdf RanUe TS35206 TS33501.
Import ListNotations.
Open Scope N_scope.

Notation "a == b" := (bytes_eqb a b) (at level 70).

(* inputs: K / OPc / OP as configured (hex text), RAND, AUTN, mcc, mnc, SUPI, ea, ia;
   st 0 = returned, 2 = panic; then RES*, K_AMF, K_NASint, K_NASenc *)
Record c05_case := { i_k : bytes; i_opc : bytes; i_op : bytes; i_rand : bytes; i_autn : bytes; i_mcc : bytes; i_mnc : bytes;
                     i_supi : bytes; i_ea : N; i_ia : N; o_st : N; o_res_star : bytes; o_kamf : bytes; o_knasint : bytes; o_knasenc : bytes }.

Definition c05_model_check (c:c05_case) : bool :=
  match register_derive aes128 hmac_sha256 (i_supi c) (i_ea c) (i_ia c) (i_k c) (i_opc c) (i_op c) (i_autn c) (i_rand c) (i_mnc c) (i_mcc c) with
  | UeOk r => (o_st c =? 0) && (o_res_star c == ue_res_star r) && (o_kamf c == ue_kamf r)
              && (o_knasint c == ue_knasint r) && (o_knasenc c == ue_knasenc r)
  | UePanic => o_st c =? 2
  | UeFatal => false          (* the process would have exited: such inputs are never sent *)
  end.

(* the property's domain: K, RAND, AUTN of 16 octets, OPc (or OP when no OPc is configured) of 16 octets,
   MCC of 3 and MNC of 2 or 3 digits, SUPI = "imsi-" followed by 5..15 digits, algorithm ids below 4.
   Outside it the judgement is left to the model. *)
Definition all_digits (s:bytes) : bool := forallb is_digit s.
Definition c05_in_domain (c:c05_case) : option (bytes * bytes * bytes) :=      (* (K, OPc, IMSI digits) *)
  match hex_decode (i_k c), (match i_opc c with [] => hex_decode (i_op c) | _ => hex_decode (i_opc c) end) with
  | Some k, Some o =>
    let d := skipn 5 (i_supi c) in
    if Nat.eqb (length k) 16 && Nat.eqb (length o) 16 && Nat.eqb (length (i_rand c)) 16 && Nat.eqb (length (i_autn c)) 16
       && Nat.eqb (length (i_mcc c)) 3 && all_digits (i_mcc c)
       && (Nat.eqb (length (i_mnc c)) 2 || Nat.eqb (length (i_mnc c)) 3) && all_digits (i_mnc c)
       && (firstn 5 (i_supi c) == s_imsi_dash) && all_digits d && Nat.leb 5 (length d) && Nat.leb (length d) 15
       && (i_ea c <? 4) && (i_ia c <? 4)
    then Some (k, match i_opc c with [] => opc_of aes128 k o | _ => o end, d) else None
  | _, _ => None
  end.
Definition c05_spec_check (c:c05_case) : bool :=
  match c05_in_domain c with
  | Some (k, opc, d) =>
    let s := network_keys aes128 hmac_sha256 k opc (i_rand c) (firstn 6 (i_autn c)) (i_mcc c) (i_mnc c) d (i_ea c) (i_ia c) in
    (o_st c =? 0) && (o_res_star c == res_star s) && (o_kamf c == k_amf s)
    && (o_knasint c == k_nas_int s) && (o_knasenc c == k_nas_enc s)
  | None => true
  end.
Definition c05_expected (c:c05_case) :=
  match c05_in_domain c with
  | Some (k, opc, d) =>
    let s := network_keys aes128 hmac_sha256 k opc (i_rand c) (firstn 6 (i_autn c)) (i_mcc c) (i_mnc c) d (i_ea c) (i_ia c) in
    [res_star s; k_amf s; k_nas_int s; k_nas_enc s]
  | None => []
  end.

(* what the model says, for replay files of the out-of-domain stream: (0 ok | 1 fatal | 2 panic, values) *)
Definition c05_model_expected (c:c05_case) :=
  match register_derive aes128 hmac_sha256 (i_supi c) (i_ea c) (i_ia c) (i_k c) (i_opc c) (i_op c) (i_autn c) (i_rand c) (i_mnc c) (i_mcc c) with
  | UeOk r => (0, [ue_res_star r; ue_kamf r; ue_knasint r; ue_knasenc r])
  | UeFatal => (1, [])
  | UePanic => (2, [])
  end.

(* the external library on its own (stream `wmnsk`): K, OP or OPc, RAND, SQN, AMF, mcc, mnc ->
   MAC-A, MAC-S (AMF 0000), RES, CK, IK, AK, AK*, RES*, OPc; every method returned without error *)
Record wm_case := { w_k : bytes; w_op : bytes; w_opc : bytes; w_rand : bytes; w_sqn : bytes; w_amf : bytes; w_mcc : bytes; w_mnc : bytes;
                    w_errs : N; w_maca : bytes; w_macs : bytes; w_res : bytes; w_ck : bytes; w_ik : bytes; w_ak : bytes; w_aks : bytes;
                    w_resstar : bytes; w_opc_out : bytes }.
Definition wm_of (c:wm_case) : wm :=
  match w_opc c with
  | [] => New (w_k c) (w_op c) (w_rand c) (be_to_N (w_sqn c)) (be_to_N (w_amf c))
  | _ => NewWithOPc (w_k c) (w_opc c) (w_rand c) (be_to_N (w_sqn c)) (be_to_N (w_amf c))
  end.
Definition wm_model_check (c:wm_case) : bool :=
  let m := wm_of c in
  match wF1 aes128 m, wF1Star aes128 m (w_SQN m) [0;0], wF2345 aes128 m, wF5Star aes128 m, opc_of_wm aes128 m with
  | WOk a, WOk s, WOk (res, ck, ik, ak), WOk aks, WOk opc =>
    match ComputeRESStar hmac_sha256 m res ck ik (w_mcc c) (w_mnc c) with
    | WOk rs => (w_errs c =? 0) && (w_maca c == a) && (w_macs c == s) && (w_res c == res) && (w_ck c == ck) && (w_ik c == ik)
                && (w_ak c == ak) && (w_aks c == aks) && (w_resstar c == rs) && (w_opc_out c == opc)
    | _ => false
    end
  | _, _, _, _, _ => false
  end.
Definition wm_spec_check (c:wm_case) : bool :=
  let k := w_k c in
  let opc := match w_opc c with [] => opc_of aes128 k (w_op c) | o => o end in
  let r := w_rand c in
  (w_errs c =? 0) && (w_maca c == f1 aes128 k opc r (w_sqn c) (w_amf c)) && (w_macs c == f1s aes128 k opc r (w_sqn c) [0;0])
  && (w_res c == f2 aes128 k opc r) && (w_ck c == f3 aes128 k opc r) && (w_ik c == f4 aes128 k opc r)
  && (w_ak c == f5 aes128 k opc r) && (w_aks c == f5s aes128 k opc r) && (w_opc_out c == opc)
  && (w_resstar c == skipn 16 (kdf hmac_sha256 (f3 aes128 k opc r ++ f4 aes128 k opc r) 107 [snn (w_mcc c) (w_mnc c); r; f2 aes128 k opc r])).
