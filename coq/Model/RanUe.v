(* Model of tglib/ranUe.go: GetAuthSubscription, DeriveRESstarAndSetKey, DerivateKamf, DerivateAlgKey,
   and of the serving-network-name expression in stgutg.RegisterUE (src/stgutg/ue.go).
   Strings (K/OPc/OP as hex text, mcc, mnc, SUPI, snName) are lists of ASCII codes.
   fatal.Fatalf (print + os.Exit(1)) is UeFatal; a Go run-time panic is UePanic. *)
From Coq Require Import NArith List Bool.
Require Import Bytes BytesLemmas Milenage WmnskMilenage Kdf.
Import ListNotations.
Open Scope N_scope.

(* GetAuthSubscription(k, opc, op): the three strings are stored as given;
   AuthenticationManagementField = "8000" *)
Record auth_subs := { as_k : bytes; as_opc : bytes; as_op : bytes; as_amf : bytes }.
Definition GetAuthSubscription (k opc op:bytes) : auth_subs :=
  {| as_k := k; as_opc := opc; as_op := op; as_amf := [56;48;48;48] |}.

(* RegisterUE:
     if len(mnc) == 2 { snName = "5G:mnc0" + mnc + ".mcc" + mcc + ".3gppnetwork.org" }
     else             { snName = "5G:mnc"  + mnc + ".mcc" + mcc + ".3gppnetwork.org" } *)
Definition s_5G_mnc0 : bytes := [53;71;58;109;110;99;48].
Definition register_snName (mnc mcc:bytes) : bytes :=
  if Nat.eqb (length mnc) 2 then s_5G_mnc0 ++ mnc ++ s_mcc ++ mcc ++ s_3gpp
  else s_5G_mnc ++ mnc ++ s_mcc ++ mcc ++ s_3gpp.

(* regexp "(?:imsi|supi)-([0-9]{5,15})", FindStringSubmatch: leftmost position at which "imsi-" or
   "supi-" is followed by at least five digits; group 1 = the first (at most 15) digits of that run.
   None = no match (groups == nil, so groups[1] panics). *)
Definition is_digit (c:N) : bool := (48 <=? c) && (c <=? 57).
Fixpoint take_digits (n:nat) (s:bytes) : bytes :=
  match n with O => [] | S n' => match s with c::r => if is_digit c then c :: take_digits n' r else [] | [] => [] end end.
Definition s_imsi_dash : bytes := [105;109;115;105;45].
Definition s_supi_dash : bytes := [115;117;112;105;45].
Definition match_at (s:bytes) : option bytes :=
  if bytes_eqb_prefix s_imsi_dash s || bytes_eqb_prefix s_supi_dash s then
    let d := take_digits 15 (skipn 5 s) in
    if Nat.leb 5 (length d) then Some d else None
  else None.
Fixpoint supi_group1 (s:bytes) : option bytes :=
  match match_at s with
  | Some d => Some d
  | None => match s with [] => None | _ :: r => supi_group1 r end
  end.

Record ue_keys := { ue_res_star : bytes; ue_kamf : bytes; ue_knasint : bytes; ue_knasenc : bytes }.
Inductive ue_result := UeFatal | UePanic | UeOk (r:ue_keys).

Section RanUe.
Variable E : bytes -> bytes -> bytes.
Variable H : bytes -> bytes -> bytes.

(* DerivateKamf(key, snName, SQN, AK): P1 := SQN (the caller passes autn[0:6], i.e. SQN xor AK; AK unused) *)
Definition DerivateKamf (supi key snName SQN:bytes) : option bytes :=
  let P0 := snName in
  let P1 := SQN in
  let Kausf := GetKDFValue H key FC_FOR_KAUSF_DERIVATION [P0; KDFLen P0; P1; KDFLen P1] in
  let Kseaf := GetKDFValue H Kausf FC_FOR_KSEAF_DERIVATION [P0; KDFLen P0] in
  match supi_group1 supi with
  | None => None                                   (* groups[1] on a nil slice *)
  | Some g =>
    let P0 := g in
    let P1 := [0;0] in
    Some (GetKDFValue H Kseaf FC_FOR_KAMF_DERIVATION [P0; KDFLen P0; P1; KDFLen P1])
  end.

(* DerivateAlgKey: security.NNASEncAlg = 0x01, security.NNASIntAlg = 0x02; kenc[16:32], kint[16:32] *)
Definition NNASEncAlg : N := 1.
Definition NNASIntAlg : N := 2.
Definition alg_key (kamf:bytes) (dist alg:N) : bytes :=
  let P0 := [dist] in let P1 := [alg] in
  firstn 16 (skipn 16 (GetKDFValue H kamf FC_FOR_ALGORITHM_KEY_DERIVATION [P0; KDFLen P0; P1; KDFLen P1])).

(* DeriveRESstarAndSetKey(authSubs, autn, rand, snName, mnc, mcc) on a context with Supi, CipheringAlg,
   IntegrityAlg (autn is a [16]uint8).  The sqn/amf handed to the library are little-endian reads of
   00 00 || autn[0:6] and of the decoded "8000" (so the library holds the octets in reverse order);
   they only feed mil.F1() and mil.F1Star(sqn, amf), whose results and errors are discarded, so those two
   calls do not appear here; their only lasting effect, caching OPc, is what opc_of_wm computes again. *)
Definition le_to_N (l:bytes) : N := be_to_N (rev l).
Definition DeriveRESstarAndSetKey (supi:bytes) (ea ia:N) (a:auth_subs) (autn rand snName mnc mcc:bytes) : ue_result :=
  match hex_decode (as_amf a) with None => UeFatal | Some amf =>
  let sqn := le_to_N ([0;0] ++ firstn 6 autn) in
  let amf16 := le_to_N (firstn 2 amf) in
  match hex_decode (as_k a) with None => UeFatal | Some k =>
  let mil :=
    match as_opc a with
    | [] => match hex_decode (as_op a) with None => None | Some op => Some (New k op rand sqn amf16) end
    | _ => match hex_decode (as_opc a) with None => None | Some opc => Some (NewWithOPc k opc rand sqn amf16) end
    end in
  match mil with None => UeFatal | Some m =>
  match wF2345 E m with
  | WErr => UeFatal
  | WPanic => UePanic
  | WOk (res, ck, ik, ak) =>
    let key := ck ++ ik in
    match DerivateKamf supi key snName (firstn 6 autn) with
    | None => UePanic
    | Some kamf =>
      let kenc := alg_key kamf NNASEncAlg (ea mod 256) in
      let kint := alg_key kamf NNASIntAlg (ia mod 256) in
      match ComputeRESStar H m res ck ik mcc mnc with
      | WOk rs => UeOk {| ue_res_star := rs; ue_kamf := kamf; ue_knasint := kint; ue_knasenc := kenc |}
      | WErr => UeFatal
      | WPanic => UePanic
      end
    end
  end end end end.

(* what RegisterUE does with a configured (mnc, mcc) and a received (RAND, AUTN) *)
Definition register_derive (supi:bytes) (ea ia:N) (k opc op:bytes) (autn rand mnc mcc:bytes) : ue_result :=
  DeriveRESstarAndSetKey supi ea ia (GetAuthSubscription k opc op) autn rand (register_snName mnc mcc) mnc mcc.
End RanUe.
