(* Correspondence glue for C15 (not a model of anything): the shape of one observed case of the
   `milenage` harness command and the two executable judgements over it -- observed = model
   (Model/Milenage.v with E := aes128) and observed = specification (Spec/TS35206.v). *)
From Coq Require Import NArith ZArith List Bool.
Require Import Bytes BytesLemmas AES Milenage TS35206.
Import ListNotations.
Open Scope N_scope.

(* st: 0 = the call returned (nil error where there is one), 1 = error return, 2 = panic *)
Inductive c15_case :=
| CF1 (opc k rand sqn amf:bytes) (st:N) (mac_a mac_s:bytes)
| CF2345 (opc k rand:bytes) (st:N) (res ck ik ak aks:bytes)
| COPC (k op:bytes) (st:N) (opc:bytes)
| CGen (opc amf k sqn rand:bytes) (res_len_in:N) (st:N) (autn ik ck ak res:bytes) (res_len_out:N)
| CChk (opc k sqn rand autn:bytes) (res_len_in:N) (st:N) (rc:Z) (ik ck res:bytes) (res_len_out:N) (auts:bytes)
| CAuts (opc k rand auts:bytes) (st:N) (rc:Z) (sqn:bytes).

Definition z (n:nat) : bytes := repeat 0 n.           (* an untouched output buffer *)
Notation "a == b" := (bytes_eqb a b) (at level 70).

Definition c15_model_check (c:c15_case) : bool :=
  match c with
  | CF1 opc k rand sqn amf st a s =>
    match F1 aes128 opc k rand sqn amf with
    | MOk (a', s') => (st =? 0) && (a == a') && (s == s')
    | MErr => (st =? 1) && (a == z 8) && (s == z 8)
    | MPanic => st =? 2
    end
  | CF2345 opc k rand st res ck ik ak aks =>
    match F2345 aes128 opc k rand with
    | MOk r => (st =? 0) && (res == m_res r) && (ck == m_ck r) && (ik == m_ik r) && (ak == m_ak r) && (aks == m_aks r)
    | MErr => (st =? 1) && (res == z 8) && (ck == z 16) && (ik == z 16) && (ak == z 6) && (aks == z 6)
    | MPanic => st =? 2
    end
  | COPC k op st opc =>
    match GenerateOPC aes128 k op with
    | MOk o => (st =? 0) && (opc == o)
    | MErr => (st =? 1) && (opc == [])
    | MPanic => st =? 2
    end
  | CGen opc amf k sqn rand rl st autn ik ck ak res rl' =>
    match MilenageGenerate aes128 opc amf k sqn rand rl with
    | GenOk autn' ik' ck' ak' res' => (st =? 0) && (rl' =? 8) && (autn == autn') && (ik == ik') && (ck == ck') && (ak == ak') && (res == res')
    | GenFail => (st =? 0) && (rl' =? 0) && (autn == z 16) && (ik == z 16) && (ck == z 16) && (ak == z 6) && (res == z 8)
    | GenPanic => st =? 2
    end
  | CChk opc k sqn rand autn rl st rc ik ck res rl' auts =>
    match Milenage_check aes128 opc k sqn rand autn with
    | CheckRet rc' res' ck' ik' auts' =>
      (st =? 0) && (rc =? rc')%Z && (rl' =? 8) && (res == res') && (ck == ck') && (ik == ik')
      && (auts == match auts' with Some t => t ++ z (14 - length t) | None => z 14 end)
    | CheckErr => (st =? 0) && (rc =? -1)%Z && (rl' =? rl) && (res == z 8) && (ck == z 16) && (ik == z 16) && (auts == z 14)
    | CheckPanic => st =? 2
    end
  | CAuts opc k rand auts st rc sqn =>
    match Milenage_auts aes128 opc k rand auts with
    | AutsRet rc' sqn' => (st =? 0) && (rc =? rc')%Z && (sqn == sqn')
    | AutsErr => (st =? 0) && (rc =? -1)%Z && (sqn == z 6)
    | AutsPanic => st =? 2
    end
  end.

(* The specification speaks about 16-octet K/OPc/OP/RAND/AUTN, 6-octet SQN, 2-octet AMF, 14-octet AUTS;
   other cases (the malformed stream) are outside it and judged by the model only. *)
Definition L (n:nat) (l:bytes) : bool := Nat.eqb (length l) n.
Definition c15_spec_check (c:c15_case) : bool :=
  match c with
  | CF1 opc k rand sqn amf st a s =>
    if L 16 opc && L 16 k && L 16 rand && L 6 sqn && L 2 amf then
      (st =? 0) && (a == f1 aes128 k opc rand sqn amf) && (s == f1s aes128 k opc rand sqn amf)
    else true
  | CF2345 opc k rand st res ck ik ak aks =>
    if L 16 opc && L 16 k && L 16 rand then
      (st =? 0) && (res == f2 aes128 k opc rand) && (ck == f3 aes128 k opc rand) && (ik == f4 aes128 k opc rand)
      && (ak == f5 aes128 k opc rand) && (aks == f5s aes128 k opc rand)
    else true
  | COPC k op st opc =>
    if L 16 k && L 16 op then (st =? 0) && (opc == opc_of aes128 k op) else true
  | CGen opc amf k sqn rand rl st autn ik ck ak res rl' =>
    if L 16 opc && L 16 k && L 16 rand && L 6 sqn && L 2 amf && (8 <=? rl) then
      let v := generate_av aes128 k opc rand sqn amf in
      (st =? 0) && (autn == av_autn v) && (res == av_xres v) && (ck == av_ck v) && (ik == av_ik v) && (ak == f5 aes128 k opc rand)
    else true
  | CChk opc k sqn rand autn rl st rc ik ck res rl' auts =>
    if L 16 opc && L 16 k && L 16 rand && L 6 sqn && L 16 autn then
      (st =? 0)
      && Bool.eqb (rc =? 0)%Z (usim_accepts aes128 k opc rand autn sqn)
      && (if (rc =? 0)%Z then (res == f2 aes128 k opc rand) && (ck == f3 aes128 k opc rand) && (ik == f4 aes128 k opc rand)
          else if (rc =? -2)%Z then
            negb (sqn_fresh aes128 k opc rand autn sqn) && (auts == TS35206.auts aes128 k opc rand sqn)
            && match auts_check aes128 k opc rand auts with Some s => s == sqn | None => false end
          else (rc =? -1)%Z)
    else true
  | CAuts opc k rand auts st rc sqn =>
    if L 16 opc && L 16 k && L 16 rand && L 14 auts then
      (st =? 0) && match auts_check aes128 k opc rand auts with
                   | Some s => (rc =? 0)%Z && (sqn == s)
                   | None => (rc =? -1)%Z
                   end
    else true
  end.

(* printable expected value for a replay file *)
Definition c15_expected (c:c15_case) :=
  match c with
  | CF1 opc k rand sqn amf _ _ _ => (0, [f1 aes128 k opc rand sqn amf; f1s aes128 k opc rand sqn amf])
  | CF2345 opc k rand _ _ _ _ _ _ => (0, [f2 aes128 k opc rand; f3 aes128 k opc rand; f4 aes128 k opc rand; f5 aes128 k opc rand; f5s aes128 k opc rand])
  | COPC k op _ _ => (0, [opc_of aes128 k op])
  | CGen opc amf k sqn rand _ _ _ _ _ _ _ _ => (0, [autn aes128 k opc rand sqn amf])
  | CChk opc k sqn rand autn _ _ _ _ _ _ _ _ =>
    match usim_check aes128 k opc rand autn sqn with
    | Accept r c i => (0, [r; c; i]) | MacFailure => (1, []) | SyncFailure t => (2, [t]) end
  | CAuts opc k rand auts _ _ _ => match auts_check aes128 k opc rand auts with Some s => (0, [s]) | None => (1, []) end
  end.
