(* C19: what the emulator does when the peer disappears or answers garbage, as an interpretation of the
   regenerated driver skeletons.  ManageError = print + os.Exit(1).
   Peer faults:  FClose j n — the AMF closes the association after receiving the j-th uplink message (0-based);
                              n downlink messages (still queued ones plus the part of its answer it did send) can
                              still be read: every later Write fails at once, the (n+1)-th later Read returns EOF;
                 FGarbage j q — the AMF answers the j-th uplink message with bytes that are not an NGAP PDU;
                              q downlink messages are still queued in front of it (ReleasePDU never reads, so
                              the AMF's messages can pile up), i.e. the (q+1)-th Read after that Write returns the
                              garbage; the Read succeeds, the next Decoder call on what was read fails. *)
From Coq Require Import List String Bool Arith.
Require Import DriverTypes.
Import ListNotations.

Inductive fault := FNone | FClose (j n:nat) | FGarbage (j q:nat).
(* closed: the peer has closed (writes fail); readable: how many more Reads succeed once it has *)
Record pst := { wcount : nat; closed : bool; readable : nat; gpending : option nat; lastbad : bool }.
Definition pst0 := {| wcount := 0; closed := false; readable := 0; gpending := None; lastbad := false |}.
Inductive outcome := Completed | Exit1 (at_event : nat).       (* Completed = banner printed, exit status 0 *)

Definition after_write (f:fault) (s:pst) : pst :=
  let k := wcount s in
  {| wcount := S k;
     closed := match f with FClose j _ => Nat.eqb j k | _ => false end;
     readable := match f with FClose _ n => n | _ => 0 end;
     gpending := match f with FGarbage j q => if Nat.eqb j k then Some q else gpending s | _ => gpending s end;
     lastbad := lastbad s |}.

Fixpoint run (f:fault) (evs:list event) (s:pst) (n:nat) : outcome :=
  match evs with
  | [] => Completed
  | Unrecognised _ :: r => run f r s (S n)
  | Ev EB _ _ :: r => run f r s (S n)
  | Ev EW c _ :: r =>
      if closed s then (if c then Exit1 n else run f r s (S n))
      else run f r (after_write f s) (S n)
  | Ev ER c _ :: r =>
      if closed s then
        match readable s with
        | O => if c then Exit1 n
               else run f r {| wcount := wcount s; closed := true; readable := 0; gpending := None; lastbad := true |} (S n)
        | S m => run f r {| wcount := wcount s; closed := true; readable := m; gpending := None; lastbad := false |} (S n)
        end
      else match gpending s with
           | Some O => run f r {| wcount := wcount s; closed := false; readable := 0; gpending := None; lastbad := true |} (S n)
           | Some (S q) => run f r {| wcount := wcount s; closed := false; readable := 0; gpending := Some q; lastbad := false |} (S n)
           | None => run f r {| wcount := wcount s; closed := false; readable := 0; gpending := None; lastbad := false |} (S n)
           end
  | Ev ED c _ :: r =>
      if lastbad s then (if c then Exit1 n
                         else run f r {| wcount := wcount s; closed := closed s; readable := readable s; gpending := gpending s; lastbad := false |} (S n))
      else run f r s (S n)
  end.

(* ---- decidable conditions on a skeleton *)
Definition is_io (e:event) : bool := match e with Ev EW _ _ | Ev ER _ _ => true | _ => false end.
Definition wr_checked (evs:list event) : bool :=
  forallb (fun e => match e with Ev EW c _ | Ev ER c _ => c | Unrecognised _ => false | _ => true end) evs.
(* once the peer has closed with n readable messages left: is there a Write, or an (n+1)-th Read? *)
Fixpoint stops (evs:list event) (n:nat) : bool :=
  match evs with
  | [] => false
  | Ev EW _ _ :: _ => true
  | Ev ER _ _ :: r => match n with O => true | S m => stops r m end
  | _ :: r => stops r n
  end.
Fixpoint io_after_w (evs:list event) (j n:nat) : bool :=
  match evs with
  | [] => false
  | Ev EW _ _ :: r => match j with O => stops r n | S j' => io_after_w r j' n end
  | _ :: r => io_after_w r j n
  end.
(* after the (j+1)-th Write: the first Read is followed, before any other Read, by a checked Decoder call *)
Fixpoint first_decode_checked (evs:list event) : bool :=       (* scanning after the Read *)
  match evs with
  | [] => false
  | Ev ED c _ :: _ => c
  | Ev ER _ _ :: _ => false
  | _ :: r => first_decode_checked r
  end.
Fixpoint read_then_checked_decode (evs:list event) (q:nat) : bool :=    (* scanning after the Write: the (q+1)-th Read *)
  match evs with
  | [] => false
  | Ev ER _ _ :: r => match q with O => first_decode_checked r | S q' => read_then_checked_decode r q' end
  | _ :: r => read_then_checked_decode r q
  end.
Fixpoint reply_consumed (evs:list event) (j q:nat) : bool :=
  match evs with
  | [] => false
  | Ev EW _ _ :: r => match j with O => read_then_checked_decode r q | S j' => reply_consumed r j' q end
  | _ :: r => reply_consumed r j q
  end.

(* a conversation = the skeletons of the procedures main() runs, in order *)
Definition conversation (blocks:list (list event)) : list event := List.concat blocks.
