(* Correspondence checks for C08/C09: what the Go harness observed (nasrt / nasdec / nasctor) against the
   interpreters of Model/NasCodec.v run over the regenerated descriptors of Gen/NasDesc.v. Definitions only. *)
From Coq Require Import NArith List Bool String.
Require Import Bytes NasValue NasCodec NasDesc.
Import ListNotations.
Open Scope N_scope.

Definition lib_encode : nas_message -> res bytes := plain_nas_encode all_msg_descs gmm_dispatch gsm_dispatch plain_dispatch.
Definition lib_decode : bytes -> res nas_message := plain_nas_decode all_msg_descs gmm_dispatch gsm_dispatch plain_dispatch.

(* observed result of a stage: bytes | error return | panic *)
Inductive obytes := OB (b:bytes) | OE | OP.
(* observed decode: message + re-encoding | error return | panic | stage not reached *)
Inductive odec := OD (m:nas_message) (re:obytes) | ODE | ODP | ONone.

Definition match_bytes (r:res bytes) (o:obytes) : bool :=
  match r, o with
  | Ok a, OB b => eqb_bytes a b
  | Err _, OE => true
  | Panic _, OP => true
  | _, _ => false end.

Definition eqb_nas (a b:nas_message) : bool :=
  String.eqb (n_kind a) (n_kind b) && eqb_bytes (n_header a) (n_header b) &&
  String.eqb (n_struct a) (n_struct b) && eqb_msg (n_fields a) (n_fields b).

Definition nasdec_check (c:bytes * odec) : bool :=
  let '(bs, o) := c in
  match lib_decode bs, o with
  | Ok m, OD m' re => eqb_nas m m' && match_bytes (lib_encode m) re
  | Err _, ODE => true
  | Panic _, ODP => true
  | _, _ => false end.

Definition nasrt_check (c:nas_message * obytes * odec) : bool :=
  let '(x, enc, dec) := c in
  match_bytes (lib_encode x) enc &&
  match enc with OB b => nasdec_check (b, dec) | _ => match dec with ONone => true | _ => false end end.

(* what the model expects, for replay files *)
Definition nasdec_expect (c:bytes * odec) := let r := lib_decode (fst c) in (r, match r with Ok m => lib_encode m | _ => Err "-" end).
Definition nasrt_expect (c:nas_message * obytes * odec) :=
  let r := lib_encode (fst (fst c)) in (r, match r with Ok b => nasdec_expect (b, ONone) | _ => (Err "-", Err "-") end).

(* the round trip observed on the implementation itself: decode (encode m) = m and re-encoding gives the same bytes *)
Definition nasrt_lossless (c:nas_message * obytes * odec) : bool :=
  let '(x, enc, dec) := c in
  match enc, dec with
  | OB b, OD m' (OB b') => eqb_nas x m' && eqb_bytes b b'
  | _, _ => false end.

(* ---------------------------------------------------------------- the dispatch tables of nas.go *)
Definition entry_ok (h:dispatch) (e:N * (string * string)) : bool :=
  let '(mt, (sname, dfn)) := e in
  match find_desc d_dec_func dfn all_msg_descs, lookupN mt (h_encode h) with
  | Some d, Some efn =>
      String.eqb sname (d_name d) && desc_pair_ok d &&
      match find_desc d_enc_func efn all_msg_descs with Some d2 => String.eqb (d_name d2) (d_name d) | None => false end
  | _, _ => false end.
(* decode and encode switches know the same message types, each handled by one Encode*/Decode* pair of one struct
   that desc_pair_ok accepts *)
Definition dispatch_ok (h:dispatch) : bool :=
  is_nil (h_odd h) && forallb (entry_ok h) (h_decode h) &&
  nodup_N (map fst (h_decode h)) && nodup_N (map fst (h_encode h)) &&
  Nat.eqb (List.length (h_encode h)) (List.length (h_decode h)) &&
  Nat.ltb (h_type_index h) (h_header_len h).
Definition library_ok : bool :=
  is_nil (p_odd plain_dispatch) && nodup_str (map d_name all_msg_descs) &&
  dispatch_ok gmm_dispatch && dispatch_ok gsm_dispatch &&
  eqb_list String.eqb (map snd (p_epd_decode plain_dispatch)) ["Gmm"%string; "Gsm"%string] &&
  eqb_list String.eqb (p_encode_order plain_dispatch) ["Gmm"%string; "Gsm"%string] &&
  nodup_N (map fst (p_epd_decode plain_dispatch)).

(* the descriptors PlainNasEncode/PlainNasDecode can reach *)
Definition dispatched_descs : list msg_desc :=
  flat_map (fun h => flat_map (fun e => match find_desc d_dec_func (snd (snd e)) all_msg_descs with Some d => [d] | None => [] end)
                              (h_decode h)) [gmm_dispatch; gsm_dispatch].
