(* Executable instantiation of the registration model and of the reference AMF checker (AES-128, HMAC-SHA-256,
   Model/Security.v's NAS algorithms on the emulator side, the 3GPP reference algorithms on the AMF side),
   and the oracle of the C01 correspondence run. *)
From Coq Require Import NArith ZArith List Bool.
Require Import Bytes AES SHA256 Dec CreateUE SuciEnc RanUe NasSec Security TS33401B Snow3gSpec NasSecInst Register RefAMF RefNasPeer.
Import ListNotations.
Open Scope N_scope.

Definition register_x := register_ue aes128 hmac_sha256 nas_encrypt nas_mac.
Definition amf_registration_x := amf_registration aes128 hmac_sha256 (nea_spec aes128) (nia_spec aes128).

Fixpoint eqb_b (a b:list N) : bool :=
  match a, b with [], [] => true | x::a', y::b' => (x =? y) && eqb_b a' b' | _, _ => false end.

(* one case: configuration, UE index, what the AMF sent (RAND, AUTN) and chose (SQN, AMF field), subscriber data as
   the AMF knows it, and the four NAS PDUs + RAN-UE-NGAP-ID observed on the wire *)
Definition c01_case := (config * N * (bytes * bytes) * (subscriber * choices) * (N * bytes * bytes * bytes * bytes))%type.
Definition c01_model_check (c:c01_case) : bool :=
  let '(g, idx, (rand, autn), _, (ran, m1, m2, m3, m4)) := c in
  match register_x g idx rand autn with
  | RegOk o => (o_ran_id o =? ran) && eqb_b (o_regreq o) m1 && eqb_b (o_authresp o) m2 && eqb_b (o_smc_complete o) m3 && eqb_b (o_reg_complete o) m4
  | RegFail _ => false end.
(* the reference AMF accepts what was observed on the wire, and sent the AUTN it derives *)
Definition c01_spec_check (c:c01_case) : bool :=
  let '(g, idx, (rand, autn), (s, ch), (ran, m1, m2, m3, m4)) := c in
  eqb_b autn (amf_autn aes128 s ch) &&
  match amf_registration_x s ch m1 m2 m3 m4 with Registered n => n =? 2 | Rejected _ => false end.
