(* Step-counting copy of the decoder model (Model/AperDec.v): the same functions, clause by clause, returning the
   same result together with the number of steps taken.  Proofs/AperCostErase.v shows that dropping the counter
   gives back Model/AperDec.v exactly (all inputs), so the correspondence streams that tie Model/AperDec.v to
   aper.go tie this copy as well.

   What one step is (everything that iterates or touches the input in free5gclib/aper/aper.go):
     - pd.getBitsValue(n) / pd.getBitString(n):  1, plus, when the read succeeds, the number of octets of the
       intermediate bit string ((n+7)>>3): the shift loop of GetBitString runs at most that often, the
       accumulation loop of GetBitsValue n/8 times; a refused read (not enough bits) returns before both loops;
     - a direct octet read pd.bytes[pd.byteOffset] (length octet of an unconstrained INTEGER, count octet of a
       SEQUENCE OF): 1;
     - the 1..8 bit-width loops of parseConstraintValue / parseInteger: the width found (>= the iterations run);
       the byteLen loop of parseInteger: the byteLen found (= the iterations run);
     - every iteration of the fragment loops of parseBitString, parseOctetString and parseOpenType: 1, plus the
       number of octets appended; the fixed-size forms that slice pd.bytes: 1 + the number of octets sliced;
     - parseSequenceOf: 1 per iteration of the element loop;
     - struct decoding: 1 per field for the tag-parsing loop, 1 per iteration of the alternative search of an
       open-type CHOICE, 1 per iteration of the field loop, 1 per iteration of the reference-field-name search,
       1 per (recursive) call of getReferenceFieldValue;
     - every call of parseField: 1.
   Not counted: what the trace logging formats (perTrace / perBitLog build strings that are dropped), reflect
   bookkeeping and parseFieldParameters on the (constant) struct tags. *)
From Coq Require Import NArith ZArith List Bool String.
Require Import GoSlice AperCommon AperEnc AperDec.
Import ListNotations.
Open Scope N_scope.

Definition cres (A : Type) : Type := (sres A * N)%type.          (* (result, state), steps *)
Definition cbind {A B} (r : cres A) (f : A -> dst -> cres B) : cres B :=
  match r with
  | ((Ok a, s), n) => let '(r', m) := f a s in (r', n + m)
  | ((Err e, s), n) => ((Err e, s), n)
  | ((Panic p, s), n) => ((Panic p, s), n)
  | ((OutOfFuel, s), n) => ((OutOfFuel, s), n)
  end.
Notation "'doc' ( x , s ) <- e ; f" := (cbind e (fun x s => f)) (at level 200, x pattern, s name, e at level 100, f at level 200, right associativity).
Definition cpure {A} (r : sres A) : cres A := (r, 0).
Definition ctick {A} (k : N) (r : cres A) : cres A := (fst r, k + snd r).

Definition octs_of (numBits : N) : N := N.shiftr (numBits + 7) 3.

Definition getBitsValueC (s : dst) (numBits : N) : cres N :=
  let r := getBitsValue s numBits in (r, match fst r with Ok _ => 1 + octs_of numBits | _ => 1 end).
Definition getBitStringC (s : dst) (numBits : N) : cres (list N) :=
  let r := getBitString s numBits in (r, match fst r with Ok _ => 1 + octs_of numBits | _ => 1 end).

Definition parseAlignBitsC (s : dst) : cres unit :=
  if 0 <? N.land (d_bitsOffset s) 7 then
    let alignBits := 8 - N.land (d_bitsOffset s) 7 in
    doc (v, s) <- getBitsValueC s alignBits;
    if v =? 0 then cpure (Ok tt, s) else cpure (Err E_ALIGN_NONZERO, s)
  else if negb (d_bitsOffset s =? 0) then cpure (Ok tt, bitCarry s)
  else cpure (Ok tt, s).

Definition parseConstraintValueC (s : dst) (valueRange : Z) : cres N :=
  if (valueRange <=? 255)%Z then
    if (valueRange <? 0)%Z then cpure (Err E_RANGE_NEG, s)
    else ctick (go_bits valueRange) (getBitsValueC s (go_bits valueRange))
  else if (valueRange <=? 65536)%Z then
    let nbytes := if (valueRange =? 256)%Z then 1 else 2 in
    doc (_, s) <- parseAlignBitsC s;
    getBitsValueC s (nbytes * 8)
  else cpure (Err E_RANGE_BIG, s).

Definition parseLengthC (s : dst) (sizeRange : Z) : cres (N * bool) :=
  if ((sizeRange <=? 65536) && (0 <? sizeRange))%Z then
    doc (v, s) <- parseConstraintValueC s sizeRange; cpure (Ok (v, false), s)
  else
    doc (_, s) <- parseAlignBitsC s;
    doc (firstByte, s) <- getBitsValueC s 8;
    if N.land firstByte 128 =? 0 then cpure (Ok (N.land firstByte 127, false), s)
    else if N.land firstByte 64 =? 0 then
      doc (secondByte, s) <- getBitsValueC s 8;
      cpure (Ok (N.lor (N.shiftl (N.land firstByte 63) 8) secondByte, false), s)
    else
      let fb := N.land firstByte 63 in
      if (fb <? 1) || (4 <? fb) then cpure (Err E_LEN_CONSTRAINT, s)
      else cpure (Ok (16384 * fb, true), s).

Fixpoint bits_dec_loopC (fuel : nat) (s : dst) (sizeRange lb : Z) (acc : list N) (accLen : N) : cres (list N * N) :=
  match fuel with
  | O => cpure (OutOfFuel, s)
  | S f =>
      ctick 1
        (doc (lr, s) <- parseLengthC s sizeRange;
         let '(length0, repeat) := lr in
         let rawLength := u64 (length0 + u64z lb) in
         if rawLength =? 0 then cpure (Ok (acc, accLen), s)
         else
           let sizes := N.shiftr (u64 (rawLength + 7)) 3 in
           doc (_, s) <- parseAlignBitsC s;
           if len (d_bytes s) <? u64 (d_byteOffset s + sizes) then cpure (Err E_OUT_OF_RANGE, s)
           else
             match slice (d_bytes s) (d_byteOffset s) (u64 (d_byteOffset s + sizes)) with
             | Ok chunk =>
                 let bo := N.land rawLength 7 in
                 let byo := u64 (d_byteOffset s + sizes) in
                 let s := mkdst (d_bytes s) (if bo =? 0 then byo else sub64 byo 1) bo in
                 let acc' := acc ++ chunk in
                 let accLen := u64 (accLen + rawLength) in
                 ctick (len chunk)
                   (if repeat then bits_dec_loopC f s sizeRange lb acc' accLen else cpure (Ok (acc', accLen), s))
             | Err e => cpure (Err e, s) | Panic p => cpure (Panic p, s) | OutOfFuel => cpure (OutOfFuel, s)
             end)
  end.

Definition parseBitStringC (s : dst) (extensed : bool) (lbp ubp : option Z) : cres (list N * N) :=
  let '(lb, ub, sizeRange) := dec_size_bounds extensed lbp ubp in
  if (sizeRange =? 1)%Z then
    let sizes := N.shiftr (u64z (ub + 7)) 3 in
    let bitLength := u64z ub in
    if 2 <? sizes then
      doc (_, s) <- parseAlignBitsC s;
      if len (d_bytes s) <? u64 (d_byteOffset s + sizes) then cpure (Err E_OUT_OF_RANGE, s)
      else
        match slice (d_bytes s) (d_byteOffset s) (u64 (d_byteOffset s + sizes)) with
        | Ok chunk =>
            let bo := N.land (u64z ub) 7 in
            let byo := u64 (d_byteOffset s + sizes) in
            ((Ok (chunk, bitLength), mkdst (d_bytes s) (if 0 <? bo then sub64 byo 1 else byo) bo), 1 + len chunk)
        | Err e => cpure (Err e, s) | Panic p => cpure (Panic p, s) | OutOfFuel => cpure (OutOfFuel, s)
        end
    else
      doc (b, s) <- getBitStringC s (u64z ub); cpure (Ok (b, bitLength), s)
  else bits_dec_loopC (S (List.length (d_bytes s))) s sizeRange lb [] 0.

Fixpoint oct_dec_loopC (fuel : nat) (s : dst) (sizeRange lb : Z) (acc : list N) : cres (list N) :=
  match fuel with
  | O => cpure (OutOfFuel, s)
  | S f =>
      ctick 1
        (doc (lr, s) <- parseLengthC s sizeRange;
         let '(length0, repeat) := lr in
         let rawLength := u64 (length0 + u64z lb) in
         if rawLength =? 0 then cpure (Ok acc, s)
         else
           doc (_, s) <- parseAlignBitsC s;
           if len (d_bytes s) <? u64 (rawLength + d_byteOffset s) then cpure (Err E_OUT_OF_RANGE, s)
           else
             match slice (d_bytes s) (d_byteOffset s) (u64 (d_byteOffset s + rawLength)) with
             | Ok chunk =>
                 let s := mkdst (d_bytes s) (u64 (d_byteOffset s + rawLength)) (d_bitsOffset s) in
                 let acc' := acc ++ chunk in
                 ctick (len chunk) (if repeat then oct_dec_loopC f s sizeRange lb acc' else cpure (Ok acc', s))
             | Err e => cpure (Err e, s) | Panic p => cpure (Panic p, s) | OutOfFuel => cpure (OutOfFuel, s)
             end)
  end.

Definition parseOctetStringC (s : dst) (extensed : bool) (lbp ubp : option Z) : cres (list N) :=
  let '(lb, ub, sizeRange) := dec_size_bounds extensed lbp ubp in
  if (sizeRange =? 1)%Z then
    if (2 <? ub)%Z then
      doc (_, s) <- parseAlignBitsC s;
      if (Z.of_N (len (d_bytes s)) <? i64 (i64n (d_byteOffset s) + ub))%Z then cpure (Err E_OUT_OF_RANGE, s)
      else
        match slice (d_bytes s) (d_byteOffset s) (u64 (d_byteOffset s + u64z ub)) with
        | Ok chunk => ((Ok chunk, mkdst (d_bytes s) (u64 (d_byteOffset s + u64z ub)) (d_bitsOffset s)), 1 + len chunk)
        | Err e => cpure (Err e, s) | Panic p => cpure (Panic p, s) | OutOfFuel => cpure (OutOfFuel, s)
        end
    else getBitStringC s (u64z (ub * 8))
  else oct_dec_loopC (S (List.length (d_bytes s))) s sizeRange lb [].

Definition parseBoolC (s : dst) : cres bool :=
  doc (bit, s) <- getBitsValueC s 1; cpure (Ok (bit =? 1), s).

Definition parseIntegerC (s : dst) (extensed : bool) (lbp ubp : option Z) : cres Z :=
  let '(lb, ub, valueRange) :=
    if extensed then (0, -1, -1)%Z
    else match lbp with
         | None => (0, -1, -1)%Z
         | Some lb => match ubp with
                      | Some ub => (lb, ub, i64 (ub - lb + 1))
                      | None => (lb, (-1)%Z, 0%Z)
                      end
         end in
  if (valueRange =? 1)%Z then cpure (Ok ub, s)
  else if ((0 <? valueRange) && (valueRange <=? 65536))%Z then
    doc (rawValue, s) <- parseConstraintValueC s valueRange; cpure (Ok (i64 (i64n rawValue + lb)), s)
  else
    doc (rawLength, s) <-
      (if (valueRange <=? 0)%Z then
         doc (_, s) <- parseAlignBitsC s;
         if len (d_bytes s) <=? d_byteOffset s then cpure (Err E_OUT_OF_RANGE, s)
         else match idx (d_bytes s) (d_byteOffset s) with
              | Ok b => ((Ok b, mkdst (d_bytes s) (u64 (d_byteOffset s + 1)) (d_bitsOffset s)), 1)
              | Err e => cpure (Err e, s) | Panic p => cpure (Panic p, s) | OutOfFuel => cpure (OutOfFuel, s)
              end
       else
         let byteLen := bytelen_loop_dec 127 1 (u64z (valueRange - 1)) in
         let i := go_bits (Z.of_N byteLen) in
         ctick (byteLen + i)
           (doc (tempLength, s) <- getBitsValueC s i;
            doc (_, s) <- parseAlignBitsC s;
            cpure (Ok (u64 (tempLength + 1)), s)));
    doc (rawValue, s) <- getBitsValueC s (u64 (rawLength * 8));
    if (valueRange <? 0)%Z then
      let signedBitMask := shl64 1 (sub64 (u64 (rawLength * 8)) 1) in
      let valueMask := sub64 signedBitMask 1 in
      if 0 <? N.land rawValue signedBitMask then
        cpure (Ok (i64 (- i64n (u64 (N.land (N.lxor rawValue (TWO64 - 1)) valueMask + 1)))), s)
      else cpure (Ok (i64 (i64n rawValue + lb)), s)
    else cpure (Ok (i64 (i64n rawValue + lb)), s).

Definition parseEnumeratedC (s : dst) (extensed : bool) (lbp ubp : option Z) : cres N :=
  if extensed then cpure (Err E_ENUM_EXT, s)
  else match lbp, ubp with
       | Some lb, Some ub =>
           let valueRange := i64 (ub - lb + 1) in
           if (1 <? valueRange)%Z then parseConstraintValueC s valueRange else cpure (Ok 0, s)
       | _, _ => cpure (Err E_ENUM_CONSTR, s)
       end.

Definition getChoiceIndexC (s : dst) (extensed : bool) (ubp : option Z) : cres Z :=
  if extensed then cpure (Err E_CHOICE_EXT, s)
  else match ubp with
       | None => cpure (Err E_CHOICE_NOUB, s)
       | Some ub =>
           if (ub <? 0)%Z then cpure (Err E_CHOICE_NEGUB, s)
           else doc (rawChoice, s) <- parseConstraintValueC s (i64 (ub + 1)); cpure (Ok (i64 (i64n rawChoice + 1)), s)
       end.

(* the open-type fragment loop *)
Fixpoint open_dec_loopC (fuel : nat) (s : dst) (acc : list N) : cres (list N) :=
  match fuel with
  | O => cpure (OutOfFuel, s)
  | S f =>
      ctick 1
        (doc (lr, s) <- parseLengthC s (-1);
         let '(rawLength, repeat) := lr in
         if rawLength =? 0 then cpure (Ok acc, s)
         else
           doc (_, s) <- parseAlignBitsC s;
           if len (d_bytes s) <? u64 (rawLength + d_byteOffset s) then cpure (Err E_OUT_OF_RANGE, s)
           else
             match slice (d_bytes s) (d_byteOffset s) (u64 (d_byteOffset s + rawLength)) with
             | Ok chunk =>
                 let s := mkdst (d_bytes s) (u64 (d_byteOffset s + rawLength)) (d_bitsOffset s) in
                 let acc' := acc ++ chunk in
                 ctick (len chunk)
                   (if repeat then open_dec_loopC f s acc'
                    else doc (_, s) <- parseAlignBitsC s; cpure (Ok acc', s))
             | Err e => cpure (Err e, s) | Panic p => cpure (Panic p, s) | OutOfFuel => cpure (OutOfFuel, s)
             end)
  end.

(* ---- parseField level.  [ares] of Model/AperDec.v is reused with the counter meaning steps (the allocation
   counter of the original is dropped: it plays no role in the results). *)
Definition clift {A} (r : cres A) : ares (A * dst) :=
  match r with
  | ((Ok a, s), n) => (Ok (a, s), n)
  | ((Err e, _), n) => (Err e, n) | ((Panic p, _), n) => (Panic p, n) | ((OutOfFuel, _), n) => (OutOfFuel, n)
  end.
Definition atick {A} (k : N) (r : ares A) : ares A := (fst r, k + snd r).

(* calls of getReferenceFieldValue made by [get_ref fuel t v] *)
Fixpoint get_ref_calls (fuel : nat) (t : ty) (v : val) : N :=
  match fuel with
  | O => 0
  | S f =>
      1 + match t, v with
          | TStruct fs, VStruct vs =>
              match fs with
              | [] => 0
              | f0 :: _ =>
                  if String.eqb (f_name f0) "Present" then
                    match vs with
                    | VInt present :: _ =>
                        if (present =? 0)%Z then 0
                        else if (present >=? Z.of_nat (List.length fs))%Z then 0
                        else if (present <? 0)%Z then 0
                        else match nth_error fs (Z.to_nat present), nth_error vs (Z.to_nat present) with
                             | Some fp, Some vp => get_ref_calls f (f_ty fp) vp
                             | _, _ => 0
                             end
                    | _ => 0
                    end
                  else match vs with
                       | v0 :: _ => get_ref_calls f (f_ty f0) v0
                       | [] => 0
                       end
              end
          | _, _ => 0
          end
  end.

(* the tag of field i: for an open type the reference value is looked up; `for index = 0; index < i; index++`
   runs index+1 times when it breaks at index < i, i times otherwise: min (index+1) i in both cases *)
Definition ref_paramsC (allf : list field) (vals : list val) (i : nat) (fp : params) : ares params :=
  if p_openType fp then
    let index := find_field (p_refName fp) allf i 0 in
    atick (N.of_nat (Nat.min (S index) i))
      (if Nat.eqb index i then aerr E_OPEN_NOFIELD
       else match nth_error allf index, nth_error vals index with
            | Some rf, Some rv => atick (get_ref_calls REF_FUEL (f_ty rf) rv)
                                    (match get_ref REF_FUEL (f_ty rf) rv with
                                     | Ok z => aret (set_ref fp (Some z))
                                     | Err e => aerr e | Panic q => (Panic q, 0) | OutOfFuel => (OutOfFuel, 0) end)
            | _, _ => (Panic P_ILLTYPED, 0)
            end)
  else aret fp.

Section FieldsC.
  Variable rec : ty -> params -> dst -> ares (val * dst).     (* parseFieldC with one unit of fuel less *)

  Fixpoint seqof_elemsC (e : ty) (p' : params) (n : nat) (acc : list val) (s : dst) : ares (val * dst) :=
    match n with
    | O => aret (VList (rev acc), s)
    | S k => atick 1 (doa (v, s') <- rec e p' s; seqof_elemsC e p' k (v :: acc) s')
    end.

  Definition decSequenceOfC (e : ty) (p : params) (sizeExtensed : bool) (s : dst) : ares (val * dst) :=
    let lb := match p_sizeLB p with Some x => if (x <? 65536)%Z then x else 0%Z | None => 0%Z end in
    let sizeRange := match p_sizeUB p with
                     | Some ub => if negb sizeExtensed && (ub <? 65536)%Z then i64 (ub - lb + 1) else (-1)%Z
                     | None => (-1)%Z end in
    doa (numElements, s) <-
      (if (1 <? sizeRange)%Z then
         match parseConstraintValueC s sizeRange with
         | ((Ok n, s'), c) => (Ok (u64 (n + u64z lb), s'), c)
         | ((Err _, s'), c) => (Ok (u64z lb, s'), c)
         | ((Panic p, _), c) => (Panic p, c)
         | ((OutOfFuel, _), c) => (OutOfFuel, c)
         end
       else if (sizeRange =? 1)%Z then aret (u64z lb, s)
       else
         clift (doc (_, s) <- parseAlignBitsC s;
                if len (d_bytes s) <=? d_byteOffset s then cpure (Err E_OUT_OF_RANGE, s)
                else match idx (d_bytes s) (d_byteOffset s) with
                     | Ok b => ((Ok b, mkdst (d_bytes s) (u64 (d_byteOffset s + 1)) (d_bitsOffset s)), 1)
                     | Err e => cpure (Err e, s) | Panic p => cpure (Panic p, s) | OutOfFuel => cpure (OutOfFuel, s)
                     end));
    let p' := clear_size p in
    let intNum := i64n numElements in
    if (intNum <? 0)%Z then (Panic P_MAKE, 0)
    else seqof_elemsC e p' (Z.to_nat intNum) [] s.

  Definition parseOpenTypeC (t : ty) (p : params) (s : dst) : ares (val * dst) :=
    doa (bytes, s) <- clift (open_dec_loopC (S (List.length (d_bytes s))) s []);
    doa (v, _) <- rec t p (mkdst bytes 0 0);
    aret (v, s).

  Fixpoint dec_seq_loopC (allf : list field) (fs : list field) (i : nat) (cnt pres : N) (vals : list val) (s : dst)
    : ares (val * dst) :=
    match fs with
    | [] => aret (VStruct vals, s)
    | f :: fr =>
        atick 1
          (let fp := f_params f in
           let dec := p_optional fp && (0 <? cnt) in
           let cnt' := if dec then cnt - 1 else cnt in
           if dec && (N.land pres (shl64 1 cnt') =? 0) then dec_seq_loopC allf fr (S i) cnt' pres vals s
           else
             doa fp' <- ref_paramsC allf vals i fp;
             doa (v, s') <- rec (f_ty f) fp' s;
             dec_seq_loopC allf fr (S i) cnt' pres (set_nth vals i v) s')
    end.

  (* `for j, param := range structParams`: present+1 iterations when it breaks at j = present, all of them otherwise *)
  Definition alt_search_steps (fs : list field) (present : nat) : N :=
    if Nat.eqb present 0 then len fs else N.of_nat (S present).

  Definition decStructC (fs : list field) (p : params) (valueExtensed : bool) (s : dst) : ares (val * dst) :=
    let optionalCount := count_optional fs in
    atick (len fs)
      (doa (pres, s) <- (if 0 <? optionalCount then clift (getBitsValueC s optionalCount) else aret (0, s));
       let zeros := zero_fields fs in
       if is_choice fs then
         if p_openType p then
           match p_refValue p with
           | None => aerr E_OPEN_NOREF
           | Some refValue =>
               let present := find_alt (tl fs) 1 refValue in
               atick (alt_search_steps fs present)
                 (if Nat.eqb present 0 then aret (VStruct zeros, s)
                  else match nth_error fs present with
                       | None => aerr E_DEC_OPEN_BIG
                       | Some f =>
                           doa (v, s') <- parseOpenTypeC (f_ty f) (f_params f) s;
                           aret (VStruct (set_nth (set_nth zeros 0 (VInt (Z.of_nat present))) present v), s')
                       end)
           end
         else
           match getChoiceIndexC s valueExtensed (p_valueUB p) with
           | ((Panic q, _), c) => (Panic q, c)
           | ((OutOfFuel, _), c) => (OutOfFuel, c)
           | ((Err _, _), c) => (Err E_DEC_PRESENT_0, c)
           | ((Ok present, s), c) =>
               atick c
                 (if (present =? 0)%Z then aerr E_DEC_PRESENT_0
                  else if (present >=? Z.of_nat (List.length fs))%Z then aerr E_DEC_PRESENT_BIG
                  else if (present <? 0)%Z then (Panic P_REFLECT, 0)
                  else match nth_error fs (Z.to_nat present) with
                       | None => (Panic P_REFLECT, 0)
                       | Some f =>
                           doa (v, s') <- rec (f_ty f) (f_params f) s;
                           aret (VStruct (set_nth (set_nth zeros 0 (VInt present)) (Z.to_nat present) v), s')
                       end)
           end
       else dec_seq_loopC fs fs 0 optionalCount pres zeros s).
End FieldsC.

Fixpoint parseFieldC (fuel : nat) (t : ty) (p : params) (s : dst) : ares (val * dst) :=
  match fuel with
  | O => (OutOfFuel, 0)
  | S f =>
      atick 1
        (if d_byteOffset s =? len (d_bytes s) then aerr E_TRUNCATED
         else
           match t with
           | TPtr e => doa (v, s') <- parseFieldC f e p s; aret (VPtr v, s')
           | _ =>
               doa (sizeExtensible, s) <-
                 (if p_sizeExt p then clift (doc (b, s) <- getBitsValueC s 1; cpure (Ok (negb (b =? 0)), s)) else aret (false, s));
               doa (valueExtensible, s) <-
                 (if p_valueExt p && negb (match t with TSlice _ => true | _ => false end)
                  then clift (doc (b, s) <- getBitsValueC s 1; cpure (Ok (negb (b =? 0)), s)) else aret (false, s));
               match t with
               | TBits => doa ((bs, n), s') <- clift (parseBitStringC s sizeExtensible (p_sizeLB p) (p_sizeUB p));
                          aret (VBits bs n, s')
               | TOid => aerr E_OID
               | TOctets | TString =>
                   doa (bs, s') <- clift (parseOctetStringC s sizeExtensible (p_sizeLB p) (p_sizeUB p)); aret (VOctets bs, s')
               | TEnum => doa (n, s') <- clift (parseEnumeratedC s valueExtensible (p_valueLB p) (p_valueUB p)); aret (VEnum n, s')
               | TBool => doa (b, s') <- clift (parseBoolC s); aret (VBool b, s')
               | TInt => doa (z, s') <- clift (parseIntegerC s valueExtensible (p_valueLB p) (p_valueUB p)); aret (VInt z, s')
               | TStruct fs => decStructC (parseFieldC f) fs p valueExtensible s
               | TSlice e => decSequenceOfC (parseFieldC f) e p sizeExtensible s
               | TPtr _ => (Panic P_ILLTYPED, 0)
               end
           end)
  end.

(* steps of UnmarshalWithParams(b, &value, params) *)
Definition unmarshal_costed (fuel : nat) (t : ty) (p : params) (bs : list N) : ares (val * dst) :=
  parseFieldC fuel t p (mkdst bs 0 0).
Definition unmarshal_steps (fuel : nat) (t : ty) (p : params) (bs : list N) : N := snd (unmarshal_costed fuel t p bs).
