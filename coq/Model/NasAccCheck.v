(* C09, sub-field layer: the accessor descriptors regenerated from nasType (Gen/NasAccessors.v) against the field table
   of TS 24.501 clause 9 (Spec/TS24501Fields.v) with the conformance check of Model/NasAccConform.v, and the check functions
   of the correspondence stream "accessors".  Definitions only; the statements are proved in Proofs/NasAccProofs.v. *)
From Coq Require Import NArith Arith Bool String List.
Require Import NasAcc NasAccessors TS24501Fields NasAccConform.
Import ListNotations.
Open Scope string_scope.
Open Scope list_scope.
Open Scope N_scope.

(* ---- differences between the regenerated descriptors and the table *)
Definition acc_diff := (string * string * string)%type.     (* Go type, field of TS 24.501, what *)

Definition field_diffs (ds:list accessor) (c:container) (ty:string) (f:field) : list acc_diff :=
  match find_acc ds ty (f_get f), find_acc ds ty (f_set f) with
  | Some g, Some s =>
      (if fits c (f_kind f) then [] else [(ty, f_name f, "the field does not fit into the Go container")]) ++
      (if get_conforms (f_kind f) (a_body g) then [] else [(ty, f_name f, String.append (f_get f) " does not read exactly the bits of the field")]) ++
      (if set_conforms (f_kind f) (a_body s) then [] else [(ty, f_name f, String.append (f_set f) " does not write exactly the bits of the field")])
  | None, _ => [(ty, f_name f, String.append "no accessor " (f_get f))]
  | _, None => [(ty, f_name f, String.append "no accessor " (f_set f))]
  end.

Definition ie_diffs (ds:list accessor) (ts:list acc_type) (l:ie_layout) : list acc_diff :=
  match find_acc_type ts (ie_go l) with
  | Some t => flat_map (field_diffs ds (at_container t) (ie_go l)) (ie_fields l)
  | None => [(ie_go l, "", "type of the table does not occur in the messages on the path")]
  end.

Definition listed (ty name:string) : bool :=
  match find_ie ty with
  | Some l => existsb (fun f => String.eqb (f_get f) name || String.eqb (f_set f) name) (ie_fields l)
  | None => false end.
Definition in_strs (s:string) (l:list string) : bool := existsb (String.eqb s) l.
Definition in_pairs (a b:string) (l:list (string * string)) : bool := existsb (fun p => String.eqb (fst p) a && String.eqb (snd p) b) l.

(* every type of the messages is in the table or explicitly left out; every accessor of a tabulated type is listed or
   explicitly left out; an accessor the translator did not understand is tolerated only in a type that is left out *)
Definition coverage_diffs (ds:list accessor) (ts:list acc_type) (missing:list string) : list acc_diff :=
  map (fun m => (m, "", "translator: not found in the source")) missing ++
  flat_map (fun t => match find_ie (at_name t) with
                     | Some _ => if in_strs (at_name t) untranscribed_types then [(at_name t, "", "both tabulated and left out")] else []
                     | None => if in_strs (at_name t) untranscribed_types then [] else [(at_name t, "", "type of a message on the path is not in the table")] end) ts ++
  flat_map (fun a => if in_strs (a_type a) untranscribed_types then []
                     else if is_unrecognised (a_body a) then [(a_type a, a_name a, "accessor body outside the recognised shapes")]
                     else if listed (a_type a) (a_name a) || in_pairs (a_type a) (a_name a) untranscribed_accessors then []
                     else [(a_type a, a_name a, "accessor is neither tabulated nor listed as left out")]) ds.

Definition acc_diffs_of (ds:list accessor) (ts:list acc_type) (missing:list string) : list acc_diff :=
  flat_map (ie_diffs ds ts) ts24501_fields ++ coverage_diffs ds ts missing.

Definition acc_diffs : list acc_diff := acc_diffs_of acc_descs acc_types acc_missing.

Definition diff_key (d:acc_diff) : string * string := fst d.
Definition eqb_key (a b:string * string) : bool := String.eqb (fst a) (fst b) && String.eqb (snd a) (snd b).

(* the differences are exactly the listed deviations *)
Definition accessors_ok_except (dev:list (string * string)) : bool :=
  forallb (fun d => existsb (eqb_key (diff_key d)) dev) acc_diffs &&
  forallb (fun k => existsb (fun d => eqb_key (diff_key d) k) acc_diffs) dev.
Definition accessors_ok : bool := accessors_ok_except [].

(* the (type, field, getter, setter, container) tuples that conform: the domain of the semantic theorem *)
Definition conforming_fields : list (string * field * acc_body * acc_body * container) :=
  flat_map (fun l => match find_acc_type acc_types (ie_go l) with
                     | Some t => flat_map (fun f => match find_acc acc_descs (ie_go l) (f_get f), find_acc acc_descs (ie_go l) (f_set f) with
                                                    | Some g, Some s => if field_conforms (at_container t) (f_kind f) (a_body g) (a_body s)
                                                                        then [(ie_go l, f, a_body g, a_body s, at_container t)] else []
                                                    | _, _ => [] end) (ie_fields l)
                     | None => [] end) ts24501_fields.

(* ---- the correspondence stream "accessors": a sequence of REAL setter calls on a value, then REAL getter calls.
   case = (Go type, initial octets, [(setter, value)], [getters], observed: None = panic | Some (octets after, getter results)) *)
Definition acc_case := (string * list N * list (string * aval) * list string * option (list N * list aval))%type.

Definition eqb_aval (a b:aval) : bool :=
  match a, b with
  | inl x, inl y => x =? y
  | inr x, inr y => (length x =? length y)%nat && forallb (fun p => fst p =? snd p) (combine x y)
  | _, _ => false end.
Definition eqb_octs (x y:list N) : bool := (length x =? length y)%nat && forallb (fun p => fst p =? snd p) (combine x y).
Definition eqb_obs (a b:option (list N * list aval)) : bool :=
  match a, b with
  | None, None => true
  | Some (s1, g1), Some (s2, g2) => eqb_octs s1 s2 && (length g1 =? length g2)%nat && forallb (fun p => eqb_aval (fst p) (snd p)) (combine g1 g2)
  | _, _ => false end.

Definition acc_expect (c:acc_case) : option (list N * list aval) :=
  let '(ty, st, ops, gs, _) := c in run_case acc_descs ty st ops gs.
Definition acc_model_check (c:acc_case) : bool :=
  let '(_, _, _, _, obs) := c in eqb_obs obs (acc_expect c).

(* the same calls read off the table: a setter/getter name stands for the field that lists it *)
Definition field_of_setter (ty nm:string) : option field :=
  match find_ie ty with Some l => find (fun f => String.eqb (f_set f) nm) (ie_fields l) | None => None end.
Definition field_of_getter (ty nm:string) : option field :=
  match find_ie ty with Some l => find (fun f => String.eqb (f_get f) nm) (ie_fields l) | None => None end.

Fixpoint spec_sets (ty:string) (ops:list (string * aval)) (st:list N) : option (list N) :=
  match ops with
  | [] => Some st
  | (nm, v) :: r =>
      match field_of_setter ty nm with
      | Some f => match spec_set (f_kind f) st v with Some st' => spec_sets ty r st' | None => None end
      | None => None end
  end.
Fixpoint spec_gets (ty:string) (gs:list string) (st:list N) : option (list aval) :=
  match gs with
  | [] => Some []
  | nm :: r =>
      match field_of_getter ty nm with
      | Some f => match spec_get (f_kind f) st, spec_gets ty r st with Some v, Some vs => Some (v :: vs) | _, _ => None end
      | None => None end
  end.
Definition acc_spec_expect (c:acc_case) : option (list N * list aval) :=
  let '(ty, st, ops, gs, _) := c in
  match spec_sets ty ops st with
  | Some st' => match spec_gets ty gs st' with Some vs => Some (st', vs) | None => None end
  | None => None end.
(* outside the table's domain (value shorter than the field, value that does not fit) the table says nothing *)
Definition acc_spec_check (c:acc_case) : bool :=
  let '(_, _, _, _, obs) := c in
  match acc_spec_expect c with
  | Some e => eqb_obs obs (Some e)
  | None => true end.
(* how many cases the table had something to say about *)
Definition acc_spec_applies (c:acc_case) : bool := match acc_spec_expect c with Some _ => true | None => false end.

(* what the Python side needs to draw cases: per tabulated field (type, [container code; n], [kind code; a; b; c], getter, setter) *)
Definition fields_dump : list (string * list N * list N * string * string) :=
  flat_map (fun l => match find_acc_type acc_types (ie_go l) with
                     | Some t =>
                         let cc := match at_container t with COctet => [0; 1] | CArray n => [1; N.of_nat n] | CBuffer => [2; 0] | CNone => [3; 0] end in
                         map (fun f =>
                                let kc := match f_kind f with
                                          | FBits o hi lo => [0; N.of_nat o; N.of_nat hi; N.of_nat lo]
                                          | FSpan o w => [1; N.of_nat o; N.of_nat w; 0]
                                          | FOctets a b => [2; N.of_nat a; N.of_nat b; 0]
                                          | FRest a => [3; N.of_nat a; 0; 0] end in
                                (ie_go l, cc, kc, f_get f, f_set f)) (ie_fields l)
                     | None => [] end) ts24501_fields.
