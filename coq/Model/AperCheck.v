(* Checkers evaluated by vm_compute over generated cases: observable of the Go code vs the model. *)
From Coq Require Import NArith ZArith List Bool String.
Require Import GoSlice AperCommon AperEnc AperDec NgapSchema.
Import ListNotations.
Open Scope N_scope.

Inductive eobs := EOk (bs : list N) | EErr (code : N) | EPanic.          (* aper.MarshalWithParams *)
Inductive dobs := DOk (v : val) | DErr (code : N) | DPanic | DTimeout.   (* aper.UnmarshalWithParams *)

Definition enc_case := (ty * params * val * eobs)%type.
Definition dec_case := (ty * params * list N * dobs)%type.

Definition enc_model_check (c : enc_case) : bool :=
  let '(t, p, v, o) := c in
  match marshal t p v, o with
  | Ok bs, EOk bs' => list_eqb bs bs'
  | Err e, EErr e' => e =? e'
  | Panic _, EPanic => true
  | _, _ => false
  end.
Definition enc_model_out (c : enc_case) : res (list N) := let '(t, p, v, _) := c in marshal t p v.

Definition dec_fuel (t : ty) : nat := S (S (ty_depth t)).

Definition dec_model_check (c : dec_case) : bool :=
  let '(t, p, bs, o) := c in
  match unmarshal (dec_fuel t) t p bs, o with
  | Ok v, DOk v' => val_eqb v v'
  | Err e, DErr e' => e =? e'
  | Panic _, DPanic => true
  | _, _ => false
  end.
Definition dec_model_out (c : dec_case) : res val := let '(t, p, bs, _) := c in unmarshal (dec_fuel t) t p bs.

(* the C14 observable only: value | error  vs  panic | timeout *)
Definition dec_class_check (c : dec_case) : bool :=
  let '(t, p, bs, o) := c in
  match unmarshal (dec_fuel t) t p bs, o with
  | Ok _, DOk _ | Err _, DErr _ | Panic _, DPanic => true
  | _, _ => false
  end.

(* roots of the NGAP schema by name *)
Fixpoint find_root (n : string) (l : list (string * ty * params * params)) : ty * params * params :=
  match l with
  | [] => (TOid, p_empty, p_empty)
  | (m, t, pe, pd) :: r => if String.eqb n m then (t, pe, pd) else find_root n r
  end.
Definition root_ty (n : string) : ty := fst (fst (find_root n ngap_roots_full)).
Definition root_penc (n : string) : params := snd (fst (find_root n ngap_roots_full)).
Definition root_pdec (n : string) : params := snd (find_root n ngap_roots_full).
Definition ngap_enc_case (n : string) (v : val) (o : eobs) : enc_case := (root_ty n, root_penc n, v, o).
Definition ngap_dec_case (n : string) (bs : list N) (o : dobs) : dec_case := (root_ty n, root_pdec n, bs, o).

(* C14 observable: a decoding call ends with a value or an error *)
Definition dec_total_check (c : dec_case) : bool :=
  let '(_, _, _, o) := c in match o with DOk _ | DErr _ => true | DPanic | DTimeout => false end.

(* NGAP cases carry the root by name so that model (regenerated schema) and specification (frozen TS 38.413
   transcription, Spec/NgapGolden.v) can each pick their own types *)
Definition ngap_ecase := (string * val * eobs)%type.
Definition ngap_enc_model_check (c : ngap_ecase) : bool := let '(n, v, o) := c in enc_model_check (ngap_enc_case n v o).
Definition ngap_enc_model_out (c : ngap_ecase) : res (list N) := let '(n, v, o) := c in enc_model_out (ngap_enc_case n v o).
Definition ngap_ccase := (string * val * list N * dobs)%type.
Definition ngap_canon_model_check (c : ngap_ccase) : bool := let '(n, v, bs, o) := c in dec_model_check (ngap_dec_case n bs o).
Definition ngap_canon_model_out (c : ngap_ccase) : res val := let '(n, v, bs, o) := c in dec_model_out (ngap_dec_case n bs o).
