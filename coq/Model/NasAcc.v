(* C09, sub-field layer: what the accessor methods (getters/setters) of package nasType DO to the octets of an IE value.
   The descriptors (Gen/NasAccessors.v) are regenerated from the Go source by `harness gen-nasacc`; this file gives
   them their meaning.  Definitions only.

   State of an IE value = the octets of its body member: [x] for `Octet uint8`, the N octets of `Octet [N]uint8`, the
   octets of `Buffer []uint8` (len = cap, as the library's SetLen/decoders allocate it).  Octets are N below 256.
   A value handed to / returned by an accessor is a number (uint8, uint16: [inl n]) or an octet string ([N]uint8,
   []uint8: [inr bs]).  A Go panic (index out of range, slice bounds, negative make) is [None]. *)
From Coq Require Import NArith Arith Bool String List.
Import ListNotations.
Open Scope N_scope.

Inductive container := COctet | CArray (n:nat) | CBuffer | CNone.
Inductive comb_op := OpPlus | OpOr.

Inductive acc_body :=
| AGetBits (i:nat) (mask shift:N)                  (* return a.X[i] & mask >> shift                              (uint8) *)
| ASetBits (i:nat) (keep vmask shift:N) (op:comb_op) (* a.X[i] = (a.X[i] & keep) op ((v & vmask) << shift)        (uint8) *)
| AGet16 (i:nat) (sh1:N) (j:nat) (mask2 sh2:N)     (* return uint16(a.X[i])<<sh1 + uint16(a.X[j] & mask2)>>sh2   (uint16) *)
| ASet16 (i:nat) (sh1 m1:N) (j:nat) (keep2 vmask2 sh2:N)
                                                   (* a.X[i] = uint8(v>>sh1) & m1; a.X[j] = a.X[j]&keep2 + uint8(v&vmask2)<<sh2 *)
| AGetOctets (lo hi n:nat)                         (* copy(r[:], a.X[lo:hi]); return r            r [n]uint8 *)
| ASetOctets (lo hi n:nat)                         (* copy(a.X[lo:hi], v[:])                      v [n]uint8 *)
| AGetTail (k:nat)                                 (* r = make([]uint8, len(a.Buffer)-k); copy(r, a.Buffer[k:]); return r *)
| ASetTail (k:nat)                                 (* copy(a.Buffer[k:], v)                       v []uint8 *)
| AUnrecognised (src:string).

Record accessor := mk_acc { a_type : string; a_name : string; a_body : acc_body }.
Record acc_type := mk_acc_type { at_name : string; at_container : container; at_msgs : list string }.

Definition aval := (N + list N)%type.

Fixpoint upd (st:list N) (i:nat) (x:N) : option (list N) :=
  match st, i with
  | [], _ => None
  | _ :: r, O => Some (x :: r)
  | y :: r, S i' => match upd r i' x with Some r' => Some (y :: r') | None => None end
  end.

Definition u8 (x:N) : N := x mod 256.
Definition u16 (x:N) : N := x mod 65536.

Definition comb (op:comb_op) (a b:N) : N := match op with OpPlus => u8 (a + b) | OpOr => N.lor a b end.

(* copy(dst[lo:lo+room], src): min(room, len src) octets *)
Definition copy_into (st:list N) (lo room:nat) (src:list N) : list N :=
  let m := Nat.min room (length src) in firstn lo st ++ firstn m src ++ skipn (lo + m) st.

Definition acc_get (b:acc_body) (st:list N) : option aval :=
  match b with
  | AGetBits i mask sh =>
      match nth_error st i with Some x => Some (inl (N.shiftr (N.land x mask) sh)) | None => None end
  | AGet16 i sh1 j mask2 sh2 =>
      match nth_error st i, nth_error st j with
      | Some x, Some y => Some (inl (u16 (u16 (N.shiftl x sh1) + N.shiftr (N.land y mask2) sh2)))
      | _, _ => None end
  | AGetOctets lo hi n =>
      if (lo <=? hi)%nat && (hi <=? length st)%nat then
        let m := Nat.min n (hi - lo) in Some (inr (firstn m (skipn lo st) ++ repeat 0 (n - m)))
      else None
  | AGetTail k => if (k <=? length st)%nat then Some (inr (skipn k st)) else None
  | _ => None
  end.

Definition acc_set (b:acc_body) (st:list N) (v:aval) : option (list N) :=
  match b, v with
  | ASetBits i keep vmask sh op, inl v =>
      match nth_error st i with
      | Some x => upd st i (comb op (N.land x keep) (u8 (N.shiftl (N.land v vmask) sh)))
      | None => None end
  | ASet16 i sh1 m1 j keep2 vmask2 sh2, inl v =>
      match upd st i (N.land (u8 (N.shiftr v sh1)) m1) with
      | Some st1 =>
          match nth_error st1 j with
          | Some y => upd st1 j (u8 (N.land y keep2 + u8 (N.shiftl (u8 (N.land v vmask2)) sh2)))
          | None => None end
      | None => None end
  | ASetOctets lo hi n, inr v =>
      if (lo <=? hi)%nat && (hi <=? length st)%nat && (length v =? n)%nat then Some (copy_into st lo (hi - lo) v) else None
  | ASetTail k, inr v =>
      if (k <=? length st)%nat then Some (copy_into st k (length st - k) v) else None
  | _, _ => None
  end.

(* ---- lookups *)
Definition find_acc (ds:list accessor) (ty name:string) : option accessor :=
  find (fun a => String.eqb (a_type a) ty && String.eqb (a_name a) name) ds.
Definition find_acc_type (ts:list acc_type) (ty:string) : option acc_type :=
  find (fun t => String.eqb (at_name t) ty) ts.

Definition is_unrecognised (b:acc_body) : bool := match b with AUnrecognised _ => true | _ => false end.
Definition is_getter (b:acc_body) : bool :=
  match b with AGetBits _ _ _ | AGet16 _ _ _ _ _ | AGetOctets _ _ _ | AGetTail _ => true | _ => false end.

(* the state the zero value of the Go type has / a state of the container's size *)
Definition container_len_ok (c:container) (st:list N) : bool :=
  match c with COctet => (length st =? 1)%nat | CArray n => (length st =? n)%nat | CBuffer => true | CNone => false end.

Definition octets_ok (st:list N) : bool := forallb (fun x => x <? 256) st.

(* ---- a sequence of accessor calls on one value: setters in order, then getters on the result *)
Fixpoint run_sets (ds:list accessor) (ty:string) (ops:list (string * aval)) (st:list N) : option (list N) :=
  match ops with
  | [] => Some st
  | (nm, v) :: r =>
      match find_acc ds ty nm with
      | Some a => match acc_set (a_body a) st v with Some st' => run_sets ds ty r st' | None => None end
      | None => None end
  end.
Fixpoint run_gets (ds:list accessor) (ty:string) (gs:list string) (st:list N) : option (list aval) :=
  match gs with
  | [] => Some []
  | nm :: r =>
      match find_acc ds ty nm with
      | Some a => match acc_get (a_body a) st, run_gets ds ty r st with Some v, Some vs => Some (v :: vs) | _, _ => None end
      | None => None end
  end.
Definition run_case (ds:list accessor) (ty:string) (st:list N) (ops:list (string * aval)) (gs:list string) : option (list N * list aval) :=
  match run_sets ds ty ops st with
  | Some st' => match run_gets ds ty gs st' with Some vs => Some (st', vs) | None => None end
  | None => None end.

Example acc_uplink_downlink :
  run_case [mk_acc "T" "SetUp" (ASetBits 0 0 255 0 OpPlus); mk_acc "T" "SetDown" (ASetBits 1 0 255 0 OpPlus);
            mk_acc "T" "GetUp" (AGetBits 0 255 0); mk_acc "T" "GetDown" (AGetBits 1 255 0)]
           "T" [0; 0] [("SetUp"%string, inl 0x11); ("SetDown"%string, inl 0xEE)] ["GetUp"%string; "GetDown"%string]
  = Some ([0x11; 0xEE], [inl 0x11; inl 0xEE]).
Proof. vm_compute. reflexivity. Qed.
Example acc_nibbles :
  acc_set (ASetBits 0 143 7 4 OpPlus) [0xFF] (inl 2) = Some [0xAF] /\ acc_get (AGetBits 0 112 4) [0xAF] = Some (inl 2).
Proof. vm_compute. split; reflexivity. Qed.
Example acc_short_buffer_panics : acc_get (AGetBits 3 255 0) [1; 2; 3] = None /\ acc_get (AGetTail 2) [1] = None.
Proof. vm_compute. split; reflexivity. Qed.
